import VrpProofs.C10.Algo
import VrpProofs.C10.Windows
/-!
# C10 — every rule function reports its code exactly when the documented rule is broken
(`Validate.eNNNN d = Rules.violates d .ENNNN`, one lemma per rule)
-/
set_option linter.unusedSimpArgs false
set_option linter.unusedVariables false
namespace C10
open Validate Rules

/-! ## the typed-task view versus the four optional lists -/

theorem tasksOf_eq (j : Job) :
    tasksOf j = optList j.pickups ++ optList j.deliveries ++ optList j.replacements ++ optList j.services := by
  simp [tasksOf, typedTasks, List.map_append, List.map_map, Function.comp_def]

theorem ctxTasks_eq (j : Job) : ctxTasks j = tasksOf j := by
  rw [tasksOf_eq]; rfl

theorem any_allTasksIter (j : Job) (p : Task → Bool) : (allTasksIter j).any p = (tasksOf j).any p := by
  rw [tasksOf_eq]
  simp only [allTasksIter, List.any_append]
  cases (optList j.pickups).any p <;> cases (optList j.deliveries).any p <;>
    cases (optList j.services).any p <;> cases (optList j.replacements).any p <;> rfl

theorem typedTasks_any (j : Job) (f : TaskKind → Task → Bool) :
    (typedTasks j).any (fun kt => f kt.1 kt.2)
      = ((optList j.pickups).any (f .pickup) || (optList j.deliveries).any (f .delivery)
        || (optList j.replacements).any (f .replacement) || (optList j.services).any (f .service)) := by
  simp [typedTasks, List.any_append, List.any_map, Function.comp_def, Bool.or_assoc]

theorem typedTasks_isEmpty (j : Job) : (typedTasks j).isEmpty = (tasksOf j).isEmpty := by
  simp [tasksOf]

theorem any_filterMap' {α β : Type} (f : α → Option β) (q : β → Bool) (l : List α) :
    (l.filterMap f).any q = l.any (fun x => (f x).any q) := by
  induction l with
  | nil => rfl
  | cons x xs ih =>
    simp only [List.filterMap_cons, List.any_cons]
    cases h : f x with
    | none => simpa using ih
    | some y => simp [ih]

theorem all_filterMap' {α β : Type} (f : α → Option β) (q : β → Bool) (l : List α) :
    (l.filterMap f).all q = l.all (fun x => (f x).all q) := by
  induction l with
  | nil => rfl
  | cons x xs ih =>
    simp only [List.filterMap_cons, List.all_cons]
    cases h : f x with
    | none => simpa using ih
    | some y => simp [ih]

/-! ## E11xx -/

theorem fires_E1100 (d : Doc) : e1100 d = violates d .E1100 := hasDuplicates_eq _

theorem fires_E1101 (d : Doc) : e1101 d = violates d .E1101 := by
  unfold e1101 violates
  rw [not_isEmpty_filter]
  apply any_congr'
  intro j _
  have := typedTasks_any j (fun k t => if k = TaskKind.service then t.demand.isSome else t.demand.isNone)
  rw [this]
  simp [List.any_append, Bool.or_assoc]

theorem fires_E1102 (d : Doc) : e1102 d = violates d .E1102 := by
  unfold e1102 violates
  rw [not_isEmpty_filter]
  apply any_congr'
  intro j _
  simp only [e1102_sum_equation, Bool.and_assoc]

theorem hasInvalidTws_eq (ts : Option (List Task)) :
    hasInvalidTws ts = (optList ts).any (fun t => t.places.any (fun p => p.times.any (fun tws => !twListOk tws false))) := by
  unfold hasInvalidTws
  apply any_congr'
  intro t _
  rw [any_filterMap']
  apply any_congr'
  intro p _
  cases p.times with
  | none => rfl
  | some tws => simp [checkRaw_eq]

theorem fires_E1103 (d : Doc) : e1103 d = violates d .E1103 := by
  unfold e1103 violates
  rw [not_isEmpty_filter]
  apply any_congr'
  intro j _
  rw [tasksOf_eq]
  simp only [hasInvalidTws_eq, List.any_append]

theorem fires_E1104 (d : Doc) : e1104 d = violates d .E1104 := by
  unfold e1104 violates
  rw [not_isEmpty_filter]
  rfl

theorem fires_E1105 (d : Doc) : e1105 d = violates d .E1105 := by
  unfold e1105 violates
  rw [not_isEmpty_filter]
  apply any_congr'
  intro j _
  rw [ctxTasks_eq, typedTasks_isEmpty]

theorem fires_E1106 (d : Doc) : e1106 d = violates d .E1106 := by
  unfold e1106 violates
  rw [not_isEmpty_filter]
  apply any_congr'
  intro j _
  rw [ctxTasks_eq, List.any_flatMap]
  apply any_congr'
  intro t _
  rw [List.any_map]
  rfl

theorem fires_E1107 (d : Doc) : e1107 d = violates d .E1107 := by
  unfold e1107 violates
  rw [not_isEmpty_filter]
  apply any_congr'
  intro j _
  rw [ctxTasks_eq]
  apply any_congr'
  intro t _
  cases t.demand <;> simp




/-! ## E13xx -/

theorem not_all_eq_any {α : Type} (p : α → Bool) (l : List α) : (!l.all p) = l.any (fun x => !p x) := by
  induction l with
  | nil => rfl
  | cons x xs ih => simp only [List.all_cons, List.any_cons, Bool.not_and, ih]

theorem invalidTypes_nonempty (d : Doc) (ok : Shift → Bool) :
    (!(invalidTypes d ok).isEmpty) = d.vehicles.any (fun v => v.shifts.any (fun s => !ok s)) := by
  unfold invalidTypes
  rw [not_isEmpty_map, not_isEmpty_filter]
  apply any_congr'
  intro v _
  exact not_all_eq_any _ _

theorem fires_E1300 (d : Doc) : e1300 d = violates d .E1300 := hasDuplicates_eq _
theorem fires_E1301 (d : Doc) : e1301 d = violates d .E1301 := hasDuplicates_eq _

theorem parseTw_shiftRaw (s : Shift) : parseTw (shiftRaw s) = shiftSpan s := by
  unfold shiftRaw shiftSpan parseTw
  cases hs : s.startE with
  | bad => cases s.end_ <;> simp [tw2]
  | «at» a =>
    cases he : s.end_ with
    | none => simp [tw2]
    | some e => cases hl : e.latest <;> simp [tw2, hl]

theorem optionalDatesOk_eq (s : Shift) : optionalDatesOk s = !optionalDateBad s := by
  unfold optionalDatesOk optionalDateBad
  cases hl : s.startL with
  | none =>
    cases he : s.end_ with
    | none => simp
    | some e =>
      cases hee : e.earliest with
      | none => simp [hee]
      | some t => cases t <;> simp [hee, bne]
  | some t =>
    cases t with
    | bad => simp
    | «at» a =>
      cases he : s.end_ with
      | none => simp [bne]
      | some e =>
        cases hee : e.earliest with
        | none => simp [hee, bne]
        | some t => cases t <;> simp [hee, bne]

theorem fires_E1302 (d : Doc) : e1302 d = violates d .E1302 := by
  unfold e1302 violates
  rw [not_isEmpty_filter]
  apply any_congr'
  intro v _
  rw [checkRaw_eq, twListOk_eq_opt, List.map_map, Bool.not_and, not_all_eq_any]
  congr 1
  · congr 2
    apply List.map_congr_left
    intro s _
    exact parseTw_shiftRaw s
  · apply any_congr'
    intro s _
    rw [optionalDatesOk_eq, Bool.not_not]

theorem breakTw_eq (s : Shift) (b : Break) : breakTw s b = breakWindow s b := by
  cases b with
  | optTw tw locs => rfl
  | optOff off locs =>
    unfold breakTw breakWindow
    by_cases h : off.length = 2 <;> simp [h]
  | reqOff e l dur => rfl
  | reqExact e l dur =>
    unfold breakTw breakWindow
    cases e <;> cases l <;> simp [tw2]

theorem shiftTime_eq (s : Shift) : shiftTime s = shiftWindow s := by
  unfold shiftTime shiftWindow
  cases hs : s.startE with
  | bad => cases s.end_ <;> simp [tw2]
  | «at» a =>
    cases he : s.end_ with
    | none => simp [tw2]
    | some e => cases hl : e.latest <;> simp [tw2, hl]

theorem checkShiftTws_eq (s : Shift) (tws : List (Option TW)) (skip : Bool) :
    checkShiftTws (shiftTime s) tws skip = (tws.isEmpty || (twOptListOk tws skip && insideShift s tws)) := by
  unfold checkShiftTws insideShift
  rw [windows_sorted_adjacent_iff_pairwise, shiftTime_eq]
  cases shiftWindow s with
  | none => rfl
  | some t =>
    simp only []
    congr 2
    rw [all_filterMap']
    apply all_congr'
    intro w _
    cases w <;> rfl

theorem fires_E1303 (d : Doc) : e1303 d = violates d .E1303 := by
  unfold e1303 violates
  rw [invalidTypes_nonempty]
  apply any_congr'
  intro v _
  apply any_congr'
  intro s _
  cases hb : s.breaks with
  | none => rfl
  | some bs =>
    simp only []
    rw [checkShiftTws_eq, Bool.not_or]
    have : bs.filterMap (breakTw s) = bs.filterMap (breakWindow s) := by
      congr 1; funext b; exact breakTw_eq s b
    rw [this]

theorem fires_E1304 (d : Doc) : e1304 d = violates d .E1304 := by
  unfold e1304 violates
  rw [invalidTypes_nonempty]
  apply any_congr'
  intro v _
  apply any_congr'
  intro s _
  have hraw : ((reloadLikeTimes s).filterMap id)
      = (optList s.reloads).filterMap (·.times) ++ (optList s.recharges).filterMap (·.times) := by
    unfold reloadLikeTimes
    rw [List.filterMap_append, List.filterMap_map, List.filterMap_map]
    rfl
  rw [hraw, checkShiftTws_eq, Bool.not_or]
  simp only [twListOk_eq_opt]
  congr 1
  cases (((optList s.reloads).filterMap (·.times) ++ (optList s.recharges).filterMap (·.times)).flatMap id) <;> rfl

theorem fires_E1306 (d : Doc) : e1306 d = violates d .E1306 := by
  unfold e1306 violates
  rw [not_isEmpty_filter]

theorem isOffsetBreak_eq : isOffsetBreak = usesOffset := by
  funext b; cases b <;> rfl

theorem fires_E1307 (d : Doc) : e1307 d = violates d .E1307 := by
  unfold e1307 violates
  rw [invalidTypes_nonempty]
  apply any_congr'
  intro v _
  apply any_congr'
  intro s _
  rw [isOffsetBreak_eq]
  cases hb : s.breaks with
  | none => simp [optList]
  | some bs =>
    simp only [optList, Option.getD_some, Bool.not_not]
    congr 1
    cases hl : s.startL with
    | none => simp
    | some l => simp [bne]

theorem fires_E1308 (d : Doc) : e1308 d = violates d .E1308 := by
  unfold e1308 violates
  simp only []
  by_cases hn : ((optList d.resources).map (·.id)).Nodup
  · have h1 : (dedup ((optList d.resources).map (·.id))).length = ((optList d.resources).map (·.id)).length :=
      (dedup_length_eq_iff _).mpr hn
    have h2 : nodupB ((optList d.resources).map (·.id)) = true := (nodupB_iff _).mpr hn
    rw [h2]
    simp only [h1, bne_self_eq_false, Bool.false_eq_true, if_false, Bool.not_true, Bool.false_or]
    rw [invalidTypes_nonempty]
    apply any_congr'
    intro v _
    apply any_congr'
    intro s _
    rw [all_filterMap', not_all_eq_any]
    apply any_congr'
    intro r _
    cases r.res <;> simp
  · have h1 : (dedup ((optList d.resources).map (·.id))).length ≠ ((optList d.resources).map (·.id)).length :=
      fun h => hn ((dedup_length_eq_iff _).mp h)
    have h2 : nodupB ((optList d.resources).map (·.id)) = false := by
      cases hb : nodupB ((optList d.resources).map (·.id)) with
      | false => rfl
      | true => exact absurd ((nodupB_iff _).mp hb) hn
    rw [h2]
    have h3 : (((optList d.resources).map (·.id)).length != (dedup ((optList d.resources).map (·.id))).length) = true := by
      rw [bne_iff_ne]; exact fun h => h1 h.symm
    simp only [h3, if_true, Bool.not_false, Bool.true_or]





/-! ## E15xx -/

theorem breakLocs_eq : breakLocs = breakPlaces := by
  funext b; cases b <;> rfl

theorem shiftLocs_eq (s : Shift) : shiftLocs s = shiftLocations s := by
  unfold shiftLocs shiftLocations
  rw [breakLocs_eq]
  cases s.end_ <;> simp

theorem allLocs_eq (d : Doc) : allLocs d = locations d := by
  unfold allLocs locations
  congr 1
  · congr 1
    funext j
    unfold jobLocs
    rw [tasksOf_eq]
  · congr 1
    funext v
    congr 1
    funext s
    exact shiftLocs_eq s

theorem not_isIdx (l : Loc) : (!l.isIdx) = l.isCoord := by cases l <;> rfl

theorem fires_E1500 (d : Doc) : e1500 d = violates d .E1500 := hasDuplicates_eq _
theorem fires_E1501 (d : Doc) : e1501 d = violates d .E1501 := rfl

theorem fires_E1502 (d : Doc) : e1502 d = violates d .E1502 := by
  unfold e1502 violates hasCoordinates hasIndices
  rw [allLocs_eq]
  congr 1
  apply any_congr'
  intro l _
  exact not_isIdx l

theorem fires_E1503 (d : Doc) : e1503 d = violates d .E1503 := by
  unfold e1503 violates hasIndices
  rw [allLocs_eq]

/-- `max_matrix_index + 1` is the matrix dimension the documented rule asks for -/
theorem maxMatrixIndex_succ (d : Doc) : maxMatrixIndex d + 1 = requiredSize d := by
  unfold maxMatrixIndex requiredSize coordKeys
  rw [allLocs_eq]
  obtain ⟨hnd, hmem⟩ := dedup_spec (locations d)
  have hk : (dedup (locations d)).length = distinctCount (locations d) :=
    (distinctCount_eq (locations d) (dedup (locations d)) hnd hmem).symm
  have hm : ((dedup (locations d)).map Loc.refIndex).foldl max 0 = ((locations d).map Loc.refIndex).foldl max 0 :=
    foldl_max_congr _ _ _ hmem
  simp only []
  rw [hk, hm, foldl_max_succ]
  by_cases hany : (locations d).any Loc.isIdx = true
  · simp only [hany, if_true]; omega
  · have h' : (locations d).any Loc.isIdx = false := by simpa using hany
    rw [foldl_max_refIndex_zero _ h']
    simp only [h', Bool.false_eq_true, if_false]
    omega

/-- **E1504**: `max_index + 1 == round(sqrt(len₀))` and every matrix has `size²` entries, exactly when
    every matrix is square of the dimension the locations need -/
theorem e1504_matrix_dim (d : Doc) : e1504 d = violates d .E1504 := by
  unfold e1504 violates
  cases hm : d.matrices with
  | nil => rfl
  | cons m rest =>
    simp only []
    rw [maxMatrixIndex_succ]
    generalize requiredSize d = req
    have key : (req == roundSqrt m.dist && (m :: rest).all (fun m' => m'.dist == roundSqrt m.dist * roundSqrt m.dist))
        = (m :: rest).all (fun m' => isSquareOf m'.dist req) := by
      apply bool_eq_iff.mpr
      simp only [Bool.and_eq_true, beq_iff_eq, List.all_eq_true, isSquareOf]
      constructor
      · rintro ⟨h1, h2⟩ m' hm'
        rw [h1]; exact (h2 m' hm').symm
      · intro h
        have h0 : req * req = m.dist := h m (by simp)
        have hs : roundSqrt m.dist = req := by rw [← h0]; exact roundSqrt_sq req
        refine ⟨hs.symm, ?_⟩
        intro m' hm'
        rw [hs]; exact (h m' hm').symm
    rw [key, not_all_eq_any]

theorem fires_E1505 (d : Doc) : e1505 d = violates d .E1505 := by
  unfold e1505 violates
  rw [not_isEmpty_filter, List.any_append, List.any_map]
  congr 1
  cases d.clustering <;> simp

/-! ## E16xx -/

theorem hasValueJobs_eq (d : Doc) : hasValueJobs d = jobHasValue d := by
  unfold hasValueJobs jobHasValue
  rw [any_filterMap']

theorem hasOrderJobs_eq (d : Doc) : hasOrderJobs d = jobHasOrder d := by
  unfold hasOrderJobs jobHasOrder
  rw [any_filterMap', List.any_flatMap]
  apply any_congr'
  intro j _
  rw [any_allTasksIter]

theorem fires_E1600 (d : Doc) : fires d .E1600 = violates d .E1600 := by
  unfold fires violates
  cases d.objectives <;> rfl

theorem fires_E1601 (d : Doc) : fires d .E1601 = violates d .E1601 := by
  unfold fires violates
  cases d.objectives with
  | none => rfl
  | some os => exact e1601_iff os

theorem fires_E1602 (d : Doc) : fires d .E1602 = violates d .E1602 := by
  unfold fires violates
  cases d.objectives with
  | none => rfl
  | some os =>
    simp only [e1602, any_isCost_iff, Bool.not_not, leafCount_eq_count]

theorem fires_E1603 (d : Doc) : fires d .E1603 = violates d .E1603 := by
  unfold fires violates
  cases d.objectives with
  | none => rfl
  | some os =>
    simp only [e1603, any_beq_iff_count, leafCount_eq_count, hasValueJobs_eq]

theorem fires_E1604 (d : Doc) : fires d .E1604 = violates d .E1604 := by
  unfold fires violates
  cases d.objectives with
  | none => rfl
  | some os =>
    simp only [e1604, any_beq_iff_count, leafCount_eq_count, hasOrderJobs_eq]

theorem fires_E1605 (d : Doc) : fires d .E1605 = violates d .E1605 := by
  unfold fires violates
  cases d.objectives with
  | none => rfl
  | some os =>
    simp only [e1605]
    rw [not_isEmpty_filter]
    apply any_congr'
    intro j _
    rw [any_filterMap', any_allTasksIter, Bool.or_comm]

theorem fires_E1606 (d : Doc) : fires d .E1606 = violates d .E1606 := by
  unfold fires violates
  cases d.objectives with
  | none => rfl
  | some os =>
    simp only [e1606, filter_isCost_length, leafCount_eq_count]

theorem fires_E1607 (d : Doc) : fires d .E1607 = violates d .E1607 := by
  unfold fires violates
  cases d.objectives with
  | none => rfl
  | some os =>
    simp only [e1607, any_beq_iff_count, leafCount_eq_count, hasValueJobs_eq]
    cases hos : os.isEmpty with
    | true => simp
    | false =>
      simp only [Bool.false_eq_true, if_false, Bool.not_false, Bool.true_and]
      congr 1
      cases h : (flatten os).count ObjKind.maxValue with
      | zero => simp
      | succ n => simp





/-! ## id lookups -/

theorem job?_go (jobs : List Job) (id : String) (acc : Option Job) :
    (jobs.foldl (fun acc j => if j.id == id then some j else acc) acc).isSome
      = (acc.isSome || (jobs.map (·.id)).contains id) := by
  induction jobs generalizing acc with
  | nil => simp
  | cons j rest ih =>
    rw [List.foldl_cons, ih]
    by_cases h : j.id = id
    · simp [h]
    · have h1 : (j.id == id) = false := by simpa using h
      have h3 : ¬ id = j.id := fun e => h e.symm
      simp [h1, h3]

/-- an id resolves to a job exactly when some job of the plan carries it -/
theorem job?_isSome (d : Doc) (id : String) : (d.job? id).isSome = (d.jobs.map (·.id)).contains id := by
  unfold Doc.job?
  rw [job?_go]; rfl

theorem job?_id_go (jobs : List Job) (id : String) (acc : Option Job) (hacc : ∀ a, acc = some a → a.id = id) :
    ∀ jb, jobs.foldl (fun acc j => if j.id == id then some j else acc) acc = some jb → jb.id = id := by
  induction jobs generalizing acc with
  | nil => simpa using hacc
  | cons j rest ih =>
    rw [List.foldl_cons]
    apply ih
    intro a ha
    by_cases h : j.id = id
    · have : (j.id == id) = true := by simpa using h
      rw [this] at ha
      simp at ha
      rw [← ha]; exact h
    · have : (j.id == id) = false := by simpa using h
      rw [this] at ha
      exact hacc a (by simpa using ha)

/-- the job an id resolves to carries that id -/
theorem job?_id (d : Doc) (id : String) (jb : Job) (h : d.job? id = some jb) : jb.id = id :=
  job?_id_go d.jobs id none (by simp) jb h

theorem vehOf?_go (vs : List Veh) (vid : String) (acc : Option Veh) :
    (vs.foldl (fun acc v => if v.ids.contains vid then some v else acc) acc).isSome
      = (acc.isSome || (vs.flatMap (·.ids)).contains vid) := by
  induction vs generalizing acc with
  | nil => simp
  | cons v rest ih =>
    rw [List.foldl_cons, ih]
    cases h : v.ids.contains vid with
    | true =>
      have : vid ∈ v.ids := by simpa using h
      simp [this]
    | false =>
      have : vid ∉ v.ids := by simpa using h
      simp [this]

/-- a vehicle id resolves to a vehicle type exactly when some type lists it -/
theorem vehOf?_isSome (d : Doc) (vid : String) : (d.vehOf? vid).isSome = (d.vehicles.flatMap (·.ids)).contains vid := by
  unfold Doc.vehOf?
  rw [vehOf?_go]; rfl

theorem isNone_eq_not_isSome {α : Type} (o : Option α) : o.isNone = !o.isSome := by cases o <;> rfl

/-! ## E12xx -/

theorem fires_E1200 (d : Doc) : fires d .E1200 = violates d .E1200 := by
  unfold fires violates
  cases d.relations with
  | none => rfl
  | some rs =>
    simp only [e1200, optList, Option.getD_some]
    rw [not_isEmpty_flatMap]
    apply any_congr'
    intro r _
    rw [not_isEmpty_filter, List.any_filter]
    apply any_congr'
    intro j _
    rw [isNone_eq_not_isSome, job?_isSome]
    rfl

theorem fires_E1201 (d : Doc) : fires d .E1201 = violates d .E1201 := by
  unfold fires violates
  cases d.relations with
  | none => rfl
  | some rs =>
    simp only [e1201, optList, Option.getD_some]
    rw [not_isEmpty_filter, List.any_map]
    apply any_congr'
    intro r _
    simp only [Function.comp, isNone_eq_not_isSome, vehOf?_isSome]

theorem fires_E1202 (d : Doc) : fires d .E1202 = violates d .E1202 := by
  unfold fires violates
  cases d.relations with
  | none => rfl
  | some rs =>
    simp only [e1202, optList, Option.getD_some]
    apply any_congr'
    intro r _
    induction r.jobs with
    | nil => rfl
    | cons j js ih =>
      simp only [List.any_cons, List.all_cons, Bool.not_or, Bool.not_not, ih]
      rfl

/-- E1203 (S20): the specification applies the rule to relations of EVERY type. The error index says "strict or
    sequence relation", but `docs/src/concepts/pragmatic/problem/relations.md` ("relation with jobs which have
    multiple pickups or deliveries places are not yet supported"), the pinned unit test
    `can_detect_multi_place_time_window_jobs::case03` (RelationType::Any ⇒ E1203) and vrp-core's
    `create_insertion_context` (asserts one place and one window for the jobs of locks of every order, `Any`
    included) all agree with the code; only the sentence in the index is too narrow (no code defect). -/
theorem fires_E1203 (d : Doc) : fires d .E1203 = violates d .E1203 := by
  unfold fires violates
  cases d.relations with
  | none => rfl
  | some rs =>
    simp only [e1203, optList, Option.getD_some]
    rw [not_isEmpty_flatMap]
    apply any_congr'
    intro r _
    rw [not_isEmpty_map, not_isEmpty_filter, any_filterMap', List.any_filter]
    apply any_congr'
    intro j _
    congr 1
    cases d.job? j with
    | none => rfl
    | some jb =>
      simp only [Option.any_some, ctxTasks_eq]
      rfl

theorem fires_E1204 (d : Doc) : fires d .E1204 = violates d .E1204 := by
  unfold fires violates
  cases d.relations with
  | none => rfl
  | some rs =>
    simp only [optList, Option.getD_some]
    apply bool_eq_iff.mpr
    rw [e1204_first_vehicle_map]
    simp only [List.any_eq_true, Bool.and_eq_true, bne_iff_ne, ne_eq, Bool.not_eq_true', List.contains_iff_mem]
    constructor
    · rintro ⟨r1, hr1, r2, hr2, hne, j, hres, hj1, hj2⟩
      exact ⟨r1, hr1, r2, hr2, hne, j, hj1, hres, hj2⟩
    · rintro ⟨r1, hr1, r2, hr2, hne, j, hj1, hres, hj2⟩
      exact ⟨r1, hr1, r2, hr2, hne, j, hres, hj1, hj2⟩

theorem isNone_getElem? {α : Type} (l : List α) (i : Nat) : (l[i]?).isNone = decide (l.length ≤ i) := by
  apply bool_eq_iff.mpr
  simp [Option.isNone_iff_eq_none]

theorem fires_E1205 (d : Doc) : fires d .E1205 = violates d .E1205 := by
  unfold fires violates
  cases d.relations with
  | none => rfl
  | some rs =>
    simp only [e1205, optList, Option.getD_some]
    rw [not_isEmpty_filter]
    apply any_congr'
    intro r _
    cases d.vehOf? r.vehicle with
    | none => rfl
    | some v => simp only [Option.any_some, isNone_getElem?]

theorem isOptionalBreak_eq : isOptionalBreak = isOptional := by
  funext b; cases b <;> rfl

theorem countStr_eq (id : String) (ids : List String) : countStr id ids = countId id ids := by
  unfold countStr countId
  rw [List.count_eq_countP, List.countP_eq_length_filter]

theorem fires_E1206 (d : Doc) : fires d .E1206 = violates d .E1206 := by
  unfold fires violates
  cases d.relations with
  | none => rfl
  | some rs =>
    simp only [e1206, optList, Option.getD_some]
    rw [not_isEmpty_filter]
    apply any_congr'
    intro r _
    unfold relShift?
    cases d.vehOf? r.vehicle with
    | none => rfl
    | some v =>
      simp only [Option.any_some]
      cases v.shifts[r.shift.getD 0]? with
      | none => rfl
      | some s =>
        simp only [Option.any_some, countStr_eq, isOptionalBreak_eq, optionalBreaks, optList]
        have harr : decide (countId "arrival" r.jobs > 0) = r.jobs.contains "arrival" := by
          apply bool_eq_iff.mpr
          simp [countId, List.count_pos_iff]
        rw [harr]
        cases s.reloads <;> cases s.recharges <;> rfl

theorem taskCount_eq (j : Job) : taskCount j = (typedTasks j).length := by
  simp [taskCount, typedTasks]; omega

theorem fires_E1207 (d : Doc) : fires d .E1207 = violates d .E1207 := by
  unfold fires violates
  cases d.relations with
  | none => rfl
  | some rs =>
    simp only [e1207, optList, Option.getD_some]
    rw [not_isEmpty_flatMap]
    apply any_congr'
    intro r _
    rw [not_isEmpty_map, not_isEmpty_filter, any_filterMap']
    apply any_congr'
    intro j _
    cases hj : d.job? j with
    | none => rfl
    | some jb =>
      simp only [Option.any_some, e1207_frequency, taskCount_eq, job?_id d j jb hj, countId]

end C10
