import VrpProofs.C10.Lists
/-!
# C10 — the sort-then-adjacent time-window check decides the documented criteria
(E1103, E1302, E1303, E1304; `validation/common.rs::check_time_windows` in its repaired `all` form)
-/
set_option linter.unusedSimpArgs false
set_option linter.unusedVariables false
namespace C10
open Validate Rules

/-! ## the sort -/

theorem insertTw_perm (x : TW) (l : List TW) : (insertTw x l).Perm (x :: l) := by
  induction l with
  | nil => simp [insertTw]
  | cons y ys ih =>
    unfold insertTw
    split
    · exact List.Perm.refl _
    · exact (List.Perm.cons y ih).trans (List.Perm.swap x y ys)

theorem sortTw_perm (l : List TW) : (sortTw l).Perm l := by
  induction l with
  | nil => simp [sortTw]
  | cons x xs ih =>
    unfold sortTw
    exact (insertTw_perm x (sortTw xs)).trans (List.Perm.cons x ih)

theorem insertTw_sorted (x : TW) (l : List TW) (h : l.Pairwise (fun a b => a.s ≤ b.s)) :
    (insertTw x l).Pairwise (fun a b => a.s ≤ b.s) := by
  induction l with
  | nil => simp [insertTw]
  | cons y ys ih =>
    rw [List.pairwise_cons] at h
    unfold insertTw
    split
    · rename_i hxy
      rw [List.pairwise_cons]
      refine ⟨?_, List.pairwise_cons.mpr h⟩
      intro a ha
      rcases List.mem_cons.mp ha with rfl | ha
      · exact hxy
      · exact Int.le_trans hxy (h.1 a ha)
    · rename_i hxy
      rw [List.pairwise_cons]
      refine ⟨?_, ih h.2⟩
      intro a ha
      have := (insertTw_perm x ys).mem_iff.mp ha
      rcases List.mem_cons.mp this with rfl | ha'
      · omega
      · exact h.1 a ha'

theorem sortTw_sorted (l : List TW) : (sortTw l).Pairwise (fun a b => a.s ≤ b.s) := by
  induction l with
  | nil => simp [sortTw]
  | cons x xs ih => unfold sortTw; exact insertTw_sorted x _ ih

/-! ## the adjacent check on a sorted list -/

/-- the criteria on structured windows: each `start ≤ end`, no two intersect (unless skipped) -/
def TwSpec (skip : Bool) (l : List TW) : Prop :=
  (∀ a ∈ l, a.valid = true) ∧ (skip = true ∨ l.Pairwise (fun a b => a.intersects b = false))

theorem adjOk_cons2 (skip : Bool) (a b : TW) (r : List TW) :
    adjOk skip (a :: b :: r) = (a.valid && b.valid && (skip || !a.intersects b) && adjOk skip (b :: r)) := by
  rw [adjOk]

theorem adjOk_iff_sorted (skip : Bool) : ∀ (l : List TW), l.Pairwise (fun a b => a.s ≤ b.s) → 2 ≤ l.length →
    (adjOk skip l = true ↔ TwSpec skip l) := by
  intro l
  induction l with
  | nil => intro _ h; simp at h
  | cons a rest ih =>
    intro hs hlen
    cases rest with
    | nil => simp at hlen
    | cons b r =>
      rw [adjOk_cons2]
      rw [List.pairwise_cons] at hs
      obtain ⟨hab, hs'⟩ := hs
      cases r with
      | nil =>
        have hab' := hab b (by simp)
        cases skip <;> simp [adjOk, TwSpec, TW.valid, TW.intersects]
        intro h1 h2; omega
      | cons c r' =>
        have ih' := ih hs' (by simp)
        simp only [Bool.and_eq_true, ih', TwSpec, List.mem_cons, Bool.or_eq_true, Bool.not_eq_true']
        constructor
        · rintro ⟨⟨⟨ha, hb⟩, hnab⟩, hv, hp⟩
          refine ⟨?_, ?_⟩
          · intro x hx
            rcases hx with rfl | hx
            · exact ha
            · exact hv x hx
          · rcases hnab with hsk | hnab
            · exact Or.inl hsk
            · rcases hp with hsk | hp
              · exact Or.inl hsk
              · right
                rw [List.pairwise_cons]
                refine ⟨?_, hp⟩
                intro x hx
                -- a.e < b.s ≤ x.s for every later x
                have hbs : a.e < b.s := by
                  have := hab b (by simp)
                  simp [TW.intersects, TW.valid] at hnab ha hb ⊢
                  omega
                rcases List.mem_cons.mp hx with rfl | hx
                · exact hnab
                · have hbx : b.s ≤ x.s := by
                    rw [List.pairwise_cons] at hs'
                    exact hs'.1 x hx
                  have hxv := hv x (Or.inr (List.mem_cons.mp hx))
                  simp [TW.intersects, TW.valid] at hxv ha ⊢
                  omega
        · rintro ⟨hv, hp⟩
          refine ⟨⟨⟨hv a (by simp), hv b (by simp)⟩, ?_⟩, fun x hx => hv x (Or.inr hx), ?_⟩
          · rcases hp with hsk | hp
            · exact Or.inl hsk
            · right
              rw [List.pairwise_cons] at hp
              exact hp.1 b (by simp)
          · rcases hp with hsk | hp
            · exact Or.inl hsk
            · right
              rw [List.pairwise_cons] at hp
              exact hp.2

theorem twSpec_perm (skip : Bool) {l l' : List TW} (h : l.Perm l') : TwSpec skip l ↔ TwSpec skip l' := by
  unfold TwSpec
  have hsym : ∀ a b : TW, a.intersects b = false → b.intersects a = false := by
    intro a b; simp [TW.intersects]; omega
  have hp := h.pairwise_iff (R := fun a b : TW => a.intersects b = false) (fun {a b} => hsym a b)
  constructor
  · rintro ⟨h1, h2⟩
    exact ⟨fun a ha => h1 a (h.mem_iff.mpr ha), h2.imp id hp.mp⟩
  · rintro ⟨h1, h2⟩
    exact ⟨fun a ha => h1 a (h.mem_iff.mp ha), h2.imp id hp.mpr⟩

/-- the structured check: a single window is valid; otherwise sort and look at neighbours -/
theorem checkSorted_iff (skip : Bool) (ws : List TW) (hne : ws ≠ []) :
    checkWs skip ws = true ↔ TwSpec skip ws := by
  match ws, hne with
  | [a], _ => simp [TwSpec, checkWs]
  | a :: b :: r, _ =>
    have hlen : 2 ≤ (sortTw (a :: b :: r)).length := by
      rw [(sortTw_perm _).length_eq]; simp
    simp only [checkWs, List.isEmpty_cons, Bool.not_false, Bool.true_and]
    rw [adjOk_iff_sorted skip _ (sortTw_sorted _) hlen]
    exact twSpec_perm skip (sortTw_perm _)

/-! ## connection with the Bool-valued specification -/

theorem twOptListOk_some (skip : Bool) (ws : List TW) :
    twOptListOk (ws.map some) skip = true ↔ ws ≠ [] ∧ TwSpec skip ws := by
  unfold twOptListOk TwSpec
  simp only [Bool.and_eq_true, Bool.or_eq_true, Bool.not_eq_true', List.all_eq_true, pairwiseB_iff]
  have h1 : (ws.map some).isEmpty = false ↔ ws ≠ [] := by cases ws <;> simp
  have h2 : (∀ x ∈ ws.map some, TW.validOpt x = true) ↔ ∀ a ∈ ws, a.valid = true := by
    simp [TW.validOpt]
  have h3 : (ws.map some).Pairwise (fun a b => TW.disjointOpt a b = true)
      ↔ ws.Pairwise (fun a b => a.intersects b = false) := by
    rw [List.pairwise_map]
    constructor <;> intro h <;> exact h.imp (by intro a b; simp [TW.disjointOpt])
  constructor
  · rintro ⟨⟨a, b⟩, c⟩; exact ⟨h1.mp a, h2.mp b, c.imp id h3.mp⟩
  · rintro ⟨a, b, c⟩; exact ⟨⟨h1.mpr a, h2.mpr b⟩, c.imp id h3.mpr⟩

/-- **E1103 / E1302–E1304 core**: for any number of windows, `check_time_windows` accepts exactly the
    lists that are non-empty, consist of well-formed windows and (unless intersections are allowed)
    are pairwise disjoint -/
theorem windows_sorted_adjacent_iff_pairwise (tws : List (Option TW)) (skip : Bool) :
    checkTimeWindows tws skip = twOptListOk tws skip := by
  unfold checkTimeWindows
  by_cases hnone : tws.any Option.isNone = true
  · simp only [hnone, if_true]
    -- some entry is not a valid date pair: the specification rejects as well
    obtain ⟨x, hx, hxn⟩ := List.any_eq_true.mp hnone
    cases x with
    | some _ => simp at hxn
    | none =>
      symm
      unfold twOptListOk
      have : tws.all TW.validOpt = false := by
        apply Bool.eq_false_iff.mpr
        intro hall
        have := List.all_eq_true.mp hall none hx
        simp [TW.validOpt] at this
      rw [this]
      simp
  · rw [if_neg hnone]
    -- every entry is a window
    have hall : ∀ x ∈ tws, ∃ t, x = some t := by
      intro x hx
      cases x with
      | some t => exact ⟨t, rfl⟩
      | none => exact absurd (List.any_eq_true.mpr ⟨none, hx, rfl⟩) hnone
    have hmap : tws = (tws.filterMap id).map some := by
      clear hnone
      induction tws with
      | nil => rfl
      | cons x xs ih =>
        obtain ⟨t, rfl⟩ := hall (x) (by simp)
        simp only [List.filterMap_cons, id, List.map_cons]
        rw [← ih (fun y hy => hall y (List.mem_cons_of_mem _ hy))]
    generalize hws : tws.filterMap id = ws at hmap
    rw [hmap]
    apply bool_eq_iff.mpr
    rw [twOptListOk_some]
    by_cases hne : ws = []
    · subst hne; simp [checkWs, adjOk, sortTw]
    · rw [checkSorted_iff skip ws hne]
      exact ⟨fun h => ⟨hne, h⟩, fun h => h.2⟩

/-- raw (string) windows: parse, then the same criteria -/
theorem twListOk_eq_opt (raw : List (List Tm)) (skip : Bool) :
    twListOk raw skip = twOptListOk (raw.map parseTw) skip := by
  unfold twListOk twOptListOk
  have h1 : (raw.map parseTw).isEmpty = raw.isEmpty := by cases raw <;> rfl
  have h2 : (raw.map parseTw).all TW.validOpt = raw.all (fun w => TW.validOpt (parseTw w)) := by
    rw [List.all_map]; rfl
  have h3 : ∀ l : List (List Tm), pairwiseB TW.disjointOpt (l.map parseTw)
      = pairwiseB (fun a b => TW.disjointOpt (parseTw a) (parseTw b)) l := by
    intro l
    induction l with
    | nil => rfl
    | cons x xs ih => simp only [List.map_cons, pairwiseB, ih, List.all_map]; rfl
  rw [h1, h2, h3]

/-- `check_raw_time_windows` decides E1103's criteria -/
theorem checkRaw_eq (raw : List (List Tm)) (skip : Bool) : checkRaw raw skip = twListOk raw skip := by
  unfold checkRaw
  rw [windows_sorted_adjacent_iff_pairwise, twListOk_eq_opt]

end C10
