import VrpProofs.C11.WF
import VrpModel.Generated.C11Schema
set_option linter.unusedSimpArgs false

namespace C11

theorem extraction_ok : Generated.extractionOk = true := by decide

theorem defs_cover : coverB Generated.defs Generated.roots = true := by decide +kernel

theorem defs_wf : envWFB Generated.defs 8 = true := by decide +kernel

end C11
