import VrpProofs.C11.WF
import VrpProofs.C11.Init
import VrpProofs.C11.Csv
import VrpModel.Generated.C11Schema
set_option linter.unusedSimpArgs false
set_option linter.unusedVariables false

/-!
# C11 — problem / matrix / solution documents survive round trips

Part 1 (this file): `ser(parse(ser d)) = ser d` for every document of the generated schema
`C11.Generated.defs` (translator T1 regenerates it from the Rust serde definitions); the generic codec
theorems are in `VrpProofs/C11/{Codec,Safe,WF}.lean`.
Part 2 (`VrpProofs/C11/Init.lean`): `C11.Init.init_roundtrip_partial` (with `matchAct_customer`,
`view_written`, `readActs_ok`, `readTours_ok`).
Part 3 (`VrpProofs/C11/Csv.lean`): `C11.Csv.csv_import_valid_partial`, `C11.Csv.csv_import_carries_data`.
-/
namespace C11

/-! ## obligations on the generated schema (re-checked whenever the Rust definitions change) -/

/-- translator T1 understood every construct of the anchored definitions -/
theorem extraction_ok : Generated.extractionOk = true := by decide

/-- every type reachable from `Problem`, `Matrix`, `Solution` is defined -/
theorem defs_cover : coverB Generated.defs Generated.roots = true := by decide

/-- the schema passes the decidable side condition (field names vs aliases, skipped fields are
    `Option` of a never-null type without default, tag not a field name, variant names distinct,
    later `untagged` variants safe against earlier ones) -/
theorem defs_wf : envWFB Generated.defs 8 = true := by decide

/-! ## the property -/

/-- **serialise → parse → serialise is the identity on the text**: whenever a value `v` of one of the
    document types serialises to the JSON tree `j`, the parser accepts `j` and what it returns
    serialises to `j` again — for every value, nesting depth and root type. -/
theorem serde_roundtrip (root : String) (n : Nat) (v : Val) (j : Json)
    (he : encode (envOf Generated.defs) n (.ref root) v = some j) :
    ∃ w, decode (envOf Generated.defs) n (.ref root) j = some w ∧
         encode (envOf Generated.defs) n (.ref root) w = some j :=
  roundtrip Generated.defs 8 defs_wf root n v j he

/-- the same on *foreign* input: whatever JSON `j` the parser accepts (extra fields, aliases, nulls,
    integer literals in float positions …), its re-serialisation `j'` is a fixed point of
    parse-then-serialise. -/
theorem serde_reserialisation_stable (root : String) (n : Nat) (j j' : Json) (w : Val)
    (_hd : decode (envOf Generated.defs) n (.ref root) j = some w)
    (he : encode (envOf Generated.defs) n (.ref root) w = some j') :
    ∃ w', decode (envOf Generated.defs) n (.ref root) j' = some w' ∧
          encode (envOf Generated.defs) n (.ref root) w' = some j' :=
  serde_roundtrip root n w j' he

/-! ### non-vacuity: concrete documents serialise -/

/-- a matrix with an absent optional field -/
example : encode (envOf Generated.defs) 20 (.ref "Matrix")
    (.record [.just (.str "car"), .nul, .list [.int 0, .int 5], .list [.int 0, .int 7], .nul])
  = some (.obj [("profile", .str "car"), ("timestamp", .null), ("travelTimes", .arr [.int 0, .int 5]),
                ("distances", .arr [.int 0, .int 7])]) := by rfl

/-- a tour with a point stop (untagged variant 0), an index location (untagged variant 1) and an
    activity whose optional fields are skipped -/
example : (encode (envOf Generated.defs) 30 (.ref "Tour")
    (.record [.str "v1", .str "t", .int 0,
      .list [.variant 0 (.record [.variant 1 (.record [.int 3]), .record [.str "a", .str "b"], .int 0,
               .list [.int 1], .nul, .list [.record [.str "job1", .str "delivery", .nul, .nul, .just (.str "tag"), .nul]]])],
      .record [.flt 0, .int 0, .int 0, .record [.int 0, .int 0, .int 0, .int 0, .int 0, .int 0]]])).isSome = true := by
  decide

/-- a nested multi-objective (tagged enum inside tagged enum) -/
example : (encode (envOf Generated.defs) 30 (.ref "Objective")
    (.variant 16 (.record [.variant 1 (.record [.list [.flt 0]]),
        .list [.variant 0 (.record []), .variant 5 (.record [.nul])]]))).isSome = true := by decide

/-! ### the schema check is not vacuous: it refuses the dangerous rewrites and accepts harmless ones -/

namespace Demo
def flt : Ty := .prim .flt
def str : Ty := .prim .str
def point : Ty := .struct [(fh "location", .ref "Location"), (fh "time", str), (fh "distance", .prim .int),
      (fs "parking", .opt str), (fh "load", .vec (.prim .i32)), (fh "activities", .vec str)]
def transit : Ty := .struct [(fh "time", str), (fh "load", .vec (.prim .i32)), (fh "activities", .vec str)]
def base : List (String × Ty) := [
  ("Location", .untagged [
      .struct [(fh "lat", flt), (fh "lng", flt)],
      .struct [(fh "index", .prim .nat)],
      .struct [(fh "type", .units ["unknown"])]]),
  ("PointStop", point), ("TransitStop", transit)]
def optBreak : Ty := .struct [(fh "time", .untagged [.vec str, .vec flt]), (fh "places", .vec flt), (fh "policy", .opt str)]
def reqBreak : Ty := .struct [(fh "time", str), (fh "duration", flt)]

/-- the order of the repository: point stop first -/
example : envWFB (("Stop", .untagged [.ref "PointStop", .ref "TransitStop"]) :: base) 8 = true := by decide
/-- transit stop first: a point stop would parse as a transit stop and lose its location — refused -/
example : envWFB (("Stop", .untagged [.ref "TransitStop", .ref "PointStop"]) :: base) 8 = false := by decide
/-- reordering the break variants is harmless (each has a required field the other never writes) — accepted -/
example : envWFB [("VehicleBreak", .untagged [optBreak, reqBreak])] 8 = true := by decide
example : envWFB [("VehicleBreak", .untagged [reqBreak, optBreak])] 8 = true := by decide
/-- float list before integer list: `[1]` parses as floats and comes back as `[1.0]` — refused -/
example : envWFB [("X", .untagged [.vec flt, .vec (.prim .int)])] 8 = false := by decide
/-- a field whose serialise name is another field's alias — refused -/
example : envWFB [("X", .struct [(fx "a" ["b"] false none, str), (fh "b", str)])] 8 = false := by decide
/-- `skip_serializing_if` on a field with a default: the skipped value would come back as the default — refused -/
example : envWFB [("X", .struct [(fx "a" [] true (some (.int 1)), .opt (.prim .int))])] 8 = false := by decide
/-- skipped `Option<Option<T>>`: `Some(None)` is written as `null` and read as `None` — refused -/
example : envWFB [("X", .struct [(fs "a", .opt (.opt str))])] 8 = false := by decide
/-- the tag of an internally tagged enum used as a field name — refused -/
example : envWFB [("X", .tagged "type" [("a", [(fh "type", str)])])] 8 = false := by decide
end Demo

end C11
