import VrpModel.C11
/-! C11 part 1: round trip of the schema-directed codec under the semantic well-formedness `EnvWF`. -/
set_option linter.unusedSimpArgs false
set_option linter.unusedVariables false
namespace C11

def NamesOK : Fields → Prop
  | [] => True
  | (h,t)::fs => (∀ f ∈ fs, f.1.ser ∉ h.deNames ∧ h.ser ∉ f.1.deNames)
                 ∧ (h.skipNone = true → t.isOpt = true ∧ h.dflt = none) ∧ NamesOK fs

/-- round-trip statement for an encoder/decoder pair at one type -/
def RT (enc : Ty → Val → Option Json) (dec : Ty → Json → Option Val) (t : Ty) : Prop :=
  ∀ v j, enc t v = some j → ∃ w, dec t j = some w ∧ enc t w = some j

theorem mapO_rt {enc : Val → Option Json} {dec : Json → Option Val}
    (h : ∀ v j, enc v = some j → ∃ w, dec j = some w ∧ enc w = some j) :
    ∀ vs js, mapO enc vs = some js → ∃ ws, mapO dec js = some ws ∧ mapO enc ws = some js := by
  intro vs
  induction vs with
  | nil => intro js hj; simp [mapO] at hj; subst hj; exact ⟨[], by simp [mapO]⟩
  | cons v vs ih =>
    intro js hj
    simp only [mapO] at hj
    split at hj
    · rename_i b bs hb hbs
      simp at hj; subst hj
      obtain ⟨w, hw1, hw2⟩ := h _ _ hb
      obtain ⟨ws, hws1, hws2⟩ := ih _ hbs
      exact ⟨w :: ws, by simp [mapO, hw1, hws1], by simp [mapO, hw2, hws2]⟩
    · simp at hj

theorem lookup_append_of_not_mem (names : List String) (pre k : List (String × Json))
    (h : ∀ kv ∈ pre, kv.1 ∉ names) : lookup names (pre ++ k) = lookup names k := by
  induction pre with
  | nil => rfl
  | cons a pre ih =>
    have ha : a.1 ∉ names := h a (by simp)
    have : lookup names (a :: (pre ++ k)) = lookup names (pre ++ k) := by
      simp [lookup, List.find?, ha]
    rw [List.cons_append, this]
    exact ih (fun kv hkv => h kv (by simp [hkv]))

theorem encodeFields_keys {enc} : ∀ (fs : Fields) (vs : List Val) k, encodeFields enc fs vs = some k →
    ∀ kv ∈ k, ∃ f ∈ fs, kv.1 = f.1.ser := by
  intro fs
  induction fs with
  | nil => intro vs k h; cases vs <;> simp [encodeFields] at h; subst h; simp
  | cons f fs ih =>
    intro vs k h
    obtain ⟨hd, t⟩ := f
    cases vs with
    | nil => simp [encodeFields] at h
    | cons v vs =>
      simp only [encodeFields] at h
      split at h
      · intro kv hkv
        obtain ⟨f, hf, e⟩ := ih _ _ h kv hkv
        exact ⟨f, by simp [hf], e⟩
      · split at h
        · rename_i j r hj hr
          simp at h; subst h
          intro kv hkv
          simp at hkv
          rcases hkv with rfl | hkv
          · exact ⟨(hd,t), by simp, rfl⟩
          · obtain ⟨f, hf, e⟩ := ih _ _ hr kv hkv
            exact ⟨f, by simp [hf], e⟩
        · simp at h

def SkipOK (enc : Ty → Val → Option Json) (dec : Ty → Json → Option Val) (t : Ty) : Prop :=
  (∀ v j, enc t v = some j → v.isNone = false → j ≠ .null) ∧
  (∀ j w, dec t j = some w → w.isNone = true → j = .null)

theorem lookup_hit (names : List String) (key : String) (j : Json) (k : List (String × Json))
    (h : key ∈ names) : lookup names ((key, j) :: k) = some j := by
  simp [lookup, List.find?, h]

theorem fields_rt {enc dec} : ∀ (fs : Fields) (vs : List Val) (pre k : List (String × Json)),
    NamesOK fs →
    (∀ kv ∈ pre, ∀ f ∈ fs, kv.1 ∉ f.1.deNames) →
    (∀ f ∈ fs, RT enc dec f.2 ∧ (f.1.skipNone = true → SkipOK enc dec f.2)) →
    encodeFields enc fs vs = some k →
    ∃ ws, decodeFields dec fs (pre ++ k) = some ws ∧ encodeFields enc fs ws = some k := by
  intro fs
  induction fs with
  | nil =>
    intro vs pre k _ _ _ h
    cases vs <;> simp [encodeFields] at h
    subst h
    exact ⟨[], by simp [decodeFields], by simp [encodeFields]⟩
  | cons f fs ih =>
    intro vs pre k hn hpre hrt h
    obtain ⟨hd, t⟩ := f
    obtain ⟨hn1, hn2, hn3⟩ := hn
    cases vs with
    | nil => simp [encodeFields] at h
    | cons v vs =>
      simp only [encodeFields] at h
      have hpre_hd : ∀ kv ∈ pre, kv.1 ∉ hd.deNames := fun kv hkv => hpre kv hkv (hd,t) (by simp)
      have hpre_fs : ∀ kv ∈ pre, ∀ f ∈ fs, kv.1 ∉ f.1.deNames :=
        fun kv hkv f hf => hpre kv hkv f (by simp [hf])
      have hrt_fs : ∀ f ∈ fs, RT enc dec f.2 ∧ (f.1.skipNone = true → SkipOK enc dec f.2) :=
        fun f hf => hrt f (by simp [hf])
      split at h
      · -- skipped field
        rename_i hskip
        simp at hskip
        obtain ⟨ws, hw1, hw2⟩ := ih vs pre k hn3 hpre_fs hrt_fs h
        have hkeys := encodeFields_keys fs vs k h
        have hlk : lookup hd.deNames (pre ++ k) = none := by
          rw [lookup_append_of_not_mem _ _ _ hpre_hd]
          simp only [lookup, Option.map_eq_none_iff, List.find?_eq_none]
          intro kv hkv
          obtain ⟨f, hf, e⟩ := hkeys kv hkv
          have := (hn1 f hf).1
          simp [e, this]
        obtain ⟨hto, hdf⟩ := hn2 hskip.1
        refine ⟨.nul :: ws, ?_, ?_⟩
        · simp [decodeFields, decodeField, hlk, hdf, hto, hw1]
        · simp [encodeFields, hskip.1, Val.isNone, hw2]
      · rename_i hns
        split at h
        · rename_i j r hj hr
          simp at h; subst h
          obtain ⟨⟨w, hw1, hw2⟩, hsk⟩ := (fun x => (⟨(x.1 v j hj), x.2⟩ : _ ∧ _)) (hrt (hd,t) (by simp))
          have hpre' : ∀ kv ∈ pre ++ [(hd.ser, j)], ∀ f ∈ fs, kv.1 ∉ f.1.deNames := by
            intro kv hkv f hf
            simp at hkv
            rcases hkv with hkv | rfl
            · exact hpre_fs kv hkv f hf
            · exact (hn1 f hf).2
          obtain ⟨ws, hws1, hws2⟩ := ih vs (pre ++ [(hd.ser, j)]) r hn3 hpre' hrt_fs hr
          have hlk : lookup hd.deNames (pre ++ (hd.ser, j) :: r) = some j := by
            rw [lookup_append_of_not_mem _ _ _ hpre_hd]
            exact lookup_hit _ _ _ _ (by simp [FieldHdr.deNames])
          have happ : pre ++ (hd.ser, j) :: r = pre ++ [(hd.ser, j)] ++ r := by simp
          refine ⟨w :: ws, ?_, ?_⟩
          · simp only [decodeFields, decodeField, hlk, hw1]
            rw [happ, hws1]
          · have hnot : (hd.skipNone && w.isNone) = false := by
              cases hs : hd.skipNone with
              | false => simp
              | true =>
                cases hwn : w.isNone with
                | false => simp
                | true =>
                  exfalso
                  obtain ⟨sa, sb⟩ := hsk hs
                  have hjn := sb j w hw1 hwn
                  have hv : v.isNone = false := by
                    cases hvn : v.isNone with
                    | false => rfl
                    | true => simp [hs, hvn] at hns
                  exact sa v j hj hv hjn
            simp [encodeFields, hnot, hw2, hws2]
        · simp at h
def Safe (env : Env) (s t : Ty) : Prop :=
  ∀ n v j w, encode env n s v = some j → decode env n t j = some w → encode env n t w = some j

def NeverNull (env : Env) (t : Ty) : Prop := ∀ n v j, encode env n t v = some j → j ≠ .null

def FieldsWF (env : Env) (P : Ty → Prop) (fs : Fields) : Prop :=
  NamesOK fs ∧ ∀ f ∈ fs, P f.2 ∧ (f.1.skipNone = true → ∃ t', f.2 = .opt t' ∧ NeverNull env t')

inductive TyWF (env : Env) : Ty → Prop
  | prim (p) : TyWF env (.prim p)
  | opt {t} : TyWF env t → TyWF env (.opt t)
  | vec {t} : TyWF env t → TyWF env (.vec t)
  | struct {fs} : NamesOK fs →
      (∀ f ∈ fs, TyWF env f.2) →
      (∀ f ∈ fs, f.1.skipNone = true → ∃ t', f.2 = .opt t' ∧ NeverNull env t') →
      TyWF env (.struct fs)
  | tagged {tag vars} :
      (∀ v ∈ vars, ∀ f ∈ v.2, TyWF env f.2) →
      (∀ v ∈ vars, NamesOK v.2 ∧ ∀ f ∈ v.2, tag ∉ f.1.deNames ∧
          (f.1.skipNone = true → ∃ t', f.2 = .opt t' ∧ NeverNull env t')) →
      (vars.map (·.1)).Nodup → TyWF env (.tagged tag vars)
  | units {names} : names.Nodup → TyWF env (.units names)
  | untagged {ts} : (∀ t ∈ ts, TyWF env t) →
      (∀ (i k : Nat) s t, i < k → ts[i]? = some t → ts[k]? = some s → Safe env s t) →
      TyWF env (.untagged ts)
  | ref (name) : TyWF env (.ref name)

def EnvWF (env : Env) : Prop := ∀ name t, env name = some t → TyWF env t

theorem skipOK_of_neverNull {env n t'} (h : NeverNull env t') :
    SkipOK (encode env n) (decode env n) (.opt t') := by
  constructor
  · intro v j he hv
    cases n with
    | zero => simp [encode] at he
    | succ m =>
      cases v <;> simp [Val.isNone] at hv <;> simp [encode] at he
      exact h _ _ _ he
  · intro j w hd hw
    cases n with
    | zero => simp [decode] at hd
    | succ m =>
      cases j <;> simp [decode] at hd <;> try rfl
      all_goals (obtain ⟨a, _, rfl⟩ := hd; simp [Val.isNone] at hw)

theorem prim_rt (p : Prim) : ∀ v j, encPrim p v = some j → ∃ w, decPrim p j = some w ∧ encPrim p w = some j := by
  intro v j h
  cases p <;> cases v <;> simp [encPrim] at h
  · subst h; exact ⟨_, rfl, rfl⟩
  · rename_i i; obtain ⟨h0, rfl⟩ := h; exact ⟨.int i, by simp [decPrim, h0], by simp [encPrim, h0]⟩
  · rename_i i; obtain ⟨h0, rfl⟩ := h; exact ⟨.int i, by simp [decPrim, h0], by simp [encPrim, h0]⟩
  · rename_i i; obtain ⟨h0, rfl⟩ := h; exact ⟨.int i, by simp [decPrim, h0], by simp [encPrim, h0]⟩
  · rename_i q; obtain ⟨h0, rfl⟩ := h; exact ⟨.flt q, by simp [decPrim, h0], by simp [encPrim, h0]⟩
  · subst h; exact ⟨_, rfl, rfl⟩

theorem findIdx_spec (name : String) (fs : Fields) : ∀ (vars : List (String × Fields)) (i base : Nat),
    (vars.map (·.1)).Nodup → vars[i]? = some (name, fs) → findIdx name vars base = some (base + i, fs) := by
  intro vars
  induction vars with
  | nil => intro i base _ h; simp at h
  | cons a vars ih =>
    intro i base hnd h
    obtain ⟨nm, gs⟩ := a
    cases i with
    | zero => simp at h; obtain ⟨rfl, rfl⟩ := h; simp [findIdx]
    | succ i =>
      simp at h
      simp at hnd
      have hne : nm ≠ name := by
        intro e; subst e
        exact hnd.1 fs (List.mem_of_getElem? h)
      simp only [findIdx, hne, if_false]
      rw [ih i (base+1) hnd.2 h]
      simp; omega

theorem firstO_rt (f : Ty → Option Val) : ∀ (ts : List Ty) (i base : Nat) t w0,
    ts[i]? = some t → f t = some w0 →
    ∃ k t' w, k ≤ i ∧ ts[k]? = some t' ∧ f t' = some w ∧ firstO f ts base = some (.variant (base + k) w) := by
  intro ts
  induction ts with
  | nil => intro i base t w0 h; simp at h
  | cons a ts ih =>
    intro i base t w0 h hf
    cases hfa : f a with
    | some w => exact ⟨0, a, w, by omega, by simp, hfa, by simp [firstO, hfa]⟩
    | none =>
      cases i with
      | zero => simp at h; subst h; simp [hfa] at hf
      | succ i =>
        simp at h
        obtain ⟨k, t', w, hk, hk2, hk3, hk4⟩ := ih i (base+1) t w0 h hf
        refine ⟨k+1, t', w, by omega, by simpa using hk2, hk3, ?_⟩
        simp only [firstO, hfa, hk4]
        congr 2; omega

theorem rt {env : Env} (hE : EnvWF env) :
    ∀ n t, TyWF env t → RT (encode env n) (decode env n) t := by
  intro n
  induction n with
  | zero => intro t _ v j h; simp [encode] at h
  | succ n ih =>
    intro t ht v j h
    cases ht with
    | prim p =>
      simp only [encode] at h
      obtain ⟨w, h1, h2⟩ := prim_rt p v j h
      exact ⟨w, by simp [decode, h1], by simp [encode, h2]⟩
    | opt ht' =>
      rename_i t'
      cases v <;> simp [encode] at h
      · subst h; exact ⟨.nul, by simp [decode], by simp [encode]⟩
      · rename_i v'
        obtain ⟨w, h1, h2⟩ := ih t' ht' v' j h
        by_cases hj : j = .null
        · subst hj; exact ⟨.nul, by simp [decode], by simp [encode]⟩
        · refine ⟨.just w, ?_, by simp [encode, h2]⟩
          cases j <;> simp [decode, h1] at hj ⊢
    | vec ht' =>
      rename_i t'
      cases v <;> simp [encode] at h
      obtain ⟨js, hjs, rfl⟩ := h
      obtain ⟨ws, h1, h2⟩ := mapO_rt (ih t' ht') _ _ hjs
      exact ⟨.list ws, by simp [decode, h1], by simp [encode, h2]⟩
    | struct hn hf0 hf1 =>
      rename_i fs
      have hf : ∀ f ∈ fs, TyWF env f.2 ∧ (f.1.skipNone = true → ∃ t', f.2 = .opt t' ∧ NeverNull env t') :=
        fun f hfm => ⟨hf0 f hfm, hf1 f hfm⟩
      cases v <;> simp [encode] at h
      obtain ⟨k, hk, rfl⟩ := h
      have := fields_rt (enc := encode env n) (dec := decode env n) fs _ [] k hn (by simp)
        (fun f hfm => ⟨ih _ (hf f hfm).1, fun hs => by
          obtain ⟨t', e, hnn⟩ := (hf f hfm).2 hs
          rw [e]; exact skipOK_of_neverNull hnn⟩) hk
      obtain ⟨ws, h1, h2⟩ := this
      simp at h1
      exact ⟨.record ws, by simp [decode, h1], by simp [encode, h2]⟩
    | tagged hv0 hv1 hnd =>
      rename_i tag vars
      have hv : ∀ v ∈ vars, NamesOK v.2 ∧ ∀ f ∈ v.2, tag ∉ f.1.deNames ∧ TyWF env f.2 ∧
          (f.1.skipNone = true → ∃ t', f.2 = .opt t' ∧ NeverNull env t') :=
        fun v hvm => ⟨(hv1 v hvm).1, fun f hfm => ⟨((hv1 v hvm).2 f hfm).1, hv0 v hvm f hfm, ((hv1 v hvm).2 f hfm).2⟩⟩
      cases v <;> try simp [encode] at h
      rename_i i v'
      cases v' <;> try simp [encode] at h
      rename_i vs
      split at h
      · rename_i name fs hi
        simp at h
        obtain ⟨k, hk, rfl⟩ := h
        have hmem : (name, fs) ∈ vars := List.mem_of_getElem? hi
        obtain ⟨hn, hf⟩ := hv _ hmem
        have := fields_rt (enc := encode env n) (dec := decode env n) fs _ [(tag, .str name)] k hn
          (by intro kv hkv f hfm; simp at hkv; subst hkv; exact (hf f hfm).1)
          (fun f hfm => ⟨ih _ (hf f hfm).2.1, fun hs => by
            obtain ⟨t', e, hnn⟩ := (hf f hfm).2.2 hs
            rw [e]; exact skipOK_of_neverNull hnn⟩) hk
        obtain ⟨ws, h1, h2⟩ := this
        have hfi := findIdx_spec name fs vars i 0 hnd hi
        simp at hfi h1
        refine ⟨.variant i (.record ws), ?_, ?_⟩
        · simp [decode, lookup_hit, hfi, h1]
        · simp [encode, hi, h2]
      · simp at h
    | units hnd =>
      rename_i names
      cases v <;> try simp [encode] at h
      rename_i i v'
      cases v' <;> try simp [encode] at h
      obtain ⟨a, ha, rfl⟩ := h
      have hmem : a ∈ names := List.mem_of_getElem? ha
      have hlt : i < names.length := by
        rcases Nat.lt_or_ge i names.length with hlt | hge
        · exact hlt
        · simp [List.getElem?_eq_none hge] at ha
      have hidx : names.idxOf a = i := by
        have hget : names[i] = a := by
          rw [List.getElem?_eq_getElem hlt] at ha; exact Option.some.inj ha
        rw [← hget]
        exact List.Nodup.idxOf_getElem hnd i hlt
      refine ⟨.variant i .unit, ?_, ?_⟩
      · simp [decode, hidx, hlt]
      · simp [encode, ha]
    | untagged hts hsafe =>
      rename_i ts
      cases v <;> simp [encode] at h
      rename_i i v'
      split at h
      · rename_i t hi
        have hmem : t ∈ ts := List.mem_of_getElem? hi
        obtain ⟨w0, hw0, hw0'⟩ := ih t (hts t hmem) v' j h
        obtain ⟨k, t', w, hk, hk2, hk3, hk4⟩ := firstO_rt (fun t => decode env n t j) ts i 0 t w0 hi hw0
        simp at hk4
        refine ⟨.variant k w, by simp [decode, hk4], ?_⟩
        simp only [encode, hk2]
        rcases Nat.lt_or_ge k i with hlt | hge
        · exact hsafe k i t t' hlt hk2 hi n v' j w h hk3
        · have : k = i := by omega
          subst this
          rw [hi] at hk2; cases hk2
          have hk3' : decode env n t j = some w := hk3
          rw [hw0] at hk3'; cases hk3'
          exact hw0'
      · simp at h
    | ref name =>
      simp only [encode] at h
      split at h
      · rename_i t hn
        obtain ⟨w, h1, h2⟩ := ih t (hE _ _ hn) v j h
        exact ⟨w, by simp [decode, hn, h1], by simp [encode, hn, h2]⟩
      · simp at h
end C11
