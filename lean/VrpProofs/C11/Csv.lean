import VrpModel.C11Csv
import Mathlib.Data.List.Nodup
set_option linter.unusedSimpArgs false
set_option linter.unusedVariables false
/-! C11 part 3: the CSV import produces a valid document that carries exactly the tables' data. -/
namespace C11.Csv

/-! ## `dedup`, `nodupB` -/

theorem mem_dedup [BEq α] [LawfulBEq α] : ∀ (l : List α) (x : α), x ∈ dedup l ↔ x ∈ l := by
  intro l
  induction l with
  | nil => intro x; simp [dedup]
  | cons a as ih =>
    intro x
    simp only [dedup, List.mem_cons, List.mem_filter, ih]
    constructor
    · rintro (h | ⟨h, _⟩)
      · exact Or.inl h
      · exact Or.inr h
    · rintro (h | h)
      · exact Or.inl h
      · by_cases hx : x = a
        · exact Or.inl hx
        · exact Or.inr ⟨h, by simpa using hx⟩

theorem nodup_dedup [BEq α] [LawfulBEq α] : ∀ (l : List α), (dedup l).Nodup := by
  intro l
  induction l with
  | nil => exact List.nodup_nil
  | cons a as ih =>
    simp only [dedup]
    refine List.nodup_cons.mpr ⟨?_, ih.filter _⟩
    simp

theorem nodupB_of_nodup [BEq α] [LawfulBEq α] : ∀ (l : List α), l.Nodup → nodupB l = true := by
  intro l
  induction l with
  | nil => intro _; rfl
  | cons a as ih =>
    intro h
    have h' := List.nodup_cons.mp h
    simp only [nodupB, Bool.and_eq_true, Bool.not_eq_true']
    refine ⟨?_, ih h'.2⟩
    cases hc : as.contains a with
    | false => rfl
    | true => exact absurd (List.contains_iff_mem.mp hc) h'.1

theorem nodup_of_nodupB [BEq α] [LawfulBEq α] : ∀ (l : List α), nodupB l = true → l.Nodup := by
  intro l
  induction l with
  | nil => intro _; exact List.nodup_nil
  | cons a as ih =>
    intro h
    simp only [nodupB, Bool.and_eq_true, Bool.not_eq_true'] at h
    refine List.nodup_cons.mpr ⟨?_, ih h.2⟩
    intro hm
    have : as.contains a = true := List.contains_iff_mem.mpr hm
    rw [h.1] at this; cases this

/-! ## validity of the imported document -/

theorem mem_group (rows : List JobRow) (k : String) (r : JobRow) : r ∈ groupOf rows k ↔ r ∈ rows ∧ r.id = k := by
  simp [groupOf]

theorem sum_pos : ∀ (l : List JobRow), (∀ r ∈ l, r.demand > 0) →
    sumDemand (l.map taskOf) = (l.map (·.demand)).sum := by
  intro l
  induction l with
  | nil => intro _; rfl
  | cons a l ih =>
    intro h
    have ha := h a (by simp)
    have hne : a.demand ≠ 0 := by omega
    have ih' := ih (fun r hr => h r (by simp [hr]))
    simp only [sumDemand, List.map_cons, List.sum_cons, List.map_map] at ih' ⊢
    rw [ih']
    simp only [taskOf, hne, ne_eq, not_false_eq_true, if_true, Option.getD_some, Function.comp]
    omega

theorem sum_neg : ∀ (l : List JobRow), (∀ r ∈ l, r.demand < 0) →
    sumDemand (l.map taskOf) = -(l.map (·.demand)).sum := by
  intro l
  induction l with
  | nil => intro _; rfl
  | cons a l ih =>
    intro h
    have ha := h a (by simp)
    have hne : a.demand ≠ 0 := by omega
    have ih' := ih (fun r hr => h r (by simp [hr]))
    simp only [sumDemand, List.map_cons, List.sum_cons, List.map_map] at ih' ⊢
    rw [ih']
    simp only [taskOf, hne, ne_eq, not_false_eq_true, if_true, Option.getD_some, Function.comp]
    omega

theorem importJobs_ids (rows : List JobRow) : (importJobs rows).map (·.id) = dedup (rows.map (·.id)) := by
  simp [importJobs, jobOf, List.map_map, Function.comp_def]

theorem e1100_ok (t : Tables) : e1100 (importDoc t) = true := by
  simp only [e1100, importDoc, importJobs_ids]
  exact nodupB_of_nodup _ (nodup_dedup _)

theorem e1102_ok (t : Tables) (h : balanced t.jobs = true) : e1102 (importDoc t) = true := by
  simp only [e1102, importDoc, importJobs, List.all_map, List.all_eq_true, Function.comp]
  intro k hk
  simp only [balanced, List.all_eq_true] at h
  have hb := h k hk
  simp only [Bool.or_eq_true, List.all_eq_true, decide_eq_true_eq, beq_iff_eq] at hb
  simp only [jobOf, Bool.or_eq_true, List.isEmpty_iff, List.map_eq_nil_iff, beq_iff_eq]
  rcases hb with (hle | hge) | hsum
  · left; left
    rw [List.filter_eq_nil_iff]
    intro r hr
    have := hle r hr
    simp; omega
  · left; right
    rw [List.filter_eq_nil_iff]
    intro r hr
    have := hge r hr
    simp; omega
  · right
    rw [sum_pos _ (fun r hr => by simpa using (List.mem_filter.mp hr).2),
        sum_neg _ (fun r hr => by simpa using (List.mem_filter.mp hr).2)]
    omega

theorem e1103_ok (t : Tables) (h : t.jobs.all jobRowOk = true) : e1103 (importDoc t) = true := by
  simp only [e1103, importDoc, importJobs, List.all_map, List.all_eq_true, Function.comp]
  intro k _ tk htk
  rw [List.all_eq_true] at h
  -- every task of the job comes from a row
  have : ∃ r ∈ t.jobs, tk = taskOf r := by
    simp only [Job.tasks, jobOf, List.mem_append, List.mem_map, List.mem_filter] at htk
    rcases htk with (⟨r, ⟨hr, _⟩, rfl⟩ | ⟨r, ⟨hr, _⟩, rfl⟩) | ⟨r, ⟨hr, _⟩, rfl⟩ <;>
      exact ⟨r, ((mem_group _ _ _).mp hr).1, rfl⟩
  obtain ⟨r, hr, rfl⟩ := this
  have hok := h r hr
  simp only [jobRowOk, Bool.and_eq_true] at hok
  have htw := hok.2
  simp only [taskOf]
  cases hs : r.twStart <;> cases he : r.twEnd <;> simp [hs, he, parseTw] at htw ⊢
  exact htw

theorem e1104_ok (t : Tables) (h : t.jobs.all jobRowOk = true) : e1104 (importDoc t) = true := by
  simp only [e1104, importDoc, importJobs, List.all_map, List.all_eq_true, Function.comp]
  intro k hk
  rw [List.all_eq_true] at h
  have hk' := (mem_dedup _ _).mp hk
  obtain ⟨r, hr, rfl⟩ := List.mem_map.mp hk'
  have hok := h r hr
  simp only [jobRowOk, Bool.and_eq_true] at hok
  simpa [jobOf] using hok.1.2

theorem e1300_ok (t : Tables) (h : nodupB (t.vehicles.map (·.id)) = true) : e1300 (importDoc t) = true := by
  simp only [e1300, importDoc, List.map_map, Function.comp_def, vtypeOf]
  exact h

theorem e1301_ok (t : Tables) (h : nodupB (t.vehicles.map (·.id)) = true) : e1301 (importDoc t) = true := by
  simp only [e1301, importDoc]
  apply nodupB_of_nodup
  have hnd := nodup_of_nodupB _ h
  rw [List.flatMap_map]
  rw [List.nodup_flatMap]
  constructor
  · intro v _
    simp only [vtypeOf, Function.comp]
    apply List.Nodup.map _ List.nodup_range
    intro a b hab
    simpa using hab
  · rw [List.nodup_iff_pairwise_ne] at hnd
    rw [List.pairwise_map] at hnd
    refine List.Pairwise.imp ?_ hnd
    intro a b hne
    simp only [Function.onFun, Function.comp, vtypeOf, List.disjoint_left, List.mem_map, List.mem_range]
    rintro x ⟨i, _, rfl⟩ ⟨j, _, hj⟩
    simp at hj
    exact hne hj.1.symm

theorem e1302_ok (t : Tables) (h : t.vehicles.all vehRowOk = true) : e1302 (importDoc t) = true := by
  simp only [e1302, importDoc, List.all_map, List.all_eq_true, Function.comp]
  intro v hv
  rw [List.all_eq_true] at h
  have := h v hv
  simp only [vehRowOk, Bool.and_eq_true] at this
  simpa [vtypeOf] using this.2

theorem e1501_ok (t : Tables) (h : t.vehicles.isEmpty = false) : e1501 (importDoc t) = true := by
  simp only [e1501, importDoc]
  cases hv : t.vehicles with
  | nil => simp [hv] at h
  | cons v vs => simp [dedup]

/-- **a CSV import inside `TablesOk` is accepted and valid**: the typed parsing succeeds and none of the
    structural rules an imported document could break (duplicate job / type / vehicle ids, unbalanced
    pickup-delivery amounts, malformed or reversed windows, reserved ids, empty profile list) fires.
    `TablesOk`: every job row has `i32` demand ≠ `i32::MIN`, `usize` duration, a non-reserved id and
    `TW_START`/`TW_END` both absent or both well-formed with start ≤ end; every vehicle row has `i32`
    capacity, `usize` amount ≥ 1 and a well-formed window with start ≤ end; there is at least one vehicle
    row; vehicle `ID`s are unique; rows sharing a job `ID` have balanced positive and negative amounts
    when both signs occur. (partial: the rules of routing matrices, relations, objectives, breaks and
    reloads cannot fire on an imported document — those parts are absent — and are not modelled.) -/
theorem csv_import_valid_partial (t : Tables) (h : tablesOk t = true) :
    importCsv t = .ok (importDoc t) ∧ validate (importDoc t) = [] := by
  simp only [tablesOk, Bool.and_eq_true, Bool.not_eq_true'] at h
  obtain ⟨⟨⟨⟨hj, hv⟩, hne⟩, hnd⟩, hbal⟩ := h
  constructor
  · have h1 : t.jobs.all (fun r => inI32 r.demand && inUsize r.duration) = true := by
      rw [List.all_eq_true] at hj ⊢
      intro r hr
      have := hj r hr
      simp only [jobRowOk, Bool.and_eq_true] at this
      simp [this.1.1.1.1, this.1.1.2]
    have h2 : t.jobs.any (fun r => r.demand == -(2^31 : Int)) = false := by
      rw [List.any_eq_false]
      intro r hr
      rw [List.all_eq_true] at hj
      have := hj r hr
      simp only [jobRowOk, Bool.and_eq_true, bne_iff_ne, ne_eq] at this
      simpa using this.1.1.1.2
    have h3 : t.vehicles.all (fun v => inI32 v.capacity && inUsize v.amount) = true := by
      rw [List.all_eq_true] at hv ⊢
      intro v hv'
      have := hv v hv'
      simp only [vehRowOk, Bool.and_eq_true] at this
      simp [this.1.1.1, this.1.1.2]
    simp only [importCsv, h1, h2, h3, Bool.not_true, Bool.false_eq_true, if_false]
  · simp [validate, e1100_ok, e1102_ok t hbal, e1103_ok t hj, e1104_ok t hj, e1300_ok t hnd, e1301_ok t hnd,
      e1302_ok t hv, e1501_ok t hne]

/-! ## the imported document carries exactly the tables' data -/

theorem vehRowOf_vtypeOf (v : VehRow) (h : 0 ≤ v.amount) : vehRowOf (vtypeOf v) = v := by
  cases v
  simp only [vehRowOf, vtypeOf, List.length_map, List.length_range, VehRow.mk.injEq, true_and, and_true] at h ⊢
  omega

/-- both bounds or none (a lone bound is dropped by `parse_tw`) -/
def twBoth (r : JobRow) : Bool := r.twStart.isSome == r.twEnd.isSome

theorem rowOf_taskOf_pos (r : JobRow) (hb : twBoth r = true) (hd : r.demand > 0) : rowOf r.id 1 (taskOf r) = r := by
  cases r with
  | mk id lat lng demand duration s e =>
    have hne : demand ≠ 0 := by simp at hd; omega
    simp only [twBoth] at hb
    cases s <;> cases e <;> simp at hb <;>
      simp [rowOf, taskOf, parseTw, hne] <;> simp at hd <;> omega

theorem rowOf_taskOf_neg (r : JobRow) (hb : twBoth r = true) (hd : r.demand < 0) : rowOf r.id (-1) (taskOf r) = r := by
  cases r with
  | mk id lat lng demand duration s e =>
    have hne : demand ≠ 0 := by simp at hd; omega
    simp only [twBoth] at hb
    cases s <;> cases e <;> simp at hb <;>
      simp [rowOf, taskOf, parseTw, hne] <;> simp at hd <;> omega

theorem rowOf_taskOf_zero (r : JobRow) (hb : twBoth r = true) (hd : r.demand = 0) : rowOf r.id 0 (taskOf r) = r := by
  cases r with
  | mk id lat lng demand duration s e =>
    simp only at hd
    simp only [twBoth] at hb
    cases s <;> cases e <;> simp at hb <;> simp [rowOf, taskOf, parseTw, hd]

theorem map_id_of (f : JobRow → JobRow) : ∀ (l : List JobRow), (∀ r ∈ l, f r = r) → l.map f = l := by
  intro l
  induction l with
  | nil => intro _; rfl
  | cons a l ih =>
    intro h
    simp only [List.map_cons, h a (by simp), ih (fun r hr => h r (by simp [hr]))]

/-- the rows read back from the job of id `k` are the rows of that id, grouped by sign -/
theorem rowsOfJob_jobOf (rows : List JobRow) (k : String) (hb : ∀ r ∈ rows, twBoth r = true) :
    rowsOfJob (jobOf rows k) =
      (groupOf rows k).filter (fun r => decide (r.demand > 0)) ++
      (groupOf rows k).filter (fun r => decide (r.demand < 0)) ++
      (groupOf rows k).filter (fun r => decide (r.demand = 0)) := by
  simp only [rowsOfJob, jobOf, List.map_map]
  congr 1
  · congr 1
    · apply map_id_of
      intro r hr
      obtain ⟨hg, hd⟩ := List.mem_filter.mp hr
      obtain ⟨hin, hid⟩ := (mem_group _ _ _).mp hg
      simp only [Function.comp]
      rw [← hid]
      exact rowOf_taskOf_pos r (hb r hin) (by simpa using hd)
    · apply map_id_of
      intro r hr
      obtain ⟨hg, hd⟩ := List.mem_filter.mp hr
      obtain ⟨hin, hid⟩ := (mem_group _ _ _).mp hg
      simp only [Function.comp]
      rw [← hid]
      exact rowOf_taskOf_neg r (hb r hin) (by simpa using hd)
  · apply map_id_of
    intro r hr
    obtain ⟨hg, hd⟩ := List.mem_filter.mp hr
    obtain ⟨hin, hid⟩ := (mem_group _ _ _).mp hg
    simp only [Function.comp]
    rw [← hid]
    exact rowOf_taskOf_zero r (hb r hin) (by simpa using hd)

theorem map_id_of' (f : VehRow → VehRow) : ∀ (l : List VehRow), (∀ r ∈ l, f r = r) → l.map f = l := by
  intro l
  induction l with
  | nil => intro _; rfl
  | cons a l ih =>
    intro h
    simp only [List.map_cons, h a (by simp), ih (fun r hr => h r (by simp [hr]))]

theorem count_filter_of_not (p : JobRow → Bool) (r : JobRow) (l : List JobRow) (h : p r = false) :
    (l.filter p).count r = 0 := by
  rw [List.count_eq_zero]
  intro hm
  have := (List.mem_filter.mp hm).2
  rw [h] at this; cases this

theorem count_split (r : JobRow) (g : List JobRow) :
    (g.filter (fun r => decide (r.demand > 0)) ++ g.filter (fun r => decide (r.demand < 0)) ++
      g.filter (fun r => decide (r.demand = 0))).count r = g.count r := by
  simp only [List.count_append]
  rcases Int.lt_trichotomy r.demand 0 with h | h | h
  · rw [count_filter_of_not _ r g (by simp; omega), count_filter_of_not (fun r => decide (r.demand = 0)) r g (by simp; omega),
      List.count_filter (by simpa using h)]
    omega
  · rw [count_filter_of_not _ r g (by simp; omega), count_filter_of_not (fun r => decide (r.demand < 0)) r g (by simp; omega),
      List.count_filter (by simpa using h)]
    omega
  · rw [count_filter_of_not (fun r => decide (r.demand < 0)) r g (by simp; omega),
      count_filter_of_not (fun r => decide (r.demand = 0)) r g (by simp; omega),
      List.count_filter (by simpa using h)]
    omega

theorem count_group (rows : List JobRow) (k : String) (r : JobRow) :
    (groupOf rows k).count r = if r.id = k then rows.count r else 0 := by
  split
  · rename_i h
    exact List.count_filter (by simpa [groupOf] using h)
  · rename_i h
    exact count_filter_of_not _ r rows (by simpa [groupOf] using h)

theorem sum_indicator (c : Nat) (x : String) : ∀ (ks : List String), ks.Nodup →
    (ks.map (fun k => if x = k then c else 0)).sum = if x ∈ ks then c else 0 := by
  intro ks
  induction ks with
  | nil => intro _; simp
  | cons k ks ih =>
    intro hnd
    have hnd' := List.nodup_cons.mp hnd
    simp only [List.map_cons, List.sum_cons, ih hnd'.2, List.mem_cons]
    by_cases hx : x = k
    · subst hx
      simp [hnd'.1]
    · simp [hx]

/-- **the imported document carries exactly the tables' data** (rows with both window bounds or none;
    a lone bound is dropped by `parse_tw` — the excluded point; amounts non-negative):
    * reading the job rows back from the document (id, coordinates, duration, window, amount with the
      sign of its list: pickups +, deliveries −, services 0) gives every row of the jobs table exactly as
      often as it occurs there, and nothing else;
    * reading the vehicle rows back (type id, coordinates of the shift start, capacity, shift window,
      number of vehicle ids, profile) gives the vehicles table, in order;
    * the profile list contains exactly the `PROFILE`s of the vehicle rows. -/
theorem csv_import_carries_data (t : Tables)
    (hb : ∀ r ∈ t.jobs, twBoth r = true) (ha : ∀ v ∈ t.vehicles, 0 ≤ v.amount) :
    (∀ r, (rowsOfJobs (importDoc t).jobs).count r = t.jobs.count r) ∧
    (importDoc t).vehicles.map vehRowOf = t.vehicles ∧
    (∀ p, p ∈ (importDoc t).profiles ↔ ∃ v ∈ t.vehicles, v.profile = p) := by
  refine ⟨?_, ?_, ?_⟩
  · intro r
    simp only [rowsOfJobs, importDoc, importJobs, List.flatMap_map]
    rw [List.count_flatMap]
    have : (fun k => List.count r (rowsOfJob (jobOf t.jobs k))) = (fun k => if r.id = k then t.jobs.count r else 0) := by
      funext k
      rw [rowsOfJob_jobOf t.jobs k hb, count_split, count_group]
    simp only [Function.comp_def, this]
    rw [sum_indicator _ _ _ (nodup_dedup _)]
    split
    · rfl
    · rename_i hnot
      rw [mem_dedup] at hnot
      symm
      rw [List.count_eq_zero]
      intro hm
      exact hnot (List.mem_map.mpr ⟨r, hm, rfl⟩)
  · simp only [importDoc, List.map_map]
    apply map_id_of' 
    intro v hv
    exact vehRowOf_vtypeOf v (ha v hv)
  · intro p
    simp only [importDoc, mem_dedup, List.mem_map]

/-! ### non-vacuity and excluded points -/

namespace Demo
def jr (id : String) (d : Int) (s e : Option Date) : JobRow :=
  { id := id, lat := 52000000, lng := 13000000, demand := d, duration := 300, twStart := s, twEnd := e }
def vr (id profile : String) (amount : Int) : VehRow :=
  { id := id, lat := 52100000, lng := 13100000, capacity := 10, twStart := .ok 0, twEnd := .ok 36000,
    amount := amount, profile := profile }
/-- two rows sharing job id `j1` (pickup 2 / delivery −2), a service row, two vehicle rows sharing the
    profile `car` (the S8a shape) -/
def tables : Tables :=
  { jobs := [jr "j1" 2 none none, jr "j2" 0 (some (.ok 10)) (some (.ok 900)), jr "j1" (-2) none none],
    vehicles := [vr "v1" "car" 2, vr "v2" "car" 1] }
example : tablesOk tables = true := by decide
example : validate (importDoc tables) = [] := by decide
example : (importDoc tables).vehicles.flatMap (·.vehicleIds) = [("v1", 1), ("v1", 2), ("v2", 1)] := by decide
/-- excluded point of `csv_import_carries_data`: a lone `TW_START` is dropped silently — the row does
    not come back -/
example : rowsOfJobs (importDoc { jobs := [jr "a" 1 (some (.ok 5)) none], vehicles := [] }).jobs
    = [jr "a" 1 none none] := by decide
/-- excluded points of `csv_import_valid_partial`: unbalanced amounts, duplicate vehicle id -/
example : validate (importDoc { tables with jobs := [jr "j1" 2 none none, jr "j1" (-1) none none] }) = ["E1102"] := by
  decide
example : validate (importDoc { tables with vehicles := [vr "v1" "car" 1, vr "v1" "truck" 1] }) = ["E1300", "E1301"] := by
  decide
end Demo

end C11.Csv
