import VrpModel.C11Init
set_option linter.unusedSimpArgs false
set_option linter.unusedVariables false
/-! C11 part 2: the initial-solution round trip — per-activity matching, the reader's view of a written
    tour, bookkeeping. -/
namespace C11.Init

/-! ## first-match search -/

theorem findIdxFrom_none {p : α → Bool} : ∀ (l : List α) (i : Nat), (∀ y ∈ l, p y = false) → findIdxFrom p l i = none := by
  intro l
  induction l with
  | nil => intro i _; rfl
  | cons a l ih =>
    intro i h
    simp only [findIdxFrom, h a (by simp)]
    exact ih (i+1) (fun y hy => h y (by simp [hy]))

theorem findIdxFrom_spec {p : α → Bool} : ∀ (l : List α) (k i : Nat) (x : α),
    l[k]? = some x → p x = true → (∀ j y, j < k → l[j]? = some y → p y = false) →
    findIdxFrom p l i = some (i + k) := by
  intro l
  induction l with
  | nil => intro k i x h; simp at h
  | cons a l ih =>
    intro k i x hk hp hlt
    cases k with
    | zero =>
      simp at hk; subst hk
      simp [findIdxFrom, hp]
    | succ k =>
      have ha : p a = false := hlt 0 a (by omega) (by simp)
      simp only [findIdxFrom, ha]
      simp at hk
      rw [ih k (i+1) x hk hp (fun j y hj hy => hlt (j+1) y (by omega) (by simpa using hy))]
      have : i + 1 + k = i + (k + 1) := by omega
      rw [this]; simp

theorem matchSingles_spec (c : Ctx) : ∀ (singles : List Single) (t i p : Nat) (s : Single),
    singles[t]? = some s → matchPlace s true true c = some p →
    (∀ j s', j < t → singles[j]? = some s' → matchPlace s' true true c = none) →
    matchSingles true c singles i = some (i + t, p) := by
  intro singles
  induction singles with
  | nil => intro t i p s h; simp at h
  | cons a l ih =>
    intro t i p s ht hm hlt
    cases t with
    | zero =>
      simp at ht; subst ht
      simp [matchSingles, hm]
    | succ t =>
      have ha := hlt 0 a (by omega) (by simp)
      simp only [matchSingles, ha]
      simp at ht
      rw [ih t (i+1) p s ht hm (fun j s' hj hs => hlt (j+1) s' (by omega) (by simpa using hs))]
      have : i + 1 + t = i + (t + 1) := by omega
      rw [this]

/-! ## telling places apart -/

theorem endOf_eq (a : Act) (d : Int) (h : a.dur = Q * d) : endOf a = startOf a + d := by
  simp only [endOf, startOf, fmt, h, Q]
  omega

/-- the place an activity is served at matches what the writer puts into the document -/
theorem placeMatches_self (pl : Place) (a : Act) (c : Ctx) (hs : servedAt pl a = true)
    (hl : c.loc = a.loc) (ht : c.time = (startOf a, endOf a)) (hg : c.tag = pl.tag) :
    placeMatches pl c = true := by
  simp only [servedAt, Bool.and_eq_true, List.any_eq_true, beq_iff_eq, decide_eq_true_eq] at hs
  obtain ⟨⟨⟨⟨hloc, hdur⟩, _⟩, hnn⟩, wp, hwp, hw⟩ := hs
  have hend := endOf_eq a pl.dur hdur
  simp only [placeMatches, Bool.and_eq_true, List.any_eq_true]
  refine ⟨⟨by simp [hg], by simp [hloc, hl]⟩, wp, hwp, ?_⟩
  simp only [Bool.and_eq_true, Bool.not_eq_true', decide_eq_true_eq] at hw
  obtain ⟨⟨hoff, h1⟩, h2⟩ := hw
  simp only [Span.window, hoff, intersects, ht, Bool.and_eq_true, decide_eq_true_eq, Bool.false_eq_true, if_false]
  constructor
  · rw [hend]; omega
  · exact h2

/-- a place that can be told apart from the one the activity is served at does not match -/
theorem placeMatches_other (pl q : Place) (a : Act) (c : Ctx) (hs : servedAt pl a = true)
    (hap : placesApart pl q = true)
    (hl : c.loc = a.loc) (ht : c.time = (startOf a, endOf a)) (hg : c.tag = pl.tag) :
    placeMatches q c = false := by
  cases hm : placeMatches q c with
  | false => rfl
  | true =>
    exfalso
    simp only [servedAt, Bool.and_eq_true, List.any_eq_true, beq_iff_eq, decide_eq_true_eq] at hs
    obtain ⟨⟨⟨⟨hloc, hdur⟩, _⟩, hnn⟩, wp, hwp, hw⟩ := hs
    have hend := endOf_eq a pl.dur hdur
    simp only [Bool.and_eq_true, Bool.not_eq_true', decide_eq_true_eq] at hw
    obtain ⟨⟨hoff, h1⟩, h2⟩ := hw
    simp only [placeMatches, Bool.and_eq_true, List.any_eq_true, beq_iff_eq] at hm
    obtain ⟨⟨hqt, hql⟩, wq, hwq, hi⟩ := hm
    simp only [placesApart, Bool.or_eq_true, bne_iff_ne, ne_eq] at hap
    rcases hap with (htag | hlocs) | hfar
    · exact htag (by rw [hqt, hg])
    · rw [hloc] at hlocs
      cases hq : q.loc with
      | none => simp [hq] at hlocs
      | some b =>
        simp only [hq, bne_iff_ne, ne_eq] at hlocs
        simp only [hq, beq_iff_eq] at hql
        exact hlocs (by rw [hql, hl])
    · rw [List.all_eq_true] at hfar
      have h3 := hfar wp hwp
      rw [List.all_eq_true] at h3
      have h4 := h3 wq hwq
      simp only [Bool.and_eq_true, Bool.not_eq_true', Bool.or_eq_true, decide_eq_true_eq] at h4
      obtain ⟨⟨_, hqoff⟩, hsep⟩ := h4
      simp only [Span.window, hqoff, intersects, ht, Bool.and_eq_true, decide_eq_true_eq, Bool.false_eq_true,
        if_false] at hi
      rw [hend] at hi
      omega

theorem mem_allPlaces (jd : JobDef) (i q : Nat) (s : Single) (pl : Place)
    (hs : jd.singles[i]? = some s) (hp : s.places[q]? = some pl) : ((i, q), pl) ∈ allPlaces jd := by
  simp only [allPlaces, List.mem_flatMap, List.mem_map]
  refine ⟨(s, i), ?_, (pl, q), ?_, rfl⟩
  · exact List.mem_zipIdx_iff_getElem?.mpr hs
  · exact List.mem_zipIdx_iff_getElem?.mpr hp

/-- what the executable check `placesDistinguishable` gives -/
theorem placesDistinguishable_spec (jd : JobDef) (h : placesDistinguishable jd = true)
    (i q i' q' : Nat) (s s' : Single) (pl pl' : Place)
    (hs : jd.singles[i]? = some s) (hp : s.places[q]? = some pl)
    (hs' : jd.singles[i']? = some s') (hp' : s'.places[q']? = some pl')
    (hne : (i, q) ≠ (i', q')) : placesApart pl pl' = true := by
  simp only [placesDistinguishable, List.all_eq_true] at h
  have := h _ (mem_allPlaces jd i q s pl hs hp) _ (mem_allPlaces jd i' q' s' pl' hs' hp')
  simp only [Bool.or_eq_true, beq_iff_eq] at this
  rcases this with h1 | h2
  · exact absurd h1 hne
  · exact h2

theorem find_id (P : Problem) (id : String) (jd : JobDef) (h : P.find id = some jd) : jd.id = id := by
  have := List.find?_some h
  simpa using this

theorem find_mem (P : Problem) (id : String) (jd : JobDef) (h : P.find id = some jd) : jd ∈ P.jobs :=
  List.mem_of_find?_eq_some h

theorem placeOf_some (P : Problem) (a : Act) (jd : JobDef) (pl : Place) (h : placeOf P a = some (jd, pl)) :
    P.find a.job = some jd ∧ ∃ s, jd.singles[a.task]? = some s ∧ s.places[a.place]? = some pl := by
  simp only [placeOf] at h
  split at h
  · rename_i jd' hj
    split at h
    · rename_i s hs
      split at h
      · rename_i pl' hp
        simp at h
        obtain ⟨rfl, rfl⟩ := h
        exact ⟨hj, s, hs, hp⟩
      · simp at h
    · simp at h
  · simp at h

theorem tagOf_eq (P : Problem) (a : Act) (jd : JobDef) (pl : Place) (h : placeOf P a = some (jd, pl)) :
    tagOf P a = pl.tag := by
  obtain ⟨hj, s, hs, hp⟩ := placeOf_some P a jd pl h
  simp [tagOf, hj, hs, hp]

/-- **the matcher finds the place the solver used**: a customer activity served at place
    `(a.task, a.place)` of job `jd`, written by the writer, is matched to exactly that single and place,
    provided the places of the job can be told apart. -/
theorem matchAct_customer (P : Problem) (vehicle : String) (shift : Nat) (rs : Int) (a : Act)
    (jd : JobDef) (pl : Place)
    (hk : isCustomerKind a.kind = true)
    (hpo : placeOf P a = some (jd, pl))
    (hsv : servedAt pl a = true)
    (hd : placesDistinguishable jd = true)
    (hmt : (decide (jd.singles.length ≤ 1) || multiTagsOk jd) = true) :
    matchAct P vehicle shift (ctxOfAct P rs a)
      = .ok (some (jd, { job := a.job, task := a.task, place := a.place, loc := a.loc })) := by
  obtain ⟨hj, s, hs, hp⟩ := placeOf_some P a jd pl hpo
  have hid := find_id P a.job jd hj
  have htag := tagOf_eq P a jd pl hpo
  -- the context the reader sees
  let c := ctxOfAct P rs a
  have hcl : c.loc = a.loc := rfl
  have hct : c.time = (startOf a, endOf a) := rfl
  have hcg : c.tag = pl.tag := htag
  have hcj : c.jobId = a.job := by simp [c, ctxOfAct, hk]
  have hck : c.kind = a.kind := rfl
  -- the used single matches at the used place
  have hself : matchPlace s true true c = some a.place := by
    simp only [matchPlace, Bool.not_true, Bool.and_false, Bool.false_eq_true, if_false]
    have := findIdxFrom_spec (p := fun pl => placeMatches pl c) s.places a.place 0 pl hp
      (placeMatches_self pl a c hsv hcl hct hcg)
      (fun j y hj hy => placeMatches_other pl y a c hsv
        (placesDistinguishable_spec jd hd a.task a.place a.task j s s pl y hs hp hs hy (by
          intro e; simp at e; omega)) hcl hct hcg)
    simpa using this
  -- earlier singles do not match
  have hearlier : ∀ j s', j < a.task → jd.singles[j]? = some s' → matchPlace s' true true c = none := by
    intro j s' hj hs'
    simp only [matchPlace, Bool.not_true, Bool.and_false, Bool.false_eq_true, if_false]
    apply findIdxFrom_none
    intro y hy
    obtain ⟨q, hq⟩ := List.getElem?_of_mem hy
    exact placeMatches_other pl y a c hsv
      (placesDistinguishable_spec jd hd a.task a.place j q s s' pl y hs hp hs' hq (by
        intro e; simp at e; omega)) hcl hct hcg
  have hms := matchSingles_spec c jd.singles a.task 0 a.place s hs hself hearlier
  simp only [Nat.zero_add] at hms
  have hnotdep : (c.kind == "departure" || c.kind == "arrival") = false := by
    rw [hck]
    simp only [isCustomerKind, Bool.or_eq_true, beq_iff_eq] at hk
    rcases hk with ((h | h) | h) | h <;> simp [h]
  have hmulti : (decide (jd.singles.length > 1) && !multiTagsOk jd) = false := by
    simp only [Bool.or_eq_true, decide_eq_true_eq] at hmt
    rcases hmt with h | h
    · simp; omega
    · simp [h]
  have hnd : ¬a.kind = "departure" ∧ ¬a.kind = "arrival" := by
    simp only [isCustomerKind, Bool.or_eq_true, beq_iff_eq] at hk
    rcases hk with ((h | h) | h) | h <;> simp [h]
  show matchAct P vehicle shift c = _
  simp only [matchAct, hnotdep, Bool.false_eq_true, if_false, hck, hk, if_true, hcj, hj, hmulti, hid,
    beq_self_eq_true, hms]
  simp [hcl, hid, hnd.1, hnd.2]

/-! ## what the reader sees of a written tour -/

/-- departure / arrival activities are skipped by the reader whatever else they carry -/
def norm (c : Ctx) : Ctx :=
  if c.kind == "departure" || c.kind == "arrival" then
    { routeStart := 0, loc := 0, time := (0, 0), kind := c.kind, jobId := "", tag := none }
  else c

theorem matchAct_norm (P : Problem) (v : String) (sh : Nat) (c : Ctx) :
    matchAct P v sh (norm c) = matchAct P v sh c := by
  unfold norm
  split
  · rename_i h
    simp only [matchAct, h, if_true]
  · rfl

theorem groupRuns_flatten : ∀ l : List Act, (groupRuns l).flatMap (fun run => run.1 :: run.2) = l := by
  intro l
  induction l with
  | nil => rfl
  | cons a as ih =>
    simp only [groupRuns]
    split
    · rename_i b r rs hg
      rw [hg] at ih
      split
      · simp only [List.flatMap_cons] at ih ⊢
        simp only [List.cons_append] at ih ⊢
        rw [ih]
      · simp only [List.flatMap_cons] at ih ⊢
        simp [ih]
    · rename_i hg
      rw [hg] at ih
      simp at ih
      simp [ih]

theorem groupRuns_head (a : Act) (as : List Act) : ∃ r rs, groupRuns (a :: as) = (a, r) :: rs := by
  simp only [groupRuns]
  split
  · split
    · exact ⟨_, _, rfl⟩
    · exact ⟨_, _, rfl⟩
  · exact ⟨_, _, rfl⟩

def good (a : Act) : Prop := a.kind = "departure" ∨ a.kind = "arrival" ∨ fmt a.dep = endOf a

theorem lastOf_single (a : Act) : lastOf a [] = a := rfl

theorem view_multi (P : Problem) (rs : Int) (s : WStop) (n : Nat) (hn : n ≥ 2) (x : Act) :
    norm (ctxOfW rs s (wact P n x)) = norm (ctxOfAct P rs x) := by
  by_cases hd : x.kind = "departure"
  · simp [norm, ctxOfW, wact, ctxOfAct, hd]
  · have : (x.kind == "departure") = false := by simpa using hd
    simp [ctxOfW, wact, ctxOfAct, this]

theorem view_single (P : Problem) (rs : Int) (a : Act) (hg : good a) :
    norm (ctxOfW rs { loc := a.loc, arrival := fmt a.arr, departure := fmt a.dep, acts := [] }
      (cleanSingle (fmt a.arr) a.loc (wact P 1 a))) = norm (ctxOfAct P rs a) := by
  by_cases hd : a.kind = "departure"
  · simp [norm, ctxOfW, wact, ctxOfAct, cleanSingle, hd]
  · have hdb : (a.kind == "departure") = false := by simpa using hd
    by_cases ha : a.kind = "arrival"
    · simp [norm, ctxOfW, wact, ctxOfAct, cleanSingle, hdb, ha]
    · have hdep : fmt a.dep = endOf a := by
        rcases hg with h | h | h
        · exact absurd h hd
        · exact absurd h ha
        · exact h
      by_cases hs : fmt a.arr = startOf a
      · simp [ctxOfW, wact, ctxOfAct, cleanSingle, hdb, hs, hdep]
      · simp [ctxOfW, wact, ctxOfAct, cleanSingle, hdb, hs]

theorem view_run (P : Problem) (rs : Int) (run : Act × List Act) (hg : ∀ x ∈ run.1 :: run.2, good x) :
    ((stopOfRun P run).acts.map (ctxOfW rs (stopOfRun P run))).map norm
      = (run.1 :: run.2).map (fun x => norm (ctxOfAct P rs x)) := by
  obtain ⟨a, r⟩ := run
  cases r with
  | nil =>
    simp only [stopOfRun, lastOf, List.map_cons, List.map_nil]
    have := view_single P rs a (hg a (by simp))
    simp only [ctxOfW] at this ⊢
    rw [this]
  | cons b r' =>
    simp only [stopOfRun, List.map_map]
    apply List.map_congr_left
    intro x _
    exact view_multi P rs _ _ (by simp) x

theorem routeStart_written (P : Problem) (st : Act) (rest : List Act) (hk : st.kind = "departure") :
    routeStartOf ((groupRuns (st :: rest)).map (stopOfRun P)) = fmt st.dep := by
  obtain ⟨r, rs, hgr⟩ := groupRuns_head st rest
  rw [hgr]
  cases r with
  | nil => simp [routeStartOf, stopOfRun, wact, cleanSingle, hk, lastOf]
  | cons b r' => simp [routeStartOf, stopOfRun, wact, hk]

/-- **the reader's view of a written tour** is the list of the solver's activities, each with the
    location, interval, type, job id and tag the writer derived from it (up to the content of the
    departure / arrival entries, which the reader skips) -/
theorem view_written (P : Problem) (t : Tour) (st : Act) (rest : List Act) (ht : t.acts = st :: rest)
    (hk : st.kind = "departure") (hg : ∀ x ∈ t.acts, good x) :
    (viewTour (writeTour P t)).map norm = t.acts.map (fun x => norm (ctxOfAct P (fmt st.dep) x)) := by
  simp only [viewTour, writeTour]
  rw [ht, routeStart_written P st rest hk, ← ht]
  have hflat := groupRuns_flatten t.acts
  have hall : ∀ run ∈ groupRuns t.acts, ∀ x ∈ run.1 :: run.2, good x := by
    intro run hrun x hx
    apply hg
    rw [← hflat]
    exact List.mem_flatMap.mpr ⟨run, hrun, hx⟩
  generalize groupRuns t.acts = runs at hflat hall
  rw [← hflat]
  clear hflat
  induction runs with
  | nil => rfl
  | cons run runs ih =>
    simp only [List.map_cons, List.flatMap_cons, List.map_append]
    rw [view_run P (fmt st.dep) run (hall run (by simp))]
    rw [ih (fun run' h' => hall run' (by simp [h']))]
    simp

/-! ## bookkeeping of `read_init_solution` -/

theorem readActs_norm (P : Problem) (v : String) (sh : Nat) : ∀ (cs : List Ctx) (added : List String),
    readActs P v sh (cs.map norm) added = readActs P v sh cs added := by
  intro cs
  induction cs with
  | nil => intro added; rfl
  | cons c cs ih =>
    intro added
    simp only [List.map_cons, readActs, matchAct_norm, ih]

def isJobAct (a : Act) : Bool := isCustomerKind a.kind || isBoundKind a.kind

/-- what the matcher does with the written form of a trace activity -/
def Resolves (P : Problem) (v : String) (sh : Nat) (rs : Int) (a : Act) : Prop :=
  ((a.kind = "departure" ∨ a.kind = "arrival") ∧ isJobAct a = false) ∨
  (∃ jd ra, matchAct P v sh (ctxOfAct P rs a) = .ok (some (jd, ra)) ∧ P.find a.job = some jd ∧ ra.job = a.job ∧
     isJobAct a = true ∧ (jd.singles.length ≤ 1 → a.task = 0) ∧
     ((isCustomerKind a.kind = true ∧ jd.bound = false ∧
        ra = { job := a.job, task := a.task, place := a.place, loc := a.loc }) ∨
      (isCustomerKind a.kind = false ∧ jd.bound = true)))

theorem matchAct_terminal (P : Problem) (v : String) (sh : Nat) (c : Ctx)
    (h : c.kind = "departure" ∨ c.kind = "arrival") : matchAct P v sh c = .ok none := by
  rcases h with h | h <;> simp [matchAct, h]

theorem customerOnly_cons (P : Problem) (ra : RAct) (ras : List RAct) (jd : JobDef)
    (h : P.find ra.job = some jd) :
    customerOnly P (ra :: ras) = if jd.bound then customerOnly P ras else ra :: customerOnly P ras := by
  simp only [customerOnly, List.filter_cons, h]
  cases jd.bound <;> simp

theorem customerActs_cons (a : Act) (as : List Act) :
    customerActs (a :: as) = if isCustomerKind a.kind then
      { job := a.job, task := a.task, place := a.place, loc := a.loc } :: customerActs as else customerActs as := by
  simp only [customerActs, List.filter_cons]
  split <;> simp

/-- processing the written activities of one tour: no error, the customer activities come back
    unchanged, `added_jobs` grows by exactly the jobs of the tour -/
theorem readActs_ok (P : Problem) (v : String) (sh : Nat) (rs : Int) :
    ∀ (acts prev : List Act) (added : List String),
    (∀ a ∈ acts, Resolves P v sh rs a) →
    (((prev ++ acts).filter isJobAct).map (fun a => (a.job, a.task))).Nodup →
    (∀ a ∈ prev, isJobAct a = true → ∀ jd, P.find a.job = some jd → jd.singles.length ≤ 1 → a.task = 0) →
    (∀ id ∈ added, ∃ a' ∈ prev, isJobAct a' = true ∧ a'.job = id) →
    ∃ ras added', readActs P v sh (acts.map (ctxOfAct P rs)) added = .ok (ras, added') ∧
      customerOnly P ras = customerActs acts ∧
      (∀ id ∈ added', id ∈ added ∨ ∃ a' ∈ acts, isJobAct a' = true ∧ a'.job = id) ∧
      (∀ id, (id ∈ added ∨ ∃ a' ∈ acts, isJobAct a' = true ∧ a'.job = id) → id ∈ added') := by
  intro acts
  induction acts with
  | nil =>
    intro prev added _ _ _ _
    exact ⟨[], added, rfl, rfl, fun id h => Or.inl h, fun id h => by
      rcases h with h | ⟨a', ha', _⟩
      · exact h
      · simp at ha'⟩
  | cons a acts ih =>
    intro prev added hres hnd hvalid hadd
    have hres' : ∀ x ∈ acts, Resolves P v sh rs x := fun x hx => hres x (by simp [hx])
    have hnd' : ((((prev ++ [a]) ++ acts).filter isJobAct).map (fun a => (a.job, a.task))).Nodup := by
      simpa using hnd
    rcases hres a (by simp) with ⟨hterm, hnj⟩ | ⟨jd, ra, hm, hfind, hrj, hj, htask, hcase⟩
    · -- departure / arrival: skipped
      have hm : matchAct P v sh (ctxOfAct P rs a) = .ok none := matchAct_terminal P v sh _ hterm
      have hvalid' : ∀ x ∈ prev ++ [a], isJobAct x = true → ∀ jd, P.find x.job = some jd →
          jd.singles.length ≤ 1 → x.task = 0 := by
        intro x hx hxj
        simp at hx
        rcases hx with hx | rfl
        · exact hvalid x hx hxj
        · rw [hnj] at hxj; cases hxj
      have hadd' : ∀ id ∈ added, ∃ a' ∈ prev ++ [a], isJobAct a' = true ∧ a'.job = id := by
        intro id hid
        obtain ⟨a', h1, h2⟩ := hadd id hid
        exact ⟨a', by simp [h1], h2⟩
      obtain ⟨ras, added', h1, h2, h3, h4⟩ := ih (prev ++ [a]) added hres' hnd' hvalid' hadd'
      refine ⟨ras, added', ?_, ?_, ?_, ?_⟩
      · simp only [List.map_cons, readActs, hm, h1]
      · rw [customerActs_cons]
        have : isCustomerKind a.kind = false := by
          simp only [isJobAct, Bool.or_eq_false_iff] at hnj
          exact hnj.1
        simp [this, h2]
      · intro id hid
        rcases h3 id hid with h | ⟨a', ha', hh⟩
        · exact Or.inl h
        · exact Or.inr ⟨a', by simp [ha'], hh⟩
      · intro id hid
        apply h4
        rcases hid with h | ⟨a', ha', hj', hh⟩
        · exact Or.inl h
        · simp at ha'
          rcases ha' with rfl | ha'
          · rw [hnj] at hj'; cases hj'
          · exact Or.inr ⟨a', ha', hj', hh⟩
    · -- a job activity
      have hid := find_id P a.job jd hfind
      -- no double assignment
      have hnodouble : (added.contains jd.id && decide (jd.singles.length ≤ 1)) = false := by
        cases hc : added.contains jd.id with
        | false => simp
        | true =>
          cases hl : decide (jd.singles.length ≤ 1) with
          | false => simp
          | true =>
            exfalso
            simp only [decide_eq_true_eq] at hl
            have hmem : jd.id ∈ added := by simpa using hc
            obtain ⟨a', ha', hj', hjob'⟩ := hadd jd.id hmem
            have ht' : a'.task = 0 := hvalid a' ha' hj' jd (by rw [hjob', hid]; exact hfind) hl
            have ht : a.task = 0 := htask hl
            -- (a'.job, a'.task) = (a.job, a.task) occurs twice
            have hpair : (a'.job, a'.task) = (a.job, a.task) := by rw [hjob', hid, ht', ht]
            have hsplit : ((prev ++ a :: acts).filter isJobAct).map (fun a => (a.job, a.task))
                = (prev.filter isJobAct).map (fun a => (a.job, a.task)) ++
                  ((a.job, a.task) :: (acts.filter isJobAct).map (fun a => (a.job, a.task))) := by
              simp [List.filter_append, List.filter_cons, hj]
            rw [hsplit] at hnd
            have hdisj := (List.nodup_append.mp hnd).2.2
            have hin : (a'.job, a'.task) ∈ (prev.filter isJobAct).map (fun a => (a.job, a.task)) :=
              List.mem_map.mpr ⟨a', by simp [ha', hj'], rfl⟩
            exact hdisj _ hin _ (by simp) hpair
      have hvalid' : ∀ x ∈ prev ++ [a], isJobAct x = true → ∀ jd, P.find x.job = some jd →
          jd.singles.length ≤ 1 → x.task = 0 := by
        intro x hx hxj jd' hf' hl'
        simp at hx
        rcases hx with hx | rfl
        · exact hvalid x hx hxj jd' hf' hl'
        · rw [hfind] at hf'; cases hf'; exact htask hl'
      let added1 := if added.contains jd.id then added else jd.id :: added
      have hadd' : ∀ id ∈ added1, ∃ a' ∈ prev ++ [a], isJobAct a' = true ∧ a'.job = id := by
        intro id hid'
        simp only [added1] at hid'
        split at hid'
        · obtain ⟨a', h1, h2⟩ := hadd id hid'
          exact ⟨a', by simp [h1], h2⟩
        · simp at hid'
          rcases hid' with rfl | hid'
          · exact ⟨a, by simp, hj, hid.symm⟩
          · obtain ⟨a', h1, h2⟩ := hadd id hid'
            exact ⟨a', by simp [h1], h2⟩
      obtain ⟨ras, added', h1, h2, h3, h4⟩ := ih (prev ++ [a]) added1 hres' hnd' hvalid' hadd'
      refine ⟨ra :: ras, added', ?_, ?_, ?_, ?_⟩
      · simp only [List.map_cons, readActs, hm]
        have : (added.contains jd.id && decide (jd.singles.length ≤ 1)) = false := hnodouble
        simp only [this, Bool.false_eq_true, if_false]
        show (match readActs P v sh (acts.map (ctxOfAct P rs)) added1 with
              | .error e => Except.error e
              | .ok (ras, added') => Except.ok (ra :: ras, added')) = _
        rw [h1]
      · rw [customerActs_cons, customerOnly_cons P ra ras jd (by rw [hrj]; exact hfind)]
        rcases hcase with ⟨hck, hb, hra⟩ | ⟨hck, hb⟩
        · simp [hck, hb, h2, hra]
        · simp [hck, hb, h2]
      · intro id hid'
        rcases h3 id hid' with h | ⟨a', ha', hh⟩
        · simp only [added1] at h
          split at h
          · exact Or.inl h
          · simp at h
            rcases h with rfl | h
            · exact Or.inr ⟨a, by simp, hj, hid.symm⟩
            · exact Or.inl h
        · exact Or.inr ⟨a', by simp [ha'], hh⟩
      · intro id hid'
        apply h4
        rcases hid' with h | ⟨a', ha', hj', hh⟩
        · left
          simp only [added1]
          split
          · exact h
          · simp [h]
        · simp at ha'
          rcases ha' with rfl | ha'
          · left
            simp only [added1]
            split
            · rename_i hc
              rw [← hh, ← hid]; simpa using hc
            · rw [← hh, ← hid]; simp
          · exact Or.inr ⟨a', ha', hj', hh⟩

/-! ## from the executable hypotheses to `Resolves` -/

theorem boundCandidates_mem (c : Ctx) : ∀ (g : List JobDef) (x : JobDef × Nat × Place),
    x ∈ boundCandidates c g → x.1 ∈ g := by
  intro g
  induction g with
  | nil => intro x h; simp [boundCandidates] at h
  | cons jd rest ih =>
    intro x h
    simp only [boundCandidates] at h
    split at h
    · split at h
      · split at h
        · simp at h
          rcases h with rfl | h
          · simp
          · exact List.mem_cons_of_mem _ (ih x h)
        · exact List.mem_cons_of_mem _ (ih x h)
      · exact List.mem_cons_of_mem _ (ih x h)
    · exact List.mem_cons_of_mem _ (ih x h)

theorem matchBound_mem (c : Ctx) (g : List JobDef) (jd : JobDef) (p : Nat)
    (h : matchBound c g = some (jd, p)) : jd ∈ g := by
  simp only [matchBound] at h
  split at h
  · rename_i x hx
    simp at h
    obtain ⟨rfl, _⟩ := h
    exact boundCandidates_mem c g x (List.mem_of_find?_eq_some hx)
  · split at h
    · rename_i x xs hc
      simp at h
      obtain ⟨rfl, _⟩ := h
      exact boundCandidates_mem c g x (by rw [hc]; simp)
    · simp at h

theorem boundGroup_find (P : Problem) (v k : String) (sh : Nat) : ∀ (fuel n : Nat) (jd : JobDef),
    jd ∈ boundGroup P v k sh fuel n → P.find jd.id = some jd := by
  intro fuel
  induction fuel with
  | zero => intro n jd h; simp [boundGroup] at h
  | succ fuel ih =>
    intro n jd h
    simp only [boundGroup] at h
    split at h
    · rename_i jd' hf
      simp at h
      rcases h with rfl | h
      · have := find_id P _ _ hf
        rw [this]; exact hf
      · exact ih (n+1) jd h
    · simp at h

theorem bound_not_terminal (k : String) (h : isBoundKind k = true) : ¬k = "departure" ∧ ¬k = "arrival" := by
  simp only [isBoundKind, Bool.or_eq_true, beq_iff_eq] at h
  rcases h with (h | h) | h <;> simp [h]

/-- hypotheses on the problem: the places of every customer job can be told apart, multi-jobs carry
    enough tags for the reader's guard -/
def ProblemOk (P : Problem) : Prop :=
  ∀ jd ∈ P.jobs, jd.bound = false →
    placesDistinguishable jd = true ∧ (decide (jd.singles.length ≤ 1) || multiTagsOk jd) = true

theorem tourOk_resolves (P : Problem) (t : Tour) (st : Act) (rest : List Act) (hP : ProblemOk P)
    (ht : t.acts = st :: rest) (hok : tourOk P t = true) :
    st.kind = "departure" ∧
    ∀ a ∈ t.acts, Resolves P t.vehicle t.shift (fmt st.dep) a ∧ good a := by
  simp only [tourOk, ht, Bool.and_eq_true, beq_iff_eq, List.all_eq_true] at hok
  obtain ⟨hst, hrest⟩ := hok
  refine ⟨hst, ?_⟩
  intro a ha
  rw [ht] at ha
  simp at ha
  rcases ha with rfl | ha
  · exact ⟨Or.inl ⟨Or.inl hst, by simp [isJobAct, isCustomerKind, isBoundKind, hst]⟩, Or.inl hst⟩
  · have h := hrest a ha
    simp only [Bool.or_eq_true, Bool.and_eq_true, beq_iff_eq] at h
    rcases h with (harr | hcust) | hbound
    · exact ⟨Or.inl ⟨Or.inr harr, by simp [isJobAct, isCustomerKind, isBoundKind, harr]⟩, Or.inr (Or.inl harr)⟩
    · obtain ⟨hk, hpl⟩ := hcust
      split at hpl
      · rename_i jd pl hpo
        simp only [Bool.and_eq_true, Bool.not_eq_true'] at hpl
        obtain ⟨hb, hsv⟩ := hpl
        obtain ⟨hj, s, hs, hp⟩ := placeOf_some P a jd pl hpo
        obtain ⟨hd, hmt⟩ := hP jd (find_mem P a.job jd hj) hb
        have hm := matchAct_customer P t.vehicle t.shift (fmt st.dep) a jd pl hk hpo hsv hd hmt
        have hdep : fmt a.dep = endOf a := by
          simp only [servedAt, Bool.and_eq_true, beq_iff_eq] at hsv
          exact hsv.1.1.2
        refine ⟨Or.inr ⟨jd, _, hm, hj, rfl, by simp [isJobAct, hk], ?_, Or.inl ⟨hk, hb, rfl⟩⟩, Or.inr (Or.inr hdep)⟩
        intro hl
        have := (List.getElem?_eq_some_iff.mp hs).1
        omega
      · simp at hpl
    · obtain ⟨⟨⟨⟨hk, hnc⟩, htask⟩, hdep⟩, hmb⟩ := hbound
      split at hmb
      · rename_i jd p hmatch
        simp only [Bool.and_eq_true, beq_iff_eq] at hmb
        obtain ⟨hid, hb⟩ := hmb
        simp only [Bool.not_eq_true'] at hnc
        have hnt := bound_not_terminal a.kind hk
        have hfind : P.find a.job = some jd := by
          have := boundGroup_find P t.vehicle a.kind t.shift _ _ jd (matchBound_mem _ _ jd p hmatch)
          rw [hid] at this; exact this
        have hm : matchAct P t.vehicle t.shift (ctxOfAct P (fmt st.dep) a)
            = .ok (some (jd, { job := jd.id, task := 0, place := p, loc := a.loc })) := by
          have hck : (ctxOfAct P (fmt st.dep) a).kind = a.kind := rfl
          simp only [matchAct, hck, hnc, hk, Bool.false_eq_true, if_false, if_true]
          have hnb : (a.kind == "departure" || a.kind == "arrival") = false := by simp [hnt.1, hnt.2]
          simp only [hnb, Bool.false_eq_true, if_false, hmatch]
          rfl
        exact ⟨Or.inr ⟨jd, _, hm, hfind, hid, by simp [isJobAct, hk], fun _ => htask, Or.inr ⟨hnc, hb⟩⟩,
          Or.inr (Or.inr hdep)⟩
      · simp at hmb

/-! ## all tours, the unassigned list, the theorem -/

theorem readActs_written (P : Problem) (t : Tour) (st : Act) (rest : List Act) (ht : t.acts = st :: rest)
    (hk : st.kind = "departure") (hg : ∀ x ∈ t.acts, good x) (added : List String) :
    readActs P t.vehicle t.shift (viewTour (writeTour P t)) added
      = readActs P t.vehicle t.shift (t.acts.map (ctxOfAct P (fmt st.dep))) added := by
  rw [← readActs_norm, view_written P t st rest ht hk hg]
  have : t.acts.map (fun x => norm (ctxOfAct P (fmt st.dep) x)) = (t.acts.map (ctxOfAct P (fmt st.dep))).map norm := by
    simp
  rw [this, readActs_norm]

def pairOf (a : Act) : String × Nat := (a.job, a.task)

theorem readTours_ok (P : Problem) (hP : ProblemOk P) : ∀ (tours : List Tour) (prev : List Act) (added : List String),
    (∀ t ∈ tours, tourOk P t = true) →
    (((prev ++ tours.flatMap (·.acts)).filter isJobAct).map (fun a => (a.job, a.task))).Nodup →
    (∀ a ∈ prev, isJobAct a = true → ∀ jd, P.find a.job = some jd → jd.singles.length ≤ 1 → a.task = 0) →
    (∀ id ∈ added, ∃ a' ∈ prev, isJobAct a' = true ∧ a'.job = id) →
    ∃ rts added', readTours P (tours.map (writeTour P)) added = .ok (rts, added') ∧
      sameCustomerActs P tours rts = true ∧
      (∀ id, (id ∈ added ∨ ∃ a' ∈ tours.flatMap (·.acts), isJobAct a' = true ∧ a'.job = id) → id ∈ added') := by
  intro tours
  induction tours with
  | nil =>
    intro prev added _ _ _ _
    exact ⟨[], added, rfl, rfl, fun id h => by
      rcases h with h | ⟨a', ha', _⟩
      · exact h
      · simp at ha'⟩
  | cons t tours ih =>
    intro prev added hok hnd hvalid hadd
    have htok := hok t (by simp)
    -- the tour starts with the departure activity
    obtain ⟨st, rest, ht⟩ : ∃ st rest, t.acts = st :: rest := by
      cases hacts : t.acts with
      | nil => simp [tourOk, hacts] at htok
      | cons st rest => exact ⟨st, rest, rfl⟩
    obtain ⟨hst, hall⟩ := tourOk_resolves P t st rest hP ht htok
    have hres : ∀ a ∈ t.acts, Resolves P t.vehicle t.shift (fmt st.dep) a := fun a ha => (hall a ha).1
    have hgood : ∀ a ∈ t.acts, good a := fun a ha => (hall a ha).2
    have hnd1 : (((prev ++ t.acts).filter isJobAct).map (fun a => (a.job, a.task))).Nodup := by
      have : ((prev ++ (t :: tours).flatMap (·.acts)).filter isJobAct).map (fun a => (a.job, a.task))
          = ((prev ++ t.acts).filter isJobAct).map (fun a => (a.job, a.task)) ++
            ((tours.flatMap (·.acts)).filter isJobAct).map (fun a => (a.job, a.task)) := by
        simp [List.filter_append]
      rw [this] at hnd
      exact (List.nodup_append.mp hnd).1
    obtain ⟨ras, added1, h1, h2, h3, h4⟩ := readActs_ok P t.vehicle t.shift (fmt st.dep) t.acts prev added hres hnd1
      hvalid hadd
    have hnd2 : ((((prev ++ t.acts) ++ tours.flatMap (·.acts)).filter isJobAct).map (fun a => (a.job, a.task))).Nodup := by
      simpa using hnd
    have hvalid2 : ∀ a ∈ prev ++ t.acts, isJobAct a = true → ∀ jd, P.find a.job = some jd →
        jd.singles.length ≤ 1 → a.task = 0 := by
      intro a ha hj jd hf hl
      simp at ha
      rcases ha with ha | ha
      · exact hvalid a ha hj jd hf hl
      · rcases hres a ha with ⟨_, hnj⟩ | ⟨jd', _, _, hf', _, _, htask, _⟩
        · rw [hnj] at hj; cases hj
        · rw [hf] at hf'; cases hf'; exact htask hl
    have hadd2 : ∀ id ∈ added1, ∃ a' ∈ prev ++ t.acts, isJobAct a' = true ∧ a'.job = id := by
      intro id hid
      rcases h3 id hid with h | ⟨a', ha', hh⟩
      · obtain ⟨a', ha', hh⟩ := hadd id h
        exact ⟨a', by simp [ha'], hh⟩
      · exact ⟨a', by simp [ha'], hh⟩
    obtain ⟨rts, added2, g1, g2, g3⟩ := ih (prev ++ t.acts) added1 (fun t' h' => hok t' (by simp [h'])) hnd2 hvalid2 hadd2
    refine ⟨({ vehicle := t.vehicle, shift := t.shift, acts := ras } : RTour) :: rts, added2, ?_, ?_, ?_⟩
    · have hne : (writeTour P t).stops.isEmpty = false := by
        simp only [writeTour, ht]
        obtain ⟨r, rs, hgr⟩ := groupRuns_head st rest
        rw [hgr]; rfl
      simp only [List.map_cons, readTours, hne, Bool.false_eq_true, if_false]
      have hv : (writeTour P t).vehicle = t.vehicle := rfl
      have hs : (writeTour P t).shift = t.shift := rfl
      rw [hv, hs, readActs_written P t st rest ht hst hgood added, h1]
      simp only [g1]
    · simp only [sameCustomerActs, List.length_cons, List.zip_cons_cons, List.all_cons, Bool.and_eq_true,
        beq_iff_eq, decide_eq_true_eq] at g2 ⊢
      refine ⟨by omega, ?_, g2.2⟩
      simp [h2]
    · intro id hid
      apply g3
      rcases hid with h | ⟨a', ha', hj', hh⟩
      · exact Or.inl (h4 id (Or.inl h))
      · simp at ha'
        rcases ha' with ha' | ⟨t', ht', ha'⟩
        · exact Or.inl (h4 id (Or.inr ⟨a', ha', hj', hh⟩))
        · exact Or.inr ⟨a', List.mem_flatMap.mpr ⟨t', ht', ha'⟩, hj', hh⟩

theorem nodupB_sound [BEq α] [LawfulBEq α] : ∀ l : List α, nodupB l = true → l.Nodup := by
  intro l
  induction l with
  | nil => intro _; exact List.nodup_nil
  | cons a l ih =>
    intro h
    simp only [nodupB, Bool.and_eq_true, Bool.not_eq_true'] at h
    refine List.nodup_cons.mpr ⟨?_, ih h.2⟩
    intro hm
    have : l.contains a = true := List.contains_iff_mem.mpr hm
    rw [h.1] at this; cases this

theorem find_of_mem_aux : ∀ (l : List JobDef), (l.map (·.id)).Nodup → ∀ jd ∈ l,
    l.find? (fun j => j.id == jd.id) = some jd := by
  intro l
  induction l with
  | nil => intro _ jd h; simp at h
  | cons a l ih =>
    intro hnd jd hm
    simp only [List.map_cons, List.nodup_cons] at hnd
    simp at hm
    rcases hm with rfl | hm
    · simp
    · have hne : (a.id == jd.id) = false := by
        cases h : a.id == jd.id with
        | false => rfl
        | true =>
          exfalso
          have : a.id = jd.id := by simpa using h
          exact hnd.1 (by rw [this]; exact List.mem_map.mpr ⟨jd, hm, rfl⟩)
      simp only [List.find?_cons, hne]
      exact ih hnd.2 jd hm

theorem find_of_mem (P : Problem) (h : idsOk P = true) (jd : JobDef) (hm : jd ∈ P.jobs) :
    P.find jd.id = some jd :=
  find_of_mem_aux P.jobs (nodupB_sound _ h) jd hm

theorem customerIds_idem (P : Problem) (ids : List String) : customerIds P (customerIds P ids) = customerIds P ids := by
  simp [customerIds, List.filter_filter]

theorem customerIds_append (P : Problem) (a b : List String) :
    customerIds P (a ++ b) = customerIds P a ++ customerIds P b := by
  simp [customerIds]

theorem writeUnassigned_eq (P : Problem) (U : List String) : writeUnassigned P U = customerIds P U := rfl

/-- **initial-solution round trip** (partial: under the executable hypotheses `initHyp` — unique job
    ids; the places of every customer job can be told apart by tag, location, or windows further apart
    than the duration, multi-jobs carry at least as many distinct tags as tasks; every customer activity
    of the solution is served at the place it names, inside one of its windows; no task is served
    twice; every vehicle-bound activity (reload, optional break) resolves to its own marker job; the
    unassigned list names jobs of the problem and every customer job is served or unassigned.
    Excluded: required breaks (transit stops, S31), clustering (commute), indistinguishable places or
    marker jobs):

    writing the solution and reading it back as initial solution succeeds, gives the same customer-job
    activities on the same vehicle shifts, in the same order, each with the same task and place index at
    the same location, and the same set of unassigned customer jobs. -/
theorem init_roundtrip_partial (P : Problem) (tours : List Tour) (U : List String)
    (h : initHyp P tours U = true) :
    ∃ r, roundTrip P tours U = .ok r ∧
      sameCustomerActs P tours r.tours = true ∧
      sameSet (customerIds P U) (customerIds P r.unassigned) = true := by
  simp only [initHyp, Bool.and_eq_true] at h
  obtain ⟨⟨⟨hids, hprob⟩, htrace⟩, hun⟩ := h
  have hP : ProblemOk P := by
    intro jd hm hb
    rw [List.all_eq_true] at hprob
    have := hprob jd (by simp [hm, hb])
    simp only [Bool.and_eq_true] at this
    exact this
  simp only [traceOk, Bool.and_eq_true, List.all_eq_true] at htrace
  obtain ⟨hnd, hok⟩ := htrace
  have hnd' : ((([] ++ tours.flatMap (fun (t : Tour) => t.acts)).filter isJobAct).map
      (fun (a : Act) => (a.job, a.task))).Nodup := by
    have := nodupB_sound _ hnd
    have e : isJobAct = fun a => isCustomerKind a.kind || isBoundKind a.kind := rfl
    rw [e]
    simpa [jobActs] using this
  obtain ⟨rts, added, h1, h2, h3⟩ := readTours_ok P hP tours [] [] hok hnd' (by simp) (by simp)
  simp only [unassignedOk, Bool.and_eq_true, List.all_eq_true] at hun
  obtain ⟨hfound, hpart⟩ := hun
  have hwfound : (writeUnassigned P U).all (fun id => (P.find id).isSome) = true := by
    rw [List.all_eq_true]
    intro id hid
    exact hfound id (List.mem_filter.mp hid).1
  refine ⟨{ tours := rts, unassigned := writeUnassigned P U ++
      (P.jobs.filter (fun j => !((writeUnassigned P U).reverse ++ added).contains j.id)).map (·.id) }, ?_, h2, ?_⟩
  · simp only [roundTrip, readInit, h1, hwfound, if_true]
  · -- the unassigned customer set
    simp only [customerIds_append, writeUnassigned_eq, customerIds_idem]
    simp only [sameSet, Bool.and_eq_true, List.all_eq_true]
    constructor
    · intro id hid
      simp [hid]
    · intro id hid
      simp only [List.mem_append] at hid
      rcases hid with hid | hid
      · simpa using hid
      · -- a customer job of the problem that was not added: it is in the solver's unassigned list
        simp only [customerIds, List.mem_filter, List.mem_map] at hid
        obtain ⟨⟨jd, ⟨hjm, hnot⟩, rfl⟩, hcust⟩ := hid
        have hf := find_of_mem P hids jd hjm
        simp only [hf, Bool.not_eq_true'] at hcust
        have := hpart jd (by simp [hjm, hcust])
        simp only [Bool.or_eq_true, List.any_eq_true, beq_iff_eq] at this
        rcases this with hu | ⟨a, ha, haj⟩
        · have hu' : jd.id ∈ U := by simpa using hu
          have : jd.id ∈ customerIds P U := by
            simp [customerIds, hu', hf, hcust]
          simpa using this
        · exfalso
          have hadded : jd.id ∈ added := by
            apply h3
            right
            simp only [jobActs, List.mem_filter] at ha
            exact ⟨a, ha.1, by simpa [isJobAct] using ha.2, haj⟩
          simp only [Bool.not_eq_true', List.contains_eq_mem, List.mem_append, List.mem_reverse,
            decide_eq_false_iff_not, not_or] at hnot
          exact hnot.2 hadded

/-! ### non-vacuity, and the excluded point -/

namespace Demo
def w (s e : Int) : Span := { offset := false, s := s, e := e }
/-- the S8b witness: job A, two places at location 1 with the same window, 600 s tag `first`, 60 s tag `second` -/
def jobA (t1 t2 : Option String) : JobDef :=
  { id := "A", bound := false,
    singles := [{ places := [{ loc := some 1, dur := 600, spans := [w 0 3600], tag := t1 },
                              { loc := some 1, dur := 60, spans := [w 0 3600], tag := t2 }] }] }
def P (t1 t2 : Option String) : Problem := { jobs := [jobA t1 t2] }
/-- the solver's tour: departure, delivery of A at its SECOND place (arrival 10 s, 60 s service), arrival -/
def tour : Tour := { vehicle := "v1", shift := 0, acts := [
  { job := "", kind := "departure", task := 0, place := 0, loc := 0, arr := 0, dep := 0, tws := 0, dur := 0 },
  { job := "A", kind := "delivery", task := 0, place := 1, loc := 1, arr := 40, dep := 280, tws := 0, dur := 240 },
  { job := "", kind := "arrival", task := 0, place := 0, loc := 0, arr := 320, dep := 320, tws := 0, dur := 0 }] }

/-- distinct tags: the hypotheses hold … -/
example : initHyp (P (some "first") (some "second")) [tour] [] = true := by decide
/-- … and the round trip gives place 1 back -/
example : roundTrip (P (some "first") (some "second")) [tour] []
    = .ok { tours := [{ vehicle := "v1", shift := 0, acts := [{ job := "A", task := 0, place := 1, loc := 1 }] }],
            unassigned := [] } := by rfl
/-- the excluded point — equal (or no) tags, same location, same window: the hypothesis fails and the
    activity really comes back at the wrong place (place 0, the 600 s one) -/
example : initHyp (P none none) [tour] [] = false := by decide
example : roundTrip (P none none) [tour] []
    = .ok { tours := [{ vehicle := "v1", shift := 0, acts := [{ job := "A", task := 0, place := 0, loc := 1 }] }],
            unassigned := [] } := by rfl
end Demo

end C11.Init
