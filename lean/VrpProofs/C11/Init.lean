import VrpModel.C11Init
set_option linter.unusedSimpArgs false
set_option linter.unusedVariables false
/-! C11 part 2: the initial-solution round trip — per-activity matching, the reader's view of a written
    tour, bookkeeping. -/
namespace C11.Init

/-! ## first-match search -/

theorem findIdxFrom_none {p : α → Bool} : ∀ (l : List α) (i : Nat), (∀ y ∈ l, p y = false) → findIdxFrom p l i = none := by
  intro l
  induction l with
  | nil => intro i _; rfl
  | cons a l ih =>
    intro i h
    simp only [findIdxFrom, h a (by simp)]
    exact ih (i+1) (fun y hy => h y (by simp [hy]))

theorem findIdxFrom_spec {p : α → Bool} : ∀ (l : List α) (k i : Nat) (x : α),
    l[k]? = some x → p x = true → (∀ j y, j < k → l[j]? = some y → p y = false) →
    findIdxFrom p l i = some (i + k) := by
  intro l
  induction l with
  | nil => intro k i x h; simp at h
  | cons a l ih =>
    intro k i x hk hp hlt
    cases k with
    | zero =>
      simp at hk; subst hk
      simp [findIdxFrom, hp]
    | succ k =>
      have ha : p a = false := hlt 0 a (by omega) (by simp)
      simp only [findIdxFrom, ha]
      simp at hk
      rw [ih k (i+1) x hk hp (fun j y hj hy => hlt (j+1) y (by omega) (by simpa using hy))]
      have : i + 1 + k = i + (k + 1) := by omega
      rw [this]; simp

theorem matchSingles_spec (c : Ctx) : ∀ (singles : List Single) (t i p : Nat) (s : Single),
    singles[t]? = some s → matchPlace s true true c = some p →
    (∀ j s', j < t → singles[j]? = some s' → matchPlace s' true true c = none) →
    matchSingles true c singles i = some (i + t, p) := by
  intro singles
  induction singles with
  | nil => intro t i p s h; simp at h
  | cons a l ih =>
    intro t i p s ht hm hlt
    cases t with
    | zero =>
      simp at ht; subst ht
      simp [matchSingles, hm]
    | succ t =>
      have ha := hlt 0 a (by omega) (by simp)
      simp only [matchSingles, ha]
      simp at ht
      rw [ih t (i+1) p s ht hm (fun j s' hj hs => hlt (j+1) s' (by omega) (by simpa using hs))]
      have : i + 1 + t = i + (t + 1) := by omega
      rw [this]

/-! ## telling places apart -/

theorem endOf_eq (a : Act) (d : Int) (h : a.dur = Q * d) : endOf a = startOf a + d := by
  simp only [endOf, startOf, fmt, h, Q]
  omega

/-- the place an activity is served at matches what the writer puts into the document -/
theorem placeMatches_self (pl : Place) (a : Act) (c : Ctx) (hs : servedAt pl a = true)
    (hl : c.loc = a.loc) (ht : c.time = (startOf a, endOf a)) (hg : c.tag = pl.tag) :
    placeMatches pl c = true := by
  simp only [servedAt, Bool.and_eq_true, List.any_eq_true, beq_iff_eq, decide_eq_true_eq] at hs
  obtain ⟨⟨⟨⟨hloc, hdur⟩, _⟩, hnn⟩, wp, hwp, hw⟩ := hs
  have hend := endOf_eq a pl.dur hdur
  simp only [placeMatches, Bool.and_eq_true, List.any_eq_true]
  refine ⟨⟨by simp [hg], by simp [hloc, hl]⟩, wp, hwp, ?_⟩
  simp only [Bool.and_eq_true, Bool.not_eq_true', decide_eq_true_eq] at hw
  obtain ⟨⟨hoff, h1⟩, h2⟩ := hw
  simp only [Span.window, hoff, intersects, ht, Bool.and_eq_true, decide_eq_true_eq, Bool.false_eq_true, if_false]
  constructor
  · rw [hend]; omega
  · exact h2

/-- a place that can be told apart from the one the activity is served at does not match -/
theorem placeMatches_other (pl q : Place) (a : Act) (c : Ctx) (hs : servedAt pl a = true)
    (hap : placesApart pl q = true)
    (hl : c.loc = a.loc) (ht : c.time = (startOf a, endOf a)) (hg : c.tag = pl.tag) :
    placeMatches q c = false := by
  cases hm : placeMatches q c with
  | false => rfl
  | true =>
    exfalso
    simp only [servedAt, Bool.and_eq_true, List.any_eq_true, beq_iff_eq, decide_eq_true_eq] at hs
    obtain ⟨⟨⟨⟨hloc, hdur⟩, _⟩, hnn⟩, wp, hwp, hw⟩ := hs
    have hend := endOf_eq a pl.dur hdur
    simp only [Bool.and_eq_true, Bool.not_eq_true', decide_eq_true_eq] at hw
    obtain ⟨⟨hoff, h1⟩, h2⟩ := hw
    simp only [placeMatches, Bool.and_eq_true, List.any_eq_true, beq_iff_eq] at hm
    obtain ⟨⟨hqt, hql⟩, wq, hwq, hi⟩ := hm
    simp only [placesApart, Bool.or_eq_true, bne_iff_ne, ne_eq] at hap
    rcases hap with (htag | hlocs) | hfar
    · exact htag (by rw [hqt, hg])
    · rw [hloc] at hlocs
      cases hq : q.loc with
      | none => simp [hq] at hlocs
      | some b =>
        simp only [hq, bne_iff_ne, ne_eq] at hlocs
        simp only [hq, beq_iff_eq] at hql
        exact hlocs (by rw [hql, hl])
    · rw [List.all_eq_true] at hfar
      have h3 := hfar wp hwp
      rw [List.all_eq_true] at h3
      have h4 := h3 wq hwq
      simp only [Bool.and_eq_true, Bool.not_eq_true', Bool.or_eq_true, decide_eq_true_eq] at h4
      obtain ⟨⟨_, hqoff⟩, hsep⟩ := h4
      simp only [Span.window, hqoff, intersects, ht, Bool.and_eq_true, decide_eq_true_eq, Bool.false_eq_true,
        if_false] at hi
      rw [hend] at hi
      omega

theorem mem_allPlaces (jd : JobDef) (i q : Nat) (s : Single) (pl : Place)
    (hs : jd.singles[i]? = some s) (hp : s.places[q]? = some pl) : ((i, q), pl) ∈ allPlaces jd := by
  simp only [allPlaces, List.mem_flatMap, List.mem_map]
  refine ⟨(s, i), ?_, (pl, q), ?_, rfl⟩
  · exact List.mem_zipIdx_iff_getElem?.mpr hs
  · exact List.mem_zipIdx_iff_getElem?.mpr hp

/-- what the executable check `placesDistinguishable` gives -/
theorem placesDistinguishable_spec (jd : JobDef) (h : placesDistinguishable jd = true)
    (i q i' q' : Nat) (s s' : Single) (pl pl' : Place)
    (hs : jd.singles[i]? = some s) (hp : s.places[q]? = some pl)
    (hs' : jd.singles[i']? = some s') (hp' : s'.places[q']? = some pl')
    (hne : (i, q) ≠ (i', q')) : placesApart pl pl' = true := by
  simp only [placesDistinguishable, List.all_eq_true] at h
  have := h _ (mem_allPlaces jd i q s pl hs hp) _ (mem_allPlaces jd i' q' s' pl' hs' hp')
  simp only [Bool.or_eq_true, beq_iff_eq] at this
  rcases this with h1 | h2
  · exact absurd h1 hne
  · exact h2

theorem find_id (P : Problem) (id : String) (jd : JobDef) (h : P.find id = some jd) : jd.id = id := by
  have := List.find?_some h
  simpa using this

theorem find_mem (P : Problem) (id : String) (jd : JobDef) (h : P.find id = some jd) : jd ∈ P.jobs :=
  List.mem_of_find?_eq_some h

theorem placeOf_some (P : Problem) (a : Act) (jd : JobDef) (pl : Place) (h : placeOf P a = some (jd, pl)) :
    P.find a.job = some jd ∧ ∃ s, jd.singles[a.task]? = some s ∧ s.places[a.place]? = some pl := by
  simp only [placeOf] at h
  split at h
  · rename_i jd' hj
    split at h
    · rename_i s hs
      split at h
      · rename_i pl' hp
        simp at h
        obtain ⟨rfl, rfl⟩ := h
        exact ⟨hj, s, hs, hp⟩
      · simp at h
    · simp at h
  · simp at h

theorem tagOf_eq (P : Problem) (a : Act) (jd : JobDef) (pl : Place) (h : placeOf P a = some (jd, pl)) :
    tagOf P a = pl.tag := by
  obtain ⟨hj, s, hs, hp⟩ := placeOf_some P a jd pl h
  simp [tagOf, hj, hs, hp]

/-- **the matcher finds the place the solver used**: a customer activity served at place
    `(a.task, a.place)` of job `jd`, written by the writer, is matched to exactly that single and place,
    provided the places of the job can be told apart. -/
theorem matchAct_customer (P : Problem) (vehicle : String) (shift : Nat) (rs : Int) (a : Act)
    (jd : JobDef) (pl : Place)
    (hk : isCustomerKind a.kind = true)
    (hpo : placeOf P a = some (jd, pl))
    (hsv : servedAt pl a = true)
    (hd : placesDistinguishable jd = true)
    (hmt : (decide (jd.singles.length ≤ 1) || multiTagsOk jd) = true) :
    matchAct P vehicle shift (ctxOfAct P rs a)
      = .ok (some (jd, { job := a.job, task := a.task, place := a.place, loc := a.loc })) := by
  obtain ⟨hj, s, hs, hp⟩ := placeOf_some P a jd pl hpo
  have hid := find_id P a.job jd hj
  have htag := tagOf_eq P a jd pl hpo
  -- the context the reader sees
  let c := ctxOfAct P rs a
  have hcl : c.loc = a.loc := rfl
  have hct : c.time = (startOf a, endOf a) := rfl
  have hcg : c.tag = pl.tag := htag
  have hcj : c.jobId = a.job := by simp [c, ctxOfAct, hk]
  have hck : c.kind = a.kind := rfl
  -- the used single matches at the used place
  have hself : matchPlace s true true c = some a.place := by
    simp only [matchPlace, Bool.not_true, Bool.and_false, Bool.false_eq_true, if_false]
    have := findIdxFrom_spec (p := fun pl => placeMatches pl c) s.places a.place 0 pl hp
      (placeMatches_self pl a c hsv hcl hct hcg)
      (fun j y hj hy => placeMatches_other pl y a c hsv
        (placesDistinguishable_spec jd hd a.task a.place a.task j s s pl y hs hp hs hy (by
          intro e; simp at e; omega)) hcl hct hcg)
    simpa using this
  -- earlier singles do not match
  have hearlier : ∀ j s', j < a.task → jd.singles[j]? = some s' → matchPlace s' true true c = none := by
    intro j s' hj hs'
    simp only [matchPlace, Bool.not_true, Bool.and_false, Bool.false_eq_true, if_false]
    apply findIdxFrom_none
    intro y hy
    obtain ⟨q, hq⟩ := List.getElem?_of_mem hy
    exact placeMatches_other pl y a c hsv
      (placesDistinguishable_spec jd hd a.task a.place j q s s' pl y hs hp hs' hq (by
        intro e; simp at e; omega)) hcl hct hcg
  have hms := matchSingles_spec c jd.singles a.task 0 a.place s hs hself hearlier
  simp only [Nat.zero_add] at hms
  have hnotdep : (c.kind == "departure" || c.kind == "arrival") = false := by
    rw [hck]
    simp only [isCustomerKind, Bool.or_eq_true, beq_iff_eq] at hk
    rcases hk with ((h | h) | h) | h <;> simp [h]
  have hmulti : (decide (jd.singles.length > 1) && !multiTagsOk jd) = false := by
    simp only [Bool.or_eq_true, decide_eq_true_eq] at hmt
    rcases hmt with h | h
    · simp; omega
    · simp [h]
  have hnd : ¬a.kind = "departure" ∧ ¬a.kind = "arrival" := by
    simp only [isCustomerKind, Bool.or_eq_true, beq_iff_eq] at hk
    rcases hk with ((h | h) | h) | h <;> simp [h]
  show matchAct P vehicle shift c = _
  simp only [matchAct, hnotdep, Bool.false_eq_true, if_false, hck, hk, if_true, hcj, hj, hmulti, hid,
    beq_self_eq_true, hms]
  simp [hcl, hid, hnd.1, hnd.2]

/-! ## what the reader sees of a written tour -/

/-- departure / arrival activities are skipped by the reader whatever else they carry -/
def norm (c : Ctx) : Ctx :=
  if c.kind == "departure" || c.kind == "arrival" then
    { routeStart := 0, loc := 0, time := (0, 0), kind := c.kind, jobId := "", tag := none }
  else c

theorem matchAct_norm (P : Problem) (v : String) (sh : Nat) (c : Ctx) :
    matchAct P v sh (norm c) = matchAct P v sh c := by
  unfold norm
  split
  · rename_i h
    simp only [matchAct, h, if_true]
  · rfl

theorem groupRuns_flatten : ∀ l : List Act, (groupRuns l).flatMap (fun run => run.1 :: run.2) = l := by
  intro l
  induction l with
  | nil => rfl
  | cons a as ih =>
    simp only [groupRuns]
    split
    · rename_i b r rs hg
      rw [hg] at ih
      split
      · simp only [List.flatMap_cons] at ih ⊢
        simp only [List.cons_append] at ih ⊢
        rw [ih]
      · simp only [List.flatMap_cons] at ih ⊢
        simp [ih]
    · rename_i hg
      rw [hg] at ih
      simp at ih
      simp [ih]

theorem groupRuns_head (a : Act) (as : List Act) : ∃ r rs, groupRuns (a :: as) = (a, r) :: rs := by
  simp only [groupRuns]
  split
  · split
    · exact ⟨_, _, rfl⟩
    · exact ⟨_, _, rfl⟩
  · exact ⟨_, _, rfl⟩

def good (a : Act) : Prop := a.kind = "departure" ∨ a.kind = "arrival" ∨ fmt a.dep = endOf a

theorem lastOf_single (a : Act) : lastOf a [] = a := rfl

theorem view_multi (P : Problem) (rs : Int) (s : WStop) (n : Nat) (hn : n ≥ 2) (x : Act) :
    norm (ctxOfW rs s (wact P n x)) = norm (ctxOfAct P rs x) := by
  by_cases hd : x.kind = "departure"
  · simp [norm, ctxOfW, wact, ctxOfAct, hd]
  · have : (x.kind == "departure") = false := by simpa using hd
    simp [ctxOfW, wact, ctxOfAct, this]

theorem view_single (P : Problem) (rs : Int) (a : Act) (hg : good a) :
    norm (ctxOfW rs { loc := a.loc, arrival := fmt a.arr, departure := fmt a.dep, acts := [] }
      (cleanSingle (fmt a.arr) a.loc (wact P 1 a))) = norm (ctxOfAct P rs a) := by
  by_cases hd : a.kind = "departure"
  · simp [norm, ctxOfW, wact, ctxOfAct, cleanSingle, hd]
  · have hdb : (a.kind == "departure") = false := by simpa using hd
    by_cases ha : a.kind = "arrival"
    · simp [norm, ctxOfW, wact, ctxOfAct, cleanSingle, hdb, ha]
    · have hdep : fmt a.dep = endOf a := by
        rcases hg with h | h | h
        · exact absurd h hd
        · exact absurd h ha
        · exact h
      by_cases hs : fmt a.arr = startOf a
      · simp [ctxOfW, wact, ctxOfAct, cleanSingle, hdb, hs, hdep]
      · simp [ctxOfW, wact, ctxOfAct, cleanSingle, hdb, hs]

theorem view_run (P : Problem) (rs : Int) (run : Act × List Act) (hg : ∀ x ∈ run.1 :: run.2, good x) :
    ((stopOfRun P run).acts.map (ctxOfW rs (stopOfRun P run))).map norm
      = (run.1 :: run.2).map (fun x => norm (ctxOfAct P rs x)) := by
  obtain ⟨a, r⟩ := run
  cases r with
  | nil =>
    simp only [stopOfRun, lastOf, List.map_cons, List.map_nil]
    have := view_single P rs a (hg a (by simp))
    simp only [ctxOfW] at this ⊢
    rw [this]
  | cons b r' =>
    simp only [stopOfRun, List.map_map]
    apply List.map_congr_left
    intro x _
    exact view_multi P rs _ _ (by simp) x

theorem routeStart_written (P : Problem) (st : Act) (rest : List Act) (hk : st.kind = "departure") :
    routeStartOf ((groupRuns (st :: rest)).map (stopOfRun P)) = fmt st.dep := by
  obtain ⟨r, rs, hgr⟩ := groupRuns_head st rest
  rw [hgr]
  cases r with
  | nil => simp [routeStartOf, stopOfRun, wact, cleanSingle, hk, lastOf]
  | cons b r' => simp [routeStartOf, stopOfRun, wact, hk]

/-- **the reader's view of a written tour** is the list of the solver's activities, each with the
    location, interval, type, job id and tag the writer derived from it (up to the content of the
    departure / arrival entries, which the reader skips) -/
theorem view_written (P : Problem) (t : Tour) (st : Act) (rest : List Act) (ht : t.acts = st :: rest)
    (hk : st.kind = "departure") (hg : ∀ x ∈ t.acts, good x) :
    (viewTour (writeTour P t)).map norm = t.acts.map (fun x => norm (ctxOfAct P (fmt st.dep) x)) := by
  simp only [viewTour, writeTour]
  rw [ht, routeStart_written P st rest hk, ← ht]
  have hflat := groupRuns_flatten t.acts
  have hall : ∀ run ∈ groupRuns t.acts, ∀ x ∈ run.1 :: run.2, good x := by
    intro run hrun x hx
    apply hg
    rw [← hflat]
    exact List.mem_flatMap.mpr ⟨run, hrun, hx⟩
  generalize groupRuns t.acts = runs at hflat hall
  rw [← hflat]
  clear hflat
  induction runs with
  | nil => rfl
  | cons run runs ih =>
    simp only [List.map_cons, List.flatMap_cons, List.map_append]
    rw [view_run P (fmt st.dep) run (hall run (by simp))]
    rw [ih (fun run' h' => hall run' (by simp [h']))]
    simp

end C11.Init
