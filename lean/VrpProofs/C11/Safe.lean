import VrpProofs.C11.Codec
/-! C11 part 1: soundness of the syntactic `disjointB` / `safeB` conditions for `untagged` enums. -/
set_option linter.unusedSimpArgs false
set_option linter.unusedVariables false
namespace C11

def Disjoint (env : Env) (s t : Ty) : Prop :=
  ∀ n m v j, encode env n s v = some j → decode env m t j = none

theorem namesOKB_sound : ∀ fs, namesOKB fs = true → NamesOK fs := by
  intro fs
  induction fs with
  | nil => intro _; trivial
  | cons a fs ih =>
    obtain ⟨h, t⟩ := a
    intro hb
    simp only [namesOKB, Bool.and_eq_true, Bool.or_eq_true, List.all_eq_true] at hb
    obtain ⟨⟨h1, h2⟩, h3⟩ := hb
    refine ⟨?_, ?_, ih h3⟩
    · intro f hf
      have := h1 f hf
      simp at this
      exact ⟨this.1, this.2⟩
    · intro hs
      rcases h2 with h2 | h2
      · simp [hs] at h2
      · simp at h2; exact ⟨h2.1, h2.2⟩

theorem prim_disjoint (p q : Prim) (h : primAccepts q p = false) :
    ∀ v j, encPrim p v = some j → decPrim q j = none := by
  intro v j he
  cases p <;> cases v <;> simp [encPrim] at he <;> cases q <;> simp [primAccepts] at h <;>
    (try (subst he; rfl)) <;> (try (obtain ⟨_, rfl⟩ := he; rfl))

theorem decodeFields_none {dec} : ∀ (gs : Fields) (kvs : List (String × Json)) (g : FieldHdr × Ty),
    g ∈ gs → decodeField dec g.1 g.2 kvs = none → decodeFields dec gs kvs = none := by
  intro gs
  induction gs with
  | nil => intro kvs g hg; simp at hg
  | cons a gs ih =>
    intro kvs g hg hnone
    obtain ⟨hd, t⟩ := a
    simp at hg
    rcases hg with rfl | hg
    · simp only [decodeFields, hnone]
    · have := ih kvs g hg hnone
      simp only [decodeFields, this]
      split <;> simp_all

theorem lookup_none_of_keys (names : List String) (k : List (String × Json))
    (h : ∀ kv ∈ k, kv.1 ∉ names) : lookup names k = none := by
  simp only [lookup, Option.map_eq_none_iff, List.find?_eq_none]
  intro kv hkv
  simp [h kv hkv]

/-- in an encoding of well-named fields, looking up a non-skippable field's own name gives its encoding -/
theorem lookup_own {enc} : ∀ (fs : Fields) (vs : List Val) k, NamesOK fs → encodeFields enc fs vs = some k →
    ∀ f ∈ fs, f.1.skipNone = false → ∃ v j, enc f.2 v = some j ∧ lookup [f.1.ser] k = some j := by
  intro fs
  induction fs with
  | nil => intro vs k _ _ f hf; simp at hf
  | cons a fs ih =>
    intro vs k hn h f hf hns
    obtain ⟨hd, t⟩ := a
    obtain ⟨hn1, hn2, hn3⟩ := hn
    cases vs with
    | nil => simp [encodeFields] at h
    | cons v vs =>
      simp only [encodeFields] at h
      simp at hf
      rcases hf with rfl | hf
      · simp at hns
        simp [hns] at h
        split at h
        · rename_i j r hj hr
          simp at h; subst h
          exact ⟨v, j, hj, lookup_hit _ _ _ _ (by simp)⟩
        · simp at h
      · have hne : hd.ser ≠ f.1.ser := by
          intro e
          have := (hn1 f hf).1
          simp [FieldHdr.deNames, e] at this
        split at h
        · exact ih vs k hn3 h f hf hns
        · split at h
          · rename_i j r hj hr
            simp at h; subst h
            obtain ⟨v', j', h1, h2⟩ := ih vs r hn3 hr f hf hns
            refine ⟨v', j', h1, ?_⟩
            have := lookup_append_of_not_mem [f.1.ser] [(hd.ser, j)] r (by simp [hne])
            simpa using this.trans h2
          · simp at h

theorem disjoint_sound {env : Env} : ∀ fuel s t, disjointB env fuel s t = true →
    Disjoint env s t := by
  intro fuel
  induction fuel with
  | zero => intro s t h; simp [disjointB] at h
  | succ fuel ih =>
    intro s t h n m v j he
    cases m with
    | zero => simp [decode]
    | succ m =>
    cases n with
    | zero => simp [encode] at he
    | succ n =>
    cases s with
    | prim p =>
      cases t <;> simp [disjointB] at h
      · rename_i q
        simp only [encode] at he
        simp only [decode]
        exact prim_disjoint p q h v j he
      · rename_i b
        split at h
        · rename_i t hb
          simp only [decode, hb]
          exact ih _ _ h (n+1) m v j he
        · simp at h
    | struct fs =>
      cases t <;> simp only [disjointB] at h <;> try (simp at h; done)
      · rename_i gs
        rw [Bool.and_eq_true] at h
        obtain ⟨hnb, h⟩ := h
        have hn := namesOKB_sound fs hnb
        cases v <;> simp [encode] at he
        obtain ⟨k, hk, rfl⟩ := he
        simp only [decode]
        rw [List.any_eq_true] at h
        obtain ⟨g, hg, hcond⟩ := h
        simp only [Bool.and_eq_true, Bool.or_eq_true] at hcond
        obtain ⟨hreq, hcase⟩ := hcond
        simp [FieldHdr.required] at hreq
        have hkeys := encodeFields_keys fs _ k hk
        suffices decodeFields (decode env m) gs k = none by simp [this]
        apply decodeFields_none gs k g hg
        rcases hcase with hmiss | ⟨hal, hcommon⟩
        · rw [List.all_eq_true] at hmiss
          have : lookup g.1.deNames k = none := by
            apply lookup_none_of_keys
            intro kv hkv
            obtain ⟨f, hf, e⟩ := hkeys kv hkv
            have := hmiss f hf
            simp at this
            rw [e]; exact this
          simp [decodeField, this, hreq.1, hreq.2]
        · rw [List.any_eq_true] at hcommon
          obtain ⟨f, hf, hc⟩ := hcommon
          simp at hc
          obtain ⟨⟨hser, hnskip⟩, hdis⟩ := hc
          obtain ⟨v', j', h1, h2⟩ := lookup_own fs _ k hn hk f hf hnskip
          have hde : g.1.deNames = [f.1.ser] := by
            simp [FieldHdr.deNames, hser]
            simpa using hal
          simp only [decodeField, hde, h2]
          exact ih _ _ hdis n m v' j' h1
      · rename_i b
        split at h
        · rename_i t hb
          simp only [decode, hb]
          exact ih _ _ h (n+1) m v _ he
        · simp at h
    | ref a =>
      simp only [disjointB] at h
      split at h
      · rename_i s' ha
        simp only [encode, ha] at he
        exact ih _ _ h n (m+1) v j he
      · simp at h
    | opt _ => cases t <;> simp [disjointB] at h <;>
        (split at h
         · rename_i t hb; simp only [decode, hb]; exact ih _ _ h (n+1) m v j he
         · simp at h)
    | vec _ => cases t <;> simp [disjointB] at h <;>
        (split at h
         · rename_i t hb; simp only [decode, hb]; exact ih _ _ h (n+1) m v j he
         · simp at h)
    | tagged _ _ => cases t <;> simp [disjointB] at h <;>
        (split at h
         · rename_i t hb; simp only [decode, hb]; exact ih _ _ h (n+1) m v j he
         · simp at h)
    | units _ => cases t <;> simp [disjointB] at h <;>
        (split at h
         · rename_i t hb; simp only [decode, hb]; exact ih _ _ h (n+1) m v j he
         · simp at h)
    | untagged _ => cases t <;> simp [disjointB] at h <;>
        (split at h
         · rename_i t hb; simp only [decode, hb]; exact ih _ _ h (n+1) m v j he
         · simp at h)
theorem mapO_safe {enc enc' : Val → Option Json} {dec : Json → Option Val}
    (h : ∀ v j w, enc v = some j → dec j = some w → enc' w = some j) :
    ∀ vs js ws, mapO enc vs = some js → mapO dec js = some ws → mapO enc' ws = some js := by
  intro vs
  induction vs with
  | nil => intro js ws h1 h2; simp [mapO] at h1; subst h1; simp [mapO] at h2; subst h2; simp [mapO]
  | cons v vs ih =>
    intro js ws h1 h2
    simp only [mapO] at h1
    split at h1
    · rename_i b bs hb hbs
      simp at h1; subst h1
      simp only [mapO] at h2
      split at h2
      · rename_i w ws' hw hws
        simp at h2; subst h2
        simp [mapO, h v b w hb hw, ih bs ws' hbs hws]
      · simp at h2
    · simp at h1

theorem safe_sound {env : Env} : ∀ fuel s t, safeB env fuel s t = true → Safe env s t := by
  intro fuel
  induction fuel with
  | zero => intro s t h; simp [safeB] at h
  | succ fuel ih =>
    intro s t h n v j w he hd
    simp only [safeB, Bool.or_eq_true] at h
    rcases h with h | h
    · have := disjoint_sound _ s t h n n v j he
      rw [this] at hd; cases hd
    · cases n with
      | zero => simp [encode] at he
      | succ n =>
      split at h
      · rename_i a b
        cases v <;> simp [encode] at he
        obtain ⟨js, hjs, rfl⟩ := he
        simp [decode] at hd
        obtain ⟨ws, hws, rfl⟩ := hd
        have := mapO_safe (fun v j w h1 h2 => ih a b h n v j w h1 h2) _ _ _ hjs hws
        simp [encode, this]
      · rename_i a b
        split at h
        · rename_i s' t' ha hb
          simp only [encode, ha] at he
          simp only [decode, hb] at hd
          simp only [encode, hb]
          exact ih s' t' h n v j w he hd
        · simp at h
      · simp at h
end C11
