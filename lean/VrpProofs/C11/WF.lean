import VrpProofs.C11.Safe
/-! C11 part 1: soundness of the decidable schema check `envWFB`; end-to-end round trip. -/
set_option linter.unusedSimpArgs false
set_option linter.unusedVariables false
namespace C11

theorem encPrim_ne_null (p v j) (h : encPrim p v = some j) : j ≠ .null := by
  cases p <;> cases v <;> simp [encPrim] at h <;> (try (subst h; simp)) <;> (obtain ⟨_, rfl⟩ := h; simp)

theorem neverNull_sound {env : Env} : ∀ fuel t, neverNullB env fuel t = true → NeverNull env t := by
  intro fuel
  induction fuel with
  | zero => intro t h; simp [neverNullB] at h
  | succ fuel ih =>
    intro t h n v j he
    cases n with
    | zero => simp [encode] at he
    | succ n =>
    cases t with
    | prim p => simp only [encode] at he; exact encPrim_ne_null p v j he
    | opt _ => simp [neverNullB] at h
    | vec t =>
      cases v <;> simp [encode] at he
      obtain ⟨_, _, rfl⟩ := he; simp
    | struct fs =>
      cases v <;> simp [encode] at he
      obtain ⟨_, _, rfl⟩ := he; simp
    | tagged tag vars =>
      cases v <;> try simp [encode] at he
      rename_i i v'
      cases v' <;> try simp [encode] at he
      split at he
      · simp at he; obtain ⟨_, _, rfl⟩ := he; simp
      · simp at he
    | units names =>
      cases v <;> try simp [encode] at he
      rename_i i v'
      cases v' <;> try simp [encode] at he
      obtain ⟨_, _, rfl⟩ := he; simp
    | untagged ts =>
      cases v <;> try simp [encode] at he
      split at he
      · rename_i t hi
        simp only [neverNullB, List.all_eq_true] at h
        exact ih t (h t (List.mem_of_getElem? hi)) n _ j he
      · simp at he
    | ref a =>
      simp only [encode] at he
      simp only [neverNullB] at h
      split at he
      · rename_i t ha
        rw [ha] at h
        exact ih t h n v j he
      · simp at he

theorem skipOKB_sound {env n f} (h : skipOKB env n f = true) :
    f.1.skipNone = true → ∃ t', f.2 = .opt t' ∧ NeverNull env t' := by
  intro hs
  simp only [skipOKB, hs, Bool.not_true, Bool.false_or] at h
  split at h
  · rename_i t' e; exact ⟨t', e, neverNull_sound _ _ h⟩
  · simp at h

theorem pairwiseSafeB_sound {env n} : ∀ ts, pairwiseSafeB env n ts = true →
    ∀ (i k : Nat) s t, i < k → ts[i]? = some t → ts[k]? = some s → Safe env s t := by
  intro ts
  induction ts with
  | nil => intro _ i k s t _ h; simp at h
  | cons a ts ih =>
    intro h i k s t hik hi hk
    simp only [pairwiseSafeB, Bool.and_eq_true, List.all_eq_true] at h
    cases k with
    | zero => omega
    | succ k =>
      simp at hk
      cases i with
      | zero =>
        simp at hi; subst hi
        exact safe_sound _ _ _ (h.1 s (List.mem_of_getElem? hk))
      | succ i =>
        simp at hi
        exact ih h.2 i k s t (by omega) hi hk

theorem tyWFB_sound {env : Env} : ∀ fuel t, tyWFB env fuel t = true → TyWF env t := by
  intro fuel
  induction fuel with
  | zero => intro t h; simp [tyWFB] at h
  | succ n ih =>
    intro t h
    cases t with
    | prim p => exact .prim p
    | opt t => exact .opt (ih t (by simpa [tyWFB] using h))
    | vec t => exact .vec (ih t (by simpa [tyWFB] using h))
    | struct fs =>
      simp only [tyWFB, Bool.and_eq_true, List.all_eq_true] at h
      exact .struct (namesOKB_sound fs h.1) (fun f hf => ih _ (h.2 f hf).1)
        (fun f hf => skipOKB_sound (h.2 f hf).2)
    | tagged tag vars =>
      simp only [tyWFB, Bool.and_eq_true, List.all_eq_true, decide_eq_true_eq] at h
      refine .tagged (fun v hv f hf => ih _ ((h.1 v hv).2 f hf).1.2) ?_ h.2
      intro v hv
      refine ⟨namesOKB_sound _ (h.1 v hv).1, fun f hf => ⟨?_, skipOKB_sound ((h.1 v hv).2 f hf).2⟩⟩
      have := ((h.1 v hv).2 f hf).1.1
      simpa using this
    | units names =>
      simp only [tyWFB, decide_eq_true_eq] at h
      exact .units h
    | untagged ts =>
      simp only [tyWFB, Bool.and_eq_true, List.all_eq_true] at h
      exact .untagged (fun t ht => ih t (h.1 t ht)) (pairwiseSafeB_sound ts h.2)
    | ref a => exact .ref a

theorem envWFB_sound (defs fuel) (h : envWFB defs fuel = true) : EnvWF (envOf defs) := by
  intro name t hn
  simp only [envOf, Option.map_eq_some_iff] at hn
  obtain ⟨d, hd, rfl⟩ := hn
  have hmem := List.mem_of_find?_eq_some hd
  simp only [envWFB, List.all_eq_true] at h
  exact tyWFB_sound _ _ (h d hmem)

/-- End-to-end: for a schema that passes the Boolean check, every document that serialises
    is accepted by the parser and re-serialises to the same JSON. -/
theorem roundtrip (defs : List (String × Ty)) (fuel : Nat) (h : envWFB defs fuel = true)
    (root : String) (n : Nat) (v : Val) (j : Json)
    (he : encode (envOf defs) n (.ref root) v = some j) :
    ∃ w, decode (envOf defs) n (.ref root) j = some w ∧ encode (envOf defs) n (.ref root) w = some j :=
  rt (envWFB_sound defs fuel h) n (.ref root) (.ref root) v j he

end C11
