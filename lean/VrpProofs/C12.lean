import VrpModel.C12
import VrpModel.Generated.C12Chain
/-!
# C12 — theorems about the model of the solution checker

* T4 obligations: the chain of rule groups and the sub-check lists of the model equal what the translator extracted
  from `vrp-pragmatic/src/checker/*.rs`.
* `check_eq_nil`: the checker accepts iff no index underflow happens and every sub-check of every group accepts.
* completeness (specification ⟹ sub-check accepts): `loads_complete` (the interval fold of
  `check_vehicle_load_assignment` against the positional load formula, any number of reload intervals and dimensions, and
  `resources_complete` for `check_resource_consumption` via `consumed_eq_drawn`: the hash map of consumptions the code
  folds over all tours equals, per resource and dimension, the static deliveries of the reload intervals drawing on it),
  `limits_complete`, `routing_complete`, `vehicles_complete`, `presence_complete` (the partition theorem, by counting),
  combined in `checker_complete_partial` (relations / breaks / matcher / groups acceptance are hypotheses there).
* breach lemmas, two halves each (`breach_*_invalid`: the specification is violated; `checker_rejects_*`: the model checker
  rejects): load above capacity, shared resource overdrawn in one dimension / not defined, limit distance / duration / tour size, unknown vehicle, vehicle used twice, leg mismatch
  (arrival, departure and distance shifts), overall statistic, assigned and unassigned, unknown job (tour / unassigned
  list), duplicated unassigned entry, wrong number of activities of a job (duplicated / partly dropped), job split over
  tours, broken any (incl. S17) / sequence / strict relation, missing break. Not proved: misreported load, misplaced break
  (compared on every generated mutant instead).
* concrete `decide`d examples: a valid supported pair accepted by the model, breaches of it per class, and the open
  deviation D11 (physically correct loads rejected).
-/
set_option linter.unusedSimpArgs false
set_option linter.unusedVariables false
set_option linter.unnecessarySimpa false

namespace C12

/-! ## T4: the modelled chain is the chain of the source -/

/-- the translator found every anchor -/
theorem chain_extraction_ok : Generated.extraction_failed = false := by decide

/-- `CheckerContext::check` chains exactly the modelled groups, in the modelled order -/
theorem chain_matches_source : Generated.chain = chain.map Group.fnName := by decide

/-- every group combines exactly the modelled sub-checks (a silently dropped sub-check breaks this) -/
theorem subchecks_match_source : Generated.subChecks = chain.map (fun g => (g.fnName, subChecks g)) := by decide

/-- the model evaluates one result per sub-check of the source -/
theorem model_runs_every_subcheck (P : Problem) (S : Solution) (g : Group) :
    (runGroup P S g).length = (subChecks g).length := by
  cases g <;> rfl

end C12

namespace C12

/-! ## generic facts about the chain -/

theorem firstErrOf_eq_none {α} (f : α → Option Code) (l : List α) :
    firstErrOf f l = none ↔ ∀ x ∈ l, f x = none := by
  induction l with
  | nil => simp [firstErrOf]
  | cons x rest ih =>
    simp only [firstErrOf, List.mem_cons, forall_eq_or_imp]
    cases h : f x with
    | none => simp [ih]
    | some c => simp

theorem firstErrOf_ne_none {α} (f : α → Option Code) (l : List α) (x : α) (hx : x ∈ l) (h : f x ≠ none) :
    firstErrOf f l ≠ none := by
  intro hn
  exact h ((firstErrOf_eq_none f l).1 hn x hx)

theorem filterMap_id_eq_nil (l : List (Option Code)) : l.filterMap id = [] ↔ ∀ r ∈ l, r = none := by
  induction l with
  | nil => simp
  | cons x rest ih =>
    cases x with
    | none => simp [List.filterMap_cons, ih]
    | some c => simp [List.filterMap_cons]

/-- a group accepts iff each of its sub-checks accepts -/
theorem groupErrors_eq_nil (P : Problem) (S : Solution) (g : Group) :
    groupErrors P S g = [] ↔ ∀ r ∈ runGroup P S g, r = none := by
  unfold groupErrors
  exact filterMap_id_eq_nil _

def noPanic (S : Solution) : Prop := ∀ t ∈ S.tours, (intervals t.stops).isSome = true

/-- the checker accepts iff no index underflow happens and every group accepts -/
theorem check_eq_nil (P : Problem) (S : Solution) :
    check P S = [] ↔ (S.tours.any (fun t => (intervals t.stops).isNone) = false) ∧ ∀ g, groupErrors P S g = [] := by
  unfold check
  constructor
  · intro h
    split at h
    · simp at h
    · rename_i hp
      refine ⟨by simpa using hp, ?_⟩
      intro g
      have : ∀ g ∈ chain, groupErrors P S g = [] := by
        simpa [List.flatMap_eq_nil_iff] using h
      exact this g (by cases g <;> simp [chain])
  · rintro ⟨hp, hg⟩
    rw [if_neg (by simp [hp])]
    simp [List.flatMap_eq_nil_iff, hg]

/-- rejection by any sub-check of any group makes the whole check reject -/
theorem check_ne_nil_of_group (P : Problem) (S : Solution) (g : Group) (h : groupErrors P S g ≠ []) :
    check P S ≠ [] := by
  intro hc
  exact h (((check_eq_nil P S).1 hc).2 g)

end C12

namespace C12
open Spec

/-! ## limits (`check_limits`): completeness and the three limit breaches -/

theorem countP_le_length {α} (p : α → Bool) (l : List α) : countP p l ≤ l.length := by
  induction l with
  | nil => simp [countP]
  | cons x rest ih => simp only [countP, List.length_cons]; split <;> omega

/-- an activity list splits into departures, arrivals and the rest -/
theorem length_eq_counts (l : List Act) :
    l.length = countP (fun a => !isTerminalTy a.ty) l + countP (fun a => a.ty == .departure) l
               + countP (fun a => a.ty == .arrival) l := by
  induction l with
  | nil => simp [countP]
  | cons a rest ih =>
    simp only [countP, List.length_cons]
    have h : (if (!isTerminalTy a.ty) = true then 1 else 0) + (if (a.ty == ATy.departure) = true then 1 else 0)
        + (if (a.ty == ATy.arrival) = true then 1 else 0) = 1 := by
      cases a.ty <;> decide
    omega

theorem getElem?_mem_list {α} (l : List α) (i : Nat) (x : α) (h : l[i]? = some x) : x ∈ l := by
  exact List.mem_of_getElem? h

/-- what `limitsTourOk` says, unpacked -/
theorem limitsTourOk_unpack (P : Problem) (t : Tour) (h : limitsTourOk P t = true) :
    ∃ v sh f l, findVehicle P t.vehicleId = some v ∧ shiftOf P t = some sh ∧ firstStop t = some f ∧ lastStop t = some l ∧
      (∀ m, v.maxDistance = some m → t.stat.distance ≤ m) ∧ (∀ m, v.maxDuration = some m → t.stat.duration ≤ m) ∧
      (∀ m, v.tourSize = some m → countP (fun a => !isTerminalTy a.ty) (tourActs t) ≤ m) ∧
      sh.startEarliest ≤ f.departure ∧ (∀ e, sh.end_ = some e → l.arrival ≤ e.latest) := by
  unfold limitsTourOk at h
  cases hv : findVehicle P t.vehicleId with
  | none => simp [hv] at h
  | some v =>
    cases hs : shiftOf P t with
    | none => simp [hv, hs] at h
    | some sh =>
      cases hf : firstStop t with
      | none => simp [hv, hs, hf] at h
      | some f =>
        cases hl : lastStop t with
        | none => simp [hv, hs, hf, hl] at h
        | some l =>
          simp only [hv, hs, hf, hl, Bool.and_eq_true, decide_eq_true_eq] at h
          obtain ⟨⟨⟨⟨h1, h2⟩, h3⟩, h4⟩, h5⟩ := h
          refine ⟨v, sh, f, l, rfl, rfl, rfl, rfl, ?_, ?_, ?_, h4, ?_⟩
          · intro m hm; simpa [hm] using h1
          · intro m hm; simpa [hm] using h2
          · intro m hm; simpa [hm] using h3
          · intro e he; simpa [he] using h5

/-- the shift a tour names by index belongs to its vehicle -/
theorem shiftOf_mem (P : Problem) (t : Tour) (v : VType) (sh : Shift)
    (hv : findVehicle P t.vehicleId = some v) (hs : shiftOf P t = some sh) : sh ∈ v.shifts := by
  unfold shiftOf at hs
  simp only [hv, Option.bind_some] at hs
  exact List.mem_of_getElem? hs

theorem shiftAgrees_unpack (P : Problem) (t : Tour) (sh : Shift) (hs : shiftOf P t = some sh)
    (h : shiftAgrees P t = true) : vehicleShift P t = .ok sh := by
  unfold shiftAgrees at h
  rw [hs] at h
  cases hv : vehicleShift P t with
  | error c => simp [hv] at h
  | ok b => simp [hv] at h; rw [h]

/-- **Completeness of the limits group**: on supported tours the documented limit rules imply that all three
sub-checks of `check_limits` accept. The tour-size rule of the specification counts non-terminal activities; the
code subtracts 2 (closed shift) or 1 (open shift) from the number of all activities. -/
theorem limits_complete (P : Problem) (S : Solution)
    (hshape : ∀ t ∈ S.tours, tourShapeOk P t = true ∧ shiftAgrees P t = true)
    (hv : limitsOk P S = true) : ∀ r ∈ checkLimits P S, r = none := by
  have hall : ∀ t ∈ S.tours, limitsTourOk P t = true := by
    simpa [limitsOk, List.all_eq_true] using hv
  intro r hr
  simp only [checkLimits, List.mem_cons, List.mem_nil_iff, or_false] at hr
  rcases hr with rfl | rfl | rfl
  · -- check_shift_limits
    rw [firstErrOf_eq_none]
    intro t ht
    obtain ⟨v, sh, f, l, hfv, hsh, hf, hl, hd, hdu, hts, _, _⟩ := limitsTourOk_unpack P t (hall t ht)
    obtain ⟨hshape1, hagree⟩ := hshape t ht
    have hvs := shiftAgrees_unpack P t sh hsh hagree
    unfold checkShiftLimitsTour
    simp only [hfv]
    have h1 : overLimit v.maxDistance t.stat.distance = false := by
      unfold overLimit
      cases hm : v.maxDistance with
      | none => rfl
      | some m => have := hd m hm; simp; omega
    have h2 : overLimit v.maxDuration t.stat.duration = false := by
      unfold overLimit
      cases hm : v.maxDuration with
      | none => rfl
      | some m => have := hdu m hm; simp; omega
    rw [h1, h2]
    simp only [Bool.false_eq_true, if_false]
    · cases hm : v.tourSize with
    | none => rfl
    | some lim =>
      simp only [hvs]
      have hcount := hts lim hm
      have hlen := length_eq_counts (tourActs t)
      -- shape: one departure, arrivals according to the shift end
      unfold tourShapeOk at hshape1
      cases hstops : t.stops with
      | nil => simp [hstops] at hshape1
      | cons s0 rest =>
        simp only [hstops, hsh, Bool.and_eq_true] at hshape1
        obtain ⟨⟨⟨_, hdep⟩, _⟩, harr⟩ := hshape1
        have hdep' : countP (fun a => a.ty == ATy.departure) (tourActs t) = 1 := by
          simpa using hdep
        cases he : sh.end_ with
        | none =>
          simp only [he] at harr
          have harr' : countP (fun a => a.ty == ATy.arrival) (tourActs t) = 0 := by
            simpa using harr
          simp only [Option.isSome_none, Bool.false_eq_true, if_false]
          rw [if_neg]; omega
        | some e =>
          simp only [he, Bool.and_eq_true] at harr
          have harr' : countP (fun a => a.ty == ATy.arrival) (tourActs t) = 1 := by
            simpa using harr.1
          simp only [Option.isSome_some, if_true]
          rw [if_neg]; omega
  · -- check_shift_time
    rw [firstErrOf_eq_none]
    intro t ht
    obtain ⟨v, sh, f, l, hfv, hsh, hf, hl, _, _, _, hstart, hend⟩ := limitsTourOk_unpack P t (hall t ht)
    unfold checkShiftTimeTour
    simp only [hfv, hf, hl]
    have hmem := shiftOf_mem P t v sh hfv hsh
    rw [if_pos]
    rw [List.any_eq_true]
    refine ⟨sh, hmem, ?_⟩
    simp only [Bool.and_eq_true, decide_eq_true_eq, ge_iff_le]
    refine ⟨hstart, ?_⟩
    cases he : sh.end_ with
    | none => rfl
    | some e => simpa using hend e he
  · -- check_recharge_limits (only the shift lookup can fail)
    rw [firstErrOf_eq_none]
    intro t ht
    obtain ⟨v, sh, f, l, hfv, hsh, _⟩ := limitsTourOk_unpack P t (hall t ht)
    have hvs := shiftAgrees_unpack P t sh hsh (hshape t ht).2
    unfold checkRechargeTour
    split
    · simp [hvs]
    · rfl

end C12

namespace C12
open Spec

/-! ## the specification is the conjunction of its parts -/

theorem valid_iff (P : Problem) (S : Solution) :
    validSolution P S = true ↔
      vehiclesOk P S = true ∧ partitionOk P S = true ∧ groupsOk P S = true ∧ loadsOk P S = true ∧ routingOk P S = true ∧
      limitsOk P S = true ∧ relationsOk P S = true ∧ breaksOk P S = true ∧ matchOk P S = true ∧
      resourcesOk P S = true := by
  simp [validSolution, parts, and_assoc]

theorem groupErrors_ne_nil (P : Problem) (S : Solution) (g : Group) (r : Option Code)
    (hr : r ∈ runGroup P S g) (h : r ≠ none) : groupErrors P S g ≠ [] := by
  intro hn
  exact h ((groupErrors_eq_nil P S g).1 hn r hr)

/-! ## limit breaches (tightened `maxDistance` / `maxDuration` / `tourSize`) -/

/-- breach half 1: a tour longer than the vehicle's distance limit violates the specification -/
theorem breach_limit_distance_invalid (P : Problem) (S : Solution) (t : Tour) (v : VType) (m : Int)
    (ht : t ∈ S.tours) (hv : findVehicle P t.vehicleId = some v) (hm : v.maxDistance = some m)
    (h : t.stat.distance > m) : validSolution P S = false := by
  cases hval : validSolution P S with
  | false => rfl
  | true =>
    exfalso
    have hl := ((valid_iff P S).1 hval).2.2.2.2.2.1
    have hall : ∀ t ∈ S.tours, limitsTourOk P t = true := by simpa [limitsOk, List.all_eq_true] using hl
    obtain ⟨v', sh, f, l, hfv, _, _, _, hd, _⟩ := limitsTourOk_unpack P t (hall t ht)
    rw [hv] at hfv; cases hfv
    have := hd m hm; omega

/-- breach half 2: the checker rejects it -/
theorem checker_rejects_limit_distance (P : Problem) (S : Solution) (t : Tour) (v : VType) (m : Int)
    (ht : t ∈ S.tours) (hv : findVehicle P t.vehicleId = some v) (hm : v.maxDistance = some m)
    (h : t.stat.distance > m) : check P S ≠ [] := by
  apply check_ne_nil_of_group P S .limits
  apply groupErrors_ne_nil P S .limits (firstErrOf (checkShiftLimitsTour P) S.tours) (by simp [runGroup, checkLimits])
  apply firstErrOf_ne_none _ _ t ht
  simp [checkShiftLimitsTour, hv, overLimit, hm, h]

theorem breach_limit_duration_invalid (P : Problem) (S : Solution) (t : Tour) (v : VType) (m : Int)
    (ht : t ∈ S.tours) (hv : findVehicle P t.vehicleId = some v) (hm : v.maxDuration = some m)
    (h : t.stat.duration > m) : validSolution P S = false := by
  cases hval : validSolution P S with
  | false => rfl
  | true =>
    exfalso
    have hl := ((valid_iff P S).1 hval).2.2.2.2.2.1
    have hall : ∀ t ∈ S.tours, limitsTourOk P t = true := by simpa [limitsOk, List.all_eq_true] using hl
    obtain ⟨v', sh, f, l, hfv, _, _, _, _, hd, _⟩ := limitsTourOk_unpack P t (hall t ht)
    rw [hv] at hfv; cases hfv
    have := hd m hm; omega

theorem checker_rejects_limit_duration (P : Problem) (S : Solution) (t : Tour) (v : VType) (m : Int)
    (ht : t ∈ S.tours) (hv : findVehicle P t.vehicleId = some v) (hm : v.maxDuration = some m)
    (h : t.stat.duration > m) : check P S ≠ [] := by
  apply check_ne_nil_of_group P S .limits
  apply groupErrors_ne_nil P S .limits (firstErrOf (checkShiftLimitsTour P) S.tours) (by simp [runGroup, checkLimits])
  apply firstErrOf_ne_none _ _ t ht
  unfold checkShiftLimitsTour
  simp only [hv]
  split
  · simp
  · have : overLimit v.maxDuration t.stat.duration = true := by simp [overLimit, hm, h]
    simp [this]

theorem breach_limit_tour_size_invalid (P : Problem) (S : Solution) (t : Tour) (v : VType) (m : Nat)
    (ht : t ∈ S.tours) (hv : findVehicle P t.vehicleId = some v) (hm : v.tourSize = some m)
    (h : countP (fun a => !isTerminalTy a.ty) (tourActs t) > m) : validSolution P S = false := by
  cases hval : validSolution P S with
  | false => rfl
  | true =>
    exfalso
    have hl := ((valid_iff P S).1 hval).2.2.2.2.2.1
    have hall : ∀ t ∈ S.tours, limitsTourOk P t = true := by simpa [limitsOk, List.all_eq_true] using hl
    obtain ⟨v', sh, f, l, hfv, _, _, _, _, _, hd, _⟩ := limitsTourOk_unpack P t (hall t ht)
    rw [hv] at hfv; cases hfv
    have := hd m hm; omega

/-- the code's `activities - (2 | 1)` is the number of non-terminal activities on a well-shaped tour -/
theorem tour_size_as_coded (P : Problem) (t : Tour) (sh : Shift) (hsh : shiftOf P t = some sh)
    (hshape : tourShapeOk P t = true) :
    (tourActs t).length - (if sh.end_.isSome then 2 else 1) = countP (fun a => !isTerminalTy a.ty) (tourActs t) := by
  have hlen := length_eq_counts (tourActs t)
  unfold tourShapeOk at hshape
  cases hstops : t.stops with
  | nil => simp [hstops] at hshape
  | cons s0 rest =>
    simp only [hstops, hsh, Bool.and_eq_true] at hshape
    obtain ⟨⟨⟨_, hdep⟩, _⟩, harr⟩ := hshape
    have hdep' : countP (fun a => a.ty == ATy.departure) (tourActs t) = 1 := by simpa using hdep
    cases he : sh.end_ with
    | none =>
      simp only [he] at harr
      have harr' : countP (fun a => a.ty == ATy.arrival) (tourActs t) = 0 := by simpa using harr
      simp; omega
    | some e =>
      simp only [he, Bool.and_eq_true] at harr
      have harr' : countP (fun a => a.ty == ATy.arrival) (tourActs t) = 1 := by simpa using harr.1
      simp; omega

theorem checker_rejects_limit_tour_size (P : Problem) (S : Solution) (t : Tour) (v : VType) (m : Nat)
    (ht : t ∈ S.tours) (hv : findVehicle P t.vehicleId = some v) (hm : v.tourSize = some m)
    (hshape : tourShapeOk P t = true) (hagree : shiftAgrees P t = true)
    (h : countP (fun a => !isTerminalTy a.ty) (tourActs t) > m) : check P S ≠ [] := by
  apply check_ne_nil_of_group P S .limits
  apply groupErrors_ne_nil P S .limits (firstErrOf (checkShiftLimitsTour P) S.tours) (by simp [runGroup, checkLimits])
  apply firstErrOf_ne_none _ _ t ht
  unfold checkShiftLimitsTour
  simp only [hv]
  split
  · simp
  · split
    · simp
    · simp only [hm]
      cases hs : shiftOf P t with
      | none => unfold shiftAgrees at hagree; simp [hs] at hagree
      | some sh =>
        have hvs := shiftAgrees_unpack P t sh hs hagree
        simp only [hvs]
        have := tour_size_as_coded P t sh hs hshape
        rw [this, if_pos h]
        simp

/-! ## vehicles (`check_vehicles`) -/

theorem checkVehiclesGo_none (P : Problem) (seen : List (String × Nat)) (tours : List Tour)
    (hk : ∀ t ∈ tours, (findVehicle P t.vehicleId).isSome = true)
    (hd : hasDup (tours.map tourKey) = false) (hs : ∀ t ∈ tours, tourKey t ∉ seen) :
    checkVehiclesGo P seen tours = none := by
  induction tours generalizing seen with
  | nil => rfl
  | cons t rest ih =>
    simp only [checkVehiclesGo]
    have hfound : P.vehicles.any (fun v => v.ids.contains t.vehicleId) = true := by
      have := hk t (by simp)
      unfold findVehicle at this
      rw [List.find?_isSome] at this
      obtain ⟨v, hv, hc⟩ := this
      exact List.any_eq_true.2 ⟨v, hv, hc⟩
    simp only [hfound, Bool.not_true, Bool.false_eq_true, if_false]
    have hnot : seen.contains (t.vehicleId, t.shiftIndex) = false := by
      have := hs t (by simp)
      simpa [tourKey] using this
    simp only [hnot, Bool.false_eq_true, if_false]
    simp only [List.map_cons, hasDup, Bool.or_eq_false_iff] at hd
    apply ih
    · intro t' ht'; exact hk t' (by simp [ht'])
    · exact hd.2
    · intro t' ht' hmem
      simp only [List.mem_cons] at hmem
      rcases hmem with heq | hmem
      · have : (rest.map tourKey).contains (tourKey t) = true := by
          rw [List.contains_iff_mem]
          rw [show (t.vehicleId, t.shiftIndex) = tourKey t from rfl] at heq
          rw [← heq]; exact List.mem_map_of_mem ht'
        rw [this] at hd; simp at hd
      · exact hs t' (by simp [ht']) hmem

/-- completeness of `check_vehicles` -/
theorem vehicles_complete (P : Problem) (S : Solution) (h : vehiclesOk P S = true) :
    checkVehiclesGo P [] S.tours = none := by
  simp only [vehiclesOk, Bool.and_eq_true, List.all_eq_true, Bool.not_eq_true'] at h
  exact checkVehiclesGo_none P [] S.tours h.1 h.2 (by simp)

/-- breach half 1: a tour run by a vehicle the fleet does not have violates the specification -/
theorem breach_unknown_vehicle_invalid (P : Problem) (S : Solution) (t : Tour) (ht : t ∈ S.tours)
    (h : findVehicle P t.vehicleId = none) : validSolution P S = false := by
  cases hval : validSolution P S with
  | false => rfl
  | true =>
    exfalso
    have hl := ((valid_iff P S).1 hval).1
    simp only [vehiclesOk, Bool.and_eq_true, List.all_eq_true] at hl
    have := hl.1 t ht
    simp [h] at this

theorem checkVehiclesGo_unknown (P : Problem) (seen : List (String × Nat)) (tours : List Tour) (t : Tour)
    (ht : t ∈ tours) (h : findVehicle P t.vehicleId = none) : checkVehiclesGo P seen tours ≠ none := by
  induction tours generalizing seen with
  | nil => simp at ht
  | cons x rest ih =>
    simp only [checkVehiclesGo]
    split
    · simp
    · split
      · simp
      · simp only [List.mem_cons] at ht
        rcases ht with rfl | ht
        · rename_i hknown _
          exfalso
          simp only [Bool.not_eq_true', Bool.not_eq_false] at hknown
          unfold findVehicle at h
          rw [List.find?_eq_none] at h
          obtain ⟨v, hv, hc⟩ := List.any_eq_true.1 hknown
          exact h v hv hc
        · exact ih _ ht

/-- breach half 2 -/
theorem checker_rejects_unknown_vehicle (P : Problem) (S : Solution) (t : Tour) (ht : t ∈ S.tours)
    (h : findVehicle P t.vehicleId = none) : check P S ≠ [] := by
  apply check_ne_nil_of_group P S .assignment
  apply groupErrors_ne_nil P S .assignment (checkVehiclesGo P [] S.tours) (by simp [runGroup, checkAssignment])
  exact checkVehiclesGo_unknown P [] S.tours t ht h

theorem checkVehiclesGo_seen (P : Problem) (seen : List (String × Nat)) (tours : List Tour) (t : Tour)
    (ht : t ∈ tours) (h : tourKey t ∈ seen) : checkVehiclesGo P seen tours ≠ none := by
  induction tours generalizing seen with
  | nil => simp at ht
  | cons x rest ih =>
    simp only [checkVehiclesGo]
    split
    · simp
    · split
      · simp
      · simp only [List.mem_cons] at ht
        rcases ht with rfl | ht
        · rename_i _ hns
          exfalso
          apply hns
          rw [List.contains_iff_mem]
          exact h
        · exact ih _ ht (by simp [h])

theorem checkVehiclesGo_dup (P : Problem) (seen : List (String × Nat)) (tours : List Tour)
    (h : hasDup (tours.map tourKey) = true) : checkVehiclesGo P seen tours ≠ none := by
  induction tours generalizing seen with
  | nil => simp [hasDup] at h
  | cons x rest ih =>
    simp only [checkVehiclesGo]
    split
    · simp
    · split
      · simp
      · simp only [List.map_cons, hasDup, Bool.or_eq_true] at h
        rcases h with h | h
        · rw [List.contains_iff_mem, List.mem_map] at h
          obtain ⟨t', ht', hk⟩ := h
          apply checkVehiclesGo_seen P _ rest t' ht'
          rw [hk]; simp [tourKey]
        · exact ih _ h

/-- breach (vehicle used twice for one shift), both halves -/
theorem breach_vehicle_twice_invalid (P : Problem) (S : Solution) (h : hasDup (S.tours.map tourKey) = true) :
    validSolution P S = false := by
  cases hval : validSolution P S with
  | false => rfl
  | true =>
    exfalso
    have hl := ((valid_iff P S).1 hval).1
    simp only [vehiclesOk, Bool.and_eq_true, Bool.not_eq_true'] at hl
    rw [hl.2] at h; simp at h

theorem checker_rejects_vehicle_twice (P : Problem) (S : Solution) (h : hasDup (S.tours.map tourKey) = true) :
    check P S ≠ [] := by
  apply check_ne_nil_of_group P S .assignment
  apply groupErrors_ne_nil P S .assignment (checkVehiclesGo P [] S.tours) (by simp [runGroup, checkAssignment])
  exact checkVehiclesGo_dup P [] S.tours h

end C12

namespace C12
open Spec

/-! ## routing and statistics (`check_routing`) -/

theorem absI_le_iff (x : Int) : absI x ≤ 1 ↔ -1 ≤ x ∧ x ≤ 1 := by
  unfold absI; split <;> omega

theorem absI_gt_iff (x : Int) : absI x > 1 ↔ x < -1 ∨ x > 1 := by
  unfold absI; split <;> omega

/-- the leg fold succeeds on a stop list whose consecutive pairs satisfy the positional rule, and returns the
departure and the reported distance of the last stop -/
theorem routeGo_ok (P : Problem) (v : VType) (skip : Bool) (from_ : Stop) (rest : List Stop) (dist : Int)
    (h : legsOk P v skip (from_ :: rest) = true) (hd : skip = false → dist = from_.distance) :
    ∃ d, routeGo P v skip from_.departure dist from_ rest
           = .ok (((from_ :: rest).getLast (by simp)).departure, d)
         ∧ (skip = false → d = ((from_ :: rest).getLast (by simp)).distance) := by
  induction rest generalizing from_ dist with
  | nil => exact ⟨dist, by simp [routeGo], by simpa using hd⟩
  | cons to rest ih =>
    simp only [legsOk, Bool.and_eq_true] at h
    obtain ⟨hleg, hrest⟩ := h
    cases hm : matrixData P v from_.loc to.loc with
    | none => simp [hm] at hleg
    | some dd =>
      obtain ⟨d, dur⟩ := dd
      simp only [hm, Bool.and_eq_true, decide_eq_true_eq, Bool.or_eq_true] at hleg
      obtain ⟨harr, hdist⟩ := hleg
      obtain ⟨d', hgo, hd'⟩ := ih to to.distance hrest (fun _ => rfl)
      refine ⟨d', ?_, ?_⟩
      · simp only [routeGo, hm]
        have h1 : ¬ (absI (from_.departure + dur - to.arrival) > 1) := by omega
        rw [if_neg (by simpa using h1)]
        have h2 : (!skip && decide (absI (dist + d - to.distance) > 1)) = false := by
          cases hs : skip with
          | true => simp
          | false =>
            have := hd hs
            rcases hdist with hsk | hle
            · simp [hs] at hsk
            · simp; rw [this]; omega
        rw [h2]
        simpa using hgo
      · simpa using hd'

/-- what `routingTourOk` says, unpacked -/
theorem routingTourOk_unpack (P : Problem) (skip : Bool) (t : Tour) (h : routingTourOk P skip t = true) :
    ∃ v f l, findVehicle P t.vehicleId = some v ∧ firstStop t = some f ∧ lastStop t = some l ∧
      (P.profiles[v.profile]?).isSome = true ∧ (∃ a, f.acts.head? = some a) ∧ (skip = false → f.distance = 0) ∧
      legsOk P v skip t.stops = true ∧ (skip = false → absI (l.distance - t.stat.distance) ≤ 1) ∧
      absI (l.departure - tourStart t - t.stat.duration) ≤ 1 := by
  unfold routingTourOk at h
  cases hv : findVehicle P t.vehicleId with
  | none => simp [hv] at h
  | some v =>
    cases hf : firstStop t with
    | none => simp [hv, hf] at h
    | some f =>
      cases hl : lastStop t with
      | none => simp [hv, hf, hl] at h
      | some l =>
        simp only [hv, hf, hl, Bool.and_eq_true, Bool.or_eq_true, decide_eq_true_eq, beq_iff_eq] at h
        obtain ⟨⟨⟨⟨⟨hp, ha⟩, h0⟩, hlegs⟩, hdist⟩, hdur⟩ := h
        refine ⟨v, f, l, rfl, rfl, rfl, hp, ?_, ?_, hlegs, ?_, hdur⟩
        · cases hh : f.acts.head? with
          | none => simp [hh] at ha
          | some a => exact ⟨a, rfl⟩
        · intro hs; rcases h0 with h0 | h0
          · simp [hs] at h0
          · exact h0
        · intro hs; rcases hdist with h0 | h0
          · simp [hs] at h0
          · exact h0

/-- **Completeness of the routing group**: stops reproducible from the matrices (±1), tour statistic = last
distance / time from start to last departure (±1), totals = sums ⟹ `check_routing` accepts -/
theorem routing_complete (P : Problem) (S : Solution) (h : routingOk P S = true) :
    ∀ r ∈ checkRouting P S, r = none := by
  simp only [routingOk, Bool.and_eq_true, List.all_eq_true, beq_iff_eq] at h
  obtain ⟨⟨htours, hdist⟩, hdur⟩ := h
  intro r hr
  simp only [checkRouting, List.mem_cons, List.mem_nil_iff, or_false] at hr
  subst hr
  have hfirst : firstErrOf (checkRoutingTour P (skipDistance S)) S.tours = none := by
    rw [firstErrOf_eq_none]
    intro t ht
    obtain ⟨v, f, l, hv, hf, hl, hp, ⟨a0, ha0⟩, h0, hlegs, hd, hdu⟩ :=
      routingTourOk_unpack P (skipDistance S) t (htours t ht)
    unfold checkRoutingTour
    simp only [hv]
    have hp' : (P.profiles[v.profile]?).isNone = false := by
      cases hh : P.profiles[v.profile]? with
      | none => simp [hh] at hp
      | some _ => rfl
    rw [hp']
    simp only [Bool.false_eq_true, if_false]
    cases hst : t.stops with
    | nil => simp [firstStop, hst] at hf
    | cons s0 rest =>
      have hs0 : f = s0 := by simp [firstStop, hst] at hf; exact hf.symm
      subst hs0
      simp only [ha0]
      rw [hst] at hlegs
      obtain ⟨d, hgo, hd'⟩ := routeGo_ok P v (skipDistance S) f rest 0 hlegs (fun hs => (h0 hs).symm)
      rw [hgo]
      have hlast : (f :: rest).getLast (by simp) = l := by
        have : lastStop t = some ((f :: rest).getLast (by simp)) := by
          simp [lastStop, hst, List.getLast?_eq_some_getLast]
        rw [hl] at this; exact (Option.some.inj this).symm
      simp only [hlast]
      have h1 : (!skipDistance S && decide (absI (d - t.stat.distance) > 1)) = false := by
        cases hs : skipDistance S with
        | true => simp
        | false =>
          have e := hd' hs
          rw [hlast] at e
          have := hd hs
          simp; rw [e]; omega
      rw [h1]
      simp only [Bool.false_eq_true, if_false]
      rw [if_neg]
      simp; omega
  rw [hfirst]
  simp [hdist, hdur]

/-- a leg that breaks the arrival rule makes the leg fold fail, wherever it is in the tour -/
theorem routeGo_fails_at (P : Problem) (v : VType) (skip : Bool) (pre post : List Stop) (a b : Stop)
    (d dur : Int) (hm : matrixData P v a.loc b.loc = some (d, dur))
    (hbad : absI (a.departure + dur - b.arrival) > 1 ∨ (skip = false ∧ absI (a.distance + d - b.distance) > 1 ∧ pre ≠ []))
    (x0 : Stop) (rest : List Stop) (dep dist : Int)
    (hl : x0 :: rest = pre ++ a :: b :: post) (hdep : pre = [] → dep = a.departure) :
    ∀ r, routeGo P v skip dep dist x0 rest ≠ .ok r := by
  induction pre generalizing x0 rest dep dist with
  | nil =>
    simp only [List.nil_append, List.cons.injEq] at hl
    obtain ⟨rfl, rfl⟩ := hl
    intro r
    simp only [routeGo, hm]
    rcases hbad with hbad | ⟨_, _, hne⟩
    · have := hdep rfl
      subst this
      rw [if_pos (by simpa using hbad)]
      simp
    · exact absurd rfl hne
  | cons p pre' ih =>
    simp only [List.cons_append, List.cons.injEq] at hl
    obtain ⟨rfl, rfl⟩ := hl
    intro r
    cases hpre : pre' with
    | nil =>
      -- the bad leg is the second leg: from = a after one step
      simp only [hpre, List.nil_append, routeGo]
      split
      · simp
      · split
        · simp
        · split
          · simp
          · -- now at a :: b :: post with dep = a.departure, dist = a.distance
            simp only [routeGo, hm]
            rcases hbad with hbad | ⟨hs, hbad, _⟩
            · rw [if_pos (by simpa using hbad)]; simp
            · split
              · simp
              · rw [if_pos (by simp [hs]; simpa using hbad)]; simp
    | cons q pre'' =>
      subst hpre
      simp only [List.cons_append, routeGo]
      split
      · simp
      · split
        · simp
        · split
          · simp
          · apply ih
            · rcases hbad with hbad | ⟨hs, hbad, _⟩
              · exact Or.inl hbad
              · exact Or.inr ⟨hs, hbad, by simp⟩
            · rfl
            · intro hnil; simp at hnil

/-- breach half 2 (arrival shift / departure shift / distance shift): a leg whose reported arrival is more than
one second off the matrix value, or (from the second leg on) whose distance is more than one unit off, is rejected -/
theorem checker_rejects_leg_mismatch (P : Problem) (S : Solution) (t : Tour) (v : VType) (pre post : List Stop)
    (a b : Stop) (d dur : Int) (ht : t ∈ S.tours) (hv : findVehicle P t.vehicleId = some v)
    (hst : t.stops = pre ++ a :: b :: post) (hm : matrixData P v a.loc b.loc = some (d, dur))
    (hbad : absI (a.departure + dur - b.arrival) > 1 ∨
            (skipDistance S = false ∧ absI (a.distance + d - b.distance) > 1 ∧ pre ≠ [])) :
    check P S ≠ [] := by
  apply check_ne_nil_of_group P S .routing
  have hne : firstErrOf (checkRoutingTour P (skipDistance S)) S.tours ≠ none := by
    apply firstErrOf_ne_none _ _ t ht
    unfold checkRoutingTour
    simp only [hv]
    split
    · simp
    · cases hst' : t.stops with
      | nil => simp
      | cons s0 rest =>
        simp only
        cases ha : s0.acts.head? with
        | none => simp
        | some a0 =>
          simp only
          have := routeGo_fails_at P v (skipDistance S) pre post a b d dur hm hbad s0 rest s0.departure 0
            (by rw [← hst', hst]) (by
              intro hp; subst hp
              simp only [List.nil_append] at hst
              rw [hst] at hst'
              simp only [List.cons.injEq] at hst'
              rw [hst'.1])
          cases hgo : routeGo P v (skipDistance S) s0.departure 0 s0 rest with
          | error c => simp
          | ok r => exact absurd hgo (this r)
  apply groupErrors_ne_nil P S .routing _ (by simp [runGroup, checkRouting]; rfl)
  cases hf : firstErrOf (checkRoutingTour P (skipDistance S)) S.tours with
  | none => exact absurd hf hne
  | some c => simp

/-- breach half 1 for the same shapes -/
theorem legsOk_false_at (P : Problem) (v : VType) (skip : Bool) (pre post : List Stop) (a b : Stop)
    (d dur : Int) (hm : matrixData P v a.loc b.loc = some (d, dur))
    (hbad : absI (a.departure + dur - b.arrival) > 1 ∨ (skip = false ∧ absI (a.distance + d - b.distance) > 1)) :
    legsOk P v skip (pre ++ a :: b :: post) = false := by
  induction pre with
  | nil =>
    simp only [List.nil_append, legsOk, hm]
    rcases hbad with hbad | ⟨hs, hbad⟩
    · have : decide (absI (a.departure + dur - b.arrival) ≤ 1) = false := by simp; omega
      simp [this]
    · have : decide (absI (a.distance + d - b.distance) ≤ 1) = false := by simp; omega
      simp [this, hs]
  | cons p pre' ih =>
    cases hpre : pre' with
    | nil => subst hpre; simp only [List.cons_append, List.nil_append, legsOk] at ih ⊢; simp [ih]
    | cons q pre'' => subst hpre; simp only [List.cons_append, legsOk] at ih ⊢; simp [ih]

theorem breach_leg_mismatch_invalid (P : Problem) (S : Solution) (t : Tour) (v : VType) (pre post : List Stop)
    (a b : Stop) (d dur : Int) (ht : t ∈ S.tours) (hv : findVehicle P t.vehicleId = some v)
    (hst : t.stops = pre ++ a :: b :: post) (hm : matrixData P v a.loc b.loc = some (d, dur))
    (hbad : absI (a.departure + dur - b.arrival) > 1 ∨
            (skipDistance S = false ∧ absI (a.distance + d - b.distance) > 1)) :
    validSolution P S = false := by
  cases hval : validSolution P S with
  | false => rfl
  | true =>
    exfalso
    have hl := ((valid_iff P S).1 hval).2.2.2.2.1
    simp only [routingOk, Bool.and_eq_true, List.all_eq_true] at hl
    obtain ⟨v', f, l, hv', _, _, _, _, _, hlegs, _⟩ := routingTourOk_unpack P (skipDistance S) t (hl.1.1 t ht)
    rw [hv] at hv'; cases hv'
    rw [hst, legsOk_false_at P v (skipDistance S) pre post a b d dur hm hbad] at hlegs
    simp at hlegs

/-- breach (overall statistic), both halves -/
theorem breach_statistic_total_invalid (P : Problem) (S : Solution)
    (h : sumInt (S.tours.map (fun t => t.stat.distance)) ≠ S.stat.distance ∨
         sumInt (S.tours.map (fun t => t.stat.duration)) ≠ S.stat.duration) : validSolution P S = false := by
  cases hval : validSolution P S with
  | false => rfl
  | true =>
    exfalso
    have hl := ((valid_iff P S).1 hval).2.2.2.2.1
    simp only [routingOk, Bool.and_eq_true, beq_iff_eq] at hl
    rcases h with h | h
    · exact h hl.1.2
    · exact h hl.2

theorem checker_rejects_statistic_total (P : Problem) (S : Solution)
    (h : sumInt (S.tours.map (fun t => t.stat.distance)) ≠ S.stat.distance ∨
         sumInt (S.tours.map (fun t => t.stat.duration)) ≠ S.stat.duration) : check P S ≠ [] := by
  apply check_ne_nil_of_group P S .routing
  apply groupErrors_ne_nil P S .routing _ (by simp [runGroup, checkRouting]; rfl)
  cases hf : firstErrOf (checkRoutingTour P (skipDistance S)) S.tours with
  | some c => simp
  | none =>
    simp only
    rw [if_pos]
    · simp
    · rcases h with h | h
      · simp [h]
      · simp [h]

end C12

namespace C12
open Spec

/-! ## loads: algebra of the zero padded vectors -/

def lget (l : Load) (d : Nat) : Int := l.getD d 0

theorem lget_nil (d : Nat) : lget [] d = 0 := by simp [lget]

theorem lget_cons_zero (x : Int) (l : Load) : lget (x :: l) 0 = x := by simp [lget]

theorem lget_cons_succ (x : Int) (l : Load) (d : Nat) : lget (x :: l) (d + 1) = lget l d := by simp [lget]

theorem lget_ladd (a b : Load) (d : Nat) : lget (ladd a b) d = lget a d + lget b d := by
  induction a generalizing b d with
  | nil => simp [ladd, lget_nil]
  | cons x a ih =>
    cases b with
    | nil => simp [ladd, lget_nil]
    | cons y b =>
      cases d with
      | zero => simp [ladd, lget_cons_zero]
      | succ d => simp [ladd, lget_cons_succ, ih]

theorem lget_lneg (a : Load) (d : Nat) : lget (lneg a) d = - lget a d := by
  induction a generalizing d with
  | nil => simp [lneg, lget_nil]
  | cons x a ih =>
    cases d with
    | zero => simp [lneg, lget_cons_zero]
    | succ d =>
      have := ih d
      simp only [lneg] at this
      simp [lneg, lget_cons_succ, this]

theorem lget_lsub (a b : Load) (d : Nat) : lget (lsub a b) d = lget a d - lget b d := by
  induction a generalizing b d with
  | nil =>
    cases b with
    | nil => simp [lsub, lget_nil]
    | cons y b => simp [lsub, lget_nil, lget_lneg]
  | cons x a ih =>
    cases b with
    | nil => simp [lsub, lget_nil]
    | cons y b =>
      cases d with
      | zero => simp [lsub, lget_cons_zero]
      | succ d => simp [lsub, lget_cons_succ, ih]

theorem all_nonpos_iff (l : Load) : l.all (fun x => decide (x ≤ 0)) = true ↔ ∀ d, lget l d ≤ 0 := by
  induction l with
  | nil => simp [lget_nil]
  | cons x l ih =>
    simp only [List.all_cons, Bool.and_eq_true, decide_eq_true_eq, ih]
    constructor
    · rintro ⟨h0, h⟩ d
      cases d with
      | zero => simpa [lget_cons_zero] using h0
      | succ d => simpa [lget_cons_succ] using h d
    · intro h
      exact ⟨by simpa [lget_cons_zero] using h 0, fun d => by simpa [lget_cons_succ] using h (d + 1)⟩

theorem all_nonneg_iff (l : Load) : l.all (fun x => decide (0 ≤ x)) = true ↔ ∀ d, 0 ≤ lget l d := by
  induction l with
  | nil => simp [lget_nil]
  | cons x l ih =>
    simp only [List.all_cons, Bool.and_eq_true, decide_eq_true_eq, ih]
    constructor
    · rintro ⟨h0, h⟩ d
      cases d with
      | zero => simpa [lget_cons_zero] using h0
      | succ d => simpa [lget_cons_succ] using h d
    · intro h
      exact ⟨by simpa [lget_cons_zero] using h 0, fun d => by simpa [lget_cons_succ] using h (d + 1)⟩

/-- `can_fit` is the dimension-wise order on zero padded vectors -/
theorem lfit_iff (c l : Load) : lfit c l = true ↔ ∀ d, lget l d ≤ lget c d := by
  induction c generalizing l with
  | nil =>
    cases l with
    | nil => simp [lfit, lget_nil]
    | cons x xs =>
      simp only [lfit]
      rw [all_nonpos_iff]
      simp [lget_nil]
  | cons c cs ih =>
    cases l with
    | nil =>
      simp only [lfit]
      rw [all_nonneg_iff]
      simp [lget_nil]
    | cons x xs =>
      simp only [lfit, Bool.and_eq_true, decide_eq_true_eq, ih]
      constructor
      · rintro ⟨h0, h⟩ d
        cases d with
        | zero => simpa [lget_cons_zero] using h0
        | succ d => simpa [lget_cons_succ] using h d
      · intro h
        exact ⟨by simpa [lget_cons_zero] using h 0, fun d => by simpa [lget_cons_succ] using h (d + 1)⟩

theorem all_zero_iff (l : Load) : l.all (fun x => x == 0) = true ↔ ∀ d, lget l d = 0 := by
  induction l with
  | nil => simp [lget_nil]
  | cons x l ih =>
    simp only [List.all_cons, Bool.and_eq_true, beq_iff_eq, ih]
    constructor
    · rintro ⟨h0, h⟩ d
      cases d with
      | zero => simpa [lget_cons_zero] using h0
      | succ d => simpa [lget_cons_succ] using h d
    · intro h
      exact ⟨by simpa [lget_cons_zero] using h 0, fun d => by simpa [lget_cons_succ] using h (d + 1)⟩

/-- zero padded equality is dimension-wise equality -/
theorem leqPad_iff (a b : Load) : leqPad a b = true ↔ ∀ d, lget a d = lget b d := by
  induction a generalizing b with
  | nil =>
    cases b with
    | nil => simp [leqPad]
    | cons y b =>
      simp only [leqPad]
      rw [all_zero_iff]
      simp [lget_nil, eq_comm]
  | cons x a ih =>
    cases b with
    | nil =>
      simp only [leqPad]
      rw [all_zero_iff]
      simp [lget_nil]
    | cons y b =>
      simp only [leqPad, Bool.and_eq_true, beq_iff_eq, ih]
      constructor
      · rintro ⟨h0, h⟩ d
        cases d with
        | zero => simpa [lget_cons_zero] using h0
        | succ d => simpa [lget_cons_succ] using h d
      · intro h
        exact ⟨by simpa [lget_cons_zero] using h 0, fun d => by simpa [lget_cons_succ] using h (d + 1)⟩

/-- the `==` of `MultiDimLoad`: dimension-wise equality, except that two empty loads are unequal -/
theorem leq_iff (a b : Load) : leq a b = true ↔ ¬ (a = [] ∧ b = []) ∧ ∀ d, lget a d = lget b d := by
  unfold leq
  rw [Bool.and_eq_true, leqPad_iff]
  constructor
  · rintro ⟨h1, h2⟩
    refine ⟨?_, h2⟩
    rintro ⟨rfl, rfl⟩
    simp at h1
  · rintro ⟨h1, h2⟩
    refine ⟨?_, h2⟩
    cases a with
    | nil =>
      cases b with
      | nil => exact absurd ⟨rfl, rfl⟩ h1
      | cons y b => simp
    | cons x a => simp

/-! ## load above capacity is rejected -/

/-- the leg fold of an interval fails as soon as one of its stops reports a load the vehicle cannot fit -/
theorem legsGo_fails_overload (P : Problem) (t : Tour) (cap ep : Load) (acc : Load) (from_ : Stop) (rest : List Stop)
    (hne : rest ≠ []) (s : Stop) (hs : s ∈ from_ :: rest) (hover : lfit cap s.load = false) :
    ∀ r, legsGo P t cap ep acc from_ rest ≠ .ok r := by
  induction rest generalizing acc from_ with
  | nil => exact absurd rfl hne
  | cons to rest ih =>
    intro r
    simp only [legsGo]
    by_cases hfit : (!lfit cap from_.load || !lfit cap to.load) = true
    · rw [if_pos hfit]; simp
    · rw [if_neg hfit]
      simp only [Bool.or_eq_true, Bool.not_eq_true', not_or, Bool.not_eq_false] at hfit
      -- s is neither from nor to, so it is further down
      have hs' : s ∈ rest := by
        simp only [List.mem_cons] at hs
        rcases hs with rfl | rfl | hs
        · rw [hfit.1] at hover; simp at hover
        · rw [hfit.2] at hover; simp at hover
        · exact hs
      split
      · simp
      · split
        · have hne' : rest ≠ [] := by intro h; rw [h] at hs'; simp at hs'
          exact ih _ to hne' (by simp [hs']) r
        · simp

theorem intervalsGo_fails_overload (P : Problem) (t : Tour) (cap : Load) (acc : Load) (ivs : List (List Stop))
    (hlen : ∀ iv ∈ ivs, 2 ≤ iv.length) (iv : List Stop) (hiv : iv ∈ ivs) (s : Stop) (hs : s ∈ iv)
    (hover : lfit cap s.load = false) : ∀ r, intervalsGo P t cap acc ivs ≠ .ok r := by
  induction ivs generalizing acc with
  | nil => simp at hiv
  | cons iv0 rest ih =>
    intro r
    simp only [intervalsGo]
    split
    · simp
    · rename_i sd ep hsum
      cases hiv0 : iv0 with
      | nil => have := hlen iv0 (by simp); rw [hiv0] at this; simp at this
      | cons s0 tl =>
        simp only
        split
        · simp
        · rename_i sl hstart
          split
          · simp
          · rename_i endCap hlegs
            simp only [List.mem_cons] at hiv
            rcases hiv with rfl | hiv
            · exfalso
              have htl : tl ≠ [] := by
                intro h; have := hlen iv (by simp); rw [hiv0, h] at this; simp at this
              rw [hiv0] at hs
              exact legsGo_fails_overload P t cap ep sl s0 tl htl s hs hover endCap hlegs
            · exact ih _ (fun iv' h' => hlen iv' (by simp [h'])) hiv r

/-- the intervals produced by the splitting cover all stops -/
theorem splitGo_flatten (cur rest : List Stop) : (splitGo cur rest).flatten = cur.reverse ++ rest := by
  induction rest generalizing cur with
  | nil => simp [splitGo]
  | cons s rest ih =>
    simp only [splitGo]
    split
    · simp [ih]
    · simp [ih]

theorem intervals_cover (stops : List Stop) (ivs : List (List Stop)) (h : intervals stops = some ivs)
    (h2 : 2 ≤ stops.length) : ivs.flatten = stops ∧ ∀ iv ∈ ivs, 2 ≤ iv.length := by
  unfold intervals at h
  cases stops with
  | nil => simp at h2
  | cons s0 rest =>
    cases rest with
    | nil => simp at h2
    | cons s1 rest =>
      simp only at h
      split at h
      · simp at h
      · rename_i hall
        simp only [Option.some.injEq] at h
        subst h
        refine ⟨by simp [splitGo_flatten], ?_⟩
        intro iv hiv
        simp only [List.any_eq_true, decide_eq_true_eq, not_exists, not_and, Nat.not_lt] at hall
        exact hall iv hiv

/-- breach half 2 (load above capacity): a stop of a tour with at least two stops that reports a load the
vehicle cannot fit is rejected -/
theorem checker_rejects_load_above_capacity (P : Problem) (S : Solution) (t : Tour) (v : VType) (s : Stop)
    (ht : t ∈ S.tours) (hv : findVehicle P t.vehicleId = some v) (h2 : 2 ≤ t.stops.length) (hs : s ∈ t.stops)
    (hover : lfit v.capacity s.load = false) : check P S ≠ [] := by
  apply check_ne_nil_of_group P S .load
  apply groupErrors_ne_nil P S .load (firstErrOf (checkLoadTour P) S.tours) (by simp [runGroup, checkLoad])
  apply firstErrOf_ne_none _ _ t ht
  unfold checkLoadTour
  simp only [hv]
  cases hi : intervals t.stops with
  | none => simp
  | some ivs =>
    simp only
    obtain ⟨hflat, hlen⟩ := intervals_cover t.stops ivs hi h2
    have : s ∈ ivs.flatten := by rw [hflat]; exact hs
    obtain ⟨iv, hiv, hsiv⟩ := List.mem_flatten.1 this
    cases hgo : intervalsGo P t v.capacity [] ivs with
    | error c => simp
    | ok r => exact absurd hgo (intervalsGo_fails_overload P t v.capacity [] ivs hlen iv hiv s hsiv hover r)

end C12

namespace C12
open Spec

/-! ## assignment (`check_jobs_presence`): the breach classes -/

theorem mem_dedup {α} [BEq α] [LawfulBEq α] (x : α) (l : List α) : x ∈ dedup l ↔ x ∈ l := by
  induction l with
  | nil => simp [dedup]
  | cons y rest ih =>
    simp only [dedup, List.mem_cons, List.mem_filter, ih]
    constructor
    · rintro (h | ⟨h, _⟩)
      · exact Or.inl h
      · exact Or.inr h
    · rintro (h | h)
      · exact Or.inl h
      · by_cases hxy : x = y
        · exact Or.inl hxy
        · exact Or.inr ⟨h, by simpa using hxy⟩

/-- any true condition of the chain of tests makes `check_jobs_presence` fail -/
theorem checkPresence_ne_none (P : Problem) (S : Solution)
    (h : multiTourGo [] (jobActs S) = true ∨ (usedIds S).any (jobTasksBad P S) = true ∨
         hasDup (unassignedIds S) = true ∨
         (unassignedIds S).any (fun id => (findJob P id).isNone || (usedIds S).contains id) = true) :
    checkPresence P S ≠ none := by
  unfold checkPresence
  split
  · simp
  · split
    · simp
    · simp only
      split
      · simp
      · split
        · simp
        · rename_i h1 h2 h3 h4
          rcases h with h | h | h | h
          · exact absurd h h1
          · exact absurd h h2
          · exact absurd h h3
          · exact absurd h h4

theorem presence_rejects (P : Problem) (S : Solution) (h : checkPresence P S ≠ none) : check P S ≠ [] := by
  apply check_ne_nil_of_group P S .assignment
  exact groupErrors_ne_nil P S .assignment (checkPresence P S) (by simp [runGroup, checkAssignment]) h

/-- number of activities of a job counted the way the code does equals the specification's `served` -/
theorem countP_append {α} (p : α → Bool) (a b : List α) : countP p (a ++ b) = countP p a + countP p b := by
  induction a with
  | nil => simp [countP]
  | cons x a ih => simp only [List.cons_append, countP, ih]; omega

theorem countP_map {α β} (p : β → Bool) (f : α → β) (l : List α) : countP p (l.map f) = countP (fun x => p (f x)) l := by
  induction l with
  | nil => simp [countP]
  | cons x l ih => simp [countP, ih]

theorem assigned_eq_served (S : Solution) (id : String) :
    countP (fun p => p.2.2.jobId == id) (jobActs S) = served S id := by
  unfold jobActs served
  induction S.tours with
  | nil => simp [countP]
  | cons t rest ih =>
    simp only [List.flatMap_cons, countP_append, List.map_cons, List.sum_cons, ih]
    congr 1
    rw [countP_map]
    rfl

theorem countP_pos_iff {α} (p : α → Bool) (l : List α) : 0 < countP p l ↔ ∃ x ∈ l, p x = true := by
  induction l with
  | nil => simp [countP]
  | cons x l ih =>
    simp only [countP, List.mem_cons, exists_eq_or_imp]
    by_cases hx : p x = true
    · simp [hx]; omega
    · simp only [hx, if_false, Nat.zero_add, ih, Bool.false_eq_true, false_or]

/-- a job id is used iff some job activity carries it iff `served` is positive -/
theorem mem_usedIds_iff (S : Solution) (id : String) : id ∈ usedIds S ↔ 0 < served S id := by
  unfold usedIds
  rw [mem_dedup, ← assigned_eq_served, countP_pos_iff]
  simp only [List.mem_map]
  constructor
  · rintro ⟨e, he, rfl⟩; exact ⟨e, he, by simp⟩
  · rintro ⟨e, he, h⟩; exact ⟨e, he, by simpa using h⟩

theorem findJob_some (P : Problem) (id : String) (j : Job) (h : findJob P id = some j) : j ∈ P.jobs ∧ j.id = id := by
  unfold findJob at h
  exact ⟨List.mem_of_find?_eq_some h, by simpa using List.find?_some h⟩

theorem partition_unpack (P : Problem) (S : Solution) (h : partitionOk P S = true) :
    (∀ j ∈ P.jobs, jobOk S j = true) ∧
    (∀ t ∈ S.tours, ∀ p ∈ tourJobActs t, (findJob P p.2.jobId).isSome = true) ∧
    (∀ id ∈ unassignedIds S, (findJob P id).isSome = true) := by
  simpa [partitionOk, List.all_eq_true, and_assoc] using h

/-- breach *assigned and unassigned*, half 1 -/
theorem breach_assigned_and_unassigned_invalid (P : Problem) (S : Solution) (id : String)
    (hu : id ∈ unassignedIds S) (ha : id ∈ usedIds S) : validSolution P S = false := by
  cases hval : validSolution P S with
  | false => rfl
  | true =>
    exfalso
    obtain ⟨hjobs, _, hun⟩ := partition_unpack P S ((valid_iff P S).1 hval).2.1
    have hk := hun id hu
    cases hf : findJob P id with
    | none => simp [hf] at hk
    | some j =>
      obtain ⟨hj, hid⟩ := findJob_some P id j hf
      have hok := hjobs j hj
      have hserved := (mem_usedIds_iff S id).1 ha
      have hlisted : 0 < listed S id := by
        unfold listed; rw [countP_pos_iff]; exact ⟨id, hu, by simp⟩
      unfold jobOk at hok
      rw [hid] at hok
      simp only [Bool.or_eq_true, Bool.and_eq_true, beq_iff_eq] at hok
      rcases hok with ⟨⟨⟨_, h0⟩, _⟩, _⟩ | ⟨h0, _⟩
      · omega
      · omega

/-- half 2 -/
theorem checker_rejects_assigned_and_unassigned (P : Problem) (S : Solution) (id : String)
    (hu : id ∈ unassignedIds S) (ha : id ∈ usedIds S) : check P S ≠ [] := by
  apply presence_rejects
  apply checkPresence_ne_none
  refine Or.inr (Or.inr (Or.inr ?_))
  rw [List.any_eq_true]
  exact ⟨id, hu, by simp [List.contains_iff_mem, ha]⟩

/-- breach *unknown job* (listed unassigned), both halves -/
theorem breach_unknown_unassigned_invalid (P : Problem) (S : Solution) (id : String)
    (hu : id ∈ unassignedIds S) (hk : findJob P id = none) : validSolution P S = false := by
  cases hval : validSolution P S with
  | false => rfl
  | true =>
    exfalso
    obtain ⟨_, _, hun⟩ := partition_unpack P S ((valid_iff P S).1 hval).2.1
    have := hun id hu
    simp [hk] at this

theorem checker_rejects_unknown_unassigned (P : Problem) (S : Solution) (id : String)
    (hu : id ∈ unassignedIds S) (hk : findJob P id = none) : check P S ≠ [] := by
  apply presence_rejects
  apply checkPresence_ne_none
  refine Or.inr (Or.inr (Or.inr ?_))
  rw [List.any_eq_true]
  exact ⟨id, hu, by simp [hk]⟩

/-- a job activity of a tour shows up in `jobActs` -/
theorem mem_jobActs (S : Solution) (t : Tour) (ht : t ∈ S.tours) (p : Nat × Act) (hp : p ∈ tourJobActs t) :
    (tourKey t, p.1, p.2) ∈ jobActs S := by
  unfold jobActs
  rw [List.mem_flatMap]
  refine ⟨t, ht, ?_⟩
  rw [List.mem_map]
  exact ⟨p, hp, rfl⟩

theorem mem_usedIds_of_act (S : Solution) (t : Tour) (ht : t ∈ S.tours) (p : Nat × Act) (hp : p ∈ tourJobActs t) :
    p.2.jobId ∈ usedIds S := by
  unfold usedIds
  rw [mem_dedup, List.mem_map]
  exact ⟨_, mem_jobActs S t ht p hp, rfl⟩

/-- breach *unknown job* (served in a tour), both halves -/
theorem breach_unknown_job_invalid (P : Problem) (S : Solution) (t : Tour) (ht : t ∈ S.tours) (p : Nat × Act)
    (hp : p ∈ tourJobActs t) (hk : findJob P p.2.jobId = none) : validSolution P S = false := by
  cases hval : validSolution P S with
  | false => rfl
  | true =>
    exfalso
    obtain ⟨_, hacts, _⟩ := partition_unpack P S ((valid_iff P S).1 hval).2.1
    have := hacts t ht p hp
    simp [hk] at this

theorem checker_rejects_unknown_job (P : Problem) (S : Solution) (t : Tour) (ht : t ∈ S.tours) (p : Nat × Act)
    (hp : p ∈ tourJobActs t) (hk : findJob P p.2.jobId = none) : check P S ≠ [] := by
  apply presence_rejects
  apply checkPresence_ne_none
  refine Or.inr (Or.inl ?_)
  rw [List.any_eq_true]
  exact ⟨p.2.jobId, mem_usedIds_of_act S t ht p hp, by simp [jobTasksBad, hk]⟩

theorem hasDup_of_count {α} [BEq α] [LawfulBEq α] (l : List α) (x : α) (h : 2 ≤ countP (fun y => y == x) l) :
    hasDup l = true := by
  induction l with
  | nil => simp [countP] at h
  | cons y rest ih =>
    simp only [hasDup, Bool.or_eq_true]
    simp only [countP] at h
    by_cases hy : (y == x) = true
    · have hyx : y = x := by simpa using hy
      subst hyx
      simp only [hy, if_true] at h
      have : 0 < countP (fun z => z == y) rest := by omega
      obtain ⟨z, hz, hzy⟩ := (countP_pos_iff _ _).1 this
      have : z = y := by simpa using hzy
      subst this
      exact Or.inl (by simpa using hz)
    · simp only [hy, Bool.false_eq_true, if_false, Nat.zero_add] at h
      exact Or.inr (ih h)

/-- breach *duplicated job* (listed twice as unassigned), both halves -/
theorem breach_duplicated_unassigned_invalid (P : Problem) (S : Solution) (id : String)
    (h2 : 2 ≤ listed S id) : validSolution P S = false := by
  cases hval : validSolution P S with
  | false => rfl
  | true =>
    exfalso
    obtain ⟨hjobs, _, hun⟩ := partition_unpack P S ((valid_iff P S).1 hval).2.1
    have hmem : id ∈ unassignedIds S := by
      have : 0 < listed S id := by omega
      unfold listed at this
      obtain ⟨x, hx, hxe⟩ := (countP_pos_iff _ _).1 this
      have : x = id := by simpa using hxe
      rw [← this]; exact hx
    have hk := hun id hmem
    cases hf : findJob P id with
    | none => simp [hf] at hk
    | some j =>
      obtain ⟨hj, hid⟩ := findJob_some P id j hf
      have hok := hjobs j hj
      unfold jobOk at hok
      rw [hid] at hok
      simp only [Bool.or_eq_true, Bool.and_eq_true, beq_iff_eq] at hok
      rcases hok with ⟨⟨⟨_, h0⟩, _⟩, _⟩ | ⟨_, h0⟩ <;> omega

theorem checker_rejects_duplicated_unassigned (P : Problem) (S : Solution) (id : String)
    (h2 : 2 ≤ listed S id) : check P S ≠ [] := by
  apply presence_rejects
  apply checkPresence_ne_none
  exact Or.inr (Or.inr (Or.inl (hasDup_of_count _ id h2)))

/-- breach *duplicated job* / partly *dropped job*: a job that is served, but not with exactly one activity per
task, both halves -/
theorem breach_task_count_invalid (P : Problem) (S : Solution) (j : Job) (hj : findJob P j.id = some j)
    (hs : 0 < served S j.id) (hne : served S j.id ≠ j.tasks.length) : validSolution P S = false := by
  cases hval : validSolution P S with
  | false => rfl
  | true =>
    exfalso
    obtain ⟨hjobs, _, _⟩ := partition_unpack P S ((valid_iff P S).1 hval).2.1
    have hok := hjobs j (findJob_some P j.id j hj).1
    unfold jobOk at hok
    simp only [Bool.or_eq_true, Bool.and_eq_true, beq_iff_eq] at hok
    rcases hok with ⟨⟨⟨h0, _⟩, _⟩, _⟩ | ⟨h0, _⟩ <;> omega

theorem checker_rejects_task_count (P : Problem) (S : Solution) (j : Job) (hj : findJob P j.id = some j)
    (hs : 0 < served S j.id) (hne : served S j.id ≠ j.tasks.length) : check P S ≠ [] := by
  apply presence_rejects
  apply checkPresence_ne_none
  refine Or.inr (Or.inl ?_)
  rw [List.any_eq_true]
  refine ⟨j.id, (mem_usedIds_iff S j.id).2 hs, ?_⟩
  unfold jobTasksBad
  simp only [hj, assigned_eq_served]
  have : (j.tasks.length != served S j.id) = true := by simp; omega
  simp [this]

end C12

namespace C12
open Spec

/-! ## a job split over tours; completeness of `check_jobs_presence` (the partition theorem) -/

abbrev Entry := (String × Nat) × Nat × Act

def uniqueOwners (owners : List (String × (String × Nat))) : Prop :=
  ∀ o1 ∈ owners, ∀ o2 ∈ owners, o1.1 = o2.1 → o1 = o2

theorem find_owner_some (owners : List (String × (String × Nat))) (id : String) (o : String × (String × Nat))
    (h : owners.find? (fun o => o.1 == id) = some o) : o ∈ owners ∧ o.1 = id :=
  ⟨List.mem_of_find?_eq_some h, by simpa using List.find?_some h⟩

theorem find_owner_none (owners : List (String × (String × Nat))) (id : String)
    (h : owners.find? (fun o => o.1 == id) = none) : ∀ o ∈ owners, o.1 ≠ id := by
  intro o ho heq
  rw [List.find?_eq_none] at h
  exact h o ho (by simpa using heq)

theorem uniqueOwners_cons (owners : List (String × (String × Nat))) (id : String) (key : String × Nat)
    (hu : uniqueOwners owners) (hn : ∀ o ∈ owners, o.1 ≠ id) : uniqueOwners ((id, key) :: owners) := by
  intro o1 h1 o2 h2 heq
  simp only [List.mem_cons] at h1 h2
  rcases h1 with rfl | h1 <;> rcases h2 with rfl | h2
  · rfl
  · exact absurd heq.symm (hn o2 h2)
  · exact absurd heq (hn o1 h1)
  · exact hu o1 h1 o2 h2 heq

/-- an activity whose job is already owned by another (vehicle, shift) makes the first loop fail -/
theorem multiTourGo_conflict (owners : List (String × (String × Nat))) (l : List Entry) (hu : uniqueOwners owners)
    (h : ∃ e ∈ l, ∃ o ∈ owners, o.1 = e.2.2.jobId ∧ o.2 ≠ e.1) : multiTourGo owners l = true := by
  induction l generalizing owners with
  | nil => simp at h
  | cons e rest ih =>
    obtain ⟨key, idx, a⟩ := e
    simp only [multiTourGo]
    cases hfind : owners.find? (fun o => o.1 == a.jobId) with
    | some o' =>
      obtain ⟨ho', hid'⟩ := find_owner_some owners a.jobId o' hfind
      simp only
      by_cases hk : o'.2 = key
      · have : (o'.2 != key) = false := by simp [hk]
        rw [this]
        simp only [Bool.false_eq_true, if_false]
        apply ih owners hu
        obtain ⟨e', he', o, ho, hoid, hokey⟩ := h
        simp only [List.mem_cons] at he'
        rcases he' with rfl | he'
        · exfalso
          have := hu o ho o' ho' (by rw [hoid, hid'])
          subst this
          exact hokey hk
        · exact ⟨e', he', o, ho, hoid, hokey⟩
      · have : (o'.2 != key) = true := by simpa using hk
        rw [this]; rfl
    | none =>
      have hn := find_owner_none owners a.jobId hfind
      simp only
      apply ih _ (uniqueOwners_cons owners a.jobId key hu hn)
      obtain ⟨e', he', o, ho, hoid, hokey⟩ := h
      simp only [List.mem_cons] at he'
      rcases he' with rfl | he'
      · exact absurd hoid (hn o ho)
      · exact ⟨e', he', o, by simp [ho], hoid, hokey⟩

/-- two activities of one job under different (vehicle, shift) keys make the first loop fail -/
theorem multiTourGo_two (owners : List (String × (String × Nat))) (l : List Entry) (hu : uniqueOwners owners)
    (h : ∃ e1 ∈ l, ∃ e2 ∈ l, e1.2.2.jobId = e2.2.2.jobId ∧ e1.1 ≠ e2.1) : multiTourGo owners l = true := by
  induction l generalizing owners with
  | nil => simp at h
  | cons e rest ih =>
    obtain ⟨key, idx, a⟩ := e
    obtain ⟨e1, he1, e2, he2, hid, hkey⟩ := h
    -- after the head is processed somebody owns `a.jobId` under `key`
    have step : ∀ owners', uniqueOwners owners' → (∃ o ∈ owners', o.1 = a.jobId ∧ o.2 = key) →
        multiTourGo owners' rest = true := by
      intro owners' hu' ⟨o, ho, hoid, hokey⟩
      simp only [List.mem_cons] at he1 he2
      rcases he1 with rfl | he1 <;> rcases he2 with rfl | he2
      · exact absurd rfl hkey
      · exact multiTourGo_conflict owners' rest hu' ⟨e2, he2, o, ho, by rw [hoid]; exact hid, by rw [hokey]; exact hkey⟩
      · exact multiTourGo_conflict owners' rest hu' ⟨e1, he1, o, ho, by rw [hoid]; exact hid.symm, by rw [hokey]; exact fun h => hkey h.symm⟩
      · exact ih owners' hu' ⟨e1, he1, e2, he2, hid, hkey⟩
    simp only [multiTourGo]
    cases hfind : owners.find? (fun o => o.1 == a.jobId) with
    | some o' =>
      obtain ⟨ho', hid'⟩ := find_owner_some owners a.jobId o' hfind
      simp only
      by_cases hk : o'.2 = key
      · have : (o'.2 != key) = false := by simp [hk]
        rw [this]
        simp only [Bool.false_eq_true, if_false]
        exact step owners hu ⟨o', ho', hid', hk⟩
      · have : (o'.2 != key) = true := by simpa using hk
        rw [this]; rfl
    | none =>
      have hn := find_owner_none owners a.jobId hfind
      simp only
      exact step _ (uniqueOwners_cons owners a.jobId key hu hn) ⟨(a.jobId, key), by simp, rfl, rfl⟩

/-- when all activities of each job carry one key the first loop passes -/
theorem multiTourGo_false (owners : List (String × (String × Nat))) (l : List Entry) (hu : uniqueOwners owners)
    (hc : ∀ e ∈ l, ∀ o ∈ owners, o.1 = e.2.2.jobId → o.2 = e.1)
    (hp : ∀ e1 ∈ l, ∀ e2 ∈ l, e1.2.2.jobId = e2.2.2.jobId → e1.1 = e2.1) : multiTourGo owners l = false := by
  induction l generalizing owners with
  | nil => rfl
  | cons e rest ih =>
    obtain ⟨key, idx, a⟩ := e
    simp only [multiTourGo]
    cases hfind : owners.find? (fun o => o.1 == a.jobId) with
    | some o' =>
      obtain ⟨ho', hid'⟩ := find_owner_some owners a.jobId o' hfind
      have hk : o'.2 = key := hc (key, idx, a) (by simp) o' ho' hid'
      have : (o'.2 != key) = false := by simp [hk]
      simp only [this, Bool.false_eq_true, if_false]
      exact ih owners hu (fun e he => hc e (by simp [he])) (fun e1 h1 e2 h2 => hp e1 (by simp [h1]) e2 (by simp [h2]))
    | none =>
      have hn := find_owner_none owners a.jobId hfind
      simp only
      apply ih _ (uniqueOwners_cons owners a.jobId key hu hn)
      · intro e he o ho hoid
        simp only [List.mem_cons] at ho
        rcases ho with rfl | ho
        · exact hp (key, idx, a) (by simp) e (by simp [he]) hoid
        · exact hc e (by simp [he]) o ho hoid
      · exact fun e1 h1 e2 h2 => hp e1 (by simp [h1]) e2 (by simp [h2])

theorem mem_jobActs_iff (S : Solution) (e : Entry) :
    e ∈ jobActs S ↔ ∃ t ∈ S.tours, ∃ p ∈ tourJobActs t, e = (tourKey t, p.1, p.2) := by
  unfold jobActs
  rw [List.mem_flatMap]
  constructor
  · rintro ⟨t, ht, he⟩
    rw [List.mem_map] at he
    obtain ⟨p, hp, rfl⟩ := he
    exact ⟨t, ht, p, hp, rfl⟩
  · rintro ⟨t, ht, p, hp, rfl⟩
    exact ⟨t, ht, List.mem_map.2 ⟨p, hp, rfl⟩⟩

/-- breach *job split over tours*, half 2 -/
theorem checker_rejects_job_split (P : Problem) (S : Solution) (t1 t2 : Tour) (p1 p2 : Nat × Act)
    (h1 : t1 ∈ S.tours) (h2 : t2 ∈ S.tours) (hp1 : p1 ∈ tourJobActs t1) (hp2 : p2 ∈ tourJobActs t2)
    (hid : p1.2.jobId = p2.2.jobId) (hkey : tourKey t1 ≠ tourKey t2) : check P S ≠ [] := by
  apply presence_rejects
  apply checkPresence_ne_none
  refine Or.inl (multiTourGo_two [] (jobActs S) (by intro o1 h; simp at h) ?_)
  exact ⟨_, mem_jobActs S t1 h1 p1 hp1, _, mem_jobActs S t2 h2 p2 hp2, hid, hkey⟩

theorem le_sum_of_mem {α} (l : List α) (f : α → Nat) (c : α) (hc : c ∈ l) : f c ≤ (l.map f).sum := by
  induction l with
  | nil => simp at hc
  | cons y r ih =>
    simp only [List.map_cons, List.sum_cons, List.mem_cons] at *
    rcases hc with rfl | hc
    · omega
    · have := ih hc; omega

theorem sum_ge_two {α} (l : List α) (f : α → Nat) (a b : α) (ha : a ∈ l) (hb : b ∈ l) (hne : a ≠ b) :
    f a + f b ≤ (l.map f).sum := by
  induction l with
  | nil => simp at ha
  | cons x rest ih =>
    simp only [List.map_cons, List.sum_cons, List.mem_cons] at *
    rcases ha with rfl | ha <;> rcases hb with rfl | hb
    · exact absurd rfl hne
    · have := le_sum_of_mem rest f b hb; omega
    · have := le_sum_of_mem rest f a ha; omega
    · have := ih ha hb; omega

theorem servedIn_pos (t : Tour) (p : Nat × Act) (hp : p ∈ tourJobActs t) : 0 < servedIn t p.2.jobId := by
  unfold servedIn
  rw [countP_pos_iff]
  exact ⟨p, hp, by simp⟩

/-- the activities of a completely served job all lie in one tour -/
theorem same_tour_of_jobOk (S : Solution) (j : Job) (hne : j.tasks ≠ []) (hok : jobOk S j = true)
    (t1 t2 : Tour) (h1 : t1 ∈ S.tours) (h2 : t2 ∈ S.tours)
    (hs1 : 0 < servedIn t1 j.id) (hs2 : 0 < servedIn t2 j.id) : t1 = t2 := by
  by_cases hne12 : t1 = t2
  · exact hne12
  exfalso
  have hsum := sum_ge_two S.tours (fun t => servedIn t j.id) t1 t2 h1 h2 hne12
  have hlen : 0 < j.tasks.length := by cases hj : j.tasks with | nil => exact absurd hj hne | cons _ _ => simp
  unfold jobOk at hok
  simp only [Bool.or_eq_true, Bool.and_eq_true, beq_iff_eq, List.all_eq_true] at hok
  rcases hok with ⟨⟨⟨hserved, _⟩, hall⟩, _⟩ | ⟨h0, _⟩
  · have a1 := hall t1 h1
    have a2 := hall t2 h2
    unfold served at hserved
    rcases a1 with a1 | a1 <;> rcases a2 with a2 | a2 <;> omega
  · unfold served at h0
    omega

/-- breach *job split over tours*, half 1 -/
theorem breach_job_split_invalid (P : Problem) (S : Solution) (t1 t2 : Tour) (p1 p2 : Nat × Act)
    (h1 : t1 ∈ S.tours) (h2 : t2 ∈ S.tours) (hp1 : p1 ∈ tourJobActs t1) (hp2 : p2 ∈ tourJobActs t2)
    (hid : p1.2.jobId = p2.2.jobId) (hkey : tourKey t1 ≠ tourKey t2)
    (hshape : ∀ j ∈ P.jobs, j.tasks ≠ []) : validSolution P S = false := by
  cases hval : validSolution P S with
  | false => rfl
  | true =>
    exfalso
    obtain ⟨hjobs, hacts, _⟩ := partition_unpack P S ((valid_iff P S).1 hval).2.1
    have hk := hacts t1 h1 p1 hp1
    cases hf : findJob P p1.2.jobId with
    | none => simp [hf] at hk
    | some j =>
      obtain ⟨hj, hjid⟩ := findJob_some P _ j hf
      have e := same_tour_of_jobOk S j (hshape j hj) (hjobs j hj) t1 t2 h1 h2
        (by rw [hjid]; exact servedIn_pos t1 p1 hp1) (by rw [hjid, hid]; exact servedIn_pos t2 p2 hp2)
      exact hkey (by rw [e])

/-! ### counting lemmas for the final comparison of `check_jobs_presence` -/

theorem count_zero_of_not_mem {α} [BEq α] [LawfulBEq α] (l : List α) (y : α) (h : l.contains y = false) :
    countP (fun z => z == y) l = 0 := by
  induction l with
  | nil => rfl
  | cons x rest ih =>
    simp only [List.contains_cons, Bool.or_eq_false_iff] at h
    have hxy : (x == y) = false := by
      have := h.1
      cases hh : (x == y) with
      | false => rfl
      | true =>
        have e : x = y := by simpa using hh
        subst e
        simp at this
    simp [countP, hxy, ih h.2]

theorem hasDup_false_iff {α} [BEq α] [LawfulBEq α] (l : List α) :
    hasDup l = false ↔ ∀ x, countP (fun y => y == x) l ≤ 1 := by
  induction l with
  | nil => simp [hasDup, countP]
  | cons y rest ih =>
    simp only [hasDup, Bool.or_eq_false_iff, ih, countP]
    constructor
    · rintro ⟨hc, h⟩ x
      by_cases hyx : (y == x) = true
      · have e : y = x := by simpa using hyx
        subst e
        have := count_zero_of_not_mem rest y hc
        simp [this]
      · simp only [hyx, Bool.false_eq_true, if_false, Nat.zero_add]; exact h x
    · intro h
      refine ⟨?_, ?_⟩
      · cases hc : rest.contains y with
        | false => rfl
        | true =>
          exfalso
          have hy : y ∈ rest := by simpa using hc
          have : 0 < countP (fun z => z == y) rest := (countP_pos_iff _ _).2 ⟨y, hy, by simp⟩
          have := h y
          simp at this
          omega
      · intro x
        have := h x
        split at this <;> omega

theorem hasDup_dedup {α} [BEq α] [LawfulBEq α] (l : List α) : hasDup (dedup l) = false := by
  induction l with
  | nil => rfl
  | cons x rest ih =>
    simp only [dedup, hasDup, Bool.or_eq_false_iff]
    refine ⟨?_, ?_⟩
    · simp [List.contains_iff_mem, List.mem_filter]
    · rw [hasDup_false_iff] at ih ⊢
      intro y
      have := ih y
      have hle : countP (fun z => z == y) ((dedup rest).filter (fun z => !(z == x))) ≤ countP (fun z => z == y) (dedup rest) := by
        generalize dedup rest = m
        induction m with
        | nil => simp [countP]
        | cons w m ihm =>
          simp only [List.filter_cons]
          split
          · simp only [countP]; omega
          · simp only [countP]; omega
      omega

theorem dedup_eq_self {α} [BEq α] [LawfulBEq α] (l : List α) (h : hasDup l = false) : dedup l = l := by
  induction l with
  | nil => rfl
  | cons x rest ih =>
    simp only [hasDup, Bool.or_eq_false_iff] at h
    simp only [dedup, ih h.2]
    congr 1
    rw [List.filter_eq_self]
    intro y hy
    have : ¬ (y = x) := by
      rintro rfl
      have : rest.contains y = true := by simpa using hy
      rw [this] at h; simp at h
    simpa using this

theorem countP_or_disjoint {α} (p q : α → Bool) (l : List α) (h : ∀ x ∈ l, ¬ (p x = true ∧ q x = true)) :
    countP (fun x => p x || q x) l = countP p l + countP q l := by
  induction l with
  | nil => simp [countP]
  | cons x rest ih =>
    simp only [countP, ih (fun y hy => h y (by simp [hy]))]
    have := h x (by simp)
    by_cases hp : p x = true <;> by_cases hq : q x = true
    · exact absurd ⟨hp, hq⟩ this
    · simp [hp, hq]; omega
    · simp [hp, hq]; omega
    · simp [hp, hq]

theorem countP_eq_one_of_nodup {α} [BEq α] [LawfulBEq α] (l : List α) (a : α) (hd : hasDup l = false) (ha : a ∈ l) :
    countP (fun y => y == a) l = 1 := by
  have h1 := (hasDup_false_iff l).1 hd a
  have h2 : 0 < countP (fun y => y == a) l := (countP_pos_iff _ _).2 ⟨a, ha, by simp⟩
  omega

theorem countP_congr {α} (p q : α → Bool) (l : List α) (h : ∀ x ∈ l, p x = q x) : countP p l = countP q l := by
  induction l with
  | nil => rfl
  | cons x rest ih => simp only [countP, h x (by simp), ih (fun y hy => h y (by simp [hy]))]

/-- a duplicate free sub-list `A` of a duplicate free list `J` has as many elements as `J` has members of `A` -/
theorem length_eq_countP_contains {α} [BEq α] [LawfulBEq α] (J A : List α) (hJ : hasDup J = false)
    (hA : hasDup A = false) (hsub : ∀ a ∈ A, a ∈ J) : A.length = countP (fun j => A.contains j) J := by
  induction A with
  | nil =>
    have : ∀ (J : List α), countP (fun j => ([] : List α).contains j) J = 0 := by
      intro J
      induction J with
      | nil => rfl
      | cons x r ih => simp only [countP, ih]; simp
    rw [this J]; rfl
  | cons a A' ih =>
    simp only [hasDup, Bool.or_eq_false_iff] at hA
    have hnot : ¬ a ∈ A' := by
      intro hm
      have : A'.contains a = true := by simpa using hm
      rw [this] at hA; simp at hA
    have e : countP (fun j => (a :: A').contains j) J = countP (fun j => j == a || A'.contains j) J := by
      apply countP_congr
      intro x _
      simp [List.contains_cons]
    rw [e, countP_or_disjoint]
    · rw [countP_eq_one_of_nodup J a hJ (hsub a (by simp)), ← ih hA.2 (fun x hx => hsub x (by simp [hx]))]
      simp; omega
    · intro x _ ⟨h1, h2⟩
      have : x = a := by simpa using h1
      subst this
      exact hnot (by simpa using h2)

/-- **Partition by counting**: if every member of `J` lies in exactly one of the duplicate free lists `A`, `U ⊆ J`, then
`|A| + |U| = |J|` -/
theorem partition_count {α} [BEq α] [LawfulBEq α] (J A U : List α) (hJ : hasDup J = false) (hA : hasDup A = false)
    (hU : hasDup U = false) (hAJ : ∀ a ∈ A, a ∈ J) (hUJ : ∀ u ∈ U, u ∈ J)
    (hx : ∀ j ∈ J, (j ∈ A ∧ ¬ j ∈ U) ∨ (¬ j ∈ A ∧ j ∈ U)) : A.length + U.length = J.length := by
  rw [length_eq_countP_contains J A hJ hA hAJ, length_eq_countP_contains J U hJ hU hUJ, ← countP_or_disjoint]
  · have : countP (fun x => A.contains x || U.contains x) J = countP (fun _ => true) J := by
      apply countP_congr
      intro x hxJ
      rcases hx x hxJ with ⟨h, _⟩ | ⟨_, h⟩
      · simp [h]
      · simp [h]
    rw [this]
    clear this hx hUJ hAJ hJ
    induction J with
    | nil => rfl
    | cons x r ih => simp [countP, ih]; omega
  · intro x hxJ ⟨h1, h2⟩
    rcases hx x hxJ with ⟨_, h⟩ | ⟨h, _⟩
    · exact h (by simpa using h2)
    · exact h (by simpa using h1)

end C12

namespace C12
open Spec

theorem maxNat_le (ps : List Nat) (m : Nat) (h : ∀ p ∈ ps, p ≤ m) : maxNat ps ≤ m := by
  induction ps with
  | nil => simp [maxNat]
  | cons x rest ih =>
    simp only [maxNat]
    have := h x (by simp)
    have := ih (fun p hp => h p (by simp [hp]))
    omega

theorem le_minNat (ds : List Nat) (m : Nat) (hne : ds ≠ []) (h : ∀ d ∈ ds, m ≤ d) : m ≤ minNat ds := by
  induction ds with
  | nil => exact absurd rfl hne
  | cons x rest ih =>
    cases rest with
    | nil => simpa [minNat] using h x (by simp)
    | cons y r =>
      simp only [minNat]
      have := h x (by simp)
      have := ih (by simp) (fun d hd => h d (by simp [hd]))
      omega

theorem mem_idxOfTy (S : Solution) (id : String) (ty : ATy) (n : Nat) (h : n ∈ idxOfTy S id ty) :
    ∃ e ∈ jobActs S, e.2.2.jobId = id ∧ e.2.2.ty = ty ∧ e.2.1 = n := by
  unfold idxOfTy at h
  rw [List.mem_map] at h
  obtain ⟨e, he, rfl⟩ := h
  rw [List.mem_filter] at he
  obtain ⟨he, hc⟩ := he
  simp only [Bool.and_eq_true, beq_iff_eq] at hc
  exact ⟨e, he, hc.1, hc.2, rfl⟩

/-- **Completeness of `check_jobs_presence` (the partition theorem)**: if every job of the problem is either served
completely inside one tour (pickups before deliveries) and not listed, or not served and listed exactly once, and no
unknown id occurs, then the multi-tour test, the per-job task test, the duplicate / unknown / assigned-and-unassigned
tests of the unassigned list and the final comparison of counts all pass. -/
theorem presence_complete (P : Problem) (S : Solution) (hids : hasDup (P.jobs.map (fun j => j.id)) = false)
    (hne : ∀ j ∈ P.jobs, j.tasks ≠ []) (h : partitionOk P S = true) : checkPresence P S = none := by
  obtain ⟨hjobs, hacts, hun⟩ := partition_unpack P S h
  -- every entry of `jobActs` belongs to a tour and to a job of the problem
  have entryJob : ∀ e ∈ jobActs S, ∃ t ∈ S.tours, ∃ p ∈ tourJobActs t, e = (tourKey t, p.1, p.2) ∧
      ∃ j, findJob P p.2.jobId = some j ∧ j ∈ P.jobs ∧ j.id = p.2.jobId := by
    intro e he
    obtain ⟨t, ht, p, hp, rfl⟩ := (mem_jobActs_iff S e).1 he
    have hk := hacts t ht p hp
    cases hf : findJob P p.2.jobId with
    | none => simp [hf] at hk
    | some j =>
      obtain ⟨hj, hid⟩ := findJob_some P _ j hf
      exact ⟨t, ht, p, hp, rfl, j, hf, hj, hid⟩
  -- two activities of one job lie in the same tour
  have sameTour : ∀ t1 ∈ S.tours, ∀ t2 ∈ S.tours, ∀ p1 ∈ tourJobActs t1, ∀ p2 ∈ tourJobActs t2,
      p1.2.jobId = p2.2.jobId → t1 = t2 := by
    intro t1 h1 t2 h2 p1 hp1 p2 hp2 hid
    have hk := hacts t1 h1 p1 hp1
    cases hf : findJob P p1.2.jobId with
    | none => simp [hf] at hk
    | some j =>
      obtain ⟨hj, hjid⟩ := findJob_some P _ j hf
      exact same_tour_of_jobOk S j (hne j hj) (hjobs j hj) t1 t2 h1 h2
        (by rw [hjid]; exact servedIn_pos t1 p1 hp1) (by rw [hjid, hid]; exact servedIn_pos t2 p2 hp2)
  -- a known job with a positive number of activities is served completely and not listed
  have servedJob : ∀ j ∈ P.jobs, 0 < served S j.id →
      served S j.id = j.tasks.length ∧ listed S j.id = 0 ∧ ∀ t ∈ S.tours, pickupsFirst t j.id = true := by
    intro j hj hpos
    have hok := hjobs j hj
    unfold jobOk at hok
    simp only [Bool.or_eq_true, Bool.and_eq_true, beq_iff_eq, List.all_eq_true] at hok
    rcases hok with ⟨⟨⟨h1, h2⟩, _⟩, h3⟩ | ⟨h0, _⟩
    · exact ⟨h1, h2, h3⟩
    · omega
  have listedLe : ∀ j ∈ P.jobs, listed S j.id ≤ 1 := by
    intro j hj
    have hok := hjobs j hj
    unfold jobOk at hok
    simp only [Bool.or_eq_true, Bool.and_eq_true, beq_iff_eq] at hok
    rcases hok with ⟨⟨⟨_, h2⟩, _⟩, _⟩ | ⟨_, h1⟩ <;> omega
  have unJob : ∀ id ∈ unassignedIds S, ∃ j, findJob P id = some j ∧ j ∈ P.jobs ∧ j.id = id := by
    intro id hid
    have hk := hun id hid
    cases hf : findJob P id with
    | none => simp [hf] at hk
    | some j => obtain ⟨hj, hjid⟩ := findJob_some P _ j hf; exact ⟨j, rfl, hj, hjid⟩
  have listedPos : ∀ id ∈ unassignedIds S, 0 < listed S id := by
    intro id hid
    unfold listed; rw [countP_pos_iff]; exact ⟨id, hid, by simp⟩
  -- 1: the multi-tour loop
  have step1 : multiTourGo [] (jobActs S) = false := by
    apply multiTourGo_false [] (jobActs S) (by intro o1 h; simp at h) (by intro e _ o ho; simp at ho)
    intro e1 he1 e2 he2 hid
    obtain ⟨t1, ht1, p1, hp1, rfl, _⟩ := entryJob e1 he1
    obtain ⟨t2, ht2, p2, hp2, rfl, _⟩ := entryJob e2 he2
    have := sameTour t1 ht1 t2 ht2 p1 hp1 p2 hp2 hid
    simp [this]
  -- 2: the per-job loop
  have step2 : (usedIds S).any (jobTasksBad P S) = false := by
    rw [List.any_eq_false]
    intro id hid
    have hpos := (mem_usedIds_iff S id).1 hid
    have : ∃ e ∈ jobActs S, e.2.2.jobId = id := by
      unfold usedIds at hid
      rw [mem_dedup, List.mem_map] at hid
      obtain ⟨e, he, rfl⟩ := hid
      exact ⟨e, he, rfl⟩
    obtain ⟨e, he, heid⟩ := this
    obtain ⟨t, ht, p, hp, rfl, j, hf, hj, hjid⟩ := entryJob e he
    simp only at heid
    rw [heid] at hf hjid
    obtain ⟨hs, _, hpf⟩ := servedJob j hj (by rw [hjid]; exact hpos)
    unfold jobTasksBad
    simp only [hf, assigned_eq_served]
    rw [hjid] at hs
    have e1 : (j.tasks.length != served S id) = false := by simp [hs]
    rw [e1]
    simp only [Bool.false_or, Bool.not_eq_true]
    cases hds : (idxOfTy S id ATy.delivery).isEmpty with
    | true => simp
    | false =>
      cases hps : (idxOfTy S id ATy.pickup).isEmpty with
      | true => simp
      | false =>
        have hle : maxNat (idxOfTy S id ATy.pickup) ≤ minNat (idxOfTy S id ATy.delivery) := by
          apply maxNat_le
          intro pi hpi
          apply le_minNat
          · intro hnil; rw [hnil] at hds; simp at hds
          intro di hdi
          obtain ⟨ep, hep, hepid, hepty, rfl⟩ := mem_idxOfTy S id _ pi hpi
          obtain ⟨ed, hed, hedid, hedty, rfl⟩ := mem_idxOfTy S id _ di hdi
          obtain ⟨tp, htp, pp, hpp, rfl, _⟩ := entryJob ep hep
          obtain ⟨td, htd, pd, hpd, rfl, _⟩ := entryJob ed hed
          simp only at hepid hepty hedid hedty
          have := sameTour tp htp td htd pp hpp pd hpd (by rw [hepid, hedid])
          subst this
          have hpf' := hpf tp htp
          unfold pickupsFirst at hpf'
          rw [List.all_eq_true] at hpf'
          have := hpf' pp hpp
          rw [List.all_eq_true] at this
          have := this pd hpd
          rw [hjid] at this
          simp only [hepid, hedid, hepty, hedty, beq_self_eq_true, Bool.and_self, Bool.not_true, Bool.false_or,
            decide_eq_true_eq] at this
          exact this
        simp; omega
  -- 3: no duplicate in the unassigned list
  have step3 : hasDup (unassignedIds S) = false := by
    rw [hasDup_false_iff]
    intro x
    by_cases hx : x ∈ unassignedIds S
    · obtain ⟨j, _, hj, hjid⟩ := unJob x hx
      have := listedLe j hj
      rw [hjid] at this
      exact this
    · have : countP (fun y => y == x) (unassignedIds S) = 0 := by
        apply count_zero_of_not_mem
        cases hc : (unassignedIds S).contains x with
        | false => rfl
        | true => exact absurd (by simpa using hc) hx
      omega
  -- 4: no unknown and no assigned id in the unassigned list
  have step4 : (unassignedIds S).any (fun id => (findJob P id).isNone || (usedIds S).contains id) = false := by
    rw [List.any_eq_false]
    intro id hid
    obtain ⟨j, hf, hj, hjid⟩ := unJob id hid
    have hlp := listedPos id hid
    have : ¬ id ∈ usedIds S := by
      intro hu
      have hpos := (mem_usedIds_iff S id).1 hu
      obtain ⟨_, h0, _⟩ := servedJob j hj (by rw [hjid]; exact hpos)
      rw [hjid] at h0
      omega
    simp [hf, this]
  -- 5: the counts
  have step5 : (unassignedIds S).length + (usedIds S).length = (dedup (P.jobs.map (fun j => j.id))).length := by
    rw [dedup_eq_self _ hids]
    have := partition_count (P.jobs.map (fun j => j.id)) (usedIds S) (unassignedIds S) hids (hasDup_dedup _) step3
      (by
        intro id hid
        unfold usedIds at hid
        rw [mem_dedup, List.mem_map] at hid
        obtain ⟨e, he, rfl⟩ := hid
        obtain ⟨t, ht, p, hp, rfl, j, _, hj, hjid⟩ := entryJob e he
        exact List.mem_map.2 ⟨j, hj, hjid⟩)
      (by
        intro id hid
        obtain ⟨j, _, hj, hjid⟩ := unJob id hid
        exact List.mem_map.2 ⟨j, hj, hjid⟩)
      (by
        intro id hid
        obtain ⟨j, hj, rfl⟩ := List.mem_map.1 hid
        have hok := hjobs j hj
        have hlen : 0 < j.tasks.length := by
          cases hjt : j.tasks with
          | nil => exact absurd hjt (hne j hj)
          | cons _ _ => simp
        unfold jobOk at hok
        simp only [Bool.or_eq_true, Bool.and_eq_true, beq_iff_eq] at hok
        rcases hok with ⟨⟨⟨h1, h2⟩, _⟩, _⟩ | ⟨h0, h1⟩
        · refine Or.inl ⟨(mem_usedIds_iff S j.id).2 (by omega), ?_⟩
          intro hu
          have := listedPos j.id hu
          omega
        · refine Or.inr ⟨?_, ?_⟩
          · intro hu
            have := (mem_usedIds_iff S j.id).1 hu
            omega
          · have : 0 < listed S j.id := by omega
            unfold listed at this
            obtain ⟨x, hx, hxe⟩ := (countP_pos_iff _ _).1 this
            have : x = j.id := by simpa using hxe
            rw [← this]; exact hx)
    omega
  unfold checkPresence
  rw [step1, step2]
  simp only [Bool.false_eq_true, if_false, step3, step4]
  rw [if_neg]
  simp [step5]

end C12

namespace C12
open Spec

/-! ## relations (`check_relations`) -/

theorem relations_rejects (P : Problem) (S : Solution) (r : Relation) (hr : r ∈ P.relations)
    (h : checkRelation P S r ≠ none) : check P S ≠ [] := by
  apply check_ne_nil_of_group P S .relations
  apply groupErrors_ne_nil P S .relations (firstErrOf (checkRelation P S) P.relations) (by simp [runGroup, checkRelations])
  exact firstErrOf_ne_none _ _ r hr h

/-- S17 (repaired in 328387a): an `any` relation whose vehicle has no tour is rejected when some tour serves one of its
customer jobs -/
theorem checker_rejects_any_relation_absent_tour (P : Problem) (S : Solution) (r : Relation) (hr : r ∈ P.relations)
    (hk : r.kind = .any) (hno : findTour S r.vehicleId (r.shiftIndex.getD 0) = none)
    (o : Tour) (ho : o ∈ S.tours) (id : String) (hid : id ∈ tourIds o) (hj : id ∈ r.jobs) (hres : isReservedId id = false) :
    check P S ≠ [] := by
  apply relations_rejects P S r hr
  unfold checkRelation
  simp only [hno, hk]
  rw [if_pos]
  · simp
  · rw [List.any_eq_true]
    refine ⟨o, ho, ?_⟩
    rw [List.any_eq_true]
    exact ⟨id, hid, by simp [hres, List.contains_iff_mem, hj]⟩

/-- breach *broken any relation* (the pinned vehicle has a tour), half 2 -/
theorem checker_rejects_any_relation_other_vehicle (P : Problem) (S : Solution) (r : Relation) (hr : r ∈ P.relations)
    (hk : r.kind = .any) (t : Tour) (ht : findTour S r.vehicleId (r.shiftIndex.getD 0) = some t)
    (o : Tour) (ho : o ∈ S.tours) (hov : o.vehicleId ≠ t.vehicleId) (id : String) (hid : id ∈ tourIds o)
    (hj : id ∈ r.jobs) (hres : isReservedId id = false) : check P S ≠ [] := by
  apply relations_rejects P S r hr
  unfold checkRelation
  simp only [ht, hk]
  split
  · simp
  · split
    · simp
    · rw [if_pos]
      · simp
      · rw [List.any_eq_true]
        refine ⟨o, ho, ?_⟩
        simp only [Bool.and_eq_true, bne_iff_ne, ne_eq, List.any_eq_true]
        exact ⟨hov, id, hid, by simp [hres, List.contains_iff_mem, hj]⟩

theorem findTour_some (S : Solution) (vid : String) (sh : Nat) (t : Tour) (h : findTour S vid sh = some t) :
    t ∈ S.tours ∧ t.vehicleId = vid ∧ t.shiftIndex = sh := by
  unfold findTour at h
  have := List.find?_some h
  simp only [Bool.and_eq_true, beq_iff_eq] at this
  exact ⟨List.mem_of_find?_eq_some h, this.1, this.2⟩

/-- breach *broken any relation*, half 1 (both shapes) -/
theorem breach_any_relation_invalid (P : Problem) (S : Solution) (r : Relation) (hr : r ∈ P.relations)
    (hk : r.kind = .any) (o : Tour) (ho : o ∈ S.tours) (hov : o.vehicleId ≠ r.vehicleId) (id : String)
    (hid : id ∈ tourIds o) (hj : id ∈ r.jobs) (hres : isReservedId id = false) : validSolution P S = false := by
  cases hval : validSolution P S with
  | false => rfl
  | true =>
    exfalso
    have hl := ((valid_iff P S).1 hval).2.2.2.2.2.2.1
    simp only [relationsOk, List.all_eq_true] at hl
    have := hl r hr
    unfold relationOk at this
    simp only [hk, Bool.and_eq_true, List.all_eq_true, Bool.or_eq_true, beq_iff_eq] at this
    have := this.2 o ho
    rcases this with h | h
    · exact hov h
    · have := h id hid
      simp [hres, List.contains_iff_mem, hj] at this

/-- the ids kept by the `sequence` filter form a subsequence of the tour -/
theorem isSubseq_filter (p : String → Bool) (l : List String) : isSubseq (l.filter p) l = true := by
  induction l with
  | nil => simp [isSubseq]
  | cons x rest ih =>
    simp only [List.filter_cons]
    split
    · simp [isSubseq, ih]
    · cases hf : rest.filter p with
      | nil => simp [isSubseq]
      | cons y ys =>
        rw [hf] at ih
        simp only [isSubseq]
        split
        · rename_i heq
          -- y = x : still a subsequence of the tail, hence of the whole list
          have : isSubseq ys rest = true := by
            have hy : y = x := by simpa using heq
            subst hy
            -- drop the head of a subsequence
            have drop : ∀ (a : String) (xs l : List String), isSubseq (a :: xs) l = true → isSubseq xs l = true := by
              intro a xs l
              induction l generalizing a xs with
              | nil => intro h; simp [isSubseq] at h
              | cons z zs ihz =>
                intro h
                simp only [isSubseq] at h
                split at h
                · cases xs with
                  | nil => simp [isSubseq]
                  | cons b bs =>
                    simp only [isSubseq]
                    split
                    · exact ihz b bs h
                    · exact h
                · cases xs with
                  | nil => simp [isSubseq]
                  | cons b bs =>
                    simp only [isSubseq]
                    split
                    · exact ihz b bs (ihz a (b :: bs) h)
                    · exact ihz a (b :: bs) h
            exact drop y ys rest ih
          exact this
        · exact ih

/-- breach *broken sequence relation*: if the relation's ids do not occur in this order in the named tour (they are not a
subsequence of its activity ids), the `sequence` arm rejects -/
theorem checker_rejects_sequence_relation (P : Problem) (S : Solution) (r : Relation) (hr : r ∈ P.relations)
    (hk : r.kind = .sequence) (t : Tour) (ht : findTour S r.vehicleId (r.shiftIndex.getD 0) = some t)
    (hbad : isSubseq r.jobs (tourIds t) = false) : check P S ≠ [] := by
  apply relations_rejects P S r hr
  unfold checkRelation
  simp only [ht, hk]
  split
  · simp
  · split
    · simp
    · rw [if_pos]
      · simp
      · -- neither arm of the comparison can hold
        have hsub := isSubseq_filter (fun id => r.jobs.contains id) (tourIds t)
        -- transitivity is not needed: both arms are refuted directly
        have trans : ∀ (a b c : List String), isSubseq a b = true → isSubseq b c = true → isSubseq a c = true := by
          intro a b c
          induction c generalizing a b with
          | nil =>
            intro h1 h2
            cases b with
            | nil => exact h1
            | cons y ys => simp [isSubseq] at h2
          | cons z zs ihc =>
            intro h1 h2
            cases a with
            | nil => simp [isSubseq]
            | cons x xs =>
              cases b with
              | nil => simp [isSubseq] at h1
              | cons y ys =>
                simp only [isSubseq] at h1 h2 ⊢
                by_cases hyz : (y == z) = true
                · rw [if_pos hyz] at h2
                  by_cases hxy : (x == y) = true
                  · rw [if_pos hxy] at h1
                    have hxz : (x == z) = true := by
                      have e1 : x = y := by simpa using hxy
                      have e2 : y = z := by simpa using hyz
                      simp [e1, e2]
                    rw [if_pos hxz]
                    exact ihc xs ys h1 h2
                  · rw [if_neg hxy] at h1
                    have := ihc (x :: xs) ys h1 h2
                    split
                    · -- x = z: drop the head
                      cases hzs : zs with
                      | nil => rw [hzs] at this; simp [isSubseq] at this
                      | cons w ws =>
                        rw [hzs] at this
                        -- `this : isSubseq (x :: xs) (w :: ws)`; we need `isSubseq xs (w :: ws)`
                        have drop : ∀ (a : String) (us l : List String), isSubseq (a :: us) l = true → isSubseq us l = true := by
                          intro a us l
                          induction l generalizing a us with
                          | nil => intro h; simp [isSubseq] at h
                          | cons q qs ihq =>
                            intro h
                            simp only [isSubseq] at h
                            split at h
                            · cases us with
                              | nil => simp [isSubseq]
                              | cons b bs =>
                                simp only [isSubseq]
                                split
                                · exact ihq b bs h
                                · exact h
                            · cases us with
                              | nil => simp [isSubseq]
                              | cons b bs =>
                                simp only [isSubseq]
                                split
                                · exact ihq b bs (ihq a (b :: bs) h)
                                · exact ihq a (b :: bs) h
                        exact drop x xs (w :: ws) this
                    · exact this
                · rw [if_neg hyz] at h2
                  have := ihc (x :: xs) (y :: ys) (by simp only [isSubseq]; exact h1) h2
                  split
                  · cases hzs : zs with
                    | nil => rw [hzs] at this; simp [isSubseq] at this
                    | cons w ws =>
                      rw [hzs] at this
                      have drop : ∀ (a : String) (us l : List String), isSubseq (a :: us) l = true → isSubseq us l = true := by
                        intro a us l
                        induction l generalizing a us with
                        | nil => intro h; simp [isSubseq] at h
                        | cons q qs ihq =>
                          intro h
                          simp only [isSubseq] at h
                          split at h
                          · cases us with
                            | nil => simp [isSubseq]
                            | cons b bs =>
                              simp only [isSubseq]
                              split
                              · exact ihq b bs h
                              · exact h
                          · cases us with
                            | nil => simp [isSubseq]
                            | cons b bs =>
                              simp only [isSubseq]
                              split
                              · exact ihq b bs (ihq a (b :: bs) h)
                              · exact ihq a (b :: bs) h
                      exact drop x xs (w :: ws) this
                  · exact this
        split
        · -- reserved ids present: the subsequence test on the kept ids
          simp only [Bool.not_eq_true']
          cases hs : isSubseq r.jobs (List.filter (fun id => r.jobs.contains id) (tourIds t)) with
          | false => rfl
          | true => rw [trans _ _ _ hs hsub] at hbad; simp at hbad
        · simp only [bne_iff_ne, ne_eq]
          intro heq
          rw [heq] at hsub
          rw [hsub] at hbad; simp at hbad

theorem breach_sequence_relation_invalid (P : Problem) (S : Solution) (r : Relation) (hr : r ∈ P.relations)
    (hk : r.kind = .sequence) (hbad : ∀ t, findTour S r.vehicleId (r.shiftIndex.getD 0) = some t →
      isSubseq r.jobs (tourIds t) = false) : validSolution P S = false := by
  cases hval : validSolution P S with
  | false => rfl
  | true =>
    exfalso
    have hl := ((valid_iff P S).1 hval).2.2.2.2.2.2.1
    simp only [relationsOk, List.all_eq_true] at hl
    have := hl r hr
    unfold relationOk at this
    simp only [hk, Bool.and_eq_true] at this
    cases hf : findTour S r.vehicleId (r.shiftIndex.getD 0) with
    | none => simp [hf] at this
    | some t => simp only [hf] at this; rw [hbad t hf] at this; simp at this

end C12

namespace C12
open Spec

/-! ## loads: completeness of `check_vehicle_load_assignment` against the positional load formula -/

/-- the specification's per-activity triple for the code's demand kind -/
def deltaOf (k : DKind) (x : Int) : Int × Int × Int :=
  match k with
  | .sDelivery => (x, 0, 0)
  | .sPickup => (0, x, 0)
  | .dPickup => (0, 0, x)
  | .dDelivery => (0, 0, -x)
  | .none => (0, 0, 0)
  | .sBoth => (x, x, 0)

/-- the code's view of an activity (type lookup and demand) and the specification's view coincide -/
def ActCorr (P : Problem) (t : Tour) (s : Stop) (a : Act) : Prop :=
  ∃ aty k dem, activityType P t s a = .ok aty ∧ demandOf a aty = .ok (k, dem) ∧ k ≠ .sBoth ∧
    (∀ d, actDelta P a d = deltaOf k (lget dem d)) ∧ ((a.ty = .arrival ∨ a.ty = .reload) → k = .none)

theorem actDelta_nonjob (P : Problem) (a : Act) (d : Nat) (h1 : a.ty ≠ .delivery) (h2 : a.ty ≠ .pickup) :
    actDelta P a d = (0, 0, 0) := by
  unfold actDelta
  cases taskOf P a with
  | none => rfl
  | some jt =>
    obtain ⟨j, tk⟩ := jt
    cases hty : a.ty <;> simp_all

theorem actCorr_of_known (P : Problem) (t : Tour) (hk : actsKnown P t = true) (s : Stop) (hs : s ∈ t.stops)
    (a : Act) (ha : a ∈ s.acts) : ActCorr P t s a := by
  simp only [actsKnown, Bool.and_eq_true, List.all_eq_true] at hk
  obtain ⟨hvs, hall⟩ := hk
  have hka := hall s hs a ha
  cases hsh : vehicleShift P t with
  | error c => simp [hsh, Except.toOption] at hvs
  | ok shift =>
    cases hty : a.ty with
    | departure =>
      refine ⟨.terminal, .none, [], ?_, ?_, by simp, ?_, ?_⟩
      · simp [activityType, hsh, hty]
      · simp [demandOf, dkind, hty]
      · intro d; rw [actDelta_nonjob P a d (by simp [hty]) (by simp [hty])]; rfl
      · intro _; rfl
    | arrival =>
      refine ⟨.terminal, .none, [], ?_, ?_, by simp, ?_, ?_⟩
      · simp [activityType, hsh, hty]
      · simp [demandOf, dkind, hty]
      · intro d; rw [actDelta_nonjob P a d (by simp [hty]) (by simp [hty])]; rfl
      · intro _; rfl
    | brk =>
      simp only [hty] at hka
      cases hat : activityType P t s a with
      | error c => simp [hat, Except.toOption] at hka
      | ok aty =>
        have hnj : ∃ b, aty = .brk b := by
          simp only [activityType, hsh, hty] at hat
          split at hat
          · simp at hat
          · rename_i b _; exact ⟨b, by simpa using hat.symm⟩
        obtain ⟨b, rfl⟩ := hnj
        refine ⟨.brk b, .none, [], hat, ?_, by simp, ?_, ?_⟩
        · simp [demandOf, dkind, hty]
        · intro d; rw [actDelta_nonjob P a d (by simp [hty]) (by simp [hty])]; rfl
        · intro _; rfl
    | reload =>
      simp only [hty] at hka
      cases hat : activityType P t s a with
      | error c => simp [hat, Except.toOption] at hka
      | ok aty =>
        have hnj : ∃ r, aty = .reload r := by
          simp only [activityType, hsh, hty] at hat
          split at hat
          · simp at hat
          · rename_i r _; exact ⟨r, by simpa using hat.symm⟩
        obtain ⟨r, rfl⟩ := hnj
        refine ⟨.reload r, .none, [], hat, ?_, by simp, ?_, ?_⟩
        · simp [demandOf, dkind, hty]
        · intro d; rw [actDelta_nonjob P a d (by simp [hty]) (by simp [hty])]; rfl
        · intro _; rfl
    | replacement => simp [hty] at hka
    | recharge => simp [hty] at hka
    | other => simp [hty] at hka
    | pickup =>
      simp only [hty] at hka
      cases htk : taskOf P a with
      | none => simp [htk] at hka
      | some jt =>
        obtain ⟨j, tk⟩ := jt
        have hj : findJob P a.jobId = some j ∧ matchTask a j = .ok tk := by
          unfold taskOf at htk
          cases hf : findJob P a.jobId with
          | none => simp [hf] at htk
          | some j' =>
            simp only [hf] at htk
            cases hm : matchTask a j' with
            | error c => simp [hm] at htk
            | ok tk' => simp only [hm, Option.some.injEq, Prod.mk.injEq] at htk; obtain ⟨rfl, rfl⟩ := htk; exact ⟨rfl, hm⟩
        refine ⟨.job j, dkind (isDynamic j) a.ty, tk.demand, ?_, ?_, ?_, ?_, ?_⟩
        · simp [activityType, hsh, hty, hj.1]
        · simp [demandOf, hj.2]
        · simp [dkind, hty]; split <;> simp
        · intro d
          simp only [actDelta, htk, hty, dkind, lget]
          split <;> simp [deltaOf]
        · intro h; rcases h with h | h <;> simp [hty] at h
    | delivery =>
      simp only [hty] at hka
      cases htk : taskOf P a with
      | none => simp [htk] at hka
      | some jt =>
        obtain ⟨j, tk⟩ := jt
        have hj : findJob P a.jobId = some j ∧ matchTask a j = .ok tk := by
          unfold taskOf at htk
          cases hf : findJob P a.jobId with
          | none => simp [hf] at htk
          | some j' =>
            simp only [hf] at htk
            cases hm : matchTask a j' with
            | error c => simp [hm] at htk
            | ok tk' => simp only [hm, Option.some.injEq, Prod.mk.injEq] at htk; obtain ⟨rfl, rfl⟩ := htk; exact ⟨rfl, hm⟩
        refine ⟨.job j, dkind (isDynamic j) a.ty, tk.demand, ?_, ?_, ?_, ?_, ?_⟩
        · simp [activityType, hsh, hty, hj.1]
        · simp [demandOf, hj.2]
        · simp [dkind, hty]; split <;> simp
        · intro d
          simp only [actDelta, htk, hty, dkind, lget]
          split <;> simp [deltaOf]
        · intro h; rcases h with h | h <;> simp [hty] at h
    | service =>
      simp only [hty] at hka
      cases htk : taskOf P a with
      | none => simp [htk] at hka
      | some jt =>
        obtain ⟨j, tk⟩ := jt
        have hj : findJob P a.jobId = some j ∧ matchTask a j = .ok tk := by
          unfold taskOf at htk
          cases hf : findJob P a.jobId with
          | none => simp [hf] at htk
          | some j' =>
            simp only [hf] at htk
            cases hm : matchTask a j' with
            | error c => simp [hm] at htk
            | ok tk' => simp only [hm, Option.some.injEq, Prod.mk.injEq] at htk; obtain ⟨rfl, rfl⟩ := htk; exact ⟨rfl, hm⟩
        refine ⟨.job j, dkind (isDynamic j) a.ty, tk.demand, ?_, ?_, ?_, ?_, ?_⟩
        · simp [activityType, hsh, hty, hj.1]
        · simp [demandOf, hj.2]
        · simp [dkind, hty]
        · intro d
          rw [actDelta_nonjob P a d (by simp [hty]) (by simp [hty])]
          simp [dkind, hty, deltaOf]
        · intro h; rcases h with h | h <;> simp [hty] at h

end C12

namespace C12
open Spec

theorem sumInt_append (a b : List Int) : sumInt (a ++ b) = sumInt a + sumInt b := by
  induction a with
  | nil => simp [sumInt]
  | cons x a ih => simp only [List.cons_append, sumInt, ih]; omega

theorem sumStops_append (f : Stop → Int) (a b : List Stop) : sumStops f (a ++ b) = sumStops f a + sumStops f b := by
  simp [sumStops, sumInt_append]

theorem sumStops_cons (f : Stop → Int) (x : Stop) (l : List Stop) : sumStops f (x :: l) = f x + sumStops f l := by
  simp [sumStops, sumInt]

theorem sumStops_nil (f : Stop → Int) : sumStops f [] = 0 := by simp [sumStops, sumInt]

/-- sums over the activities of an interval are sums over its stops -/
theorem sum_stopActs (g : Act → Int) (iv : List Stop) :
    sumInt ((stopActs iv).map (fun p => g p.2)) = sumStops (fun s => sumInt (s.acts.map g)) iv := by
  induction iv with
  | nil => simp [stopActs, sumStops, sumInt]
  | cons s rest ih =>
    simp only [stopActs, List.flatMap_cons, List.map_append, sumInt_append, sumStops_cons] at ih ⊢
    rw [ih]
    simp [List.map_map, Function.comp_def]

/-- the `(start_delivery, end_pickup)` fold adds up the static deliveries and the static pickups -/
theorem sumsGo_ok (P : Problem) (t : Tour) (L : List (Stop × Act)) (acc : Load × Load)
    (hc : ∀ p ∈ L, ActCorr P t p.1 p.2) :
    ∃ r, sumsGo P t acc L = .ok r ∧
      (∀ d, lget r.1 d = lget acc.1 d + sumInt (L.map (fun p => (actDelta P p.2 d).1))) ∧
      (∀ d, lget r.2 d = lget acc.2 d + sumInt (L.map (fun p => (actDelta P p.2 d).2.1))) := by
  induction L generalizing acc with
  | nil => exact ⟨acc, rfl, by simp [sumInt], by simp [sumInt]⟩
  | cons p rest ih =>
    obtain ⟨s, a⟩ := p
    obtain ⟨aty, k, dem, hat, hdem, hnb, hdelta, _⟩ := hc (s, a) (by simp)
    simp only [sumsGo, hat, hdem]
    cases k with
    | sBoth => exact absurd rfl hnb
    | sDelivery =>
      obtain ⟨r, hr, h1, h2⟩ := ih (ladd acc.1 dem, acc.2) (fun p hp => hc p (by simp [hp]))
      refine ⟨r, hr, ?_, ?_⟩
      · intro d; rw [h1 d]; simp only [List.map_cons, sumInt, hdelta d, deltaOf, lget_ladd]; omega
      · intro d; rw [h2 d]; simp only [List.map_cons, sumInt, hdelta d, deltaOf]; omega
    | sPickup =>
      obtain ⟨r, hr, h1, h2⟩ := ih (acc.1, ladd acc.2 dem) (fun p hp => hc p (by simp [hp]))
      refine ⟨r, hr, ?_, ?_⟩
      · intro d; rw [h1 d]; simp only [List.map_cons, sumInt, hdelta d, deltaOf]; omega
      · intro d; rw [h2 d]; simp only [List.map_cons, sumInt, hdelta d, deltaOf, lget_ladd]; omega
    | none =>
      obtain ⟨r, hr, h1, h2⟩ := ih acc (fun p hp => hc p (by simp [hp]))
      refine ⟨r, hr, ?_, ?_⟩
      · intro d; rw [h1 d]; simp only [List.map_cons, sumInt, hdelta d, deltaOf]; omega
      · intro d; rw [h2 d]; simp only [List.map_cons, sumInt, hdelta d, deltaOf]; omega
    | dPickup =>
      obtain ⟨r, hr, h1, h2⟩ := ih acc (fun p hp => hc p (by simp [hp]))
      refine ⟨r, hr, ?_, ?_⟩
      · intro d; rw [h1 d]; simp only [List.map_cons, sumInt, hdelta d, deltaOf]; omega
      · intro d; rw [h2 d]; simp only [List.map_cons, sumInt, hdelta d, deltaOf]; omega
    | dDelivery =>
      obtain ⟨r, hr, h1, h2⟩ := ih acc (fun p hp => hc p (by simp [hp]))
      refine ⟨r, hr, ?_, ?_⟩
      · intro d; rw [h1 d]; simp only [List.map_cons, sumInt, hdelta d, deltaOf]; omega
      · intro d; rw [h2 d]; simp only [List.map_cons, sumInt, hdelta d, deltaOf]; omega

/-- net change of the load by a list of activities, per dimension -/
def netOf (P : Problem) (d : Nat) (acts : List Act) : Int :=
  - sumInt (acts.map (fun a => (actDelta P a d).1)) + sumInt (acts.map (fun a => (actDelta P a d).2.1))
  + sumInt (acts.map (fun a => (actDelta P a d).2.2))

theorem netOf_cons (P : Problem) (d : Nat) (a : Act) (acts : List Act) :
    netOf P d (a :: acts) = (- (actDelta P a d).1 + (actDelta P a d).2.1 + (actDelta P a d).2.2) + netOf P d acts := by
  simp only [netOf, List.map_cons, sumInt]; omega

/-- the `start_load` fold -/
theorem startGo_ok (P : Problem) (t : Tour) (s0 : Stop) (acts : List Act) (acc : Load)
    (hc : ∀ a ∈ acts, ActCorr P t s0 a) :
    ∃ r, startGo P t s0 acc acts = .ok r ∧ ∀ d, lget r d = lget acc d + netOf P d acts := by
  induction acts generalizing acc with
  | nil => exact ⟨acc, rfl, by simp [netOf, sumInt]⟩
  | cons a rest ih =>
    obtain ⟨aty, k, dem, hat, hdem, hnb, hdelta, _⟩ := hc a (by simp)
    simp only [startGo, hat, hdem]
    cases k with
    | sBoth => exact absurd rfl hnb
    | sDelivery =>
      obtain ⟨r, hr, h1⟩ := ih (lsub acc dem) (fun a ha => hc a (by simp [ha]))
      exact ⟨r, hr, fun d => by rw [h1 d, netOf_cons, hdelta d]; simp only [deltaOf, lget_lsub]; omega⟩
    | dDelivery =>
      obtain ⟨r, hr, h1⟩ := ih (lsub acc dem) (fun a ha => hc a (by simp [ha]))
      exact ⟨r, hr, fun d => by rw [h1 d, netOf_cons, hdelta d]; simp only [deltaOf, lget_lsub]; omega⟩
    | sPickup =>
      obtain ⟨r, hr, h1⟩ := ih (ladd acc dem) (fun a ha => hc a (by simp [ha]))
      exact ⟨r, hr, fun d => by rw [h1 d, netOf_cons, hdelta d]; simp only [deltaOf, lget_ladd]; omega⟩
    | dPickup =>
      obtain ⟨r, hr, h1⟩ := ih (ladd acc dem) (fun a ha => hc a (by simp [ha]))
      exact ⟨r, hr, fun d => by rw [h1 d, netOf_cons, hdelta d]; simp only [deltaOf, lget_ladd]; omega⟩
    | none =>
      obtain ⟨r, hr, h1⟩ := ih acc (fun a ha => hc a (by simp [ha]))
      exact ⟨r, hr, fun d => by rw [h1 d, netOf_cons, hdelta d]; simp only [deltaOf]; omega⟩

def unloadsOf (acts : List Act) : Int := ((countP (fun a => a.ty == .arrival || a.ty == .reload) acts : Nat) : Int)

/-- the `change` fold of a leg's `to` stop -/
theorem changeGo_ok (P : Problem) (t : Tour) (to : Stop) (ep : Load) (acts : List Act) (acc : Load)
    (hc : ∀ a ∈ acts, ActCorr P t to a) :
    ∃ r, changeGo P t to ep acc acts = .ok r ∧
      ∀ d, lget r d = lget acc d + netOf P d acts - unloadsOf acts * lget ep d := by
  induction acts generalizing acc with
  | nil => exact ⟨acc, rfl, by simp [netOf, sumInt, unloadsOf, countP]⟩
  | cons a rest ih =>
    obtain ⟨aty, k, dem, hat, hdem, hnb, hdelta, hterm⟩ := hc a (by simp)
    simp only [changeGo, hat]
    by_cases hu : (a.ty == ATy.arrival || a.ty == ATy.reload) = true
    · -- tour end / reload: the collected pickups leave
      simp only [hu, if_true]
      have hk : k = .none := hterm (by simpa using hu)
      subst hk
      obtain ⟨r, hr, h1⟩ := ih (lsub acc ep) (fun a ha => hc a (by simp [ha]))
      refine ⟨r, hr, fun d => ?_⟩
      rw [h1 d, netOf_cons, hdelta d]
      simp only [deltaOf, lget_lsub, unloadsOf, countP, hu, if_true]
      have : (((1 + countP (fun a => a.ty == ATy.arrival || a.ty == ATy.reload) rest : Nat) : Int))
          = 1 + ((countP (fun a => a.ty == ATy.arrival || a.ty == ATy.reload) rest : Nat) : Int) := by omega
      rw [this, Int.add_mul]
      omega
    · simp only [hu, Bool.false_eq_true, if_false, hdem]
      have hcnt : unloadsOf (a :: rest) = unloadsOf rest := by simp [unloadsOf, countP, hu]
      cases k with
      | sBoth => exact absurd rfl hnb
      | sDelivery =>
        obtain ⟨r, hr, h1⟩ := ih (lsub acc dem) (fun a ha => hc a (by simp [ha]))
        exact ⟨r, hr, fun d => by rw [h1 d, netOf_cons, hdelta d, hcnt]; simp only [deltaOf, lget_lsub]; omega⟩
      | dDelivery =>
        obtain ⟨r, hr, h1⟩ := ih (lsub acc dem) (fun a ha => hc a (by simp [ha]))
        exact ⟨r, hr, fun d => by rw [h1 d, netOf_cons, hdelta d, hcnt]; simp only [deltaOf, lget_lsub]; omega⟩
      | sPickup =>
        obtain ⟨r, hr, h1⟩ := ih (ladd acc dem) (fun a ha => hc a (by simp [ha]))
        exact ⟨r, hr, fun d => by rw [h1 d, netOf_cons, hdelta d, hcnt]; simp only [deltaOf, lget_ladd]; omega⟩
      | dPickup =>
        obtain ⟨r, hr, h1⟩ := ih (ladd acc dem) (fun a ha => hc a (by simp [ha]))
        exact ⟨r, hr, fun d => by rw [h1 d, netOf_cons, hdelta d, hcnt]; simp only [deltaOf, lget_ladd]; omega⟩
      | none =>
        obtain ⟨r, hr, h1⟩ := ih acc (fun a ha => hc a (by simp [ha]))
        exact ⟨r, hr, fun d => by rw [h1 d, netOf_cons, hdelta d, hcnt]; simp only [deltaOf]; omega⟩

/-- consecutive stops of an interval differ by the net change of the later stop, minus the pickups per unloading -/
def LoadChain (P : Problem) (ep : Load) : Stop → List Stop → Prop
  | _, [] => True
  | x, y :: rest =>
    (∀ d, lget y.load d = lget x.load d + netOf P d y.acts - unloadsOf y.acts * lget ep d) ∧ LoadChain P ep y rest

/-- the leg fold accepts a chain of fitting, non-empty loads that starts at the expected start load -/
theorem legsGo_ok (P : Problem) (t : Tour) (cap ep : Load) (acc : Load) (from_ : Stop) (rest : List Stop)
    (hc : ∀ s ∈ rest, ∀ a ∈ s.acts, ActCorr P t s a)
    (hfit : ∀ s ∈ from_ :: rest, lfit cap s.load = true) (hne : ∀ s ∈ from_ :: rest, s.load ≠ [])
    (hacc : ∀ d, lget from_.load d = lget acc d) (hchain : LoadChain P ep from_ rest) :
    ∃ r, legsGo P t cap ep acc from_ rest = .ok r ∧
      ∀ d, lget r d = lget ((from_ :: rest).getLast (by simp)).load d := by
  induction rest generalizing acc from_ with
  | nil => exact ⟨acc, rfl, fun d => by simp [hacc d]⟩
  | cons to rest ih =>
    obtain ⟨hstep, hrest⟩ := hchain
    have hf1 := hfit from_ (by simp)
    have hf2 := hfit to (by simp)
    obtain ⟨ch, hch, hchd⟩ := changeGo_ok P t to ep to.acts [] (hc to (by simp))
    have hl1 : leq from_.load acc = true := by
      rw [leq_iff]
      exact ⟨fun h => hne from_ (by simp) h.1, hacc⟩
    have hl2 : leq to.load (ladd from_.load ch) = true := by
      rw [leq_iff]
      refine ⟨fun h => hne to (by simp) h.1, fun d => ?_⟩
      rw [lget_ladd, hchd d, hstep d, lget_nil]
      omega
    obtain ⟨r, hr, hrd⟩ := ih to.load to (fun s hs => hc s (by simp [hs])) (fun s hs => hfit s (by simp [hs]))
      (fun s hs => hne s (by simp [hs])) (fun _ => rfl) hrest
    refine ⟨r, ?_, ?_⟩
    · simp only [legsGo, hf1, hf2, Bool.not_true, Bool.or_self, Bool.false_eq_true, if_false, hch, hl1, hl2,
        Bool.and_self, if_true]
      exact hr
    · intro d
      rw [hrd d]
      simp [List.getLast_cons]

end C12

namespace C12
open Spec

theorem drop_succ_pre {α} (pre : List α) (x : α) (l : List α) : (pre ++ x :: l).drop (pre.length + 1) = l := by
  induction pre with
  | nil => simp
  | cons p pre ih => simpa using ih

theorem take_succ_pre {α} (pre : List α) (x : α) (l : List α) : (pre ++ x :: l).take (pre.length + 1) = pre ++ [x] := by
  induction pre with
  | nil => simp
  | cons p pre ih => simpa using ih

theorem getElem?_pre {α} (pre : List α) (x : α) (l : List α) : (pre ++ x :: l)[pre.length]? = some x := by
  induction pre with
  | nil => simp
  | cons p pre ih => simpa using ih

theorem netOf_stop (P : Problem) (d : Nat) (s : Stop) :
    netOf P d s.acts = - stopD P d s + stopP P d s + stopY P d s := by
  simp [netOf, stopD, stopP, stopY]

theorem unloadsOf_stop (s : Stop) : unloadsOf s.acts = unloads s := rfl

/-- the positional formula moves from one stop of an interval to the next by the net change of that next stop, minus
the interval's pickups per unloading activity in it -/
theorem expectedLoad_step (P : Problem) (dynB : Nat → Int) (pre post : List Stop) (x y : Stop) (d : Nat) :
    expectedLoad P dynB (pre ++ x :: y :: post) (pre.length + 1) d
      = expectedLoad P dynB (pre ++ x :: y :: post) pre.length d + netOf P d y.acts
        - unloads y * sumStops (stopP P d) (pre ++ x :: y :: post) := by
  have e1 : (pre ++ x :: y :: post).drop (pre.length + 1) = y :: post := drop_succ_pre pre x (y :: post)
  have e2 : (pre ++ x :: y :: post).drop (pre.length + 1 + 1) = post := by
    have := drop_succ_pre (pre ++ [x]) y post
    simpa using this
  have e3 : (pre ++ x :: y :: post).take (pre.length + 1) = pre ++ [x] := take_succ_pre pre x (y :: post)
  have e4 : (pre ++ x :: y :: post).take (pre.length + 1 + 1) = (pre ++ [x]) ++ [y] := by
    have := take_succ_pre (pre ++ [x]) y post
    simpa using this
  have e5 : ((pre ++ [x]) ++ [y]).drop 1 = (pre ++ [x]).drop 1 ++ [y] := by
    cases pre <;> simp
  unfold expectedLoad
  rw [e1, e2, e3, e4, e5]
  simp only [sumStops_append, sumStops_cons, sumStops_nil, netOf_stop]
  generalize sumStops (stopP P d) pre + (stopP P d x + (stopP P d y + sumStops (stopP P d) post)) = SP
  rw [Int.mul_add, Int.mul_add, Int.mul_comm (unloads y) SP]
  omega

theorem le_maxNat (l : List Nat) (x : Nat) (h : x ∈ l) : x ≤ maxNat l := by
  induction l with
  | nil => simp at h
  | cons y rest ih =>
    simp only [maxNat, List.mem_cons] at *
    rcases h with rfl | h
    · omega
    · have := ih h; omega

theorem matchTask_mem (a : Act) (j : Job) (tk : Task) (h : matchTask a j = .ok tk) : tk ∈ j.tasks := by
  unfold matchTask at h
  simp only at h
  split at h
  · cases hk : kindOfTy a.ty with
    | none => simp [hk] at h
    | some k =>
      simp only [hk, Option.bind_some] at h
      cases hh : (tasksOf j k).head? with
      | none => simp [hh] at h
      | some t0 =>
        simp only [hh] at h
        have : t0 = tk := by simpa using h
        subst this
        have := List.mem_of_head? hh
        exact (List.mem_filter.1 this).1
  · cases htag : a.tag with
    | none => simp [htag] at h
    | some tg =>
      simp only [htag] at h
      cases hk : kindOfTy a.ty with
      | none => simp [hk] at h
      | some k =>
        simp only [hk, Option.bind_some] at h
        cases hh : (tasksOf j k).find? (fun t => t.places.any (fun p => p.tag == some tg)) with
        | none => simp [hh] at h
        | some t0 =>
          simp only [hh] at h
          have : t0 = tk := by simpa using h
          subst this
          have := List.mem_of_find?_eq_some hh
          exact (List.mem_filter.1 this).1

/-- beyond the dimensions in play nothing changes the load -/
theorem actDelta_zero_beyond (P : Problem) (v : VType) (a : Act) (d : Nat) (hd : dims P v ≤ d) :
    actDelta P a d = (0, 0, 0) := by
  unfold actDelta
  cases htk : taskOf P a with
  | none => rfl
  | some jt =>
    obtain ⟨j, tk⟩ := jt
    have hmem : findJob P a.jobId = some j ∧ matchTask a j = .ok tk := by
      unfold taskOf at htk
      cases hf : findJob P a.jobId with
      | none => simp [hf] at htk
      | some j' =>
        simp only [hf] at htk
        cases hm : matchTask a j' with
        | error c => simp [hm] at htk
        | ok tk' => simp only [hm, Option.some.injEq, Prod.mk.injEq] at htk; obtain ⟨rfl, rfl⟩ := htk; exact ⟨rfl, hm⟩
    have hj := (findJob_some P _ j hmem.1).1
    have htm := matchTask_mem a j tk hmem.2
    have hlen : tk.demand.length ≤ d := by
      have : tk.demand.length ∈ P.jobs.flatMap (fun j => j.tasks.map (fun tk => tk.demand.length)) :=
        List.mem_flatMap.2 ⟨j, hj, List.mem_map.2 ⟨tk, htm, rfl⟩⟩
      have := le_maxNat _ _ this
      unfold dims at hd
      omega
    have hx : tk.demand.getD d 0 = 0 := by
      rw [List.getD_eq_getElem?_getD, List.getElem?_eq_none hlen]; rfl
    simp only [hx]
    cases a.ty <;> simp <;> split <;> rfl

theorem sumStops_zero (f : Stop → Int) (l : List Stop) (h : ∀ s, f s = 0) : sumStops f l = 0 := by
  induction l with
  | nil => exact sumStops_nil f
  | cons x rest ih => rw [sumStops_cons, h x, ih]; rfl

theorem stop_sums_zero_beyond (P : Problem) (v : VType) (d : Nat) (hd : dims P v ≤ d) (s : Stop) :
    stopD P d s = 0 ∧ stopP P d s = 0 ∧ stopY P d s = 0 := by
  have hz : ∀ (g : Int × Int × Int → Int), g (0, 0, 0) = 0 → sumInt (s.acts.map (fun a => g (actDelta P a d))) = 0 := by
    intro g hg
    induction s.acts with
    | nil => rfl
    | cons a rest ih => simp only [List.map_cons, sumInt, actDelta_zero_beyond P v a d hd, hg, ih]; rfl
  exact ⟨hz (fun x => x.1) rfl, hz (fun x => x.2.1) rfl, hz (fun x => x.2.2) rfl⟩

theorem expectedLoad_beyond (P : Problem) (v : VType) (dynB : Nat → Int) (iv : List Stop) (m d : Nat)
    (hd : dims P v ≤ d) : expectedLoad P dynB iv m d = dynB d := by
  unfold expectedLoad
  rw [sumStops_zero _ _ (fun s => (stop_sums_zero_beyond P v d hd s).1),
      sumStops_zero _ _ (fun s => (stop_sums_zero_beyond P v d hd s).2.1),
      sumStops_zero _ _ (fun s => (stop_sums_zero_beyond P v d hd s).2.2),
      sumStops_zero (stopP P d) iv (fun s => (stop_sums_zero_beyond P v d hd s).2.1)]
  simp

/-- what the per-stop rule of the specification gives for ALL dimensions -/
theorem stopLoadOk_unpack (P : Problem) (v : VType) (dynB : Nat → Int) (iv : List Stop) (m : Nat) (s : Stop)
    (hz : ∀ d, dims P v ≤ d → dynB d = 0) (h : stopLoadOk P v.capacity (dims P v) dynB iv m s = true) :
    s.load ≠ [] ∧ (∀ d, lget s.load d = expectedLoad P dynB iv m d) ∧ lfit v.capacity s.load = true := by
  simp only [stopLoadOk, Bool.and_eq_true, Bool.not_eq_true', decide_eq_true_eq, List.all_eq_true, List.mem_range,
    beq_iff_eq] at h
  obtain ⟨⟨hne, hlen⟩, hall⟩ := h
  refine ⟨?_, ?_, ?_⟩
  · intro hnil; rw [hnil] at hne; simp at hne
  · intro d
    by_cases hd : d < dims P v
    · exact (hall d hd).1
    · have hd' : dims P v ≤ d := by omega
      rw [expectedLoad_beyond P v dynB iv m d hd', hz d hd']
      unfold lget
      rw [List.getD_eq_getElem?_getD, List.getElem?_eq_none (by omega)]; rfl
  · rw [lfit_iff]
    intro d
    by_cases hd : d < dims P v
    · exact (hall d hd).2
    · have hd' : dims P v ≤ d := by omega
      have h1 : lget s.load d = 0 := by
        unfold lget
        rw [List.getD_eq_getElem?_getD, List.getElem?_eq_none (by omega)]; rfl
      have h2 : lget v.capacity d = 0 := by
        unfold lget
        have : v.capacity.length ≤ d := by unfold dims at hd'; omega
        rw [List.getD_eq_getElem?_getD, List.getElem?_eq_none this]; rfl
      omega

/-- from the positional rule to the chain of consecutive stops -/
theorem loadChain_of_positional (P : Problem) (v : VType) (dynB : Nat → Int) (ep : Load) (pre : List Stop) (x : Stop)
    (rest : List Stop)
    (hep : ∀ d, lget ep d = sumStops (stopP P d) (pre ++ x :: rest))
    (hpos : ∀ m s, (pre ++ x :: rest)[m]? = some s → ∀ d, lget s.load d = expectedLoad P dynB (pre ++ x :: rest) m d) :
    LoadChain P ep x rest := by
  induction rest generalizing pre x with
  | nil => trivial
  | cons y post ih =>
    refine ⟨?_, ?_⟩
    · intro d
      have hx := hpos pre.length x (getElem?_pre pre x (y :: post)) d
      have hy := hpos (pre.length + 1) y (by
        have := getElem?_pre (pre ++ [x]) y post
        simpa using this) d
      rw [hy, hx, expectedLoad_step, hep d, unloadsOf_stop]
    · have := ih (pre ++ [x]) y (by simpa using hep) (by simpa using hpos)
      exact this

end C12

namespace C12
open Spec

theorem mem_stopActs (iv : List Stop) (p : Stop × Act) (h : p ∈ stopActs iv) : p.1 ∈ iv ∧ p.2 ∈ p.1.acts := by
  unfold stopActs at h
  rw [List.mem_flatMap] at h
  obtain ⟨s, hs, hp⟩ := h
  rw [List.mem_map] at hp
  obtain ⟨a, ha, rfl⟩ := hp
  exact ⟨hs, ha⟩

theorem intervalLoadsOk_at (P : Problem) (cap : Load) (nd : Nat) (dynB : Nat → Int) (iv : List Stop)
    (h : intervalLoadsOk P cap nd dynB iv = true) (m : Nat) (s : Stop) (hm : iv[m]? = some s) :
    stopLoadOk P cap nd dynB iv m s = true := by
  unfold intervalLoadsOk at h
  rw [List.all_eq_true] at h
  have hlt : m < iv.length := by
    by_cases hlt : m < iv.length
    · exact hlt
    · rw [List.getElem?_eq_none (by omega)] at hm; simp at hm
  have := h m (List.mem_range.2 hlt)
  simpa [hm] using this

theorem mem_of_getElem?_some {α} (l : List α) (m : Nat) (x : α) (h : l[m]? = some x) : x ∈ l :=
  List.mem_of_getElem? h

/-- one reload interval: the three folds of the code succeed on loads that obey the positional rule, and hand over
what the rule says stays on board -/
theorem interval_ok (P : Problem) (t : Tour) (v : VType) (dynB : Nat → Int) (acc : Load) (s0 : Stop) (tl : List Stop)
    (hc : ∀ s ∈ s0 :: tl, ∀ a ∈ s.acts, ActCorr P t s a)
    (hacc : ∀ d, lget acc d = dynB d) (hz : ∀ d, dims P v ≤ d → dynB d = 0)
    (hspec : intervalLoadsOk P v.capacity (dims P v) dynB (s0 :: tl) = true) :
    ∃ sd ep sl endCap, sumsGo P t (acc, []) (stopActs (s0 :: tl)) = .ok (sd, ep) ∧
      startGo P t s0 sd s0.acts = .ok sl ∧ legsGo P t v.capacity ep sl s0 tl = .ok endCap ∧
      ∀ d, lget (lsub endCap ep) d = carryAfter P dynB (s0 :: tl) d := by
  have hat : ∀ m s, (s0 :: tl)[m]? = some s →
      s.load ≠ [] ∧ (∀ d, lget s.load d = expectedLoad P dynB (s0 :: tl) m d) ∧ lfit v.capacity s.load = true :=
    fun m s hm => stopLoadOk_unpack P v dynB (s0 :: tl) m s hz (intervalLoadsOk_at P _ _ dynB _ hspec m s hm)
  have hmemIdx : ∀ s ∈ s0 :: tl, ∃ m : Nat, (s0 :: tl)[m]? = some s := by
    intro s hs
    obtain ⟨m, hm, rfl⟩ := List.mem_iff_getElem.1 hs
    exact ⟨m, by simp [hm]⟩
  -- sums
  obtain ⟨r, hr, h1, h2⟩ := sumsGo_ok P t (stopActs (s0 :: tl)) (acc, [])
    (fun p hp => hc p.1 (mem_stopActs _ p hp).1 p.2 (mem_stopActs _ p hp).2)
  obtain ⟨sd, ep⟩ := r
  simp only at h1 h2
  have hsd : ∀ d, lget sd d = dynB d + sumStops (stopD P d) (s0 :: tl) := by
    intro d
    rw [h1 d, hacc d, sum_stopActs (fun a => (actDelta P a d).1)]
    rfl
  have hep : ∀ d, lget ep d = sumStops (stopP P d) (s0 :: tl) := by
    intro d
    rw [h2 d, lget_nil, sum_stopActs (fun a => (actDelta P a d).2.1)]
    simp only [Int.zero_add]
    rfl
  -- start load
  obtain ⟨sl, hsl, hsld⟩ := startGo_ok P t s0 s0.acts sd (hc s0 (by simp))
  -- legs
  have hacc0 : ∀ d, lget s0.load d = lget sl d := by
    intro d
    rw [(hat 0 s0 (by simp)).2.1 d, hsld d, hsd d, netOf_stop]
    unfold expectedLoad
    simp only [Nat.zero_add, List.drop_succ_cons, List.drop_zero, List.take_succ_cons, List.take_zero, List.drop_nil,
      sumStops_cons, sumStops_nil]
    omega
  obtain ⟨endCap, hlegs, hend⟩ := legsGo_ok P t v.capacity ep sl s0 tl (fun s hs => hc s (by simp [hs]))
    (fun s hs => by obtain ⟨m, hm⟩ := hmemIdx s hs; exact (hat m s hm).2.2)
    (fun s hs => by obtain ⟨m, hm⟩ := hmemIdx s hs; exact (hat m s hm).1)
    hacc0
    (loadChain_of_positional P v dynB ep [] s0 tl (by simpa using hep)
      (by intro m s hm d; exact (hat m s (by simpa using hm)).2.1 d))
  refine ⟨sd, ep, sl, endCap, hr, hsl, hlegs, ?_⟩
  intro d
  rw [lget_lsub, hend d, hep d]
  unfold carryAfter
  have hlast : (s0 :: tl)[(s0 :: tl).length - 1]? = some ((s0 :: tl).getLast (by simp)) := by
    rw [List.getLast_eq_getElem]
    simp
  rw [(hat _ _ hlast).2.1 d]

theorem carryAfter_beyond (P : Problem) (v : VType) (dynB : Nat → Int) (iv : List Stop) (d : Nat)
    (hd : dims P v ≤ d) (hz : dynB d = 0) : carryAfter P dynB iv d = 0 := by
  unfold carryAfter
  rw [expectedLoad_beyond P v dynB iv _ d hd, hz,
      sumStops_zero (stopP P d) iv (fun s => (stop_sums_zero_beyond P v d hd s).2.1)]
  rfl

/-- all reload intervals of a tour -/
theorem intervalsGo_ok (P : Problem) (t : Tour) (v : VType) (ivs : List (List Stop)) (dynB : Nat → Int) (acc : Load)
    (hlen : ∀ iv ∈ ivs, 2 ≤ iv.length)
    (hc : ∀ iv ∈ ivs, ∀ s ∈ iv, ∀ a ∈ s.acts, ActCorr P t s a)
    (hacc : ∀ d, lget acc d = dynB d) (hz : ∀ d, dims P v ≤ d → dynB d = 0)
    (hspec : intervalsLoadsOk P v.capacity (dims P v) dynB ivs = true) :
    intervalsGo P t v.capacity acc ivs = .ok () := by
  induction ivs generalizing dynB acc with
  | nil => rfl
  | cons iv rest ih =>
    simp only [intervalsLoadsOk, Bool.and_eq_true] at hspec
    cases hiv : iv with
    | nil => have := hlen iv (by simp); rw [hiv] at this; simp at this
    | cons s0 tl =>
      rw [hiv] at hspec
      obtain ⟨sd, ep, sl, endCap, hs, hst, hl, hcarry⟩ :=
        interval_ok P t v dynB acc s0 tl (by rw [← hiv]; exact hc iv (by simp)) hacc hz hspec.1
      simp only [intervalsGo, hs, hst, hl]
      exact ih (carryAfter P dynB (s0 :: tl)) (lsub endCap ep)
        (fun iv' h' => hlen iv' (by simp [h'])) (fun iv' h' => hc iv' (by simp [h']))
        hcarry (fun d hd => carryAfter_beyond P v dynB _ d hd (hz d hd)) hspec.2

/-! ## shared reload resources (`check_resource_consumption`) against "per resource and dimension, the tours together
load at most the capacity" -/

theorem dkind_sDelivery (b : Bool) (ty : ATy) (h : dkind b ty = .sDelivery) : ty = .delivery := by
  cases ty <;> cases b <;> simp [dkind] at h ⊢

/-- only a delivery activity adds to the consumption in the code ... -/
theorem staticDeliveryOf_nondelivery (P : Problem) (t : Tour) (s : Stop) (a : Act) (h : a.ty ≠ .delivery) :
    staticDeliveryOf P t (s, a) = [] := by
  unfold staticDeliveryOf
  cases hat : activityType P t s a with
  | error c => rfl
  | ok aty =>
    simp only
    cases hd : demandOf a aty with
    | error c => rfl
    | ok kd =>
      obtain ⟨k, dem⟩ := kd
      have hk : k ≠ .sDelivery := by
        intro hk
        subst hk
        cases aty with
        | job j =>
          simp only [demandOf] at hd
          cases hm : matchTask a j with
          | error c => simp [hm] at hd
          | ok tk =>
            simp only [hm, Except.ok.injEq, Prod.mk.injEq] at hd
            exact h (dkind_sDelivery _ _ hd.1)
        | terminal => simp only [demandOf, Except.ok.injEq, Prod.mk.injEq] at hd; exact h (dkind_sDelivery _ _ hd.1)
        | brk b => simp only [demandOf, Except.ok.injEq, Prod.mk.injEq] at hd; exact h (dkind_sDelivery _ _ hd.1)
        | reload r => simp only [demandOf, Except.ok.injEq, Prod.mk.injEq] at hd; exact h (dkind_sDelivery _ _ hd.1)
      cases k <;> first | rfl | exact absurd rfl hk

/-- ... and in the specification -/
theorem actDelta_fst_nondelivery (P : Problem) (a : Act) (d : Nat) (h : a.ty ≠ .delivery) : (actDelta P a d).1 = 0 := by
  unfold actDelta
  cases taskOf P a with
  | none => rfl
  | some jt =>
    obtain ⟨j, tk⟩ := jt
    cases hty : a.ty <;> simp_all <;> split <;> rfl

/-- per activity: what the code adds to the consumption of an interval is the specification's static delivery -/
theorem staticDeliveryOf_eq (P : Problem) (t : Tour) (sh : Shift) (hsh : vehicleShift P t = .ok sh) (s : Stop) (a : Act)
    (d : Nat) : lget (staticDeliveryOf P t (s, a)) d = (actDelta P a d).1 := by
  by_cases hty : a.ty = .delivery
  · unfold staticDeliveryOf
    simp only [activityType, hsh, hty]
    cases hf : findJob P a.jobId with
    | none => simp [actDelta, taskOf, hf, lget]
    | some j =>
      simp only [demandOf]
      cases hm : matchTask a j with
      | error c => simp [actDelta, taskOf, hf, hm, lget]
      | ok tk =>
        simp only [dkind, hty, actDelta, taskOf, hf, hm]
        cases isDynamic j <;> simp [lget]
  · rw [staticDeliveryOf_nondelivery P t s a hty, actDelta_fst_nondelivery P a d hty]; rfl

theorem foldl_ladd_lget {α} (f : α → Load) (L : List α) (acc : Load) (d : Nat) :
    lget (L.foldl (fun acc p => ladd acc (f p)) acc) d = lget acc d + sumInt (L.map (fun p => lget (f p) d)) := by
  induction L generalizing acc with
  | nil => simp [sumInt]
  | cons x rest ih => simp only [List.foldl_cons, ih, lget_ladd, List.map_cons, sumInt]; omega

/-- the consumption fold of one interval adds up the static deliveries of its stops -/
theorem consumptionOf_eq (P : Problem) (t : Tour) (sh : Shift) (hsh : vehicleShift P t = .ok sh) (iv : List Stop) (d : Nat) :
    lget (consumptionOf P t iv) d = sumStops (stopD P d) iv := by
  unfold consumptionOf
  rw [foldl_ladd_lget, lget_nil, Int.zero_add]
  have : (stopActs iv).map (fun p => lget (staticDeliveryOf P t p) d)
       = (stopActs iv).map (fun p => (fun a => (actDelta P a d).1) p.2) := by
    apply List.map_congr_left
    intro p _
    exact staticDeliveryOf_eq P t sh hsh p.1 p.2 d
  rw [this]
  exact sum_stopActs (fun a => (actDelta P a d).1) iv

theorem activityType_reload (P : Problem) (t : Tour) (s : Stop) (a : Act) (r : Place)
    (h : activityType P t s a = .ok (.reload r)) : a.ty = .reload := by
  unfold activityType at h
  cases hsh : vehicleShift P t with
  | error c => simp [hsh] at h
  | ok shift =>
    simp only [hsh] at h
    cases hty : a.ty <;> simp only [hty] at h <;> first | rfl | (split at h <;> simp at h) | simp at h

/-- the closure of `resourceIdOf` -/
def ridF (P : Problem) (t : Tour) (s0 : Stop) (a : Act) : Option String :=
  match activityType P t s0 a with
  | .ok (.reload r) => r.resource
  | _ => none

theorem ridF_nonreload (P : Problem) (t : Tour) (s0 : Stop) (a : Act) (h : a.ty ≠ .reload) : ridF P t s0 a = none := by
  unfold ridF
  split
  · rename_i r hat; exact absurd (activityType_reload P t s0 a r hat) h
  · rfl

theorem ridF_reload (P : Problem) (t : Tour) (sh : Shift) (hsh : vehicleShift P t = .ok sh) (s0 : Stop) (a : Act)
    (h : a.ty = .reload) :
    ridF P t s0 a = (sh.reloads.find? (fun r => r.loc == actLoc s0 a && r.tag == a.tag)).bind (fun r => r.resource) := by
  unfold ridF
  simp only [activityType, hsh, h]
  cases sh.reloads.find? (fun r => r.loc == actLoc s0 a && r.tag == a.tag) with
  | none => rfl
  | some r => rfl

/-- the resource an interval draws on: the code scans the activities of the first stop, the specification looks at the
reload that opens it; they agree when a reload is only ever the first activity of its stop -/
theorem resourceIdOf_eq (P : Problem) (t : Tour) (sh : Shift) (hsh : vehicleShift P t = .ok sh) (hso : shiftOf P t = some sh)
    (s0 : Stop) (tl : List Stop) (hfirst : ∀ a ∈ s0.acts.drop 1, a.ty ≠ .reload) :
    resourceIdOf P t s0 = drawsOn P t (s0 :: tl) := by
  have h1 : resourceIdOf P t s0 = s0.acts.findSome? (ridF P t s0) := rfl
  have h2 : drawsOn P t (s0 :: tl) = (match s0.acts.head? with
      | none => none
      | some a => (reloadPlaceOf P t s0 a).bind (fun r => r.resource)) := rfl
  rw [h1, h2]
  cases hacts : s0.acts with
  | nil => rfl
  | cons a rest =>
    have hrest : rest.findSome? (ridF P t s0) = none := by
      rw [List.findSome?_eq_none_iff]
      intro b hb
      exact ridF_nonreload P t s0 b (hfirst b (by simp [hacts, hb]))
    simp only [List.findSome?_cons, List.head?_cons, hrest]
    by_cases hty : a.ty = .reload
    · rw [ridF_reload P t sh hsh s0 a hty]
      simp only [reloadPlaceOf, hty, hso, beq_self_eq_true, if_true, Option.bind_some]
      cases (sh.reloads.find? (fun r => r.loc == actLoc s0 a && r.tag == a.tag)).bind (fun r => r.resource) <;> rfl
    · rw [ridF_nonreload P t s0 a hty]
      simp [reloadPlaceOf, hty]

theorem tourShape_reload_first (P : Problem) (t : Tour) (h : tourShapeOk P t = true) :
    ∀ s ∈ t.stops, ∀ a ∈ s.acts.drop 1, a.ty ≠ .reload := by
  unfold tourShapeOk at h
  cases hst : t.stops with
  | nil => simp [hst] at h
  | cons s0 rest =>
    simp only [hst, Bool.and_eq_true, List.all_eq_true, bne_iff_ne, ne_eq] at h
    obtain ⟨⟨⟨⟨⟨⟨_, _⟩, hC⟩, hD⟩, _⟩, _⟩, _⟩ := h
    intro s hs a ha
    simp only [List.mem_cons] at hs
    rcases hs with rfl | hs
    · exact hC a (List.mem_of_mem_drop ha)
    · exact hD s hs a ha

/-- the stops of every interval are stops of the tour -/
theorem intervals_mem (stops : List Stop) (ivs : List (List Stop)) (h : intervals stops = some ivs) :
    ∀ iv ∈ ivs, ∀ s ∈ iv, s ∈ stops := by
  by_cases h2 : 2 ≤ stops.length
  · obtain ⟨hflat, _⟩ := intervals_cover stops ivs h h2
    intro iv hiv s hs
    rw [← hflat]
    exact List.mem_flatten.2 ⟨iv, hiv, hs⟩
  · have : ivs = [] := by
      unfold intervals at h
      cases hst : stops with
      | nil => rw [hst] at h; simpa using h.symm
      | cons s0 rest =>
        cases rest with
        | nil => rw [hst] at h; simpa using h.symm
        | cons s1 r => rw [hst] at h2; simp at h2
    intro iv hiv
    rw [this] at hiv
    simp at hiv

theorem sumInt_map_zero {α} (l : List α) (f : α → Int) (h : ∀ x ∈ l, f x = 0) : sumInt (l.map f) = 0 := by
  induction l with
  | nil => rfl
  | cons x rest ih =>
    simp only [List.map_cons, sumInt, h x (by simp), ih (fun y hy => h y (by simp [hy]))]
    rfl

theorem sumInt_flatMap {α β} (l : List α) (f : α → List β) (g : β → Int) :
    sumInt ((l.flatMap f).map g) = sumInt (l.map (fun x => sumInt ((f x).map g))) := by
  induction l with
  | nil => rfl
  | cons x rest ih => simp only [List.flatMap_cons, List.map_append, sumInt_append, List.map_cons, sumInt, ih]

/-- the (id, consumption) pairs of a supported tour, filtered by a resource and summed in one dimension, are what the
specification says the tour draws from that resource -/
theorem tourDraws_sum (P : Problem) (t : Tour) (hshape : tourShapeOk P t = true) (hag : shiftAgrees P t = true)
    (id : String) (d : Nat) :
    sumInt (((tourDraws P t).filter (fun p => p.1 == id)).map (fun p => lget p.2 d)) = tourDrawn P t id d := by
  cases hso : shiftOf P t with
  | none => simp [shiftAgrees, hso] at hag
  | some sh =>
    have hsh := shiftAgrees_unpack P t sh hso hag
    unfold tourDraws tourDrawn
    cases hi : intervals t.stops with
    | none => rfl
    | some ivs =>
      simp only
      have hmem := intervals_mem t.stops ivs hi
      have hfirst := tourShape_reload_first P t hshape
      -- induction over any list of intervals made of stops of the tour
      have key : ∀ L : List (List Stop), (∀ iv ∈ L, ∀ s ∈ iv, s ∈ t.stops) →
          sumInt (((L.filterMap (fun iv => match iv with
              | [] => none
              | s0 :: _ => (resourceIdOf P t s0).map (fun id => (id, consumptionOf P t iv)))).filter
                (fun p => p.1 == id)).map (fun p => lget p.2 d))
          = sumInt ((L.filter (fun iv => drawsOn P t iv == some id)).map (fun iv => sumStops (stopD P d) iv)) := by
        intro L
        induction L with
        | nil => intro _; rfl
        | cons iv rest ih =>
          intro hL
          have ihr := ih (fun iv' h' => hL iv' (by simp [h']))
          cases iv with
          | nil =>
            have hd0 : drawsOn P t [] = none := rfl
            simp only [List.filterMap_cons, List.filter_cons, hd0]
            simpa using ihr
          | cons s0 tl =>
            have hid := resourceIdOf_eq P t sh hsh hso s0 tl (hfirst s0 (hL (s0 :: tl) (by simp) s0 (by simp)))
            simp only [List.filterMap_cons, List.filter_cons, hid]
            cases hdr : drawsOn P t (s0 :: tl) with
            | none => simpa using ihr
            | some id' =>
              simp only [Option.map_some, List.filter_cons]
              by_cases heq : id' = id
              · subst heq
                simp only [beq_self_eq_true, if_true, List.map_cons, sumInt, ihr,
                  consumptionOf_eq P t sh hsh (s0 :: tl) d]
              · have h1 : (id' == id) = false := by simpa using heq
                have h2 : (some id' == some id) = false := by simpa using heq
                simp only [h1, h2, Bool.false_eq_true, if_false, ihr]
      exact key ivs hmem

/-- **What the code's hash map holds is what the specification counts**: on supported solutions the consumption the
code accumulates for a resource equals, in every dimension, the static deliveries of all reload intervals (of all
tours) whose opening reload draws on it. -/
theorem consumed_eq_drawn (P : Problem) (S : Solution)
    (hshape : ∀ t ∈ S.tours, tourShapeOk P t = true ∧ shiftAgrees P t = true) (id : String) (d : Nat) :
    lget (consumedOf (allDraws P S) id) d = drawn P S id d := by
  unfold consumedOf allDraws drawn
  rw [foldl_ladd_lget, lget_nil, Int.zero_add, List.filter_flatMap, sumInt_flatMap]
  congr 1
  apply List.map_congr_left
  intro t ht
  exact tourDraws_sum P t (hshape t ht).1 (hshape t ht).2 id d

/-- a resource id the code sees drawn on is drawn on by an interval in the sense of the specification -/
theorem mem_allDraws (P : Problem) (S : Solution)
    (hshape : ∀ t ∈ S.tours, tourShapeOk P t = true ∧ shiftAgrees P t = true) (p : String × Load) (hp : p ∈ allDraws P S) :
    ∃ t ∈ S.tours, ∃ ivs, intervals t.stops = some ivs ∧ ∃ iv ∈ ivs, drawsOn P t iv = some p.1 := by
  unfold allDraws at hp
  obtain ⟨t, ht, hpt⟩ := List.mem_flatMap.1 hp
  refine ⟨t, ht, ?_⟩
  unfold tourDraws at hpt
  cases hi : intervals t.stops with
  | none => simp [hi] at hpt
  | some ivs =>
    refine ⟨ivs, rfl, ?_⟩
    simp only [hi, List.mem_filterMap] at hpt
    obtain ⟨iv, hiv, hf⟩ := hpt
    refine ⟨iv, hiv, ?_⟩
    cases iv with
    | nil => simp at hf
    | cons s0 tl =>
      cases hso : shiftOf P t with
      | none => have := (hshape t ht).2; simp [shiftAgrees, hso] at this
      | some sh =>
        have hsh := shiftAgrees_unpack P t sh hso (hshape t ht).2
        have hfirst := tourShape_reload_first P t (hshape t ht).1
        have hs0 : s0 ∈ t.stops := intervals_mem t.stops ivs hi (s0 :: tl) hiv s0 (by simp)
        rw [← resourceIdOf_eq P t sh hsh hso s0 tl (hfirst s0 hs0)]
        simp only at hf
        cases hr : resourceIdOf P t s0 with
        | none => simp [hr] at hf
        | some id' => simp only [hr, Option.map_some, Option.some.injEq] at hf; rw [← hf]

/-- the specification's part 1 for one interval -/
theorem resourcesOk_defined (P : Problem) (S : Solution) (h : resourcesOk P S = true) (t : Tour) (ht : t ∈ S.tours)
    (ivs : List (List Stop)) (hi : intervals t.stops = some ivs) (iv : List Stop) (hiv : iv ∈ ivs) (id : String)
    (hd : drawsOn P t iv = some id) : ∃ r ∈ P.resources, r.1 = id := by
  simp only [resourcesOk, Bool.and_eq_true, List.all_eq_true] at h
  have := h.1 t ht
  simp only [hi, List.all_eq_true] at this
  have := this iv hiv
  simp only [hd, List.any_eq_true, beq_iff_eq] at this
  exact this

/-- **Completeness of `check_resource_consumption`**: on supported solutions the resource rule of the specification
(every resource drawn on is defined; per resource and dimension the tours together load at most the capacity) implies
that the sub-check accepts. -/
theorem resources_complete (P : Problem) (S : Solution)
    (hshape : ∀ t ∈ S.tours, tourShapeOk P t = true ∧ shiftAgrees P t = true)
    (h : resourcesOk P S = true) : checkResources P S = none := by
  unfold checkResources
  simp only
  rw [if_neg]
  simp only [List.any_eq_true, not_exists, not_and, Bool.not_eq_true]
  intro id hid
  rw [mem_dedup, List.mem_map] at hid
  obtain ⟨p, hp, rfl⟩ := hid
  obtain ⟨t, ht, ivs, hi, iv, hiv, hdr⟩ := mem_allDraws P S hshape p hp
  obtain ⟨r, hr, hrid⟩ := resourcesOk_defined P S h t ht ivs hi iv hiv p.1 hdr
  -- the lookup finds a definition of the resource
  cases hcap : resourceCap P p.1 with
  | none =>
    exfalso
    unfold resourceCap at hcap
    simp only [Option.map_eq_none_iff, List.find?_eq_none, List.mem_reverse] at hcap
    exact hcap r hr (by simp [hrid])
  | some cap =>
    simp only [Bool.not_eq_false']
    have hmemcap : (p.1, cap) ∈ P.resources := by
      unfold resourceCap at hcap
      simp only [Option.map_eq_some_iff] at hcap
      obtain ⟨r', hf, rfl⟩ := hcap
      have hm := List.mem_of_find?_eq_some hf
      have hp' := List.find?_some hf
      simp only [beq_iff_eq] at hp'
      rw [← hp']
      exact List.mem_reverse.1 hm
    rw [lfit_iff]
    intro d
    rw [consumed_eq_drawn P S hshape p.1 d]
    simp only [resourcesOk, Bool.and_eq_true, List.all_eq_true, List.mem_range, decide_eq_true_eq] at h
    by_cases hd : d < rdims P cap
    · exact h.2 (p.1, cap) hmemcap d hd
    · -- beyond the dimensions in play nothing is drawn and the capacity is padded with zero
      have hd' : rdims P cap ≤ d := Nat.le_of_not_lt hd
      let v : VType := { typeId := "", ids := [], profile := 0, scaleNum := 1, scaleDen := 1, shifts := [], capacity := cap,
                         maxDistance := none, maxDuration := none, tourSize := none }
      have hdv : dims P v ≤ d := hd'
      have hz : drawn P S p.1 d = 0 := by
        unfold drawn
        apply sumInt_map_zero
        intro t _
        unfold tourDrawn
        cases intervals t.stops with
        | none => rfl
        | some ivs =>
          simp only
          apply sumInt_map_zero
          intro iv _
          exact sumStops_zero _ _ (fun s => (stop_sums_zero_beyond P v d hdv s).1)
      have hc : lget cap d = 0 := by
        unfold lget
        have : cap.length ≤ d := by unfold rdims at hd'; omega
        rw [List.getD_eq_getElem?_getD, List.getElem?_eq_none this]; rfl
      rw [hz, hc]
      exact Int.le_refl 0

/-- breach *resource overdrawn*, half 1: a resource of the problem from which the tours together draw more than its
capacity in ONE of the dimensions in play violates the specification -/
theorem breach_resource_overdrawn_invalid (P : Problem) (S : Solution) (r : String × Load) (d : Nat)
    (hr : r ∈ P.resources) (hd : d < rdims P r.2) (hover : drawn P S r.1 d > r.2.getD d 0) :
    validSolution P S = false := by
  cases hval : validSolution P S with
  | false => rfl
  | true =>
    exfalso
    have hres := ((valid_iff P S).1 hval).2.2.2.2.2.2.2.2.2
    simp only [resourcesOk, Bool.and_eq_true, List.all_eq_true, List.mem_range, decide_eq_true_eq] at hres
    have := hres.2 r hr d hd
    omega

/-- breach *resource overdrawn*, half 2: on supported solutions a resource that some reload interval draws on and from
which the tours together take more than its capacity in ONE dimension (in the specification's terms) is rejected by the
checker. -/
theorem checker_rejects_resource_overdrawn (P : Problem) (S : Solution)
    (hshape : ∀ t ∈ S.tours, tourShapeOk P t = true ∧ shiftAgrees P t = true)
    (id : String) (cap : Load) (d : Nat) (hcap : resourceCap P id = some cap)
    (hused : ∃ p ∈ allDraws P S, p.1 = id)
    (hover : drawn P S id d > cap.getD d 0) : check P S ≠ [] := by
  apply check_ne_nil_of_group P S .load
  apply groupErrors_ne_nil P S .load (checkResources P S) (by simp [runGroup, checkLoad])
  unfold checkResources
  simp only
  rw [if_pos]
  · simp
  · rw [List.any_eq_true]
    refine ⟨id, ?_, ?_⟩
    · rw [mem_dedup, List.mem_map]
      obtain ⟨p, hp, rfl⟩ := hused
      exact ⟨p, hp, rfl⟩
    · simp only [hcap, Bool.not_eq_true']
      cases hf : lfit cap (consumedOf (allDraws P S) id) with
      | false => rfl
      | true =>
        exfalso
        have := (lfit_iff _ _).1 hf d
        rw [consumed_eq_drawn P S hshape id d] at this
        unfold lget at this
        omega

/-- breach *resource undefined*: a reload interval that draws on a resource the problem does not define violates the
specification, and the checker rejects it -/
theorem breach_resource_undefined_invalid (P : Problem) (S : Solution) (t : Tour) (ht : t ∈ S.tours)
    (ivs : List (List Stop)) (hi : intervals t.stops = some ivs) (iv : List Stop) (hiv : iv ∈ ivs) (id : String)
    (hd : drawsOn P t iv = some id) (hno : ∀ r ∈ P.resources, r.1 ≠ id) : validSolution P S = false := by
  cases hval : validSolution P S with
  | false => rfl
  | true =>
    exfalso
    have hres := ((valid_iff P S).1 hval).2.2.2.2.2.2.2.2.2
    obtain ⟨r, hr, hrid⟩ := resourcesOk_defined P S hres t ht ivs hi iv hiv id hd
    exact hno r hr hrid

theorem checker_rejects_resource_undefined (P : Problem) (S : Solution) (id : String)
    (hused : ∃ p ∈ allDraws P S, p.1 = id) (hno : ∀ r ∈ P.resources, r.1 ≠ id) : check P S ≠ [] := by
  apply check_ne_nil_of_group P S .load
  apply groupErrors_ne_nil P S .load (checkResources P S) (by simp [runGroup, checkLoad])
  unfold checkResources
  simp only
  rw [if_pos]
  · simp
  · rw [List.any_eq_true]
    refine ⟨id, ?_, ?_⟩
    · rw [mem_dedup, List.mem_map]
      obtain ⟨p, hp, rfl⟩ := hused
      exact ⟨p, hp, rfl⟩
    · have : resourceCap P id = none := by
        unfold resourceCap
        simp only [Option.map_eq_none_iff, List.find?_eq_none, List.mem_reverse]
        intro r hr
        simpa using hno r hr
      simp [this]

/-- **Completeness of the load group**: reported loads that equal the positional formula (deliveries still ahead in the
reload interval + pickups collected in it + goods of pickup-and-delivery jobs on board, pickups leaving at the tour end)
and fit the capacity pass the interval fold of `check_vehicle_load_assignment` (start-delivery / end-pickup accounting,
start load of the first stop, leg by leg comparison, carry over reloads). -/
theorem loads_complete (P : Problem) (S : Solution) (h : loadsOk P S = true)
    (hshape : ∀ t ∈ S.tours, tourShapeOk P t = true ∧ shiftAgrees P t = true) (hres : resourcesOk P S = true) :
    ∀ r ∈ checkLoad P S, r = none := by
  intro r hr
  simp only [checkLoad, List.mem_cons, List.mem_nil_iff, or_false] at hr
  rcases hr with rfl | rfl
  · rw [firstErrOf_eq_none]
    intro t ht
    simp only [loadsOk, List.all_eq_true] at h
    have hto := h t ht
    unfold checkLoadTour
    cases hv : findVehicle P t.vehicleId with
    | none => simp [hv] at hto
    | some v =>
      simp only [hv] at hto ⊢
      cases hi : intervals t.stops with
      | none => simp [hi] at hto
      | some ivs =>
        simp only [hi, Bool.and_eq_true, Bool.or_eq_true, decide_eq_true_eq] at hto ⊢
        obtain ⟨hknown, hspec⟩ := hto
        have : intervalsGo P t v.capacity [] ivs = .ok () := by
          by_cases h2 : 2 ≤ t.stops.length
          · have hk : actsKnown P t = true := by
              rcases hknown with h1 | h1
              · omega
              · exact h1
            obtain ⟨hflat, hlen⟩ := intervals_cover t.stops ivs hi h2
            apply intervalsGo_ok P t v ivs (fun _ => 0) [] hlen _ (fun d => lget_nil d) (fun _ _ => rfl) hspec
            intro iv hiv s hs a ha
            have : s ∈ t.stops := by rw [← hflat]; exact List.mem_flatten.2 ⟨iv, hiv, hs⟩
            exact actCorr_of_known P t hk s this a ha
          · -- a tour with at most one stop has no interval
            have : ivs = [] := by
              unfold intervals at hi
              cases hst : t.stops with
              | nil => rw [hst] at hi; simpa using hi.symm
              | cons s0 rest =>
                cases rest with
                | nil => rw [hst] at hi; simpa using hi.symm
                | cons s1 r => rw [hst] at h2; simp at h2
            rw [this]; rfl
        rw [this]
  · exact resources_complete P S hshape hres

end C12

namespace C12
open Spec

theorem intervalsLoadsOk_each (P : Problem) (cap : Load) (nd : Nat) (dynB : Nat → Int) (ivs : List (List Stop))
    (h : intervalsLoadsOk P cap nd dynB ivs = true) :
    ∀ iv ∈ ivs, ∃ dynB', intervalLoadsOk P cap nd dynB' iv = true := by
  induction ivs generalizing dynB with
  | nil => intro iv hiv; simp at hiv
  | cons iv0 rest ih =>
    simp only [intervalsLoadsOk, Bool.and_eq_true] at h
    intro iv hiv
    simp only [List.mem_cons] at hiv
    rcases hiv with rfl | hiv
    · exact ⟨dynB, h.1⟩
    · exact ih _ h.2 iv hiv

/-- breach *load above capacity*, half 1: a stop of a moving tour that reports more than the capacity in one of the
dimensions in play violates the specification -/
theorem breach_load_above_capacity_invalid (P : Problem) (S : Solution) (t : Tour) (v : VType) (s : Stop) (d : Nat)
    (ht : t ∈ S.tours) (hv : findVehicle P t.vehicleId = some v) (h2 : 2 ≤ t.stops.length) (hs : s ∈ t.stops)
    (hd : d < dims P v) (hover : s.load.getD d 0 > v.capacity.getD d 0) : validSolution P S = false := by
  cases hval : validSolution P S with
  | false => rfl
  | true =>
    exfalso
    have hl := ((valid_iff P S).1 hval).2.2.2.1
    simp only [loadsOk, List.all_eq_true] at hl
    have hto := hl t ht
    simp only [hv] at hto
    cases hi : intervals t.stops with
    | none => simp [hi] at hto
    | some ivs =>
      simp only [hi, Bool.and_eq_true] at hto
      obtain ⟨hflat, _⟩ := intervals_cover t.stops ivs hi h2
      have : s ∈ ivs.flatten := by rw [hflat]; exact hs
      obtain ⟨iv, hiv, hsiv⟩ := List.mem_flatten.1 this
      obtain ⟨dynB', hok⟩ := intervalsLoadsOk_each P _ _ _ ivs hto.2 iv hiv
      obtain ⟨m, hm, rfl⟩ := List.mem_iff_getElem.1 hsiv
      have := intervalLoadsOk_at P _ _ dynB' iv hok m iv[m] (by simp [hm])
      simp only [stopLoadOk, Bool.and_eq_true, List.all_eq_true, List.mem_range, decide_eq_true_eq] at this
      have := (this.2 d hd).2
      omega

end C12

namespace C12
open Spec

/-! ## strict relations: `intersection` against "the ids occur one directly after the other" -/

theorem filterMap_zip_length (L J : List String) :
    (((L.zip J).filterMap (fun p => if p.1 == p.2 then some p.1 else none)).length) ≤ J.length := by
  induction J generalizing L with
  | nil => simp
  | cons y J' ih =>
    cases L with
    | nil => simp
    | cons x L' =>
      simp only [List.zip_cons_cons, List.filterMap_cons, List.length_cons]
      split
      · have := ih L'; omega
      · simp only [List.length_cons]; have := ih L'; omega

/-- if the zip-and-filter of `intersection` reproduces the relation, the relation is a prefix of the zipped part -/
theorem prefix_of_zip_filter (L J : List String)
    (h : (L.zip J).filterMap (fun p => if p.1 == p.2 then some p.1 else none) = J) : isPrefix J L = true := by
  induction J generalizing L with
  | nil => simp [isPrefix]
  | cons y J' ih =>
    cases L with
    | nil => simp at h
    | cons x L' =>
      simp only [List.zip_cons_cons, List.filterMap_cons] at h
      by_cases hxy : (x == y) = true
      · simp only [hxy, if_true, List.cons.injEq] at h
        simp only [isPrefix, Bool.and_eq_true]
        have e : x = y := by simpa using hxy
        exact ⟨by simp [e], ih L' h.2⟩
      · simp only [hxy, Bool.false_eq_true, if_false] at h
        exfalso
        have := filterMap_zip_length L' J'
        rw [h] at this
        simp only [List.length_cons] at this
        omega

theorem isInfix_of_prefix_drop (J l : List String) (n : Nat) (h : isPrefix J (l.drop n) = true) : isInfix J l = true := by
  induction l generalizing n with
  | nil =>
    simp only [List.drop_nil] at h
    cases J with
    | nil => simp [isInfix]
    | cons y J' => simp [isPrefix] at h
  | cons x rest ih =>
    cases n with
    | zero =>
      simp only [List.drop_zero] at h
      simp [isInfix, h]
    | succ n =>
      simp only [List.drop_succ_cons] at h
      simp [isInfix, ih n h]

/-- breach *broken strict relation*, half 2: if the relation's ids do not occur contiguously in the named tour the
`strict` arm rejects -/
theorem checker_rejects_strict_relation (P : Problem) (S : Solution) (r : Relation) (hr : r ∈ P.relations)
    (hk : r.kind = .strict) (t : Tour) (ht : findTour S r.vehicleId (r.shiftIndex.getD 0) = some t)
    (hbad : isInfix r.jobs (tourIds t) = false) : check P S ≠ [] := by
  apply relations_rejects P S r hr
  unfold checkRelation
  simp only [ht, hk]
  split
  · simp
  · split
    · simp
    · rw [if_pos]
      · simp
      · simp only [bne_iff_ne, ne_eq]
        intro heq
        unfold intersection at heq
        cases hj : r.jobs with
        | nil =>
          rw [hj] at hbad
          cases hids : tourIds t with
          | nil => rw [hids] at hbad; simp [isInfix] at hbad
          | cons y ys => rw [hids] at hbad; simp [isInfix, isPrefix] at hbad
        | cons r0 rs =>
          rw [hj] at heq
          simp only at heq
          cases hp : positionOf r0 (tourIds t) with
          | none => simp [hp] at heq
          | some pos =>
            simp only [hp] at heq
            have := prefix_of_zip_filter _ _ heq
            have := isInfix_of_prefix_drop _ _ pos this
            rw [← hj] at this
            rw [this] at hbad; simp at hbad

theorem breach_strict_relation_invalid (P : Problem) (S : Solution) (r : Relation) (hr : r ∈ P.relations)
    (hk : r.kind = .strict) (hbad : ∀ t, findTour S r.vehicleId (r.shiftIndex.getD 0) = some t →
      isInfix r.jobs (tourIds t) = false) : validSolution P S = false := by
  cases hval : validSolution P S with
  | false => rfl
  | true =>
    exfalso
    have hl := ((valid_iff P S).1 hval).2.2.2.2.2.2.1
    simp only [relationsOk, List.all_eq_true] at hl
    have := hl r hr
    unfold relationOk at this
    simp only [hk, Bool.and_eq_true] at this
    cases hf : findTour S r.vehicleId (r.shiftIndex.getD 0) with
    | none => simp [hf] at this
    | some t => simp only [hf] at this; rw [hbad t hf] at this; simp at this

/-! ## breaks (`check_breaks`): the counting rule -/

theorem shouldAssign_eq_breakDue (t : Tour) (b : Break) : shouldAssign t b = breakDue t b := by
  unfold shouldAssign breakDue
  cases b.policy with
  | none => rfl
  | some p => cases p <;> rfl

/-- breach *dropped break*, half 2: fewer breaks served or reported than are due -/
theorem checker_rejects_missing_break (P : Problem) (S : Solution) (t : Tour) (ht : t ∈ S.tours) (sh : Shift)
    (hs : vehicleShift P t = .ok sh)
    (hlt : countP (fun a => a.ty == .brk) (tourActs t)
             + countP (fun v => v.1 == t.vehicleId && v.2 == t.shiftIndex) S.violations < countP (breakDue t) sh.breaks) :
    check P S ≠ [] := by
  apply check_ne_nil_of_group P S .breaks
  apply groupErrors_ne_nil P S .breaks (firstErrOf (checkBreaksTour P S) S.tours) (by simp [runGroup, checkBreaks])
  apply firstErrOf_ne_none _ _ t ht
  unfold checkBreaksTour
  simp only [hs]
  split
  · simp
  · split
    · simp
    · rw [if_pos]
      · simp
      · have : shouldAssign t = breakDue t := funext (shouldAssign_eq_breakDue t)
        rw [this]
        simp; omega

/-- half 1 -/
theorem breach_missing_break_invalid (P : Problem) (S : Solution) (t : Tour) (ht : t ∈ S.tours) (sh : Shift)
    (hs : shiftOf P t = some sh)
    (hlt : countP (fun a => a.ty == .brk) (tourActs t)
             + countP (fun v => v.1 == t.vehicleId && v.2 == t.shiftIndex) S.violations < countP (breakDue t) sh.breaks) :
    validSolution P S = false := by
  cases hval : validSolution P S with
  | false => rfl
  | true =>
    exfalso
    have hl := ((valid_iff P S).1 hval).2.2.2.2.2.2.2.1
    simp only [breaksOk, List.all_eq_true] at hl
    have := hl t ht
    unfold breaksTourOk at this
    simp only [hs, Bool.and_eq_true, decide_eq_true_eq] at this
    omega

/-! ## the combined statement -/

/-- **The checker accepts valid solutions (partial).** On supported inputs a solution that satisfies the documented rules
passes the load group (interval fold against the positional load formula), the vehicle test, the job presence (partition)
test, the routing/statistic group and the limits group of the model checker, and no index underflow happens.
NOT yet proved from the specification and therefore hypotheses here: acceptance by the relations and the breaks group, by
the activity matcher and by the group test. They are compared with the real checker and the specification on every
generated case. -/
theorem checker_complete_partial (P : Problem) (S : Solution)
    (hsup : supported P S = true) (hval : validSolution P S = true)
    (hrel : ∀ r ∈ checkRelations P S, r = none) (hbrk : ∀ r ∈ checkBreaks P S, r = none)
    (hmatch : checkMatch P S = none) (hgroups : checkGroups P S = none) :
    check P S = [] := by
  obtain ⟨hveh, hpart, _, hloads, hrout, hlim, _, _, _, hres⟩ := (valid_iff P S).1 hval
  simp only [supported, Bool.and_eq_true, List.all_eq_true] at hsup
  obtain ⟨hprob, hshape⟩ := hsup
  simp only [problemShapeOk, Bool.and_eq_true, List.all_eq_true, Bool.not_eq_true'] at hprob
  obtain ⟨⟨⟨hids, htasks⟩, _⟩, _⟩ := hprob
  rw [check_eq_nil]
  refine ⟨?_, ?_⟩
  · -- valid loads presuppose well-formed intervals
    rw [List.any_eq_false]
    intro t ht
    simp only [loadsOk, List.all_eq_true] at hloads
    have := hloads t ht
    cases hv : findVehicle P t.vehicleId with
    | none => simp [hv] at this
    | some v =>
      simp only [hv] at this
      cases hi : intervals t.stops with
      | none => simp [hi] at this
      | some ivs => simp
  intro g
  rw [groupErrors_eq_nil]
  cases g with
  | load => exact loads_complete P S hloads (fun t ht => hshape t ht) hres
  | relations => exact hrel
  | breaks => exact hbrk
  | assignment =>
    intro r hr
    simp only [runGroup, checkAssignment, List.mem_cons, List.mem_nil_iff, or_false] at hr
    rcases hr with rfl | rfl | rfl | rfl
    · exact vehicles_complete P S hveh
    · apply presence_complete P S hids _ hpart
      intro j hj hnil
      have := (htasks j hj).1
      rw [hnil] at this
      simp at this
    · exact hmatch
    · exact hgroups
  | routing => exact routing_complete P S hrout
  | limits => exact limits_complete P S (fun t ht => hshape t ht) hlim

end C12

namespace C12
open Spec

/-! ## non-vacuity: a concrete problem, a valid solution and breaches of it -/

def exJob (id : String) (loc : Nat) : Job :=
  { id, group := none,
    tasks := [{ kind := .delivery, demand := [1], places := [{ loc, dur := 5, tws := [⟨0, none⟩], tag := none }] }] }

def exShift : Shift := { startEarliest := 0, startLoc := 0, end_ := some { latest := 1000, loc := 0 }, breaks := [], reloads := [] }

def exVehicle : VType :=
  { typeId := "t", ids := ["v1", "v2"], profile := 0, scaleNum := 1, scaleDen := 1, shifts := [exShift], capacity := [2],
    maxDistance := some 30, maxDuration := none, tourSize := some 2 }

def exProblem : Problem :=
  { n := 3, profiles := [{ dur := [0, 10, 10, 10, 0, 10, 10, 10, 0], dist := [0, 10, 10, 10, 0, 10, 10, 10, 0] }],
    jobs := [exJob "j1" 1, exJob "j2" 2], vehicles := [exVehicle],
    relations := [{ kind := .strict, jobs := ["departure", "j1"], vehicleId := "v1", shiftIndex := none }] }

def exAct (id : String) (ty : ATy) : Act := { jobId := id, ty, tag := none, loc := none, time := none }

def exTour (load0 : Int) (arr1 : Int) : Tour :=
  { vehicleId := "v1", typeId := "t", shiftIndex := 0, stat := { distance := 30, duration := 40 },
    stops := [{ loc := 0, arrival := 0, departure := 0, distance := 0, load := [load0], acts := [exAct "departure" .departure] },
              { loc := 1, arrival := arr1, departure := 15, distance := 10, load := [1], acts := [exAct "j1" .delivery] },
              { loc := 2, arrival := 25, departure := 30, distance := 20, load := [0], acts := [exAct "j2" .delivery] },
              { loc := 0, arrival := 40, departure := 40, distance := 30, load := [0], acts := [exAct "arrival" .arrival] }] }

def exSolution : Solution :=
  { stat := { distance := 30, duration := 40 }, tours := [exTour 2 10], unassigned := [], violations := [] }

/-- the example is supported, valid by the specification and accepted by the model checker (so the hypotheses of
`checker_complete_partial`, `limits_complete`, `routing_complete`, `presence_complete` are satisfiable) -/
example : supported exProblem exSolution = true ∧ validSolution exProblem exSolution = true ∧
    check exProblem exSolution = [] := by decide

/-- misreported load at the departure stop: specification violated, checker rejects (load group) -/
example : validSolution exProblem { exSolution with tours := [exTour 1 10] } = false ∧
    rejecting exProblem { exSolution with tours := [exTour 1 10] } = [.load] := by decide

/-- load above capacity -/
example : lfit exVehicle.capacity [3] = false ∧
    validSolution exProblem { exSolution with tours := [exTour 3 10] } = false ∧
    check exProblem { exSolution with tours := [exTour 3 10] } ≠ [] := by decide

/-- arrival shifted by two seconds: routing group -/
example : validSolution exProblem { exSolution with tours := [exTour 2 12] } = false ∧
    rejecting exProblem { exSolution with tours := [exTour 2 12] } = [.assignment, .routing] := by decide

/-- assigned and unassigned -/
example : validSolution exProblem { exSolution with unassigned := ["j1"] } = false ∧
    rejecting exProblem { exSolution with unassigned := ["j1"] } = [.assignment] := by decide

/-- limit breaches by tightening the problem -/
example : rejecting { exProblem with vehicles := [{ exVehicle with maxDistance := some 29 }] } exSolution = [.limits] ∧
    rejecting { exProblem with vehicles := [{ exVehicle with tourSize := some 1 }] } exSolution = [.limits] ∧
    validSolution { exProblem with vehicles := [{ exVehicle with tourSize := some 1 }] } exSolution = false := by decide

/-- broken relations: `strict` with a gap, `any` pinned to a vehicle without a tour (S17) -/
example :
    rejecting { exProblem with relations := [{ kind := .strict, jobs := ["departure", "j2"], vehicleId := "v1", shiftIndex := none }] }
      exSolution = [.relations] ∧
    rejecting { exProblem with relations := [{ kind := .any, jobs := ["j1"], vehicleId := "v2", shiftIndex := none }] }
      exSolution = [.relations] ∧
    validSolution { exProblem with relations := [{ kind := .any, jobs := ["j1"], vehicleId := "v2", shiftIndex := none }] }
      exSolution = false := by decide

/-- the quirk of `MultiDimLoad ==`: two loads of size zero are not equal -/
example : leq [] [] = false ∧ leq [0] [] = true := by decide

/-! ### a shared reload resource with two load dimensions -/

def resJob (id : String) (loc : Nat) : Job :=
  { id, group := none,
    tasks := [{ kind := .delivery, demand := [1, 1], places := [{ loc, dur := 5, tws := [⟨0, none⟩], tag := none }] }] }

def resShift : Shift :=
  { startEarliest := 0, startLoc := 0, end_ := some { latest := 1000, loc := 0 }, breaks := [],
    reloads := [{ loc := 0, dur := 0, tws := [⟨0, none⟩], tag := some "rl0", resource := some "res0" }] }

def resVehicle : VType :=
  { typeId := "t", ids := ["v1"], profile := 0, scaleNum := 1, scaleDen := 1, shifts := [resShift], capacity := [2, 2],
    maxDistance := none, maxDuration := none, tourSize := none }

/-- the resource holds exactly what the one reload of `resSolution` loads -/
def resProblem (cap : Load) : Problem :=
  { n := 3, profiles := exProblem.profiles, jobs := [resJob "j1" 1, resJob "j2" 2], vehicles := [resVehicle], relations := [],
    resources := [("res0", cap)] }

def resSolution : Solution :=
  { stat := { distance := 40, duration := 50 }, unassigned := [], violations := [],
    tours := [{ vehicleId := "v1", typeId := "t", shiftIndex := 0, stat := { distance := 40, duration := 50 },
                stops := [{ loc := 0, arrival := 0, departure := 0, distance := 0, load := [1, 1], acts := [exAct "departure" .departure] },
                          { loc := 1, arrival := 10, departure := 15, distance := 10, load := [0, 0], acts := [exAct "j1" .delivery] },
                          { loc := 0, arrival := 25, departure := 25, distance := 20, load := [1, 1],
                            acts := [{ jobId := "reload", ty := .reload, tag := some "rl0", loc := none, time := none }] },
                          { loc := 2, arrival := 35, departure := 40, distance := 30, load := [0, 0], acts := [exAct "j2" .delivery] },
                          { loc := 0, arrival := 50, departure := 50, distance := 40, load := [0, 0], acts := [exAct "arrival" .arrival] }] }] }

/-- boundary: the resource holds exactly what is drawn ([1, 1]): supported, valid, accepted; the hypotheses of
`resources_complete` / `consumed_eq_drawn` are satisfiable with a resource in use -/
example : supported (resProblem [1, 1]) resSolution = true ∧ validSolution (resProblem [1, 1]) resSolution = true ∧
    check (resProblem [1, 1]) resSolution = [] ∧ allDraws (resProblem [1, 1]) resSolution = [("res0", [1, 1])] ∧
    drawn (resProblem [1, 1]) resSolution "res0" 0 = 1 ∧ drawn (resProblem [1, 1]) resSolution "res0" 1 = 1 := by decide

/-- overdrawn in ONE of the two dimensions (the other exactly at / well above the draw), overdrawn in both, resource not
defined: the specification is violated in its resource part only and the checker rejects in the load group -/
example :
    (Spec.parts (resProblem [0, 1]) resSolution).filter (fun p => !p.2) = [("resources", false)] ∧
    check (resProblem [0, 1]) resSolution = [.resource] ∧
    validSolution (resProblem [3, 0]) resSolution = false ∧ check (resProblem [3, 0]) resSolution = [.resource] ∧
    validSolution (resProblem [0, 0]) resSolution = false ∧ rejecting (resProblem [0, 0]) resSolution = [.load] ∧
    validSolution { resProblem [1, 1] with resources := [] } resSolution = false ∧
    check { resProblem [1, 1] with resources := [] } resSolution = [.resource] := by decide

/-- D11 (open deviation): an open tour whose last stop is a reload stop that also serves a job. The loads below are the
physical ones (1 on board at departure, 0 after the first delivery; the reload takes 1 on board, which is delivered in the
same stop), yet the checker reports a load mismatch because the last stop never starts an interval of its own. -/
def d11Shift : Shift :=
  { startEarliest := 0, startLoc := 0, end_ := none, breaks := [],
    reloads := [{ loc := 0, dur := 0, tws := [⟨0, none⟩], tag := none }] }

def d11Vehicle : VType :=
  { typeId := "t", ids := ["v1"], profile := 0, scaleNum := 1, scaleDen := 1, shifts := [d11Shift], capacity := [2],
    maxDistance := none, maxDuration := none, tourSize := none }

def d11Problem : Problem :=
  { n := 3, profiles := exProblem.profiles, jobs := [exJob "j1" 1, exJob "j2" 0], vehicles := [d11Vehicle], relations := [] }

def d11Solution : Solution :=
  { stat := { distance := 20, duration := 25 }, unassigned := [], violations := [],
    tours := [{ vehicleId := "v1", typeId := "t", shiftIndex := 0, stat := { distance := 20, duration := 25 },
                stops := [{ loc := 0, arrival := 0, departure := 0, distance := 0, load := [1], acts := [exAct "departure" .departure] },
                          { loc := 1, arrival := 10, departure := 15, distance := 10, load := [0], acts := [exAct "j1" .delivery] },
                          { loc := 0, arrival := 25, departure := 25, distance := 20, load := [0],
                            acts := [{ jobId := "reload", ty := .reload, tag := none, loc := none, time := some (25, 25) },
                                     { jobId := "j2", ty := .delivery, tag := none, loc := none, time := some (25, 30) }] }] }] }

example : rejecting d11Problem d11Solution = [.load] ∧ supported d11Problem d11Solution = false := by decide

end C12
