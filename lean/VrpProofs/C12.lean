import VrpModel.C12
import VrpModel.Generated.C12Chain
/-!
# C12 — theorems about the model of the solution checker

* T4 obligations: the chain of rule groups and the sub-check lists of the model equal what the translator extracted
  from `vrp-pragmatic/src/checker/*.rs`.
-/
set_option linter.unusedSimpArgs false
set_option linter.unusedVariables false

namespace C12

/-! ## T4: the modelled chain is the chain of the source -/

/-- the translator found every anchor -/
theorem chain_extraction_ok : Generated.extraction_failed = false := by decide

/-- `CheckerContext::check` chains exactly the modelled groups, in the modelled order -/
theorem chain_matches_source : Generated.chain = chain.map Group.fnName := by decide

/-- every group combines exactly the modelled sub-checks (a silently dropped sub-check breaks this) -/
theorem subchecks_match_source : Generated.subChecks = chain.map (fun g => (g.fnName, subChecks g)) := by decide

/-- the model evaluates one result per sub-check of the source -/
theorem model_runs_every_subcheck (P : Problem) (S : Solution) (g : Group) :
    (runGroup P S g).length = (subChecks g).length := by
  cases g <;> rfl

end C12

namespace C12

/-! ## generic facts about the chain -/

theorem firstErrOf_eq_none {α} (f : α → Option Code) (l : List α) :
    firstErrOf f l = none ↔ ∀ x ∈ l, f x = none := by
  induction l with
  | nil => simp [firstErrOf]
  | cons x rest ih =>
    simp only [firstErrOf, List.mem_cons, forall_eq_or_imp]
    cases h : f x with
    | none => simp [ih]
    | some c => simp

theorem firstErrOf_ne_none {α} (f : α → Option Code) (l : List α) (x : α) (hx : x ∈ l) (h : f x ≠ none) :
    firstErrOf f l ≠ none := by
  intro hn
  exact h ((firstErrOf_eq_none f l).1 hn x hx)

theorem filterMap_id_eq_nil (l : List (Option Code)) : l.filterMap id = [] ↔ ∀ r ∈ l, r = none := by
  induction l with
  | nil => simp
  | cons x rest ih =>
    cases x with
    | none => simp [List.filterMap_cons, ih]
    | some c => simp [List.filterMap_cons]

/-- a group accepts iff each of its sub-checks accepts -/
theorem groupErrors_eq_nil (P : Problem) (S : Solution) (g : Group) :
    groupErrors P S g = [] ↔ ∀ r ∈ runGroup P S g, r = none := by
  unfold groupErrors
  exact filterMap_id_eq_nil _

def noPanic (S : Solution) : Prop := ∀ t ∈ S.tours, (intervals t.stops).isSome = true

/-- the checker accepts iff no index underflow happens and every group accepts -/
theorem check_eq_nil (P : Problem) (S : Solution) :
    check P S = [] ↔ (S.tours.any (fun t => (intervals t.stops).isNone) = false) ∧ ∀ g, groupErrors P S g = [] := by
  unfold check
  constructor
  · intro h
    split at h
    · simp at h
    · rename_i hp
      refine ⟨by simpa using hp, ?_⟩
      intro g
      have : ∀ g ∈ chain, groupErrors P S g = [] := by
        simpa [List.flatMap_eq_nil_iff] using h
      exact this g (by cases g <;> simp [chain])
  · rintro ⟨hp, hg⟩
    rw [if_neg (by simp [hp])]
    simp [List.flatMap_eq_nil_iff, hg]

/-- rejection by any sub-check of any group makes the whole check reject -/
theorem check_ne_nil_of_group (P : Problem) (S : Solution) (g : Group) (h : groupErrors P S g ≠ []) :
    check P S ≠ [] := by
  intro hc
  exact h (((check_eq_nil P S).1 hc).2 g)

end C12
