import VrpProofs.C12
/-!
# C12 — the checker accepts valid solutions: the four open groups of `checker_complete_partial`

`C12.checker_complete_partial` derives acceptance by the load, vehicle, presence, routing and limits tests from the
specification `validSolution` and keeps four checker groups as hypotheses. This file derives them from the specification:

* `groups_complete` — `check_groups`, from `validSolution` alone;
* `relations_complete` — `check_relations`, under `noReservedJobIds`, `actIdsOk` (input well-formedness) and `anyShiftOk`,
  `strictHeadOk` (gaps of the specification);
* `breaks_complete` — `check_breaks`, under `pointStops` (input well-formedness) and `breakChoiceUnique`,
  `noLeadingBreakPair` (gaps);
* `match_complete` — `check_jobs_match`, under `jobTagsOk`, `reloadsApart` (input well-formedness) and `windowChoiceUnique`,
  `breakChoiceUnique`, `breakPlaceUnique`, `oneBreakPerStop` (gaps);
* `checker_complete` — `supported ∧ validSolution ∧ inputWF ∧ unambiguous → check P S = []`, no checker group left as a
  hypothesis; `checker_complete_plain` replaces `unambiguous` by the problem-only `plainProblem`;
  `checker_complete_partial2` is the intermediate statement with only the matcher as a hypothesis.

The specification is NOT changed. Every side condition is a decidable `Bool` predicate, and for every one of them (except
`reloadsApart`) a `decide`d example exhibits a supported pair that satisfies `validSolution` and is rejected by the model
checker: without the side conditions the specification does not imply acceptance. The gaps are all of one kind: the
specification says "SOME tour / occurrence / break / place / time window fits", the checker commits to the FIRST candidate.
-/

set_option linter.unusedSimpArgs false
set_option linter.unusedVariables false
set_option linter.unnecessarySimpa false

namespace C12Complete
open C12 C12.Spec

/-! ## `check_groups` -/

theorem dedup_length_le_one {α} [BEq α] [LawfulBEq α] (l : List α) (h : ∀ x ∈ l, ∀ y ∈ l, x = y) :
    (dedup l).length ≤ 1 := by
  cases l with
  | nil => simp [dedup]
  | cons x rest =>
    simp only [dedup, List.length_cons]
    have : (dedup rest).filter (fun y => !(y == x)) = [] := by
      rw [List.filter_eq_nil_iff]
      intro y hy
      have hy' : y ∈ rest := (mem_dedup y rest).1 hy
      have : y = x := h y (by simp [hy']) x (by simp)
      simp [this]
    rw [this]; simp

theorem groups_complete (P : Problem) (S : Solution) (hval : validSolution P S = true) :
    checkGroups P S = none := by
  have hg := ((valid_iff P S).1 hval).2.2.1
  unfold checkGroups
  simp only
  rw [if_neg]
  rw [Bool.not_eq_true, List.any_eq_false]
  intro g _
  simp only [decide_eq_true_eq, Nat.not_lt, gt_iff_lt]
  apply dedup_length_le_one
  intro k1 hk1 k2 hk2
  simp only [List.mem_map, List.mem_filter, List.mem_flatMap, List.mem_filterMap] at hk1 hk2
  obtain ⟨u1, ⟨⟨t1, ht1, a1, ha1, hu1⟩, hg1⟩, rfl⟩ := hk1
  obtain ⟨u2, ⟨⟨t2, ht2, a2, ha2, hu2⟩, hg2⟩, rfl⟩ := hk2
  simp only [groupsOk, List.all_eq_true, Bool.or_eq_true, Bool.and_eq_true, beq_iff_eq] at hg
  cases hj1 : findJob P a1.jobId with
  | none => simp [hj1] at hu1
  | some j1 =>
    cases hj2 : findJob P a2.jobId with
    | none => simp [hj2] at hu2
    | some j2 =>
      simp only [hj1, hj2] at hu1 hu2
      cases hgr1 : j1.group with
      | none => simp [hgr1] at hu1
      | some g1 =>
        cases hgr2 : j2.group with
        | none => simp [hgr2] at hu2
        | some g2 =>
          simp only [hgr1, hgr2, Option.map_some, Option.some.injEq] at hu1 hu2
          subst hu1; subst hu2
          simp only [beq_iff_eq] at hg1 hg2
          rcases hg t1 ht1 t2 ht2 with ⟨⟨h1, h2⟩, h3⟩ | h
          · simp [h1, h2, h3]
          · have := h a1 ha1 a2 ha2
            simp [hj1, hj2, hgr1, hgr2, hg1, hg2] at this

/-! ## generic counting lemmas -/

theorem countP_all {α} (p : α → Bool) (l : List α) (h : ∀ x ∈ l, p x = true) : countP p l = l.length := by
  induction l with
  | nil => rfl
  | cons x rest ih =>
    simp only [countP, List.length_cons, h x (by simp), if_true, ih (fun y hy => h y (by simp [hy]))]
    omega

theorem countP_none {α} (p : α → Bool) (l : List α) (h : ∀ x ∈ l, p x = false) : countP p l = 0 := by
  induction l with
  | nil => rfl
  | cons x rest ih =>
    simp only [countP, h x (by simp), ih (fun y hy => h y (by simp [hy]))]
    simp

theorem countP_mono {α} (p q : α → Bool) (l : List α) (h : ∀ x ∈ l, p x = true → q x = true) :
    countP p l ≤ countP q l := by
  induction l with
  | nil => simp [countP]
  | cons x rest ih =>
    have := ih (fun y hy => h y (by simp [hy]))
    have hx := h x (by simp)
    simp only [countP]
    by_cases hp : p x = true
    · simp only [hp, hx hp, if_true]; omega
    · rw [if_neg hp]; split <;> omega

theorem filter_length_countP {α} (p : α → Bool) (l : List α) : (l.filter p).length = countP p l := by
  induction l with
  | nil => rfl
  | cons x rest ih =>
    simp only [List.filter_cons, countP]
    split
    · simp only [List.length_cons, ih]; omega
    · simp only [ih]; omega

/-- the occurrences of the members of a duplicate free list `d` in `L`, summed, are the members of `L` lying in `d` -/
theorem sum_counts {α} [BEq α] [LawfulBEq α] (d L : List α) (hd : hasDup d = false) :
    (d.map (fun y => countP (fun z => z == y) L)).sum = countP (fun z => d.contains z) L := by
  induction d with
  | nil =>
    simp only [List.map_nil, List.sum_nil]
    exact (countP_none _ L (fun x _ => by simp)).symm
  | cons a d' ih =>
    simp only [hasDup, Bool.or_eq_false_iff] at hd
    have e : countP (fun z => (a :: d').contains z) L = countP (fun z => z == a || d'.contains z) L := by
      apply countP_congr
      intro x _
      simp [List.contains_cons]
    rw [List.map_cons, List.sum_cons, ih hd.2, e, countP_or_disjoint]
    intro x _ ⟨h1, h2⟩
    have : x = a := by simpa using h1
    subst this
    rw [h2] at hd
    simp at hd

theorem sum_map_le {α} (d : List α) (f g : α → Nat) (h : ∀ y ∈ d, f y ≤ g y) : (d.map f).sum ≤ (d.map g).sum := by
  induction d with
  | nil => simp
  | cons a d' ih =>
    simp only [List.map_cons, List.sum_cons]
    have := ih (fun y hy => h y (by simp [hy]))
    have := h a (by simp)
    omega

theorem sum_map_congr {α} (d : List α) (f g : α → Nat) (h : ∀ y ∈ d, f y = g y) : (d.map f).sum = (d.map g).sum := by
  induction d with
  | nil => simp
  | cons a d' ih =>
    simp only [List.map_cons, List.sum_cons]
    rw [ih (fun y hy => h y (by simp [hy])), h a (by simp)]

/-- summed over its distinct members, the occurrences in a list are its length -/
theorem sum_counts_self {α} [BEq α] [LawfulBEq α] (l : List α) :
    ((dedup l).map (fun y => countP (fun z => z == y) l)).sum = l.length := by
  rw [sum_counts _ _ (hasDup_dedup l)]
  apply countP_all
  intro x hx
  simp [List.contains_iff_mem, mem_dedup, hx]

/-! ## relations: list lemmas for `sequence` and `strict` -/

theorem isSubseq_length (J K : List String) (h : isSubseq J K = true) : J.length ≤ K.length := by
  induction K generalizing J with
  | nil =>
    cases J with
    | nil => simp
    | cons x xs => simp [isSubseq] at h
  | cons y ys ih =>
    cases J with
    | nil => simp
    | cons x xs =>
      simp only [isSubseq] at h
      split at h
      · have := ih xs h; simp only [List.length_cons]; omega
      · have := ih (x :: xs) h; simp only [List.length_cons] at this ⊢; omega

/-- a subsequence that is not shorter is the whole list -/
theorem isSubseq_eq_of_length (J K : List String) (h : isSubseq J K = true) (hl : K.length ≤ J.length) : K = J := by
  induction K generalizing J with
  | nil =>
    cases J with
    | nil => rfl
    | cons x xs => simp [isSubseq] at h
  | cons y ys ih =>
    cases J with
    | nil => simp at hl
    | cons x xs =>
      simp only [isSubseq] at h
      split at h
      · rename_i hxy
        have e : x = y := by simpa using hxy
        simp only [List.length_cons] at hl
        rw [ih xs h (by omega), e]
      · have := isSubseq_length _ _ h
        simp only [List.length_cons] at this hl
        omega

theorem isSubseq_filter_of_all (p : String → Bool) (J L : List String) (h : isSubseq J L = true)
    (hp : ∀ x ∈ J, p x = true) : isSubseq J (L.filter p) = true := by
  induction L generalizing J with
  | nil => simpa using h
  | cons y ys ih =>
    cases J with
    | nil => simp [isSubseq]
    | cons x xs =>
      simp only [isSubseq] at h
      split at h
      · rename_i hxy
        have e : x = y := by simpa using hxy
        have hy : p y = true := by rw [← e]; exact hp x (by simp)
        simp only [List.filter_cons, hy, if_true, isSubseq, hxy]
        exact ih xs h (fun z hz => hp z (by simp [hz]))
      · rename_i hxy
        have := ih (x :: xs) h hp
        simp only [List.filter_cons]
        split
        · simp only [isSubseq]; rw [if_neg hxy]; exact this
        · exact this

theorem isInfix_split (J L : List String) (h : isInfix J L = true) : ∃ A M, L = A ++ M ∧ isPrefix J M = true := by
  induction L with
  | nil =>
    simp only [isInfix] at h
    refine ⟨[], [], rfl, ?_⟩
    cases J with
    | nil => simp [isPrefix]
    | cons x xs => simp at h
  | cons y ys ih =>
    simp only [isInfix, Bool.or_eq_true] at h
    rcases h with h | h
    · exact ⟨[], y :: ys, rfl, h⟩
    · obtain ⟨A, M, e, hp⟩ := ih h
      exact ⟨y :: A, M, by simp [e], hp⟩

theorem isPrefix_append (J M : List String) (h : isPrefix J M = true) : ∃ R, M = J ++ R := by
  induction J generalizing M with
  | nil => exact ⟨M, rfl⟩
  | cons x xs ih =>
    cases M with
    | nil => simp [isPrefix] at h
    | cons y ys =>
      simp only [isPrefix, Bool.and_eq_true, beq_iff_eq] at h
      obtain ⟨R, e⟩ := ih ys h.2
      exact ⟨R, by rw [e, h.1]; rfl⟩

theorem zip_filter_append (J R : List String) :
    ((J ++ R).zip J).filterMap (fun p => if p.1 == p.2 then some p.1 else none) = J := by
  induction J with
  | nil => simp
  | cons x xs ih => simp only [List.cons_append, List.zip_cons_cons, List.filterMap_cons, beq_self_eq_true, if_true, ih]

theorem positionOf_append (h : String) (A M : List String) (hA : countP (fun z => z == h) A = 0) :
    positionOf h (A ++ h :: M) = some A.length := by
  induction A with
  | nil => simp [positionOf]
  | cons a A' ih =>
    simp only [countP] at hA
    have hne : ¬ (a == h) = true := by
      intro hh; rw [if_pos hh] at hA; omega
    rw [if_neg hne] at hA
    have hA' : countP (fun z => z == h) A' = 0 := by omega
    simp only [List.cons_append, positionOf, if_neg hne, ih hA', Option.map_some, List.length_cons]

/-- `intersection` finds a contiguous occurrence when the relation's head is not met before it -/
theorem intersection_of_infix (h : String) (J' L : List String) (hin : isInfix (h :: J') L = true)
    (hc : countP (fun z => z == h) L ≤ countP (fun z => z == h) (h :: J')) : intersection L (h :: J') = h :: J' := by
  obtain ⟨A, M, rfl, hp⟩ := isInfix_split _ _ hin
  obtain ⟨R, rfl⟩ := isPrefix_append _ _ hp
  rw [countP_append, countP_append] at hc
  have hA : countP (fun z => z == h) A = 0 := by omega
  unfold intersection
  simp only [List.cons_append]
  rw [positionOf_append h A (J' ++ R) hA]
  simp only
  have : (A ++ h :: (J' ++ R)).drop A.length = (h :: J') ++ R := by simp
  rw [this]
  exact zip_filter_append (h :: J') R

/-! ## relations: side conditions

Two *input well-formedness* conditions that neither `supported` nor the specification state (the pragmatic format
guarantees them, the simplified integer model does not), and two conditions that close genuine *gaps of the specification*
(see the counterexamples `anyGap_*`, `strictGap_*` below). All are decidable `Bool` predicates. -/

/-- the reserved activity id of a non-job activity type -/
def reservedIdOf : ATy → Option String
  | .departure => some "departure"
  | .arrival => some "arrival"
  | .brk => some "break"
  | .reload => some "reload"
  | _ => none

/-- input well-formedness (solution): every activity is a job activity or carries the reserved id of its type as `jobId`
(`departure`, `arrival`, `break`, `reload`), as the pragmatic format writes them -/
def actIdsOk (S : Solution) : Bool :=
  S.tours.all (fun t => (tourActs t).all (fun a => isJobTy a.ty || reservedIdOf a.ty == some a.jobId))

/-- input well-formedness (problem): no customer job is called `departure`, `arrival`, `break` or `reload` -/
def noReservedJobIds (P : Problem) : Bool := P.jobs.all (fun j => !isReservedId j.id)

/-- specification gap 1 (`any`): the specification only forbids tours of ANOTHER vehicle to serve a listed job; when the
tour named by (vehicle, shift index) is absent the checker also rejects a tour of the SAME vehicle in another shift.
Condition: an `any` relation's (vehicle, shift) tour exists, or its vehicle runs no tour at all. -/
def anyShiftOk (P : Problem) (S : Solution) : Bool :=
  P.relations.all (fun r => r.kind != .any || (findTour S r.vehicleId (r.shiftIndex.getD 0)).isSome ||
    S.tours.all (fun t => t.vehicleId != r.vehicleId))

/-- specification gap 2 (`strict`): `intersection` zips from the FIRST occurrence of the relation's first id; an id that may
occur in a tour more often than the relation lists it (`break`, `reload`) as first id makes the checker miss a later
contiguous occurrence. Condition: a `strict` relation does not start with `break` or `reload`. -/
def strictHeadOk (P : Problem) : Bool :=
  P.relations.all (fun r => r.kind != .strict ||
    (match r.jobs.head? with | some h => !(h == "break" || h == "reload") | none => true))

theorem reservedIdOf_reserved (ty : ATy) (s : String) (h : reservedIdOf ty = some s) : isReservedId s = true := by
  cases ty <;> simp [reservedIdOf] at h <;> subst h <;> decide

theorem tourIds_eq (t : Tour) : tourIds t = (tourActs t).map (fun a => a.jobId) := by
  unfold tourIds tourActs
  induction t.stops with
  | nil => rfl
  | cons s rest ih => simp only [List.flatMap_cons, List.map_append, ih]

theorem countP_indexed_filter (q r : Act → Bool) (i : Nat) (l : List Act) :
    countP (fun p => q p.2) ((indexed i l).filter (fun p => r p.2)) = countP (fun a => r a && q a) l := by
  induction l generalizing i with
  | nil => rfl
  | cons a rest ih =>
    simp only [indexed, List.filter_cons, countP]
    by_cases hr : r a = true
    · simp only [hr, if_true, countP, Bool.true_and, ih]
    · have hr' : r a = false := by simpa using hr
      simp only [hr', Bool.false_eq_true, if_false, Bool.false_and, ih, Nat.zero_add]

theorem servedIn_eq (t : Tour) (id : String) :
    servedIn t id = countP (fun a => isJobTy a.ty && a.jobId == id) (tourActs t) := by
  unfold servedIn tourJobActs
  exact countP_indexed_filter (fun a => a.jobId == id) (fun a => isJobTy a.ty) 0 _

theorem mem_indexed {α} (l : List α) (k : Nat) (a : α) (h : a ∈ l) : ∃ i, (i, a) ∈ indexed k l := by
  induction l generalizing k with
  | nil => simp at h
  | cons x rest ih =>
    simp only [List.mem_cons] at h
    rcases h with rfl | h
    · exact ⟨k, by simp [indexed]⟩
    · obtain ⟨i, hi⟩ := ih (k + 1) h
      exact ⟨i, by simp [indexed, hi]⟩

/-- on well-formed activity ids the occurrences of a customer id among a tour's activity ids are its job activities -/
theorem count_ids_eq_servedIn (S : Solution) (hids : actIdsOk S = true) (t : Tour) (ht : t ∈ S.tours) (id : String)
    (hres : isReservedId id = false) : countP (fun z => z == id) (tourIds t) = servedIn t id := by
  rw [tourIds_eq, countP_map, servedIn_eq]
  apply countP_congr
  intro a ha
  simp only [actIdsOk, List.all_eq_true, Bool.or_eq_true, beq_iff_eq] at hids
  rcases hids t ht a ha with h | h
  · simp [h]
  · have := reservedIdOf_reserved _ _ h
    have hne : ¬ a.jobId = id := by
      intro e; rw [e, hres] at this; simp at this
    simp [hne]

theorem servedIn_le (S : Solution) (j : Job) (hok : jobOk S j = true) (t : Tour) (ht : t ∈ S.tours) :
    servedIn t j.id ≤ j.tasks.length := by
  unfold jobOk at hok
  simp only [Bool.or_eq_true, Bool.and_eq_true, beq_iff_eq, List.all_eq_true] at hok
  rcases hok with ⟨⟨_, h⟩, _⟩ | ⟨h, _⟩
  · rcases h t ht with h | h <;> omega
  · have := le_sum_of_mem S.tours (fun t => servedIn t j.id) t ht
    unfold served at h
    omega

theorem relationOk_ids (P : Problem) (S : Solution) (r : Relation) (h : relationOk P S r = true) :
    (∀ id ∈ r.jobs, (findJob P id).isSome = true ∨ isReservedId id = true) ∧
    (∀ id ∈ r.jobs, isReservedId id = true ∨ countP (fun x => x == id) r.jobs = jobTaskCount P id) := by
  unfold relationOk at h
  simp only [Bool.and_eq_true, List.all_eq_true, Bool.or_eq_true, beq_iff_eq] at h
  exact ⟨h.1.1, h.1.2⟩

theorem job_not_reserved (P : Problem) (hnores : noReservedJobIds P = true) (id : String) (j : Job)
    (hj : findJob P id = some j) : isReservedId id = false := by
  obtain ⟨hmem, hid⟩ := findJob_some P id j hj
  simp only [noReservedJobIds, List.all_eq_true, Bool.not_eq_true'] at hnores
  rw [← hid]; exact hnores j hmem

/-- a customer job listed by a relation occurs in a tour at most as often as the relation lists it -/
theorem count_customer_le (P : Problem) (S : Solution) (hpart : partitionOk P S = true) (hids : actIdsOk S = true)
    (r : Relation) (hr : relationOk P S r = true) (t : Tour) (ht : t ∈ S.tours) (id : String) (hid : id ∈ r.jobs)
    (hres : isReservedId id = false) :
    countP (fun z => z == id) (tourIds t) ≤ countP (fun z => z == id) r.jobs := by
  obtain ⟨h1, h2⟩ := relationOk_ids P S r hr
  rw [count_ids_eq_servedIn S hids t ht id hres]
  cases hj : findJob P id with
  | none =>
    rcases h1 id hid with h | h
    · simp [hj] at h
    · rw [hres] at h; simp at h
  | some j =>
    obtain ⟨hmem, hjid⟩ := findJob_some P id j hj
    rcases h2 id hid with h | h
    · rw [hres] at h; simp at h
    · rw [h]
      unfold jobTaskCount
      simp only [hj]
      have := servedIn_le S j ((partition_unpack P S hpart).1 j hmem) t ht
      rw [hjid] at this
      exact this

theorem tourShape_counts (P : Problem) (t : Tour) (h : tourShapeOk P t = true) :
    countP (fun a => a.ty == ATy.departure) (tourActs t) = 1 ∧ countP (fun a => a.ty == ATy.arrival) (tourActs t) ≤ 1 := by
  unfold tourShapeOk at h
  cases hstops : t.stops with
  | nil => simp [hstops] at h
  | cons s0 rest =>
    cases hsh : shiftOf P t with
    | none => simp [hstops, hsh] at h
    | some sh =>
      simp only [hstops, hsh, Bool.and_eq_true] at h
      obtain ⟨⟨⟨_, hdep⟩, _⟩, harr⟩ := h
      refine ⟨by simpa using hdep, ?_⟩
      cases he : sh.end_ with
      | none =>
        simp only [he] at harr
        have : countP (fun a => a.ty == ATy.arrival) (tourActs t) = 0 := by simpa using harr
        omega
      | some e =>
        simp only [he, Bool.and_eq_true] at harr
        have : countP (fun a => a.ty == ATy.arrival) (tourActs t) = 1 := by simpa using harr.1
        omega

/-- an activity that carries a reserved id is of the type the id names -/
theorem reserved_id_ty (P : Problem) (S : Solution) (hpart : partitionOk P S = true) (hids : actIdsOk S = true)
    (hnores : noReservedJobIds P = true) (t : Tour) (ht : t ∈ S.tours) (a : Act) (ha : a ∈ tourActs t)
    (hres : isReservedId a.jobId = true) : reservedIdOf a.ty = some a.jobId := by
  simp only [actIdsOk, List.all_eq_true, Bool.or_eq_true, beq_iff_eq] at hids
  rcases hids t ht a ha with h | h
  · exfalso
    obtain ⟨i, hi⟩ := mem_indexed (tourActs t) 0 a ha
    have hmem : (i, a) ∈ tourJobActs t := by
      unfold tourJobActs
      rw [List.mem_filter]
      exact ⟨hi, h⟩
    have := (partition_unpack P S hpart).2.1 t ht (i, a) hmem
    cases hj : findJob P a.jobId with
    | none => simp [hj] at this
    | some j =>
      have := job_not_reserved P hnores _ j hj
      rw [hres] at this; simp at this
  · exact h

theorem count_terminal_le_one (P : Problem) (S : Solution) (hpart : partitionOk P S = true) (hids : actIdsOk S = true)
    (hnores : noReservedJobIds P = true) (t : Tour) (ht : t ∈ S.tours) (hshape : tourShapeOk P t = true) :
    countP (fun z => z == "departure") (tourIds t) ≤ 1 ∧ countP (fun z => z == "arrival") (tourIds t) ≤ 1 := by
  obtain ⟨hd, ha⟩ := tourShape_counts P t hshape
  rw [tourIds_eq, countP_map, countP_map]
  constructor
  · have := countP_mono (fun a => a.jobId == "departure") (fun a => a.ty == ATy.departure) (tourActs t) (by
      intro a hmem h
      have e : a.jobId = "departure" := by simpa using h
      have := reserved_id_ty P S hpart hids hnores t ht a hmem (by rw [e]; decide)
      rw [e] at this
      cases hty : a.ty <;> simp [hty, reservedIdOf] at this ⊢)
    omega
  · have := countP_mono (fun a => a.jobId == "arrival") (fun a => a.ty == ATy.arrival) (tourActs t) (by
      intro a hmem h
      have e : a.jobId = "arrival" := by simpa using h
      have := reserved_id_ty P S hpart hids hnores t ht a hmem (by rw [e]; decide)
      rw [e] at this
      cases hty : a.ty <;> simp [hty, reservedIdOf] at this ⊢)
    omega

/-- any listed id except `break` / `reload` occurs in a tour at most as often as the relation lists it -/
theorem count_listed_le (P : Problem) (S : Solution) (hpart : partitionOk P S = true) (hids : actIdsOk S = true)
    (hnores : noReservedJobIds P = true) (r : Relation) (hr : relationOk P S r = true) (t : Tour) (ht : t ∈ S.tours)
    (hshape : tourShapeOk P t = true) (id : String) (hid : id ∈ r.jobs) (hnb : id ≠ "break") (hnr : id ≠ "reload") :
    countP (fun z => z == id) (tourIds t) ≤ countP (fun z => z == id) r.jobs := by
  cases hres : isReservedId id with
  | false => exact count_customer_le P S hpart hids r hr t ht id hid hres
  | true =>
    have hpos : 0 < countP (fun z => z == id) r.jobs := (countP_pos_iff _ _).2 ⟨id, hid, by simp⟩
    obtain ⟨hd, ha⟩ := count_terminal_le_one P S hpart hids hnores t ht hshape
    simp only [isReservedId, Bool.or_eq_true, beq_iff_eq] at hres
    rcases hres with ((h | h) | h) | h
    · subst h; omega
    · subst h; omega
    · exact absurd h hnb
    · exact absurd h hnr

theorem relationCount_eq (P : Problem) (S : Solution) (hnores : noReservedJobIds P = true) (r : Relation)
    (hr : relationOk P S r = true) (id : String) (hid : id ∈ r.jobs) :
    relationCount P r.jobs id = countP (fun z => z == id) r.jobs := by
  unfold relationCount
  cases hj : findJob P id with
  | none => rfl
  | some j =>
    simp only
    have hres := job_not_reserved P hnores id j hj
    rcases (relationOk_ids P S r hr).2 id hid with h | h
    · rw [hres] at h; simp at h
    · rw [h]; unfold jobTaskCount; simp only [hj]

/-- one relation: the specification clause implies acceptance by `check_relations_assignment` -/
theorem relation_complete (P : Problem) (S : Solution)
    (hshape : ∀ t ∈ S.tours, tourShapeOk P t = true) (hpart : partitionOk P S = true)
    (hnores : noReservedJobIds P = true) (hids : actIdsOk S = true)
    (hany : anyShiftOk P S = true) (hstrict : strictHeadOk P = true)
    (r : Relation) (hr : r ∈ P.relations) (hok : relationOk P S r = true) : checkRelation P S r = none := by
  obtain ⟨hk1, hk2⟩ := relationOk_ids P S r hok
  have hkind := hok
  unfold relationOk at hkind
  simp only [Bool.and_eq_true] at hkind
  replace hkind := hkind.2
  unfold checkRelation
  cases hf : findTour S r.vehicleId (r.shiftIndex.getD 0) with
  | none =>
    simp only
    cases hk : r.kind with
    | any =>
      simp only
      rw [if_neg]
      simp only [Bool.not_eq_true, List.any_eq_false, Bool.and_eq_true, Bool.not_eq_true', not_and]
      intro o ho id hid hres
      simp only [hk, List.all_eq_true, Bool.or_eq_true, beq_iff_eq, Bool.not_eq_true'] at hkind
      simp only [anyShiftOk, List.all_eq_true, Bool.or_eq_true, bne_iff_ne, ne_eq] at hany
      rcases hany r hr with (h | h) | h
      · exact absurd hk h
      · simp [hf] at h
      · rcases hkind o ho with h' | h'
        · exact absurd h' (h o ho)
        · rcases h' id hid with h'' | h''
          · rw [hres] at h''; simp at h''
          · simpa using h''
    | sequence => simp [hk, hf] at hkind
    | strict => simp [hk, hf] at hkind
  | some tour =>
    obtain ⟨htour, hvid, _⟩ := findTour_some S _ _ tour hf
    simp only
    have h1 : ¬ ((dedup r.jobs).any (fun id => (findJob P id).isNone && !isReservedId id) = true) := by
      simp only [Bool.not_eq_true, List.any_eq_false, Bool.and_eq_true, Bool.not_eq_true', not_and]
      intro id hid hnone
      rcases hk1 id ((mem_dedup id r.jobs).1 hid) with h | h
      · cases hj : findJob P id with
        | none => simp [hj] at h
        | some j => simp [hj] at hnone
      · simp [h]
    have h2 : ¬ (((dedup r.jobs).map (relationCount P r.jobs)).sum != r.jobs.length) = true := by
      simp only [bne_iff_ne, ne_eq, Decidable.not_not]
      rw [sum_map_congr _ _ (fun y => countP (fun z => z == y) r.jobs)
        (fun y hy => relationCount_eq P S hnores r hok y ((mem_dedup y r.jobs).1 hy))]
      exact sum_counts_self r.jobs
    rw [if_neg h1, if_neg h2]
    cases hk : r.kind with
    | strict =>
      simp only [hk, hf] at hkind
      simp only
      rw [if_neg]
      simp only [bne_iff_ne, ne_eq, Decidable.not_not]
      cases hjobs : r.jobs with
      | nil => cases tourIds tour <;> simp [intersection]
      | cons h J' =>
        rw [hjobs] at hkind
        have hhead : h ≠ "break" ∧ h ≠ "reload" := by
          simp only [strictHeadOk, List.all_eq_true, Bool.or_eq_true, bne_iff_ne, ne_eq] at hstrict
          rcases hstrict r hr with h' | h'
          · exact absurd hk h'
          · simp only [hjobs, List.head?_cons, Bool.not_eq_true', Bool.or_eq_false_iff, beq_eq_false_iff_ne, ne_eq] at h'
            exact h'
        have hc := count_listed_le P S hpart hids hnores r hok tour htour (hshape tour htour) h (by simp [hjobs])
          hhead.1 hhead.2
        rw [hjobs] at hc
        exact intersection_of_infix h J' (tourIds tour) hkind hc
    | sequence =>
      simp only [hk, hf] at hkind
      simp only
      rw [if_neg]
      have hsub := isSubseq_filter_of_all (fun id => r.jobs.contains id) r.jobs (tourIds tour) hkind
        (fun x hx => by simpa using hx)
      split
      · rw [hsub]; simp
      · rename_i hnr
        simp only [bne_iff_ne, ne_eq, Decidable.not_not]
        apply isSubseq_eq_of_length _ _ hsub
        rw [filter_length_countP]
        have e : countP (fun id => r.jobs.contains id) (tourIds tour)
            = countP (fun id => (dedup r.jobs).contains id) (tourIds tour) := by
          apply countP_congr
          intro x _
          have := mem_dedup x r.jobs
          cases h1 : r.jobs.contains x <;> cases h2 : (dedup r.jobs).contains x <;> simp_all
        rw [e, ← sum_counts _ _ (hasDup_dedup r.jobs), ← sum_counts_self r.jobs]
        apply sum_map_le
        intro y hy
        have hy' := (mem_dedup y r.jobs).1 hy
        have hres : isReservedId y = false := by
          simp only [Bool.not_eq_true, List.any_eq_false] at hnr
          exact hnr y hy'
        exact count_customer_le P S hpart hids r hok tour htour y hy' hres
    | any =>
      simp only [hk, List.all_eq_true, Bool.or_eq_true, beq_iff_eq, Bool.not_eq_true'] at hkind
      simp only
      rw [if_neg]
      simp only [Bool.not_eq_true, List.any_eq_false, Bool.and_eq_true, bne_iff_ne, ne_eq, Bool.not_eq_true', not_and]
      intro o ho hne id hid hres
      rcases hkind o ho with h' | h'
      · rw [hvid] at hne; exact absurd h' hne
      · rcases h' id hid with h'' | h''
        · rw [hres] at h''; simp at h''
        · simpa using h''

/-- **Completeness of the relations group** under the four side conditions above -/
theorem relations_complete (P : Problem) (S : Solution)
    (hsup : supported P S = true) (hval : validSolution P S = true)
    (hnores : noReservedJobIds P = true) (hids : actIdsOk S = true)
    (hany : anyShiftOk P S = true) (hstrict : strictHeadOk P = true) :
    ∀ r ∈ checkRelations P S, r = none := by
  obtain ⟨_, hpart, _, _, _, _, hrel, _, _, _⟩ := (valid_iff P S).1 hval
  simp only [supported, Bool.and_eq_true, List.all_eq_true] at hsup
  simp only [relationsOk, List.all_eq_true] at hrel
  intro r hr
  simp only [checkRelations, List.mem_cons, List.mem_nil_iff, or_false] at hr
  subst hr
  rw [firstErrOf_eq_none]
  intro r hr
  exact relation_complete P S (fun t ht => (hsup.2 t ht).1) hpart hnores hids hany hstrict r hr (hrel r hr)

/-! ## breaks (`check_break_assignment`)

Side conditions: `pointStops` is input well-formedness (the model's fragment is "point stops only", but the specification
never says that an activity is served at the location of its stop); `breakChoiceUnique` and `noLeadingBreakPair` close
genuine gaps of the specification (counterexamples `breakGap1_*`, `breakGap2_*` below). -/

/-- input well-formedness (solution): an activity that names a location names the location of its stop -/
def pointStops (S : Solution) : Bool :=
  S.tours.all (fun t => t.stops.all (fun s => s.acts.all (fun a => match a.loc with | some l => l == s.loc | none => true)))

/-- specification gap 3 (breaks): the specification accepts a break activity when SOME break of the shift fits it in time
and place; the checker resolves the activity to the FIRST break of the shift whose window meets its time and tests the place
against that one only. Condition: the time of a break activity meets the window of at most one break of the shift. -/
def breakChoiceUnique (P : Problem) (S : Solution) : Bool :=
  S.tours.all (fun t =>
    match shiftOf P t with
    | none => true
    | some sh => t.stops.all (fun s => s.acts.all (fun a => a.ty != .brk ||
        decide (countP (fun b => meets (breakWindow t b) (actTime s a)) sh.breaks ≤ 1))))

/-- specification gap 4 (breaks): the checker sees a break as the `to` of a leg of its stop, the first activity of a stop
only when the second one is no break; a stop that starts with two breaks leaves the first one unmatched. Condition: no stop
starts with two break activities. -/
def noLeadingBreakPair (S : Solution) : Bool :=
  S.tours.all (fun t => t.stops.all (fun s =>
    match s.acts with
    | a :: b :: _ => !(a.ty == .brk && b.ty == .brk)
    | _ => true))

/-- does the leg show a break to `as_leg_info_with_break` -/
def legHasBreak (leg : Bool × Option Act × Act) : Bool :=
  leg.2.2.ty == .brk || (leg.1 && (match leg.2.1 with | some f => f.ty == .brk | none => false))

theorem meets_comm (a b : Int × Int) : meets a b = meets b a := by
  unfold meets; exact Bool.and_comm _ _

theorem unique_of_countP_le_one {α} (p : α → Bool) (l : List α) (h : countP p l ≤ 1) (x y : α) (hx : x ∈ l) (hy : y ∈ l)
    (hpx : p x = true) (hpy : p y = true) : x = y := by
  induction l with
  | nil => simp at hx
  | cons z rest ih =>
    simp only [countP] at h
    simp only [List.mem_cons] at hx hy
    by_cases hz : p z = true
    · rw [if_pos hz] at h
      have h0 : countP p rest = 0 := by omega
      have hnone : ∀ w ∈ rest, p w = true → False := by
        intro w hw hpw
        have : 0 < countP p rest := (countP_pos_iff p rest).2 ⟨w, hw, hpw⟩
        omega
      rcases hx with rfl | hx
      · rcases hy with rfl | hy
        · rfl
        · exact (hnone y hy hpy).elim
      · exact (hnone x hx hpx).elim
    · rw [if_neg hz] at h
      rcases hx with rfl | hx
      · exact absurd hpx hz
      · rcases hy with rfl | hy
        · exact absurd hpy hz
        · exact ih (by omega) hx hy

theorem breakOf_eq (P : Problem) (t : Tour) (sh : Shift) (hvs : vehicleShift P t = .ok sh) (s : Stop) (a : Act) :
    breakOf P t s a = if a.ty == .brk then sh.breaks.find? (fun b => meets (breakWindow t b) (actTime s a)) else none := by
  unfold breakOf activityType
  simp only [hvs]
  cases hty : a.ty with
  | departure => simp
  | arrival => simp
  | pickup => cases findJob P a.jobId <;> simp
  | delivery => cases findJob P a.jobId <;> simp
  | replacement => cases findJob P a.jobId <;> simp
  | service => cases findJob P a.jobId <;> simp
  | brk => cases hf : sh.breaks.find? (fun b => meets (breakWindow t b) (actTime s a)) <;> simp [hf]
  | reload => cases hf : sh.reloads.find? (fun r => r.loc == actLoc s a && r.tag == a.tag) <;> simp [hf]
  | recharge => simp
  | other => simp

/-- what the specification (plus uniqueness of the break in time) says about a break activity: the checker resolves it to a
break of the shift whose window it meets and one of whose places it is served at -/
theorem brk_resolved (P : Problem) (S : Solution) (t : Tour) (sh : Shift) (hso : shiftOf P t = some sh)
    (hvs : vehicleShift P t = .ok sh) (hok : breaksTourOk P S t = true)
    (huniq : ∀ s ∈ t.stops, ∀ a ∈ s.acts, a.ty = .brk →
      countP (fun b => meets (breakWindow t b) (actTime s a)) sh.breaks ≤ 1)
    (s : Stop) (hs : s ∈ t.stops) (a : Act) (ha : a ∈ s.acts) (hty : a.ty = .brk) :
    ∃ b, breakOf P t s a = some b ∧ meets (breakWindow t b) (actTime s a) = true ∧
      b.places.any (fun p => match p.loc with | some l => actLoc s a == l | none => actLoc s a == s.loc) = true := by
  unfold breaksTourOk at hok
  simp only [hso, Bool.and_eq_true, List.all_eq_true, Bool.or_eq_true, bne_iff_ne, ne_eq] at hok
  rcases hok.1 s hs a ha with h | h
  · exact absurd hty h
  · rw [List.any_eq_true] at h
    obtain ⟨b', hb', hfit⟩ := h
    rw [Bool.and_eq_true] at hfit
    rw [breakOf_eq P t sh hvs, hty]
    simp only [beq_self_eq_true, if_true]
    cases hf : sh.breaks.find? (fun b => meets (breakWindow t b) (actTime s a)) with
    | none =>
      have := List.find?_eq_none.1 hf b' hb'
      exact absurd hfit.1 this
    | some b =>
      have hb := List.mem_of_find?_eq_some hf
      have hpb := List.find?_some hf
      have e : b = b' := unique_of_countP_le_one _ _ (huniq s hs a ha hty) b b' hb hb' hpb hfit.1
      subst e
      exact ⟨b, rfl, hpb, hfit.2⟩

/-- the verdict of one leg: a leg that shows a break passes the time and the place test, any other leg is skipped -/
theorem legBreak_eq (P : Problem) (t : Tour) (s : Stop)
    (hres : ∀ a ∈ s.acts, a.ty = .brk →
      ∃ b, breakOf P t s a = some b ∧ meets (breakWindow t b) (actTime s a) = true ∧
        b.places.any (fun p => match p.loc with | some l => actLoc s a == l | none => actLoc s a == s.loc) = true)
    (hnb : ∀ a : Act, a.ty ≠ .brk → breakOf P t s a = none)
    (hpt : ∀ a ∈ s.acts, actLoc s a = s.loc)
    (leg : Bool × Option Act × Act) (hto : leg.2.2 ∈ s.acts) (hfrom : ∀ f, leg.2.1 = some f → f ∈ s.acts) :
    legBreak P t s leg = if legHasBreak leg then some none else none := by
  obtain ⟨first, from_, to⟩ := leg
  simp only at hto hfrom
  -- the place test, from the specification's place clause
  have hany : ∀ (b : Break) (a : Act), a ∈ s.acts →
      b.places.any (fun p => match p.loc with | some l => actLoc s a == l | none => actLoc s a == s.loc) = true →
      ∃ p ∈ b.places, p.loc = none ∨ p.loc = some s.loc := by
    intro b a ha h
    rw [hpt a ha] at h
    rw [List.any_eq_true] at h
    obtain ⟨p, hp, h⟩ := h
    refine ⟨p, hp, ?_⟩
    cases hpl : p.loc with
    | none => exact Or.inl rfl
    | some l =>
      simp only [hpl, beq_iff_eq] at h
      exact Or.inr (by rw [h])
  have hlocs : ∀ a ∈ s.acts, a.loc = none ∨ a.loc = some s.loc := by
    intro a ha
    have := hpt a ha
    unfold actLoc at this
    cases hl : a.loc with
    | none => exact Or.inl rfl
    | some l => simp only [hl] at this; exact Or.inr (by rw [this])
  cases from_ with
  | none =>
    unfold legBreak legHasBreak
    simp only [hpt to hto]
    by_cases hty : to.ty = .brk
    · obtain ⟨b, hb, hm, hloc⟩ := hres to hto hty
      simp only [hb, hty, beq_self_eq_true, Bool.true_or, if_true, meets_comm (actTime s to), hm, Bool.not_true,
        Bool.false_eq_true, if_false]
      rw [if_pos]
      obtain ⟨p, hp, hpl⟩ := hany b to hto hloc
      rw [List.any_eq_true]
      refine ⟨p, hp, ?_⟩
      rcases hpl with h | h <;> simp [h]
    · have hty' : (to.ty == ATy.brk) = false := by simpa using hty
      simp [hnb to hty, hty']
  | some f =>
    have hfm : f ∈ s.acts := hfrom f rfl
    unfold legBreak legHasBreak
    simp only [hpt to hto]
    by_cases hty : to.ty = .brk
    · obtain ⟨b, hb, hm, hloc⟩ := hres to hto hty
      simp only [hb, hty, beq_self_eq_true, Bool.true_or, if_true, meets_comm (actTime s to), hm, Bool.not_true,
        Bool.false_eq_true, if_false]
      rw [if_pos]
      obtain ⟨p, hp, hpl⟩ := hany b to hto hloc
      rw [List.any_eq_true]
      refine ⟨p, hp, ?_⟩
      rcases hpl with h | h <;> rcases hlocs f hfm with h2 | h2 <;> simp [h, h2]
    · have hty' : (to.ty == ATy.brk) = false := by simpa using hty
      simp only [hnb to hty, hty', Bool.false_or]
      cases first with
      | false => simp
      | true =>
        simp only [if_true, Bool.true_and]
        by_cases hf : f.ty = .brk
        · obtain ⟨b, hb, hm, hloc⟩ := hres f hfm hf
          simp only [hb, hf, Option.map_some, beq_self_eq_true, if_true, meets_comm (actTime s f), hm, Bool.not_true,
            Bool.false_eq_true, if_false]
          rw [if_pos]
          obtain ⟨p, hp, hpl⟩ := hany b f hfm hloc
          rw [List.any_eq_true]
          refine ⟨p, hp, ?_⟩
          rcases hpl with h | h <;> rcases hlocs f hfm with h2 | h2 <;> simp [h, h2]
        · have hf' : (f.ty == ATy.brk) = false := by simpa using hf
          simp [hnb f hf, hf']

theorem matchedBreaks_ok (P : Problem) (t : Tour) (L : List (Stop × (Bool × Option Act × Act))) (acc : Nat)
    (h : ∀ x ∈ L, legBreak P t x.1 x.2 = if legHasBreak x.2 then some none else none) :
    matchedBreaks P t acc L = .ok (acc + countP (fun x => legHasBreak x.2) L) := by
  induction L generalizing acc with
  | nil => simp [matchedBreaks, countP]
  | cons x rest ih =>
    obtain ⟨s, leg⟩ := x
    have hx := h (s, leg) (by simp)
    simp only at hx
    have ih' := fun acc => ih acc (fun y hy => h y (by simp [hy]))
    simp only [matchedBreaks, countP]
    by_cases hb : legHasBreak leg = true
    · rw [if_pos hb] at hx
      simp only [hx, hb, if_true, ih']
      congr 1; omega
    · rw [if_neg hb] at hx
      simp only [hx, hb, Bool.false_eq_true, if_false, ih']
      congr 1; omega

theorem actLegsGo_mem (first : Bool) (acts : List Act) (leg : Bool × Option Act × Act) (h : leg ∈ actLegsGo first acts) :
    leg.2.2 ∈ acts ∧ ∀ f, leg.2.1 = some f → f ∈ acts := by
  induction acts generalizing first with
  | nil => simp [actLegsGo] at h
  | cons a tl ih =>
    cases tl with
    | nil => simp [actLegsGo] at h
    | cons b rest =>
      simp only [actLegsGo, List.mem_cons] at h
      rcases h with rfl | h
      · simp
      · obtain ⟨h1, h2⟩ := ih false h
        exact ⟨List.mem_cons_of_mem _ h1, fun f hf => List.mem_cons_of_mem _ (h2 f hf)⟩

theorem actLegs_mem (acts : List Act) (leg : Bool × Option Act × Act) (h : leg ∈ actLegs acts) :
    leg.2.2 ∈ acts ∧ ∀ f, leg.2.1 = some f → f ∈ acts := by
  cases acts with
  | nil => simp [actLegs] at h
  | cons a tl =>
    cases tl with
    | nil =>
      simp only [actLegs, List.mem_cons, List.mem_nil_iff, or_false] at h
      subst h
      simp
    | cons b rest =>
      simp only [actLegs] at h
      exact actLegsGo_mem true _ leg h

theorem countP_actLegsGo_false (b : Act) (rest : List Act) :
    countP legHasBreak (actLegsGo false (b :: rest)) = countP (fun a => a.ty == .brk) rest := by
  induction rest generalizing b with
  | nil => simp [actLegsGo, countP]
  | cons c rest' ih =>
    simp only [actLegsGo, countP, ih c]
    simp [legHasBreak]

/-- unless a stop starts with two breaks, its legs show each of its break activities exactly once -/
theorem countP_actLegs (acts : List Act)
    (h : (match acts with | a :: b :: _ => !(a.ty == .brk && b.ty == .brk) | _ => true) = true) :
    countP legHasBreak (actLegs acts) = countP (fun a => a.ty == .brk) acts := by
  cases acts with
  | nil => simp [actLegs, countP]
  | cons a tl =>
    cases tl with
    | nil => simp [actLegs, countP, legHasBreak]
    | cons b rest =>
      simp only [Bool.not_eq_true', Bool.and_eq_false_iff] at h
      simp only [actLegs, actLegsGo, countP, countP_actLegsGo_false]
      simp only [legHasBreak, Bool.true_and]
      rcases h with h | h
      · simp only [h, Bool.or_false, Bool.false_eq_true, if_false]; omega
      · simp only [h, Bool.false_or, Bool.false_eq_true, if_false]; omega

theorem countP_legs_stops (stops : List Stop)
    (h : ∀ s ∈ stops, (match s.acts with | a :: b :: _ => !(a.ty == .brk && b.ty == .brk) | _ => true) = true) :
    countP (fun x : Stop × (Bool × Option Act × Act) => legHasBreak x.2)
      (stops.flatMap (fun s => (actLegs s.acts).map (fun l => (s, l))))
    = countP (fun a => a.ty == .brk) (stops.flatMap (fun s => s.acts)) := by
  induction stops with
  | nil => rfl
  | cons s rest ih =>
    simp only [List.flatMap_cons, countP_append, countP_map, ih (fun x hx => h x (by simp [hx]))]
    rw [countP_actLegs s.acts (h s (by simp))]

/-- **Completeness of the breaks group** under the three side conditions above -/
theorem breaks_complete (P : Problem) (S : Solution)
    (hsup : supported P S = true) (hval : validSolution P S = true)
    (hpt : pointStops S = true) (huniq : breakChoiceUnique P S = true) (hpair : noLeadingBreakPair S = true) :
    ∀ r ∈ checkBreaks P S, r = none := by
  obtain ⟨_, _, _, _, _, _, _, hbrk, _, _⟩ := (valid_iff P S).1 hval
  simp only [supported, Bool.and_eq_true, List.all_eq_true] at hsup
  simp only [breaksOk, List.all_eq_true] at hbrk
  simp only [pointStops, List.all_eq_true] at hpt
  simp only [breakChoiceUnique, List.all_eq_true] at huniq
  simp only [noLeadingBreakPair, List.all_eq_true] at hpair
  intro r hr
  simp only [checkBreaks, List.mem_cons, List.mem_nil_iff, or_false] at hr
  subst hr
  rw [firstErrOf_eq_none]
  intro t ht
  have hok := hbrk t ht
  cases hso : shiftOf P t with
  | none => unfold breaksTourOk at hok; simp [hso] at hok
  | some sh =>
    have hvs := shiftAgrees_unpack P t sh hso (hsup.2 t ht).2
    have hu : ∀ s ∈ t.stops, ∀ a ∈ s.acts, a.ty = .brk →
        countP (fun b => meets (breakWindow t b) (actTime s a)) sh.breaks ≤ 1 := by
      intro s hs a ha hty
      have := huniq t ht
      simp only [hso, List.all_eq_true, Bool.or_eq_true, bne_iff_ne, ne_eq, decide_eq_true_eq] at this
      rcases this s hs a ha with h | h
      · exact absurd hty h
      · exact h
    have hlegs : ∀ x ∈ t.stops.flatMap (fun s => (actLegs s.acts).map (fun l => (s, l))),
        legBreak P t x.1 x.2 = if legHasBreak x.2 then some none else none := by
      intro x hx
      simp only [List.mem_flatMap, List.mem_map] at hx
      obtain ⟨s, hs, leg, hleg, rfl⟩ := hx
      obtain ⟨hto, hfrom⟩ := actLegs_mem s.acts leg hleg
      apply legBreak_eq P t s
      · intro a ha hty
        exact brk_resolved P S t sh hso hvs hok hu s hs a ha hty
      · intro a hty
        rw [breakOf_eq P t sh hvs, if_neg (by simpa using hty)]
      · intro a ha
        have := hpt t ht s hs a ha
        unfold actLoc
        cases hl : a.loc with
        | none => rfl
        | some l => simp only [hl, beq_iff_eq] at this; simp [this]
      · exact hto
      · exact hfrom
    unfold checkBreaksTour
    simp only [hvs, matchedBreaks_ok P t _ 0 hlegs, countP_legs_stops t.stops (fun s hs => hpair t ht s hs)]
    have hacts : tourActs t = t.stops.flatMap (fun s => s.acts) := rfl
    rw [← hacts]
    rw [if_neg (by simp)]
    unfold breaksTourOk at hok
    simp only [hso, Bool.and_eq_true, decide_eq_true_eq] at hok
    have hsa : shouldAssign t = breakDue t := funext (shouldAssign_eq_breakDue t)
    rw [hsa, if_neg]
    simp only [Bool.or_eq_true, decide_eq_true_eq]
    omega

/-! ## the combined statement, matcher still a hypothesis -/

/-- `checker_complete_partial` with the relations, breaks and job-group hypotheses discharged (under the side conditions
named above); only acceptance by the activity matcher is left as a hypothesis here (see `checker_complete` below) -/
theorem checker_complete_partial2 (P : Problem) (S : Solution)
    (hsup : supported P S = true) (hval : validSolution P S = true)
    (hnores : noReservedJobIds P = true) (hids : actIdsOk S = true)
    (hany : anyShiftOk P S = true) (hstrict : strictHeadOk P = true)
    (hpt : pointStops S = true) (huniq : breakChoiceUnique P S = true) (hpair : noLeadingBreakPair S = true)
    (hmatch : checkMatch P S = none) :
    check P S = [] :=
  checker_complete_partial P S hsup hval
    (relations_complete P S hsup hval hnores hids hany hstrict)
    (breaks_complete P S hsup hval hpt huniq hpair)
    hmatch (groups_complete P S hval)

/-! ## counterexamples: supported, valid by the specification, rejected by the checker

Each one shows that the side condition it violates cannot be dropped: the specification `validSolution` does not imply
acceptance by that checker group. -/

/-- a vehicle with two (identical) shifts -/
def twoShiftVehicle : VType := { exVehicle with shifts := [exShift, exShift] }

/-- gap 1 (`any`): the relation pins `j1` to vehicle `v1` (shift index defaults to 0); `v1` serves it in its shift 1 -/
def anyGapProblem : Problem :=
  { exProblem with vehicles := [twoShiftVehicle],
                   relations := [{ kind := .any, jobs := ["j1"], vehicleId := "v1", shiftIndex := none }] }

def anyGapSolution : Solution := { exSolution with tours := [{ exTour 2 10 with shiftIndex := 1 }] }

/-- missing clause: the specification's `any` rule only excludes tours of ANOTHER vehicle; the checker, not finding the
tour (v1, shift 0), rejects any tour serving the job, the one of v1 in shift 1 included -/
example : supported anyGapProblem anyGapSolution = true ∧ validSolution anyGapProblem anyGapSolution = true ∧
    checkRelations anyGapProblem anyGapSolution = [some .rel_any] ∧ anyShiftOk anyGapProblem anyGapSolution = false := by
  decide

/-- gap 2 (`strict`): a tour with two reloads (ids: departure, j1, reload, j2, reload, j3, arrival) and the strict relation
`[reload, j3]` -/
def strictGapProblem : Problem :=
  { n := 3, profiles := exProblem.profiles, jobs := [resJob "j1" 1, resJob "j2" 2, resJob "j3" 1], vehicles := [resVehicle],
    resources := [("res0", [2, 2])],
    relations := [{ kind := .strict, jobs := ["reload", "j3"], vehicleId := "v1", shiftIndex := none }] }

def reloadAct : Act := { jobId := "reload", ty := .reload, tag := some "rl0", loc := none, time := none }

def strictGapSolution : Solution :=
  { stat := { distance := 60, duration := 75 }, unassigned := [], violations := [],
    tours := [{ vehicleId := "v1", typeId := "t", shiftIndex := 0, stat := { distance := 60, duration := 75 },
                stops := [{ loc := 0, arrival := 0, departure := 0, distance := 0, load := [1, 1], acts := [exAct "departure" .departure] },
                          { loc := 1, arrival := 10, departure := 15, distance := 10, load := [0, 0], acts := [exAct "j1" .delivery] },
                          { loc := 0, arrival := 25, departure := 25, distance := 20, load := [1, 1], acts := [reloadAct] },
                          { loc := 2, arrival := 35, departure := 40, distance := 30, load := [0, 0], acts := [exAct "j2" .delivery] },
                          { loc := 0, arrival := 50, departure := 50, distance := 40, load := [1, 1], acts := [reloadAct] },
                          { loc := 1, arrival := 60, departure := 65, distance := 50, load := [0, 0], acts := [exAct "j3" .delivery] },
                          { loc := 0, arrival := 75, departure := 75, distance := 60, load := [0, 0], acts := [exAct "arrival" .arrival] }] }] }

/-- missing clause: the specification asks for SOME contiguous occurrence of the listed ids (`isInfix`), the checker's
`intersection` only looks at the one starting at the FIRST occurrence of the first listed id (here the first reload, which
is followed by j2) -/
example : supported strictGapProblem strictGapSolution = true ∧ validSolution strictGapProblem strictGapSolution = true ∧
    checkRelations strictGapProblem strictGapSolution = [some .rel_strict] ∧ strictHeadOk strictGapProblem = false := by
  decide

/-! ### breaks -/

/-- a break by time window [0, 100] with one place (duration 5) -/
def exBreak (loc : Option Nat) : Break :=
  { offset := false, t0 := 0, t1 := 100, places := [{ dur := 5, loc := loc, tag := none }], policy := none }

def brkProblem (bs : List Break) : Problem :=
  { exProblem with vehicles := [{ exVehicle with shifts := [{ exShift with breaks := bs }], tourSize := none }],
                   relations := [] }

def timedAct (id : String) (ty : ATy) (a b : Int) : Act := { jobId := id, ty, tag := none, loc := none, time := some (a, b) }

/-- the tour of `exSolution` with the activities `acts1` in its stop at location 1, which is left at `dep1` -/
def brkSolution (acts1 : List Act) (dep1 : Int) (viol : List (String × Nat)) : Solution :=
  { stat := { distance := 30, duration := dep1 + 25 }, unassigned := [], violations := viol,
    tours := [{ vehicleId := "v1", typeId := "t", shiftIndex := 0, stat := { distance := 30, duration := dep1 + 25 },
                stops := [{ loc := 0, arrival := 0, departure := 0, distance := 0, load := [2], acts := [exAct "departure" .departure] },
                          { loc := 1, arrival := 10, departure := dep1, distance := 10, load := [1], acts := acts1 },
                          { loc := 2, arrival := dep1 + 10, departure := dep1 + 15, distance := 20, load := [0],
                            acts := [exAct "j2" .delivery] },
                          { loc := 0, arrival := dep1 + 25, departure := dep1 + 25, distance := 30, load := [0],
                            acts := [exAct "arrival" .arrival] }] }] }

/-- gap 3: two breaks with overlapping windows, the first one to be taken at location 2, the second anywhere; the break is
taken at location 1 after j1, the other break is reported as a violation.
Missing clause: the specification lets ANY break of the shift justify the activity, the checker resolves it to the first
break whose window meets its time and compares the place with that one only. -/
example :
    let P := brkProblem [exBreak (some 2), exBreak none]
    let S := brkSolution [timedAct "j1" .delivery 10 15, timedAct "break" .brk 15 20] 20 [("v1", 0)]
    supported P S = true ∧ validSolution P S = true ∧ checkBreaks P S = [some .brk_loc] ∧
      breakChoiceUnique P S = false := by
  decide

/-- gap 4: a stop that starts with two breaks. Missing clause: nothing in the specification forbids it, the checker counts
only one of them as matched. -/
example :
    let P := brkProblem [exBreak none, exBreak none]
    let S := brkSolution [timedAct "break" .brk 10 15, timedAct "break" .brk 15 20, timedAct "j1" .delivery 20 25] 25 []
    supported P S = true ∧ validSolution P S = true ∧ checkBreaks P S = [some .brk_match] ∧
      noLeadingBreakPair S = false := by
  decide

/-! ## the activity matcher (`check_jobs_match`)

Side conditions. Input well-formedness: `jobTagsOk` (the matcher's own precondition on multi-task jobs), `reloadsApart`
(reload places of a shift are told apart by location or tag, as the specification's `problemShapeOk` asks of the places of a
job). Gaps of the specification, all of the same kind: the specification says "SOME place / time window / break fits", the
matcher commits to the FIRST candidate: `windowChoiceUnique`, `breakPlaceUnique` (and `breakChoiceUnique` from the breaks
group); `oneBreakPerStop`: the specification's rule for a break by offset ignores a second, overlapping break activity of the
same stop, the matcher adds its time. Counterexamples `matchGap*` below. -/

/-- input well-formedness (problem): a job with several tasks has at least as many distinct place tags as tasks (the
matcher refuses such a job otherwise) -/
def jobTagsOk (P : Problem) : Bool :=
  P.jobs.all (fun j =>
    !(decide ((singlesOfJob j).length > 1) &&
      decide ((dedup (((singlesOfJob j).flatMap id).filterMap (fun p => p.tag))).length < (singlesOfJob j).length)))

/-- input well-formedness (problem): the reload places of a shift are told apart by location or tag -/
def reloadsApart (P : Problem) : Bool :=
  P.vehicles.all (fun v => v.shifts.all (fun sh => !hasDup (sh.reloads.map (fun r => (r.loc, r.tag)))))

/-- specification gap 5 (matcher, time windows): the matcher takes the FIRST time window of the place that meets the
activity's time. Condition: the time of a job / reload activity meets at most one time window of the place it is served at. -/
def windowChoiceUnique (P : Problem) (S : Solution) : Bool :=
  S.tours.all (fun t => t.stops.all (fun s => s.acts.all (fun a =>
    (!isJobTy a.ty ||
      (match findJob P a.jobId with
       | none => true
       | some j => j.tasks.all (fun tk => tk.places.all (fun p =>
           !(p.loc == actLoc s a && p.tag == a.tag) ||
             decide (countP (fun w => TW.meets w (actTime s a)) p.tws ≤ 1))))) &&
    (a.ty != .reload ||
      (match shiftOf P t with
       | none => true
       | some sh => sh.reloads.all (fun r =>
           !(r.loc == actLoc s a && r.tag == a.tag) ||
             decide (countP (fun w => TW.meets w (actTime s a)) r.tws ≤ 1)))))))

/-- specification gap 6 (matcher, break places): the matcher takes the FIRST place of a break that carries the activity's
tag and fits its location. Condition: at most one place of a break whose window the activity meets does. -/
def breakPlaceUnique (P : Problem) (S : Solution) : Bool :=
  S.tours.all (fun t =>
    match shiftOf P t with
    | none => true
    | some sh => t.stops.all (fun s => s.acts.all (fun a => a.ty != .brk ||
        sh.breaks.all (fun b => !meets (breakWindow t b) (actTime s a) ||
          decide (countP (fun q : BreakPlace => q.tag == a.tag &&
            (match q.loc with | some l => l == actLoc s a | none => true)) b.places ≤ 1)))))

/-- specification gap 7 (matcher, break by offset): condition: a stop holds at most one break activity -/
def oneBreakPerStop (S : Solution) : Bool :=
  S.tours.all (fun t => t.stops.all (fun s => decide (countP (fun a => a.ty == .brk) s.acts ≤ 1)))

/-- a job / reload place as the matcher sees it -/
def mplaceOf (p : Place) : MPlace := { loc := some p.loc, dur := p.dur, times := p.tws.map TSpan.window, tag := p.tag }

theorem singleOfTask_eq (tk : Task) : singleOfTask tk = tk.places.map mplaceOf := rfl

theorem singleOfReload_eq (r : Place) : singleOfReload r = [r].map mplaceOf := rfl

/-- what `match_place` computes on a list of job / reload places -/
def placeInfo (ps : List Place) (loc : Nat) (t : Int × Int) (tag : Option String) : Option (Int × Int) :=
  match ps.find? (fun p => p.tag == tag && (p.loc == loc && p.tws.any (fun w => TW.meets w t))) with
  | none => none
  | some p =>
    match p.tws.find? (fun w => TW.meets w t) with
    | none => none
    | some w => some (p.dur, w.s)

theorem matchPlace_places (ps : List Place) (loc : Nat) (start : Int) (t : Int × Int) (tag : Option String) :
    matchPlace (ps.map mplaceOf) loc start t tag = placeInfo ps loc t tag := by
  unfold matchPlace placeInfo
  rw [List.find?_map]
  have hpred : ((fun p : MPlace => p.tag == tag && placeFits p loc start t) ∘ mplaceOf)
      = (fun p : Place => p.tag == tag && (p.loc == loc && p.tws.any (fun w => TW.meets w t))) := by
    funext p
    simp only [Function.comp, mplaceOf, placeFits, List.any_map]
    rfl
  rw [hpred]
  cases hf : ps.find? (fun p => p.tag == tag && (p.loc == loc && p.tws.any (fun w => TW.meets w t))) with
  | none => rfl
  | some p =>
    simp only [Option.map_some, mplaceOf]
    rw [List.find?_map]
    have hp2 : ((fun sp : TSpan => sp.meets start t) ∘ TSpan.window) = (fun w : TW => TW.meets w t) := by
      funext w; rfl
    rw [hp2]
    cases hw : p.tws.find? (fun w => TW.meets w t) with
    | none => rfl
    | some w => rfl

theorem placeInfo_some_mem (ps : List Place) (loc : Nat) (t : Int × Int) (tag : Option String) (info : Int × Int)
    (h : placeInfo ps loc t tag = some info) : ∃ p ∈ ps, p.loc = loc ∧ p.tag = tag := by
  unfold placeInfo at h
  cases hf : ps.find? (fun p => p.tag == tag && (p.loc == loc && p.tws.any (fun w => TW.meets w t))) with
  | none => simp [hf] at h
  | some p =>
    have hp := List.find?_some hf
    simp only [Bool.and_eq_true, beq_iff_eq] at hp
    exact ⟨p, List.mem_of_find?_eq_some hf, hp.2.1, hp.1⟩

/-- when only one place carries the tag at the location and only one of its windows meets the time, `match_place` returns
that place and that window -/
theorem placeInfo_of_unique (ps : List Place) (loc : Nat) (t : Int × Int) (tag : Option String) (p : Place) (hp : p ∈ ps)
    (hloc : p.loc = loc) (htag : p.tag = tag) (w : TW) (hw : w ∈ p.tws) (hm : TW.meets w t = true)
    (hu : ∀ p' ∈ ps, p'.loc = loc → p'.tag = tag → p' = p) (hc : countP (fun w => TW.meets w t) p.tws ≤ 1) :
    placeInfo ps loc t tag = some (p.dur, w.s) := by
  unfold placeInfo
  cases hf : ps.find? (fun p => p.tag == tag && (p.loc == loc && p.tws.any (fun w => TW.meets w t))) with
  | none =>
    exfalso
    have := List.find?_eq_none.1 hf p hp
    apply this
    simp only [Bool.and_eq_true, beq_iff_eq, List.any_eq_true]
    exact ⟨htag, hloc, w, hw, hm⟩
  | some p' =>
    have hp' := List.find?_some hf
    simp only [Bool.and_eq_true, beq_iff_eq] at hp'
    have e : p' = p := hu p' (List.mem_of_find?_eq_some hf) hp'.2.1 hp'.1
    subst e
    simp only
    cases hfw : p'.tws.find? (fun w => TW.meets w t) with
    | none =>
      exfalso
      exact List.find?_eq_none.1 hfw w hw hm
    | some w' =>
      have e : w' = w := unique_of_countP_le_one _ _ hc w' w (List.mem_of_find?_eq_some hfw) hw
        (List.find?_some (p := fun w => TW.meets w t) hfw) hm
      subst e
      rfl

/-- members of a list whose images under `f` are pairwise different are told apart by `f` -/
theorem inj_of_nodup_map {α β} [BEq β] [LawfulBEq β] (f : α → β) (l : List α) (h : hasDup (l.map f) = false)
    (x y : α) (hx : x ∈ l) (hy : y ∈ l) (hxy : f x = f y) : x = y := by
  induction l with
  | nil => simp at hx
  | cons z rest ih =>
    simp only [List.map_cons, hasDup, Bool.or_eq_false_iff] at h
    simp only [List.mem_cons] at hx hy
    have hnot : ∀ u ∈ rest, f u = f z → False := by
      intro u hu hfu
      have : (rest.map f).contains (f z) = true := by
        rw [List.contains_iff_mem, List.mem_map]
        exact ⟨u, hu, hfu⟩
      rw [this] at h; simp at h
    rcases hx with rfl | hx
    · rcases hy with rfl | hy
      · rfl
      · exact (hnot y hy hxy.symm).elim
    · rcases hy with rfl | hy
      · exact (hnot x hx hxy).elim
      · exact ih h.2 hx hy

/-- under `oneBreakPerStop` no other break of the stop adds to the time of a break activity -/
theorem extraTime_brk_zero (s : Stop) (a : Act) (ha : a ∈ s.acts) (hty : a.ty = .brk)
    (hone : countP (fun a => a.ty == .brk) s.acts ≤ 1) (dur : Int) : extraTime s a dur = 0 := by
  unfold extraTime
  simp only
  have h0 : ∀ (f : Act → Option Int), (∀ b ∈ s.acts, f b = none) → (s.acts.findSome? f).getD 0 = 0 := by
    intro f hf; rw [List.findSome?_eq_none_iff.2 hf]; rfl
  apply h0
  intro b hb
  rw [if_neg]
  intro hcond
  simp only [Bool.and_eq_true, beq_iff_eq, bne_iff_ne, ne_eq] at hcond
  have : b = a := unique_of_countP_le_one _ _ hone b a hb ha (by simp [hcond.1]) (by simp [hty])
  exact hcond.2 this

theorem mem_singlesOfJob (j : Job) (sg : List MPlace) (h : sg ∈ singlesOfJob j) :
    ∃ tk ∈ j.tasks, sg = singleOfTask tk := by
  unfold singlesOfJob tasksOf at h
  simp only [List.mem_map, List.mem_append, List.mem_filter] at h
  obtain ⟨tk, hmem, rfl⟩ := h
  rcases hmem with ((h | h) | h) | h <;> exact ⟨tk, h.1, rfl⟩

theorem singleOfTask_mem (j : Job) (k : TKind) (tk : Task) (h : tk ∈ tasksOf j k) : singleOfTask tk ∈ singlesOfJob j := by
  unfold singlesOfJob
  rw [List.mem_map]
  refine ⟨tk, ?_, rfl⟩
  simp only [List.mem_append]
  cases k with
  | pickup => exact Or.inl (Or.inl (Or.inl h))
  | delivery => exact Or.inl (Or.inl (Or.inr h))
  | replacement => exact Or.inl (Or.inr h)
  | service => exact Or.inr h

/-- the specification's clause for a job activity -/
theorem actMatches_job (P : Problem) (t : Tour) (s : Stop) (a : Act) (h : isJobTy a.ty = true) :
    actMatches P t s a =
      (match findJob P a.jobId, kindOfTy a.ty with
       | some j, some k =>
         (tasksOf j k).any (fun tk => tk.places.any (fun p =>
           p.loc == actLoc s a && p.tag == a.tag &&
             p.tws.any (fun w => TW.meets w (actTime s a) && serviceOk s a w.s p.dur)))
       | _, _ => false) := by
  unfold actMatches
  cases hty : a.ty <;> first | rfl | (simp [isJobTy, hty] at h)

/-- the matcher's filter for a job activity -/
theorem actUnmatched_job (P : Problem) (t : Tour) (s : Stop) (a : Act) (h : isJobTy a.ty = true) :
    actUnmatched P t s a =
      (match findJob P a.jobId with
       | none => true
       | some j =>
         if (singlesOfJob j).length > 1 &&
            (dedup (((singlesOfJob j).flatMap id).filterMap (fun p => p.tag))).length < (singlesOfJob j).length then true
         else
           (match (singlesOfJob j).findSome? (fun sg => matchPlace sg (actLoc s a) (tourStart t) (actTime s a) a.tag) with
            | none => true
            | some (dur, twStart) =>
              (actTime s a).2 != max (actTime s a).1 twStart + dur + extraTime s a dur)) := by
  unfold actUnmatched
  cases hty : a.ty <;> first | rfl | (simp [isJobTy, hty] at h)

/-- a job activity that satisfies the specification's clause passes the matcher -/
theorem job_act_matched (P : Problem) (hprob : problemShapeOk P = true) (htags : jobTagsOk P = true)
    (t : Tour) (s : Stop) (a : Act) (hjob : isJobTy a.ty = true)
    (hwin : ∀ j, findJob P a.jobId = some j → ∀ tk ∈ j.tasks, ∀ p ∈ tk.places, p.loc = actLoc s a → p.tag = a.tag →
      countP (fun w => TW.meets w (actTime s a)) p.tws ≤ 1)
    (hm : actMatches P t s a = true) : actUnmatched P t s a = false := by
  rw [actMatches_job P t s a hjob] at hm
  rw [actUnmatched_job P t s a hjob]
  cases hj : findJob P a.jobId with
  | none => simp [hj] at hm
  | some j =>
    cases hk : kindOfTy a.ty with
    | none => simp [hj, hk] at hm
    | some k =>
      simp only [hj, hk, List.any_eq_true, Bool.and_eq_true, beq_iff_eq] at hm
      obtain ⟨tk, htk, p, hp, ⟨hloc, htag⟩, w, hw, hmeet, hserv⟩ := hm
      obtain ⟨hjmem, _⟩ := findJob_some P _ j hj
      have htkj : tk ∈ j.tasks := by
        unfold tasksOf at htk
        exact (List.mem_filter.1 htk).1
      -- places of the job are told apart by location and tag
      have huniq : ∀ tk' ∈ j.tasks, ∀ p' ∈ tk'.places, p'.loc = actLoc s a → p'.tag = a.tag → p' = p := by
        intro tk' htk' p' hp' hl ht
        simp only [problemShapeOk, Bool.and_eq_true, List.all_eq_true, Bool.not_eq_true'] at hprob
        have hnd := hprob.1.2 j hjmem
        apply inj_of_nodup_map (fun p : Place => (p.loc, p.tag)) _ hnd p' p
        · exact List.mem_flatMap.2 ⟨tk', htk', hp'⟩
        · exact List.mem_flatMap.2 ⟨tk, htkj, hp⟩
        · simp only [hl, ht, hloc, htag]
      have hcount := hwin j hj tk htkj p hp hloc htag
      have hinfo : ∀ tk' ∈ j.tasks, p ∈ tk'.places →
          matchPlace (singleOfTask tk') (actLoc s a) (tourStart t) (actTime s a) a.tag = some (p.dur, w.s) := by
        intro tk' htk' hp'
        rw [singleOfTask_eq, matchPlace_places]
        exact placeInfo_of_unique _ _ _ _ p hp' hloc htag w hw hmeet (fun p' hp'' hl ht => huniq tk' htk' p' hp'' hl ht)
          hcount
      -- the tag test of multi-task jobs
      have htag' : ¬ ((decide ((singlesOfJob j).length > 1) &&
          decide ((dedup (((singlesOfJob j).flatMap id).filterMap (fun p => p.tag))).length < (singlesOfJob j).length))
            = true) := by
        simp only [jobTagsOk, List.all_eq_true, Bool.not_eq_true'] at htags
        rw [htags j hjmem]; simp
      simp only
      rw [if_neg htag']
      cases hfs : (singlesOfJob j).findSome?
          (fun sg => matchPlace sg (actLoc s a) (tourStart t) (actTime s a) a.tag) with
      | none =>
        exfalso
        have := List.findSome?_eq_none_iff.1 hfs (singleOfTask tk) (singleOfTask_mem j k tk htk)
        rw [hinfo tk htkj hp] at this
        simp at this
      | some info =>
        obtain ⟨sg, hsg, hsome⟩ := List.exists_of_findSome?_eq_some hfs
        obtain ⟨tk', htk', rfl⟩ := mem_singlesOfJob j sg hsg
        have hsome' := hsome
        rw [singleOfTask_eq, matchPlace_places] at hsome'
        obtain ⟨p', hp', hl, ht⟩ := placeInfo_some_mem _ _ _ _ _ hsome'
        have e : p' = p := huniq tk' htk' p' hp' hl ht
        subst e
        rw [hinfo tk' htk' hp'] at hsome
        have e2 : info = (p'.dur, w.s) := by
          simpa using hsome.symm
        subst e2
        simp only
        unfold serviceOk extraOf at hserv
        simp only [beq_iff_eq] at hserv
        simp only [bne_eq_false_iff_eq]
        exact hserv

theorem shiftOf_unpack (P : Problem) (t : Tour) (sh : Shift) (hso : shiftOf P t = some sh) :
    ∃ v, findVehicle P t.vehicleId = some v ∧ v.shifts[t.shiftIndex]? = some sh ∧ v ∈ P.vehicles ∧ sh ∈ v.shifts := by
  unfold shiftOf at hso
  cases hv : findVehicle P t.vehicleId with
  | none => simp [hv] at hso
  | some v =>
    simp only [hv, Option.bind_some] at hso
    refine ⟨v, rfl, hso, ?_, List.mem_of_getElem? hso⟩
    unfold findVehicle at hv
    exact List.mem_of_find?_eq_some hv

/-- the candidate the matcher settles on: the first with a consistent duration, else the first -/
def pickInfo (infos : List (Int × Int)) (c : Int × Int → Bool) : Option (Int × Int) :=
  match infos.find? c with
  | some i => some i
  | none => infos.head?

/-- the matcher's verdict on the candidate: `true` = NOT matched -/
def infoBad (s : Stop) (a : Act) (info : Option (Int × Int)) : Bool :=
  match info with
  | none => true
  | some (dur, twStart) => (actTime s a).2 != max (actTime s a).1 twStart + dur + extraTime s a dur

/-- the matcher's filter for a break / reload activity -/
theorem actUnmatched_shift (P : Problem) (t : Tour) (s : Stop) (a : Act) (sh : Shift) (hso : shiftOf P t = some sh)
    (hty : a.ty = .brk ∨ a.ty = .reload) :
    actUnmatched P t s a =
      infoBad s a (pickInfo
        ((if a.ty == .brk then sh.breaks.map singleOfBreak else sh.reloads.map singleOfReload).filterMap
          (fun sg => matchPlace sg (actLoc s a) (tourStart t) (actTime s a) a.tag))
        (fun i => (actTime s a).2 == max (actTime s a).1 i.2 + i.1)) := by
  obtain ⟨v, hv, hsh, _, _⟩ := shiftOf_unpack P t sh hso
  unfold actUnmatched
  rcases hty with h | h <;> simp only [h, hv, hsh] <;> rfl

theorem pick_of_all_eq (l : List (Int × Int)) (c : Int × Int → Bool) (y : Int × Int) (hall : ∀ x ∈ l, x = y)
    (hne : l ≠ []) : pickInfo l c = some y := by
  unfold pickInfo
  cases hf : l.find? c with
  | some i => simp only; rw [hall i (List.mem_of_find?_eq_some hf)]
  | none =>
    simp only
    cases l with
    | nil => exact absurd rfl hne
    | cons z rest => simp only [List.head?_cons]; rw [hall z (by simp)]

/-- a reload activity that satisfies the specification's clause passes the matcher -/
theorem reload_act_matched (P : Problem) (hre : reloadsApart P = true) (t : Tour) (s : Stop) (a : Act) (sh : Shift)
    (hso : shiftOf P t = some sh) (hty : a.ty = .reload)
    (hwin : ∀ r ∈ sh.reloads, r.loc = actLoc s a → r.tag = a.tag →
      countP (fun w => TW.meets w (actTime s a)) r.tws ≤ 1)
    (hm : actMatches P t s a = true) : actUnmatched P t s a = false := by
  rw [actUnmatched_shift P t s a sh hso (Or.inr hty)]
  unfold actMatches at hm
  simp only [hty, hso, List.any_eq_true, Bool.and_eq_true, beq_iff_eq] at hm
  obtain ⟨r, hr, ⟨hloc, htag⟩, w, hw, hmeet, hserv⟩ := hm
  obtain ⟨v, _, _, hvmem, hshmem⟩ := shiftOf_unpack P t sh hso
  have huniq : ∀ r' ∈ sh.reloads, r'.loc = actLoc s a → r'.tag = a.tag → r' = r := by
    intro r' hr' hl ht
    simp only [reloadsApart, List.all_eq_true, Bool.not_eq_true'] at hre
    apply inj_of_nodup_map (fun p : Place => (p.loc, p.tag)) _ (hre v hvmem sh hshmem) r' r hr' hr
    simp only [hl, ht, hloc, htag]
  have hinfo : matchPlace (singleOfReload r) (actLoc s a) (tourStart t) (actTime s a) a.tag = some (r.dur, w.s) := by
    rw [singleOfReload_eq, matchPlace_places]
    apply placeInfo_of_unique _ _ _ _ r (by simp) hloc htag w hw hmeet _ (hwin r hr hloc htag)
    intro p' hp' _ _
    simpa using hp'
  have hne : (ATy.reload == ATy.brk) = false := by decide
  simp only [hty, hne, Bool.false_eq_true, if_false]
  rw [pick_of_all_eq _ _ (r.dur, w.s)]
  · unfold infoBad
    simp only
    unfold serviceOk extraOf at hserv
    simp only [beq_iff_eq] at hserv
    simp only [bne_eq_false_iff_eq]
    exact hserv
  · intro x hx
    rw [List.mem_filterMap] at hx
    obtain ⟨sg, hsg, hsome⟩ := hx
    rw [List.mem_map] at hsg
    obtain ⟨r', hr', rfl⟩ := hsg
    have hsome' := hsome
    rw [singleOfReload_eq, matchPlace_places] at hsome'
    obtain ⟨p', hp', hl, ht⟩ := placeInfo_some_mem _ _ _ _ _ hsome'
    have e1 : p' = r' := by simpa using hp'
    subst e1
    have e : p' = r := huniq p' hr' hl ht
    subst e
    rw [hinfo] at hsome
    simpa using hsome.symm
  · intro hnil
    have : (r.dur, w.s) ∈ (sh.reloads.map singleOfReload).filterMap
        (fun sg => matchPlace sg (actLoc s a) (tourStart t) (actTime s a) a.tag) := by
      rw [List.mem_filterMap]
      exact ⟨singleOfReload r, List.mem_map.2 ⟨r, hr, rfl⟩, hinfo⟩
    rw [hnil] at this
    simp at this

/-! ### break activities -/

def spanOf (b : Break) : TSpan := if b.offset then TSpan.offset b.t0 b.t1 else TSpan.window ⟨b.t0, some b.t1⟩

def mplaceOfBreak (b : Break) (p : BreakPlace) : MPlace := { loc := p.loc, dur := p.dur, times := [spanOf b], tag := p.tag }

theorem singleOfBreak_eq (b : Break) : singleOfBreak b = b.places.map (mplaceOfBreak b) := rfl

def locFits (q : BreakPlace) (loc : Nat) : Bool := match q.loc with | none => true | some l => l == loc

theorem span_meets (t : Tour) (b : Break) (tm : Int × Int) :
    (spanOf b).meets (tourStart t) tm = meets (breakWindow t b) tm := by
  unfold spanOf breakWindow
  cases b.offset <;> simp [TSpan.meets, TW.meets, meets]

theorem fits_break (t : Tour) (b : Break) (q : BreakPlace) (loc : Nat) (tm : Int × Int) (tag : Option String) :
    ((mplaceOfBreak b q).tag == tag && placeFits (mplaceOfBreak b q) loc (tourStart t) tm)
      = (q.tag == tag && locFits q loc && meets (breakWindow t b) tm) := by
  unfold placeFits mplaceOfBreak locFits
  simp only [List.any_cons, List.any_nil, Bool.or_false, span_meets, Bool.and_assoc]
  cases q.loc <;> rfl

/-- what `match_place` computes on the places of a break -/
def breakInfo (t : Tour) (b : Break) (loc : Nat) (tm : Int × Int) (tag : Option String) : Option (Int × Int) :=
  if meets (breakWindow t b) tm then
    match b.places.find? (fun q => q.tag == tag && locFits q loc) with
    | none => none
    | some q => some (q.dur, if b.offset then tm.2 - q.dur else b.t0)
  else none

theorem matchPlace_break (t : Tour) (b : Break) (loc : Nat) (tm : Int × Int) (tag : Option String) :
    matchPlace (singleOfBreak b) loc (tourStart t) tm tag = breakInfo t b loc tm tag := by
  unfold matchPlace breakInfo
  rw [singleOfBreak_eq, List.find?_map]
  have hpred : ((fun p : MPlace => p.tag == tag && placeFits p loc (tourStart t) tm) ∘ mplaceOfBreak b)
      = (fun q => q.tag == tag && locFits q loc && meets (breakWindow t b) tm) :=
    funext (fun q => fits_break t b q loc tm tag)
  rw [hpred]
  cases hm : meets (breakWindow t b) tm with
  | false =>
    simp only [Bool.and_false, Bool.false_eq_true, if_false]
    rw [List.find?_eq_none.2 (by simp)]
    rfl
  | true =>
    simp only [Bool.and_true, if_true]
    cases hf : b.places.find? (fun q => q.tag == tag && locFits q loc) with
    | none => rfl
    | some q =>
      simp only [Option.map_some, mplaceOfBreak, List.find?_cons, span_meets, hm]
      unfold spanOf
      cases b.offset <;> simp

theorem locFits_eq (q : BreakPlace) (loc : Nat) :
    locFits q loc = (match q.loc with | some l => l == loc | none => true) := by
  unfold locFits; cases q.loc <;> rfl

/-- a break activity that satisfies the specification's clause passes the matcher -/
theorem brk_act_matched (P : Problem) (t : Tour) (s : Stop) (a : Act) (sh : Shift)
    (hso : shiftOf P t = some sh) (hty : a.ty = .brk) (ha : a ∈ s.acts)
    (hbu : countP (fun b => meets (breakWindow t b) (actTime s a)) sh.breaks ≤ 1)
    (hpu : ∀ b ∈ sh.breaks, meets (breakWindow t b) (actTime s a) = true →
      countP (fun q : BreakPlace => q.tag == a.tag && (match q.loc with | some l => l == actLoc s a | none => true))
        b.places ≤ 1)
    (hone : countP (fun a => a.ty == .brk) s.acts ≤ 1)
    (hm : actMatches P t s a = true) : actUnmatched P t s a = false := by
  rw [actUnmatched_shift P t s a sh hso (Or.inl hty)]
  unfold actMatches at hm
  simp only [hty, hso, List.any_eq_true, Bool.and_eq_true, beq_iff_eq] at hm
  obtain ⟨b, hb, hmeet, p, hp, ⟨hlf, htag⟩, hcond⟩ := hm
  have hpfit : (p.tag == a.tag && locFits p (actLoc s a)) = true := by
    rw [locFits_eq]; simp only [Bool.and_eq_true, beq_iff_eq]; exact ⟨htag, hlf⟩
  have hinfo : breakInfo t b (actLoc s a) (actTime s a) a.tag
      = some (p.dur, if b.offset then (actTime s a).2 - p.dur else b.t0) := by
    unfold breakInfo
    rw [if_pos hmeet]
    cases hf : b.places.find? (fun q => q.tag == a.tag && locFits q (actLoc s a)) with
    | none => exact absurd hpfit (List.find?_eq_none.1 hf p hp)
    | some q =>
      have hq := List.find?_some hf
      have e : q = p := by
        apply unique_of_countP_le_one _ _ (hpu b hb hmeet) q p (List.mem_of_find?_eq_some hf) hp
        · rw [← locFits_eq]; exact hq
        · rw [← locFits_eq]; exact hpfit
      subst e
      rfl
  simp only [hty, beq_self_eq_true, if_true]
  rw [pick_of_all_eq _ _ (p.dur, if b.offset then (actTime s a).2 - p.dur else b.t0)]
  · unfold infoBad
    simp only
    cases hoff : b.offset with
    | true =>
      simp only [hoff, if_true, decide_eq_true_eq] at hcond ⊢
      rw [extraTime_brk_zero s a ha hty hone]
      simp only [bne_eq_false_iff_eq]
      omega
    | false =>
      simp only [hoff, Bool.false_eq_true, if_false] at hcond ⊢
      unfold serviceOk extraOf at hcond
      simp only [beq_iff_eq] at hcond
      simp only [bne_eq_false_iff_eq]
      exact hcond
  · intro x hx
    rw [List.mem_filterMap] at hx
    obtain ⟨sg, hsg, hsome⟩ := hx
    rw [List.mem_map] at hsg
    obtain ⟨b', hb', rfl⟩ := hsg
    rw [matchPlace_break] at hsome
    have hmeet' : meets (breakWindow t b') (actTime s a) = true := by
      cases hmm : meets (breakWindow t b') (actTime s a) with
      | true => rfl
      | false => unfold breakInfo at hsome; simp [hmm] at hsome
    have e : b' = b := unique_of_countP_le_one _ _ hbu b' b hb' hb hmeet' hmeet
    subst e
    rw [hinfo] at hsome
    simpa using hsome.symm
  · intro hnil
    have : (p.dur, if b.offset then (actTime s a).2 - p.dur else b.t0) ∈ (sh.breaks.map singleOfBreak).filterMap
        (fun sg => matchPlace sg (actLoc s a) (tourStart t) (actTime s a) a.tag) := by
      rw [List.mem_filterMap]
      exact ⟨singleOfBreak b, List.mem_map.2 ⟨b, hb, rfl⟩, by rw [matchPlace_break]; exact hinfo⟩
    rw [hnil] at this
    simp at this

/-- **Completeness of the activity matcher** under the side conditions above -/
theorem match_complete (P : Problem) (S : Solution)
    (hsup : supported P S = true) (hval : validSolution P S = true)
    (htags : jobTagsOk P = true) (hre : reloadsApart P = true) (hwin : windowChoiceUnique P S = true)
    (hbu : breakChoiceUnique P S = true) (hpu : breakPlaceUnique P S = true) (hone : oneBreakPerStop S = true) :
    checkMatch P S = none := by
  obtain ⟨_, _, _, _, _, _, _, _, hmatch, _⟩ := (valid_iff P S).1 hval
  simp only [supported, Bool.and_eq_true, List.all_eq_true] at hsup
  obtain ⟨hprob, _⟩ := hsup
  simp only [matchOk, List.all_eq_true] at hmatch
  simp only [windowChoiceUnique, List.all_eq_true] at hwin
  simp only [breakChoiceUnique, List.all_eq_true] at hbu
  simp only [breakPlaceUnique, List.all_eq_true] at hpu
  simp only [oneBreakPerStop, List.all_eq_true, decide_eq_true_eq] at hone
  unfold checkMatch
  rw [if_neg]
  simp only [Bool.not_eq_true, List.any_eq_false]
  intro t ht s hs a ha
  have hm := hmatch t ht s hs a ha
  have hw := hwin t ht s hs a ha
  simp only [Bool.and_eq_true, Bool.or_eq_true, Bool.not_eq_true', bne_iff_ne, ne_eq] at hw
  obtain ⟨hwj, hwr⟩ := hw
  have hjobcase : isJobTy a.ty = true → actUnmatched P t s a = false := by
    intro hjob
    apply job_act_matched P hprob htags t s a hjob _ hm
    intro j hj tk htk p hp hloc htag
    rcases hwj with h | h
    · rw [hjob] at h; simp at h
    · simp only [hj, List.all_eq_true, Bool.or_eq_true, Bool.not_eq_true', Bool.and_eq_false_iff,
        beq_eq_false_iff_ne, ne_eq, decide_eq_true_eq] at h
      rcases h tk htk p hp with (h' | h') | h'
      · exact absurd hloc h'
      · exact absurd htag h'
      · exact h'
  cases hty : a.ty with
  | departure => simp [actUnmatched, hty]
  | arrival => simp [actUnmatched, hty]
  | pickup => exact hjobcase (by rw [hty]; rfl)
  | delivery => exact hjobcase (by rw [hty]; rfl)
  | replacement => exact hjobcase (by rw [hty]; rfl)
  | service => exact hjobcase (by rw [hty]; rfl)
  | recharge => unfold actMatches at hm; simp [hty] at hm
  | other => unfold actMatches at hm; simp [hty] at hm
  | reload =>
    cases hso : shiftOf P t with
    | none => unfold actMatches at hm; simp [hty, hso] at hm
    | some sh =>
      apply reload_act_matched P hre t s a sh hso hty _ hm
      intro r hr hloc htag
      rcases hwr with h | h
      · exact absurd hty h
      · simp only [hso, List.all_eq_true, Bool.or_eq_true, Bool.not_eq_true', Bool.and_eq_false_iff,
          beq_eq_false_iff_ne, ne_eq, decide_eq_true_eq] at h
        rcases h r hr with (h' | h') | h'
        · exact absurd hloc h'
        · exact absurd htag h'
        · exact h'
  | brk =>
    cases hso : shiftOf P t with
    | none => unfold actMatches at hm; simp [hty, hso] at hm
    | some sh =>
      have hb1 := hbu t ht
      have hp1 := hpu t ht
      simp only [hso, List.all_eq_true, Bool.or_eq_true, bne_iff_ne, ne_eq, decide_eq_true_eq,
        Bool.not_eq_true'] at hb1 hp1
      apply brk_act_matched P t s a sh hso hty ha _ _ (hone t ht s hs) hm
      · rcases hb1 s hs a ha with h | h
        · exact absurd hty h
        · exact h
      · intro b hb hmeet
        rcases hp1 s hs a ha with h | h
        · exact absurd hty h
        · rcases h b hb with h' | h'
          · rw [hmeet] at h'; simp at h'
          · exact h'

/-! ## the combined statement: no checker group is a hypothesis any more -/

theorem noLeadingBreakPair_of_one (S : Solution) (h : oneBreakPerStop S = true) : noLeadingBreakPair S = true := by
  simp only [oneBreakPerStop, List.all_eq_true, decide_eq_true_eq] at h
  simp only [noLeadingBreakPair, List.all_eq_true]
  intro t ht s hs
  have := h t ht s hs
  cases hacts : s.acts with
  | nil => rfl
  | cons a tl =>
    cases tl with
    | nil => rfl
    | cons b rest =>
      rw [hacts] at this
      simp only [countP] at this
      simp only [Bool.not_eq_true', Bool.and_eq_false_iff]
      cases ha : (a.ty == ATy.brk) with
      | false => exact Or.inl rfl
      | true =>
        cases hb : (b.ty == ATy.brk) with
        | false => exact Or.inr rfl
        | true => rw [if_pos ha, if_pos hb] at this; omega

/-- input well-formedness that neither `supported` nor the specification state: customer jobs do not use a reserved id,
non-job activities carry the reserved id of their type, activities are served at the location of their stop (point stops),
multi-task jobs have enough distinct tags for the matcher, reload places of a shift are told apart by location or tag -/
def inputWF (P : Problem) (S : Solution) : Bool :=
  noReservedJobIds P && actIdsOk S && pointStops S && jobTagsOk P && reloadsApart P

/-- the pair does not sit in one of the gaps between the specification ("SOME tour / occurrence / break / place / window
fits") and the checker ("the FIRST one fits"); each conjunct has a counterexample in this file showing that the
specification alone does not imply acceptance without it -/
def unambiguous (P : Problem) (S : Solution) : Bool :=
  anyShiftOk P S && strictHeadOk P && breakChoiceUnique P S && oneBreakPerStop S && windowChoiceUnique P S &&
  breakPlaceUnique P S

/-- **The checker accepts valid solutions.** On supported, well-formed and unambiguous inputs every solution that satisfies
the specification `validSolution` passes the whole model checker: all four hypotheses of `checker_complete_partial`
(relations, breaks, activity matcher, job groups) are derived from the specification. -/
theorem checker_complete (P : Problem) (S : Solution)
    (hsup : supported P S = true) (hval : validSolution P S = true)
    (hwf : inputWF P S = true) (hun : unambiguous P S = true) :
    check P S = [] := by
  simp only [inputWF, Bool.and_eq_true] at hwf
  obtain ⟨⟨⟨⟨hnores, hids⟩, hpt⟩, htags⟩, hre⟩ := hwf
  simp only [unambiguous, Bool.and_eq_true] at hun
  obtain ⟨⟨⟨⟨⟨hany, hstrict⟩, hbu⟩, hone⟩, hwin⟩, hpu⟩ := hun
  exact checker_complete_partial P S hsup hval
    (relations_complete P S hsup hval hnores hids hany hstrict)
    (breaks_complete P S hsup hval hpt hbu (noLeadingBreakPair_of_one S hone))
    (match_complete P S hsup hval htags hre hwin hbu hpu hone)
    (groups_complete P S hval)

/-! ### a problem-only sufficient condition for `unambiguous` -/

/-- "plain" problems: a place has at most one time window, a vehicle one shift, a shift at most one break with at most one
place, relations name shift 0, a strict relation does not start with `break` / `reload` -/
def plainProblem (P : Problem) : Bool :=
  P.jobs.all (fun j => j.tasks.all (fun tk => tk.places.all (fun p => decide (p.tws.length ≤ 1)))) &&
  P.vehicles.all (fun v => decide (v.shifts.length ≤ 1) && v.shifts.all (fun sh =>
    decide (sh.breaks.length ≤ 1) && sh.breaks.all (fun b => decide (b.places.length ≤ 1)) &&
    sh.reloads.all (fun r => decide (r.tws.length ≤ 1)))) &&
  P.relations.all (fun r => r.shiftIndex.getD 0 == 0) &&
  strictHeadOk P

theorem plain_unpack (P : Problem) (h : plainProblem P = true) :
    (∀ j ∈ P.jobs, ∀ tk ∈ j.tasks, ∀ p ∈ tk.places, p.tws.length ≤ 1) ∧
    (∀ v ∈ P.vehicles, v.shifts.length ≤ 1 ∧ ∀ sh ∈ v.shifts, sh.breaks.length ≤ 1 ∧
      (∀ b ∈ sh.breaks, b.places.length ≤ 1) ∧ (∀ r ∈ sh.reloads, r.tws.length ≤ 1)) ∧
    (∀ r ∈ P.relations, r.shiftIndex.getD 0 = 0) ∧ strictHeadOk P = true := by
  simp only [plainProblem, Bool.and_eq_true, List.all_eq_true, decide_eq_true_eq, beq_iff_eq] at h
  obtain ⟨⟨⟨h1, h2⟩, h3⟩, h4⟩ := h
  refine ⟨h1, ?_, h3, h4⟩
  intro v hv
  refine ⟨(h2 v hv).1, ?_⟩
  intro sh hsh
  have := (h2 v hv).2 sh hsh
  exact ⟨this.1.1, this.1.2, this.2⟩

theorem countP_le_flatMap (p : Act → Bool) (stops : List Stop) (s : Stop) (hs : s ∈ stops) :
    countP p s.acts ≤ countP p (stops.flatMap (fun s => s.acts)) := by
  induction stops with
  | nil => simp at hs
  | cons x rest ih =>
    simp only [List.flatMap_cons, countP_append]
    simp only [List.mem_cons] at hs
    rcases hs with rfl | hs
    · omega
    · have := ih hs; omega

/-- on a plain problem every supported valid solution is unambiguous -/
theorem unambiguous_of_plain (P : Problem) (S : Solution) (hsup : supported P S = true) (hval : validSolution P S = true)
    (hplain : plainProblem P = true) : unambiguous P S = true := by
  obtain ⟨hjobs, hveh, hrel, hstrict⟩ := plain_unpack P hplain
  obtain ⟨_, _, _, _, _, _, _, hbrk, _, _⟩ := (valid_iff P S).1 hval
  simp only [breaksOk, List.all_eq_true] at hbrk
  have hle : ∀ {α} (p : α → Bool) (l : List α), l.length ≤ 1 → countP p l ≤ 1 := by
    intro α p l h; have := countP_le_length p l; omega
  -- every tour names a shift of a vehicle of the fleet
  have hshift : ∀ t ∈ S.tours, ∃ sh v, shiftOf P t = some sh ∧ findVehicle P t.vehicleId = some v ∧
      v.shifts[t.shiftIndex]? = some sh ∧ v ∈ P.vehicles ∧ sh ∈ v.shifts := by
    intro t ht
    have := hbrk t ht
    cases hso : shiftOf P t with
    | none => unfold breaksTourOk at this; simp [hso] at this
    | some sh =>
      obtain ⟨v, h1, h2, h3, h4⟩ := shiftOf_unpack P t sh hso
      exact ⟨sh, v, rfl, h1, h2, h3, h4⟩
  simp only [unambiguous, Bool.and_eq_true]
  refine ⟨⟨⟨⟨⟨?_, hstrict⟩, ?_⟩, ?_⟩, ?_⟩, ?_⟩
  · -- anyShiftOk
    simp only [anyShiftOk, List.all_eq_true, Bool.or_eq_true, bne_iff_ne, ne_eq]
    intro r hr
    cases hf : findTour S r.vehicleId (r.shiftIndex.getD 0) with
    | some tour => exact Or.inl (Or.inr rfl)
    | none =>
      refine Or.inr ?_
      intro t ht hvid
      obtain ⟨sh, v, _, _, hidx, hv, _⟩ := hshift t ht
      have hlen := (hveh v hv).1
      have hlt : t.shiftIndex < v.shifts.length := by
        cases hh : decide (t.shiftIndex < v.shifts.length) with
        | true => simpa using hh
        | false =>
          have : v.shifts.length ≤ t.shiftIndex := by simpa using hh
          rw [List.getElem?_eq_none this] at hidx
          simp at hidx
      have h0 : t.shiftIndex = 0 := by omega
      unfold findTour at hf
      have := List.find?_eq_none.1 hf t ht
      apply this
      simp only [Bool.and_eq_true, beq_iff_eq]
      exact ⟨hvid, by rw [h0, hrel r hr]⟩
  · -- breakChoiceUnique
    simp only [breakChoiceUnique, List.all_eq_true]
    intro t ht
    obtain ⟨sh, v, hso, _, _, hv, hsh⟩ := hshift t ht
    simp only [hso, List.all_eq_true, Bool.or_eq_true, decide_eq_true_eq]
    intro s _ a _
    exact Or.inr (hle _ _ ((hveh v hv).2 sh hsh).1)
  · -- oneBreakPerStop
    simp only [oneBreakPerStop, List.all_eq_true, decide_eq_true_eq]
    intro t ht s hs
    obtain ⟨sh, v, hso, _, _, hv, hsh⟩ := hshift t ht
    have := hbrk t ht
    unfold breaksTourOk at this
    simp only [hso, Bool.and_eq_true, decide_eq_true_eq] at this
    have h1 := ((hveh v hv).2 sh hsh).1
    have h2 := countP_le_flatMap (fun a => a.ty == ATy.brk) t.stops s hs
    have h3 : tourActs t = t.stops.flatMap (fun s => s.acts) := rfl
    rw [← h3] at h2
    omega
  · -- windowChoiceUnique
    simp only [windowChoiceUnique, List.all_eq_true, Bool.and_eq_true, Bool.or_eq_true]
    intro t ht s _ a _
    constructor
    · refine Or.inr ?_
      cases hj : findJob P a.jobId with
      | none => rfl
      | some j =>
        simp only [List.all_eq_true, Bool.or_eq_true, decide_eq_true_eq]
        intro tk htk p hp
        exact Or.inr (hle _ _ (hjobs j (findJob_some P _ j hj).1 tk htk p hp))
    · refine Or.inr ?_
      obtain ⟨sh, v, hso, _, _, hv, hsh⟩ := hshift t ht
      simp only [hso, List.all_eq_true, Bool.or_eq_true, decide_eq_true_eq]
      intro r hr
      exact Or.inr (hle _ _ (((hveh v hv).2 sh hsh).2.2 r hr))
  · -- breakPlaceUnique
    simp only [breakPlaceUnique, List.all_eq_true]
    intro t ht
    obtain ⟨sh, v, hso, _, _, hv, hsh⟩ := hshift t ht
    simp only [hso, List.all_eq_true, Bool.or_eq_true, decide_eq_true_eq]
    intro s _ a _
    refine Or.inr ?_
    intro b hb
    exact Or.inr (hle _ _ (((hveh v hv).2 sh hsh).2.1 b hb))

/-- **The checker accepts valid solutions of plain problems**: the only solution-dependent side condition left is input
well-formedness -/
theorem checker_complete_plain (P : Problem) (S : Solution)
    (hsup : supported P S = true) (hval : validSolution P S = true)
    (hwf : inputWF P S = true) (hplain : plainProblem P = true) :
    check P S = [] :=
  checker_complete P S hsup hval hwf (unambiguous_of_plain P S hsup hval hplain)

/-! ### counterexamples for the matcher -/

/-- gap 5: a place with the windows [0, 10] and [12, 30]; the vehicle arrives at 10, waits for the second window and serves
12–17. Missing clause: the specification accepts the activity if SOME window it meets explains its time, the matcher takes
the FIRST window it meets ([0, 10], touched at 10). -/
def twJob : Job :=
  { id := "j1", group := none,
    tasks := [{ kind := .delivery, demand := [1],
                places := [{ loc := 1, dur := 5, tws := [⟨0, some 10⟩, ⟨12, some 30⟩], tag := none }] }] }

def twProblem : Problem := { exProblem with jobs := [twJob, exJob "j2" 2], relations := [] }

def twSolution : Solution :=
  { stat := { distance := 30, duration := 42 }, unassigned := [], violations := [],
    tours := [{ vehicleId := "v1", typeId := "t", shiftIndex := 0, stat := { distance := 30, duration := 42 },
                stops := [{ loc := 0, arrival := 0, departure := 0, distance := 0, load := [2], acts := [exAct "departure" .departure] },
                          { loc := 1, arrival := 10, departure := 17, distance := 10, load := [1], acts := [exAct "j1" .delivery] },
                          { loc := 2, arrival := 27, departure := 32, distance := 20, load := [0], acts := [exAct "j2" .delivery] },
                          { loc := 0, arrival := 42, departure := 42, distance := 30, load := [0], acts := [exAct "arrival" .arrival] }] }] }

example : supported twProblem twSolution = true ∧ validSolution twProblem twSolution = true ∧
    checkMatch twProblem twSolution = some .act_match ∧ windowChoiceUnique twProblem twSolution = false := by decide

/-- gap 6: a break with two places, the first (5 long) anywhere, the second (10 long) at location 1; a break of 10 is taken
at location 1. Missing clause: the specification accepts SOME place of the break, the matcher takes the FIRST place that
carries the tag and fits the location. -/
def twoPlaceBreak : Break :=
  { offset := false, t0 := 0, t1 := 100,
    places := [{ dur := 5, loc := none, tag := none }, { dur := 10, loc := some 1, tag := none }], policy := none }

example :
    let P := brkProblem [twoPlaceBreak]
    let S := brkSolution [timedAct "j1" .delivery 10 15, timedAct "break" .brk 15 25] 25 []
    supported P S = true ∧ validSolution P S = true ∧ checkMatch P S = some .act_match ∧
      breakPlaceUnique P S = false := by
  decide

/-- gap 7: two overlapping break activities in one stop, both of the same break by offset. Missing clause: for a break by
offset the specification only asks that the activity lasts at least the place's duration, the matcher adds the time of the
other, overlapping break activity of the stop. -/
def offsetBreak (a b : Int) : Break :=
  { offset := true, t0 := a, t1 := b, places := [{ dur := 5, loc := none, tag := none }], policy := none }

example :
    let P := brkProblem [offsetBreak 0 100, offsetBreak 500 600]
    let S := brkSolution [timedAct "j1" .delivery 10 15, timedAct "break" .brk 15 20, timedAct "break" .brk 17 22] 22 []
    supported P S = true ∧ validSolution P S = true ∧ checkMatch P S = some .act_match ∧
      oneBreakPerStop S = false ∧ breakChoiceUnique P S = true ∧ breakPlaceUnique P S = true := by
  decide

/-- input well-formedness `jobTagsOk`: a job with two tasks whose places carry the same tag at different locations is
supported (`problemShapeOk` tells places apart by location OR tag) and valid, the matcher refuses the job -/
def sameTagJob : Job :=
  { id := "j1", group := none,
    tasks := [{ kind := .delivery, demand := [1], places := [{ loc := 1, dur := 5, tws := [⟨0, none⟩], tag := some "x" }] },
              { kind := .delivery, demand := [1], places := [{ loc := 2, dur := 5, tws := [⟨0, none⟩], tag := some "x" }] }] }

def sameTagAct : Act := { jobId := "j1", ty := .delivery, tag := some "x", loc := none, time := none }

def sameTagSolution : Solution :=
  { exSolution with
    tours := [{ exTour 2 10 with
                stops := [{ loc := 0, arrival := 0, departure := 0, distance := 0, load := [2], acts := [exAct "departure" .departure] },
                          { loc := 1, arrival := 10, departure := 15, distance := 10, load := [1], acts := [sameTagAct] },
                          { loc := 2, arrival := 25, departure := 30, distance := 20, load := [0], acts := [sameTagAct] },
                          { loc := 0, arrival := 40, departure := 40, distance := 30, load := [0], acts := [exAct "arrival" .arrival] }] }] }

example :
    let P : Problem := { exProblem with jobs := [sameTagJob], relations := [] }
    supported P sameTagSolution = true ∧ validSolution P sameTagSolution = true ∧
      checkMatch P sameTagSolution = some .act_match ∧ jobTagsOk P = false := by
  decide

/-! ### the input well-formedness conditions cannot be dropped either -/

/-- `pointStops`: j2 (whose place is at location 2) is served with an explicit location 2 inside the stop at location 1, then
a break (place: anywhere) is taken there. The specification never ties the location of an activity to its stop; the checker
compares the break's location (1) with the location of the activity before it (2). -/
def offStopSolution : Solution :=
  { stat := { distance := 20, duration := 35 }, unassigned := [], violations := [],
    tours := [{ vehicleId := "v1", typeId := "t", shiftIndex := 0, stat := { distance := 20, duration := 35 },
                stops := [{ loc := 0, arrival := 0, departure := 0, distance := 0, load := [2], acts := [exAct "departure" .departure] },
                          { loc := 1, arrival := 10, departure := 25, distance := 10, load := [0],
                            acts := [timedAct "j1" .delivery 10 15,
                                     { jobId := "j2", ty := .delivery, tag := none, loc := some 2, time := some (15, 20) },
                                     timedAct "break" .brk 20 25] },
                          { loc := 0, arrival := 35, departure := 35, distance := 20, load := [0], acts := [exAct "arrival" .arrival] }] }] }

example :
    let P := brkProblem [exBreak none]
    supported P offStopSolution = true ∧ validSolution P offStopSolution = true ∧
      check P offStopSolution = [.brk_loc] ∧ pointStops offStopSolution = false := by
  decide

/-- `actIdsOk`: a break activity that carries the customer id `j1`, and the sequence relation `[j1, j2]` -/
example :
    let P : Problem := { brkProblem [exBreak none] with
                         relations := [{ kind := .sequence, jobs := ["j1", "j2"], vehicleId := "v1", shiftIndex := none }] }
    let S := brkSolution [timedAct "j1" .delivery 10 15, timedAct "j1" .brk 15 20] 20 []
    supported P S = true ∧ validSolution P S = true ∧ check P S = [.rel_sequence] ∧ actIdsOk S = false := by
  decide

/-- `noReservedJobIds`: a customer job called `departure`, and the sequence relation `[departure, departure]` -/
example :
    let P : Problem := { exProblem with
                         jobs := [exJob "departure" 1, exJob "j2" 2],
                         relations := [{ kind := .sequence, jobs := ["departure", "departure"], vehicleId := "v1",
                                         shiftIndex := none }] }
    let S : Solution := { exSolution with
      tours := [{ exTour 2 10 with
                  stops := [{ loc := 0, arrival := 0, departure := 0, distance := 0, load := [2], acts := [exAct "departure" .departure] },
                            { loc := 1, arrival := 10, departure := 15, distance := 10, load := [1], acts := [exAct "departure" .delivery] },
                            { loc := 2, arrival := 25, departure := 30, distance := 20, load := [0], acts := [exAct "j2" .delivery] },
                            { loc := 0, arrival := 40, departure := 40, distance := 30, load := [0], acts := [exAct "arrival" .arrival] }] }] }
    supported P S = true ∧ validSolution P S = true ∧ check P S = [.rel_dup] ∧ noReservedJobIds P = false := by
  decide

/-! ## non-vacuity of `checker_complete` -/

/-- two jobs of one group, a sequence, a strict and an any relation, a shift with a break -/
def nvProblem : Problem :=
  { brkProblem [exBreak none] with
    jobs := [{ exJob "j1" 1 with group := some "g" }, { exJob "j2" 2 with group := some "g" }],
    relations := [{ kind := .sequence, jobs := ["j1", "j2"], vehicleId := "v1", shiftIndex := none },
                  { kind := .strict, jobs := ["departure", "j1", "break"], vehicleId := "v1", shiftIndex := some 0 },
                  { kind := .any, jobs := ["j2"], vehicleId := "v1", shiftIndex := none }] }

/-- the break is taken after j1 in the stop at location 1 -/
def nvSolution : Solution := brkSolution [timedAct "j1" .delivery 10 15, timedAct "break" .brk 15 20] 20 []

/-- the hypotheses of `checker_complete` hold for a pair with a job group, three relations and a served break (and the model
checker accepts it, as the theorem says) -/
example : supported nvProblem nvSolution = true ∧ validSolution nvProblem nvSolution = true ∧
    inputWF nvProblem nvSolution = true ∧ unambiguous nvProblem nvSolution = true ∧
    check nvProblem nvSolution = [] := by decide

example : check nvProblem nvSolution = [] :=
  checker_complete nvProblem nvSolution (by decide) (by decide) (by decide) (by decide)

/-- `nvProblem` is plain, so `checker_complete_plain` applies as well -/
example : plainProblem nvProblem = true ∧ plainProblem (resProblem [1, 1]) = true := by decide

/-- … and for the pair of `C12.lean` with a reload drawing on a shared resource -/
example : supported (resProblem [1, 1]) resSolution = true ∧ validSolution (resProblem [1, 1]) resSolution = true ∧
    inputWF (resProblem [1, 1]) resSolution = true ∧ unambiguous (resProblem [1, 1]) resSolution = true := by decide

end C12Complete
