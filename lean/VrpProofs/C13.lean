import VrpProofs.C13.Binds
/-!
# C13 — scientific instance files are read faithfully: the property theorems

Vocabulary (all in `VrpModel/C13.lean`):
* `printX F` — the token lines of a file with content `F` in grammar X; `parseX` — the reader model;
* `observe P` — what can be seen of a core problem without location indices: vehicles (capacity, start/end
  coordinates, shift times), jobs (ids, coordinates through the coord index, duration, windows, demand 4-tuple),
  the routing matrix between depot and jobs;
* `decodeX` — reads an abstract `Instance` back from these observables and refuses (`none`) any problem that does not have
  exactly the expected shape; `meaningX F` — the instance the file denotes, written from the format description;
* `readBack decode (parse (print F)) = some (meaning F)` is the statement `model (parse (print I)) = I`.

The helper modules `VrpProofs/C13/*.lean` hold the lemmas (each audited as well).
-/
set_option linter.unusedSimpArgs false
set_option linter.unusedVariables false

namespace C13

/-- parse result → observables → abstract instance; `none` if the reader failed or the shape is not the expected one -/
def readBack (decode : Dump → Option Instance) : Except Err Problem' → Option Instance
  | .ok P => decode (observe P)
  | .error _ => none

theorem readBack_of_map {decode : Dump → Option Instance} {res : Except Err Problem'} {d : Dump}
    (h : res.map observe = .ok d) : readBack decode res = decode d := by
  cases res with
  | error e => simp [Except.map] at h
  | ok P => simp only [Except.map, Except.ok.injEq] at h; simp [readBack, h]

/-! ## 1. `model (parse (print I)) = I` -/

/-- **Solomon**: for every well-formed file (any number of customers, duplicate coordinates and zero demands allowed),
    the problem read from its printed form decodes to exactly the file's instance: fleet size, capacity, depot position and
    opening times, and per customer id, position, demand (static delivery), window and service time, in file order. -/
theorem solomon_parse_print (rounded : Bool) (F : SolomonFile) (h : wfSolomon F = true) :
    readBack decodeSolomon (parseSolomon rounded (printSolomon F)) = some (meaningSolomon F) := by
  rw [readBack_of_map (solomon_observe rounded F h)]
  exact decodeSolomon_expDumpS rounded F h

/-- **Li&Lim**: for every well-formed file (rows in any order), the problem decodes to the file's requests: request `k` is
    the `k`-th pickup row joined with the row named in its delivery column; the pickup carries `+demand` (dynamic pickup),
    the delivery `-demand` of the file (stored as a positive dynamic delivery amount). -/
theorem lilim_parse_print (rounded : Bool) (F : LilimFile) (h : wfLilim F = true) :
    readBack decodeLilim (parseLilim rounded (printLilim F)) = some (meaningLilim F) := by
  rw [readBack_of_map (lilim_observe rounded F h)]
  exact decodeLilim_expDumpL rounded F h

/-- … and the requests of a well-formed Li&Lim file contain every task row exactly once (nothing dropped, nothing doubled) -/
theorem lilim_every_row_once (F : LilimFile) (h : wfLilim F = true) (r : Row) :
    ((requestsOf F.rows).flatMap (fun pd => [pd.1, pd.2])).count r = F.rows.count r :=
  lilim_requests_complete F h r

/-- **TSPLIB (CVRP, EUC_2D)**: for every well-formed file (sections in any row order, any depot id), the problem decodes
    to: `DIMENSION` vehicles of the file capacity at the depot node's coordinates, and one customer per non-depot node
    (job `id-1` ↦ node `id`) with the node's coordinates and the amount of its demand row. (The real reader iterates a hash
    map; the model lists customers in node-row order and the correspondence compares sorted by id.) -/
theorem tsplib_parse_print (rounded : Bool) (F : TsplibFile) (h : wfTsplib F = true) :
    readBack decodeTsplib (parseTsplib rounded (printTsplib F)) = some (meaningTsplib F) := by
  rw [readBack_of_map (tsplib_observe rounded F h)]
  exact decodeTsplib_expDumpT rounded F h

/-! ## 2. distances -/

/-- **`roundSqrt` is the nearest integer to `√n`, and the nearest integer is unique (a tie would need `4n = (2r+1)²`)** -/
theorem euclid_rounded_correct (n : Nat) :
    IsNearestSqrt n (roundSqrt n) ∧ (∀ r, IsNearestSqrt n r → r = roundSqrt n) ∧ (∀ r, 4 * n ≠ (2 * r + 1) ^ 2) :=
  ⟨roundSqrt_isNearest n, fun r hr => isNearestSqrt_unique n r (roundSqrt n) hr (roundSqrt_isNearest n),
   no_sqrt_tie n⟩

/-- in unrounded mode the observed entry is `⌊√n⌋` and the flag says exactly whether `n` is a perfect square -/
theorem euclid_unrounded_obs (p q : Int × Int) :
    (distObs false p q).1 * (distObs false p q).1 ≤ sqDist p q ∧
    sqDist p q < ((distObs false p q).1 + 1) * ((distObs false p q).1 + 1) ∧
    ((distObs false p q).2 = true ↔ ∃ k, k * k = sqDist p q) := by
  simp only [distObs, Bool.false_eq_true, if_false, beq_iff_eq]
  exact ⟨Nat.sqrt_le _, Nat.lt_succ_sqrt _, Nat.exists_mul_self _ |>.symm⟩

/-- `sqDist` is `dx² + dy²` -/
theorem sqDist_eq (p q : Int × Int) : (sqDist p q : Int) = (p.1 - q.1) ^ 2 + (p.2 - q.2) ^ 2 := by
  unfold sqDist
  rw [Int.toNat_of_nonneg (by nlinarith [sq_nonneg (p.1 - q.1), sq_nonneg (p.2 - q.2)])]
  ring

/-- **the routing matrix of a parsed file is the Euclidean matrix of the file's coordinates** (rounded mode: nearest
    integers), between the depot and the customers in the instance's order — all three formats -/
theorem parsed_distances (rounded : Bool) :
    (∀ F, wfSolomon F = true → ∃ P, parseSolomon rounded (printSolomon F) = .ok P ∧
        (observe P).dist = instDist rounded (meaningSolomon F)) ∧
    (∀ F, wfLilim F = true → ∃ P, parseLilim rounded (printLilim F) = .ok P ∧
        (observe P).dist = instDist rounded (meaningLilim F)) ∧
    (∀ F, wfTsplib F = true → ∃ P, parseTsplib rounded (printTsplib F) = .ok P ∧
        (observe P).dist = instDist rounded (meaningTsplib F)) := by
  refine ⟨fun F h => ?_, fun F h => ?_, fun F h => ?_⟩
  · have := solomon_observe rounded F h
    cases hp : parseSolomon rounded (printSolomon F) with
    | error e => simp [hp, Except.map] at this
    | ok P =>
      simp only [hp, Except.map, Except.ok.injEq] at this
      exact ⟨P, rfl, by rw [this]; exact dist_expDumpS rounded F h⟩
  · have := lilim_observe rounded F h
    cases hp : parseLilim rounded (printLilim F) with
    | error e => simp [hp, Except.map] at this
    | ok P =>
      simp only [hp, Except.map, Except.ok.injEq] at this
      exact ⟨P, rfl, by rw [this]; exact dist_expDumpL rounded F h⟩
  · have := tsplib_observe rounded F h
    cases hp : parseTsplib rounded (printTsplib F) with
    | error e => simp [hp, Except.map] at this
    | ok P =>
      simp only [hp, Except.map, Except.ok.injEq] at this
      exact ⟨P, rfl, by rw [this]; exact dist_expDumpT rounded F h⟩

/-! ## 3. capacity binds exactly as the file says -/

/-- **Solomon**: with the parsed demands, the capacity constraint (`dumpAccepts`: load on board at departure and after
    every stop never above the vehicle capacity, as the core feature computes it from the 4-tuples) accepts a tour of
    customer ids iff the file demands of these customers sum to at most the file capacity. -/
theorem capacity_binds_as_file_solomon (rounded : Bool) (F : SolomonFile) (h : wfSolomon F = true)
    (hq : ∀ c ∈ F.customers, 0 ≤ c.demand) :
    ∃ P, parseSolomon rounded (printSolomon F) = .ok P ∧
      ∀ tour, dumpAccepts (observe P) tour = fileAcceptsDelivery (meaningSolomon F) tour := by
  refine ⟨solomonParsed rounded F, parseSolomon_print rounded F h, fun tour => ?_⟩
  rw [observe_solomonParsed]
  exact capacity_binds_expDumpS rounded F h hq tour

/-- **TSPLIB**: the same, tours given by node ids (node `id` is job `id-1`). -/
theorem capacity_binds_as_file_tsplib (rounded : Bool) (F : TsplibFile) (h : wfTsplib F = true)
    (hq : ∀ d ∈ F.demands, 0 ≤ d.2) :
    ∃ P, parseTsplib rounded (printTsplib F) = .ok P ∧
      ∀ tour, dumpAccepts (observe P) (tour.map (· - 1)) = fileAcceptsDelivery (meaningTsplib F) tour := by
  have := tsplib_observe rounded F h
  cases hp : parseTsplib rounded (printTsplib F) with
  | error e => simp [hp, Except.map] at this
  | ok P =>
    simp only [hp, Except.map, Except.ok.injEq] at this
    exact ⟨P, rfl, fun tour => by rw [this]; exact capacity_binds_expDumpT rounded F h hq tour⟩

/-- **Li&Lim**: the capacity constraint accepts a sequence of task ids iff a vehicle that starts empty and applies the
    file's signed demands in that order (positive = picked up, negative = delivered) never exceeds the file capacity.
    This is the statement that a dropped demand dimension or a delivery stored with the wrong sign falsifies (S5). -/
theorem capacity_binds_as_file_lilim (rounded : Bool) (F : LilimFile) (h : wfLilim F = true) :
    ∃ P, parseLilim rounded (printLilim F) = .ok P ∧
      ∀ tour, dumpAccepts (observe P) tour = fileAcceptsPD (meaningLilim F) tour := by
  have := lilim_observe rounded F h
  cases hp : parseLilim rounded (printLilim F) with
  | error e => simp [hp, Except.map] at this
  | ok P =>
    simp only [hp, Except.map, Except.ok.injEq] at this
    exact ⟨P, rfl, fun tour => by rw [this]; exact capacity_binds_expDumpL rounded F h tour⟩

/-- **capacity and time windows together bind as the file says** (all three formats): on the problem read from a printed
    well-formed file, a customer may be appended to a feasible tour (`dumpAppendOk`: loads from the parsed 4-tuples against
    the parsed capacity, arrival from the parsed matrix against the parsed window, return against the parsed shift end)
    exactly when the file's own numbers allow it (`instAppendOk` on the instance the file denotes). The real constraint
    evaluation is compared with `instAppendOk` by the correspondence run (stream `bind`). -/
theorem windows_and_capacity_bind_as_file (rounded : Bool) :
    (∀ F, wfSolomon F = true → ∃ P, parseSolomon rounded (printSolomon F) = .ok P ∧
        ∀ pre target, dumpAppendOk (observe P) pre target = instAppendOk rounded false 0 (meaningSolomon F) pre target) ∧
    (∀ F, wfLilim F = true → ∃ P, parseLilim rounded (printLilim F) = .ok P ∧
        ∀ pre target, dumpAppendOk (observe P) pre target = instAppendOk rounded true 0 (meaningLilim F) pre target) ∧
    (∀ F, wfTsplib F = true → ∃ P, parseTsplib rounded (printTsplib F) = .ok P ∧
        ∀ pre target, dumpAppendOk (observe P) pre target = instAppendOk rounded false 1 (meaningTsplib F) pre target) := by
  refine ⟨fun F h => ?_, fun F h => ?_, fun F h => ?_⟩
  · have := solomon_observe rounded F h
    cases hp : parseSolomon rounded (printSolomon F) with
    | error e => simp [hp, Except.map] at this
    | ok P =>
      simp only [hp, Except.map, Except.ok.injEq] at this
      exact ⟨P, rfl, fun pre target => by rw [this]; exact binds_expDumpS rounded F h pre target⟩
  · have := lilim_observe rounded F h
    cases hp : parseLilim rounded (printLilim F) with
    | error e => simp [hp, Except.map] at this
    | ok P =>
      simp only [hp, Except.map, Except.ok.injEq] at this
      exact ⟨P, rfl, fun pre target => by rw [this]; exact binds_expDumpL rounded F h pre target⟩
  · have := tsplib_observe rounded F h
    cases hp : parseTsplib rounded (printTsplib F) with
    | error e => simp [hp, Except.map] at this
    | ok P =>
      simp only [hp, Except.map, Except.ok.injEq] at this
      exact ⟨P, rfl, fun pre target => by rw [this]; exact binds_expDumpT rounded F h pre target⟩

/-! ## 4. text round trip of complete solutions -/

/-- **`routes (readInit (write S)) = routes S`** for every complete solution `S` of a problem read from a well-formed
    Solomon or TSPLIB file (and nothing is left unassigned); `readInit_writeSol` is the same for any problem of single jobs. -/
theorem init_text_roundtrip (rounded : Bool) :
    (∀ F routes, wfSolomon F = true → completeSol (F.customers.map (·.id)) F.vehicles routes = true →
      ∃ P, parseSolomon rounded (printSolomon F) = .ok P ∧ readInit P (writeSol routes) = some ⟨routes, []⟩) ∧
    (∀ F routes, wfTsplib F = true →
      completeSol ((F.nodes.filter (fun n => n.1 ≠ F.depot)).map (fun n => n.1 - 1)) F.nodes.length routes = true →
      ∃ P, parseTsplib rounded (printTsplib F) = .ok P ∧ readInit P (writeSol routes) = some ⟨routes, []⟩) :=
  ⟨fun F routes h hc => init_roundtrip_solomon rounded F h routes hc,
   fun F routes h hc => init_roundtrip_tsplib rounded F h routes hc⟩

/-! ## non-vacuity: concrete files meet the hypotheses, and the statements discriminate -/

/-- three customers, two at the same place, one with zero demand -/
def exSolomon : SolomonFile :=
  { vehicles := 2, capacity := 10, depot := ⟨0, 0, 0, 1000⟩,
    customers := [⟨1, 3, 4, 6, 5, 100, 10⟩, ⟨2, 3, 4, 5, 0, 200, 0⟩, ⟨7, -6, 8, 0, 20, 30, 90⟩] }

example : wfSolomon exSolomon = true := by decide
example : ∀ c ∈ exSolomon.customers, 0 ≤ c.demand := by decide
example : completeSol (exSolomon.customers.map (·.id)) exSolomon.vehicles [[2, 7], [1]] = true := by decide
/-- capacity binds: customers 1 and 2 together (6 + 5 > 10) are rejected, 1 and 7 are accepted -/
example : fileAcceptsDelivery (meaningSolomon exSolomon) [1, 2] = some false ∧
          fileAcceptsDelivery (meaningSolomon exSolomon) [1, 7] = some true := by decide
/-- a reader that dropped the demands would accept the rejected tour: the capacity statement is not vacuous -/
example : capAccepts 10 [⟨0, 0, 0, 0⟩, ⟨0, 0, 0, 0⟩] = true ∧ capAccepts 10 [static4 6, static4 5] = false := by decide

/-- the rounded matrix of `exSolomon` (depot, customers 1, 2, 7): 5, 5, 10 from the depot; √97 ≈ 9.85 ↦ 10 between (3,4) and (-6,8) -/
def exDist : List (List (Nat × Bool)) :=
  [[(0, true), (5, true), (5, true), (10, true)], [(5, true), (0, true), (0, true), (10, true)],
   [(5, true), (0, true), (0, true), (10, true)], [(10, true), (10, true), (10, true), (0, true)]]

/-- time windows and capacity bind: customer 7 (window [20, 30], service 90) can be appended to the empty tour and to [1]
    (reached at 10 resp. 25, back at the depot at 120 resp. 120); with the depot closing at 119 it cannot (back at 120);
    customer 2 cannot be appended to [1] (6 + 5 > 10) -/
example :
    let stops := instStops false 0 (meaningSolomon exSolomon)
    appendOk 10 0 (.fin 1000) exDist stops [] 7 = some true ∧ appendOk 10 0 (.fin 1000) exDist stops [1] 7 = some true ∧
    appendOk 10 0 (.fin 119) exDist stops [] 7 = some false ∧ appendOk 10 0 (.fin 1000) exDist stops [1] 2 = some false ∧
    appendOk 10 0 (.fin 1000) exDist stops [1, 2] 7 = none := by
  decide

/-- two requests, rows interleaved and not sorted -/
def exLilim : LilimFile :=
  { vehicles := 3, capacity := 15, depot := ⟨40, 50, 0, 1236⟩,
    rows := [⟨3, 42, 66, 10, 65, 146, 90, 0, 5⟩, ⟨1, 45, 68, -8, 912, 967, 90, 2, 0⟩,
             ⟨5, 42, 65, -10, 15, 67, 90, 3, 0⟩, ⟨2, 45, 70, 8, 825, 870, 90, 0, 1⟩] }

example : wfLilim exLilim = true := by decide
/-- picking up both loads before delivering exceeds the capacity (10 + 8 > 15); serving the requests one after the
    other does not; with the delivery sign flipped the second order would be rejected too -/
example : fileAcceptsPD (meaningLilim exLilim) [3, 2, 5, 1] = some false ∧
          fileAcceptsPD (meaningLilim exLilim) [3, 5, 2, 1] = some true := by decide
example : capAccepts 15 [dynamic4 10, dynamic4 10, dynamic4 8, dynamic4 8] = false := by decide

/-- depot is node 2, demand rows in another order than the node rows -/
def exTsplib : TsplibFile :=
  { capacity := 30, nodes := [(1, 38, 46), (2, 59, 46), (3, 96, 42), (4, 59, 46)],
    demands := [(4, 1), (1, 16), (2, 0), (3, 18)], depot := 2 }

example : wfTsplib exTsplib = true := by decide
example : ∀ d ∈ exTsplib.demands, 0 ≤ d.2 := by decide
example : fileAcceptsDelivery (meaningTsplib exTsplib) [1, 3] = some false ∧
          fileAcceptsDelivery (meaningTsplib exTsplib) [1, 4] = some true := by decide
example : completeSol ((exTsplib.nodes.filter (fun n => n.1 ≠ exTsplib.depot)).map (fun n => n.1 - 1))
            exTsplib.nodes.length [[3, 0], [], [2]] = true := by decide

/-- rounding: √2 ≈ 1.41 ↦ 1, √3 ≈ 1.73 ↦ 2, √12 ≈ 3.46 ↦ 3, √13 ≈ 3.61 ↦ 4 (floor would give 1, 1, 3, 3) -/
example : roundSqrt 2 = 1 ∧ roundSqrt 3 = 2 ∧ roundSqrt 12 = 3 ∧ roundSqrt 13 = 4 ∧ roundSqrt 0 = 0 ∧ roundSqrt 25 = 5 := by
  refine ⟨?_, ?_, ?_, ?_, ?_, ?_⟩ <;>
    (symm; apply (euclid_rounded_correct _).2.1; unfold IsNearestSqrt; decide)

end C13
