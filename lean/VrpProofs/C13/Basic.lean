import VrpModel.C13
import Mathlib.Data.Nat.Sqrt
import Mathlib.Tactic.Linarith
import Mathlib.Tactic.Ring
/-!
# C13 — basic lemmas: nearest-integer square root, `CoordIndex::collect`, `allSome`
-/
set_option linter.unusedSimpArgs false
set_option linter.unusedVariables false

namespace C13

/-! ### `roundSqrt` is the nearest integer to `√n` -/

/-- `r` is the nearest integer to `√n`: `|r - √n| < 1/2`, i.e. `(2r-1)² < 4n < (2r+1)²`
    (the left inequality is void for `r = 0`, where `r - 1/2 < 0 ≤ √n`). -/
def IsNearestSqrt (n r : Nat) : Prop := 4 * n < (2 * r + 1) ^ 2 ∧ (r = 0 ∨ (2 * r - 1) ^ 2 < 4 * n)

theorem roundSqrt_isNearest (n : Nat) : IsNearestSqrt n (roundSqrt n) := by
  have h1 := Nat.sqrt_le n
  have h2 := Nat.lt_succ_sqrt n
  unfold IsNearestSqrt roundSqrt
  generalize Nat.sqrt n = s at *
  simp only [Nat.succ_eq_add_one] at h2
  by_cases h : n - s * s ≤ s
  · simp only [h, if_true]
    have h' : n ≤ s * s + s := by omega
    constructor
    · nlinarith
    · by_cases hs : s = 0
      · left; exact hs
      · right
        obtain ⟨t, rfl⟩ : ∃ t, s = t + 1 := ⟨s - 1, by omega⟩
        have : 2 * (t + 1) - 1 = 2 * t + 1 := by omega
        rw [this]; nlinarith
  · simp only [h, if_false]
    have h3 : s * s + s + 1 ≤ n := by omega
    constructor
    · nlinarith
    · right
      have : 2 * (s + 1) - 1 = 2 * s + 1 := by omega
      rw [this]; nlinarith

/-- there is exactly one nearest integer: a tie `√n = r + 1/2` would need `4n = (2r+1)²`, an odd number -/
theorem isNearestSqrt_unique (n r r' : Nat) (h : IsNearestSqrt n r) (h' : IsNearestSqrt n r') : r = r' := by
  unfold IsNearestSqrt at h h'
  obtain ⟨a1, a2⟩ := h
  obtain ⟨b1, b2⟩ := h'
  by_contra hne
  rcases Nat.lt_or_gt_of_ne hne with hlt | hgt
  · -- r < r' : (2r+1) ≤ (2r'-1)
    rcases b2 with b2 | b2
    · omega
    · have : 2 * r + 1 ≤ 2 * r' - 1 := by omega
      have := Nat.pow_le_pow_left this 2
      omega
  · rcases a2 with a2 | a2
    · omega
    · have : 2 * r' + 1 ≤ 2 * r - 1 := by omega
      have := Nat.pow_le_pow_left this 2
      omega

/-- a tie is impossible for an integer radicand -/
theorem no_sqrt_tie (n r : Nat) : 4 * n ≠ (2 * r + 1) ^ 2 := by
  intro h
  have : (2 * r + 1) ^ 2 = 4 * (r * r + r) + 1 := by ring
  omega

/-! ### `collect` -/

theorem pos_some_get {p : Int × Int} {ci : List (Int × Int)} {i : Nat} (h : pos p ci = some i) :
    ci[i]? = some p := by
  induction ci generalizing i with
  | nil => simp [pos] at h
  | cons q qs ih =>
    unfold pos at h
    by_cases hq : q = p
    · simp [hq] at h; subst h; simp [hq]
    · simp only [hq, if_false] at h
      cases hp : pos p qs with
      | none => simp [hp] at h
      | some k =>
        simp [hp] at h; subst h
        simpa using ih hp

theorem collect_get (ci : List (Int × Int)) (p : Int × Int) : (collect ci p).2[(collect ci p).1]? = some p := by
  unfold collect
  cases h : pos p ci with
  | some i => simpa using pos_some_get h
  | none => simp

theorem collect_ext (ci : List (Int × Int)) (p : Int × Int) : ∃ e, (collect ci p).2 = ci ++ e := by
  unfold collect
  cases h : pos p ci with
  | some i => exact ⟨[], by simp⟩
  | none => exact ⟨[p], by simp⟩

theorem get_append_of_get {l : List α} {i : Nat} {a : α} (h : l[i]? = some a) (e : List α) :
    (l ++ e)[i]? = some a := by
  have hi : i < l.length := by
    by_contra hc
    have : l[i]? = none := List.getElem?_eq_none (by omega)
    simp [this] at h
  rw [List.getElem?_append_left hi]; exact h

/-! ### `allSome`, `mapE` -/

theorem allSome_map_some (f : α → Option β) (g : α → β) (l : List α) (h : ∀ a ∈ l, f a = some (g a)) :
    allSome (l.map f) = some (l.map g) := by
  induction l with
  | nil => rfl
  | cons a as ih =>
    have ha := h a (by simp)
    have := ih (fun b hb => h b (by simp [hb]))
    simp [allSome, ha, this]

theorem allSome_map_map (f : α → Option β) (g : β → γ) (l : List α) :
    allSome (l.map (fun a => (f a).map g)) = (allSome (l.map f)).map (List.map g) := by
  induction l with
  | nil => rfl
  | cons a as ih =>
    simp only [List.map_cons]
    cases hf : f a with
    | none => simp [allSome]
    | some b =>
      simp only [allSome, Option.map_some, ih]
      cases allSome (as.map f) <;> simp

theorem mapE_map_ok (f : α → Except Err β) (pr : β → α) (l : List β) (h : ∀ b ∈ l, f (pr b) = .ok b) :
    mapE f (l.map pr) = .ok l := by
  induction l with
  | nil => rfl
  | cons b bs ih =>
    have hb := h b (by simp)
    have := ih (fun c hc => h c (by simp [hc]))
    simp [mapE, hb, this]

end C13
