import VrpProofs.C13.Init
/-!
# C13 — capacity and time windows together: a tour is feasible on the parsed problem exactly when the file says so
-/
set_option linter.unusedSimpArgs false
set_option linter.unusedVariables false

namespace C13

theorem dumpAppendOk_expFleet (n : Nat) (hn : 1 ≤ n) (cap : Int) (xy : Int × Int) (lo : Int) (hi : Bound)
    (js : List DJob) (dist : List (List (Nat × Bool))) (pre : List Int) (target : Int) :
    dumpAppendOk ⟨expFleet n cap xy lo hi, js, dist⟩ pre target =
      appendOk cap lo hi dist (dumpStops ⟨expFleet n cap xy lo hi, js, dist⟩) pre target := by
  obtain ⟨m, rfl⟩ : ∃ m, n = m + 1 := ⟨n - 1, by omega⟩
  simp [dumpAppendOk, expFleet, List.range_succ_eq_map, expVehicle]

theorem dumpStops_expDumpS (rounded : Bool) (F : SolomonFile) :
    dumpStops (expDumpS rounded F) = instStops false 0 (meaningSolomon F) := by
  simp only [dumpStops, expDumpS, instStops, meaningSolomon, List.map_map]
  induction F.customers with
  | nil => rfl
  | cons c cs ih => simp [expJobS, expSingleS, static4] at ih ⊢; exact ih

theorem dumpStops_expDumpT (rounded : Bool) (F : TsplibFile) :
    dumpStops (expDumpT rounded F) = instStops false 1 (meaningTsplib F) := by
  simp only [dumpStops, expDumpT, instStops, meaningTsplib, List.map_map]
  induction (F.nodes.filter (fun n => n.1 ≠ F.depot)) with
  | nil => rfl
  | cons c cs ih => simp [expJobT, static4] at ih ⊢; exact ih

theorem dumpStops_expDumpL (rounded : Bool) (F : LilimFile) :
    dumpStops (expDumpL rounded F) = instStops true 0 (meaningLilim F) := by
  simp only [dumpStops, expDumpL, instStops, meaningLilim, subs_expJobsL, List.map_map]
  induction (requestsOf F.rows) with
  | nil => rfl
  | cons pd reqs ih => simp [expTask, rowCust] at ih ⊢; exact ih

/-- Solomon: appending a customer to a tour — capacity, the customer's window and the depot's closing time together -/
theorem binds_expDumpS (rounded : Bool) (F : SolomonFile) (h : wfSolomon F = true) (pre : List Int) (target : Int) :
    dumpAppendOk (expDumpS rounded F) pre target = instAppendOk rounded false 0 (meaningSolomon F) pre target := by
  obtain ⟨hv, _⟩ := wfSolomon_basic h
  have hd := dist_expDumpS rounded F h
  have hs := dumpStops_expDumpS rounded F
  unfold instAppendOk
  rw [← hd, ← hs]
  simp only [expDumpS] at *
  rw [dumpAppendOk_expFleet _ hv]
  rfl

theorem binds_expDumpT (rounded : Bool) (F : TsplibFile) (h : wfTsplib F = true) (pre : List Int) (target : Int) :
    dumpAppendOk (expDumpT rounded F) pre target = instAppendOk rounded false 1 (meaningTsplib F) pre target := by
  obtain ⟨hc, hn, hdn, hlen, hdem, hdep⟩ := wfTsplib_facts h
  obtain ⟨dxy, hdxy⟩ := Option.isSome_iff_exists.mp hdep
  have hpos : 1 ≤ F.nodes.length := by
    cases hnodes : F.nodes with
    | nil => simp [hnodes, assocFind] at hdxy
    | cons _ _ => simp
  have hd := dist_expDumpT rounded F h
  have hs := dumpStops_expDumpT rounded F
  unfold instAppendOk
  rw [← hd, ← hs]
  simp only [expDumpT] at *
  rw [dumpAppendOk_expFleet _ hpos]
  rfl

theorem binds_expDumpL (rounded : Bool) (F : LilimFile) (h : wfLilim F = true) (pre : List Int) (target : Int) :
    dumpAppendOk (expDumpL rounded F) pre target = instAppendOk rounded true 0 (meaningLilim F) pre target := by
  obtain ⟨hv, _, _, _, _⟩ := wfLilim_facts h
  have hd := dist_expDumpL rounded F h
  have hs := dumpStops_expDumpL rounded F
  unfold instAppendOk
  rw [← hd, ← hs]
  simp only [expDumpL] at *
  rw [dumpAppendOk_expFleet _ hv]
  rfl

end C13
