import VrpProofs.C13.Solomon
/-!
# C13 — capacity binds as the file says (generic part + Solomon)
-/
set_option linter.unusedSimpArgs false
set_option linter.unusedVariables false

namespace C13

theorem loadsFrom_static_le (qs : List Int) (hq : ∀ q ∈ qs, 0 ≤ q) (cur : Int) :
    ∀ l ∈ loadsFrom cur (qs.map static4), l ≤ cur := by
  induction qs generalizing cur with
  | nil => intro l hl; simp [loadsFrom] at hl
  | cons q qs ih =>
    intro l hl
    have hq0 := hq q (by simp)
    simp only [List.map_cons, loadsFrom, static4, List.mem_cons] at hl
    rcases hl with rfl | hl
    · omega
    · have := ih (fun x hx => hq x (by simp [hx])) _ l (by simpa [static4] using hl)
      omega

theorem sum_static (qs : List Int) : ((qs.map static4).map (·.ds)).sum = qs.sum := by
  induction qs with
  | nil => rfl
  | cons q qs ih => simp [static4, List.sum_cons] at ih ⊢; omega

/-- static deliveries with non-negative amounts: the constraint is `total ≤ capacity` -/
theorem capAccepts_static (cap : Int) (qs : List Int) (hq : ∀ q ∈ qs, 0 ≤ q) :
    capAccepts cap (qs.map static4) = decide (qs.sum ≤ cap) := by
  unfold capAccepts tourLoads
  simp only [sum_static, List.all_cons]
  by_cases h : qs.sum ≤ cap
  · simp only [h, decide_true, Bool.true_and]
    rw [List.all_eq_true]
    intro l hl
    have := loadsFrom_static_le qs hq qs.sum l hl
    simp; omega
  · simp [h]

theorem loadsFrom_dynamic (qs : List Int) (cur : Int) :
    loadsFrom cur (qs.map dynamic4) = prefixSums cur qs := by
  induction qs generalizing cur with
  | nil => rfl
  | cons q qs ih =>
    have hstep : cur + ((dynamic4 q).ps + (dynamic4 q).pd - (dynamic4 q).ds - (dynamic4 q).dd) = cur + q := by
      unfold dynamic4; split <;> simp
    simp only [List.map_cons, loadsFrom, prefixSums, hstep, ih]

theorem sum_dynamic (qs : List Int) : ((qs.map dynamic4).map (·.ds)).sum = 0 := by
  induction qs with
  | nil => rfl
  | cons q qs ih =>
    have : (dynamic4 q).ds = 0 := by unfold dynamic4; split <;> rfl
    simp only [List.map_cons, List.sum_cons, this, ih]; rfl

/-- dynamic pickups/deliveries: the constraint is `every running sum of the signed amounts ≤ capacity` -/
theorem capAccepts_dynamic (cap : Int) (qs : List Int) :
    capAccepts cap (qs.map dynamic4) = (0 :: prefixSums 0 qs).all (fun l => decide (l ≤ cap)) := by
  unfold capAccepts tourLoads
  simp only [sum_dynamic, loadsFrom_dynamic]

/-! ### Solomon -/

theorem dumpCapacity_expFleet (n : Nat) (hn : 1 ≤ n) (cap : Int) (xy : Int × Int) (lo : Int) (hi : Bound)
    (js : List DJob) (dist : List (List (Nat × Bool))) :
    dumpCapacity ⟨expFleet n cap xy lo hi, js, dist⟩ = cap := by
  obtain ⟨m, rfl⟩ : ∃ m, n = m + 1 := ⟨n - 1, by omega⟩
  simp [dumpCapacity, expFleet, List.range_succ_eq_map, expVehicle]

theorem demandOfId_expJobS (cs : List CustLine) (id : Int) :
    demandOfId (cs.map expJobS) id = ((cs.find? (fun c => c.id = id)).map (·.demand)).map static4 := by
  unfold demandOfId
  induction cs with
  | nil => rfl
  | cons c cs ih =>
    simp only [List.map_cons, List.flatMap_cons, expJobS, List.cons_append, List.nil_append, List.find?_cons]
    by_cases h : c.id = id
    · simp [h, expSingleS, static4]
    · simp only [expSingleS, h, decide_false]
      exact ih

theorem instDemand_meaningSolomon (F : SolomonFile) (id : Int) :
    instDemand (meaningSolomon F) id = (F.customers.find? (fun c => c.id = id)).map (·.demand) := by
  unfold instDemand meaningSolomon
  simp only
  induction F.customers with
  | nil => rfl
  | cons c cs ih =>
    simp only [List.map_cons, List.find?_cons]
    by_cases h : c.id = id
    · simp [h]
    · simp only [h, decide_false]; exact ih

theorem allSome_demands_nonneg (cs : List CustLine) (hq : ∀ c ∈ cs, 0 ≤ c.demand) (tour : List Int) (qs : List Int)
    (h : allSome (tour.map (fun id => (cs.find? (fun c => c.id = id)).map (·.demand))) = some qs) :
    ∀ q ∈ qs, 0 ≤ q := by
  induction tour generalizing qs with
  | nil => simp [allSome] at h; subst h; simp
  | cons id tour ih =>
    simp only [List.map_cons] at h
    cases hf : cs.find? (fun c => c.id = id) with
    | none => simp [hf, allSome] at h
    | some c =>
      simp only [hf, Option.map_some, allSome] at h
      cases hr : allSome (tour.map (fun id => (cs.find? (fun c => c.id = id)).map (·.demand))) with
      | none => simp [hr] at h
      | some qs' =>
        simp [hr] at h; subst h
        intro q hqm
        simp only [List.mem_cons] at hqm
        rcases hqm with rfl | hqm
        · exact hq c (List.mem_of_find?_eq_some hf)
        · exact ih qs' hr q hqm

/-- **capacity binds as the file says (Solomon)**: on the observable content a well-formed file prescribes, the capacity
    constraint accepts a tour of customer ids exactly when the file demands of its customers sum to at most the
    file capacity (non-negative demands). -/
theorem capacity_binds_expDumpS (rounded : Bool) (F : SolomonFile) (h : wfSolomon F = true)
    (hq : ∀ c ∈ F.customers, 0 ≤ c.demand) (tour : List Int) :
    dumpAccepts (expDumpS rounded F) tour = fileAcceptsDelivery (meaningSolomon F) tour := by
  obtain ⟨hv, _⟩ := wfSolomon_basic h
  unfold dumpAccepts fileAcceptsDelivery
  have hcap : dumpCapacity (expDumpS rounded F) = F.capacity := by
    unfold expDumpS; exact dumpCapacity_expFleet _ hv _ _ _ _ _ _
  rw [hcap]
  have hmap : tour.map (demandOfId (expDumpS rounded F).jobs) =
      tour.map (fun id => (instDemand (meaningSolomon F) id).map static4) := by
    apply List.map_congr_left
    intro id _
    simp only [expDumpS, demandOfId_expJobS, instDemand_meaningSolomon]
  rw [hmap, allSome_map_map]
  cases hs : allSome (tour.map (instDemand (meaningSolomon F))) with
  | none => rfl
  | some qs =>
    simp only [Option.map_some]
    congr 1
    apply capAccepts_static
    apply allSome_demands_nonneg F.customers hq tour qs
    rw [← hs]
    congr 1
    apply List.map_congr_left
    intro id _
    exact (instDemand_meaningSolomon F id).symm

end C13
