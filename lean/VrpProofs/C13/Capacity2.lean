import VrpProofs.C13.Tsplib
import VrpProofs.C13.Lilim
/-!
# C13 — capacity binds as the file says: TSPLIB and Li&Lim; distances prescribed by the instance
-/
set_option linter.unusedSimpArgs false
set_option linter.unusedVariables false

namespace C13

/-! ### TSPLIB -/

theorem demandOfId_expJobT (F : TsplibFile) (ns : List (Int × Int × Int)) (id : Int) :
    demandOfId (ns.map (expJobT F)) (id - 1) =
      ((ns.find? (fun n => n.1 = id)).map (fun n => (assocFind n.1 F.demands).getD 0)).map static4 := by
  unfold demandOfId
  induction ns with
  | nil => rfl
  | cons n ns ih =>
    simp only [List.map_cons, List.flatMap_cons, expJobT, List.cons_append, List.nil_append, List.find?_cons]
    by_cases h : n.1 = id
    · simp [h, static4]
    · have h' : ¬ n.1 - 1 = id - 1 := by omega
      simp only [h, h', decide_false]
      exact ih

theorem instDemand_meaningTsplib (F : TsplibFile) (id : Int) :
    instDemand (meaningTsplib F) id =
      ((F.nodes.filter (fun n => n.1 ≠ F.depot)).find? (fun n => n.1 = id)).map
        (fun n => (assocFind n.1 F.demands).getD 0) := by
  unfold instDemand meaningTsplib
  simp only
  induction (F.nodes.filter (fun n => n.1 ≠ F.depot)) with
  | nil => rfl
  | cons n ns ih =>
    simp only [List.map_cons, List.find?_cons]
    by_cases h : n.1 = id
    · simp [h]
    · simp only [h, decide_false]; exact ih

theorem assocFind_getD_nonneg (ds : List (Int × Int)) (hq : ∀ d ∈ ds, 0 ≤ d.2) (k : Int) :
    0 ≤ (assocFind k ds).getD 0 := by
  unfold assocFind
  cases hf : ds.find? (fun e => e.1 = k) with
  | none => simp
  | some e => simp; exact hq e (List.mem_of_find?_eq_some hf)

theorem allSome_nonneg {α : Type} (l : List α) (f : α → Int) (hf : ∀ a, 0 ≤ f a) (p : Int → α → Bool) (tour : List Int)
    (qs : List Int) (h : allSome (tour.map (fun id => (l.find? (p id)).map f)) = some qs) : ∀ q ∈ qs, 0 ≤ q := by
  induction tour generalizing qs with
  | nil => simp [allSome] at h; subst h; simp
  | cons id tour ih =>
    simp only [List.map_cons] at h
    cases hfd : l.find? (p id) with
    | none => simp [hfd, allSome] at h
    | some c =>
      simp only [hfd, Option.map_some, allSome] at h
      cases hr : allSome (tour.map (fun id => (l.find? (p id)).map f)) with
      | none => simp [hr] at h
      | some qs' =>
        simp [hr] at h; subst h
        intro q hqm
        simp only [List.mem_cons] at hqm
        rcases hqm with rfl | hqm
        · exact hf c
        · exact ih qs' hr q hqm

/-- **capacity binds as the file says (TSPLIB)**: tours are given by node ids; node `id` is job `id-1` -/
theorem capacity_binds_expDumpT (rounded : Bool) (F : TsplibFile) (h : wfTsplib F = true)
    (hq : ∀ d ∈ F.demands, 0 ≤ d.2) (tour : List Int) :
    dumpAccepts (expDumpT rounded F) (tour.map (· - 1)) = fileAcceptsDelivery (meaningTsplib F) tour := by
  obtain ⟨hc, hn, hdn, hlen, hdem, hdep⟩ := wfTsplib_facts h
  obtain ⟨dxy, hdxy⟩ := Option.isSome_iff_exists.mp hdep
  have hpos : 1 ≤ F.nodes.length := by
    cases hnodes : F.nodes with
    | nil => simp [hnodes, assocFind] at hdxy
    | cons _ _ => simp
  unfold dumpAccepts fileAcceptsDelivery
  have hcap : dumpCapacity (expDumpT rounded F) = F.capacity := by
    unfold expDumpT; exact dumpCapacity_expFleet _ hpos _ _ _ _ _ _
  rw [hcap]
  have hmap : (tour.map (· - 1)).map (demandOfId (expDumpT rounded F).jobs) =
      tour.map (fun id => (instDemand (meaningTsplib F) id).map static4) := by
    rw [List.map_map]
    apply List.map_congr_left
    intro id _
    simp only [Function.comp, expDumpT, demandOfId_expJobT, instDemand_meaningTsplib]
  rw [hmap, allSome_map_map]
  cases hs : allSome (tour.map (instDemand (meaningTsplib F))) with
  | none => rfl
  | some qs =>
    simp only [Option.map_some]
    congr 1
    apply capAccepts_static
    apply allSome_nonneg (F.nodes.filter (fun n => n.1 ≠ F.depot)) (fun n => (assocFind n.1 F.demands).getD 0)
      (fun n => assocFind_getD_nonneg F.demands hq n.1) (fun id n => decide (n.1 = id)) tour qs
    rw [← hs]
    congr 1
    apply List.map_congr_left
    intro id _
    exact (instDemand_meaningTsplib F id).symm

/-! ### Li&Lim -/

theorem subs_expJobsL (k : Nat) (reqs : List (Row × Row)) :
    (expJobsL k reqs).flatMap (·.subs) = (reqs.flatMap (fun pd => [pd.1, pd.2])).map expTask := by
  induction reqs generalizing k with
  | nil => rfl
  | cons pd reqs ih => simp [expJobsL, expJobL, ih]

theorem demandOfId_expJobsL (k : Nat) (reqs : List (Row × Row)) (id : Int) :
    demandOfId (expJobsL k reqs) id =
      (((reqs.flatMap (fun pd => [pd.1, pd.2])).find? (fun r => r.id = id)).map (·.demand)).map dynamic4 := by
  unfold demandOfId
  rw [subs_expJobsL]
  induction (reqs.flatMap (fun pd => [pd.1, pd.2])) with
  | nil => rfl
  | cons r rs ih =>
    simp only [List.map_cons, List.find?_cons]
    by_cases h : r.id = id
    · simp [h, expTask]
    · simp only [expTask, h, decide_false]; exact ih

theorem instDemand_meaningLilim (F : LilimFile) (id : Int) :
    instDemand (meaningLilim F) id =
      (((requestsOf F.rows).flatMap (fun pd => [pd.1, pd.2])).find? (fun r => r.id = id)).map (·.demand) := by
  unfold instDemand meaningLilim
  simp only
  have : (requestsOf F.rows).flatMap (fun pd => [rowCust pd.1, rowCust pd.2]) =
      ((requestsOf F.rows).flatMap (fun pd => [pd.1, pd.2])).map rowCust := by
    induction requestsOf F.rows with
    | nil => rfl
    | cons pd reqs ih => simp [ih]
  rw [this]
  induction ((requestsOf F.rows).flatMap (fun pd => [pd.1, pd.2])) with
  | nil => rfl
  | cons r rs ih =>
    simp only [List.map_cons, List.find?_cons]
    by_cases h : r.id = id
    · simp [h, rowCust]
    · simp only [rowCust, h, decide_false]; exact ih

/-- **capacity binds as the file says (Li&Lim)**: on the observable content a well-formed file prescribes, the capacity
    constraint accepts a sequence of task ids exactly when the vehicle, starting empty, never carries more than the file
    capacity when the file's signed demands are applied in order (positive = picked up, negative = delivered).
    A dropped demand or a flipped sign falsifies this. -/
theorem capacity_binds_expDumpL (rounded : Bool) (F : LilimFile) (h : wfLilim F = true) (tour : List Int) :
    dumpAccepts (expDumpL rounded F) tour = fileAcceptsPD (meaningLilim F) tour := by
  obtain ⟨hv, _, _, _, _⟩ := wfLilim_facts h
  unfold dumpAccepts fileAcceptsPD
  have hcap : dumpCapacity (expDumpL rounded F) = F.capacity := by
    unfold expDumpL; exact dumpCapacity_expFleet _ hv _ _ _ _ _ _
  rw [hcap]
  have hmap : tour.map (demandOfId (expDumpL rounded F).jobs) =
      tour.map (fun id => (instDemand (meaningLilim F) id).map dynamic4) := by
    apply List.map_congr_left
    intro id _
    simp only [expDumpL, demandOfId_expJobsL, instDemand_meaningLilim]
  rw [hmap, allSome_map_map]
  cases hs : allSome (tour.map (instDemand (meaningLilim F))) with
  | none => rfl
  | some qs =>
    simp only [Option.map_some]
    congr 1
    exact capAccepts_dynamic F.capacity qs

/-! ### distances -/

theorem pointsOf_expFleet (n : Nat) (hn : 1 ≤ n) (cap : Int) (xy : Int × Int) (lo : Int) (hi : Bound) (js : List DJob) :
    pointsOf (expFleet n cap xy lo hi) js = some xy :: (js.flatMap (·.subs)).map (·.xy) := by
  obtain ⟨m, rfl⟩ : ∃ m, n = m + 1 := ⟨n - 1, by omega⟩
  simp [pointsOf, expFleet, List.range_succ_eq_map, expVehicle]

/-- Solomon: the matrix is the one the instance prescribes -/
theorem dist_expDumpS (rounded : Bool) (F : SolomonFile) (h : wfSolomon F = true) :
    (expDumpS rounded F).dist = instDist rounded (meaningSolomon F) := by
  obtain ⟨hv, _⟩ := wfSolomon_basic h
  simp only [expDumpS, instDist, meaningSolomon]
  rw [pointsOf_expFleet _ hv]
  congr 2
  induction F.customers with
  | nil => rfl
  | cons c cs ih => simp [expJobS, expSingleS, ih]

theorem dist_expDumpT (rounded : Bool) (F : TsplibFile) (h : wfTsplib F = true) :
    (expDumpT rounded F).dist = instDist rounded (meaningTsplib F) := by
  obtain ⟨hc, hn, hdn, hlen, hdem, hdep⟩ := wfTsplib_facts h
  obtain ⟨dxy, hdxy⟩ := Option.isSome_iff_exists.mp hdep
  have hpos : 1 ≤ F.nodes.length := by
    cases hnodes : F.nodes with
    | nil => simp [hnodes, assocFind] at hdxy
    | cons _ _ => simp
  simp only [expDumpT, instDist, meaningTsplib]
  rw [pointsOf_expFleet _ hpos]
  congr 2
  induction (F.nodes.filter (fun n => n.1 ≠ F.depot)) with
  | nil => rfl
  | cons c cs ih => simp [expJobT, ih]

theorem dist_expDumpL (rounded : Bool) (F : LilimFile) (h : wfLilim F = true) :
    (expDumpL rounded F).dist = instDist rounded (meaningLilim F) := by
  obtain ⟨hv, _, _, _, _⟩ := wfLilim_facts h
  simp only [expDumpL, instDist, meaningLilim]
  rw [pointsOf_expFleet _ hv, subs_expJobsL]
  congr 2
  induction (requestsOf F.rows) with
  | nil => rfl
  | cons pd reqs ih => simp [expTask, rowCust, ih]

end C13
