import VrpProofs.C13.Capacity2
/-!
# C13 — writing a complete solution as text and reading it back as an initial solution
-/
set_option linter.unusedSimpArgs false
set_option linter.unusedVariables false

namespace C13

theorem readRoutes_write (ids : List Int) (routes : List (List Int)) (free i : Nat)
    (hlen : routes.length ≤ free) (hall : ∀ r ∈ routes, r.all (fun id => ids.contains id) = true) :
    readRoutes ids free (writeRoutes i routes ++ [.skip]) = some routes := by
  induction routes generalizing free i with
  | nil => simp [writeRoutes, readRoutes]
  | cons r rs ih =>
    obtain ⟨f, rfl⟩ : ∃ f, free = f + 1 := ⟨free - 1, by simp at hlen; omega⟩
    have hr := hall r (by simp)
    have := ih f (i + 1) (by simp at hlen; omega) (fun q hq => hall q (by simp [hq]))
    simp only [writeRoutes, List.cons_append, readRoutes, hr, if_true, this, Option.map_some]

/-- **text round trip, any problem of single jobs**: a complete solution (every job visited, every visited id a job,
    no more routes than vehicles) written by the text writer and read by the initial-solution reader gives the same
    routes and nothing unassigned. -/
theorem readInit_writeSol (P : Problem') (ids : List Int) (hs : singleIds P.jobs = some ids) (routes : List (List Int))
    (hc : completeSol ids P.vehicles.length routes = true) :
    readInit P (writeSol routes) = some ⟨routes, []⟩ := by
  unfold completeSol at hc
  simp only [Bool.and_eq_true, decide_eq_true_eq, List.all_eq_true] at hc
  obtain ⟨⟨h1, h2⟩, h3⟩ := hc
  have hr := readRoutes_write ids routes P.vehicles.length 1 h1
    (fun r hr => by rw [List.all_eq_true]; exact h2 r hr)
  unfold readInit writeSol
  simp only [hs, hr]
  congr 2
  rw [List.filter_eq_nil_iff]
  intro id hid
  simp only [Bool.not_eq_true, Bool.not_eq_false']
  exact h3 id hid

theorem singleIds_of_obs (cs : List (Int × Int)) (jobs : List Job')
    (h : ∀ j ∈ jobs.map (obsJob cs), j.multi = false) :
    singleIds jobs = some ((jobs.map (obsJob cs)).map (·.id)) := by
  induction jobs with
  | nil => rfl
  | cons j js ih =>
    have := ih (fun q hq => h q (by simp only [List.map_cons, List.mem_cons]; exact Or.inr hq))
    cases j with
    | single s => simp [singleIds, this, obsJob]
    | multi id subs =>
      have := h (obsJob cs (.multi id subs)) (by simp)
      simp [obsJob] at this

/-- Solomon: problem read from a printed well-formed file, complete solution over its customer ids -/
theorem init_roundtrip_solomon (rounded : Bool) (F : SolomonFile) (h : wfSolomon F = true) (routes : List (List Int))
    (hc : completeSol (F.customers.map (·.id)) F.vehicles routes = true) :
    ∃ P, parseSolomon rounded (printSolomon F) = .ok P ∧ readInit P (writeSol routes) = some ⟨routes, []⟩ := by
  refine ⟨solomonParsed rounded F, parseSolomon_print rounded F h, ?_⟩
  have hobs := observe_solomonParsed rounded F
  have hj : (solomonParsed rounded F).jobs.map (obsJob (solomonParsed rounded F).coords) = F.customers.map expJobS := by
    have := congrArg Dump.jobs hobs
    simpa [observe, expDumpS] using this
  have hids : singleIds (solomonParsed rounded F).jobs = some (F.customers.map (·.id)) := by
    rw [singleIds_of_obs (solomonParsed rounded F).coords]
    · rw [hj]; simp [List.map_map, expJobS, Function.comp]
    · rw [hj]; intro j hjm; simp only [List.mem_map] at hjm; obtain ⟨c, _, rfl⟩ := hjm; rfl
  have hv : (solomonParsed rounded F).vehicles.length = F.vehicles := by simp [solomonParsed, mkFleet]
  apply readInit_writeSol _ _ hids
  rw [hv]; exact hc

/-- TSPLIB: node `id` is job `id-1`; `DIMENSION` vehicles -/
theorem init_roundtrip_tsplib (rounded : Bool) (F : TsplibFile) (h : wfTsplib F = true) (routes : List (List Int))
    (hc : completeSol ((F.nodes.filter (fun n => n.1 ≠ F.depot)).map (fun n => n.1 - 1)) F.nodes.length routes = true) :
    ∃ P, parseTsplib rounded (printTsplib F) = .ok P ∧ readInit P (writeSol routes) = some ⟨routes, []⟩ := by
  obtain ⟨P, hP, _, hv, hj⟩ := parseTsplib_print rounded F h
  refine ⟨P, hP, ?_⟩
  have hids : singleIds P.jobs = some ((F.nodes.filter (fun n => n.1 ≠ F.depot)).map (fun n => n.1 - 1)) := by
    rw [singleIds_of_obs P.coords]
    · rw [hj]; simp [List.map_map, expJobT, Function.comp]
    · rw [hj]; intro j hjm; simp only [List.mem_map] at hjm; obtain ⟨c, _, rfl⟩ := hjm; rfl
  have hlen : P.vehicles.length = F.nodes.length := by
    have := congrArg List.length hv
    simpa [expFleet] using this
  apply readInit_writeSol _ _ hids
  rw [hlen]; exact hc

end C13
