import VrpProofs.C13.Capacity
import Mathlib.Data.List.Nodup
/-!
# C13 — Li&Lim: what the reader model returns on a printed file, observed
-/
set_option linter.unusedSimpArgs false
set_option linter.unusedVariables false

namespace C13

def expTask (r : Row) : DSingle :=
  { id := r.id, xy := some (r.x, r.y), dur := r.service, tws := [⟨r.start, .fin r.stop⟩], dem := dynamic4 r.demand }

def expJobL (k : Nat) (pd : Row × Row) : DJob := { id := k, multi := true, subs := [expTask pd.1, expTask pd.2] }

def expJobsL : Nat → List (Row × Row) → List DJob
  | _, [] => []
  | k, pd :: rest => expJobL k pd :: expJobsL (k + 1) rest

/-- the whole observable content of a Li&Lim file: request `k` (k-th pickup row with the row its delivery column names)
    is multi job `k` = [pickup, delivery] -/
def expDumpL (rounded : Bool) (F : LilimFile) : Dump :=
  let vs := expFleet F.vehicles F.capacity (F.depot.x, F.depot.y) F.depot.ready (.fin F.depot.due)
  let js := expJobsL 0 (requestsOf F.rows)
  { vehicles := vs, jobs := js, dist := distMatrix rounded (pointsOf vs js) }

/-! ### the id map -/

theorem findRow_none_of_not_mem (id : Int) (rows : List Row) (h : id ∉ rows.map (·.id)) : findRow id rows = none := by
  unfold findRow
  rw [List.find?_eq_none]
  intro r hr
  simp only [decide_eq_true_eq]
  intro hid
  exact h (by simp only [List.mem_map]; exact ⟨r, hr, hid⟩)

theorem lookupLast_eq_findRow (id : Int) (rows : List Row) (h : (rows.map (·.id)).Nodup) :
    lookupLast id rows = findRow id rows := by
  induction rows with
  | nil => rfl
  | cons r rs ih =>
    simp only [List.map_cons, List.nodup_cons] at h
    have ih' := ih h.2
    unfold lookupLast
    rw [ih']
    by_cases hid : r.id = id
    · have : findRow id rs = none := findRow_none_of_not_mem id rs (by rw [← hid]; exact h.1)
      rw [this]
      simp [hid, findRow]
    · have : findRow id (r :: rs) = findRow id rs := by simp [findRow, hid]
      rw [this]
      cases findRow id rs <;> simp [hid]

theorem findRow_of_mem (r : Row) (rows : List Row) (h : (rows.map (·.id)).Nodup) (hr : r ∈ rows) :
    findRow r.id rows = some r := by
  induction rows with
  | nil => simp at hr
  | cons q qs ih =>
    simp only [List.map_cons, List.nodup_cons] at h
    simp only [List.mem_cons] at hr
    rcases hr with rfl | hr
    · simp [findRow]
    · have hne : ¬ q.id = r.id := by
        intro he
        exact h.1 (by rw [he]; simp only [List.mem_map]; exact ⟨r, hr, rfl⟩)
      have : findRow r.id (q :: qs) = findRow r.id qs := by simp [findRow, hne]
      rw [this]; exact ih h.2 hr

theorem findRow_some_id {id : Int} {rows : List Row} {r : Row} (h : findRow id rows = some r) : r.id = id := by
  unfold findRow at h
  have := List.find?_some h
  simpa using this

theorem findRow_some_mem {id : Int} {rows : List Row} {r : Row} (h : findRow id rows = some r) : r ∈ rows :=
  List.mem_of_find?_eq_some h

/-! ### jobs -/

theorem obs_lilimSingle (ci : List (Int × Int)) (r : Row) (e : List (Int × Int)) :
    obsSingle ((lilimSingle ci r).2 ++ e) (lilimSingle ci r).1 = expTask r := by
  have hg := collect_get ci (r.x, r.y)
  simp only [lilimSingle, obsSingle, expTask, dynamic4]
  rw [get_append_of_get hg e]

theorem lilimSingle_ext (ci : List (Int × Int)) (r : Row) : ∃ e, (lilimSingle ci r).2 = ci ++ e := by
  simp only [lilimSingle]; exact collect_ext ci (r.x, r.y)

/-- the requests named by a list of pickup rows -/
def reqsOf (rows ps : List Row) : List (Row × Row) :=
  ps.filterMap (fun p => (findRow p.dIdx rows).map (fun d => (p, d)))

theorem lilimJobs_spec (rows : List Row) (hn : (rows.map (·.id)).Nodup) (ps : List Row)
    (hp : ∀ p ∈ ps, p ∈ rows ∧ (findRow p.dIdx rows).isSome) (ci : List (Int × Int)) (k : Nat) :
    ∃ js ci', lilimJobs rows ci k (ps.map (fun r => (r.id, r.dIdx))) = .ok (js, ci') ∧ (∃ e, ci' = ci ++ e) ∧
      ∀ e', js.map (obsJob (ci' ++ e')) = expJobsL k (reqsOf rows ps) := by
  induction ps generalizing ci k with
  | nil => exact ⟨[], ci, rfl, ⟨[], by simp⟩, fun e' => by simp [reqsOf, expJobsL]⟩
  | cons p ps ih =>
    obtain ⟨hpm, hpd⟩ := hp p (by simp)
    obtain ⟨d, hd⟩ := Option.isSome_iff_exists.mp hpd
    have hlp : lookupLast p.id rows = some p := by rw [lookupLast_eq_findRow _ _ hn]; exact findRow_of_mem p rows hn hpm
    have hld : lookupLast p.dIdx rows = some d := by rw [lookupLast_eq_findRow _ _ hn]; exact hd
    obtain ⟨ea, hea⟩ := lilimSingle_ext ci p
    obtain ⟨eb, heb⟩ := lilimSingle_ext (lilimSingle ci p).2 d
    obtain ⟨js, ci', h1, ⟨e1, h2⟩, h3⟩ :=
      ih (fun q hq => hp q (by simp [hq])) (lilimSingle (lilimSingle ci p).2 d).2 (k + 1)
    refine ⟨Job'.multi k [(lilimSingle ci p).1, (lilimSingle (lilimSingle ci p).2 d).1] :: js, ci', ?_,
      ⟨ea ++ (eb ++ e1), by rw [h2, heb, hea]; simp [List.append_assoc]⟩, ?_⟩
    · simp only [List.map_cons, lilimJobs, hlp, hld, h1]
    · intro e'
      have hreq : reqsOf rows (p :: ps) = (p, d) :: reqsOf rows ps := by
        simp [reqsOf, List.filterMap_cons, hd]
      rw [hreq]
      simp only [List.map_cons, expJobsL, h3 e']
      congr 1
      simp only [obsJob, expJobL, List.map_cons, List.map_nil]
      have e_p : obsSingle (ci' ++ e') (lilimSingle ci p).1 = expTask p := by
        have := obs_lilimSingle ci p (eb ++ (e1 ++ e'))
        rw [h2, heb]
        simpa [List.append_assoc] using this
      have e_d : obsSingle (ci' ++ e') (lilimSingle (lilimSingle ci p).2 d).1 = expTask d := by
        have := obs_lilimSingle (lilimSingle ci p).2 d (e1 ++ e')
        rw [h2]
        simpa [List.append_assoc] using this
      rw [e_p, e_d]

/-! ### well-formedness unpacked -/

theorem wfLilim_facts {F : LilimFile} (h : wfLilim F = true) :
    1 ≤ F.vehicles ∧ 0 ≤ F.capacity ∧ (F.rows.map (·.id)).Nodup ∧
    (∀ p ∈ F.rows.filter isPickup, pickupOk F.rows p = true) ∧
    (∀ d ∈ F.rows.filter (fun r => !isPickup r), (F.rows.filter isPickup).countP (fun p => p.dIdx = d.id) = 1) := by
  unfold wfLilim at h
  simp only [Bool.and_eq_true, decide_eq_true_eq, List.all_eq_true, beq_iff_eq] at h
  obtain ⟨⟨⟨⟨⟨⟨⟨⟨⟨⟨h1, h2⟩, _⟩, _⟩, _⟩, _⟩, _⟩, _⟩, h9⟩, h10⟩, h11⟩ := h
  exact ⟨h1, h2, h9, h10, h11⟩

theorem pickupOk_facts {rows : List Row} {p : Row} (h : pickupOk rows p = true) :
    ∃ d, findRow p.dIdx rows = some d ∧ d.demand = -p.demand := by
  unfold pickupOk at h
  cases hf : findRow p.dIdx rows with
  | none => simp [hf] at h
  | some d =>
    simp only [hf, Bool.and_eq_true, decide_eq_true_eq] at h
    exact ⟨d, rfl, h.2.1.1⟩

theorem mapE_rowLines (rows : List Row) : mapE readCustomer9 (rows.map rowLine) = .ok rows :=
  mapE_map_ok readCustomer9 rowLine rows (fun r _ => by cases r; rfl)

theorem requestsOf_eq_reqsOf (rows : List Row) : requestsOf rows = reqsOf rows (rows.filter isPickup) := rfl

theorem relationsOf_eq (rows : List Row) :
    relationsOf rows = (rows.filter isPickup).map (fun r => (r.id, r.dIdx)) := rfl

/-- what the Li&Lim reader model returns on a printed well-formed file -/
theorem parseLilim_print (rounded : Bool) (F : LilimFile) (h : wfLilim F = true) :
    ∃ P, parseLilim rounded (printLilim F) = .ok P ∧ P.rounded = rounded ∧
      P.vehicles.map (obsVehicle P.coords) =
        expFleet F.vehicles F.capacity (F.depot.x, F.depot.y) F.depot.ready (.fin F.depot.due) ∧
      P.jobs.map (obsJob P.coords) = expJobsL 0 (requestsOf F.rows) := by
  obtain ⟨hv, hc, hn, hpk, _⟩ := wfLilim_facts h
  have hv' : ¬ ((F.vehicles : Int) < 1 ∨ F.capacity < 0) := by omega
  have hp : ∀ p ∈ F.rows.filter isPickup, p ∈ F.rows ∧ (findRow p.dIdx F.rows).isSome := by
    intro p hpm
    obtain ⟨d, hd, _⟩ := pickupOk_facts (hpk p hpm)
    exact ⟨(List.mem_filter.mp hpm).1, by simp [hd]⟩
  obtain ⟨js, ci', hj, ⟨e, he⟩, hobs⟩ :=
    lilimJobs_spec F.rows hn (F.rows.filter isPickup) hp (collect [] (F.depot.x, F.depot.y)).2 0
  refine ⟨{ vehicles := mkFleet F.vehicles F.capacity (collect [] (F.depot.x, F.depot.y)).1 F.depot.ready (.fin F.depot.due),
            jobs := js, coords := ci', rounded := rounded }, ?_, rfl, ?_, ?_⟩
  · simp only [parseLilim, printLilim, List.cons_append, List.nil_append, hv', if_false, readCustomer9,
      mapE_rowLines, relationsOf_eq, hj, Int.toNat_natCast]
  · apply obs_mkFleet
    simp only
    rw [he]
    exact get_append_of_get (collect_get [] (F.depot.x, F.depot.y)) e
  · have := hobs []
    simpa [requestsOf_eq_reqsOf] using this

/-- **Li&Lim, full observable** -/
theorem lilim_observe (rounded : Bool) (F : LilimFile) (h : wfLilim F = true) :
    (parseLilim rounded (printLilim F)).map observe = .ok (expDumpL rounded F) := by
  obtain ⟨P, hP, hr, hv, hj⟩ := parseLilim_print rounded F h
  rw [hP]
  simp only [Except.map]
  simp only [observe, hv, hj, hr, expDumpL]

/-! ### reading the instance back -/

theorem requests_facts {F : LilimFile} (h : wfLilim F = true) :
    ∀ pd ∈ requestsOf F.rows, pd.1 ∈ F.rows ∧ 0 < pd.1.demand ∧ findRow pd.1.dIdx F.rows = some pd.2 ∧
      pd.2.demand = -pd.1.demand := by
  obtain ⟨_, _, hn, hpk, _⟩ := wfLilim_facts h
  intro pd hpd
  simp only [requestsOf, List.mem_filterMap] at hpd
  obtain ⟨p, hpm, hpe⟩ := hpd
  obtain ⟨d, hd, hdd⟩ := pickupOk_facts (hpk p hpm)
  simp only [hd, Option.map_some, Option.some.injEq] at hpe
  subst hpe
  have hm := List.mem_filter.mp hpm
  refine ⟨hm.1, ?_, hd, hdd⟩
  simpa [isPickup] using hm.2

theorem decodeRequest_expJobL (k : Nat) (pd : Row × Row) (hp : 0 < pd.1.demand) (hd : pd.2.demand = -pd.1.demand) :
    decodeRequest (expJobL k pd, k) = some (rowCust pd.1, rowCust pd.2) := by
  have h1 : dynamic4 pd.1.demand = ⟨0, pd.1.demand, 0, 0⟩ := by simp [dynamic4, hp]
  have h2 : dynamic4 pd.2.demand = ⟨0, 0, 0, -pd.2.demand⟩ := by
    have : ¬ pd.2.demand > 0 := by omega
    simp [dynamic4, this]
  simp only [decodeRequest, expJobL, expTask, h1, h2, decodeTask, rowCust]
  simp [hp]

theorem allSome_decode_expJobsL (reqs : List (Row × Row))
    (h : ∀ pd ∈ reqs, 0 < pd.1.demand ∧ pd.2.demand = -pd.1.demand) (k : Nat) :
    allSome (((expJobsL k reqs).zipIdx k).map decodeRequest) = some (reqs.map (fun pd => (rowCust pd.1, rowCust pd.2))) := by
  induction reqs generalizing k with
  | nil => rfl
  | cons pd reqs ih =>
    obtain ⟨h1, h2⟩ := h pd (by simp)
    have := ih (fun q hq => h q (by simp [hq])) (k + 1)
    simp only [expJobsL, List.zipIdx_cons, List.map_cons, allSome, decodeRequest_expJobL k pd h1 h2, this,
      Option.map_some]

theorem decodeLilim_expDumpL (rounded : Bool) (F : LilimFile) (h : wfLilim F = true) :
    decodeLilim (expDumpL rounded F) = some (meaningLilim F) := by
  obtain ⟨hv, _, _, _, _⟩ := wfLilim_facts h
  have hreq := requests_facts h
  unfold decodeLilim
  simp only [expDumpL]
  rw [decodeFleet_expFleet _ hv]
  rw [allSome_decode_expJobsL (requestsOf F.rows) (fun pd hpd => ⟨(hreq pd hpd).2.1, (hreq pd hpd).2.2.2⟩) 0]
  simp only [meaningLilim, List.map_map, List.flatMap_map]
  rfl

/-! ### every row of the file is in exactly one request -/

theorem count_flatMap_pair {α : Type} [BEq α] [LawfulBEq α] (a : α) (g : α → α) (l : List α) :
    (l.flatMap (fun p => [p, g p])).count a = l.count a + l.countP (fun p => g p == a) := by
  induction l with
  | nil => simp
  | cons x xs ih =>
    simp only [List.flatMap_cons, List.count_append, ih, List.count_cons, List.countP_cons, List.count_nil]
    omega

/-- **completeness of the pairing**: in a well-formed file the requests (pickup row, delivery row) list every task
    row exactly as often as the file does (once) -/
theorem lilim_requests_complete (F : LilimFile) (h : wfLilim F = true) (r : Row) :
    ((requestsOf F.rows).flatMap (fun pd => [pd.1, pd.2])).count r = F.rows.count r := by
  obtain ⟨_, _, hn, hpk, hdl⟩ := wfLilim_facts h
  have hnr : F.rows.Nodup := List.Nodup.of_map _ hn
  -- partner of a pickup
  let g : Row → Row := fun p => (findRow p.dIdx F.rows).getD p
  have hreqs : requestsOf F.rows = (F.rows.filter isPickup).map (fun p => (p, g p)) := by
    unfold requestsOf
    rw [← List.filterMap_eq_map]
    apply List.filterMap_congr
    intro p hpm
    obtain ⟨d, hd, _⟩ := pickupOk_facts (hpk p hpm)
    simp [g, hd, Function.comp]
  rw [hreqs, List.flatMap_map]
  rw [count_flatMap_pair r g]
  by_cases hpick : isPickup r = true
  · -- a pickup row: once as itself, never as a partner
    have h1 : (F.rows.filter isPickup).count r = F.rows.count r := List.count_filter hpick
    have h2 : (F.rows.filter isPickup).countP (fun p => g p == r) = 0 := by
      rw [List.countP_eq_zero]
      intro p hpm
      obtain ⟨d, hd, hdd⟩ := pickupOk_facts (hpk p hpm)
      have hp0 : 0 < p.demand := by simpa [isPickup] using (List.mem_filter.mp hpm).2
      have hr0 : 0 < r.demand := by simpa [isPickup] using hpick
      simp only [g, hd, Option.getD_some, beq_iff_eq]
      intro he; subst he; omega
    omega
  · have h1 : (F.rows.filter isPickup).count r = 0 := by
      rw [List.count_eq_zero]
      intro hm
      exact hpick (List.mem_filter.mp hm).2
    by_cases hmem : r ∈ F.rows
    · have hcnt : (F.rows.filter isPickup).countP (fun p => g p == r) =
          (F.rows.filter isPickup).countP (fun p => p.dIdx = r.id) := by
        apply List.countP_congr
        intro p hpm
        obtain ⟨d, hd, _⟩ := pickupOk_facts (hpk p hpm)
        simp only [g, hd, Option.getD_some, beq_iff_eq, decide_eq_true_eq]
        constructor
        · intro he; subst he; exact (findRow_some_id hd).symm
        · intro he
          rw [he, findRow_of_mem r F.rows hn hmem] at hd
          exact (Option.some.inj hd).symm
      have h2 := hdl r (List.mem_filter.mpr ⟨hmem, by simpa using hpick⟩)
      have h3 : F.rows.count r = 1 := List.count_eq_one_of_mem hnr hmem
      omega
    · have h2 : (F.rows.filter isPickup).countP (fun p => g p == r) = 0 := by
        rw [List.countP_eq_zero]
        intro p hpm
        obtain ⟨d, hd, _⟩ := pickupOk_facts (hpk p hpm)
        simp only [g, hd, Option.getD_some, beq_iff_eq]
        intro he; subst he
        exact hmem (findRow_some_mem hd)
      have h3 : F.rows.count r = 0 := List.count_eq_zero.mpr hmem
      omega

end C13
