import VrpProofs.C13.Basic
/-!
# C13 — Solomon: what the reader model returns on a printed file, observed
-/
set_option linter.unusedSimpArgs false
set_option linter.unusedVariables false

namespace C13

/-! ### the observable content a delivery file prescribes -/

def expSingleS (c : CustLine) : DSingle :=
  { id := c.id, xy := some (c.x, c.y), dur := c.service, tws := [⟨c.start, .fin c.stop⟩], dem := ⟨0, 0, c.demand, 0⟩ }

def expJobS (c : CustLine) : DJob := { id := c.id, multi := false, subs := [expSingleS c] }

def expVehicle (cap : Int) (xy : Int × Int) (lo : Int) (hi : Bound) (i : Nat) : DVehicle :=
  { idx := i, cap := cap, s := some xy, e := some xy, sE := some (.fin lo), sL := none, eE := none, eL := some hi }

def expFleet (n : Nat) (cap : Int) (xy : Int × Int) (lo : Int) (hi : Bound) : List DVehicle :=
  (List.range n).map (expVehicle cap xy lo hi)

/-- the whole observable content of a Solomon file -/
def expDumpS (rounded : Bool) (F : SolomonFile) : Dump :=
  let vs := expFleet F.vehicles F.capacity (F.depot.x, F.depot.y) F.depot.ready (.fin F.depot.due)
  let js := F.customers.map expJobS
  { vehicles := vs, jobs := js, dist := distMatrix rounded (pointsOf vs js) }

/-! ### fleet -/

theorem obsVehicle_mkVehicle (cs : List (Int × Int)) (cap : Int) (loc : Nat) (xy : Int × Int) (lo : Int) (hi : Bound)
    (h : cs[loc]? = some xy) (i : Nat) :
    obsVehicle cs (mkVehicle cap loc lo hi i) = expVehicle cap xy lo hi i := by
  simp [obsVehicle, mkVehicle, expVehicle, h]

theorem obs_mkFleet (cs : List (Int × Int)) (n : Nat) (cap : Int) (loc : Nat) (xy : Int × Int) (lo : Int) (hi : Bound)
    (h : cs[loc]? = some xy) :
    (mkFleet n cap loc lo hi).map (obsVehicle cs) = expFleet n cap xy lo hi := by
  simp only [mkFleet, expFleet, List.map_map]
  apply List.map_congr_left
  intro i _
  exact obsVehicle_mkVehicle cs cap loc xy lo hi h i

theorem fleetOk_expFleet (n : Nat) (cap : Int) (xy : Int × Int) (lo : Int) (hi : Bound) :
    fleetOk (expFleet n cap xy lo hi) cap xy lo hi = true := by
  have hidx : (expFleet n cap xy lo hi).map (·.idx) = List.range n := by
    simp only [expFleet, List.map_map]
    conv => rhs; rw [← List.map_id (List.range n)]
    apply List.map_congr_left
    intro i _; rfl
  have hlen : (expFleet n cap xy lo hi).length = n := by simp [expFleet]
  unfold fleetOk
  rw [hidx, hlen]
  simp [expFleet, expVehicle]

theorem decodeFleet_expFleet (n : Nat) (hn : 1 ≤ n) (cap : Int) (xy : Int × Int) (lo : Int) (hi : Bound) :
    decodeFleet (expFleet n cap xy lo hi) = some (n, cap, xy, lo, hi) := by
  have hhead : (expFleet n cap xy lo hi).head? = some (expVehicle cap xy lo hi 0) := by
    obtain ⟨m, rfl⟩ : ∃ m, n = m + 1 := ⟨n - 1, by omega⟩
    simp [expFleet, List.range_succ_eq_map]
  have hlen : (expFleet n cap xy lo hi).length = n := by simp [expFleet]
  unfold decodeFleet
  rw [hhead]
  simp only [expVehicle, fleetOk_expFleet, hlen, if_true]

/-! ### jobs -/

theorem solomonJobs_spec (cs : List CustLine) (ci : List (Int × Int)) :
    (∃ e, (solomonJobs ci cs).2 = ci ++ e) ∧
    ∀ e', (solomonJobs ci cs).1.map (obsJob ((solomonJobs ci cs).2 ++ e')) = cs.map expJobS := by
  induction cs generalizing ci with
  | nil => exact ⟨⟨[], by simp [solomonJobs]⟩, fun e' => by simp [solomonJobs]⟩
  | cons c cs ih =>
    obtain ⟨⟨e1, he1⟩, hobs⟩ := ih (collect ci (c.x, c.y)).2
    obtain ⟨e0, he0⟩ := collect_ext ci (c.x, c.y)
    constructor
    · refine ⟨e0 ++ e1, ?_⟩
      simp only [solomonJobs]
      rw [he1, he0, List.append_assoc]
    · intro e'
      simp only [solomonJobs, List.map_cons]
      rw [hobs e']
      congr 1
      simp only [obsJob, obsSingle, expJobS, expSingleS]
      have hg := collect_get ci (c.x, c.y)
      rw [he1, List.append_assoc]
      rw [get_append_of_get hg (e1 ++ e')]

theorem mapE_custLines (cs : List CustLine) : mapE readCustomer7 (cs.map custLine) = .ok cs :=
  mapE_map_ok readCustomer7 custLine cs (fun c _ => by cases c; rfl)

/-- what the Solomon reader model returns on a printed well-formed file, as a closed term -/
def solomonParsed (rounded : Bool) (F : SolomonFile) : Problem' :=
  let r := collect [] (F.depot.x, F.depot.y)
  let js := solomonJobs r.2 F.customers
  { vehicles := mkFleet F.vehicles F.capacity r.1 F.depot.ready (.fin F.depot.due), jobs := js.1,
    coords := js.2, rounded := rounded }

theorem wfSolomon_basic {F : SolomonFile} (h : wfSolomon F = true) : 1 ≤ F.vehicles ∧ 0 ≤ F.capacity := by
  unfold wfSolomon at h
  simp only [Bool.and_eq_true, decide_eq_true_eq] at h
  exact ⟨h.1.1.1.1.1.1.1, h.1.1.1.1.1.1.2⟩

theorem parseSolomon_print (rounded : Bool) (F : SolomonFile) (h : wfSolomon F = true) :
    parseSolomon rounded (printSolomon F) = .ok (solomonParsed rounded F) := by
  obtain ⟨hv, hc⟩ := wfSolomon_basic h
  have hv' : ¬ ((F.vehicles : Int) < 1 ∨ F.capacity < 0) := by omega
  simp only [parseSolomon, printSolomon, List.cons_append, List.nil_append, List.drop_succ_cons, List.drop_zero,
    hv', if_false, readCustomer7, mapE_custLines, solomonParsed, Int.toNat_natCast]

theorem observe_solomonParsed (rounded : Bool) (F : SolomonFile) :
    observe (solomonParsed rounded F) = expDumpS rounded F := by
  obtain ⟨⟨e, he⟩, hobs⟩ := solomonJobs_spec F.customers (collect [] (F.depot.x, F.depot.y)).2
  have hg := collect_get [] (F.depot.x, F.depot.y)
  have hv : (solomonParsed rounded F).vehicles.map (obsVehicle (solomonParsed rounded F).coords) =
      expFleet F.vehicles F.capacity (F.depot.x, F.depot.y) F.depot.ready (.fin F.depot.due) := by
    simp only [solomonParsed]
    apply obs_mkFleet
    rw [he]; exact get_append_of_get hg e
  have hj : (solomonParsed rounded F).jobs.map (obsJob (solomonParsed rounded F).coords) = F.customers.map expJobS := by
    have := hobs []
    simpa [solomonParsed] using this
  simp only [observe, hv, hj, expDumpS]
  rfl

/-- **Solomon, full observable**: reading a printed well-formed file yields exactly the vehicles, jobs
    (ids, coordinates through the coord index, demand 4-tuples, windows, service times) and distance matrix
    that the file prescribes. -/
theorem solomon_observe (rounded : Bool) (F : SolomonFile) (h : wfSolomon F = true) :
    (parseSolomon rounded (printSolomon F)).map observe = .ok (expDumpS rounded F) := by
  rw [parseSolomon_print rounded F h]
  simp [Except.map, observe_solomonParsed]

/-! ### reading the instance back -/

theorem decodeDelivery_expJobS (c : CustLine) :
    decodeDelivery 0 (expJobS c) = some ⟨c.id, c.x, c.y, c.demand, c.start, .fin c.stop, c.service⟩ := by
  simp [decodeDelivery, expJobS, expSingleS]

theorem decodeSolomon_expDumpS (rounded : Bool) (F : SolomonFile) (h : wfSolomon F = true) :
    decodeSolomon (expDumpS rounded F) = some (meaningSolomon F) := by
  obtain ⟨hv, _⟩ := wfSolomon_basic h
  unfold decodeSolomon decodeDeliveries
  simp only [expDumpS]
  rw [decodeFleet_expFleet _ hv]
  rw [List.map_map]
  rw [allSome_map_some _ (fun c => (⟨c.id, c.x, c.y, c.demand, c.start, .fin c.stop, c.service⟩ : Cust))]
  · rfl
  · intro c _
    exact decodeDelivery_expJobS c

end C13
