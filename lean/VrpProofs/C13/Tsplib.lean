import VrpProofs.C13.Capacity
/-!
# C13 — TSPLIB: what the reader model returns on a printed file, observed
-/
set_option linter.unusedSimpArgs false
set_option linter.unusedVariables false

namespace C13

def expJobT (F : TsplibFile) (n : Int × Int × Int) : DJob :=
  { id := n.1 - 1, multi := false,
    subs := [{ id := n.1 - 1, xy := some (n.2.1, n.2.2), dur := 0, tws := [⟨0, .max⟩],
               dem := ⟨0, 0, (assocFind n.1 F.demands).getD 0, 0⟩ }] }

def depotXYT (F : TsplibFile) : Int × Int := (assocFind F.depot F.nodes).getD (0, 0)

/-- the whole observable content of a TSPLIB file (jobs in the order of the node rows) -/
def expDumpT (rounded : Bool) (F : TsplibFile) : Dump :=
  let vs := expFleet F.nodes.length F.capacity (depotXYT F) 0 .max
  let js := (F.nodes.filter (fun n => n.1 ≠ F.depot)).map (expJobT F)
  { vehicles := vs, jobs := js, dist := distMatrix rounded (pointsOf vs js) }

/-! ### the hash maps -/

theorem amInsert_append {α : Type} (k : Int) (v : α) (m : List (Int × α)) (h : k ∉ m.map (·.1)) :
    amInsert k v m = m ++ [(k, v)] := by
  induction m with
  | nil => rfl
  | cons e m ih =>
    obtain ⟨k', v'⟩ := e
    simp only [List.map_cons, List.mem_cons, not_or] at h
    have hne : ¬ k' = k := fun hh => h.1 hh.symm
    simp only [amInsert, hne, if_false, List.cons_append, ih h.2]

theorem foldl_amInsert_nodup {α : Type} (l m : List (Int × α)) (h : (m.map (·.1) ++ l.map (·.1)).Nodup) :
    l.foldl (fun acc e => amInsert e.1 e.2 acc) m = m ++ l := by
  induction l generalizing m with
  | nil => simp
  | cons e l ih =>
    simp only [List.foldl_cons]
    have hk : e.1 ∉ m.map (·.1) := by
      intro hmem
      rw [List.nodup_append] at h
      exact h.2.2 _ hmem _ (by simp) rfl
    rw [amInsert_append _ _ _ hk]
    have h' : ((m ++ [(e.1, e.2)]).map (·.1) ++ l.map (·.1)).Nodup := by
      simpa [List.map_append, List.append_assoc] using h
    rw [ih _ h']
    simp

theorem amGet_eq_assocFind {α : Type} (k : Int) (m : List (Int × α)) : amGet k m = assocFind k m := by
  induction m with
  | nil => rfl
  | cons e m ih =>
    obtain ⟨k', v⟩ := e
    unfold amGet assocFind
    by_cases h : k' = k
    · simp [h]
    · simp only [h, if_false, List.find?_cons, decide_false]
      exact ih

def nodeLine (n : Int × Int × Int) : Line := .nums [n.1, n.2.1, n.2.2]
def demandLine (d : Int × Int) : Line := .nums [d.1, d.2]

theorem readCoords_nodes (nodes : List (Int × Int × Int)) (rest : List Line) (m : List (Int × (Int × Int))) :
    readCoords nodes.length (nodes.map nodeLine ++ rest) m =
      .ok (nodes.foldl (fun acc e => amInsert e.1 e.2 acc) m, rest) := by
  induction nodes generalizing m with
  | nil => simp [readCoords]
  | cons n nodes ih =>
    simp only [List.length_cons, List.map_cons, List.cons_append, nodeLine, readCoords, List.foldl_cons]
    exact ih _

theorem readDemands_rows (ds : List (Int × Int)) (rest : List Line) (m : List (Int × Int)) :
    readDemands ds.length (ds.map demandLine ++ rest) m =
      .ok (ds.foldl (fun acc e => amInsert e.1 e.2 acc) m, rest) := by
  induction ds generalizing m with
  | nil => simp [readDemands]
  | cons d ds ih =>
    simp only [List.length_cons, List.map_cons, List.cons_append, demandLine, readDemands, List.foldl_cons]
    exact ih _

/-! ### jobs -/

theorem tsplibJobs_spec (F : TsplibFile) (nodes : List (Int × Int × Int))
    (hd : ∀ n ∈ nodes, (assocFind n.1 F.demands).isSome) (ci : List (Int × Int)) :
    ∃ js ci', tsplibJobs F.depot F.demands ci nodes = .ok (js, ci') ∧ (∃ e, ci' = ci ++ e) ∧
      ∀ e', js.map (obsJob (ci' ++ e')) = (nodes.filter (fun n => n.1 ≠ F.depot)).map (expJobT F) := by
  induction nodes generalizing ci with
  | nil => exact ⟨[], ci, rfl, ⟨[], by simp⟩, fun e' => by simp⟩
  | cons n nodes ih =>
    obtain ⟨id, x, y⟩ := n
    have hd' : ∀ n ∈ nodes, (assocFind n.1 F.demands).isSome := fun n hn => hd n (by simp [hn])
    by_cases hdep : id = F.depot
    · obtain ⟨js, ci', h1, h2, h3⟩ := ih hd' ci
      refine ⟨js, ci', ?_, h2, ?_⟩
      · simp only [tsplibJobs, hdep, if_true]; rw [← hdep] at h1 ⊢; simpa [hdep] using h1
      · intro e'; simp [List.filter_cons, hdep, h3 e']
    · have hsome := hd (id, x, y) (by simp)
      simp only at hsome
      obtain ⟨d, hdv⟩ := Option.isSome_iff_exists.mp hsome
      obtain ⟨js, ci', h1, ⟨e1, h2⟩, h3⟩ := ih hd' (collect ci (x, y)).2
      obtain ⟨e0, he0⟩ := collect_ext ci (x, y)
      refine ⟨Job'.single { id := id - 1, loc := (collect ci (x, y)).1, dur := 0, tws := [⟨0, .max⟩], dem := ⟨0, 0, d, 0⟩ } :: js,
        ci', ?_, ⟨e0 ++ e1, by rw [h2, he0, List.append_assoc]⟩, ?_⟩
      · simp only [tsplibJobs, hdep, if_false, amGet_eq_assocFind, hdv, h1]
      · intro e'
        have hg := collect_get ci (x, y)
        have hne : (decide ((id, x, y).1 ≠ F.depot)) = true := by simp [hdep]
        simp only [List.filter_cons, hne, if_true, List.map_cons, h3 e']
        congr 1
        simp only [obsJob, obsSingle, expJobT, hdv, Option.getD_some]
        rw [h2, List.append_assoc, get_append_of_get hg (e1 ++ e')]

/-! ### the parse -/

theorem wfTsplib_facts {F : TsplibFile} (h : wfTsplib F = true) :
    0 ≤ F.capacity ∧ (F.nodes.map (·.1)).Nodup ∧ (F.demands.map (·.1)).Nodup ∧ F.demands.length = F.nodes.length ∧
    (∀ n ∈ F.nodes, (assocFind n.1 F.demands).isSome) ∧ (assocFind F.depot F.nodes).isSome := by
  unfold wfTsplib at h
  simp only [Bool.and_eq_true, decide_eq_true_eq, List.all_eq_true] at h
  obtain ⟨⟨⟨⟨⟨⟨⟨⟨_, h1⟩, _⟩, _⟩, h4⟩, h5⟩, h6⟩, h7⟩, h8⟩ := h
  exact ⟨h1, h4, h5, h6, h7, h8⟩

/-- what the TSPLIB reader model returns on a printed well-formed file -/
theorem parseTsplib_print (rounded : Bool) (F : TsplibFile) (h : wfTsplib F = true) :
    ∃ P, parseTsplib rounded (printTsplib F) = .ok P ∧ P.rounded = rounded ∧
      P.vehicles.map (obsVehicle P.coords) = expFleet F.nodes.length F.capacity (depotXYT F) 0 .max ∧
      P.jobs.map (obsJob P.coords) = (F.nodes.filter (fun n => n.1 ≠ F.depot)).map (expJobT F) := by
  obtain ⟨hc, hn, hdn, hlen, hdem, hdep⟩ := wfTsplib_facts h
  obtain ⟨js, ci', hj, ⟨e, he⟩, hobs⟩ := tsplibJobs_spec F F.nodes hdem []
  obtain ⟨dxy, hdxy⟩ := Option.isSome_iff_exists.mp hdep
  have hcoords : F.nodes.foldl (fun acc e => amInsert e.1 e.2 acc) [] = F.nodes := by
    rw [foldl_amInsert_nodup _ _ (by simpa using hn)]; simp
  have hdems : F.demands.foldl (fun acc e => amInsert e.1 e.2 acc) [] = F.demands := by
    rw [foldl_amInsert_nodup _ _ (by simpa using hdn)]; simp
  have hlines : printTsplib F =
      [.text, .text, .kv "TYPE" (.w "CVRP"), .kv "DIMENSION" (.n F.nodes.length),
       .kv "EDGE_WEIGHT_TYPE" (.w "EUC_2D"), .kv "CAPACITY" (.n F.capacity), .word "NODE_COORD_SECTION"] ++
      (F.nodes.map nodeLine ++ (.word "DEMAND_SECTION" ::
        (F.demands.map demandLine ++ [.word "DEPOT_SECTION", .nums [F.depot], .nums [-1], .word "EOF"]))) := by
    simp only [printTsplib, List.append_assoc, List.cons_append, List.nil_append]
    rfl
  have hrc := readCoords_nodes F.nodes (.word "DEMAND_SECTION" ::
        (F.demands.map demandLine ++ [.word "DEPOT_SECTION", .nums [F.depot], .nums [-1], .word "EOF"])) []
  have hrd := readDemands_rows F.demands [.word "DEPOT_SECTION", .nums [F.depot], .nums [-1], .word "EOF"] []
  rw [hcoords] at hrc
  rw [hdems, hlen] at hrd
  refine ⟨{ vehicles := mkFleet F.nodes.length F.capacity (collect ci' dxy).1 0 .max, jobs := js,
            coords := (collect ci' dxy).2, rounded := rounded }, ?_, rfl, ?_, ?_⟩
  · rw [hlines]
    simp only [parseTsplib, List.cons_append, List.nil_append, List.drop_succ_cons, List.drop_zero, List.head?_cons,
      List.tail_cons, readKV, valInt, expectLine, bind, Except.bind, pure, Except.pure, if_true, ne_eq,
      not_true_eq_false, if_false, Int.toNat_natCast, hrc, hrd, hj, amGet_eq_assocFind, hdxy]
    simp
  · apply obs_mkFleet
    simp only [depotXYT, hdxy, Option.getD_some]
    exact collect_get ci' dxy
  · obtain ⟨e2, he2⟩ := collect_ext ci' dxy
    simp only
    rw [he2]
    exact hobs e2

theorem observe_of_parts (P : Problem') (vs : List DVehicle) (js : List DJob)
    (hv : P.vehicles.map (obsVehicle P.coords) = vs) (hj : P.jobs.map (obsJob P.coords) = js) :
    observe P = { vehicles := vs, jobs := js, dist := distMatrix P.rounded (pointsOf vs js) } := by
  simp only [observe, hv, hj]

/-- **TSPLIB, full observable**: reading a printed well-formed file yields `DIMENSION` vehicles of the file capacity at
    the depot's coordinates, one job `id-1` per non-depot node with its coordinates and its demand row's amount, and the
    Euclidean matrix between them. -/
theorem tsplib_observe (rounded : Bool) (F : TsplibFile) (h : wfTsplib F = true) :
    (parseTsplib rounded (printTsplib F)).map observe = .ok (expDumpT rounded F) := by
  obtain ⟨P, hP, hr, hv, hj⟩ := parseTsplib_print rounded F h
  rw [hP]
  simp only [Except.map]
  rw [observe_of_parts P _ _ hv hj, hr]
  rfl

/-! ### reading the instance back -/

theorem decodeTsplib_expDumpT (rounded : Bool) (F : TsplibFile) (h : wfTsplib F = true) :
    decodeTsplib (expDumpT rounded F) = some (meaningTsplib F) := by
  obtain ⟨hc, hn, hdn, hlen, hdem, hdep⟩ := wfTsplib_facts h
  obtain ⟨dxy, hdxy⟩ := Option.isSome_iff_exists.mp hdep
  have hpos : 1 ≤ F.nodes.length := by
    cases hnodes : F.nodes with
    | nil => simp [hnodes, assocFind] at hdxy
    | cons _ _ => simp
  unfold decodeTsplib decodeDeliveries
  simp only [expDumpT]
  rw [decodeFleet_expFleet _ hpos]
  rw [List.map_map]
  rw [allSome_map_some _ (fun n => (⟨n.1, n.2.1, n.2.2, (assocFind n.1 F.demands).getD 0, 0, .max, 0⟩ : Cust))]
  · rfl
  · intro n _
    simp [decodeDelivery, expJobT]

end C13
