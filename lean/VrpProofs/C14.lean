import VrpProofs.C14.Machine
/-!
# C14 — property theorems: tours and the vehicle registry stay well-formed under any operation sequence

Code-shaped model (`Tour`, `Registry`, `RegistryCtx`, the handle machine `Obj.step`) versus the reference
model (`RTour`: the list of job activities; `RReg`: registered actors + the set in use), for operation
sequences of any length. Helper lemmas live in `VrpProofs/C14/*.lean`.
-/
set_option linter.unusedSimpArgs false
set_option linter.unnecessarySimpa false
set_option linter.unusedVariables false

namespace C14

/-! ## 1. Tours -/

inductive TourOp where
  | insAt (j s i : Nat)
  | insLast (j s : Nat)
  | rem (j : Nat)
  | remAt (i : Nat)

/-- one call on the code-shaped tour, with what the caller sees (`panic` included) -/
def Tour.stepOp (t : Tour) : TourOp → Tour × Out
  | .insAt j s i => ((t.insertAtRaw (Act.job j s) i).1, if (t.insertAtRaw (Act.job j s) i).2 then Out.panic else Out.unit)
  | .insLast j s => ((t.insertLastRaw (Act.job j s)).1, if (t.insertLastRaw (Act.job j s)).2 then Out.panic else Out.unit)
  | .rem j => ((t.remove j).1, Out.bool (t.remove j).2)
  | .remAt i => ((t.removeActivityAt i).1, match (t.removeActivityAt i).2 with | some j => Out.job j | none => Out.panic)

/-- the same call on the reference tour; `none` = outside the contract of `insert_at` -/
def RTour.stepOp (r : RTour) : TourOp → Option (RTour × Out)
  | .insAt j s i => (r.insertAt j s i).map (fun r' => (r', Out.unit))
  | .insLast j s => some (r.insertLast j s, Out.unit)
  | .rem j => some ((r.remove j).1, Out.bool (r.remove j).2)
  | .remAt i => some ((r.removeActivityAt i).1, match (r.removeActivityAt i).2 with | some j => Out.job j | none => Out.panic)

def Tour.run (t : Tour) : List TourOp → Tour × List Out
  | [] => (t, [])
  | op :: ops => ((Tour.run (t.stepOp op).1 ops).1, (t.stepOp op).2 :: (Tour.run (t.stepOp op).1 ops).2)

def RTour.run (r : RTour) : List TourOp → Option (RTour × List Out)
  | [] => some (r, [])
  | op :: ops =>
    match r.stepOp op with
    | none => none
    | some (r1, o) =>
      match RTour.run r1 ops with
      | none => none
      | some (r2, os) => some (r2, o :: os)

/-- the only guard: `insert_at` is called with an index between the depot ends, in terms of the tour's
    own public counter -/
def TourOp.ok (t : Tour) : TourOp → Prop
  | .insAt _ _ i => 1 ≤ i ∧ i ≤ t.jobActivityCount + 1
  | _ => True

def Guarded (t : Tour) : List TourOp → Prop
  | [] => True
  | op :: ops => op.ok t ∧ Guarded (t.stepOp op).1 ops

/-- one guarded call: same result as the reference, and the representation relation is kept -/
theorem tour_step_refines {t r} (h : Sim t r) (op : TourOp) (hok : op.ok t) :
    ∃ r', r.stepOp op = some (r', (t.stepOp op).2) ∧ Sim (t.stepOp op).1 r' := by
  cases op with
  | insAt j s i =>
    have hok' : 1 ≤ i ∧ i ≤ r.mid.length + 1 := by
      have := hok; simp only [TourOp.ok] at this; rw [jac_of_sim h] at this; exact this
    have hr : r.insertAt j s i = some { r with mid := vecInsert r.mid (i - 1) (j, s) } := by
      unfold RTour.insertAt; rw [if_pos hok']
    obtain ⟨h1, h2⟩ := sim_insertAt h hr
    refine ⟨_, ?_, h2⟩
    simp only [RTour.stepOp, Tour.stepOp, hr, h1, Option.map_some, Bool.false_eq_true, if_false]
  | insLast j s =>
    obtain ⟨h1, h2⟩ := sim_insertLast h j s
    refine ⟨_, ?_, h2⟩
    simp only [RTour.stepOp, Tour.stepOp, h1, Bool.false_eq_true, if_false]
  | rem j =>
    obtain ⟨h1, h2⟩ := sim_remove h j
    refine ⟨_, ?_, h2⟩
    simp only [RTour.stepOp, Tour.stepOp, h1]
  | remAt i =>
    obtain ⟨h1, h2⟩ := sim_removeAt h i
    refine ⟨_, ?_, h2⟩
    simp only [RTour.stepOp, Tour.stepOp, h1]

/-- the reference accepts an operation exactly when the guard holds -/
theorem tour_guard_iff_reference {t r} (h : Sim t r) (op : TourOp) : op.ok t ↔ (r.stepOp op).isSome = true := by
  cases op with
  | insAt j s i =>
    simp only [TourOp.ok, RTour.stepOp, RTour.insertAt, jac_of_sim h]
    by_cases hc : 1 ≤ i ∧ i ≤ r.mid.length + 1
    · simp [hc]
    · simp [hc]
  | insLast j s => simp [TourOp.ok, RTour.stepOp]
  | rem j => simp [TourOp.ok, RTour.stepOp]
  | remAt i => simp [TourOp.ok, RTour.stepOp]

/-- **refinement for operation sequences of any length**: every result the caller sees equals the
    reference's, and the final tour represents the reference's final tour -/
theorem tour_run_refines {t r} (h : Sim t r) (ops : List TourOp) (hg : Guarded t ops) :
    ∃ r', r.run ops = some (r', (t.run ops).2) ∧ Sim (t.run ops).1 r' := by
  induction ops generalizing t r with
  | nil => exact ⟨r, rfl, h⟩
  | cons op ops ih =>
    obtain ⟨r1, hr1, hs1⟩ := tour_step_refines h op hg.1
    obtain ⟨r2, hr2, hs2⟩ := ih hs1 hg.2
    refine ⟨r2, ?_, hs2⟩
    simp only [RTour.run, Tour.run, hr1, hr2]

/-- **`Tour.WF` is preserved by every guarded operation sequence** -/
theorem tour_ops_preserve_WF {t : Tour} (h : t.WF) (ops : List TourOp) (hg : Guarded t ops) :
    (t.run ops).1.WF := by
  obtain ⟨r, hr⟩ := h
  obtain ⟨r', _, hs⟩ := tour_run_refines hr ops hg
  exact ⟨r', hs⟩

/-- **after any guarded sequence on a new tour, everything the public API shows is what the reference shows** -/
theorem tour_observation_after_ops (closed : Bool) (ops : List TourOp) (hg : Guarded (Tour.new closed) ops) (n : Nat) :
    ∃ r', (RTour.new closed).run ops = some (r', ((Tour.new closed).run ops).2) ∧
      ((Tour.new closed).run ops).1.observe n = r'.observe n ∧
      wfObs n closed (((Tour.new closed).run ops).1.observe n) = true := by
  obtain ⟨r', hr, hs⟩ := tour_run_refines (sim_new closed) ops hg
  refine ⟨r', hr, observe_of_sim hs n, ?_⟩
  have hc : ((Tour.new closed).run ops).1.closed = closed := by
    have : ∀ (t : Tour) (ops : List TourOp), (t.run ops).1.closed = t.closed := by
      intro t ops
      induction ops generalizing t with
      | nil => rfl
      | cons op ops ih =>
        simp only [Tour.run]
        rw [ih]
        cases op <;> simp only [Tour.stepOp, Tour.insertLastRaw, Tour.insertAtRaw, Tour.remove, Tour.removeActivityAt]
          <;> (repeat' split) <;> rfl
    exact this _ _
  have := wfObs_of_sim hs n
  rw [hc] at this
  exact this

/-- what `Tour.WF` means in terms of the code-shaped tour alone: depot ends in place, the job set is the
    set of jobs of the activities, consistent counters, legs = consecutive pairs + the open-end leg -/
theorem WF_facts {t : Tour} (h : t.WF) :
    t.acts.head? = some Act.start ∧
    (t.acts.getLast? = some Act.finish ↔ t.closed = true) ∧
    (∀ a ∈ t.acts.tail.dropLast, a ≠ Act.start ∧ a ≠ Act.finish) ∧
    t.jobs.Nodup ∧ (∀ j, j ∈ t.jobs ↔ ∃ s, Act.job j s ∈ t.acts) ∧
    t.total = t.jobActivityCount + 1 + (if t.closed then 1 else 0) ∧
    t.jobCount = (dedup (t.acts.filterMap Act.jobId?)).length ∧
    t.legs = specLegs t.closed t.acts := by
  obtain ⟨r, hr⟩ := h
  refine ⟨head_of_sim hr, ?_, ?_, hr.nodup, ?_, ?_, ?_, ?_⟩
  · rw [last_of_sim hr, hr.closed]
    cases hc : r.closed
    · simp only [Bool.false_eq_true, if_false, iff_false]
      cases r.mid.getLast? <;> simp
    · simp
  · intro a ha
    rw [hr.acts, render_eq] at ha
    have hm : a ∈ r.mid.map jobAct := by
      simp only [List.tail_cons] at ha
      cases hc : r.closed
      · rw [hc] at ha
        simp only [ends, Bool.false_eq_true, if_false, List.append_nil] at ha
        exact (List.dropLast_sublist _).subset ha
      · rw [hc] at ha
        simp only [ends, if_true, List.dropLast_concat] at ha
        exact ha
    obtain ⟨p, _, e⟩ := List.mem_map.mp hm
    subst e
    exact ⟨by simp [jobAct], by simp [jobAct]⟩
  · intro j
    rw [hr.mem j, hr.acts, render_eq]
    simp only [List.mem_map, List.mem_cons, List.mem_append]
    constructor
    · rintro ⟨p, hp, e⟩
      exact ⟨p.2, Or.inr (Or.inl ⟨p, hp, by subst e; rfl⟩)⟩
    · rintro ⟨s, hs⟩
      rcases hs with hs | ⟨p, hp, e⟩ | hs
      · cases hs
      · refine ⟨p, hp, ?_⟩
        simp only [jobAct] at e
        cases e; rfl
      · cases hc : r.closed <;> rw [hc] at hs <;> simp [ends] at hs
  · rw [total_of_sim hr, jac_of_sim hr, hr.closed]
  · rw [jobCount_of_sim hr, hr.acts, render_eq]
    unfold RTour.jobSet
    congr 2
    have h1 : ∀ l, List.filterMap Act.jobId? (Act.start :: l) = List.filterMap Act.jobId? l := fun l => rfl
    have h2 : (ends r.closed).filterMap Act.jobId? = [] := by cases r.closed <;> rfl
    rw [h1, List.filterMap_append, h2, List.append_nil, List.filterMap_map]
    have : (Act.jobId? ∘ jobAct) = (some ∘ Prod.fst) := by funext p; rfl
    rw [this, List.filterMap_eq_map]
  · rw [legs_of_sim hr, hr.acts, hr.closed]

/-! ### the guard of `insert_at` is necessary: what the code does outside it -/

/-- index 0 displaces the start -/
theorem insertAt_index0_breaks_WF :
    ((Tour.new true).insertAtRaw (Act.job 0 0) 0).2 = false ∧ ¬ ((Tour.new true).insertAtRaw (Act.job 0 0) 0).1.WF := by
  refine ⟨rfl, ?_⟩
  rintro ⟨r, hr⟩
  have := hr.acts
  rw [render_eq] at this
  cases this

/-- an index behind the end of a closed tour displaces the end -/
theorem insertAt_past_end_breaks_WF :
    ((Tour.new true).insertAtRaw (Act.job 0 0) 2).2 = false ∧ ¬ ((Tour.new true).insertAtRaw (Act.job 0 0) 2).1.WF := by
  refine ⟨rfl, ?_⟩
  rintro ⟨r, hr⟩
  have h1 := last_of_sim hr
  have h2 : r.closed = true := hr.closed.symm
  rw [h2] at h1
  cases h1

/-- an index beyond the vector panics after the job set was already updated: the job is then "in the tour"
    without an activity -/
theorem insertAt_out_of_range_corrupts_jobs :
    ((Tour.new false).insertAtRaw (Act.job 0 0) 2).2 = true ∧ ¬ ((Tour.new false).insertAtRaw (Act.job 0 0) 2).1.WF := by
  refine ⟨rfl, ?_⟩
  rintro ⟨r, hr⟩
  have hm := (hr.mem 0).mp (by decide)
  have ha := hr.acts
  rw [render_eq] at ha
  have hmid : r.mid = [] := by
    cases hmid : r.mid with
    | nil => rfl
    | cons p l => rw [hmid] at ha; cases ha
  rw [hmid] at hm
  simp at hm

/-- non-vacuity: a guarded sequence with a multi job, a duplicate, removals and a documented panic -/
example : Guarded (Tour.new true)
    [.insLast 0 0, .insAt 2 0 1, .insAt 2 1 3, .insLast 0 0, .remAt 0, .remAt 2, .rem 2, .rem 5] := by
  simp only [Guarded, TourOp.ok]
  decide

example : ((Tour.new true).run [.insLast 0 0, .insAt 2 0 1, .insAt 2 1 3, .insLast 0 0, .remAt 0, .remAt 2]).2
    = [.unit, .unit, .unit, .unit, .panic, .job 0] := by decide

/-! ## 2. The registry -/

inductive RegOp where
  | use (a : Nat)
  | free (a : Nat)
  | slice (keep : List Nat)
  | copy
deriving DecidableEq

def Registry.stepOp (r : Registry) : RegOp → Registry × Out
  | .use a => ((r.useActor a).1, Out.bool (r.useActor a).2)
  | .free a => ((r.freeActor a).1, Out.bool (r.freeActor a).2)
  | .slice keep => (r.deepSlice keep.contains, Out.unit)
  | .copy => (r, Out.unit)

def RReg.stepOp (r : RReg) : RegOp → RReg × Out
  | .use a => ((r.use a).1, Out.bool (r.use a).2)
  | .free a => ((r.free a).1, Out.bool (r.free a).2)
  | .slice keep => (r.slice keep.contains, Out.unit)
  | .copy => (r, Out.unit)

def Registry.run (r : Registry) : List RegOp → Registry × List Out
  | [] => (r, [])
  | op :: ops => ((Registry.run (r.stepOp op).1 ops).1, (r.stepOp op).2 :: (Registry.run (r.stepOp op).1 ops).2)

def RReg.run (r : RReg) : List RegOp → RReg × List Out
  | [] => (r, [])
  | op :: ops => ((RReg.run (r.stepOp op).1 ops).1, (r.stepOp op).2 :: (RReg.run (r.stepOp op).1 ops).2)

theorem reg_step_refines {r rr} (h : RSim r rr) (op : RegOp) :
    (r.stepOp op).2 = (rr.stepOp op).2 ∧ RSim (r.stepOp op).1 (rr.stepOp op).1 := by
  cases op with
  | use a => obtain ⟨h1, h2⟩ := rsim_use h a; exact ⟨by simp only [Registry.stepOp, RReg.stepOp, h1], h2⟩
  | free a => obtain ⟨h1, h2⟩ := rsim_free h a; exact ⟨by simp only [Registry.stepOp, RReg.stepOp, h1], h2⟩
  | slice keep => exact ⟨rfl, rsim_slice h _⟩
  | copy => exact ⟨rfl, h⟩

/-- **refinement for acquire/release/slice/copy sequences of any length** -/
theorem reg_run_refines {r rr} (h : RSim r rr) (ops : List RegOp) :
    (r.run ops).2 = (rr.run ops).2 ∧ RSim (r.run ops).1 (rr.run ops).1 := by
  induction ops generalizing r rr with
  | nil => exact ⟨rfl, h⟩
  | cons op ops ih =>
    obtain ⟨h1, h2⟩ := reg_step_refines h op
    obtain ⟨h3, h4⟩ := ih h2
    exact ⟨by simp only [Registry.run, RReg.run, h1, h3], h4⟩

/-- **the container invariant holds in every reachable state** -/
theorem registry_ops_preserve_inv {r : Registry} (h : RInv r) (ops : List RegOp) : RInv (r.run ops).1 := by
  induction ops generalizing r with
  | nil => exact h
  | cons op ops ih =>
    apply ih
    cases op with
    | use a => exact (use_spec h a).1
    | free a => exact (free_spec h a).1
    | slice keep => exact (slice_spec h _).1
    | copy => exact h

/-- **from `Registry::new`, any sequence: same answers and same observation as the reference** -/
theorem registry_refines_from_new (f : Fleet) (ops : List RegOp) (n : Nat) :
    ((Registry.new f).run ops).2 = ((RReg.new f.length).run ops).2 ∧
    ((Registry.new f).run ops).1.observe false = (RObj.reg false ((RReg.new f.length).run ops).1).observe n := by
  obtain ⟨h1, h2⟩ := reg_run_refines (rsim_new f) ops
  exact ⟨h1, observe_of_rsim h2 false n⟩

/-- **a vehicle is offered exactly when it is registered and not in use** (`held` is the reference's
    bookkeeping: put in by a successful `use`, taken out by `free`) -/
theorem available_iff_not_in_use {r rr} (h : RSim r rr) (a : Nat) :
    a ∈ r.availableList ↔ a ∈ rr.actors ∧ a ∉ rr.held := by
  rw [mem_availableList, h.avail a]
  simp [RReg.avail]

/-- `use_actor` succeeds exactly for an offered vehicle, and then stops offering it -/
theorem use_succeeds_iff_available {r : Registry} (h : RInv r) (a : Nat) :
    ((r.useActor a).2 = true ↔ a ∈ r.availableList) ∧ a ∉ (r.useActor a).1.availableList := by
  obtain ⟨_, hres, _, hav⟩ := use_spec h a
  refine ⟨by rw [hres, mem_availableList], ?_⟩
  rw [mem_availableList, hav a]
  simp

theorem isAvail_stays_false {r : Registry} (h : RInv r) (a : Nat) (op : RegOp) (hop : op ≠ RegOp.free a)
    (hv : r.isAvail a = false) : (r.stepOp op).1.isAvail a = false := by
  cases op with
  | use b => simp only [Registry.stepOp]; rw [(use_spec h b).2.2.2 a, hv]; rfl
  | free b =>
    simp only [Registry.stepOp]
    rw [(free_spec h b).2.2.2 a, hv]
    have : a ≠ b := fun e => hop (by rw [e])
    simp [this]
  | slice keep => simp only [Registry.stepOp]; rw [(slice_spec h _).2.2 a, hv]; rfl
  | copy => exact hv

/-- **never handed out twice**: after `use_actor a` (whatever it returned), no sequence of operations
    without a `free_actor a` makes a further `use_actor a` succeed -/
theorem never_handed_out_twice {r : Registry} (h : RInv r) (a : Nat) (ops : List RegOp)
    (hops : ∀ op ∈ ops, op ≠ RegOp.free a) :
    (((r.useActor a).1.run ops).1.useActor a).2 = false := by
  have h0 : (r.useActor a).1.isAvail a = false := by rw [(use_spec h a).2.2.2 a]; simp
  have hi0 : RInv (r.useActor a).1 := (use_spec h a).1
  have key : ∀ (ops : List RegOp) (r : Registry), RInv r → r.isAvail a = false →
      (∀ op ∈ ops, op ≠ RegOp.free a) → (r.run ops).1.isAvail a = false ∧ RInv (r.run ops).1 := by
    intro ops
    induction ops with
    | nil => intro r hr hv _; exact ⟨hv, hr⟩
    | cons op ops ih =>
      intro r hr hv hops
      have hstep := isAvail_stays_false hr a op (hops op (by simp)) hv
      have hinv : RInv (r.stepOp op).1 := registry_ops_preserve_inv hr [op]
      exact ih _ hinv hstep (fun o ho => hops o (List.mem_cons_of_mem _ ho))
  obtain ⟨hv, hinv⟩ := key ops _ hi0 h0 hops
  rw [(use_spec hinv a).2.1, hv]

/-- a registered vehicle can be acquired again right after it was released -/
theorem free_makes_available {r : Registry} (h : RInv r) (a : Nat) (ha : a ∈ r.all) :
    ((r.freeActor a).1.useActor a).2 = true := by
  obtain ⟨hinv, _, _, hav⟩ := free_spec h a
  rw [(use_spec hinv a).2.1, hav a]
  simp [ha]

/-- **`deep_slice` keeps exactly the filtered actors**, registered and offered alike; released actors that
    were filtered out cannot come back -/
theorem slice_keeps_exactly {r : Registry} (h : RInv r) (keep : Nat → Bool) :
    (r.deepSlice keep).all = r.all.filter keep ∧
    (∀ a, a ∈ (r.deepSlice keep).availableList ↔ a ∈ r.availableList ∧ keep a = true) ∧
    (∀ a, keep a = false → ((r.deepSlice keep).freeActor a).2 = false ∧
                           a ∉ ((r.deepSlice keep).freeActor a).1.availableList) := by
  obtain ⟨hinv, hall, hav⟩ := slice_spec h keep
  refine ⟨hall, ?_, ?_⟩
  · intro a; rw [mem_availableList, mem_availableList, hav a]; simp
  · intro a hk
    obtain ⟨_, hres, _, hav'⟩ := free_spec hinv a
    have hna : a ∉ (r.deepSlice keep).all := by rw [hall, List.mem_filter]; simp [hk]
    refine ⟨by rw [hres]; simp [hna], ?_⟩
    rw [mem_availableList, hav' a, hav a, hk]
    simp [hna]

/-- non-vacuity: two groups, a vehicle taken twice, a slice, a foreign actor -/
example : ((Registry.new [1, 1, 4]).run [.use 0, .use 0, .free 0, .use 0, .slice [0, 2], .free 1, .use 7]).2
    = [.bool true, .bool false, .bool true, .bool true, .unit, .bool false, .bool false] := by decide

/-- non-vacuity of `never_handed_out_twice` / `slice_keeps_exactly`: a registry from `Registry::new` meets the
    invariant, and a sequence with other vehicles' releases, a slice and a copy meets the side condition -/
example : ((((Registry.new [1, 1, 4]).useActor 0).1.run
    [.use 1, .free 1, .use 0, .slice [0, 1], .copy, .free 2]).1.useActor 0).2 = false :=
  never_handed_out_twice (new_spec _).1 0 _ (by decide)

example : ((Registry.new [1, 1, 4]).deepSlice [0, 2].contains).all = [0, 2] := by decide

/-! ## 3. The registry context -/

inductive CtxOp where
  | get (a : Nat)
  | useRoute (c : RouteCtx)
  | freeRoute (c : RouteCtx)
  | slice (keep : List Nat)
  | copy

def RegistryCtx.stepOp (x : RegistryCtx) : CtxOp → RegistryCtx
  | .get a => (x.getRoute a).1
  | .useRoute c => (x.useRoute c).1
  | .freeRoute c => (x.freeRoute c).1
  | .slice keep => x.deepSlice keep.contains
  | .copy => x

def CtxOp.toRegOp : CtxOp → RegOp
  | .get a => .use a
  | .useRoute c => .use c.actor
  | .freeRoute c => .free c.actor
  | .slice keep => .slice keep
  | .copy => .copy

def RegistryCtx.run (x : RegistryCtx) : List CtxOp → RegistryCtx
  | [] => x
  | op :: ops => RegistryCtx.run (x.stepOp op) ops

theorem ctx_step {closedOf : Nat → Bool} {x : RegistryCtx} (h : CInv closedOf x) (op : CtxOp) :
    CInv closedOf (x.stepOp op) ∧ (x.stepOp op).registry = (x.registry.stepOp op.toRegOp).1 := by
  cases op with
  | get a => exact ⟨(getRoute_spec h a).1, rfl⟩
  | useRoute c => exact ⟨useRoute_spec h c, rfl⟩
  | freeRoute c => exact ⟨freeRoute_spec h c, rfl⟩
  | slice keep => exact ⟨ctxSlice_spec h _, rfl⟩
  | copy => exact ⟨h, rfl⟩

/-- the registry inside a context goes through exactly the registry operations, and the prototype index
    stays aligned with it, along any sequence -/
theorem ctx_run {closedOf : Nat → Bool} {x : RegistryCtx} (h : CInv closedOf x) (ops : List CtxOp) :
    CInv closedOf (x.run ops) ∧ (x.run ops).registry = (x.registry.run (ops.map CtxOp.toRegOp)).1 := by
  induction ops generalizing x with
  | nil => exact ⟨h, rfl⟩
  | cons op ops ih =>
    obtain ⟨h1, h2⟩ := ctx_step h op
    obtain ⟨h3, h4⟩ := ih h1
    refine ⟨h3, ?_⟩
    simp only [RegistryCtx.run, List.map_cons, Registry.run]
    rw [h4, h2]

/-- **`get_route` hands out the empty route of an available actor, and never hands one out twice**:
    after `get_route a`, no sequence without a `free_route` of a route of `a` lets `get_route a` return a route -/
theorem ctx_never_hands_out_twice {closedOf : Nat → Bool} {x : RegistryCtx} (h : CInv closedOf x) (a : Nat)
    (ops : List CtxOp) (hops : ∀ op ∈ ops, ∀ c, op = CtxOp.freeRoute c → c.actor ≠ a) :
    ((x.getRoute a).2 = if x.registry.isAvail a then some (RouteCtx.proto a (closedOf a)) else none) ∧
    ((((x.getRoute a).1).run ops).getRoute a).2 = none := by
  obtain ⟨hc, hreg, hres⟩ := getRoute_spec h a
  refine ⟨hres, ?_⟩
  obtain ⟨hc', hreg'⟩ := ctx_run hc ops
  rw [(getRoute_spec hc' a).2.2, hreg', hreg]
  have hops' : ∀ op ∈ ops.map CtxOp.toRegOp, op ≠ RegOp.free a := by
    intro op hop
    obtain ⟨o, ho, e⟩ := List.mem_map.mp hop
    subst e
    cases o with
    | freeRoute c =>
      intro e
      simp only [CtxOp.toRegOp] at e
      have hca : c.actor = a := by injection e
      exact hops _ ho c rfl hca
    | get b => simp [CtxOp.toRegOp]
    | useRoute c => simp [CtxOp.toRegOp]
    | slice keep => simp [CtxOp.toRegOp]
    | copy => simp [CtxOp.toRegOp]
  have hfin := never_handed_out_twice h.reg a (ops.map CtxOp.toRegOp) hops'
  have hinv : RInv ((x.registry.useActor a).1.run (ops.map CtxOp.toRegOp)).1 :=
    registry_ops_preserve_inv (use_spec h.reg a).1 _
  rw [(use_spec hinv a).2.1] at hfin
  rw [hfin]
  rfl

/-- the route handed out is what the reference calls a fresh route: empty, accepted, of that actor -/
theorem handed_out_route_is_fresh (a : Nat) (c : Bool) (n : Nat) :
    (RouteCtx.proto a c).observe n = (RRoute.fresh a c).observe n :=
  handed_out_route_is_fresh' a c n

/-- from `RegistryContext::new(Registry::new(fleet))` the invariants hold -/
theorem ctx_new (closedOf : Nat → Bool) (f : Fleet) :
    CInv closedOf (RegistryCtx.new closedOf (Registry.new f)) :=
  cinv_new closedOf (new_spec f).1

/-- non-vacuity: a context over a fresh registry, another route taken and returned in between -/
example (closedOf : Nat → Bool) :
    ((((RegistryCtx.new closedOf (Registry.new [1, 1, 4])).getRoute 0).1.run
      [.get 1, .freeRoute (RouteCtx.proto 1 (closedOf 1)), .slice [0, 1], .copy]).getRoute 0).2 = none :=
  (ctx_never_hands_out_twice (ctx_new closedOf [1, 1, 4]) 0 _ (by
    intro op hop c hc
    simp only [List.mem_cons, List.mem_nil_iff, or_false] at hop
    rcases hop with rfl | rfl | rfl | rfl
    · cases hc
    · cases hc; simp [RouteCtx.proto, RouteCtx.accept, RouteCtx.new]
    · cases hc
    · cases hc)).2

/-! ## 4. Deep copies and handles: an operation only changes the handles it names -/

theorem write_get_other {β} (ws : List (Nat × Option β)) (st : Store β) (h : Nat)
    (hn : ∀ w ∈ ws, w.1 ≠ h) : (st.write ws).get h = st.get h := by
  unfold Store.write
  induction ws generalizing st with
  | nil => rfl
  | cons w ws ih =>
    rw [List.foldl_cons, ih _ (fun x hx => hn x (List.mem_cons_of_mem _ hx))]
    have hw : w.1 ≠ h := hn w (by simp)
    have hf : ∀ (l : Store β), Store.get (l.filter (fun p => p.1 != w.1)) h = Store.get l h := by
      intro l
      unfold Store.get
      have hfk := lookup_filter_key l (fun k => k != w.1) h
      have hb : (h != w.1) = true := by simpa using (fun e : h = w.1 => hw e.symm)
      simp only [hb, if_true] at hfk
      exact hfk
    cases hv : w.2 with
    | none => simp only; exact hf st
    | some v =>
      simp only
      unfold Store.get
      rw [List.lookup_cons]
      have : (h == w.1) = false := by simpa using (fun e : h = w.1 => hw e.symm)
      rw [this]
      exact hf st

theorem eff_writes_targets (w : World) (st : Store Obj) (op : Op) (ws : List (Nat × Option Obj)) (out : Out)
    (h : Obj.eff w st op = .ok (ws, out)) : ∀ x ∈ ws, x.1 ∈ op.targets := by
  cases op <;> simp only [Obj.eff] at h <;> (repeat' split at h) <;> (try cases h) <;> simp [Op.targets]

/-- **an operation on one handle never changes what another handle holds** (deep copies are handles of
    their own: they are equal to the original when made and independent afterwards) -/
theorem step_independent (w : World) (st st' : Store Obj) (op : Op) (out : Out)
    (h : Obj.step w st op = .ok (st', out)) (k : Nat) (hk : k ∉ op.targets) : st'.get k = st.get k := by
  unfold Obj.step at h
  cases heff : Obj.eff w st op with
  | error e => rw [heff] at h; cases h
  | ok p =>
    obtain ⟨ws, o⟩ := p
    rw [heff] at h
    simp only at h
    cases h
    apply write_get_other
    intro x hx e
    exact hk (e ▸ eff_writes_targets w st op _ _ heff x hx)

theorem write_get_single {β} (st : Store β) (k : Nat) (v : β) : (st.write [(k, some v)]).get k = some v := by
  simp [Store.write, Store.get, List.lookup_cons]

/-- a deep copy is born equal to its original -/
theorem copy_equal (w : World) (st st' : Store Obj) (dst k : Nat) (out : Out)
    (h : Obj.step w st (.copy dst k) = .ok (st', out)) : st'.get dst = st.get k := by
  unfold Obj.step at h
  simp only [Obj.eff] at h
  cases hk : st.get k with
  | none => rw [hk] at h; cases h
  | some o =>
    rw [hk] at h
    cases h
    exact write_get_single st dst o

/-! ## 5. The whole machine: tours, routes, route contexts, registries, registry contexts and their copies -/

def Obj.run (w : World) (st : Store Obj) : List Op → Except String (Store Obj × List Out)
  | [] => .ok (st, [])
  | op :: ops =>
    match Obj.step w st op with
    | .error e => .error e
    | .ok (st1, o) =>
      match Obj.run w st1 ops with
      | .error e => .error e
      | .ok (st2, os) => .ok (st2, o :: os)

def RObj.run (w : World) (rst : Store RObj) : List Op → Option (Store RObj × List Out)
  | [] => some (rst, [])
  | op :: ops =>
    match RObj.step w rst op with
    | none => none
    | some (r1, o) =>
      match RObj.run w r1 ops with
      | none => none
      | some (r2, os) => some (r2, o :: os)

theorem machine_step_refines {w : World} {st : Store Obj} {rst : Store RObj} (hs : StoreSim w st rst) (op : Op)
    {rst' : Store RObj} {rout : Out} (hr : RObj.step w rst op = some (rst', rout))
    (hadm : rout ≠ Out.inadmissible) :
    ∃ st', Obj.step w st op = .ok (st', rout) ∧ StoreSim w st' rst' := by
  unfold RObj.step at hr
  cases he : RObj.eff w rst op with
  | none => rw [he] at hr; cases hr
  | some p =>
    obtain ⟨rws, ro⟩ := p
    rw [he] at hr
    simp only [Option.map_some] at hr
    cases hr
    obtain ⟨ws, hws, hsim⟩ := eff_refines hs op he hadm
    exact ⟨st.write ws, by simp only [Obj.step, hws], write_sim ws rws st rst hs hsim⟩

/-- **model(impl) = reference model, for operation sequences of any length over any number of handles**:
    whenever the reference accepts the sequence (every `insert_at` index between the depot ends, every
    `next` answer admissible), the code-shaped machine returns the same results, and every live handle —
    originals and deep copies alike — holds an object that represents the reference's -/
theorem machine_run_refines {w : World} (ops : List Op) {st : Store Obj} {rst : Store RObj}
    (hs : StoreSim w st rst) {rst' : Store RObj} {outs : List Out}
    (hr : RObj.run w rst ops = some (rst', outs)) (hadm : Out.inadmissible ∉ outs) :
    ∃ st', Obj.run w st ops = .ok (st', outs) ∧ StoreSim w st' rst' := by
  induction ops generalizing st rst outs with
  | nil =>
    simp only [RObj.run] at hr; cases hr
    exact ⟨st, rfl, hs⟩
  | cons op ops ih =>
    simp only [RObj.run] at hr
    cases h1 : RObj.step w rst op with
    | none => rw [h1] at hr; cases hr
    | some p =>
      obtain ⟨r1, o⟩ := p
      rw [h1] at hr
      simp only at hr
      cases h2 : RObj.run w r1 ops with
      | none => rw [h2] at hr; cases hr
      | some q =>
        obtain ⟨r2, os⟩ := q
        rw [h2] at hr
        simp only at hr
        cases hr
        have ho : o ≠ Out.inadmissible := fun e => hadm (by rw [e]; simp)
        have hos : Out.inadmissible ∉ os := fun e => hadm (List.mem_cons_of_mem _ e)
        obtain ⟨st1, hst1, hs1⟩ := machine_step_refines hs op h1 ho
        obtain ⟨st2, hst2, hs2⟩ := ih hs1 h2 hos
        exact ⟨st2, by simp only [Obj.run, hst1, hst2], hs2⟩

/-- related stores show the same thing through every handle -/
theorem machine_observations_agree {w : World} {st : Store Obj} {rst : Store RObj} (hs : StoreSim w st rst)
    (n h : Nat) : (st.get h).map (Obj.observe n) = (rst.get h).map (RObj.observe n) := by
  have := hs h
  cases h1 : st.get h with
  | none =>
    cases h2 : rst.get h with
    | none => rfl
    | some ro => rw [h1, h2] at this; cases this
  | some o =>
    cases h2 : rst.get h with
    | none => rw [h1, h2] at this; cases this
    | some ro =>
      rw [h1, h2] at this
      simp only [Option.map_some]
      rw [observe_of_objsim this n]

/-- **from the empty machine**: results and all observations of the code-shaped machine equal the
    reference's, after any accepted sequence -/
theorem machine_refines_from_empty (w : World) (ops : List Op) {rst' : Store RObj} {outs : List Out}
    (hr : RObj.run w [] ops = some (rst', outs)) (hadm : Out.inadmissible ∉ outs) :
    ∃ st', Obj.run w [] ops = .ok (st', outs) ∧
      ∀ h, (st'.get h).map (Obj.observe w.nJobs) = (rst'.get h).map (RObj.observe w.nJobs) := by
  have h0 : StoreSim w ([] : Store Obj) ([] : Store RObj) := fun h => by
    show OptSim w none none
    trivial
  obtain ⟨st', h1, h2⟩ := machine_run_refines ops h0 hr hadm
  exact ⟨st', h1, fun h => machine_observations_agree h2 w.nJobs h⟩

/-- non-vacuity: the reference accepts a sequence with copies, a registry context, a route taken, filled,
    returned and taken again -/
example : (RObj.run { nJobs := 3, closed := [true, false], group := [4, 4] } []
    [.newRctx 0, .getRoute 0 1 1, .insLast 1 2 0, .copy 2 1, .insAt 1 0 0 1, .rem 2 2, .getRoute 0 1 3,
     .freeRoute 0 1, .getRoute 0 1 3, .newReg 5, .use 5 0, .next 5 [1], .slice 4 0 [1]]).map Prod.snd
    = some [.unit, .bool true, .unit, .unit, .unit, .bool true, .bool false, .bool true, .bool true,
            .unit, .bool true, .actors [1], .unit] := by decide

end C14
