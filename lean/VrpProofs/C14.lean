import VrpModel.C14
namespace C14
theorem stub_new_total (c : Bool) : (Tour.new c).total = if c then 2 else 1 := by
  cases c <;> rfl
end C14
