import VrpProofs.C14.Lists
/-!
# C14 — association lists (the model of the hash maps of the registry)
-/
set_option linter.unusedSimpArgs false
set_option linter.unnecessarySimpa false
set_option linter.unusedVariables false

namespace C14

theorem lookup_mem {β} {l : List (Nat × β)} {k : Nat} {v : β} (h : l.lookup k = some v) : (k, v) ∈ l := by
  induction l with
  | nil => simp at h
  | cons p l ih =>
    obtain ⟨k', v'⟩ := p
    rw [List.lookup_cons] at h
    by_cases e : k = k'
    · subst e; simp at h; subst h; simp
    · have : (k == k') = false := by simpa using e
      rw [this] at h
      exact List.mem_cons_of_mem _ (ih h)

theorem mem_lookup_of_nodup {β} {l : List (Nat × β)} {k : Nat} {v : β}
    (hn : (l.map Prod.fst).Nodup) (h : (k, v) ∈ l) : l.lookup k = some v := by
  induction l with
  | nil => simp at h
  | cons p l ih =>
    obtain ⟨k', v'⟩ := p
    rw [List.lookup_cons]
    simp only [List.map_cons, List.nodup_cons] at hn
    rcases List.mem_cons.mp h with h1 | h2
    · cases h1; simp
    · have : k ≠ k' := by
        intro e
        exact hn.1 (List.mem_map.mpr ⟨(k, v), h2, e⟩)
      have : (k == k') = false := by simpa using this
      rw [this]
      exact ih hn.2 h2

theorem lookup_isSome_of_mem {β} {l : List (Nat × β)} {k : Nat} {v : β} (h : (k, v) ∈ l) :
    (l.lookup k).isSome = true := by
  induction l with
  | nil => simp at h
  | cons p l ih =>
    obtain ⟨k', v'⟩ := p
    rw [List.lookup_cons]
    by_cases e : k = k'
    · subst e; simp
    · have : (k == k') = false := by simpa using e
      rw [this]
      rcases List.mem_cons.mp h with h | h
      · cases h; exact absurd rfl e
      · exact ih h

theorem map_fst_assocUpdate {β} (l : List (Nat × β)) (k : Nat) (v : β) :
    (assocUpdate l k v).map Prod.fst = l.map Prod.fst := by
  unfold assocUpdate
  rw [List.map_map]
  apply List.map_congr_left
  intro p _
  simp only [Function.comp]
  split <;> rfl

theorem mem_assocUpdate {β} {l : List (Nat × β)} {k : Nat} {v : β} {g : Nat} {s : β} :
    (g, s) ∈ assocUpdate l k v ↔ (g ≠ k ∧ (g, s) ∈ l) ∨ (g = k ∧ s = v ∧ ∃ s0, (k, s0) ∈ l) := by
  unfold assocUpdate
  rw [List.mem_map]
  constructor
  · rintro ⟨⟨g', s'⟩, hp, e⟩
    by_cases hk : g' = k
    · subst hk
      simp only [beq_self_eq_true, if_true] at e
      cases e
      exact Or.inr ⟨rfl, rfl, s', hp⟩
    · have : (g' == k) = false := by simpa using hk
      simp only [this, Bool.false_eq_true, if_false] at e
      cases e
      exact Or.inl ⟨hk, hp⟩
  · rintro (⟨hk, hp⟩ | ⟨hk, hs, s0, hp⟩)
    · refine ⟨(g, s), hp, ?_⟩
      have : (g == k) = false := by simpa using hk
      simp [this]
    · subst hk; subst hs
      exact ⟨(g, s0), hp, by simp⟩

theorem lookup_assocUpdate {β} (l : List (Nat × β)) (k : Nat) (v : β) (g : Nat) :
    (assocUpdate l k v).lookup g = if g = k then (l.lookup k).map (fun _ => v) else l.lookup g := by
  induction l with
  | nil => simp [assocUpdate]
  | cons p l ih =>
    obtain ⟨k', v'⟩ := p
    have hcons : assocUpdate ((k', v') :: l) k v
        = (if (k' == k) = true then (k', v) else (k', v')) :: assocUpdate l k v := by
      simp [assocUpdate]
    rw [hcons]
    by_cases hk : k' = k
    · subst hk
      simp only [beq_self_eq_true, if_true, List.lookup_cons]
      by_cases hg : g = k'
      · subst hg; simp
      · have hb : (g == k') = false := by simpa using hg
        have hb' : (k' == k') = true := by simp
        simp only [hb, hg, if_false, hb'] at ih ⊢
        exact ih
    · have hb : (k' == k) = false := by simpa using hk
      simp only [hb, Bool.false_eq_true, if_false, List.lookup_cons]
      by_cases hg : g = k'
      · subst hg
        have : (k == g) = false := by simpa using (fun e : k = g => hk e.symm)
        simp [hk, this]
      · have hb2 : (g == k') = false := by simpa using hg
        simp only [hb2]
        rw [ih]
        by_cases hgk : g = k
        · subst hgk
          have : (g == k') = false := hb2
          simp [this]
        · simp [hgk]

theorem lookup_filter_key {β} (l : List (Nat × β)) (keep : Nat → Bool) (a : Nat) :
    (l.filter (fun p => keep p.1)).lookup a = if keep a then l.lookup a else none := by
  induction l with
  | nil => simp
  | cons p l ih =>
    obtain ⟨k, v⟩ := p
    by_cases hk : keep k = true
    · rw [List.filter_cons_of_pos (by simpa using hk), List.lookup_cons, List.lookup_cons, ih]
      by_cases e : a = k
      · subst e; simp [hk]
      · have : (a == k) = false := by simpa using e
        simp [this]
    · have hk' : keep k = false := by simpa using hk
      rw [List.filter_cons_of_neg (by simpa using hk'), ih, List.lookup_cons]
      by_cases e : a = k
      · subst e; simp [hk']
      · have : (a == k) = false := by simpa using e
        simp [this]

theorem lookup_map_snd {β γ} (l : List (Nat × β)) (f : β → γ) (g : Nat) :
    (l.map (fun p => (p.1, f p.2))).lookup g = (l.lookup g).map f := by
  induction l with
  | nil => simp
  | cons p l ih =>
    obtain ⟨k, v⟩ := p
    simp only [List.map_cons, List.lookup_cons]
    cases (g == k) <;> simp [ih]

theorem lookup_map_key {β} (l : List Nat) (f : Nat → β) (a : Nat) :
    (l.map (fun x => (x, f x))).lookup a = if a ∈ l then some (f a) else none := by
  induction l with
  | nil => simp
  | cons k l ih =>
    simp only [List.map_cons, List.lookup_cons, List.mem_cons]
    by_cases e : a = k
    · subst e; simp
    · have : (a == k) = false := by simpa using e
      simp [this, ih, e]

end C14
