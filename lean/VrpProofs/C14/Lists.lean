import VrpModel.C14
/-!
# C14 — list lemmas used by the tour / registry proofs (no property content here)
-/
set_option linter.unusedSimpArgs false
set_option linter.unnecessarySimpa false

namespace C14

/-! ### `vecInsert` -/

theorem vecInsert_zero (l : List α) (a : α) : vecInsert l 0 a = a :: l := by
  simp [vecInsert]

theorem vecInsert_cons_succ (x : α) (l : List α) (i : Nat) (a : α) :
    vecInsert (x :: l) (i + 1) a = x :: vecInsert l i a := by
  simp [vecInsert]

theorem vecInsert_append_left (l e : List α) (i : Nat) (a : α) (h : i ≤ l.length) :
    vecInsert (l ++ e) i a = vecInsert l i a ++ e := by
  induction l generalizing i with
  | nil =>
    have : i = 0 := by simpa using h
    subst this; simp [vecInsert]
  | cons x l ih =>
    cases i with
    | zero => simp [vecInsert]
    | succ i =>
      have h' : i ≤ l.length := by simpa using h
      simp [vecInsert_cons_succ, ih i h']

theorem vecInsert_length_eq (l : List α) (a : α) : vecInsert l l.length a = l ++ [a] := by
  simp [vecInsert]

theorem map_vecInsert (f : α → β) (l : List α) (i : Nat) (a : α) :
    (vecInsert l i a).map f = vecInsert (l.map f) i (f a) := by
  simp [vecInsert, List.map_take, List.map_drop]

theorem mem_vecInsert {l : List α} {i : Nat} {a x : α} :
    x ∈ vecInsert l i a ↔ x = a ∨ x ∈ l := by
  unfold vecInsert
  constructor
  · intro h
    rcases List.mem_append.mp h with h | h
    · exact Or.inr (List.mem_of_mem_take h)
    · rcases List.mem_cons.mp h with h | h
      · exact Or.inl h
      · exact Or.inr (List.mem_of_mem_drop h)
  · intro h
    rcases h with h | h
    · subst h; simp
    · have : x ∈ l.take i ++ l.drop i := by rw [List.take_append_drop]; exact h
      rcases List.mem_append.mp this with h | h
      · exact List.mem_append.mpr (Or.inl h)
      · exact List.mem_append.mpr (Or.inr (List.mem_cons_of_mem _ h))

theorem length_vecInsert (l : List α) (i : Nat) (a : α) : (vecInsert l i a).length = l.length + 1 := by
  simp [vecInsert]; omega

/-! ### hash-set operations -/

theorem mem_setInsert {j x : Nat} {s : List Nat} : x ∈ setInsert j s ↔ x = j ∨ x ∈ s := by
  unfold setInsert
  split
  · rename_i h
    have : j ∈ s := by simpa using h
    constructor
    · exact Or.inr
    · rintro (h | h)
      · subst h; exact this
      · exact h
  · simp

theorem nodup_setInsert {j : Nat} {s : List Nat} (h : s.Nodup) : (setInsert j s).Nodup := by
  unfold setInsert
  split
  · exact h
  · rename_i hc
    have : j ∉ s := by simpa using hc
    exact List.nodup_cons.mpr ⟨this, h⟩

theorem mem_setRemove {j x : Nat} {s : List Nat} : x ∈ setRemove j s ↔ x ∈ s ∧ x ≠ j := by
  simp [setRemove, List.mem_filter]

theorem nodup_setRemove {j : Nat} {s : List Nat} (h : s.Nodup) : (setRemove j s).Nodup :=
  List.Nodup.sublist List.filter_sublist h

/-! ### `dedup` -/

theorem mem_dedup {x : Nat} {l : List Nat} : x ∈ dedup l ↔ x ∈ l := by
  induction l with
  | nil => simp [dedup]
  | cons a l ih =>
    simp only [dedup, List.mem_cons, List.mem_filter, ih]
    constructor
    · rintro (h | ⟨h, _⟩)
      · exact Or.inl h
      · exact Or.inr h
    · rintro (h | h)
      · exact Or.inl h
      · by_cases e : x = a
        · exact Or.inl e
        · exact Or.inr ⟨h, by simpa using e⟩

theorem nodup_dedup (l : List Nat) : (dedup l).Nodup := by
  induction l with
  | nil => simp [dedup]
  | cons a l ih =>
    simp only [dedup]
    refine List.nodup_cons.mpr ⟨?_, List.Nodup.sublist List.filter_sublist ih⟩
    simp [List.mem_filter]

/-! ### sorting a set gives a canonical list -/

theorem sortNat_eq_of_perm {l₁ l₂ : List Nat} (h : l₁.Perm l₂) : sortNat l₁ = sortNat l₂ := by
  unfold sortNat
  apply List.Perm.eq_of_pairwise (le := fun a b => decide (a ≤ b) = true)
  · intro a b _ _ h1 h2
    have h1 : a ≤ b := by simpa using h1
    have h2 : b ≤ a := by simpa using h2
    omega
  · exact List.pairwise_mergeSort (fun a b c h1 h2 => by
      have h1 : a ≤ b := by simpa using h1
      have h2 : b ≤ c := by simpa using h2
      simpa using Nat.le_trans h1 h2) (fun a b => by
      rcases Nat.le_total a b with h | h <;> simp [h]) l₁
  · exact List.pairwise_mergeSort (fun a b c h1 h2 => by
      have h1 : a ≤ b := by simpa using h1
      have h2 : b ≤ c := by simpa using h2
      simpa using Nat.le_trans h1 h2) (fun a b => by
      rcases Nat.le_total a b with h | h <;> simp [h]) l₂
  · exact ((List.mergeSort_perm l₁ _).trans h).trans (List.mergeSort_perm l₂ _).symm

theorem perm_of_nodup_of_mem_iff {l₁ l₂ : List Nat} (h1 : l₁.Nodup) (h2 : l₂.Nodup)
    (h : ∀ a, a ∈ l₁ ↔ a ∈ l₂) : l₁.Perm l₂ :=
  (List.perm_ext_iff_of_nodup h1 h2).mpr h

end C14
