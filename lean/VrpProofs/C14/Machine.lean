import VrpProofs.C14.RegistryRef
/-!
# C14 — the handle machine of the code-shaped model refines the reference machine
-/
set_option linter.unusedSimpArgs false
set_option linter.unnecessarySimpa false
set_option linter.unusedVariables false

namespace C14

/-! ### group keys of the registry are the fleet's -/

/-- the index map sends an actor to its group key in the fleet -/
def FInv (f : Fleet) (r : Registry) : Prop := ∀ a g, r.index.lookup a = some g → f[a]? = some g

theorem finv_new (f : Fleet) : FInv f (Registry.new f) := by
  intro a g hi
  obtain ⟨hinv, _, _, hmem⟩ := new_spec f
  obtain ⟨s, hs⟩ := hinv.grp a g hi
  -- `a` is registered: it sits in the set of its group in the *initial* registry
  have hreg : a ∈ (Registry.new f).all := (hinv.reg a).mp (by rw [hi]; rfl)
  have hav : (Registry.new f).isAvail a = true := by
    rw [(new_spec f).2.2.1 a]
    have : a ∈ List.range f.length := hreg
    simpa using List.mem_range.mp this
  obtain ⟨g', s', hp, ha⟩ := isAvail_iff.mp hav
  have := hinv.av g' s' a hp ha
  rw [hi] at this; cases this
  exact (hmem g s' a hp).mp ha

theorem finv_use {f r} (h : FInv f r) (a : Nat) : FInv f (r.useActor a).1 := by
  intro b g hi
  apply h b g
  have : (r.useActor a).1.index = r.index := by
    unfold Registry.useActor
    split
    · rfl
    · split <;> rfl
  rw [this] at hi; exact hi

theorem finv_free {f r} (h : FInv f r) (a : Nat) : FInv f (r.freeActor a).1 := by
  intro b g hi
  apply h b g
  have : (r.freeActor a).1.index = r.index := by
    unfold Registry.freeActor
    split
    · rfl
    · split <;> rfl
  rw [this] at hi; exact hi

theorem finv_slice {f r} (h : FInv f r) (keep : Nat → Bool) : FInv f (r.deepSlice keep) := by
  intro b g hi
  have : (r.deepSlice keep).index.lookup b = if keep b then r.index.lookup b else none :=
    lookup_filter_key r.index keep b
  rw [this] at hi
  split at hi
  · exact h b g hi
  · cases hi

/-- an available actor sits in the set of a group exactly when the fleet gives it that group key -/
theorem mem_group_iff {f r} (hf : FInv f r) (h : RInv r) {g : Nat} {s : List Nat} (hp : (g, s) ∈ r.available)
    {b : Nat} (hb : r.isAvail b = true) : b ∈ s ↔ f[b]? = some g := by
  constructor
  · intro hbs; exact hf b g (h.av g s b hp hbs)
  · intro hfb
    obtain ⟨g', s', hp', hb'⟩ := isAvail_iff.mp hb
    have := hf b g' (h.av g' s' b hp' hb')
    rw [hfb] at this; cases this
    have h1 := mem_lookup_of_nodup h.keys hp
    have h2 := mem_lookup_of_nodup h.keys hp'
    rw [h1] at h2; cases h2
    exact hb'

/-- **a choice the reference admits for `next` is admitted by the code-shaped registry** -/
theorem nextOk_of_ref {f r rr} (hs : RSim r rr) (hf : FInv f r) (picks : List Nat)
    (h : rr.nextOk f picks = true) : r.nextOk picks = true := by
  unfold RReg.nextOk at h
  rw [Bool.and_eq_true, List.all_eq_true, List.all_eq_true] at h
  obtain ⟨h1, h2⟩ := h
  have hpicks : ∀ b ∈ picks, r.isAvail b = true := fun b hb => by rw [hs.avail b]; exact h1 b hb
  unfold Registry.nextOk
  rw [Bool.and_eq_true, List.all_eq_true, List.all_eq_true]
  refine ⟨?_, hpicks⟩
  rintro ⟨g, s⟩ hp
  cases hse : s with
  | nil => simp
  | cons a l =>
    have has : a ∈ s := by rw [hse]; simp
    have hav : r.isAvail a = true := isAvail_iff.mpr ⟨g, s, hp, has⟩
    have hal : a ∈ rr.availableList := by
      unfold RReg.availableList
      rw [List.mem_filter]
      have := hs.avail a
      rw [hav] at this
      unfold RReg.avail at this
      rw [eq_comm, Bool.and_eq_true] at this
      exact ⟨by simpa using this.1, this.2⟩
    have hcount := h2 a hal
    have hfa : f[a]? = some g := hf a g (hs.inv.av g s a hp has)
    have hfilter : picks.filter (fun b => s.contains b) = picks.filter (fun b => f[b]? == f[a]?) := by
      apply List.filter_congr
      intro b hb
      rw [Bool.eq_iff_iff, List.contains_iff_mem, mem_group_iff hf hs.inv hp (hpicks b hb), hfa]
      simp
    rw [← hse]
    simp only [hfilter]
    rw [hse]
    simpa using hcount

/-! ### objects, stores, writes -/

inductive ObjSim (w : World) : Obj → RObj → Prop where
  | rt {c rc} : RcSim c rc → ObjSim w (.rt c) (.rt rc)
  | reg {g rr} : RSim g rr → FInv w.group g → ObjSim w (.reg g) (.reg false rr)
  | rctx {x rr} : RSim x.registry rr → FInv w.group x.registry → CInv w.closedOf x → ObjSim w (.rctx x) (.reg true rr)

def OptSim (w : World) : Option Obj → Option RObj → Prop
  | some o, some ro => ObjSim w o ro
  | none, none => True
  | _, _ => False

def StoreSim (w : World) (st : Store Obj) (rst : Store RObj) : Prop := ∀ h, OptSim w (st.get h) (rst.get h)

def WritesSim (w : World) : List (Nat × Option Obj) → List (Nat × Option RObj) → Prop
  | [], [] => True
  | a :: ws, b :: rws => a.1 = b.1 ∧ OptSim w a.2 b.2 ∧ WritesSim w ws rws
  | _, _ => False

theorem get_write1 {β} (st : Store β) (k : Nat) (v : Option β) (h : Nat) :
    (st.write [(k, v)]).get h = if h = k then v else st.get h := by
  have hf : ∀ (l : Store β), Store.get (l.filter (fun p => p.1 != k)) h = if h = k then none else Store.get l h := by
    intro l
    unfold Store.get
    have hfk := lookup_filter_key l (fun x => x != k) h
    by_cases e : h = k
    · subst e
      have hb : (h != h) = false := by simp
      simp only [hb, Bool.false_eq_true, if_false] at hfk
      rw [if_pos rfl]; exact hfk
    · have hb : (h != k) = true := by simpa using e
      simp only [hb, if_true] at hfk
      rw [if_neg e]; exact hfk
  cases v with
  | none =>
    show Store.get (st.filter (fun p => p.1 != k)) h = _
    rw [hf]
  | some v =>
    show Store.get ((k, v) :: st.filter (fun p => p.1 != k)) h = _
    by_cases e : h = k
    · subst e; simp [Store.get, List.lookup_cons]
    · have hb : (h == k) = false := by simpa using e
      have := hf st
      unfold Store.get at this ⊢
      rw [List.lookup_cons, hb]
      simp only [e, if_false] at this ⊢
      exact this

theorem write_cons {β} (st : Store β) (x : Nat × Option β) (ws : List (Nat × Option β)) :
    st.write (x :: ws) = (st.write [x]).write ws := by
  simp [Store.write]

theorem write_sim {w : World} : ∀ (ws : List (Nat × Option Obj)) (rws : List (Nat × Option RObj))
    (st : Store Obj) (rst : Store RObj), StoreSim w st rst → WritesSim w ws rws →
    StoreSim w (st.write ws) (rst.write rws)
  | [], [], st, rst, hs, _ => hs
  | [], _ :: _, _, _, _, hw => by cases hw
  | _ :: _, [], _, _, _, hw => by cases hw
  | (k, v) :: ws, (k', v') :: rws, st, rst, hs, hw => by
    obtain ⟨hk, hv, hrest⟩ := hw
    simp only at hk hv
    subst hk
    rw [write_cons, write_cons (β := RObj)]
    apply write_sim ws rws _ _ _ hrest
    intro h
    rw [get_write1, get_write1]
    by_cases e : h = k
    · simp only [e, if_true]; exact hv
    · simp only [e, if_false]; exact hs h

/-! ### observations agree -/

theorem observe_of_objsim {w : World} {o ro} (h : ObjSim w o ro) (n : Nat) : o.observe n = ro.observe n := by
  cases h with
  | rt hc => exact observe_of_rcsim hc n
  | reg hr _ => exact observe_of_rsim hr false n
  | rctx hr _ _ => exact observe_of_rsim hr true n

/-! ### route contexts -/

theorem rcsim_withTour {c rc} (h : RcSim c rc) {t rt} (ht : Sim t rt) : RcSim (c.withTour t) (rc.withTour rt) := by
  refine ⟨h.kind, h.actor, ht, ?_, h.st, h.cnt⟩
  show (if c.kind = Kind.rc then true else c.stale) = (if rc.kind = Kind.rc then true else rc.stale)
  rw [h.kind, h.stale]

theorem getR_of_sim {w st rst} (hs : StoreSim w st rst) {h : Nat} {rc : RRoute} (hr : rst.get h = some (.rt rc)) :
    ∃ c, getR st h = .ok c ∧ RcSim c rc := by
  have := hs h
  rw [hr] at this
  cases hg : st.get h with
  | none => rw [hg] at this; cases this
  | some o =>
    rw [hg] at this
    cases this with
    | rt hc => exact ⟨_, by simp [getR, hg], hc⟩

theorem getRc_of_sim {w st rst} (hs : StoreSim w st rst) {h : Nat} {rc : RRoute} (hr : getRRc rst h = some rc) :
    ∃ c, getRc st h = .ok c ∧ RcSim c rc := by
  unfold getRRc at hr
  cases hg : rst.get h with
  | none => rw [hg] at hr; cases hr
  | some ro =>
    rw [hg] at hr
    cases ro with
    | reg _ _ => cases hr
    | rt rc' =>
      simp only at hr
      split at hr
      · rename_i hk
        cases hr
        obtain ⟨c, hc, hsim⟩ := getR_of_sim hs hg
        refine ⟨c, ?_, hsim⟩
        unfold getR at hc
        unfold getRc
        split at hc
        · rename_i c' hst
          cases hc
          rw [if_pos (by rw [hsim.kind]; exact hk)]
        · cases hc
      · cases hr

theorem getReg_of_sim {w st rst} (hs : StoreSim w st rst) {h : Nat} {rr : RReg}
    (hr : rst.get h = some (.reg false rr)) :
    ∃ g, st.get h = some (.reg g) ∧ RSim g rr ∧ FInv w.group g := by
  have := hs h
  rw [hr] at this
  cases hg : st.get h with
  | none => rw [hg] at this; cases this
  | some o =>
    rw [hg] at this
    cases this with
    | reg h1 h2 => exact ⟨_, rfl, h1, h2⟩

theorem getCtx_of_sim {w st rst} (hs : StoreSim w st rst) {h : Nat} {rr : RReg}
    (hr : rst.get h = some (.reg true rr)) :
    ∃ x, st.get h = some (.rctx x) ∧ RSim x.registry rr ∧ FInv w.group x.registry ∧ CInv w.closedOf x := by
  have := hs h
  rw [hr] at this
  cases hg : st.get h with
  | none => rw [hg] at this; cases this
  | some o =>
    rw [hg] at this
    cases this with
    | rctx h1 h2 h3 => exact ⟨_, rfl, h1, h2, h3⟩

theorem handed_out_route_is_fresh' (a : Nat) (c : Bool) (n : Nat) :
    (RouteCtx.proto a c).observe n = (RRoute.fresh a c).observe n :=
  observe_of_rcsim (rcsim_proto a c) n

/-! ### one operation -/

/-- **every operation the reference accepts has, on the code-shaped machine, the same result and writes
    related objects to the same handles** -/
theorem eff_refines {w : World} {st : Store Obj} {rst : Store RObj} (hs : StoreSim w st rst) (op : Op)
    {rws : List (Nat × Option RObj)} {rout : Out}
    (hr : RObj.eff w rst op = some (rws, rout)) (hadm : rout ≠ Out.inadmissible) :
    ∃ ws, Obj.eff w st op = .ok (ws, rout) ∧ WritesSim w ws rws := by
  cases op with
  | newR k dst a =>
    simp only [RObj.eff] at hr; cases hr
    exact ⟨_, rfl, rfl, ObjSim.rt (rcsim_new k a _), trivial⟩
  | copy dst h =>
    simp only [RObj.eff] at hr
    cases hg : rst.get h with
    | none => rw [hg] at hr; cases hr
    | some ro =>
      rw [hg] at hr; cases hr
      have := hs h
      rw [hg] at this
      cases hm : st.get h with
      | none => rw [hm] at this; cases this
      | some o =>
        rw [hm] at this
        exact ⟨[(dst, some o)], by simp only [Obj.eff, hm], rfl, this, trivial⟩
  | drop h =>
    simp only [RObj.eff] at hr; cases hr
    exact ⟨_, rfl, rfl, trivial, trivial⟩
  | insAt h j s i =>
    simp only [RObj.eff] at hr
    split at hr
    · rename_i rc hg
      cases hins : rc.tour.insertAt j s i with
      | none => rw [hins] at hr; cases hr
      | some t' =>
        rw [hins] at hr; cases hr
        obtain ⟨c, hc, hsim⟩ := getR_of_sim hs hg
        obtain ⟨h1, h2⟩ := sim_insertAt hsim.tour hins
        refine ⟨[(h, some (.rt (c.withTour (c.tour.insertAtRaw (Act.job j s) i).1)))], ?_, rfl,
          ObjSim.rt (rcsim_withTour hsim h2), trivial⟩
        simp only [Obj.eff, hc, h1, Bool.false_eq_true, if_false]
    · cases hr
  | insLast h j s =>
    simp only [RObj.eff] at hr
    split at hr
    · rename_i rc hg
      cases hr
      obtain ⟨c, hc, hsim⟩ := getR_of_sim hs hg
      obtain ⟨h1, h2⟩ := sim_insertLast hsim.tour j s
      refine ⟨[(h, some (.rt (c.withTour (c.tour.insertLastRaw (Act.job j s)).1)))], ?_, rfl,
        ObjSim.rt (rcsim_withTour hsim h2), trivial⟩
      simp only [Obj.eff, hc, h1, Bool.false_eq_true, if_false]
    · cases hr
  | insNoJob h i =>
    simp only [RObj.eff] at hr
    split at hr
    · rename_i rc hg
      cases hr
      obtain ⟨c, hc, hsim⟩ := getR_of_sim hs hg
      refine ⟨[(h, some (.rt (c.withTour c.tour)))], ?_, rfl,
        ObjSim.rt (rcsim_withTour hsim hsim.tour), trivial⟩
      simp only [Obj.eff, hc, Tour.insertAtRaw, Act.jobId?, if_true]
    · cases hr
  | rem h j =>
    simp only [RObj.eff] at hr
    split at hr
    · rename_i rc hg
      cases hr
      obtain ⟨c, hc, hsim⟩ := getR_of_sim hs hg
      obtain ⟨h1, h2⟩ := sim_remove hsim.tour j
      refine ⟨[(h, some (.rt (c.withTour (c.tour.remove j).1)))], ?_, rfl,
        ObjSim.rt (rcsim_withTour hsim h2), trivial⟩
      simp only [Obj.eff, hc, h1]
    · cases hr
  | remAt h i =>
    simp only [RObj.eff] at hr
    split at hr
    · rename_i rc hg
      cases hr
      obtain ⟨c, hc, hsim⟩ := getR_of_sim hs hg
      obtain ⟨h1, h2⟩ := sim_removeAt hsim.tour i
      refine ⟨[(h, some (.rt (c.withTour (c.tour.removeActivityAt i).1)))], ?_, rfl,
        ObjSim.rt (rcsim_withTour hsim h2), trivial⟩
      simp only [Obj.eff, hc, h1]
    · cases hr
  | touch h =>
    simp only [RObj.eff] at hr
    split at hr
    · rename_i rc hg
      cases hr
      obtain ⟨c, hc, hsim⟩ := getRc_of_sim hs hg
      refine ⟨[(h, some (.rt c.touch))], by simp only [Obj.eff, hc], rfl, ObjSim.rt ?_, trivial⟩
      exact ⟨hsim.kind, hsim.actor, hsim.tour, rfl, hsim.st, hsim.cnt⟩
    · cases hr
  | accept h =>
    simp only [RObj.eff] at hr
    split at hr
    · rename_i rc hg
      cases hr
      obtain ⟨c, hc, hsim⟩ := getRc_of_sim hs hg
      refine ⟨[(h, some (.rt c.accept))], by simp only [Obj.eff, hc], rfl, ObjSim.rt ?_, trivial⟩
      unfold RouteCtx.accept
      rw [hsim.stale]
      cases rc.stale
      · simp only [Bool.false_eq_true, if_false]; exact hsim
      · simp only [if_true]
        exact ⟨hsim.kind, hsim.actor, hsim.tour, rfl, rfl, by
          show some c.tour.jobActivityCount = some rc.tour.mid.length
          rw [jac_of_sim hsim.tour]⟩
    · cases hr
  | setState h v =>
    simp only [RObj.eff] at hr
    split at hr
    · rename_i rc hg
      cases hr
      obtain ⟨c, hc, hsim⟩ := getRc_of_sim hs hg
      refine ⟨[(h, some (.rt { c.touch with st := some v }))], by simp only [Obj.eff, hc], rfl, ObjSim.rt ?_, trivial⟩
      exact ⟨hsim.kind, hsim.actor, hsim.tour, rfl, rfl, hsim.cnt⟩
    · cases hr
  | newReg dst =>
    simp only [RObj.eff] at hr; cases hr
    exact ⟨_, rfl, rfl, ObjSim.reg (rsim_new _) (finv_new _), trivial⟩
  | newRctx dst =>
    simp only [RObj.eff] at hr; cases hr
    exact ⟨_, rfl, rfl, ObjSim.rctx (rsim_new _) (finv_new _) (cinv_new _ (new_spec _).1), trivial⟩
  | use h a =>
    simp only [RObj.eff] at hr
    split at hr
    · rename_i rr hg
      cases hr
      obtain ⟨g, hm, hsim, hf⟩ := getReg_of_sim hs hg
      obtain ⟨h1, h2⟩ := rsim_use hsim a
      exact ⟨[(h, some (.reg (g.useActor a).1))], by simp only [Obj.eff, hm, h1], rfl,
        ObjSim.reg h2 (finv_use hf a), trivial⟩
    · cases hr
  | free h a =>
    simp only [RObj.eff] at hr
    split at hr
    · rename_i rr hg
      cases hr
      obtain ⟨g, hm, hsim, hf⟩ := getReg_of_sim hs hg
      obtain ⟨h1, h2⟩ := rsim_free hsim a
      exact ⟨[(h, some (.reg (g.freeActor a).1))], by simp only [Obj.eff, hm, h1], rfl,
        ObjSim.reg h2 (finv_free hf a), trivial⟩
    · cases hr
  | getRoute h a dst =>
    simp only [RObj.eff] at hr
    split at hr
    · rename_i rr hg
      obtain ⟨x, hm, hsim, hf, hc⟩ := getCtx_of_sim hs hg
      obtain ⟨h1, h2⟩ := rsim_use hsim a
      obtain ⟨hc', hreg, hres⟩ := getRoute_spec hc a
      have huse : (x.registry.useActor a).2 = x.registry.isAvail a := (use_spec hc.reg a).2.1
      have hsim' : RSim (x.getRoute a).1.registry (rr.use a).1 := by rw [hreg]; exact h2
      have hf' : FInv w.group (x.getRoute a).1.registry := by rw [hreg]; exact finv_use hf a
      cases hu : (rr.use a).2
      · rw [hu] at hr
        simp only [Bool.false_eq_true, if_false] at hr
        cases hr
        have hav : x.registry.isAvail a = false := by rw [← huse, h1, hu]
        rw [hav] at hres
        simp only [Bool.false_eq_true, if_false] at hres
        refine ⟨[(h, some (.rctx (x.getRoute a).1))], ?_, rfl, ObjSim.rctx hsim' hf' hc', trivial⟩
        simp only [Obj.eff, hm, hres]
      · rw [hu] at hr
        simp only [if_true] at hr
        cases hr
        have hav : x.registry.isAvail a = true := by rw [← huse, h1, hu]
        rw [hav] at hres
        simp only [if_true] at hres
        refine ⟨[(h, some (.rctx (x.getRoute a).1)), (dst, some (.rt (RouteCtx.proto a (w.closedOf a))))], ?_,
          rfl, ObjSim.rctx hsim' hf' hc', rfl, ObjSim.rt (rcsim_proto a _), trivial⟩
        simp only [Obj.eff, hm, hres]
    · cases hr
  | freeRoute h rh =>
    simp only [RObj.eff] at hr
    split at hr
    · rename_i rr rc hg hgr
      cases hr
      obtain ⟨x, hm, hsim, hf, hc⟩ := getCtx_of_sim hs hg
      obtain ⟨c, hcr, hcs⟩ := getRc_of_sim hs hgr
      obtain ⟨h1, h2⟩ := rsim_free hsim c.actor
      rw [hcs.actor] at h1 h2
      refine ⟨[(h, some (.rctx (x.freeRoute c).1)), (rh, none)], ?_, rfl,
        ObjSim.rctx (by show RSim (x.registry.freeActor c.actor).1 _; rw [hcs.actor]; exact h2)
          (by show FInv _ (x.registry.freeActor c.actor).1; exact finv_free hf _) (freeRoute_spec hc c),
        rfl, trivial, trivial⟩
      simp only [Obj.eff, hm, hcr, RegistryCtx.freeRoute, hcs.actor, h1]
    · cases hr
  | useRoute h rh =>
    simp only [RObj.eff] at hr
    split at hr
    · rename_i rr rc hg hgr
      cases hr
      obtain ⟨x, hm, hsim, hf, hc⟩ := getCtx_of_sim hs hg
      obtain ⟨c, hcr, hcs⟩ := getRc_of_sim hs hgr
      obtain ⟨h1, h2⟩ := rsim_use hsim c.actor
      rw [hcs.actor] at h1 h2
      refine ⟨[(h, some (.rctx (x.useRoute c).1))], ?_, rfl,
        ObjSim.rctx (by show RSim (x.registry.useActor c.actor).1 _; rw [hcs.actor]; exact h2)
          (by show FInv _ (x.registry.useActor c.actor).1; exact finv_use hf _) (useRoute_spec hc c), trivial⟩
      simp only [Obj.eff, hm, hcr, RegistryCtx.useRoute, hcs.actor, h1]
    · cases hr
  | next h picks =>
    simp only [RObj.eff] at hr
    split at hr
    · rename_i isCtx rr hg
      by_cases hok : rr.nextOk w.group picks = true
      · rw [if_pos hok] at hr
        cases hr
        cases isCtx with
        | false =>
          obtain ⟨g, hm, hsim, hf⟩ := getReg_of_sim hs hg
          have := nextOk_of_ref hsim hf picks hok
          exact ⟨[], by simp only [Obj.eff, hm, this, if_true]; rfl, trivial⟩
        | true =>
          obtain ⟨x, hm, hsim, hf, hc⟩ := getCtx_of_sim hs hg
          have hn := nextOk_of_ref hsim hf picks hok
          have hav : ∀ a ∈ picks, x.registry.isAvail a = true := by
            unfold Registry.nextOk at hn
            rw [Bool.and_eq_true, List.all_eq_true, List.all_eq_true] at hn
            exact hn.2
          have hnr := nextRoute_total hc picks hav
          refine ⟨[], ?_, trivial⟩
          simp only [Obj.eff, hm, hn, if_true, hnr, List.map_map]
          congr 3
          apply List.map_congr_left
          intro a _
          simp only [Function.comp]
          rw [handed_out_route_is_fresh']
      · rw [if_neg hok] at hr
        cases hr
        exact absurd rfl hadm
    · cases hr
  | slice dst h keep =>
    simp only [RObj.eff] at hr
    split at hr
    · rename_i isCtx rr hg
      cases hr
      cases isCtx with
      | false =>
        obtain ⟨g, hm, hsim, hf⟩ := getReg_of_sim hs hg
        exact ⟨[(dst, some (.reg (g.deepSlice keep.contains)))], by simp only [Obj.eff, hm], rfl,
          ObjSim.reg (rsim_slice hsim _) (finv_slice hf _), trivial⟩
      | true =>
        obtain ⟨x, hm, hsim, hf, hc⟩ := getCtx_of_sim hs hg
        exact ⟨[(dst, some (.rctx (x.deepSlice keep.contains)))], by simp only [Obj.eff, hm], rfl,
          ObjSim.rctx (rsim_slice hsim _) (finv_slice hf _) (ctxSlice_spec hc _), trivial⟩
    · cases hr

end C14
