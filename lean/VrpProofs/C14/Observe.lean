import VrpProofs.C14.Tour
/-!
# C14 — every observer of the code-shaped tour equals the reference observer
-/
set_option linter.unusedSimpArgs false
set_option linter.unnecessarySimpa false
set_option linter.unusedVariables false

namespace C14

/-! ### legs -/

theorem windows2_zipIdx (A : List Act) (k : Nat) :
    (windows 2 A).zipIdx k = (List.range (A.length - 1)).map (fun i => ((A.drop i).take 2, i + k)) := by
  induction A generalizing k with
  | nil => simp [windows]
  | cons a A ih =>
    cases A with
    | nil => simp [windows]
    | cons b l =>
      have hw : windows 2 (a :: b :: l) = (a :: b :: l).take 2 :: windows 2 (b :: l) := by
        simp [windows]
      rw [hw, List.zipIdx_cons, ih (k + 1)]
      have hl : (a :: b :: l).length - 1 = ((b :: l).length - 1) + 1 := by simp
      rw [hl, List.range_succ_eq_map]
      simp only [List.map_cons, List.map_map, List.drop_zero, Nat.zero_add]
      congr 1
      apply List.map_congr_left
      intro i _
      simp only [Function.comp, Nat.succ_eq_add_one, List.drop_succ_cons]
      congr 1
      omega

/-- `Tour::legs` (window size 1 or 2, chained open-end leg) is "consecutive pairs + the open end" whenever
    the tour has its start and, if closed, at least two activities -/
theorem legs_eq_spec (t : Tour) (h1 : t.acts ≠ []) (h2 : t.closed = true → 2 ≤ t.acts.length) :
    t.legs = specLegs t.closed t.acts := by
  unfold Tour.legs specLegs
  have hne : t.acts.isEmpty = false := by
    cases h : t.acts with
    | nil => exact absurd h h1
    | cons _ _ => rfl
  simp only [hne, Bool.false_eq_true, if_false]
  by_cases hlen : t.acts.length = 1
  · -- a single activity: open tour without jobs
    have hc : t.closed = false := by
      cases hcl : t.closed
      · rfl
      · have := h2 hcl; omega
    obtain ⟨a, ha⟩ : ∃ a, t.acts = [a] := by
      cases h : t.acts with
      | nil => exact absurd h h1
      | cons a l =>
        cases l with
        | nil => exact ⟨a, rfl⟩
        | cons b l => rw [h] at hlen; simp at hlen
    simp [ha, hc, windows]
  · have hge : 2 ≤ t.acts.length := by
      have : t.acts.length ≠ 0 := by
        intro h0; exact h1 (List.length_eq_zero_iff.mp h0)
      omega
    have hb : (t.acts.length == 1) = false := by simpa using hlen
    simp only [hb, Bool.false_eq_true, if_false]
    rw [windows2_zipIdx]
    simp only [Nat.add_zero]
    cases hcl : t.closed
    · have : decide (t.acts.length - 1 > 0) = true := by simp; omega
      simp [this]
    · simp

theorem legs_of_sim {t r} (h : Sim t r) : t.legs = specLegs r.closed r.render := by
  rw [legs_eq_spec t, h.acts, h.closed]
  · rw [h.acts, render_eq]; simp
  · intro hc
    rw [h.acts, length_render, ← h.closed, hc]; simp

/-! ### the job set -/

theorem jobs_perm_of_sim {t r} (h : Sim t r) : t.jobs.Perm r.jobSet := by
  apply perm_of_nodup_of_mem_iff h.nodup (nodup_dedup _)
  intro a
  rw [h.mem, mem_dedup]

theorem jobCount_of_sim {t r} (h : Sim t r) : t.jobCount = r.jobSet.length :=
  (jobs_perm_of_sim h).length_eq

theorem sortedJobs_of_sim {t r} (h : Sim t r) : sortNat t.jobs = sortNat r.jobSet :=
  sortNat_eq_of_perm (jobs_perm_of_sim h)

theorem contains_of_sim {t r} (h : Sim t r) (j : Nat) : t.contains j = r.mid.any (fun p => p.1 == j) :=
  (sim_remove h j).1

theorem hasJobs_of_sim {t r} (h : Sim t r) : (!t.jobs.isEmpty) = !r.mid.isEmpty := by
  congr 1
  cases hm : r.mid with
  | nil =>
    have : t.jobs = [] := by
      cases hj : t.jobs with
      | nil => rfl
      | cons a l =>
        have := (h.mem a).mp (by rw [hj]; simp)
        rw [hm] at this; simp at this
    rw [this]; rfl
  | cons p l =>
    have : p.1 ∈ t.jobs := (h.mem p.1).mpr (by rw [hm]; simp)
    cases hj : t.jobs with
    | nil => rw [hj] at this; simp at this
    | cons a l => rfl

/-! ### ends -/

theorem head_of_sim {t r} (h : Sim t r) : t.acts.head? = some Act.start := by
  rw [h.acts, render_eq]; rfl

theorem last_of_sim {t r} (h : Sim t r) :
    t.acts.getLast? = (if r.closed then some Act.finish else
      match r.mid.getLast? with
      | some p => some (Act.job p.1 p.2)
      | none => some Act.start) := by
  rw [h.acts, render_eq, List.getLast?_cons, List.getLast?_append, List.getLast?_map]
  cases hc : r.closed
  · simp only [ends, Bool.false_eq_true, if_false, List.getLast?_nil, Option.none_or]
    cases r.mid.getLast? <;> rfl
  · simp [ends]

theorem endIdx_of_sim {t r} (h : Sim t r) :
    (if t.acts.length = 0 then none else some (t.acts.length - 1))
      = some (r.mid.length + (if r.closed then 1 else 0)) := by
  rw [h.acts, length_render]
  cases r.closed <;> simp

/-! ### positions -/

theorem findIdx_ends (j : Nat) (c : Bool) : (ends c).findIdx? (Act.hasJob j) = none := by
  cases c <;> rfl

theorem hasJob_comp (j : Nat) : (Act.hasJob j ∘ jobAct) = (fun p : Nat × Nat => p.1 == j) := by
  funext p; exact hasJob_jobAct j p

theorem index_of_sim {t r} (h : Sim t r) (j : Nat) :
    t.index j = (r.mid.findIdx? (fun p => p.1 == j)).map (· + 1) := by
  unfold Tour.index
  rw [h.acts, render_eq, List.findIdx?_cons]
  have : Act.hasJob j Act.start = false := rfl
  simp only [this, Bool.false_eq_true, if_false]
  rw [List.findIdx?_append, findIdx_ends, List.findIdx?_map, hasJob_comp]
  simp

theorem indexLast_of_sim {t r} (h : Sim t r) (j : Nat) :
    t.indexLast j = (r.mid.reverse.findIdx? (fun p => p.1 == j)).map (fun k => r.mid.length - k) := by
  unfold Tour.indexLast
  rw [h.acts, length_render]
  have hrev : r.render.reverse = ((ends r.closed).reverse ++ (r.mid.reverse.map jobAct)) ++ [Act.start] := by
    rw [render_eq]; simp [List.map_reverse]
  rw [hrev, List.findIdx?_append, List.findIdx?_append, List.findIdx?_map, hasJob_comp]
  have he : (ends r.closed).reverse.findIdx? (Act.hasJob j) = none := by cases r.closed <;> rfl
  have hs : [Act.start].findIdx? (Act.hasJob j) = none := rfl
  rw [he, hs]
  simp only [Option.none_or, Option.map_none, Option.or_none, Option.map_map, List.length_reverse]
  cases hf : r.mid.reverse.findIdx? (fun p => p.1 == j) with
  | none => rfl
  | some k =>
    simp only [Option.map_some, Function.comp, length_ends]
    congr 1
    cases r.closed <;> simp <;> omega

theorem jobActivities_of_sim {t r} (h : Sim t r) (j : Nat) :
    t.jobActivities j = (r.mid.filter (fun p => p.1 == j)).map Prod.snd := by
  unfold Tour.jobActivities
  rw [h.acts, render_eq]
  have hs : ∀ l, List.filter (Act.hasJob j) (Act.start :: l) = List.filter (Act.hasJob j) l := fun l => rfl
  have he : (ends r.closed).filter (Act.hasJob j) = [] := by cases r.closed <;> rfl
  rw [hs, List.filter_append, he, List.append_nil, List.filter_map, hasJob_comp, List.filterMap_map]
  have : (Act.sub? ∘ jobAct) = (some ∘ Prod.snd) := by funext p; rfl
  rw [this, List.filterMap_eq_map]

/-! ### the whole observation -/

/-- **every public observer of the code-shaped tour equals the reference observer** -/
theorem observe_of_sim {t r} (h : Sim t r) (n : Nat) : t.observe n = r.observe n := by
  unfold Tour.observe RTour.observe
  rw [TourObs.mk.injEq]
  refine ⟨h.acts, sortedJobs_of_sim h, jobCount_of_sim h, jac_of_sim h, total_of_sim h, legs_of_sim h,
    hasJobs_of_sim h, head_of_sim h, last_of_sim h, endIdx_of_sim h, ?_⟩
  apply List.map_congr_left
  intro j _
  rw [index_of_sim h, indexLast_of_sim h, contains_of_sim h, jobActivities_of_sim h]

/-! ### the declarative predicate accepts exactly such observations -/

theorem mapM_jobAct (mid : List (Nat × Nat)) :
    (mid.map jobAct).mapM (fun a => match a with | Act.job j s => some (j, s) | _ => none) = some mid := by
  induction mid with
  | nil => rfl
  | cons p l ih =>
    rw [List.map_cons, List.mapM_cons, ih]
    rfl

theorem parseMid_render (r : RTour) : parseMid r.closed r.render = some r.mid := by
  rw [render_eq]
  unfold parseMid
  cases hc : r.closed
  · simp only [ends, Bool.false_eq_true, if_false, List.append_nil, Bool.false_and]
    exact mapM_jobAct r.mid
  · simp only [ends, if_true, Bool.true_and]
    have h1 : (r.mid.map jobAct ++ [Act.finish]).getLast? = some Act.finish := by simp
    have h2 : (r.mid.map jobAct ++ [Act.finish]).dropLast = r.mid.map jobAct := by simp
    rw [h1, h2]
    simp only [bne_self_eq_false, Bool.false_eq_true, if_false]
    exact mapM_jobAct r.mid

theorem wfObs_ref (n : Nat) (r : RTour) : wfObs n r.closed (r.observe n) = true := by
  unfold wfObs
  have : (r.observe n).acts = r.render := rfl
  rw [this, parseMid_render]
  simp

/-- **a well-formed tour passes the declarative check evaluated by the driver** -/
theorem wfObs_of_sim {t r} (h : Sim t r) (n : Nat) : wfObs n t.closed (t.observe n) = true := by
  rw [observe_of_sim h, h.closed]; exact wfObs_ref n r

end C14
