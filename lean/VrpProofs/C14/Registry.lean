import VrpProofs.C14.Assoc
/-!
# C14 — the code-shaped registry (group map + index map + vector) and its invariant
-/
set_option linter.unusedSimpArgs false
set_option linter.unnecessarySimpa false
set_option linter.unusedVariables false

namespace C14

/-- structural invariant of the three containers of `Registry` -/
structure RInv (r : Registry) : Prop where
  keys : (r.available.map Prod.fst).Nodup
  grp : ∀ a g, r.index.lookup a = some g → ∃ s, r.available.lookup g = some s
  reg : ∀ a, (r.index.lookup a).isSome = true ↔ a ∈ r.all
  av : ∀ g s a, (g, s) ∈ r.available → a ∈ s → r.index.lookup a = some g
  sets : ∀ g s, (g, s) ∈ r.available → s.Nodup
  all : r.all.Nodup

theorem isAvail_iff {r : Registry} {a : Nat} :
    r.isAvail a = true ↔ ∃ g s, (g, s) ∈ r.available ∧ a ∈ s := by
  unfold Registry.isAvail
  rw [List.any_eq_true]
  constructor
  · rintro ⟨⟨g, s⟩, hp, hc⟩; exact ⟨g, s, hp, by simpa using hc⟩
  · rintro ⟨g, s, hp, hc⟩; exact ⟨(g, s), hp, by simpa using hc⟩

theorem isAvail_of_lookup {r : Registry} (h : RInv r) {a g : Nat} {s : List Nat}
    (hi : r.index.lookup a = some g) (hs : r.available.lookup g = some s) :
    r.isAvail a = s.contains a := by
  rw [Bool.eq_iff_iff, isAvail_iff, List.contains_iff_mem]
  constructor
  · rintro ⟨g', s', hp, hc⟩
    have : r.index.lookup a = some g' := h.av g' s' a hp hc
    rw [hi] at this
    cases this
    have := mem_lookup_of_nodup h.keys hp
    rw [hs] at this
    cases this
    exact hc
  · intro hc; exact ⟨g, s, lookup_mem hs, hc⟩

theorem isAvail_unregistered {r : Registry} (h : RInv r) {a : Nat} (hi : r.index.lookup a = none) :
    r.isAvail a = false := by
  cases hv : r.isAvail a
  · rfl
  · obtain ⟨g, s, hp, hc⟩ := isAvail_iff.mp hv
    have := h.av g s a hp hc
    rw [hi] at this; cases this

theorem mem_all_of_isAvail {r : Registry} (h : RInv r) {a : Nat} (hv : r.isAvail a = true) : a ∈ r.all := by
  obtain ⟨g, s, hp, hc⟩ := isAvail_iff.mp hv
  exact (h.reg a).mp (by rw [h.av g s a hp hc]; rfl)

/-! ### `use_actor` -/

theorem use_spec {r : Registry} (h : RInv r) (a : Nat) :
    RInv (r.useActor a).1 ∧ (r.useActor a).2 = r.isAvail a ∧ (r.useActor a).1.all = r.all ∧
    ∀ x, (r.useActor a).1.isAvail x = (r.isAvail x && x != a) := by
  cases hi : r.index.lookup a with
  | none =>
    have hu : r.useActor a = (r, false) := by simp [Registry.useActor, hi]
    have hna := isAvail_unregistered h hi
    rw [hu]
    refine ⟨h, hna.symm, rfl, ?_⟩
    intro x
    by_cases e : x = a
    · subst e; simp [hna]
    · simp [e]
  | some g =>
    obtain ⟨s, hs⟩ := h.grp a g hi
    have hu : r.useActor a
        = ({ r with available := assocUpdate r.available g (setRemove a s) }, s.contains a) := by
      simp [Registry.useActor, hi, hs]
    rw [hu]
    have hav := isAvail_of_lookup h hi hs
    have hgs : (g, s) ∈ r.available := lookup_mem hs
    have hx : ∀ x, ({ r with available := assocUpdate r.available g (setRemove a s) } : Registry).isAvail x
        = (r.isAvail x && x != a) := by
      intro x
      rw [Bool.eq_iff_iff, isAvail_iff, Bool.and_eq_true, isAvail_iff]
      constructor
      · rintro ⟨g', s', hp, hc⟩
        rcases mem_assocUpdate.mp hp with ⟨hne, hp'⟩ | ⟨he, hse, _⟩
        · refine ⟨⟨g', s', hp', hc⟩, ?_⟩
          have hxa : x ≠ a := by
            intro e; subst e
            have := h.av g' s' x hp' hc
            rw [hi] at this; cases this; exact hne rfl
          simpa using hxa
        · subst he; subst hse
          have := mem_setRemove.mp hc
          exact ⟨⟨g', s, hgs, this.1⟩, by simpa using this.2⟩
      · rintro ⟨⟨g', s', hp, hc⟩, hxa⟩
        have hxa : x ≠ a := by simpa using hxa
        by_cases e : g' = g
        · subst e
          have := mem_lookup_of_nodup h.keys hp
          rw [hs] at this; cases this
          exact ⟨g', setRemove a s, mem_assocUpdate.mpr (Or.inr ⟨rfl, rfl, s, hgs⟩), mem_setRemove.mpr ⟨hc, hxa⟩⟩
        · exact ⟨g', s', mem_assocUpdate.mpr (Or.inl ⟨e, hp⟩), hc⟩
    refine ⟨?_, hav.symm, rfl, hx⟩
    constructor
    · show ((assocUpdate r.available g (setRemove a s)).map Prod.fst).Nodup
      rw [map_fst_assocUpdate]; exact h.keys
    · intro a' g' hi'
      show ∃ s', (assocUpdate r.available g (setRemove a s)).lookup g' = some s'
      obtain ⟨s', hs'⟩ := h.grp a' g' hi'
      rw [lookup_assocUpdate]
      by_cases e : g' = g
      · subst e; rw [if_pos rfl, hs]; exact ⟨_, rfl⟩
      · rw [if_neg e]; exact ⟨s', hs'⟩
    · exact h.reg
    · intro g' s' x hp hc
      show r.index.lookup x = some g'
      rcases mem_assocUpdate.mp hp with ⟨_, hp'⟩ | ⟨he, hse, _⟩
      · exact h.av g' s' x hp' hc
      · subst he; subst hse
        exact h.av g' s x hgs (mem_setRemove.mp hc).1
    · intro g' s' hp
      rcases mem_assocUpdate.mp hp with ⟨_, hp'⟩ | ⟨he, hse, _⟩
      · exact h.sets g' s' hp'
      · subst hse; exact nodup_setRemove (h.sets g s hgs)
    · exact h.all

/-! ### `free_actor` -/

theorem free_spec {r : Registry} (h : RInv r) (a : Nat) :
    RInv (r.freeActor a).1 ∧ (r.freeActor a).2 = (decide (a ∈ r.all) && !r.isAvail a) ∧
    (r.freeActor a).1.all = r.all ∧
    ∀ x, (r.freeActor a).1.isAvail x = (r.isAvail x || (x == a && decide (a ∈ r.all))) := by
  cases hi : r.index.lookup a with
  | none =>
    have hu : r.freeActor a = (r, false) := by simp [Registry.freeActor, hi]
    have hna : a ∉ r.all := by
      intro hm
      have := (h.reg a).mpr hm
      rw [hi] at this; cases this
    rw [hu]
    refine ⟨h, by simp [hna], rfl, ?_⟩
    intro x; simp [hna]
  | some g =>
    obtain ⟨s, hs⟩ := h.grp a g hi
    have hu : r.freeActor a
        = ({ r with available := assocUpdate r.available g (setInsert a s) }, !s.contains a) := by
      simp [Registry.freeActor, hi, hs]
    rw [hu]
    have hav := isAvail_of_lookup h hi hs
    have hgs : (g, s) ∈ r.available := lookup_mem hs
    have hall : a ∈ r.all := (h.reg a).mp (by rw [hi]; rfl)
    have hx : ∀ x, ({ r with available := assocUpdate r.available g (setInsert a s) } : Registry).isAvail x
        = (r.isAvail x || (x == a && decide (a ∈ r.all))) := by
      intro x
      rw [Bool.eq_iff_iff, isAvail_iff, Bool.or_eq_true, isAvail_iff]
      simp only [hall, decide_true, Bool.and_true, beq_iff_eq]
      constructor
      · rintro ⟨g', s', hp, hc⟩
        rcases mem_assocUpdate.mp hp with ⟨hne, hp'⟩ | ⟨he, hse, _⟩
        · exact Or.inl ⟨g', s', hp', hc⟩
        · subst he; subst hse
          rcases mem_setInsert.mp hc with e | hc'
          · exact Or.inr e
          · exact Or.inl ⟨g', s, hgs, hc'⟩
      · rintro (⟨g', s', hp, hc⟩ | e)
        · by_cases e : g' = g
          · subst e
            have := mem_lookup_of_nodup h.keys hp
            rw [hs] at this; cases this
            exact ⟨g', setInsert a s, mem_assocUpdate.mpr (Or.inr ⟨rfl, rfl, s, hgs⟩),
              mem_setInsert.mpr (Or.inr hc)⟩
          · exact ⟨g', s', mem_assocUpdate.mpr (Or.inl ⟨e, hp⟩), hc⟩
        · subst e
          exact ⟨g, setInsert x s, mem_assocUpdate.mpr (Or.inr ⟨rfl, rfl, s, hgs⟩),
            mem_setInsert.mpr (Or.inl rfl)⟩
    refine ⟨?_, by simp [hall, hav], rfl, hx⟩
    constructor
    · show ((assocUpdate r.available g (setInsert a s)).map Prod.fst).Nodup
      rw [map_fst_assocUpdate]; exact h.keys
    · intro a' g' hi'
      show ∃ s', (assocUpdate r.available g (setInsert a s)).lookup g' = some s'
      obtain ⟨s', hs'⟩ := h.grp a' g' hi'
      rw [lookup_assocUpdate]
      by_cases e : g' = g
      · subst e; rw [if_pos rfl, hs]; exact ⟨_, rfl⟩
      · rw [if_neg e]; exact ⟨s', hs'⟩
    · exact h.reg
    · intro g' s' x hp hc
      show r.index.lookup x = some g'
      rcases mem_assocUpdate.mp hp with ⟨_, hp'⟩ | ⟨he, hse, _⟩
      · exact h.av g' s' x hp' hc
      · subst he; subst hse
        rcases mem_setInsert.mp hc with e | hc'
        · subst e; exact hi
        · exact h.av g' s x hgs hc'
    · intro g' s' hp
      rcases mem_assocUpdate.mp hp with ⟨_, hp'⟩ | ⟨he, hse, _⟩
      · exact h.sets g' s' hp'
      · subst hse; exact nodup_setInsert (h.sets g s hgs)
    · exact h.all

/-! ### `deep_slice` -/

theorem slice_spec {r : Registry} (h : RInv r) (keep : Nat → Bool) :
    RInv (r.deepSlice keep) ∧ (r.deepSlice keep).all = r.all.filter keep ∧
    ∀ x, (r.deepSlice keep).isAvail x = (r.isAvail x && keep x) := by
  have hx : ∀ x, (r.deepSlice keep).isAvail x = (r.isAvail x && keep x) := by
    intro x
    rw [Bool.eq_iff_iff, isAvail_iff, Bool.and_eq_true, isAvail_iff]
    simp only [Registry.deepSlice, List.mem_map]
    constructor
    · rintro ⟨g, s, ⟨⟨g', s'⟩, hp, e⟩, hc⟩
      cases e
      have := List.mem_filter.mp hc
      exact ⟨⟨g', s', hp, this.1⟩, this.2⟩
    · rintro ⟨⟨g, s, hp, hc⟩, hk⟩
      exact ⟨g, s.filter keep, ⟨(g, s), hp, rfl⟩, List.mem_filter.mpr ⟨hc, hk⟩⟩
  refine ⟨?_, rfl, hx⟩
  have hidx : ∀ a, (r.deepSlice keep).index.lookup a = if keep a then r.index.lookup a else none :=
    fun a => lookup_filter_key r.index keep a
  constructor
  · show ((r.available.map (fun p => (p.1, p.2.filter keep))).map Prod.fst).Nodup
    rw [List.map_map]
    exact h.keys
  · intro a g hi
    rw [hidx] at hi
    split at hi
    · obtain ⟨s, hs⟩ := h.grp a g hi
      refine ⟨s.filter keep, ?_⟩
      show (r.available.map (fun p => (p.1, p.2.filter keep))).lookup g = _
      rw [lookup_map_snd, hs]; rfl
    · cases hi
  · intro a
    rw [hidx]
    show _ ↔ a ∈ r.all.filter keep
    rw [List.mem_filter]
    cases hk : keep a
    · simp
    · simp [h.reg a]
  · intro g s' x hp hc
    rw [hidx]
    simp only [Registry.deepSlice, List.mem_map] at hp
    obtain ⟨⟨g', s⟩, hp', e⟩ := hp
    cases e
    have := List.mem_filter.mp hc
    rw [if_pos this.2]
    exact h.av g' s x hp' this.1
  · intro g s' hp
    simp only [Registry.deepSlice, List.mem_map] at hp
    obtain ⟨⟨g', s⟩, hp', e⟩ := hp
    cases e
    exact List.Nodup.sublist List.filter_sublist (h.sets g' s hp')
  · exact List.Nodup.sublist List.filter_sublist h.all

end C14
