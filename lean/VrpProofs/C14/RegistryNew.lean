import VrpProofs.C14.Registry
/-!
# C14 — `Fleet::groups` / `Registry::new` establish the registry invariant
-/
set_option linter.unusedSimpArgs false
set_option linter.unnecessarySimpa false
set_option linter.unusedVariables false

namespace C14

/-- loop invariant of the fold that builds `Fleet::groups`, after the actors `< k` -/
structure GInv (f : Fleet) (k : Nat) (acc : List (Nat × List Nat)) : Prop where
  keys : (acc.map Prod.fst).Nodup
  sets : ∀ g s, (g, s) ∈ acc → s.Nodup
  mem : ∀ g s a, (g, s) ∈ acc → (a ∈ s ↔ a < k ∧ f[a]? = some g)
  ex : ∀ a g, a < k → f[a]? = some g → ∃ s, (g, s) ∈ acc

theorem not_key_of_lookup_none {β} {l : List (Nat × β)} {g : Nat} (h : l.lookup g = none) :
    ∀ s, (g, s) ∉ l := by
  intro s hm
  have := lookup_isSome_of_mem hm
  rw [h] at this; cases this

theorem ginv_step {f : Fleet} {k : Nat} {acc : List (Nat × List Nat)} {g : Nat}
    (h : GInv f k acc) (hk : f[k]? = some g) : GInv f (k + 1) (groupsInsert acc g k) := by
  unfold groupsInsert
  cases hl : acc.lookup g with
  | some s =>
    have hgs : (g, s) ∈ acc := lookup_mem hl
    simp only
    constructor
    · rw [map_fst_assocUpdate]; exact h.keys
    · intro g' s' hp
      rcases mem_assocUpdate.mp hp with ⟨_, hp'⟩ | ⟨_, hse, _⟩
      · exact h.sets g' s' hp'
      · subst hse; exact nodup_setInsert (h.sets g s hgs)
    · intro g' s' a hp
      rcases mem_assocUpdate.mp hp with ⟨hne, hp'⟩ | ⟨he, hse, _⟩
      · rw [h.mem g' s' a hp']
        constructor
        · rintro ⟨h1, h2⟩; exact ⟨by omega, h2⟩
        · rintro ⟨h1, h2⟩
          refine ⟨?_, h2⟩
          by_cases e : a = k
          · subst e; rw [hk] at h2; cases h2; exact absurd rfl hne
          · omega
      · subst he; subst hse
        rw [mem_setInsert, h.mem g' s a hgs]
        constructor
        · rintro (e | ⟨h1, h2⟩)
          · subst e; exact ⟨by omega, hk⟩
          · exact ⟨by omega, h2⟩
        · rintro ⟨h1, h2⟩
          by_cases e : a = k
          · exact Or.inl e
          · exact Or.inr ⟨by omega, h2⟩
    · intro a g' ha hg'
      by_cases e : g' = g
      · subst e; exact ⟨setInsert k s, mem_assocUpdate.mpr (Or.inr ⟨rfl, rfl, s, hgs⟩)⟩
      · have ha' : a < k := by
          by_cases e2 : a = k
          · subst e2; rw [hk] at hg'; cases hg'; exact absurd rfl e
          · omega
        obtain ⟨s', hs'⟩ := h.ex a g' ha' hg'
        exact ⟨s', mem_assocUpdate.mpr (Or.inl ⟨e, hs'⟩)⟩
  | none =>
    have hnk := not_key_of_lookup_none hl
    simp only
    constructor
    · rw [List.map_append, List.nodup_append]
      refine ⟨h.keys, by simp, ?_⟩
      intro x hx y hy
      simp only [List.map_cons, List.map_nil, List.mem_singleton] at hy
      subst hy
      intro e; subst e
      obtain ⟨⟨g', s'⟩, hp, e⟩ := List.mem_map.mp hx
      cases e
      exact hnk s' hp
    · intro g' s' hp
      rcases List.mem_append.mp hp with hp' | hp'
      · exact h.sets g' s' hp'
      · simp only [List.mem_singleton] at hp'; cases hp'; simp
    · intro g' s' a hp
      rcases List.mem_append.mp hp with hp' | hp'
      · have hne : g' ≠ g := by intro e; subst e; exact hnk s' hp'
        rw [h.mem g' s' a hp']
        constructor
        · rintro ⟨h1, h2⟩; exact ⟨by omega, h2⟩
        · rintro ⟨h1, h2⟩
          refine ⟨?_, h2⟩
          by_cases e : a = k
          · subst e; rw [hk] at h2; cases h2; exact absurd rfl hne
          · omega
      · simp only [List.mem_singleton] at hp'; cases hp'
        simp only [List.mem_singleton]
        constructor
        · intro e; subst e; exact ⟨by omega, hk⟩
        · rintro ⟨h1, h2⟩
          by_cases e : a = k
          · exact e
          · obtain ⟨s0, hs0⟩ := h.ex a g (by omega) h2
            exact absurd hs0 (hnk s0)
    · intro a g' ha hg'
      by_cases e2 : a = k
      · subst e2; rw [hk] at hg'; cases hg'
        exact ⟨[a], List.mem_append.mpr (Or.inr (by simp))⟩
      · obtain ⟨s', hs'⟩ := h.ex a g' (by omega) hg'
        exact ⟨s', List.mem_append.mpr (Or.inl hs')⟩

theorem ginv_groupsFrom {f : Fleet} : ∀ (gs : List Nat) (k : Nat) (acc : List (Nat × List Nat)),
    GInv f k acc → gs = f.drop k → GInv f f.length (groupsFrom gs k acc)
  | [], k, acc, h, hd => by
    have hk : f.length ≤ k := by
      have := congrArg List.length hd
      simp at this; omega
    unfold groupsFrom
    constructor
    · exact h.keys
    · exact h.sets
    · intro g s a hp
      rw [h.mem g s a hp]
      constructor
      · rintro ⟨_, h2⟩
        refine ⟨?_, h2⟩
        have := (List.getElem?_eq_some_iff.mp h2).1
        exact this
      · rintro ⟨h1, h2⟩; exact ⟨by omega, h2⟩
    · intro a g ha hg; exact h.ex a g (by omega) hg
  | g :: rest, k, acc, h, hd => by
    unfold groupsFrom
    have hklt : k < f.length := by
      have := congrArg List.length hd
      simp at this; omega
    have hk : f[k]? = some g := by
      have h0 : (f.drop k)[0]? = some g := by rw [← hd]; rfl
      rw [List.getElem?_drop] at h0
      simpa using h0
    have hrest : rest = f.drop (k + 1) := by
      have : (f.drop k).drop 1 = rest := by rw [← hd]; rfl
      rw [← this, List.drop_drop]
    exact ginv_groupsFrom rest (k + 1) _ (ginv_step h hk) hrest

theorem ginv_groups (f : Fleet) : GInv f f.length f.groups := by
  unfold Fleet.groups
  apply ginv_groupsFrom f 0 [] _ (by simp)
  constructor <;> simp

/-- **`Registry::new`: the containers are consistent, every actor of the fleet is registered and available,
    and the available sets are exactly the fleet's groups** -/
theorem new_spec (f : Fleet) :
    RInv (Registry.new f) ∧ (Registry.new f).all = List.range f.length ∧
    (∀ x, (Registry.new f).isAvail x = decide (x < f.length)) ∧
    (∀ g s a, (g, s) ∈ (Registry.new f).available → (a ∈ s ↔ f[a]? = some g)) := by
  have G := ginv_groups f
  have hmem : ∀ g s a, (g, s) ∈ f.groups → (a ∈ s ↔ f[a]? = some g) := by
    intro g s a hp
    rw [G.mem g s a hp]
    constructor
    · exact fun h => h.2
    · intro h; exact ⟨(List.getElem?_eq_some_iff.mp h).1, h⟩
  have hidx : ∀ a g, (a, g) ∈ (Registry.new f).index ↔ ∃ s, (g, s) ∈ f.groups ∧ a ∈ s := by
    intro a g
    simp only [Registry.new, List.mem_flatMap, List.mem_map]
    constructor
    · rintro ⟨⟨g', s⟩, hp, a', ha', e⟩
      cases e; exact ⟨s, hp, ha'⟩
    · rintro ⟨s, hp, ha⟩; exact ⟨(g, s), hp, a, ha, rfl⟩
  have hlook : ∀ a g, (Registry.new f).index.lookup a = some g ↔ f[a]? = some g := by
    intro a g
    constructor
    · intro h
      obtain ⟨s, hp, ha⟩ := (hidx a g).mp (lookup_mem h)
      exact (hmem g s a hp).mp ha
    · intro h
      obtain ⟨s, hp⟩ := G.ex a g (List.getElem?_eq_some_iff.mp h).1 h
      have ha : a ∈ s := (hmem g s a hp).mpr h
      have hsome := lookup_isSome_of_mem ((hidx a g).mpr ⟨s, hp, ha⟩)
      cases hl : (Registry.new f).index.lookup a with
      | none => rw [hl] at hsome; cases hsome
      | some g' =>
        obtain ⟨s', hp', ha'⟩ := (hidx a g').mp (lookup_mem hl)
        have := (hmem g' s' a hp').mp ha'
        rw [h] at this; cases this; rfl
  refine ⟨?_, rfl, ?_, hmem⟩
  · constructor
    · exact G.keys
    · intro a g hi
      have hf := (hlook a g).mp hi
      obtain ⟨s, hp⟩ := G.ex a g (List.getElem?_eq_some_iff.mp hf).1 hf
      exact ⟨s, mem_lookup_of_nodup G.keys hp⟩
    · intro a
      show _ ↔ a ∈ List.range f.length
      rw [List.mem_range]
      constructor
      · intro hs
        cases hl : (Registry.new f).index.lookup a with
        | none => rw [hl] at hs; cases hs
        | some g => exact (List.getElem?_eq_some_iff.mp ((hlook a g).mp hl)).1
      · intro ha
        have : f[a]? = some f[a] := List.getElem?_eq_getElem ha
        rw [(hlook a f[a]).mpr this]; rfl
    · intro g s a hp ha
      exact (hlook a g).mpr ((hmem g s a hp).mp ha)
    · exact G.sets
    · exact List.nodup_range
  · intro x
    rw [Bool.eq_iff_iff, isAvail_iff, decide_eq_true_iff]
    constructor
    · rintro ⟨g, s, hp, hx⟩
      exact (List.getElem?_eq_some_iff.mp ((hmem g s x hp).mp hx)).1
    · intro hx
      have : f[x]? = some f[x] := List.getElem?_eq_getElem hx
      obtain ⟨s, hp⟩ := G.ex x f[x] hx this
      exact ⟨f[x], s, hp, (hmem _ s x hp).mpr this⟩

end C14
