import VrpProofs.C14.RegistryNew
import VrpProofs.C14.Observe
/-!
# C14 — the code-shaped registry / registry context refine the reference registry
-/
set_option linter.unusedSimpArgs false
set_option linter.unnecessarySimpa false
set_option linter.unusedVariables false

namespace C14

/-- the mirror registry `r` represents the reference registry `rr` -/
structure RSim (r : Registry) (rr : RReg) : Prop where
  inv : RInv r
  all : r.all = rr.actors
  avail : ∀ a, r.isAvail a = rr.avail a

theorem contains_filter_ne (l : List Nat) (a x : Nat) :
    (l.filter (fun y => y != a)).contains x = (l.contains x && x != a) := by
  rw [Bool.eq_iff_iff]
  simp [List.contains_iff_mem, List.mem_filter]

theorem contains_filter (l : List Nat) (keep : Nat → Bool) (x : Nat) :
    (l.filter keep).contains x = (l.contains x && keep x) := by
  rw [Bool.eq_iff_iff]
  simp [List.contains_iff_mem, List.mem_filter]

theorem contains_all {r : Registry} {rr : RReg} (h : RSim r rr) (a : Nat) :
    decide (a ∈ r.all) = rr.actors.contains a := by
  rw [h.all, Bool.eq_iff_iff]; simp

theorem rsim_new (f : Fleet) : RSim (Registry.new f) (RReg.new f.length) := by
  obtain ⟨hinv, hall, hav, _⟩ := new_spec f
  refine ⟨hinv, hall, ?_⟩
  intro a
  rw [hav a]
  simp [RReg.avail, RReg.new]

theorem rsim_use {r rr} (h : RSim r rr) (a : Nat) :
    (r.useActor a).2 = (rr.use a).2 ∧ RSim (r.useActor a).1 (rr.use a).1 := by
  obtain ⟨hinv, hres, hall, hav⟩ := use_spec h.inv a
  have hra := h.avail a
  unfold RReg.use
  cases hc : rr.avail a
  · simp only [Bool.false_eq_true, if_false]
    refine ⟨by rw [hres, hra, hc], hinv, by rw [hall, h.all], ?_⟩
    intro x
    rw [hav x, h.avail x]
    by_cases e : x = a
    · subst e; simp [hc]
    · simp [e]
  · simp only [if_true]
    refine ⟨by rw [hres, hra, hc], hinv, by rw [hall, h.all], ?_⟩
    intro x
    rw [hav x, h.avail x]
    simp only [RReg.avail, List.contains_cons]
    cases rr.actors.contains x <;> cases rr.held.contains x <;> cases hx : (x == a) <;> simp [bne, hx]

theorem rsim_free {r rr} (h : RSim r rr) (a : Nat) :
    (r.freeActor a).2 = (rr.free a).2 ∧ RSim (r.freeActor a).1 (rr.free a).1 := by
  obtain ⟨hinv, hres, hall, hav⟩ := free_spec h.inv a
  have hra := h.avail a
  have hca := contains_all h a
  unfold RReg.free
  cases hc : (rr.actors.contains a && rr.held.contains a)
  · simp only [Bool.false_eq_true, if_false]
    refine ⟨?_, hinv, by rw [hall, h.all], ?_⟩
    · rw [hres, hra, hca]
      unfold RReg.avail
      revert hc
      cases rr.actors.contains a <;> cases rr.held.contains a <;> simp
    · intro x
      rw [hav x, h.avail x, hca]
      by_cases e : x = a
      · subst e
        revert hc
        unfold RReg.avail
        cases rr.actors.contains x <;> cases rr.held.contains x <;> simp
      · simp [e]
  · simp only [if_true]
    refine ⟨?_, hinv, by rw [hall, h.all], ?_⟩
    · rw [hres, hra, hca]
      unfold RReg.avail
      revert hc
      cases rr.actors.contains a <;> cases rr.held.contains a <;> simp
    · intro x
      rw [hav x, h.avail x, hca]
      simp only [RReg.avail, contains_filter_ne]
      by_cases e : x = a
      · subst e
        revert hc
        cases rr.actors.contains x <;> cases rr.held.contains x <;> simp
      · have : (x == a) = false := by simpa using e
        simp [this, bne]

theorem rsim_slice {r rr} (h : RSim r rr) (keep : Nat → Bool) :
    RSim (r.deepSlice keep) (rr.slice keep) := by
  obtain ⟨hinv, hall, hav⟩ := slice_spec h.inv keep
  refine ⟨hinv, by rw [hall, h.all]; rfl, ?_⟩
  intro x
  rw [hav x, h.avail x]
  simp only [RReg.avail, RReg.slice, contains_filter]
  cases rr.actors.contains x <;> cases rr.held.contains x <;> cases keep x <;> rfl

/-! ### the enumeration `Registry::available` -/

theorem mem_availableList {r : Registry} {x : Nat} : x ∈ r.availableList ↔ r.isAvail x = true := by
  rw [isAvail_iff]
  unfold Registry.availableList
  rw [List.mem_flatMap]
  constructor
  · rintro ⟨⟨g, s⟩, hp, hx⟩; exact ⟨g, s, hp, hx⟩
  · rintro ⟨g, s, hp, hx⟩; exact ⟨(g, s), hp, hx⟩

theorem nodup_flatMap_groups (grp : Nat → Option Nat) :
    ∀ (l : List (Nat × List Nat)), (l.map Prod.fst).Nodup → (∀ g s, (g, s) ∈ l → s.Nodup) →
      (∀ g s a, (g, s) ∈ l → a ∈ s → grp a = some g) → (l.flatMap Prod.snd).Nodup
  | [], _, _, _ => by simp
  | (g, s) :: l, hk, hs, hg => by
    rw [List.flatMap_cons, List.nodup_append]
    simp only [List.map_cons, List.nodup_cons] at hk
    refine ⟨hs g s (by simp), ?_, ?_⟩
    · exact nodup_flatMap_groups grp l hk.2 (fun g' s' hp => hs g' s' (List.mem_cons_of_mem _ hp))
        (fun g' s' a hp ha => hg g' s' a (List.mem_cons_of_mem _ hp) ha)
    · intro a ha b hb e
      subst e
      obtain ⟨⟨g', s'⟩, hp, ha'⟩ := List.mem_flatMap.mp hb
      have h1 := hg g s a (by simp) ha
      have h2 := hg g' s' a (List.mem_cons_of_mem _ hp) ha'
      rw [h1] at h2; cases h2
      exact hk.1 (List.mem_map.mpr ⟨(g, s'), hp, rfl⟩)

/-- no actor is enumerated twice by `Registry::available` -/
theorem nodup_availableList {r : Registry} (h : RInv r) : r.availableList.Nodup :=
  nodup_flatMap_groups (fun a => r.index.lookup a) r.available h.keys h.sets h.av

theorem observe_of_rsim {r rr} (h : RSim r rr) (isCtx : Bool) (n : Nat) :
    r.observe isCtx = (RObj.reg isCtx rr).observe n := by
  unfold Registry.observe RObj.observe
  rw [h.all]
  congr 1
  apply sortNat_eq_of_perm
  apply perm_of_nodup_of_mem_iff (nodup_availableList h.inv)
  · unfold RReg.availableList
    apply List.Nodup.sublist List.filter_sublist
    rw [← h.all]; exact h.inv.all
  · intro a
    rw [mem_availableList, h.avail a]
    unfold RReg.availableList RReg.avail
    rw [List.mem_filter, Bool.and_eq_true, List.contains_iff_mem]

/-! ### route contexts -/

structure RcSim (c : RouteCtx) (rc : RRoute) : Prop where
  kind : c.kind = rc.kind
  actor : c.actor = rc.actor
  tour : Sim c.tour rc.tour
  stale : c.stale = rc.stale
  st : c.st = rc.st
  cnt : c.cnt = rc.cnt

theorem rcsim_new (k : Kind) (a : Nat) (c : Bool) : RcSim (RouteCtx.new k a c) (RRoute.new k a c) :=
  ⟨rfl, rfl, sim_new c, rfl, rfl, rfl⟩

/-- the prototype kept by a registry context is the reference's "fresh, accepted, empty route" -/
theorem rcsim_proto (a : Nat) (c : Bool) : RcSim (RouteCtx.proto a c) (RRoute.fresh a c) := by
  refine ⟨rfl, rfl, sim_new c, rfl, rfl, ?_⟩
  show some (Tour.new c).jobActivityCount = some 0
  rw [jac_of_sim (sim_new c)]; rfl

theorem observe_of_rcsim {c rc} (h : RcSim c rc) (n : Nat) : c.observe n = rc.observe n := by
  unfold RouteCtx.observe RRoute.observe
  rw [h.kind, h.actor, observe_of_sim h.tour n, h.stale, h.st, h.cnt]

/-! ### `RegistryContext` -/

structure CInv (closedOf : Nat → Bool) (x : RegistryCtx) : Prop where
  reg : RInv x.registry
  idx : ∀ a, x.index.lookup a = if a ∈ x.registry.all then some (RouteCtx.proto a (closedOf a)) else none

theorem cinv_new (closedOf : Nat → Bool) {g : Registry} (h : RInv g) : CInv closedOf (RegistryCtx.new closedOf g) := by
  refine ⟨h, ?_⟩
  intro a
  exact lookup_map_key g.all (fun a => RouteCtx.proto a (closedOf a)) a

/-- `get_route`: a route comes back exactly when the actor is available, it is the empty prototype of
    that very actor, and the registry has marked the actor as used -/
theorem getRoute_spec {closedOf : Nat → Bool} {x : RegistryCtx} (h : CInv closedOf x) (a : Nat) :
    CInv closedOf (x.getRoute a).1 ∧ (x.getRoute a).1.registry = (x.registry.useActor a).1 ∧
    (x.getRoute a).2 = if x.registry.isAvail a then some (RouteCtx.proto a (closedOf a)) else none := by
  obtain ⟨hinv, hres, hall, _⟩ := use_spec h.reg a
  refine ⟨⟨hinv, ?_⟩, rfl, ?_⟩
  · intro b
    show x.index.lookup b = _
    rw [h.idx b]
    show _ = if b ∈ (x.registry.useActor a).1.all then _ else _
    rw [hall]
  · show (if (x.registry.useActor a).2 = true then x.index.lookup a else none) = _
    rw [hres]
    cases hv : x.registry.isAvail a
    · simp
    · simp only [if_true]
      rw [h.idx a, if_pos (mem_all_of_isAvail h.reg hv)]

theorem useRoute_spec {closedOf : Nat → Bool} {x : RegistryCtx} (h : CInv closedOf x) (c : RouteCtx) :
    CInv closedOf (x.useRoute c).1 := by
  obtain ⟨hinv, _, hall, _⟩ := use_spec h.reg c.actor
  refine ⟨hinv, ?_⟩
  intro b
  show x.index.lookup b = if b ∈ (x.registry.useActor c.actor).1.all then _ else _
  rw [hall]; exact h.idx b

theorem freeRoute_spec {closedOf : Nat → Bool} {x : RegistryCtx} (h : CInv closedOf x) (c : RouteCtx) :
    CInv closedOf (x.freeRoute c).1 := by
  obtain ⟨hinv, _, hall, _⟩ := free_spec h.reg c.actor
  refine ⟨hinv, ?_⟩
  intro b
  show x.index.lookup b = if b ∈ (x.registry.freeActor c.actor).1.all then _ else _
  rw [hall]; exact h.idx b

theorem ctxSlice_spec {closedOf : Nat → Bool} {x : RegistryCtx} (h : CInv closedOf x) (keep : Nat → Bool) :
    CInv closedOf (x.deepSlice keep) := by
  obtain ⟨hinv, hall, _⟩ := slice_spec h.reg keep
  refine ⟨hinv, ?_⟩
  intro b
  show (x.index.filter (fun p => keep p.1)).lookup b = if b ∈ (x.registry.deepSlice keep).all then _ else _
  rw [lookup_filter_key, h.idx b, hall]
  by_cases hm : b ∈ x.registry.all <;> cases hk : keep b <;> simp [List.mem_filter, hm, hk]

/-- `next_route` never hits the `index[&actor]` panic for actors the registry offers -/
theorem nextRoute_total {closedOf : Nat → Bool} {x : RegistryCtx} (h : CInv closedOf x) (picks : List Nat)
    (hp : ∀ a ∈ picks, x.registry.isAvail a = true) :
    x.nextRoute picks = some (picks.map (fun a => (a, RouteCtx.proto a (closedOf a)))) := by
  unfold RegistryCtx.nextRoute
  induction picks with
  | nil => rfl
  | cons a l ih =>
    rw [List.mapM_cons, ih (fun b hb => hp b (List.mem_cons_of_mem _ hb))]
    rw [h.idx a, if_pos (mem_all_of_isAvail h.reg (hp a (by simp)))]
    rfl

end C14
