import VrpProofs.C14.Lists
/-!
# C14 — the code-shaped tour refines the reference tour

`Sim t r`: the mirror tour `t` (activity vector + separately maintained job set + closed flag)
represents the reference tour `r` (list of job activities + closed flag).
-/
set_option linter.unusedSimpArgs false
set_option linter.unnecessarySimpa false
set_option linter.unusedVariables false

namespace C14

def jobAct (p : Nat × Nat) : Act := Act.job p.1 p.2
def ends (c : Bool) : List Act := if c then [Act.finish] else []

theorem render_eq (r : RTour) : r.render = Act.start :: (r.mid.map jobAct ++ ends r.closed) := by
  rfl

theorem length_ends (c : Bool) : (ends c).length = if c then 1 else 0 := by
  cases c <;> rfl

theorem length_render (r : RTour) : r.render.length = r.mid.length + 1 + (if r.closed then 1 else 0) := by
  rw [render_eq]; simp [length_ends]; omega

structure Sim (t : Tour) (r : RTour) : Prop where
  acts : t.acts = r.render
  closed : t.closed = r.closed
  nodup : t.jobs.Nodup
  mem : ∀ j, j ∈ t.jobs ↔ j ∈ r.mid.map Prod.fst

/-- the invariant of the property statement: the tour represents *some* list of job activities -/
def Tour.WF (t : Tour) : Prop := ∃ r, Sim t r

theorem sim_new (c : Bool) : Sim (Tour.new c) (RTour.new c) := by
  constructor
  · cases c <;> rfl
  · rfl
  · simp [Tour.new]
  · intro j; simp [Tour.new, RTour.new]

theorem jac_of_sim {t r} (h : Sim t r) : t.jobActivityCount = r.mid.length := by
  unfold Tour.jobActivityCount
  rw [h.acts, h.closed]
  have := length_render r
  have hne : r.render.isEmpty = false := by rw [render_eq]; rfl
  rw [hne]
  cases hc : r.closed <;> simp [hc] at this ⊢ <;> omega

theorem total_of_sim {t r} (h : Sim t r) :
    t.total = r.mid.length + 1 + (if r.closed then 1 else 0) := by
  unfold Tour.total; rw [h.acts]; exact length_render r

/-! ### operations -/

theorem sim_insertAt {t r} (h : Sim t r) {j s i : Nat} {r' : RTour} (hr : r.insertAt j s i = some r') :
    (t.insertAtRaw (Act.job j s) i).2 = false ∧ Sim (t.insertAtRaw (Act.job j s) i).1 r' := by
  unfold RTour.insertAt at hr
  split at hr
  case isFalse => cases hr
  case isTrue hi =>
    cases hr
    have hlen := length_render r
    have hne : t.acts.isEmpty = false := by rw [h.acts, render_eq]; rfl
    have hle : ¬ i > t.acts.length := by rw [h.acts]; omega
    obtain ⟨k, hk⟩ : ∃ k, i = k + 1 := ⟨i - 1, by omega⟩
    subst hk
    have hkl : k ≤ r.mid.length := by omega
    simp only [Tour.insertAtRaw, Act.jobId?, hne, hle, if_false, Bool.false_eq_true]
    refine ⟨by trivial, ?_⟩
    constructor
    · show vecInsert t.acts (k + 1) (Act.job j s) = _
      rw [h.acts, render_eq, render_eq, vecInsert_cons_succ]
      simp only [Nat.add_sub_cancel]
      rw [vecInsert_append_left _ _ _ _ (by simpa using hkl), map_vecInsert]
      rfl
    · exact h.closed
    · exact nodup_setInsert h.nodup
    · intro x
      simp only [Nat.add_sub_cancel, map_vecInsert]
      rw [mem_setInsert, mem_vecInsert, h.mem]

theorem insertLast_eq_insertAt (r : RTour) (j s : Nat) :
    r.insertAt j s (r.mid.length + 1) = some (r.insertLast j s) := by
  unfold RTour.insertAt RTour.insertLast
  have : 1 ≤ r.mid.length + 1 ∧ r.mid.length + 1 ≤ r.mid.length + 1 := ⟨by omega, by omega⟩
  rw [if_pos this]
  simp [vecInsert_length_eq]

theorem sim_insertLast {t r} (h : Sim t r) (j s : Nat) :
    (t.insertLastRaw (Act.job j s)).2 = false ∧ Sim (t.insertLastRaw (Act.job j s)).1 (r.insertLast j s) := by
  unfold Tour.insertLastRaw
  rw [jac_of_sim h]
  exact sim_insertAt h (insertLast_eq_insertAt r j s)

theorem hasJob_jobAct (j : Nat) (p : Nat × Nat) : Act.hasJob j (jobAct p) = (p.1 == j) := by
  simp [Act.hasJob, jobAct, Act.jobId?]

theorem filter_render_not (r : RTour) (j : Nat) :
    r.render.filter (fun a => !a.hasJob j) = ({ r with mid := r.mid.filter (fun p => p.1 != j) } : RTour).render := by
  rw [render_eq, render_eq]
  have hs : ∀ l, List.filter (fun a => !a.hasJob j) (Act.start :: l)
      = Act.start :: List.filter (fun a => !a.hasJob j) l := fun l => rfl
  have he : (ends r.closed).filter (fun a => !a.hasJob j) = ends r.closed := by
    cases r.closed <;> rfl
  rw [hs, List.filter_append, he]
  congr 2
  rw [List.filter_map]
  show List.map jobAct _ = List.map jobAct (List.filter (fun p => p.fst != j) r.mid)
  congr 1

theorem sim_remove {t r} (h : Sim t r) (j : Nat) :
    (t.remove j).2 = (r.remove j).2 ∧ Sim (t.remove j).1 (r.remove j).1 := by
  constructor
  · show t.jobs.contains j = r.mid.any (fun p => p.1 == j)
    rw [Bool.eq_iff_iff]
    simp only [List.contains_iff_mem, List.any_eq_true]
    rw [h.mem]
    simp only [List.mem_map]
    constructor
    · rintro ⟨p, hp, e⟩; exact ⟨p, hp, by simpa using e⟩
    · rintro ⟨p, hp, e⟩; exact ⟨p, hp, by simpa using e⟩
  · constructor
    · show t.acts.filter (fun a => !a.hasJob j) = _
      rw [h.acts, filter_render_not]; rfl
    · exact h.closed
    · exact nodup_setRemove h.nodup
    · intro x
      show x ∈ setRemove j t.jobs ↔ x ∈ (r.mid.filter (fun p => p.1 != j)).map Prod.fst
      rw [mem_setRemove, h.mem]
      simp only [List.mem_map, List.mem_filter]
      constructor
      · rintro ⟨⟨p, hp, e⟩, hx⟩
        exact ⟨p, ⟨hp, by subst e; simpa using hx⟩, e⟩
      · rintro ⟨p, ⟨hp, hj⟩, e⟩
        exact ⟨⟨p, hp, e⟩, by subst e; simpa using hj⟩

theorem render_getElem?_zero (r : RTour) : r.render[0]? = some Act.start := by
  rw [render_eq]; rfl

theorem render_getElem?_succ (r : RTour) (k : Nat) :
    r.render[k + 1]? = if k < r.mid.length then (r.mid[k]?).map jobAct else (ends r.closed)[k - r.mid.length]? := by
  rw [render_eq, List.getElem?_cons_succ, List.getElem?_append]
  simp only [List.length_map, List.getElem?_map]

theorem sim_removeAt {t r} (h : Sim t r) (i : Nat) :
    (t.removeActivityAt i).2 = (r.removeActivityAt i).2 ∧ Sim (t.removeActivityAt i).1 (r.removeActivityAt i).1 := by
  unfold Tour.removeActivityAt RTour.removeActivityAt
  rw [h.acts]
  cases i with
  | zero =>
    rw [render_getElem?_zero]
    simp only [Act.jobId?, if_pos]
    exact ⟨by trivial, h⟩
  | succ k =>
    rw [render_getElem?_succ]
    simp only [Nat.succ_ne_zero, if_false, Nat.add_sub_cancel]
    by_cases hk : k < r.mid.length
    · rw [if_pos hk]
      have hg : r.mid[k]? = some r.mid[k] := List.getElem?_eq_getElem hk
      rw [hg]
      simp only [Option.map_some, jobAct, Act.jobId?]
      exact ⟨by trivial, (sim_remove h _).2⟩
    · rw [if_neg hk]
      have hg : r.mid[k]? = none := List.getElem?_eq_none (by omega)
      rw [hg]
      cases hc : r.closed
      · simp only [ends, Bool.false_eq_true, if_false, List.getElem?_nil]
        exact ⟨by trivial, h⟩
      · simp only [ends, if_true]
        cases hz : k - r.mid.length with
        | zero => simp only [List.getElem?_cons_zero, Act.jobId?]; exact ⟨by trivial, h⟩
        | succ m => simp only [List.getElem?_cons_succ, List.getElem?_nil]; exact ⟨by trivial, h⟩

end C14
