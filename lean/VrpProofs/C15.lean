import VrpModel.C15
/-!
# C15 — the result of parallel evaluation does not depend on how the work is split

For EVERY split tree (every thread count, pool layout, steal order that rayon's `fold().reduce()`
contract allows) the cost of the chosen insertion equals the minimum of a sequential scan — provided
the pruning is sound (`PruneSound`: the route-level cost is a lower bound of the full cost, which holds
when activity-level cost estimates are non-negative). Without that hypothesis the statement is false
(`prune_unsound_witness`), which is the reproduced deviation S9 (non-metric distances).
-/
set_option linter.unusedSimpArgs false
set_option linter.unnecessarySimpa false

namespace C15

variable {κ : Type} (le : κ → κ → Bool)

/-- the cost comparison is a linear order (C09 proves it for the lexicographic order of cost vectors) -/
structure LinOrd : Prop where
  total : ∀ a b, le a b = true ∨ le b a = true
  trans : ∀ a b c, le a b = true → le b c = true → le a c = true
  antisymm : ∀ a b, le a b = true → le b a = true → a = b

variable {le}

theorem best_none_left (a : Option κ) : best le none a = a := by cases a <;> rfl
theorem best_none_right (a : Option κ) : best le a none = a := by cases a <;> rfl

theorem le_refl' (h : LinOrd le) (a : κ) : le a a = true := by
  rcases h.total a a with h1 | h1 <;> exact h1

theorem best_assoc (h : LinOrd le) (a b c : Option κ) :
    best le (best le a b) c = best le a (best le b c) := by
  cases a with
  | none => simp [best_none_left]
  | some x =>
    cases b with
    | none => simp [best_none_left, best_none_right]
    | some y =>
      cases c with
      | none => simp [best_none_right]
      | some z =>
        simp only [best]
        by_cases hxy : le x y = true
        · by_cases hyz : le y z = true
          · have hxz := h.trans x y z hxy hyz
            simp [hxy, hyz, hxz]
          · simp [hxy, hyz]
        · by_cases hyz : le y z = true
          · simp [hxy, hyz]
          · have hyx : le y x = true := by
              rcases h.total x y with h1 | h1
              · exact absurd h1 hxy
              · exact h1
            have hxz : ¬ le x z = true := fun hc => hyz (h.trans y x z hyx hc)
            simp [hxy, hyz, hxz]

theorem foldl_best_init (h : LinOrd le) (i : Option κ) (xs : List (Option κ)) :
    xs.foldl (best le) i = best le i (xs.foldl (best le) none) := by
  induction xs generalizing i with
  | nil => simp [best_none_right]
  | cons x xs ih =>
    simp only [List.foldl_cons]
    rw [ih, ih (best le none x), best_none_left, best_assoc h]

theorem minOpt_append (h : LinOrd le) (xs ys : List (Option κ)) :
    minOpt le (xs ++ ys) = best le (minOpt le xs) (minOpt le ys) := by
  unfold minOpt
  rw [List.foldl_append, foldl_best_init h]

/-- **split invariance without pruning**: for every split tree the fold/reduce of "evaluate and keep
    the best" is the sequential minimum -/
theorem foldReduce_split_invariant {α : Type} (h : LinOrd le) (ev : α → Option κ) (s : Split) (xs : List α) :
    foldReduce none (fun acc x => best le acc (ev x)) (best le) s xs = minOpt le (xs.map ev) := by
  induction s generalizing xs with
  | leaf => simp [foldReduce, minOpt, List.foldl_map]
  | node k l r ihl ihr =>
    simp only [foldReduce, ihl, ihr]
    rw [← minOpt_append h, ← List.map_append, List.take_append_drop]
  | withId s ih => simp [foldReduce, ih, best_none_left]

/-! ### with the `alternative` pruning of `eval_job_insertion_in_route` -/

/-- the route-level cost never exceeds the full cost of an insertion into that route (true when the
    activity-level estimates are non-negative: `full = routeCost + activity part`) -/
def PruneSound (it : Item κ) : Prop := ∀ c, it.full = some c → le it.routeCost c = true

/-- under `PruneSound` the pruned step is just "keep the better of the two" -/
theorem stepPruned_eq_best (h : LinOrd le) (alt : Option κ) (it : Item κ) (hp : PruneSound (le := le) it) :
    stepPruned le alt it = best le alt it.full := by
  unfold stepPruned
  cases alt with
  | none => simp [best_none_left]
  | some a =>
    simp only
    by_cases hpr : (le a it.routeCost && !le it.routeCost a) = true
    · rw [if_pos hpr]
      simp only [Bool.and_eq_true, Bool.not_eq_true'] at hpr
      cases hf : it.full with
      | none => rfl
      | some c =>
        have := h.trans a it.routeCost c hpr.1 (hp c hf)
        simp [best, this]
    · rw [if_neg hpr]
      cases hf : it.full with
      | none => rfl
      | some c => simp [best]

/-- **C15 (model)**: with sound pruning, for EVERY split of the work list the cost chosen by the
    parallel evaluation is the minimum of the sequential scan over all (route, job) pairs -/
theorem evaluate_all_split_invariant (h : LinOrd le) (s : Split) (items : List (Item κ))
    (hp : ∀ it ∈ items, PruneSound (le := le) it) :
    foldReduce none (stepPruned le) (best le) s items = minOpt le (items.map (·.full)) := by
  have key : ∀ (xs : List (Item κ)), (∀ it ∈ xs, PruneSound (le := le) it) → ∀ acc,
      xs.foldl (stepPruned le) acc = xs.foldl (fun acc x => best le acc x.full) acc := by
    intro xs
    induction xs with
    | nil => intro _ _; rfl
    | cons x xs ih =>
      intro hx acc
      simp only [List.foldl_cons]
      rw [stepPruned_eq_best h acc x (hx x (by simp))]
      exact ih (fun it hit => hx it (List.mem_cons_of_mem _ hit)) _
  induction s generalizing items with
  | leaf =>
    simp only [foldReduce]
    rw [key items hp]
    simp [minOpt, List.foldl_map]
  | node k l r ihl ihr =>
    simp only [foldReduce]
    rw [ihl _ (fun it hit => hp it (List.mem_of_mem_take hit)),
        ihr _ (fun it hit => hp it (List.mem_of_mem_drop hit))]
    rw [← minOpt_append h, ← List.map_append, List.take_append_drop]
  | withId s ih =>
    simp only [foldReduce]
    rw [ih items hp, best_none_left]

/-- the integer order is an instance (single-layer cost) -/
theorem intLinOrd : LinOrd (fun (a b : Int) => decide (a ≤ b)) := by
  constructor
  · intro a b; simp; omega
  · intro a b c; simp; omega
  · intro a b; simp; omega

/-- **without `PruneSound` the result depends on the split** (deviation S9): the same two items give 3
    in one sequential chunk and the true minimum 2 when each item is its own chunk -/
theorem prune_unsound_witness :
    ∃ (items : List (Item Int)),
      foldReduce none (stepPruned (fun a b => decide (a ≤ b))) (best (fun a b => decide (a ≤ b))) .leaf items = some 3 ∧
      foldReduce none (stepPruned (fun a b => decide (a ≤ b))) (best (fun a b => decide (a ≤ b)))
        (.node 1 .leaf .leaf) items = some 2 := by
  refine ⟨[⟨some 3, 3⟩, ⟨some 2, 5⟩], ?_, ?_⟩ <;> decide

/-- non-vacuity: three items with sound pruning, any of the splits below gives the minimum 2 -/
example : foldReduce none (stepPruned (fun (a b : Int) => decide (a ≤ b))) (best (fun a b => decide (a ≤ b)))
    (.node 2 (.withId .leaf) (.node 0 .leaf .leaf)) [⟨some 4, 1⟩, ⟨none, 0⟩, ⟨some 2, 2⟩] = some 2 := by decide

end C15
