import VrpProofs.C16.Accepts
/-!
# C16 — property theorems: routing-cost providers return exactly the supplied data

Model: `VrpModel/C16.lean` (mirrors `costs.rs`, `fleet_reader.rs`, `validation/routing.rs`, scientific `routing.rs`).
Numbers are exact (`Int` entries and timestamps, `Rat` query times, scales and results); `f64` rounding is outside
the model. Helper lemmas live in `VrpProofs/C16/*.lean`.

Hypotheses that remain (each comes with a witness that the statement fails without it):
* **S12a** `from, to < n` — for `to ≥ n` the flat index lands in another row (`index_boundary_witness`);
* **S28u** every matrix name is a fleet profile — a set in which *no* name is a fleet profile is mapped by list position
  like unnamed matrices: documented positional behaviour, pinned by the repository's own `fleet_reader_test`
  (`reader_all_unknown_is_positional`); *mixes* of fleet profile names and other names are rejected since 83519b0
  (`mixed_known_names_rejected_noMix`; `reader_positional_witness` keeps the old behaviour as the regression variant
  `ReaderMode.positional`).
Former hypotheses that the repaired code (0684041, c805ac8, a68e4cc) now guarantees by itself: square matrices (D1),
pairwise different `u64` keys within a profile (D2) — both are consequences of `build ms = .ok pr` (`build_ok`,
`build_timed`, `awareCtx_of_build`) — and the unknown location's index behind the matrix (D3, `customIndex_outside`).
-/
set_option linter.unusedSimpArgs false
set_option linter.unusedVariables false

namespace C16

/-! ## flat index -/

/-- **index_in_range_partial**: for `from, to < n` the flat index addresses an entry of the `n × n` matrix, and
    different pairs address different entries. Partial: `to ≥ n` is excluded (see the witness below). -/
theorem index_in_range_partial (n frm dst frm' dst' : Nat) (hf : frm < n) (ht : dst < n) (hf' : frm' < n) (ht' : dst' < n) :
    flatIdx n frm dst < n * n ∧ (flatIdx n frm dst = flatIdx n frm' dst' → frm = frm' ∧ dst = dst') :=
  ⟨flatIdx_lt n frm dst hf ht, flatIdx_inj n frm dst frm' dst' ht ht'⟩

/-- S12a: with `n = 2` the pair `(0, 2)` addresses the entry of `(1, 0)` -/
theorem index_boundary_witness : flatIdx 2 0 2 = flatIdx 2 1 0 ∧ flatIdx 2 0 2 < 2 * 2 := by decide

example : flatIdx 3 1 2 < 3 * 3 ∧ (flatIdx 3 1 2 = flatIdx 3 2 1 → False) := by decide

/-! ## time-agnostic routing -/

/-- **agnostic_returns_entry**: an accepted untimed set answers `(profile, from, to)` — at any time, with any
    fallback — with the entry at `(from, to)` of the matrix carrying the vehicle's profile index: the duration
    multiplied by the vehicle's scale, the distance as supplied (`n = pr.size`; every matrix is `n × n`). -/
theorem agnostic_returns_entry (ms : List MatrixData) (pr : Provider) (hb : build ms = .ok pr)
    (hunt : ∀ m ∈ ms, m.timestamp = none)
    (m : MatrixData) (hm : m ∈ ms) (p : Profile) (hp : p.index = m.index)
    (frm dst : Nat) (hf : frm < pr.size) (hd : dst < pr.size) (t : Rat) (fb : Fallback) :
    m.durations.length = pr.size * pr.size ∧ m.distances.length = pr.size * pr.size ∧
    ∃ du di, entryDur m pr.size frm dst = some du ∧ entryDist m pr.size frm dst = some di ∧
      pr.duration fb p frm dst t = some ((du : Rat) * p.scale) ∧ pr.distance fb p frm dst t = some (di : Rat) := by
  obtain ⟨_, hlenAll, hsq, _⟩ := build_ok ms pr hb
  obtain ⟨hpr, hrange⟩ := build_untimed ms pr hb hunt
  have hlen := hlenAll m hm
  obtain ⟨du, hdu⟩ := entry_exists m.durations pr.size frm dst (hsq m hm) hf hd
  obtain ⟨di, hdi⟩ := entry_exists m.distances pr.size frm dst (by rw [hlen]; exact hsq m hm) hf hd
  have hpos := agnostic_position ms hrange m hm
  rw [← hp] at hpos
  refine ⟨hsq m hm, by rw [hlen]; exact hsq m hm, du, di, hdu, hdi, ?_⟩
  obtain ⟨h1, h2⟩ := agnostic_unfold pr.size (sortByIndex ms) fb p frm dst t m hpos
  have e1 : durAt m (flatIdx pr.size frm dst) = some (du : Rat) := by
    unfold durAt flatIdx; rw [hdu]; rfl
  have e2 : distAt m (flatIdx pr.size frm dst) = some (di : Rat) := by
    unfold distAt flatIdx; rw [hdi]; rfl
  rw [e1] at h1
  rw [e2] at h2
  have k1 := congrArg (fun q : Provider => q.duration fb p frm dst t) hpr
  have k2 := congrArg (fun q : Provider => q.distance fb p frm dst t) hpr
  exact ⟨by rw [k1, h1]; rfl, by rw [k2, h2]; rfl⟩

/-- **scale_only_on_duration**: the vehicle's scale multiplies the duration and nothing else — a query with scale `s`
    is the query with scale 1 times `s`; the distance does not depend on the scale. All providers, all inputs. -/
theorem scale_only_on_duration (pr : Provider) (fb : Fallback) (i : Nat) (s : Rat) (frm dst : Nat) (t : Rat) :
    pr.duration fb ⟨i, s⟩ frm dst t = (pr.duration fb ⟨i, 1⟩ frm dst t).map (· * s) ∧
    pr.distance fb ⟨i, s⟩ frm dst t = pr.distance fb ⟨i, 1⟩ frm dst t := by
  cases pr with
  | agnostic size mats =>
    unfold Provider.duration Provider.distance
    simp only
    cases mats[i]? with
    | none => exact ⟨by simp, by simp⟩
    | some m =>
      simp only
      cases orFallback (durAt m (flatIdx size frm dst)) (fb.map (·.1)) with
      | none => exact ⟨by simp, by simp⟩
      | some x => simp
  | aware size ms =>
    unfold Provider.duration Provider.distance
    simp only
    cases groupOf ms i with
    | nil => exact ⟨by simp, by simp⟩
    | cons x g =>
      simp only
      cases orFallback (interpDurationRaw (sortByKey (x :: g)) (flatIdx size frm dst) t) (fb.map (·.1)) with
      | none => exact ⟨by simp, by simp⟩
      | some y => simp

/-- **same_for_all_vehicles_of_profile**: two vehicles with the same profile index see the same distance, and
    durations in the proportion of their scales. -/
theorem same_for_all_vehicles_of_profile (pr : Provider) (fb : Fallback) (p q : Profile) (hpq : p.index = q.index)
    (frm dst : Nat) (t : Rat) :
    pr.distance fb p frm dst t = pr.distance fb q frm dst t ∧
    (pr.duration fb p frm dst t).map (· * q.scale) = (pr.duration fb q frm dst t).map (· * p.scale) := by
  obtain ⟨pi, ps⟩ := p
  obtain ⟨qi, qs⟩ := q
  simp only at hpq
  subst hpq
  obtain ⟨h1, h2⟩ := scale_only_on_duration pr fb pi ps frm dst t
  obtain ⟨h3, h4⟩ := scale_only_on_duration pr fb pi qs frm dst t
  refine ⟨by rw [h2, h4], ?_⟩
  rw [h1, h3]
  cases pr.duration fb ⟨pi, 1⟩ frm dst t with
  | none => rfl
  | some x => simp only [Option.map_some]; congr 1; ring

/-! ## time-aware routing -/

/-- the setting of the time-aware theorems: an accepted set with timestamps, `n × n` matrices, and pairwise different
    `u64` keys among the matrices supplied for the vehicle's profile. Since 0684041 / c805ac8 the last two follow from
    the first two with `n = pr.size` (`awareCtx_of_build` below): the theorems hold for every accepted timed set. -/
structure AwareCtx (ms : List MatrixData) (pr : Provider) (n : Nat) (p : Profile) : Prop where
  built : build ms = .ok pr
  timed : ∃ m ∈ ms, m.timestamp.isSome = true
  square : ∀ m ∈ ms, m.durations.length = n * n
  distinct : DistinctKeys (supplied ms p.index)

/-- every accepted timed set is in the setting of the time-aware theorems, for every profile -/
theorem awareCtx_of_build (ms : List MatrixData) (pr : Provider) (hb : build ms = .ok pr)
    (ht : ∃ m ∈ ms, m.timestamp.isSome = true) (p : Profile) : AwareCtx ms pr pr.size p :=
  ⟨hb, ht, (build_ok ms pr hb).2.2.1, (build_timed ms pr hb ht).2.2.2 p.index⟩

theorem AwareCtx.provider {ms pr n p} (c : AwareCtx ms pr n p) : pr = .aware n ms := by
  have := (build_timed ms pr c.built c.timed).1
  rw [build_size ms pr c.built n c.square] at this
  exact this

theorem AwareCtx.entries {ms pr n p} (c : AwareCtx ms pr n p) (m : MatrixData) (hm : m ∈ supplied ms p.index)
    (frm dst : Nat) (hf : frm < n) (hd : dst < n) :
    ∃ du di, entryDur m n frm dst = some du ∧ entryDist m n frm dst = some di ∧
      durAt m (flatIdx n frm dst) = some (du : Rat) ∧ distAt m (flatIdx n frm dst) = some (di : Rat) := by
  have hmm : m ∈ ms := (List.mem_filter.mp hm).1
  have hlen := (build_ok ms pr c.built).2.1 m hmm
  obtain ⟨du, hdu⟩ := entry_exists m.durations n frm dst (c.square m hmm) hf hd
  obtain ⟨di, hdi⟩ := entry_exists m.distances n frm dst (by rw [hlen]; exact c.square m hmm) hf hd
  refine ⟨du, di, hdu, hdi, ?_, ?_⟩
  · unfold durAt flatIdx; rw [hdu]; rfl
  · unfold distAt flatIdx; rw [hdi]; rfl

theorem keyOfRat_intCast (ts : Int) : keyOfRat (ts : Rat) = keyOfInt ts := by
  unfold keyOfRat; rw [Rat.floor_intCast]

/-- **aware_at_timestamp**: a query whose time has the `u64` key of a supplied matrix (in particular: the query time
    *is* the matrix timestamp) is answered with that matrix' entry — duration times scale, distance unscaled. -/
theorem aware_at_timestamp {ms pr n p} (c : AwareCtx ms pr n p) (m : MatrixData) (hm : m ∈ supplied ms p.index)
    (t : Rat) (hk : m.key = keyOfRat t) (frm dst : Nat) (hf : frm < n) (hd : dst < n) (fb : Fallback) :
    ∃ du di, entryDur m n frm dst = some du ∧ entryDist m n frm dst = some di ∧
      pr.duration fb p frm dst t = some ((du : Rat) * p.scale) ∧ pr.distance fb p frm dst t = some (di : Rat) := by
  obtain ⟨du, di, hdu, hdi, e1, e2⟩ := c.entries m hm frm dst hf hd
  have hg : groupOf ms p.index ≠ [] := fun e => by
    have : m ∈ groupOf ms p.index := hm
    rw [e] at this; simp at this
  obtain ⟨h1, h2⟩ := aware_unfold n ms fb p frm dst t hg
  obtain ⟨s1, s2⟩ := select_exact (groupOf ms p.index) c.distinct t m hm hk (flatIdx n frm dst)
  refine ⟨du, di, hdu, hdi, ?_, ?_⟩
  · rw [c.provider, h1, s1, e1]; rfl
  · rw [c.provider, h2, s2, e2]; rfl

/-- the special case the property names: the query time is the matrix timestamp itself -/
theorem aware_at_matrix_timestamp {ms pr n p} (c : AwareCtx ms pr n p) (m : MatrixData) (hm : m ∈ supplied ms p.index)
    (ts : Int) (hts : m.timestamp = some ts) (frm dst : Nat) (hf : frm < n) (hd : dst < n) (fb : Fallback) :
    ∃ du di, entryDur m n frm dst = some du ∧ entryDist m n frm dst = some di ∧
      pr.duration fb p frm dst (ts : Rat) = some ((du : Rat) * p.scale) ∧
      pr.distance fb p frm dst (ts : Rat) = some (di : Rat) := by
  apply aware_at_timestamp c m hm (ts : Rat) _ frm dst hf hd fb
  rw [keyOfRat_intCast]
  unfold MatrixData.key
  rw [hts]; rfl

/-- **aware_outside_span**: before the first matrix the first one answers, after the last matrix the last one. -/
theorem aware_outside_span {ms pr n p} (c : AwareCtx ms pr n p) (e : MatrixData) (he : e ∈ supplied ms p.index)
    (t : Rat)
    (hout : (∀ x ∈ supplied ms p.index, keyOfRat t < x.key ∧ e.key ≤ x.key) ∨
            (∀ x ∈ supplied ms p.index, x.key < keyOfRat t ∧ x.key ≤ e.key))
    (frm dst : Nat) (hf : frm < n) (hd : dst < n) (fb : Fallback) :
    ∃ du di, entryDur e n frm dst = some du ∧ entryDist e n frm dst = some di ∧
      pr.duration fb p frm dst t = some ((du : Rat) * p.scale) ∧ pr.distance fb p frm dst t = some (di : Rat) := by
  obtain ⟨du, di, hdu, hdi, e1, e2⟩ := c.entries e he frm dst hf hd
  have hg : groupOf ms p.index ≠ [] := fun h => by
    have : e ∈ groupOf ms p.index := he
    rw [h] at this; simp at this
  obtain ⟨h1, h2⟩ := aware_unfold n ms fb p frm dst t hg
  have hsel : interpDurationRaw (sortByKey (groupOf ms p.index)) (flatIdx n frm dst) t = durAt e (flatIdx n frm dst) ∧
      interpDistanceRaw (sortByKey (groupOf ms p.index)) (flatIdx n frm dst) t = distAt e (flatIdx n frm dst) := by
    rcases hout with h | h
    · exact select_first (groupOf ms p.index) c.distinct t e he (fun x hx => (h x hx).1) (fun x hx => (h x hx).2) _
    · exact select_last (groupOf ms p.index) c.distinct t e he (fun x hx => (h x hx).1) (fun x hx => (h x hx).2) _
  refine ⟨du, di, hdu, hdi, ?_, ?_⟩
  · rw [c.provider, h1, hsel.1, e1]; rfl
  · rw [c.provider, h2, hsel.2, e2]; rfl

/-- two supplied matrices with no other key between theirs -/
structure Bracket (g : List MatrixData) (l r : MatrixData) : Prop where
  left_mem : l ∈ g
  right_mem : r ∈ g
  adjacent : ∀ x ∈ g, x.key ≤ l.key ∨ r.key ≤ x.key

/-- the core of the in-between case: the left distance, and the straight line through the two bracketing durations -/
theorem aware_between {ms pr n p} (c : AwareCtx ms pr n p) (l r : MatrixData) (hb : Bracket (supplied ms p.index) l r)
    (t : Rat) (hlk : l.key < keyOfRat t) (hkr : keyOfRat t < r.key)
    (frm dst : Nat) (hf : frm < n) (hd : dst < n) (fb : Fallback) :
    ∃ lv rv dl, entryDur l n frm dst = some lv ∧ entryDur r n frm dst = some rv ∧ entryDist l n frm dst = some dl ∧
      pr.duration fb p frm dst t =
        some (lineThrough (l.timestamp.getD 0 : Int) lv (r.timestamp.getD 0 : Int) rv t * p.scale) ∧
      pr.distance fb p frm dst t = some (dl : Rat) := by
  obtain ⟨lv, dl, hlv, hdl, e1, e2⟩ := c.entries l hb.left_mem frm dst hf hd
  obtain ⟨rv, dr, hrv, hdr, e3, e4⟩ := c.entries r hb.right_mem frm dst hf hd
  have hg : groupOf ms p.index ≠ [] := fun h => by
    have : l ∈ groupOf ms p.index := hb.left_mem
    rw [h] at this; simp at this
  obtain ⟨h1, h2⟩ := aware_unfold n ms fb p frm dst t hg
  have hmax : ∀ x ∈ groupOf ms p.index, x.key < keyOfRat t → x.key ≤ l.key := fun x hx hxk => by
    rcases hb.adjacent x hx with h | h
    · exact h
    · omega
  have hmin : ∀ x ∈ groupOf ms p.index, keyOfRat t < x.key → r.key ≤ x.key := fun x hx hxk => by
    rcases hb.adjacent x hx with h | h
    · omega
    · exact h
  have hnone : ∀ x ∈ groupOf ms p.index, x.key ≠ keyOfRat t := fun x hx => by
    rcases hb.adjacent x hx with h | h <;> omega
  obtain ⟨s1, s2⟩ := select_between (groupOf ms p.index) c.distinct t l r hb.left_mem hb.right_mem hlk hkr hmax hmin
    hnone (flatIdx n frm dst)
  have hts : ((l.timestamp.getD 0 : Int) : Rat) ≠ ((r.timestamp.getD 0 : Int) : Rat) := by
    apply key_ne_imp_ts_ne
    show l.key ≠ r.key
    omega
  refine ⟨lv, rv, dl, hlv, hrv, hdl, ?_, ?_⟩
  · rw [c.provider, h1, s1, e1, e3]
    simp only
    rw [code_formula_eq_line _ _ _ _ _ hts]
    rfl
  · rw [c.provider, h2, s2, e2]; rfl

/-- **aware_distance_left**: between two matrices the distance is the left (earlier) matrix' entry. -/
theorem aware_distance_left {ms pr n p} (c : AwareCtx ms pr n p) (l r : MatrixData) (hb : Bracket (supplied ms p.index) l r)
    (t : Rat) (hlk : l.key < keyOfRat t) (hkr : keyOfRat t < r.key)
    (frm dst : Nat) (hf : frm < n) (hd : dst < n) (fb : Fallback) :
    ∃ dl, entryDist l n frm dst = some dl ∧ pr.distance fb p frm dst t = some (dl : Rat) := by
  obtain ⟨_, _, dl, _, _, hdl, _, h⟩ := aware_between c l r hb t hlk hkr frm dst hf hd fb
  exact ⟨dl, hdl, h⟩

/-- **aware_between_in_hull**: between two matrices the (unscaled) duration lies between the two bracketing entries. -/
theorem aware_between_in_hull {ms pr n p} (c : AwareCtx ms pr n p) (l r : MatrixData)
    (hb : Bracket (supplied ms p.index) l r)
    (t : Rat) (hlk : l.key < keyOfRat t) (hkr : keyOfRat t < r.key)
    (frm dst : Nat) (hf : frm < n) (hd : dst < n) (fb : Fallback) :
    ∃ lv rv v, entryDur l n frm dst = some lv ∧ entryDur r n frm dst = some rv ∧
      pr.duration fb p frm dst t = some (v * p.scale) ∧ min (lv : Rat) rv ≤ v ∧ v ≤ max (lv : Rat) rv := by
  obtain ⟨lv, rv, _, hlv, hrv, _, h, _⟩ := aware_between c l r hb t hlk hkr frm dst hf hd fb
  have h1 : ((l.timestamp.getD 0 : Int) : Rat) ≤ t := key_lt_query _ _ hlk
  have h2 : t < ((r.timestamp.getD 0 : Int) : Rat) := query_lt_key _ _ hkr
  obtain ⟨hlo, hhi⟩ := lineThrough_hull (l.timestamp.getD 0 : Int) (r.timestamp.getD 0 : Int) lv rv t
    (lt_of_le_of_lt h1 h2) h1 (le_of_lt h2)
  exact ⟨lv, rv, _, hlv, hrv, h, hlo, hhi⟩

/-- **aware_duration_linear**: between two matrices the duration is an affine function of the query time (one slope
    and one offset for the whole open interval), equal to the left entry at the left timestamp and to the right
    entry at the right timestamp. -/
theorem aware_duration_linear {ms pr n p} (c : AwareCtx ms pr n p) (l r : MatrixData)
    (hb : Bracket (supplied ms p.index) l r) (hlr : l.key < r.key)
    (frm dst : Nat) (hf : frm < n) (hd : dst < n) (fb : Fallback) :
    ∃ lv rv : Int, ∃ a b : Rat, entryDur l n frm dst = some lv ∧ entryDur r n frm dst = some rv ∧
      a * (l.timestamp.getD 0 : Int) + b = lv ∧ a * (r.timestamp.getD 0 : Int) + b = rv ∧
      ∀ t : Rat, l.key < keyOfRat t → keyOfRat t < r.key →
        pr.duration fb p frm dst t = some ((a * t + b) * p.scale) := by
  obtain ⟨lv, _, hlv, _, _, _⟩ := c.entries l hb.left_mem frm dst hf hd
  obtain ⟨rv, _, hrv, _, _, _⟩ := c.entries r hb.right_mem frm dst hf hd
  have hts : ((l.timestamp.getD 0 : Int) : Rat) ≠ ((r.timestamp.getD 0 : Int) : Rat) := by
    apply key_ne_imp_ts_ne
    show l.key ≠ r.key
    omega
  have haff := lineThrough_affine (l.timestamp.getD 0 : Int) (r.timestamp.getD 0 : Int) lv rv hts
  refine ⟨lv, rv, ((rv : Rat) - lv) / (((r.timestamp.getD 0 : Int) : Rat) - ((l.timestamp.getD 0 : Int) : Rat)),
    ((lv : Rat) * ((r.timestamp.getD 0 : Int) : Rat) - (rv : Rat) * ((l.timestamp.getD 0 : Int) : Rat)) /
      (((r.timestamp.getD 0 : Int) : Rat) - ((l.timestamp.getD 0 : Int) : Rat)), hlv, hrv, ?_, ?_, ?_⟩
  · rw [← haff]; exact lineThrough_left _ _ _ _ hts
  · rw [← haff]; exact lineThrough_right _ _ _ _ hts
  · intro t h1 h2
    obtain ⟨lv', rv', _, hlv', hrv', _, h, _⟩ := aware_between c l r hb t h1 h2 frm dst hf hd fb
    rw [hlv] at hlv'; rw [hrv] at hrv'
    cases hlv'; cases hrv'
    rw [h, haff]

/-! ## the provider computes the executable specification -/

theorem specAware_isSome (g : List MatrixData) (hne : g ≠ []) (n frm dst : Nat) (t : Rat)
    (hent : ∀ m ∈ g, ∃ du di, entryDur m n frm dst = some du ∧ entryDist m n frm dst = some di) :
    (∃ v, specAwareDur g n frm dst t = some v) ∧ (∃ v, specAwareDist g n frm dst t = some v) := by
  unfold specAwareDur specAwareDist
  simp only
  cases hat : specAt g (keyOfRat t) with
  | some m =>
    obtain ⟨du, di, h1, h2⟩ := hent m (specAt_some g _ m hat).1
    simp [h1, h2]
  | none =>
    have hnone := specAt_none g _ hat
    cases hl : specLeft g (keyOfRat t) with
    | none =>
      cases hr : specRight g (keyOfRat t) with
      | none =>
        exfalso
        cases g with
        | nil => exact hne rfl
        | cons x g' =>
          have h1 := specLeft_none _ _ hl x List.mem_cons_self
          have h2 := specRight_none _ _ hr x List.mem_cons_self
          have h3 := hnone x List.mem_cons_self
          omega
      | some r =>
        obtain ⟨du, di, h1, h2⟩ := hent r (specRight_some g _ r hr).1
        simp [h1, h2]
    | some l =>
      obtain ⟨lu, li, h1, h2⟩ := hent l (specLeft_some g _ l hl).1
      cases hr : specRight g (keyOfRat t) with
      | none => simp [h1, h2]
      | some r =>
        obtain ⟨ru, ri, h3, h4⟩ := hent r (specRight_some g _ r hr).1
        simp [h1, h2, h3]

/-- **provider_eq_spec**: for every accepted set, every in-range query (`n = pr.size`) of a vehicle whose profile has
    matrices equals the executable specification `specDuration` / `specDistance` (the functions the oracle of the
    correspondence check evaluates on the implementation's answers). No further hypotheses: square matrices and pairwise
    different keys are guaranteed by acceptance. -/
theorem provider_eq_spec (ms : List MatrixData) (pr : Provider) (hb : build ms = .ok pr)
    (p : Profile) (hne : supplied ms p.index ≠ [])
    (frm dst : Nat) (hf : frm < pr.size) (hd : dst < pr.size) (t : Rat) (fb : Fallback) :
    pr.duration fb p frm dst t = specDuration ms pr.size p frm dst t ∧
    pr.distance fb p frm dst t = specDistance ms pr.size p frm dst t := by
  unfold specDuration specDistance
  have hsq := (build_ok ms pr hb).2.2.1
  by_cases ht : ∃ m ∈ ms, m.timestamp.isSome = true
  · -- time-aware
    have c : AwareCtx ms pr pr.size p := awareCtx_of_build ms pr hb ht p
    obtain ⟨_, hall, hlen, _⟩ := build_timed ms pr hb ht
    have hg : groupOf ms p.index ≠ [] := hne
    obtain ⟨h1, h2⟩ := aware_unfold pr.size ms fb p frm dst t hg
    obtain ⟨s1, s2⟩ := interp_eq_spec (groupOf ms p.index) c.distinct hg pr.size frm dst t
    have hent : ∀ m ∈ supplied ms p.index, ∃ du di,
        entryDur m pr.size frm dst = some du ∧ entryDist m pr.size frm dst = some di :=
      fun m hm => by
        obtain ⟨du, di, h1, h2, _, _⟩ := c.entries m hm frm dst hf hd
        exact ⟨du, di, h1, h2⟩
    obtain ⟨⟨v1, hv1⟩, ⟨v2, hv2⟩⟩ := specAware_isSome (supplied ms p.index) hne pr.size frm dst t hent
    have hallg : (supplied ms p.index).all (fun m => m.timestamp.isSome) = true := by
      rw [List.all_eq_true]
      intro m hm
      exact hall m (List.mem_filter.mp hm).1
    have e : groupOf ms p.index = supplied ms p.index := rfl
    have k1 := congrArg (fun q : Provider => q.duration fb p frm dst t) c.provider
    have k2 := congrArg (fun q : Provider => q.distance fb p frm dst t) c.provider
    rw [k1, k2, h1, h2, s1, s2, e, hv1, hv2]
    -- the group has at least two matrices
    match hs : supplied ms p.index, hne with
    | [], h => exact absurd rfl h
    | [m], _ =>
      exfalso
      have hm : m ∈ ms := by
        have : m ∈ supplied ms p.index := by rw [hs]; exact List.mem_cons_self
        exact (List.mem_filter.mp this).1
      have hmi : m.index = p.index := by
        have : m ∈ supplied ms p.index := by rw [hs]; exact List.mem_cons_self
        simpa using (List.mem_filter.mp this).2
      have := hlen m hm
      rw [hmi, e, hs] at this
      simp at this
    | a :: b :: rest, _ =>
      rw [hs] at hallg hv1 hv2
      unfold specGroupDuration specGroupDistance
      simp only [hallg, if_true, hv1, hv2]
      exact ⟨rfl, rfl⟩
  · -- time-agnostic
    have hunt : ∀ m ∈ ms, m.timestamp = none := fun m hm => by
      cases hts : m.timestamp with
      | none => rfl
      | some ts => exact absurd ⟨m, hm, by rw [hts]; rfl⟩ ht
    obtain ⟨_, hrange⟩ := build_untimed ms pr hb hunt
    match hs : supplied ms p.index, hne with
    | [], h => exact absurd rfl h
    | m :: rest, _ =>
      have hmem : m ∈ supplied ms p.index := by rw [hs]; exact List.mem_cons_self
      have hm : m ∈ ms := (List.mem_filter.mp hmem).1
      have hmi : m.index = p.index := by simpa using (List.mem_filter.mp hmem).2
      have hsing := agnostic_supplied ms hrange m hm
      rw [hmi, hs] at hsing
      obtain ⟨_, _, du, di, hdu, hdi, h1, h2⟩ :=
        agnostic_returns_entry ms pr hb hunt m hm p hmi.symm frm dst hf hd t fb
      rw [hsing, h1, h2]
      unfold specGroupDuration specGroupDistance
      simp [hunt m hm, hdu, hdi]

/-- **well_formed_is_served**: the property in one statement — for **every** well-formed matrix set (any size, any
    number of profiles and timestamps, any order) the provider is built, and every in-range query of every vehicle whose
    profile has matrices returns exactly what the specification says: the supplied entry, durations times the scale,
    distances unscaled; matrix value at a matrix timestamp, first / last matrix outside the span, straight line for
    durations and left value for distances in between. -/
theorem well_formed_is_served (ms : List MatrixData) (n : Nat) (h : wellFormed ms n = true) :
    ∃ pr, build ms = .ok pr ∧ pr.size = n ∧
      ∀ (p : Profile), supplied ms p.index ≠ [] → ∀ frm dst, frm < n → dst < n → ∀ (t : Rat) (fb : Fallback),
        pr.duration fb p frm dst t = specDuration ms n p frm dst t ∧
        pr.distance fb p frm dst t = specDistance ms n p frm dst t := by
  obtain ⟨pr, hb, hsize⟩ := build_accepts_well_formed ms n h
  refine ⟨pr, hb, hsize, ?_⟩
  intro p hne frm dst hf hd t fb
  subst hsize
  exact provider_eq_spec ms pr hb p hne frm dst hf hd t fb

/-! ## the builder rejects inconsistent sets -/

/-- **builder_rejects_inconsistent_classes**: each class is rejected when the provider is built —
    (1) no matrix; (2) distances and durations of different length; (3) two square matrices of different dimension;
    (4) timed and untimed matrices mixed; (5) a profile twice in an untimed set; (6) a missing profile (an index below
    the number of matrices without a matrix) in an untimed set; (7) a profile with a single timed matrix;
    (8) a matrix whose number of entries is not a square (0684041); (9) two matrices of one profile with the same
    timestamp (c805ac8). -/
theorem builder_rejects_inconsistent_classes (ms : List MatrixData) :
    (ms = [] → ∀ pr, build ms ≠ .ok pr) ∧
    ((∃ m ∈ ms, m.distances.length ≠ m.durations.length) → ∀ pr, build ms ≠ .ok pr) ∧
    ((∃ a ∈ ms, ∃ b ∈ ms, ∃ na nb, a.durations.length = na * na ∧ b.durations.length = nb * nb ∧ na ≠ nb) →
      ∀ pr, build ms ≠ .ok pr) ∧
    ((∃ a ∈ ms, ∃ b ∈ ms, a.timestamp.isSome = true ∧ b.timestamp = none) → ∀ pr, build ms ≠ .ok pr) ∧
    ((∀ m ∈ ms, m.timestamp = none) → (∃ p, 2 ≤ (supplied ms p).length) → ∀ pr, build ms ≠ .ok pr) ∧
    ((∀ m ∈ ms, m.timestamp = none) → (∃ p, p < ms.length ∧ supplied ms p = []) → ∀ pr, build ms ≠ .ok pr) ∧
    ((∃ a ∈ ms, a.timestamp.isSome = true ∧ (supplied ms a.index).length = 1) → ∀ pr, build ms ≠ .ok pr) ∧
    ((∃ m ∈ ms, ∀ k, m.durations.length ≠ k * k) → ∀ pr, build ms ≠ .ok pr) ∧
    ((∃ a ∈ ms, a.timestamp.isSome = true ∧
        ((supplied ms a.index).filter (fun x => x.timestamp == a.timestamp)).length ≠ 1) → ∀ pr, build ms ≠ .ok pr) := by
  refine ⟨?_, ?_, ?_, ?_, ?_, ?_, ?_, ?_, ?_⟩
  · intro h pr hb; rw [h] at hb; cases hb
  · exact builder_rejects_length_mismatch ms
  · rintro ⟨a, ha, b, hb, na, nb, h1, h2, h3⟩
    exact builder_rejects_size_mismatch ms a b ha hb na nb h1 h2 h3
  · rintro ⟨a, ha, b, hb, h1, h2⟩
    exact builder_rejects_mixed_timestamps ms a b ha hb h1 h2
  · rintro hunt ⟨p, hp⟩
    exact builder_rejects_duplicate_profile ms hunt p hp
  · rintro hunt ⟨p, hp, hmiss⟩
    exact builder_rejects_missing_profile ms hunt p hp hmiss
  · rintro ⟨a, ha, h1, h2⟩
    exact builder_rejects_single_timed ms a ha h1 h2
  · rintro ⟨m, hm, h⟩
    exact builder_rejects_non_square ms m hm h
  · rintro ⟨a, ha, h1, h2⟩
    exact builder_rejects_duplicate_timestamp ms a ha h1 h2

/-- **builder_rejects_inconsistent**: whatever the executable specification `inconsistent` flags — no matrix, a matrix that
    is not `n × n` for the common `n`, timed and untimed matrices mixed, the same (profile, timestamp) twice — is
    rejected when the provider is built. Unconditional since 0684041 (square check) and c805ac8 (timestamp check). -/
theorem builder_rejects_inconsistent (ms : List MatrixData) (hinc : inconsistent ms = true) :
    ∀ pr, build ms ≠ .ok pr := by
  intro pr hb
  obtain ⟨hne, hlen, hsz, hcase⟩ := build_ok ms pr hb
  cases ms with
  | nil => exact hne rfl
  | cons first rest =>
    unfold inconsistent at hinc
    simp only [Bool.or_eq_true, Bool.and_eq_true] at hinc
    have hn : Nat.sqrt first.durations.length = pr.size := by
      rw [hsz first List.mem_cons_self, Nat.sqrt_eq]
    rcases hinc with (hdimbad | hmixed) | hcount
    · obtain ⟨m, hm, hbad⟩ := List.any_eq_true.mp hdimbad
      rw [hn, hlen m hm, hsz m hm] at hbad
      simp at hbad
    · obtain ⟨⟨a, ha, hat⟩, ⟨b, hb', hbt⟩⟩ := And.intro (List.any_eq_true.mp hmixed.1) (List.any_eq_true.mp hmixed.2)
      have hbn : b.timestamp = none := by simpa using hbt
      exact builder_rejects_mixed_timestamps _ a b ha hb' hat hbn pr hb
    · obtain ⟨m, hm, hbad⟩ := List.any_eq_true.mp hcount
      cases hts : m.timestamp with
      | some ts =>
        exact builder_rejects_duplicate_timestamp _ m hm (by rw [hts]; rfl) (by simpa using hbad) pr hb
      | none =>
        rcases hcase with ⟨_, haw⟩ | ⟨hall, hag⟩
        · have := (newAware_ok _ _ _ haw).2.1 m hm
          rw [hts] at this; simp at this
        · have hrange := (newAgnostic_ok _ _ _ hag).2.1
          have hsing := agnostic_supplied _ hrange m hm
          rw [hsing] at hbad
          simp at hbad

/-- the former acceptance witnesses (a 5-entry matrix passing as 2 × 2, the same timestamp twice, timestamps −50 and
    −60 sharing the `u64` key 0) are rejected now -/
theorem repaired_builder_rejects_former_witnesses :
    build [⟨0, none, [1, 2, 3, 4, 5], [1, 2, 3, 4, 5]⟩] = .error .notSquare ∧
    build [⟨0, some 5, [1], [1]⟩, ⟨0, some 5, [2], [2]⟩] = .error .duplicateTimestamp ∧
    (∀ pr, build [⟨0, some (-50), [1], [1]⟩, ⟨0, some (-60), [2], [2]⟩] ≠ .ok pr) := by
  have h5 : sqrtRound 5 = 2 := sqrtRound_add 2 1 (by omega)
  have h1 : sqrtRound 1 = 1 := sqrtRound_sq 1
  refine ⟨?_, ?_, ?_⟩
  · simp [build, h5]
  · have hsort : sortByKey [⟨0, some 5, [1], [1]⟩, ⟨0, some 5, [2], [2]⟩] =
        [⟨0, some 5, [1], [1]⟩, ⟨0, some 5, [2], [2]⟩] := by
      unfold sortByKey; apply List.mergeSort_of_pairwise; simp [MatrixData.key]
    simp [build, newAware, groupOf, h1, hsort, adjacentEqual, MatrixData.key]
  · intro pr hb
    have hd := (build_timed _ pr hb ⟨_, List.mem_cons_self, rfl⟩).2.2.2 0
    have : (⟨0, some (-50), [1], [1]⟩ : MatrixData).key ≠ (⟨0, some (-60), [2], [2]⟩ : MatrixData).key := by
      have := (List.pairwise_cons.mp (show DistinctKeys [⟨0, some (-50), [1], [1]⟩, ⟨0, some (-60), [2], [2]⟩] from hd)).1
      exact this _ List.mem_cons_self
    exact this (by decide)

/-- different negative timestamps share the `u64` key 0 (`as u64` saturates) — such sets are rejected as duplicates -/
theorem negative_timestamps_share_key : keyOfInt (-50) = keyOfInt (-60) ∧ keyOfInt (-50) = 0 := by decide

/-! ## the pragmatic reader -/

theorem toMatrixDataAll_mem (profiles : List String) (ms : List ApiMatrix) (k : Nat) (data : List MatrixData)
    (h : toMatrixDataAll profiles k ms = some data) : ∀ d ∈ data, ∃ m ∈ ms, ∃ idx, d = asSupplied idx m := by
  induction ms generalizing k data with
  | nil =>
    unfold toMatrixDataAll at h
    cases h
    simp
  | cons m rest ih =>
    obtain ⟨d, ds, hd, hds, hdata⟩ := toMatrixDataAll_cons profiles k m rest data h
    subst hdata
    intro x hx
    rcases List.mem_cons.mp hx with e | e
    · subst e
      exact ⟨m, List.mem_cons_self, _, toMatrixData_spec profiles k m x hd⟩
    · obtain ⟨m', hm', idx, hidx⟩ := ih (k + 1) ds hds x e
      exact ⟨m', List.mem_cons_of_mem _ hm', idx, hidx⟩

/-- **reader_maps_by_name**: through the pragmatic reader (any variant), a vehicle whose profile is `v.matrix` is routed
    on the matrices **named** `v.matrix` (for unnamed matrices: the one at the profile's position), with unreachable
    entries as −1 — every in-range query (`n = pr.size`) equals the executable specification `specReader*`.
    Hypothesis: every matrix name is a fleet profile (a set in which *no* name is one is mapped by position: documented
    behaviour, `reader_all_unknown_is_positional`; mixes are rejected), and the name has matrices. -/
theorem reader_maps_by_name (mode : ReaderMode) (profiles : List String) (ms : List ApiMatrix) (pr : Provider)
    (h : createTransportCosts mode profiles ms = .ok pr) (hknown : namesKnown profiles ms = true)
    (v : ApiVehicle) (p : Profile) (hv : vehicleProfile profiles v = some p)
    (hne : namedFor profiles ms v.matrix ≠ [])
    (frm dst : Nat) (hf : frm < pr.size) (hd : dst < pr.size) (t : Rat) :
    pr.duration none p frm dst t = specReaderDuration profiles ms pr.size v frm dst t ∧
    pr.distance none p frm dst t = specReaderDistance profiles ms pr.size v frm dst t := by
  obtain ⟨hall, data, hdata, hb⟩ := createTransportCosts_ok mode profiles ms pr h
  unfold vehicleProfile at hv
  cases hi : profileIndex profiles v.matrix with
  | none => rw [hi] at hv; cases hv
  | some i =>
    rw [hi] at hv
    simp only [Option.map_some] at hv
    cases hv
    have hsup := supplied_eq_namedFor mode profiles ms data hall hdata hknown v.matrix i hi
    obtain ⟨h1, h2⟩ := provider_eq_spec data pr hb ⟨i, v.scale.getD 1⟩ (by simp only; rw [hsup]; exact hne)
      frm dst hf hd t none
    rw [h1, h2]
    unfold specDuration specDistance specReaderDuration specReaderDistance
    simp only [hsup]
    exact ⟨trivial, trivial⟩

/-- the reader as it stands (`noMix`, 83519b0): fleet profile names mixed with other names are rejected -/
theorem mixed_known_names_rejected_noMix (profiles : List String) (ms : List ApiMatrix)
    (h0 : knownCount profiles ms ≠ 0) (h1 : knownCount profiles ms ≠ ms.length) :
    ∀ pr, createTransportCosts .noMix profiles ms ≠ .ok pr := by
  intro pr hc
  unfold createTransportCosts at hc
  split at hc
  · cases hc
  · split at hc
    · cases hc
    · split at hc
      · cases hc
      · simp only at hc
        split at hc
        · cases hc
        · split at hc
          · cases hc
          · split at hc
            · cases hc
            · have hcond : (ReaderMode.noMix == ReaderMode.noMix && knownCount profiles ms != 0 &&
                  knownCount profiles ms != ms.length) = true := by simp [h0, h1]
              rw [if_pos hcond] at hc
              cases hc

/-- regression variant `ReaderMode.positional` (the reader before 83519b0, restored by mutant `C16-q`): fleet profiles
    `[car, truck]`, matrices named `[car, bike]` were accepted and the `truck` vehicle routed on the data of `bike`
    (distance 100), although no matrix is named `truck`; the reader as it stands (`noMix`) rejects the set. -/
theorem reader_positional_witness :
    let car : ApiMatrix := ⟨some "car", none, [1, 1, 1, 1], [1, 1, 1, 1], none⟩
    let bike : ApiMatrix := ⟨some "bike", none, [100, 100, 100, 100], [100, 100, 100, 100], none⟩
    let profiles := ["car", "truck"]
    let truck : Profile := ⟨1, 1⟩
    namesKnown profiles [car, bike] = false ∧
    profileIndex profiles "truck" = some truck.index ∧
    namedFor profiles [car, bike] "truck" = [] ∧
    (∃ pr, createTransportCosts .positional profiles [car, bike] = .ok pr ∧
      pr.distance none truck 0 1 0 = some 100) ∧
    ∀ pr, createTransportCosts .noMix profiles [car, bike] ≠ .ok pr := by
  have h4 : sqrtRound 4 = 2 := sqrtRound_sq 2
  refine ⟨by decide, by decide, by decide, ?_, ?_⟩
  · refine ⟨.agnostic 2 [⟨0, none, [1, 1, 1, 1], [1, 1, 1, 1]⟩, ⟨1, none, [100, 100, 100, 100], [100, 100, 100, 100]⟩], ?_, ?_⟩
    · have hmap : profileIndexMap ["car", "truck"] [] = [("car", 0), ("truck", 1)] := by decide
      have hdata : toMatrixDataAllE ["car", "truck"] 0
          [⟨some "car", none, [1, 1, 1, 1], [1, 1, 1, 1], none⟩,
           ⟨some "bike", none, [100, 100, 100, 100], [100, 100, 100, 100], none⟩] =
          .ok [⟨0, none, [1, 1, 1, 1], [1, 1, 1, 1]⟩, ⟨1, none, [100, 100, 100, 100], [100, 100, 100, 100]⟩] := by rfl
      have hcount : distinctCount [0, 1] = 2 := by decide
      have hsort : sortByIndex [⟨0, none, [1, 1, 1, 1], [1, 1, 1, 1]⟩, ⟨1, none, [100, 100, 100, 100], [100, 100, 100, 100]⟩] =
          [⟨0, none, [1, 1, 1, 1], [1, 1, 1, 1]⟩, ⟨1, none, [100, 100, 100, 100], [100, 100, 100, 100]⟩] := by
        unfold sortByIndex
        apply List.mergeSort_of_pairwise
        simp
      unfold createTransportCosts
      simp only [hmap, hdata]
      simp [build, newAgnostic, hsort, indicesAreRange, h4, hcount]
    · simp [Provider.distance, distAt, flatIdx, orFallback]
  · exact mixed_known_names_rejected_noMix _ _ (by decide) (by decide)

/-- **documented positional behaviour** (stream `S28u`, pinned by the repository's `fleet_reader_test` positive case01):
    when *no* matrix name is a fleet profile the names are ignored and the matrices are mapped by their position, like
    unnamed ones — fleet `[car]` with one matrix named `car1` is accepted and the `car` vehicle is routed on it. -/
theorem reader_all_unknown_is_positional :
    let m : ApiMatrix := ⟨some "car1", none, [0, 3, 5, 0], [0, 30, 50, 0], none⟩
    namesKnown ["car"] [m] = false ∧ knownCount ["car"] [m] = 0 ∧
    ∃ pr, createTransportCosts .noMix ["car"] [m] = .ok pr ∧ pr.distance none ⟨0, 1⟩ 0 1 0 = some 30 := by
  have h4 : sqrtRound 4 = 2 := sqrtRound_sq 2
  refine ⟨by decide, by decide, .agnostic 2 [⟨0, none, [0, 3, 5, 0], [0, 30, 50, 0]⟩], ?_, ?_⟩
  · have hmap : profileIndexMap ["car"] [] = [("car", 0)] := by decide
    have hdata : toMatrixDataAllE ["car"] 0 [⟨some "car1", none, [0, 3, 5, 0], [0, 30, 50, 0], none⟩] =
        .ok [⟨0, none, [0, 3, 5, 0], [0, 30, 50, 0]⟩] := by rfl
    have hcount : distinctCount [0] = 1 := by decide
    have hk : knownCount ["car"] [⟨some "car1", none, [0, 3, 5, 0], [0, 30, 50, 0], none⟩] = 0 := by decide
    unfold createTransportCosts
    simp only [hmap, hdata, hk]
    simp [build, newAgnostic, sortByIndex, indicesAreRange, h4, hcount]
  · simp [Provider.distance, distAt, flatIdx, orFallback]

/-- the rejected alternative `fixes/S28.patch` (`strict`): any name that is not a fleet profile is an error -/
theorem unknown_name_rejected_strict (profiles : List String) (ms : List ApiMatrix)
    (h : namesKnown profiles ms = false) : ∀ pr, createTransportCosts .strict profiles ms ≠ .ok pr := by
  intro pr hc
  unfold createTransportCosts at hc
  split at hc
  · cases hc
  · split at hc
    · cases hc
    · simp [h] at hc

/-- **unreachable_is_negative**: an entry whose error code is positive reaches the provider as −1, in the durations
    and in the distances (so a query for it returns `−scale` and `−1`: negative for every positive scale). -/
theorem unreachable_is_negative (profiles : List String) (idx : Nat) (m : ApiMatrix) (d : MatrixData)
    (h : toMatrixData profiles idx m = some d) (codes : List Int) (hc : m.errorCodes = some codes)
    (i : Nat) (hi : i < codes.length) (hpos : codes.getD i 0 > 0) :
    d.durations[i]? = some (-1) ∧ d.distances[i]? = some (-1) ∧ ∀ scale : Rat, 0 < scale → ((-1 : Int) : Rat) * scale < 0 := by
  have hd := toMatrixData_spec profiles idx m d h
  rw [hd]
  unfold asSupplied unreachableApplied
  simp only [hc]
  refine ⟨?_, ?_, ?_⟩
  · rw [List.getElem?_map, List.getElem?_range hi]
    show some (if codes.getD i 0 > 0 then _ else _) = _
    rw [if_pos hpos]
  · rw [List.getElem?_map, List.getElem?_range hi]
    show some (if codes.getD i 0 > 0 then _ else _) = _
    rw [if_pos hpos]
  · intro scale hs
    simp only [Int.cast_neg, Int.cast_one]
    linarith

/-- entries whose error code is not positive keep the supplied value -/
theorem reachable_keeps_value (profiles : List String) (idx : Nat) (m : ApiMatrix) (d : MatrixData)
    (h : toMatrixData profiles idx m = some d) (codes : List Int) (hc : m.errorCodes = some codes)
    (i : Nat) (hi : i < codes.length) (hpos : ¬ codes.getD i 0 > 0) :
    d.durations[i]? = some (m.travelTimes.getD i 0) ∧ d.distances[i]? = some (m.distances.getD i 0) := by
  have hd := toMatrixData_spec profiles idx m d h
  rw [hd]
  unfold asSupplied unreachableApplied
  simp only [hc]
  refine ⟨?_, ?_⟩
  · rw [List.getElem?_map, List.getElem?_range hi]
    show some (if codes.getD i 0 > 0 then _ else _) = _
    rw [if_neg hpos]
  · rw [List.getElem?_map, List.getElem?_range hi]
    show some (if codes.getD i 0 > 0 then _ else _) = _
    rw [if_neg hpos]

/-! ## `SimpleTransportCost` -/

/-- two `n × n` collections are accepted and every in-range pair is answered with the supplied entries -/
theorem simple_returns_entry (dur dist : List Int) (n : Nat) (h1 : dur.length = n * n) (h2 : dist.length = n * n) :
    ∃ s, Simple.new dur dist = some s ∧ s.size = n ∧
      ∀ frm dst, frm < n → dst < n →
        dur[frm * n + dst]? = some (s.duration frm dst) ∧ dist[frm * n + dst]? = some (s.distance frm dst) := by
  refine ⟨⟨dur, dist, n⟩, ?_, rfl, ?_⟩
  · unfold Simple.new
    simp [h1, h2, sqrtRound_sq]
  · intro frm dst hf hd
    obtain ⟨a, ha⟩ := entry_exists dur n frm dst h1 hf hd
    obtain ⟨b, hb⟩ := entry_exists dist n frm dst h2 hf hd
    unfold Simple.duration Simple.distance
    simp only [List.getD_eq_getElem?_getD, ha, hb, Option.getD_some]
    exact ⟨trivial, trivial⟩

/-- square collections of different dimension are rejected -/
theorem simple_rejects_size_mismatch (dur dist : List Int) (n m : Nat) (h1 : dur.length = n * n)
    (h2 : dist.length = m * m) (hne : n ≠ m) : Simple.new dur dist = none := by
  unfold Simple.new
  simp only [h1, h2, sqrtRound_sq]
  have : (m != n) = true := by simpa using (Ne.symm hne)
  simp [this]

/-! ## coordinate-based approximation: symmetric with a zero diagonal -/

/-- Euclidean (scientific formats), squared: symmetric … -/
theorem euclid_symm (a b : Int × Int) : sqDist a b = sqDist b a := by
  unfold sqDist
  congr 1
  ring

/-- … hence so is every function of it, in particular the rounded distance `sqrtRound ∘ sqDist` of `create_transport` -/
theorem euclid_rounded_symm (a b : Int × Int) : sqrtRound (sqDist a b) = sqrtRound (sqDist b a) := by
  rw [euclid_symm]

/-- zero diagonal -/
theorem euclid_zero_diag (a : Int × Int) : sqDist a a = 0 ∧ sqrtRound (sqDist a a) = 0 := by
  have h : sqDist a a = 0 := by
    unfold sqDist
    simp
  exact ⟨h, by rw [h]; exact sqrtRound_sq 0⟩

section Haversine
/-! The haversine formula of `approx_transportation.rs` over an abstract commutative ring `F` with an odd `sin`, an
even `cos`, odd "halving" and degree→radian maps (`x / 2.`, `π * x / 180.`: odd and zero at zero in `f64` too), and
arbitrary binary functions for the quotient-and-root of the radius and for `2 · atan2(√a, √(1 − a))` (only
`arc 0 = 0` is used). `f64` evaluation is outside the model: the product `s·s·cos₁·cos₂` is not reassociated
symmetrically by the code, so the unrounded value may differ in the last bit (S12b); the real code is checked on
its rounded output. -/
variable {F : Type} [CommRing F] (sin cos half rad arc : F → F) (quot : F → F → F) (A B : F)

/-- `a` of `get_haversine_distance` -/
def havA (lat1 lng1 lat2 lng2 : F) : F :=
  sin (half (rad (lat1 - lat2))) * sin (half (rad (lat1 - lat2))) +
    sin (half (rad (lng1 - lng2))) * sin (half (rad (lng1 - lng2))) * cos (rad lat1) * cos (rad lat2)

/-- `wgs84_earth_radius` (applied by the code to the latitude *difference*) -/
def havRadius (x : F) : F :=
  quot (A * A * cos x * (A * A * cos x) + B * B * sin x * (B * B * sin x))
       (A * cos x * (A * cos x) + B * sin x * (B * sin x))

/-- `get_haversine_distance` -/
def haversine (lat1 lng1 lat2 lng2 : F) : F :=
  havRadius sin cos quot A B (rad (lat1 - lat2)) * arc (havA sin cos half rad lat1 lng1 lat2 lng2)

variable (sin_neg : ∀ x, sin (-x) = -sin x) (cos_neg : ∀ x, cos (-x) = cos x)
  (half_neg : ∀ x, half (-x) = -half x) (rad_neg : ∀ x, rad (-x) = -rad x)
include sin_neg cos_neg half_neg rad_neg

/-- **haversine_symm**: `d(p₁, p₂) = d(p₂, p₁)` -/
theorem haversine_symm (lat1 lng1 lat2 lng2 : F) :
    haversine sin cos half rad arc quot A B lat1 lng1 lat2 lng2 =
    haversine sin cos half rad arc quot A B lat2 lng2 lat1 lng1 := by
  have e1 : lat2 - lat1 = -(lat1 - lat2) := by ring
  have e2 : lng2 - lng1 = -(lng1 - lng2) := by ring
  unfold haversine havRadius havA
  rw [e1, e2]
  simp only [rad_neg, half_neg, sin_neg, cos_neg]
  congr 1
  · congr 1 <;> ring
  · congr 1; ring

omit sin_neg cos_neg half_neg rad_neg in
/-- **haversine_zero_diag**: `d(p, p) = 0` (given `sin 0 = 0`, `x/2 = 0` and `rad x = 0` at `x = 0`, `arc 0 = 0`) -/
theorem haversine_zero_diag (lat lng : F) (sin_zero : sin 0 = 0) (half_zero : half 0 = 0) (rad_zero : rad 0 = 0)
    (arc_zero : arc 0 = 0) : haversine sin cos half rad arc quot A B lat lng lat lng = 0 := by
  unfold haversine havA
  simp only [sub_self, rad_zero, half_zero, sin_zero, mul_zero, zero_mul, add_zero, arc_zero]
end Haversine

/-! ## the location of custom type `unknown` -/

/-- the index `n * n` given to the unknown location (`n = max_matrix_index + 1`, the matrix size E1504 enforces) falls
    outside the matrix on either side of a pair, so the zero fallback answers — for dense and for sparse indices (a68e4cc) -/
theorem unknown_index_outside (n f t : Nat) : n * n ≤ flatIdx n f (n * n) ∧ n * n ≤ flatIdx n (n * n) t := by
  unfold flatIdx
  constructor
  · omega
  · rcases Nat.eq_zero_or_pos n with h | h
    · subst h; simp
    · have : n * n * 1 ≤ n * n * n := Nat.mul_le_mul_left _ h
      omega

/-- `customIndex` is that index: the square of the matrix size the locations need -/
theorem customIndex_outside (locs : List Nat) (n : Nat) (h : locs.foldl max 0 + 1 = n) (f t : Nat) :
    customIndex locs = n * n ∧ n * n ≤ flatIdx n f (customIndex locs) ∧ n * n ≤ flatIdx n (customIndex locs) t := by
  have e : customIndex locs = n * n := by unfold customIndex; rw [h]
  rw [e]
  exact ⟨rfl, unknown_index_outside n f t⟩

/-- a pair with the unknown location is answered with the fallback: zero distance, zero duration -/
theorem unknown_location_zero (m : MatrixData) (n : Nat) (hd : m.durations.length = n * n)
    (hx : m.distances.length = n * n) (i : Nat) (s : Rat) (f t : Nat) (h : f = n * n ∨ t = n * n) (at_ : Rat) :
    (Provider.agnostic n [m]).duration unknownFallback ⟨0, s⟩ f t at_ = some 0 ∧
    (Provider.agnostic n [m]).distance unknownFallback ⟨0, s⟩ f t at_ = some 0 := by
  have hidx : n * n ≤ flatIdx n f t := by
    rcases h with h | h
    · subst h; exact (unknown_index_outside n 0 t).2
    · subst h; exact (unknown_index_outside n f 0).1
  have h1 : m.durations[flatIdx n f t]? = none := List.getElem?_eq_none (by omega)
  have h2 : m.distances[flatIdx n f t]? = none := List.getElem?_eq_none (by omega)
  simp [Provider.duration, Provider.distance, durAt, distAt, h1, h2, orFallback, unknownFallback]

/-- the former collision witness: with matrix indices `{0, 3}` (a 4 × 4 matrix) the unknown location now gets index 16 -/
example : customIndex [0, 3] = 16 ∧ 4 * 4 ≤ flatIdx 4 0 (customIndex [0, 3]) := by decide

/-! ## non-vacuity: concrete inputs that meet the hypotheses -/

section examples

def exA : MatrixData := ⟨0, none, [0, 3, 5, 0], [0, 30, 50, 0]⟩
def exB : MatrixData := ⟨1, none, [0, 4, 6, 0], [0, 40, 60, 0]⟩

/-- two profiles, asymmetric 2 × 2 matrices: accepted; `agnostic_returns_entry` applies to both matrices -/
example : build [exA, exB] = .ok (.agnostic 2 [exA, exB]) ∧ (∀ m ∈ [exA, exB], m.timestamp = none) ∧
    (∀ m ∈ [exA, exB], m.durations.length = 2 * 2) := by
  have h4 : sqrtRound 4 = 2 := sqrtRound_sq 2
  have hsort : sortByIndex [exA, exB] = [exA, exB] := by
    unfold sortByIndex; apply List.mergeSort_of_pairwise; simp [exA, exB]
  simp only [exA, exB] at hsort
  refine ⟨?_, by simp [exA, exB], by simp [exA, exB]⟩
  simp [build, newAgnostic, hsort, indicesAreRange, h4, exA, exB]

/-- and the answer for a vehicle of profile 1 with scale 3/2 from 1 to 0 is 6 · 3/2 = 9 and 60 -/
example : (Provider.agnostic 2 [exA, exB]).duration none ⟨1, 3 / 2⟩ 1 0 7 = some 9 ∧
    (Provider.agnostic 2 [exA, exB]).distance none ⟨1, 3 / 2⟩ 1 0 7 = some 60 := by
  constructor
  · simp [Provider.duration, durAt, flatIdx, orFallback, exB]; norm_num
  · simp [Provider.distance, distAt, flatIdx, orFallback, exB]

def exL : MatrixData := ⟨0, some 0, [10], [7]⟩
def exR : MatrixData := ⟨0, some 8, [18], [9]⟩

/-- a timed profile with matrices at 0 and 8 (input order reversed): the context of the time-aware theorems holds,
    `(exL, exR)` is a bracket and the query time 2 lies strictly inside it -/
example : AwareCtx [exR, exL] (.aware 1 [exR, exL]) 1 ⟨0, 3 / 2⟩ ∧ Bracket (supplied [exR, exL] 0) exL exR ∧
    exL.key < keyOfRat ((2 : Int) : Rat) ∧ keyOfRat ((2 : Int) : Rat) < exR.key := by
  have h1 : sqrtRound 1 = 1 := sqrtRound_sq 1
  refine ⟨⟨?_, ⟨exR, by simp, rfl⟩, by simp [exL, exR], ?_⟩, ⟨by simp [supplied, exL, exR], by simp [supplied, exL, exR], ?_⟩, ?_, ?_⟩
  · have hd : DistinctKeys (groupOf [exR, exL] 0) := by
      simp [DistinctKeys, groupOf, exL, exR, MatrixData.key, keyOfInt]
    have hadj := sorted_check_of_distinctKeys _ hd
    have hg : groupOf [exR, exL] 0 = [exR, exL] := by simp [groupOf, exL, exR]
    rw [hg] at hadj
    simp only [exL, exR] at hadj
    simp [build, newAware, groupOf, h1, exL, exR, hadj]
  · simp [DistinctKeys, supplied, exL, exR, MatrixData.key, keyOfInt]
  · intro x hx
    simp [supplied, exL, exR] at hx
    rcases hx with h | h <;> subst h <;> simp [MatrixData.key, keyOfInt, exL, exR]
  · rw [keyOfRat_intCast]; simp [MatrixData.key, keyOfInt, exL]
  · rw [keyOfRat_intCast]; simp [MatrixData.key, keyOfInt, exR]

/-- `well_formed_is_served`: both example sets are well formed -/
example : wellFormed [exB, exA] 2 = true ∧ wellFormed [exR, exL] 1 = true := by
  constructor
  · simp [wellFormed, supplied, exA, exB]
    intro x hx
    have : x = 0 ∨ x = 1 := by omega
    rcases this with h | h <;> subst h <;> simp
  · simp [wellFormed, supplied, exL, exR, MatrixData.key, keyOfInt]

/-- `builder_rejects_inconsistent`: the same profile twice in an untimed set is flagged by the specification
    (and consists of square matrices) -/
example : inconsistent [⟨0, none, [1], [1]⟩, ⟨0, none, [2], [2]⟩] = true ∧
    (∀ m ∈ ([⟨0, none, [1], [1]⟩, ⟨0, none, [2], [2]⟩] : List MatrixData),
      ∃ a b, m.durations.length = a * a ∧ m.distances.length = b * b) := by
  have hs : Nat.sqrt 1 = 1 := Nat.sqrt_eq 1
  refine ⟨by simp [inconsistent, supplied, hs], ?_⟩
  intro m hm
  simp at hm
  rcases hm with h | h <;> subst h <;> exact ⟨1, 1, rfl, rfl⟩

/-- `reader_maps_by_name`: fleet `[car, truck]`, matrices named `[car, truck]` with an unreachable entry -/
example :
    let car : ApiMatrix := ⟨some "car", none, [0, 3, 5, 0], [0, 30, 50, 0], some [0, 1, 0, 0]⟩
    let truck : ApiMatrix := ⟨some "truck", none, [0, 4, 6, 0], [0, 40, 60, 0], none⟩
    namesKnown ["car", "truck"] [car, truck] = true ∧
    namedFor ["car", "truck"] [car, truck] "truck" = [⟨1, none, [0, 4, 6, 0], [0, 40, 60, 0]⟩] ∧
    namedFor ["car", "truck"] [car, truck] "car" = [⟨0, none, [0, -1, 5, 0], [0, -1, 50, 0]⟩] := by
  refine ⟨by decide, by decide, by decide⟩

end examples

end C16
