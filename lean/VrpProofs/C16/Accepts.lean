import VrpProofs.C16.Reader
/-!
# C16 — the converse direction: a well-formed matrix set is accepted
-/
set_option linter.unusedSimpArgs false
set_option linter.unusedVariables false

namespace C16

theorem filter_lt_succ_length (S : List MatrixData) (i : Nat) :
    (S.filter (fun m => decide (m.index < i + 1))).length =
      (S.filter (fun m => decide (m.index < i))).length + (S.filter (fun m => m.index == i)).length := by
  induction S with
  | nil => simp
  | cons x S ih =>
    simp only [List.filter_cons]
    by_cases h1 : x.index < i
    · have h2 : x.index < i + 1 := by omega
      have h3 : (x.index == i) = false := by simp; omega
      simp only [h1, h2, h3, decide_true, if_true, Bool.false_eq_true, if_false, List.length_cons, ih]
      omega
    · by_cases h2 : x.index = i
      · have h3 : x.index < i + 1 := by omega
        have h4 : (x.index == i) = true := by simp [h2]
        simp only [h1, h3, h4, decide_true, decide_false, if_true, Bool.false_eq_true, if_false, List.length_cons, ih]
        omega
      · have h3 : ¬ x.index < i + 1 := by omega
        have h4 : (x.index == i) = false := by simp [h2]
        simp only [h1, h3, h4, decide_false, Bool.false_eq_true, if_false, ih]

/-- if every index below `k` occurs exactly once, `i ≤ k` elements have an index below `i` -/
theorem filter_lt_length (S : List MatrixData) (k : Nat)
    (hone : ∀ i, i < k → (S.filter (fun m => m.index == i)).length = 1) (i : Nat) (hi : i ≤ k) :
    (S.filter (fun m => decide (m.index < i))).length = i := by
  induction i with
  | zero => simp
  | succ j ih => rw [filter_lt_succ_length, ih (by omega), hone j (by omega)]

theorem indicesAreRange_of_get (l : List MatrixData) (k : Nat)
    (h : ∀ i (hi : i < l.length), l[i].index = k + i) : indicesAreRange k l = true := by
  induction l generalizing k with
  | nil => rfl
  | cons x l ih =>
    unfold indicesAreRange
    simp only [Bool.and_eq_true, beq_iff_eq]
    constructor
    · have := h 0 (by simp)
      simpa using this
    · apply ih
      intro i hi
      have := h (i + 1) (by simp; omega)
      simp only [List.getElem_cons_succ] at this
      omega

theorem sortByIndex_sorted (ms : List MatrixData) : (sortByIndex ms).Pairwise (fun a b => a.index ≤ b.index) := by
  have h := List.pairwise_mergeSort (le := fun (a b : MatrixData) => decide (a.index ≤ b.index))
    (fun a b c hab hbc => by simp only [decide_eq_true_eq] at *; omega)
    (fun a b => by simp only [Bool.or_eq_true, decide_eq_true_eq]; omega) ms
  unfold sortByIndex
  exact h.imp (fun hab => by simpa using hab)

/-- sorting a set in which every profile index below its size occurs exactly once puts index `i` at position `i` -/
theorem sorted_is_range (ms : List MatrixData) (hone : ∀ i, i < ms.length → (supplied ms i).length = 1) :
    indicesAreRange 0 (sortByIndex ms) = true := by
  have hperm := sortByIndex_perm ms
  have hlen : (sortByIndex ms).length = ms.length := hperm.length_eq
  have hone' : ∀ i, i < ms.length → ((sortByIndex ms).filter (fun m => m.index == i)).length = 1 := fun i hi => by
    rw [(hperm.filter _).length_eq]; exact hone i hi
  have hs := sortByIndex_sorted ms
  apply indicesAreRange_of_get
  intro i hi
  rw [Nat.zero_add]
  have hget : (sortByIndex ms)[i]? = some (sortByIndex ms)[i] := List.getElem?_eq_getElem hi
  -- not below i: position i lies behind the i elements with an index below i
  have h1 : ¬ (sortByIndex ms)[i].index < i := by
    have hb := sorted_bracket MatrixData.index (sortByIndex ms) hs i _ rfl
    have hcount := filter_lt_length (sortByIndex ms) ms.length hone' i (by omega)
    have := hb.1 (sortByIndex ms)[i] (by rw [hcount]; exact hget)
    exact this.2.1
  -- below i + 1: position i lies among the i + 1 elements with an index below i + 1
  have h2 : (sortByIndex ms)[i].index < i + 1 := by
    have hsplit := sorted_split MatrixData.index (sortByIndex ms) hs (i + 1)
    have hcount := filter_lt_length (sortByIndex ms) ms.length hone' (i + 1) (by omega)
    have hmem : (sortByIndex ms)[i] ∈ (sortByIndex ms).filter (fun x => decide (x.index < i + 1)) := by
      have hlt : i < ((sortByIndex ms).filter (fun x => decide (x.index < i + 1))).length := by omega
      have : (sortByIndex ms)[i]? = ((sortByIndex ms).filter (fun x => decide (x.index < i + 1)))[i]? := by
        conv => lhs; rw [hsplit]
        exact List.getElem?_append_left hlt
      rw [hget, List.getElem?_eq_getElem hlt] at this
      rw [Option.some.inj this]
      exact List.getElem_mem hlt
    simpa using (List.mem_filter.mp hmem).2
  omega

theorem distinctKeys_of_count (g : List MatrixData)
    (h : ∀ m ∈ g, (g.filter (fun x => x.key == m.key)).length = 1) : DistinctKeys g := by
  unfold DistinctKeys
  induction g with
  | nil => exact List.Pairwise.nil
  | cons x g ih =>
    rw [List.pairwise_cons]
    constructor
    · intro y hy hk
      have := h x List.mem_cons_self
      simp only [List.filter_cons, beq_self_eq_true, if_true, List.length_cons] at this
      have hmem : y ∈ g.filter (fun z => z.key == x.key) := by
        rw [List.mem_filter]; exact ⟨hy, by simp [hk]⟩
      have hpos : 0 < (g.filter (fun z => z.key == x.key)).length := List.length_pos_of_mem hmem
      omega
    · apply ih
      intro m hm
      have h1 := h m (List.mem_cons_of_mem _ hm)
      have hmem : m ∈ g.filter (fun z => z.key == m.key) := by
        rw [List.mem_filter]; exact ⟨hm, by simp⟩
      have hpos : 0 < (g.filter (fun z => z.key == m.key)).length := List.length_pos_of_mem hmem
      simp only [List.filter_cons] at h1
      split at h1
      · simp only [List.length_cons] at h1; omega
      · exact h1

theorem not_adjacentEqual_of_strict (ks : List Nat) (h : ks.Pairwise (fun a b => a < b)) : adjacentEqual ks = false := by
  induction ks with
  | nil => rfl
  | cons a ks ih =>
    cases ks with
    | nil => rfl
    | cons b ks' =>
      rw [List.pairwise_cons] at h
      simp only [adjacentEqual, Bool.or_eq_false_iff, beq_eq_false_iff_ne, ne_eq]
      exact ⟨by have := h.1 b List.mem_cons_self; omega, ih h.2⟩

/-- pairwise different keys pass the `windows(2)` check of the sorted keys -/
theorem sorted_check_of_distinctKeys (g : List MatrixData) (hd : DistinctKeys g) :
    adjacentEqual ((sortByKey g).map MatrixData.key) = false := by
  apply not_adjacentEqual_of_strict
  rw [List.pairwise_map]
  have hne : (sortByKey g).Pairwise (fun a b => a.key ≠ b.key) := by
    have hsym : ∀ {a b : MatrixData}, a.key ≠ b.key → b.key ≠ a.key := fun hab => Ne.symm hab
    exact (List.Perm.pairwise_iff (R := fun a b : MatrixData => a.key ≠ b.key) hsym (sortByKey_perm g)).mpr hd
  have hle := sortByKey_sorted g
  have := hle.and hne
  exact this.imp (fun hab => by omega)

/-- **build_accepts_well_formed**: every set the specification calls well formed is accepted, with the right size -/
theorem build_accepts_well_formed (ms : List MatrixData) (n : Nat) (h : wellFormed ms n = true) :
    ∃ pr, build ms = .ok pr ∧ pr.size = n := by
  unfold wellFormed at h
  simp only [Bool.and_eq_true, Bool.or_eq_true, Bool.not_eq_true', List.all_eq_true, beq_iff_eq, bne_iff_ne, ne_eq,
    List.mem_range] at h
  obtain ⟨⟨hne, hdim⟩, hkind⟩ := h
  cases ms with
  | nil => simp at hne
  | cons first rest =>
    have hsz : sqrtRound first.durations.length = n := by
      rw [(hdim first List.mem_cons_self).1, sqrtRound_sq]
    have c1 : ¬ ((first :: rest).any (fun m => m.distances.length != m.durations.length) = true) := by
      rw [List.any_eq_true]; rintro ⟨m, hm, hbad⟩
      rw [(hdim m hm).1, (hdim m hm).2] at hbad; simp at hbad
    have c2 : ¬ ((first :: rest).any (fun m => sqrtRound m.distances.length != sqrtRound first.durations.length) = true) := by
      rw [List.any_eq_true]; rintro ⟨m, hm, hbad⟩
      rw [(hdim m hm).2, sqrtRound_sq, hsz] at hbad; simp at hbad
    have c3 : ¬ ((first :: rest).any (fun m => sqrtRound m.durations.length != sqrtRound first.durations.length) = true) := by
      rw [List.any_eq_true]; rintro ⟨m, hm, hbad⟩
      rw [(hdim m hm).1, sqrtRound_sq, hsz] at hbad; simp at hbad
    have c3b : ¬ ((first :: rest).any (fun m => m.durations.length !=
        sqrtRound first.durations.length * sqrtRound first.durations.length) = true) := by
      rw [List.any_eq_true]; rintro ⟨m, hm, hbad⟩
      rw [(hdim m hm).1, hsz] at hbad; simp at hbad
    unfold build
    simp only [c1, c2, c3, c3b, if_false, Bool.false_eq_true]
    rcases hkind with ⟨hunt, hone⟩ | ⟨htimed, hgroups⟩
    · -- untimed
      have c4 : ¬ ((first :: rest).any (fun m => m.timestamp.isSome) = true) := by
        rw [List.any_eq_true]; rintro ⟨m, hm, hbad⟩
        have := hunt m hm
        cases hts : m.timestamp with
        | none => rw [hts] at hbad; cases hbad
        | some _ => rw [hts] at this; cases this
      simp only [c4, if_false, Bool.false_eq_true]
      unfold newAgnostic
      have c5 : ¬ ((sortByIndex (first :: rest)).any (fun m => m.timestamp.isSome) = true) := by
        rw [List.any_eq_true]; rintro ⟨m, hm, hbad⟩
        exact c4 (List.any_eq_true.mpr ⟨m, (sortByIndex_perm _).mem_iff.mp hm, hbad⟩)
      have c6 := sorted_is_range (first :: rest) hone
      simp only [c5, c6, if_false, Bool.false_eq_true, Bool.not_true]
      exact ⟨_, rfl, hsz⟩
    · -- timed
      have c4 : (first :: rest).any (fun m => m.timestamp.isSome) = true :=
        List.any_eq_true.mpr ⟨first, List.mem_cons_self, htimed first List.mem_cons_self⟩
      simp only [c4, if_true]
      unfold newAware
      have c5 : ¬ ((first :: rest).any (fun m => m.timestamp.isNone) = true) := by
        rw [List.any_eq_true]; rintro ⟨m, hm, hbad⟩
        have := htimed m hm
        cases hts : m.timestamp with
        | none => rw [hts] at this; cases this
        | some _ => rw [hts] at hbad; cases hbad
      have c6 : ¬ ((first :: rest).any (fun m => (groupOf (first :: rest) m.index).length == 1) = true) := by
        rw [List.any_eq_true]; rintro ⟨m, hm, hbad⟩
        have e : groupOf (first :: rest) m.index = supplied (first :: rest) m.index := rfl
        rw [e] at hbad
        exact (hgroups m hm).1 (by simpa using hbad)
      have c7 : ¬ ((first :: rest).any (fun m =>
          adjacentEqual ((sortByKey (groupOf (first :: rest) m.index)).map MatrixData.key)) = true) := by
        rw [List.any_eq_true]; rintro ⟨m, hm, hbad⟩
        have hd : DistinctKeys (groupOf (first :: rest) m.index) := by
          apply distinctKeys_of_count
          intro x hx
          have hxm : x ∈ first :: rest := (List.mem_filter.mp hx).1
          have hxi : x.index = m.index := by simpa using (List.mem_filter.mp hx).2
          have := (hgroups x hxm).2
          rw [hxi] at this
          exact this
        rw [sorted_check_of_distinctKeys _ hd] at hbad
        cases hbad
      simp only [c5, c6, c7, if_false, Bool.false_eq_true]
      exact ⟨_, rfl, hsz⟩

/-- a well-formed timed set has pairwise different keys within every profile (the hypothesis D2 of the theorems) -/
theorem wellFormed_distinct (ms : List MatrixData) (n : Nat) (h : wellFormed ms n = true)
    (ht : ∃ m ∈ ms, m.timestamp.isSome = true) (p : Nat) : DistinctKeys (supplied ms p) := by
  unfold wellFormed at h
  simp only [Bool.and_eq_true, Bool.or_eq_true, Bool.not_eq_true', List.all_eq_true, beq_iff_eq, bne_iff_ne, ne_eq,
    List.mem_range] at h
  obtain ⟨_, hkind⟩ := h
  rcases hkind with ⟨hunt, _⟩ | ⟨_, hgroups⟩
  · obtain ⟨m, hm, hs⟩ := ht
    have := hunt m hm
    cases hts : m.timestamp with
    | none => rw [hts] at hs; cases hs
    | some _ => rw [hts] at this; cases this
  · apply distinctKeys_of_count
    intro m hm
    have hmm : m ∈ ms := (List.mem_filter.mp hm).1
    have hmi : m.index = p := by simpa using (List.mem_filter.mp hm).2
    have := (hgroups m hmm).2
    rw [hmi] at this
    exact this

end C16
