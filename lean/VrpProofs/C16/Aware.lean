import VrpProofs.C16.Search
/-!
# C16 — the time-aware provider: sort + bracket search = order-free selection
-/
set_option linter.unusedSimpArgs false
set_option linter.unusedVariables false

namespace C16

/-- no two matrices of the list share a `u64` key -/
def DistinctKeys (g : List MatrixData) : Prop := g.Pairwise (fun a b => a.key ≠ b.key)

theorem DistinctKeys.eq_of_key {g : List MatrixData} (h : DistinctKeys g) {a b : MatrixData}
    (ha : a ∈ g) (hb : b ∈ g) (hk : a.key = b.key) : a = b := by
  unfold DistinctKeys at h
  induction g with
  | nil => simp at ha
  | cons x g ih =>
    rw [List.pairwise_cons] at h
    rcases List.mem_cons.mp ha with ha1 | ha1 <;> rcases List.mem_cons.mp hb with hb1 | hb1
    · rw [ha1, hb1]
    · subst ha1; exact absurd hk (h.1 b hb1)
    · subst hb1; exact absurd hk.symm (h.1 a ha1)
    · exact ih h.2 ha1 hb1

theorem sortByKey_perm (g : List MatrixData) : (sortByKey g).Perm g := List.mergeSort_perm _ _

theorem mem_sortByKey (g : List MatrixData) (m : MatrixData) : m ∈ sortByKey g ↔ m ∈ g :=
  (sortByKey_perm g).mem_iff

theorem sortByKey_sorted (g : List MatrixData) : (sortByKey g).Pairwise (fun a b => a.key ≤ b.key) := by
  have h := List.pairwise_mergeSort (le := fun (a b : MatrixData) => decide (a.key ≤ b.key))
    (fun a b c hab hbc => by simp only [decide_eq_true_eq] at *; omega)
    (fun a b => by simp only [Bool.or_eq_true, decide_eq_true_eq]; omega) g
  unfold sortByKey
  exact h.imp (fun hab => by simpa using hab)

theorem sortByKey_length (g : List MatrixData) : (sortByKey g).length = g.length := (sortByKey_perm g).length_eq

theorem filter_map_key_length (S : List MatrixData) (p : Nat → Bool) :
    ((S.map MatrixData.key).filter p).length = (S.filter (fun m => p m.key)).length := by
  rw [List.filter_map, List.length_map]
  rfl

/-- exact hit: the search returns the position of the matrix whose key is the query's -/
theorem search_ok (S : List MatrixData) (hs : S.Pairwise (fun a b => a.key ≤ b.key))
    (hd : ∀ a ∈ S, ∀ b ∈ S, a.key = b.key → a = b) (k : Nat) (m : MatrixData) (hm : m ∈ S) (hk : m.key = k) :
    ∃ i, searchKeys (S.map MatrixData.key) k = .ok i ∧ S[i]? = some m := by
  unfold searchKeys
  have hc : (S.map MatrixData.key).contains k = true := by
    rw [List.contains_iff_mem]
    exact List.mem_map.mpr ⟨m, hm, hk⟩
  rw [if_pos hc]
  refine ⟨_, rfl, ?_⟩
  rw [filter_map_key_length]
  have hb := sorted_bracket MatrixData.key S hs (k + 1)
    (S.filter (fun x => decide (x.key < k + 1))).length rfl
  have hfe : (S.filter (fun m => decide (m.key ≤ k))) = (S.filter (fun x => decide (x.key < k + 1))) := by
    apply List.filter_congr
    intro x _
    simp only [decide_eq_decide]
    omega
  rw [hfe]
  have hpos : 0 < (S.filter (fun x => decide (x.key < k + 1))).length := by
    apply List.length_pos_iff.mpr
    intro h
    have : m ∈ S.filter (fun x => decide (x.key < k + 1)) := by
      rw [List.mem_filter]; exact ⟨hm, by simp; omega⟩
    rw [h] at this
    simp at this
  obtain ⟨l, hl, hlS, hlk, hmax⟩ := hb.2.1 hpos
  have : l.key = m.key := by
    have := hmax m hm (by omega)
    omega
  rw [hl, hd l hlS m hm this]

/-- no hit: the search returns the number of keys below the query's -/
theorem search_err (S : List MatrixData) (k : Nat) (hk : ∀ m ∈ S, m.key ≠ k) :
    searchKeys (S.map MatrixData.key) k = .error (S.filter (fun x => decide (x.key < k))).length := by
  unfold searchKeys
  have hc : ¬ ((S.map MatrixData.key).contains k = true) := by
    rw [List.contains_iff_mem]
    intro h
    obtain ⟨m, hm, hmk⟩ := List.mem_map.mp h
    exact hk m hm hmk
  rw [if_neg hc, filter_map_key_length]

/-! ### unfolding the `match` of `interpolate_duration` / `interpolate_distance` -/

theorem interpDurationRaw_ok (S : List MatrixData) (idx : Nat) (t : Rat) (i : Nat)
    (h : searchKeys (S.map MatrixData.key) (keyOfRat t) = .ok i) :
    interpDurationRaw S idx t = (S[i]?).bind (durAt · idx) := by
  unfold interpDurationRaw; rw [h]

theorem interpDistanceRaw_ok (S : List MatrixData) (idx : Nat) (t : Rat) (i : Nat)
    (h : searchKeys (S.map MatrixData.key) (keyOfRat t) = .ok i) :
    interpDistanceRaw S idx t = (S[i]?).bind (distAt · idx) := by
  unfold interpDistanceRaw; rw [h]

theorem interpDurationRaw_err_zero (S : List MatrixData) (idx : Nat) (t : Rat)
    (h : searchKeys (S.map MatrixData.key) (keyOfRat t) = .error 0) :
    interpDurationRaw S idx t = S.head?.bind (durAt · idx) := by
  unfold interpDurationRaw; rw [h]; rfl

theorem interpDistanceRaw_err_zero (S : List MatrixData) (idx : Nat) (t : Rat)
    (h : searchKeys (S.map MatrixData.key) (keyOfRat t) = .error 0) :
    interpDistanceRaw S idx t = S.head?.bind (distAt · idx) := by
  unfold interpDistanceRaw; rw [h]; rfl

theorem interpDurationRaw_err_len (S : List MatrixData) (idx : Nat) (t : Rat) (hS : S ≠ [])
    (h : searchKeys (S.map MatrixData.key) (keyOfRat t) = .error S.length) :
    interpDurationRaw S idx t = S.getLast?.bind (durAt · idx) := by
  unfold interpDurationRaw; rw [h]
  have : S.length ≠ 0 := fun e => hS (List.length_eq_zero_iff.mp e)
  cases hl : S.length with
  | zero => exact absurd hl this
  | succ n => simp

theorem interpDistanceRaw_err_len (S : List MatrixData) (idx : Nat) (t : Rat) (hS : S ≠ [])
    (h : searchKeys (S.map MatrixData.key) (keyOfRat t) = .error S.length) :
    interpDistanceRaw S idx t = S.getLast?.bind (distAt · idx) := by
  unfold interpDistanceRaw; rw [h]
  have : S.length ≠ 0 := fun e => hS (List.length_eq_zero_iff.mp e)
  cases hl : S.length with
  | zero => exact absurd hl this
  | succ n => simp

theorem interpDurationRaw_err_mid (S : List MatrixData) (idx : Nat) (t : Rat) (i : Nat) (h0 : i ≠ 0)
    (hlen : i ≠ S.length) (l r : MatrixData) (hl : S[i - 1]? = some l) (hr : S[i]? = some r)
    (h : searchKeys (S.map MatrixData.key) (keyOfRat t) = .error i) :
    interpDurationRaw S idx t =
      match durAt l idx, durAt r idx with
      | some lv, some rv =>
        some (lv + (t - ((l.timestamp.getD 0 : Int) : Rat)) /
          (((r.timestamp.getD 0 : Int) : Rat) - ((l.timestamp.getD 0 : Int) : Rat)) * (rv - lv))
      | _, _ => none := by
  unfold interpDurationRaw; rw [h]
  cases i with
  | zero => exact absurd rfl h0
  | succ n =>
    have : ((n + 1) == S.length) = false := by simpa using hlen
    simp only [this, Bool.false_eq_true, if_false]
    simp only [Nat.add_sub_cancel] at hl ⊢
    rw [hl, hr]; rfl

theorem interpDistanceRaw_err_mid (S : List MatrixData) (idx : Nat) (t : Rat) (i : Nat) (h0 : i ≠ 0)
    (hlen : i ≠ S.length) (l : MatrixData) (hl : S[i - 1]? = some l)
    (h : searchKeys (S.map MatrixData.key) (keyOfRat t) = .error i) :
    interpDistanceRaw S idx t = distAt l idx := by
  unfold interpDistanceRaw; rw [h]
  cases i with
  | zero => exact absurd rfl h0
  | succ n =>
    have : ((n + 1) == S.length) = false := by simpa using hlen
    simp only [this, Bool.false_eq_true, if_false]
    simp only [Nat.add_sub_cancel] at hl ⊢
    rw [hl]; rfl

/-! ### what the sorted search selects, stated on the unsorted group -/

section selection
variable (g : List MatrixData) (hd : DistinctKeys g)
include hd

theorem sorted_facts :
    (sortByKey g).Pairwise (fun a b => a.key ≤ b.key) ∧
    (∀ a ∈ sortByKey g, ∀ b ∈ sortByKey g, a.key = b.key → a = b) :=
  ⟨sortByKey_sorted g, fun a ha b hb hk => hd.eq_of_key ((mem_sortByKey g a).mp ha) ((mem_sortByKey g b).mp hb) hk⟩

/-- exact hit -/
theorem select_exact (t : Rat) (m : MatrixData) (hm : m ∈ g) (hk : m.key = keyOfRat t) (idx : Nat) :
    interpDurationRaw (sortByKey g) idx t = durAt m idx ∧ interpDistanceRaw (sortByKey g) idx t = distAt m idx := by
  obtain ⟨hs, hu⟩ := sorted_facts g hd
  obtain ⟨i, hi, hget⟩ := search_ok (sortByKey g) hs hu (keyOfRat t) m ((mem_sortByKey g m).mpr hm) hk
  rw [interpDurationRaw_ok _ _ _ i hi, interpDistanceRaw_ok _ _ _ i hi, hget]
  exact ⟨rfl, rfl⟩

/-- before the first matrix -/
theorem select_first (t : Rat) (f : MatrixData) (hf : f ∈ g) (hall : ∀ x ∈ g, keyOfRat t < x.key)
    (hmin : ∀ x ∈ g, f.key ≤ x.key) (idx : Nat) :
    interpDurationRaw (sortByKey g) idx t = durAt f idx ∧ interpDistanceRaw (sortByKey g) idx t = distAt f idx := by
  obtain ⟨hs, hu⟩ := sorted_facts g hd
  have hne : ∀ m ∈ sortByKey g, m.key ≠ keyOfRat t := fun m hm => by
    have := hall m ((mem_sortByKey g m).mp hm); omega
  have herr := search_err (sortByKey g) (keyOfRat t) hne
  have hb := sorted_bracket MatrixData.key (sortByKey g) hs (keyOfRat t) _ rfl
  have h0 : ((sortByKey g).filter (fun x => decide (x.key < keyOfRat t))).length = 0 :=
    hb.2.2.2.mpr (fun x hx => by have := hall x ((mem_sortByKey g x).mp hx); omega)
  rw [h0] at herr
  rw [interpDurationRaw_err_zero _ _ _ herr, interpDistanceRaw_err_zero _ _ _ herr]
  have hfS : f ∈ sortByKey g := (mem_sortByKey g f).mpr hf
  obtain ⟨h, hh⟩ : ∃ h, (sortByKey g).head? = some h := by
    cases hc : (sortByKey g).head? with
    | none => rw [List.head?_eq_none_iff] at hc; rw [hc] at hfS; simp at hfS
    | some h => exact ⟨h, rfl⟩
  have hhS : h ∈ sortByKey g := List.mem_of_head? hh
  have h1 := pairwise_head MatrixData.key _ hs h hh f hfS
  have h2 := hmin h ((mem_sortByKey g h).mp hhS)
  have : h = f := hu h hhS f hfS (by omega)
  rw [hh, this]
  exact ⟨rfl, rfl⟩

/-- after the last matrix -/
theorem select_last (t : Rat) (z : MatrixData) (hz : z ∈ g) (hall : ∀ x ∈ g, x.key < keyOfRat t)
    (hmax : ∀ x ∈ g, x.key ≤ z.key) (idx : Nat) :
    interpDurationRaw (sortByKey g) idx t = durAt z idx ∧ interpDistanceRaw (sortByKey g) idx t = distAt z idx := by
  obtain ⟨hs, hu⟩ := sorted_facts g hd
  have hne : ∀ m ∈ sortByKey g, m.key ≠ keyOfRat t := fun m hm => by
    have := hall m ((mem_sortByKey g m).mp hm); omega
  have herr := search_err (sortByKey g) (keyOfRat t) hne
  have hb := sorted_bracket MatrixData.key (sortByKey g) hs (keyOfRat t) _ rfl
  have hlen : ((sortByKey g).filter (fun x => decide (x.key < keyOfRat t))).length = (sortByKey g).length :=
    hb.2.2.1.mpr (fun x hx => hall x ((mem_sortByKey g x).mp hx))
  rw [hlen] at herr
  have hzS : z ∈ sortByKey g := (mem_sortByKey g z).mpr hz
  have hSne : sortByKey g ≠ [] := fun e => by rw [e] at hzS; simp at hzS
  rw [interpDurationRaw_err_len _ _ _ hSne herr, interpDistanceRaw_err_len _ _ _ hSne herr]
  obtain ⟨h, hh⟩ : ∃ h, (sortByKey g).getLast? = some h := by
    cases hc : (sortByKey g).getLast? with
    | none => exact absurd (List.getLast?_eq_none_iff.mp hc) hSne
    | some h => exact ⟨h, rfl⟩
  have hhS : h ∈ sortByKey g := List.mem_of_getLast? hh
  have h1 := pairwise_getLast MatrixData.key _ hs h hh z hzS
  have h2 := hmax h ((mem_sortByKey g h).mp hhS)
  have : h = z := hu h hhS z hzS (by omega)
  rw [hh, this]
  exact ⟨rfl, rfl⟩

/-- strictly between two matrices: `l` has the greatest key below the query's, `r` the least above -/
theorem select_between (t : Rat) (l r : MatrixData) (hl : l ∈ g) (hr : r ∈ g)
    (hlk : l.key < keyOfRat t) (hkr : keyOfRat t < r.key)
    (hmax : ∀ x ∈ g, x.key < keyOfRat t → x.key ≤ l.key) (hmin : ∀ x ∈ g, keyOfRat t < x.key → r.key ≤ x.key)
    (hnone : ∀ x ∈ g, x.key ≠ keyOfRat t) (idx : Nat) :
    interpDurationRaw (sortByKey g) idx t =
      (match durAt l idx, durAt r idx with
       | some lv, some rv =>
         some (lv + (t - ((l.timestamp.getD 0 : Int) : Rat)) /
           (((r.timestamp.getD 0 : Int) : Rat) - ((l.timestamp.getD 0 : Int) : Rat)) * (rv - lv))
       | _, _ => none) ∧
    interpDistanceRaw (sortByKey g) idx t = distAt l idx := by
  obtain ⟨hs, hu⟩ := sorted_facts g hd
  have hne : ∀ m ∈ sortByKey g, m.key ≠ keyOfRat t := fun m hm => hnone m ((mem_sortByKey g m).mp hm)
  have herr := search_err (sortByKey g) (keyOfRat t) hne
  have hb := sorted_bracket MatrixData.key (sortByKey g) hs (keyOfRat t) _ rfl
  generalize hi : ((sortByKey g).filter (fun x => decide (x.key < keyOfRat t))).length = i at herr hb
  have hlS : l ∈ sortByKey g := (mem_sortByKey g l).mpr hl
  have hrS : r ∈ sortByKey g := (mem_sortByKey g r).mpr hr
  have h0 : i ≠ 0 := fun e => (hb.2.2.2.mp e) l hlS hlk
  have hlen : i ≠ (sortByKey g).length := fun e => by
    have := (hb.2.2.1.mp e) r hrS; omega
  have hile : i ≤ (sortByKey g).length := by rw [← hi]; exact List.length_filter_le _ _
  obtain ⟨l', hl'get, hl'S, hl'k, hl'max⟩ := hb.2.1 (by omega)
  have hll : l' = l := hu l' hl'S l hlS (by
    have := hl'max l hlS hlk
    have := hmax l' ((mem_sortByKey g l').mp hl'S) hl'k
    omega)
  obtain ⟨r', hr'get⟩ : ∃ r', (sortByKey g)[i]? = some r' := by
    have : i < (sortByKey g).length := by omega
    exact ⟨(sortByKey g)[i], List.getElem?_eq_getElem this⟩
  obtain ⟨hr'S, hr'k, hr'min⟩ := hb.1 r' hr'get
  have hr'gt : keyOfRat t < r'.key := by
    have := hne r' hr'S; omega
  have hrr : r' = r := hu r' hr'S r hrS (by
    have := hr'min r hrS (by omega)
    have := hmin r' ((mem_sortByKey g r').mp hr'S) hr'gt
    omega)
  rw [hll] at hl'get
  rw [hrr] at hr'get
  exact ⟨interpDurationRaw_err_mid _ _ _ i h0 hlen l r hl'get hr'get herr,
         interpDistanceRaw_err_mid _ _ _ i h0 hlen l hl'get herr⟩

end selection

end C16
