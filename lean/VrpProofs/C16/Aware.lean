import VrpProofs.C16.Search
/-!
# C16 — the time-aware provider: sort + bracket search = order-free selection
-/
set_option linter.unusedSimpArgs false
set_option linter.unusedVariables false

namespace C16

/-- no two matrices of the list share a `u64` key -/
def DistinctKeys (g : List MatrixData) : Prop := g.Pairwise (fun a b => a.key ≠ b.key)

theorem DistinctKeys.eq_of_key {g : List MatrixData} (h : DistinctKeys g) {a b : MatrixData}
    (ha : a ∈ g) (hb : b ∈ g) (hk : a.key = b.key) : a = b := by
  unfold DistinctKeys at h
  induction g with
  | nil => simp at ha
  | cons x g ih =>
    rw [List.pairwise_cons] at h
    rcases List.mem_cons.mp ha with ha1 | ha1 <;> rcases List.mem_cons.mp hb with hb1 | hb1
    · rw [ha1, hb1]
    · subst ha1; exact absurd hk (h.1 b hb1)
    · subst hb1; exact absurd hk.symm (h.1 a ha1)
    · exact ih h.2 ha1 hb1

theorem sortByKey_perm (g : List MatrixData) : (sortByKey g).Perm g := List.mergeSort_perm _ _

theorem mem_sortByKey (g : List MatrixData) (m : MatrixData) : m ∈ sortByKey g ↔ m ∈ g :=
  (sortByKey_perm g).mem_iff

theorem sortByKey_sorted (g : List MatrixData) : (sortByKey g).Pairwise (fun a b => a.key ≤ b.key) := by
  have h := List.pairwise_mergeSort (le := fun (a b : MatrixData) => decide (a.key ≤ b.key))
    (fun a b c hab hbc => by simp only [decide_eq_true_eq] at *; omega)
    (fun a b => by simp only [Bool.or_eq_true, decide_eq_true_eq]; omega) g
  unfold sortByKey
  exact h.imp (fun hab => by simpa using hab)

theorem sortByKey_length (g : List MatrixData) : (sortByKey g).length = g.length := (sortByKey_perm g).length_eq

theorem filter_map_key_length (S : List MatrixData) (p : Nat → Bool) :
    ((S.map MatrixData.key).filter p).length = (S.filter (fun m => p m.key)).length := by
  rw [List.filter_map, List.length_map]
  rfl

/-- exact hit: the search returns the position of the matrix whose key is the query's -/
theorem search_ok (S : List MatrixData) (hs : S.Pairwise (fun a b => a.key ≤ b.key))
    (hd : ∀ a ∈ S, ∀ b ∈ S, a.key = b.key → a = b) (k : Nat) (m : MatrixData) (hm : m ∈ S) (hk : m.key = k) :
    ∃ i, searchKeys (S.map MatrixData.key) k = .ok i ∧ S[i]? = some m := by
  unfold searchKeys
  have hc : (S.map MatrixData.key).contains k = true := by
    rw [List.contains_iff_mem]
    exact List.mem_map.mpr ⟨m, hm, hk⟩
  rw [if_pos hc]
  refine ⟨_, rfl, ?_⟩
  rw [filter_map_key_length]
  have hb := sorted_bracket MatrixData.key S hs (k + 1)
    (S.filter (fun x => decide (x.key < k + 1))).length rfl
  have hfe : (S.filter (fun m => decide (m.key ≤ k))) = (S.filter (fun x => decide (x.key < k + 1))) := by
    apply List.filter_congr
    intro x _
    simp only [decide_eq_decide]
    omega
  rw [hfe]
  have hpos : 0 < (S.filter (fun x => decide (x.key < k + 1))).length := by
    apply List.length_pos_iff.mpr
    intro h
    have : m ∈ S.filter (fun x => decide (x.key < k + 1)) := by
      rw [List.mem_filter]; exact ⟨hm, by simp; omega⟩
    rw [h] at this
    simp at this
  obtain ⟨l, hl, hlS, hlk, hmax⟩ := hb.2.1 hpos
  have : l.key = m.key := by
    have := hmax m hm (by omega)
    omega
  rw [hl, hd l hlS m hm this]

/-- no hit: the search returns the number of keys below the query's -/
theorem search_err (S : List MatrixData) (k : Nat) (hk : ∀ m ∈ S, m.key ≠ k) :
    searchKeys (S.map MatrixData.key) k = .error (S.filter (fun x => decide (x.key < k))).length := by
  unfold searchKeys
  have hc : ¬ ((S.map MatrixData.key).contains k = true) := by
    rw [List.contains_iff_mem]
    intro h
    obtain ⟨m, hm, hmk⟩ := List.mem_map.mp h
    exact hk m hm hmk
  rw [if_neg hc, filter_map_key_length]

/-- what the model's bracket search selects, as a relation between the unsorted group, the query key and the result -/
inductive Selected (g : List MatrixData) (k : Nat) : Type where
  /-- a matrix with exactly the query's key -/
  | exact (m : MatrixData) (hm : m ∈ g) (hk : m.key = k)
  /-- every key is above: the matrix with the least key -/
  | first (m : MatrixData) (hm : m ∈ g) (hall : ∀ x ∈ g, k < x.key) (hmin : ∀ x ∈ g, m.key ≤ x.key)
  /-- every key is below: the matrix with the greatest key -/
  | last (m : MatrixData) (hm : m ∈ g) (hall : ∀ x ∈ g, x.key < k) (hmax : ∀ x ∈ g, x.key ≤ m.key)
  /-- the greatest key below and the least key above -/
  | between (l r : MatrixData) (hl : l ∈ g) (hr : r ∈ g) (hlk : l.key < k) (hkr : k < r.key)
      (hmax : ∀ x ∈ g, x.key < k → x.key ≤ l.key) (hmin : ∀ x ∈ g, k < x.key → r.key ≤ x.key)

end C16
