import VrpModel.C16
import Mathlib.Data.Nat.Sqrt
import Mathlib.Tactic.Ring
import Mathlib.Tactic.Linarith
import Mathlib.Tactic.FieldSimp
/-!
# C16 — helper lemmas: numbers, flat index, interpolation arithmetic, sorted lists
-/
set_option linter.unusedSimpArgs false
set_option linter.unusedVariables false

namespace C16

/-! ### `sqrtRound` -/

theorem sqrtRound_sq (n : Nat) : sqrtRound (n * n) = n := by
  unfold sqrtRound
  simp only [Nat.sqrt_eq]
  have : ¬ (n * n + n < n * n) := by omega
  simp [this]

/-- `sqrtRound` only sees the nearest square: `n*n + a` with `a ≤ n` still rounds to `n` (D1) -/
theorem sqrtRound_add (n a : Nat) (h : a ≤ n) : sqrtRound (n * n + a) = n := by
  unfold sqrtRound
  have hs : Nat.sqrt (n * n + a) = n := Nat.sqrt_add_eq n (by omega)
  simp only [hs]
  have : ¬ (n * n + n < n * n + a) := by omega
  simp [this]

/-! ### flat index -/

/-- `index_in_range_partial`: for `from, to < n` the flat index stays inside an `n × n` matrix -/
theorem flatIdx_lt (n frm dst : Nat) (hf : frm < n) (ht : dst < n) : flatIdx n frm dst < n * n := by
  unfold flatIdx
  have h1 : frm * n + n ≤ n * n := by
    have : (frm + 1) * n ≤ n * n := Nat.mul_le_mul_right n hf
    rw [Nat.add_mul, Nat.one_mul] at this
    exact this
  omega

/-- inside the matrix, different pairs address different entries -/
theorem flatIdx_inj (n f t f' t' : Nat) (ht : t < n) (ht' : t' < n) (h : flatIdx n f t = flatIdx n f' t') :
    f = f' ∧ t = t' := by
  unfold flatIdx at h
  have hn : 0 < n := by omega
  have h1 : (f * n + t) / n = f := by
    rw [Nat.mul_comm, Nat.mul_add_div hn, Nat.div_eq_of_lt ht, Nat.add_zero]
  have h2 : (f' * n + t') / n = f' := by
    rw [Nat.mul_comm, Nat.mul_add_div hn, Nat.div_eq_of_lt ht', Nat.add_zero]
  have hf : f = f' := by rw [← h1, ← h2, h]
  subst hf
  exact ⟨rfl, by omega⟩

/-! ### interpolation arithmetic over `Rat` -/

/-- the code's formula `left + ratio * (right - left)` is the straight line through the two bracketing points -/
theorem code_formula_eq_line (t0 t1 lv rv t : Rat) (h : t0 ≠ t1) :
    lv + (t - t0) / (t1 - t0) * (rv - lv) = lineThrough t0 lv t1 rv t := by
  unfold lineThrough
  have hd : t1 - t0 ≠ 0 := sub_ne_zero.mpr (Ne.symm h)
  field_simp
  ring

theorem lineThrough_left (t0 t1 v0 v1 : Rat) (h : t0 ≠ t1) : lineThrough t0 v0 t1 v1 t0 = v0 := by
  unfold lineThrough
  have hd : t1 - t0 ≠ 0 := sub_ne_zero.mpr (Ne.symm h)
  field_simp
  ring

theorem lineThrough_right (t0 t1 v0 v1 : Rat) (h : t0 ≠ t1) : lineThrough t0 v0 t1 v1 t1 = v1 := by
  unfold lineThrough
  have hd : t1 - t0 ≠ 0 := sub_ne_zero.mpr (Ne.symm h)
  field_simp
  ring

/-- linear in time: an affine function `a * t + b` -/
theorem lineThrough_affine (t0 t1 v0 v1 : Rat) (h : t0 ≠ t1) :
    ∀ t, lineThrough t0 v0 t1 v1 t = (v1 - v0) / (t1 - t0) * t + (v0 * t1 - v1 * t0) / (t1 - t0) := by
  intro t
  unfold lineThrough
  have hd : t1 - t0 ≠ 0 := sub_ne_zero.mpr (Ne.symm h)
  field_simp
  ring

/-- between the bracketing timestamps the value stays between the bracketing values -/
theorem lineThrough_hull (t0 t1 v0 v1 t : Rat) (h01 : t0 < t1) (h0 : t0 ≤ t) (h1 : t ≤ t1) :
    min v0 v1 ≤ lineThrough t0 v0 t1 v1 t ∧ lineThrough t0 v0 t1 v1 t ≤ max v0 v1 := by
  unfold lineThrough
  have hd : 0 < t1 - t0 := by linarith
  have ha : 0 ≤ t1 - t := by linarith
  have hb : 0 ≤ t - t0 := by linarith
  constructor
  · rw [le_div_iff₀ hd]
    have e : min v0 v1 * (t1 - t0) = min v0 v1 * (t1 - t) + min v0 v1 * (t - t0) := by ring
    rw [e]
    have := mul_le_mul_of_nonneg_right (min_le_left v0 v1) ha
    have := mul_le_mul_of_nonneg_right (min_le_right v0 v1) hb
    linarith
  · rw [div_le_iff₀ hd]
    have e : max v0 v1 * (t1 - t0) = max v0 v1 * (t1 - t) + max v0 v1 * (t - t0) := by ring
    rw [e]
    have := mul_le_mul_of_nonneg_right (le_max_left v0 v1) ha
    have := mul_le_mul_of_nonneg_right (le_max_right v0 v1) hb
    linarith

/-! ### the `u64` key -/

theorem keyOfInt_lt_imp (a b : Int) (h : keyOfInt a < keyOfInt b) : a < b ∧ 0 < b := by
  unfold keyOfInt at h
  omega

/-- a smaller key than the query's: the timestamp is not after the query time -/
theorem key_lt_query (ts : Int) (t : Rat) (h : keyOfInt ts < keyOfRat t) : (ts : Rat) ≤ t := by
  unfold keyOfRat at h
  have h1 := (keyOfInt_lt_imp _ _ h).1
  have h2 : ts ≤ t.floor := by omega
  exact Rat.le_floor_iff.mp h2

/-- a greater key than the query's: the timestamp is after the query time -/
theorem query_lt_key (ts : Int) (t : Rat) (h : keyOfRat t < keyOfInt ts) : t < (ts : Rat) := by
  unfold keyOfRat at h
  have h1 := (keyOfInt_lt_imp _ _ h).1
  exact Rat.floor_lt_iff.mp h1

theorem key_ne_imp_ts_ne (a b : Int) (h : keyOfInt a ≠ keyOfInt b) : (a : Rat) ≠ (b : Rat) := by
  intro e
  have : a = b := by exact_mod_cast e
  subst this
  exact h rfl

end C16
