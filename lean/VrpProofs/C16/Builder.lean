import VrpProofs.C16.Spec
/-!
# C16 — the builder: what an accepted matrix set looks like; the time-agnostic lookup
-/
set_option linter.unusedSimpArgs false
set_option linter.unusedVariables false

namespace C16

theorem not_any {α : Type} (l : List α) (p : α → Bool) (h : ¬ (l.any p = true)) : ∀ x ∈ l, p x = false := by
  intro x hx
  cases hp : p x with
  | false => rfl
  | true => exact absurd (List.any_eq_true.mpr ⟨x, hx, hp⟩) h

/-- what `TimeAgnosticMatrixTransportCost::new` accepts -/
theorem newAgnostic_ok (ms : List MatrixData) (size : Nat) (pr : Provider) (h : newAgnostic ms size = .ok pr) :
    pr = .agnostic size (sortByIndex ms) ∧ indicesAreRange 0 (sortByIndex ms) = true ∧
    ∀ m ∈ sortByIndex ms, m.timestamp.isSome = false := by
  unfold newAgnostic at h
  simp only at h
  split at h
  · cases h
  · rename_i h1
    split at h
    · cases h
    · rename_i h2
      cases h
      refine ⟨rfl, by simpa using h2, not_any _ _ h1⟩

/-- a sorted list without equal neighbours is strictly increasing -/
theorem strict_of_not_adjacentEqual (S : List MatrixData) (hs : S.Pairwise (fun a b => a.key ≤ b.key))
    (h : adjacentEqual (S.map MatrixData.key) = false) : S.Pairwise (fun a b => a.key < b.key) := by
  induction S with
  | nil => exact List.Pairwise.nil
  | cons x S ih =>
    rw [List.pairwise_cons] at hs ⊢
    cases S with
    | nil => exact ⟨by simp, List.Pairwise.nil⟩
    | cons y S' =>
      simp only [List.map_cons, adjacentEqual, Bool.or_eq_false_iff, beq_eq_false_iff_ne, ne_eq] at h
      have ihs := ih hs.2 h.2
      refine ⟨?_, ihs⟩
      intro z hz
      have hxy : x.key < y.key := by
        have := hs.1 y List.mem_cons_self
        omega
      rcases List.mem_cons.mp hz with e | e
      · rw [e]; exact hxy
      · have := (List.pairwise_cons.mp ihs).1 z e
        omega

/-- `windows(2)` finds no equal neighbours in the sorted keys: the group has pairwise different keys -/
theorem distinctKeys_of_sorted_check (g : List MatrixData)
    (h : adjacentEqual ((sortByKey g).map MatrixData.key) = false) : DistinctKeys g := by
  have hstrict := strict_of_not_adjacentEqual (sortByKey g) (sortByKey_sorted g) h
  have hne : (sortByKey g).Pairwise (fun a b => a.key ≠ b.key) := hstrict.imp (fun hab => by omega)
  unfold DistinctKeys
  exact (List.Perm.pairwise_iff (fun {a b} (hab : a.key ≠ b.key) => Ne.symm hab) (sortByKey_perm g)).mp hne

/-- what `TimeAwareMatrixTransportCost::new` accepts -/
theorem newAware_ok (ms : List MatrixData) (size : Nat) (pr : Provider) (h : newAware ms size = .ok pr) :
    pr = .aware size ms ∧ (∀ m ∈ ms, m.timestamp.isNone = false) ∧
    (∀ m ∈ ms, ((groupOf ms m.index).length == 1) = false) ∧
    ∀ m ∈ ms, DistinctKeys (groupOf ms m.index) := by
  unfold newAware at h
  split at h
  · cases h
  · rename_i h1
    split at h
    · cases h
    · rename_i h2
      split at h
      · cases h
      · rename_i h3
        cases h
        exact ⟨rfl, not_any _ _ h1, not_any _ _ h2,
          fun m hm => distinctKeys_of_sorted_check _ (not_any _ _ h3 m hm)⟩

/-- an accepted set: non-empty, distances and durations of equal length, every length rounds to the common size,
    and either every matrix is timed (time-aware provider over the set) or none (time-agnostic provider) -/
theorem build_ok (ms : List MatrixData) (pr : Provider) (h : build ms = .ok pr) :
    ms ≠ [] ∧
    (∀ m ∈ ms, m.distances.length = m.durations.length) ∧
    (∀ m ∈ ms, m.durations.length = pr.size * pr.size) ∧
    (((∃ m ∈ ms, m.timestamp.isSome = true) ∧ newAware ms pr.size = .ok pr) ∨
     ((∀ m ∈ ms, m.timestamp.isSome = false) ∧ newAgnostic ms pr.size = .ok pr)) := by
  unfold build at h
  cases ms with
  | nil => cases h
  | cons first rest =>
    simp only at h
    split at h
    · cases h
    · rename_i h1
      split at h
      · cases h
      · rename_i h2
        split at h
        · cases h
        · rename_i h3
          have hlen := not_any _ _ h1
          have hdist := not_any _ _ h2
          have hdur := not_any _ _ h3
          have hlen' : ∀ m ∈ first :: rest, m.distances.length = m.durations.length := fun m hm => by
            simpa using hlen m hm
          split at h
          · cases h
          · rename_i hsq
            have hsz : ∀ m ∈ first :: rest,
                m.durations.length = sqrtRound first.durations.length * sqrtRound first.durations.length :=
              fun m hm => by simpa using not_any _ _ hsq m hm
            split at h
            · rename_i h4
              have hpr := (newAware_ok _ _ _ h).1
              have hsize : pr.size = sqrtRound first.durations.length := by rw [hpr]; rfl
              refine ⟨by simp, hlen', fun m hm => by rw [hsize]; exact hsz m hm, Or.inl ⟨?_, by rw [hsize]; exact h⟩⟩
              obtain ⟨m, hm, hp⟩ := List.any_eq_true.mp h4
              exact ⟨m, hm, hp⟩
            · rename_i h4
              have hpr := (newAgnostic_ok _ _ _ h).1
              have hsize : pr.size = sqrtRound first.durations.length := by rw [hpr]; rfl
              exact ⟨by simp, hlen', fun m hm => by rw [hsize]; exact hsz m hm,
                Or.inr ⟨not_any _ _ h4, by rw [hsize]; exact h⟩⟩

/-- with `n × n` matrices the provider's size is `n` -/
theorem build_size (ms : List MatrixData) (pr : Provider) (h : build ms = .ok pr) (n : Nat)
    (hsq : ∀ m ∈ ms, m.durations.length = n * n) : pr.size = n := by
  obtain ⟨hne, _, hsz, _⟩ := build_ok ms pr h
  cases ms with
  | nil => exact absurd rfl hne
  | cons m rest =>
    have h1 := hsz m List.mem_cons_self
    rw [hsq m List.mem_cons_self] at h1
    have h2 : Nat.sqrt (n * n) = Nat.sqrt (pr.size * pr.size) := by rw [h1]
    rw [Nat.sqrt_eq, Nat.sqrt_eq] at h2
    exact h2.symm

/-- a matrix whose number of entries is not the square of the common size is rejected (0684041) -/
theorem builder_rejects_non_square (ms : List MatrixData) (m : MatrixData) (hm : m ∈ ms)
    (h : ∀ k, m.durations.length ≠ k * k) : ∀ pr, build ms ≠ .ok pr := by
  intro pr hb
  exact h pr.size ((build_ok ms pr hb).2.2.1 m hm)

/-! ### each inconsistency class is rejected -/

theorem builder_rejects_empty : build [] = .error .empty := rfl

theorem builder_rejects_length_mismatch (ms : List MatrixData)
    (h : ∃ m ∈ ms, m.distances.length ≠ m.durations.length) : ∀ pr, build ms ≠ .ok pr := by
  intro pr hb
  obtain ⟨m, hm, hne⟩ := h
  exact hne ((build_ok ms pr hb).2.1 m hm)

/-- two square matrices of different dimension -/
theorem builder_rejects_size_mismatch (ms : List MatrixData) (a b : MatrixData) (ha : a ∈ ms) (hb : b ∈ ms)
    (na nb : Nat) (hna : a.durations.length = na * na) (hnb : b.durations.length = nb * nb) (hne : na ≠ nb) :
    ∀ pr, build ms ≠ .ok pr := by
  intro pr h
  have h1 := build_size ms pr h
  obtain ⟨_, _, hsz, _⟩ := build_ok ms pr h
  have e1 : Nat.sqrt (na * na) = Nat.sqrt (pr.size * pr.size) := by rw [← hna, hsz a ha]
  have e2 : Nat.sqrt (nb * nb) = Nat.sqrt (pr.size * pr.size) := by rw [← hnb, hsz b hb]
  rw [Nat.sqrt_eq, Nat.sqrt_eq] at e1 e2
  omega

/-- timed and untimed matrices mixed -/
theorem builder_rejects_mixed_timestamps (ms : List MatrixData) (a b : MatrixData) (ha : a ∈ ms) (hb : b ∈ ms)
    (hat : a.timestamp.isSome = true) (hbt : b.timestamp = none) : ∀ pr, build ms ≠ .ok pr := by
  intro pr h
  obtain ⟨_, _, _, hcase⟩ := build_ok ms pr h
  rcases hcase with ⟨_, haw⟩ | ⟨hall, _⟩
  · have := (newAware_ok _ _ _ haw).2.1 b hb
    rw [hbt] at this
    simp at this
  · have := hall a ha
    rw [hat] at this
    cases this

/-- a profile with a single timed matrix -/
theorem builder_rejects_single_timed (ms : List MatrixData) (a : MatrixData) (ha : a ∈ ms)
    (hat : a.timestamp.isSome = true) (hone : (supplied ms a.index).length = 1) : ∀ pr, build ms ≠ .ok pr := by
  intro pr h
  obtain ⟨_, _, _, hcase⟩ := build_ok ms pr h
  rcases hcase with ⟨_, haw⟩ | ⟨hall, _⟩
  · have := (newAware_ok _ _ _ haw).2.2.1 a ha
    have e : groupOf ms a.index = supplied ms a.index := rfl
    rw [e, hone] at this
    simp at this
  · have := hall a ha
    rw [hat] at this
    cases this

/-- under pairwise different keys a matrix is the only one of its group with its timestamp -/
theorem filter_timestamp_singleton (g : List MatrixData) (hd : DistinctKeys g) (m : MatrixData) (hm : m ∈ g) :
    (g.filter (fun x => x.timestamp == m.timestamp)).length = 1 := by
  induction g with
  | nil => simp at hm
  | cons x g ih =>
    have hd' : DistinctKeys g := (List.pairwise_cons.mp hd).2
    have hhead := (List.pairwise_cons.mp hd).1
    rw [List.filter_cons]
    by_cases hx : (x.timestamp == m.timestamp) = true
    · have hxk : x.key = m.key := by
        unfold MatrixData.key
        rw [show x.timestamp = m.timestamp by simpa using hx]
      have hxm : x = m := hd.eq_of_key List.mem_cons_self hm hxk
      have hnil : g.filter (fun y => y.timestamp == m.timestamp) = [] := by
        rw [List.filter_eq_nil_iff]
        intro y hy hyt
        have hyk : y.key = x.key := by
          unfold MatrixData.key
          rw [show y.timestamp = m.timestamp by simpa using hyt, ← show x.timestamp = m.timestamp by simpa using hx]
        exact hhead y hy hyk.symm
      rw [if_pos hx, hnil]; rfl
    · rw [if_neg hx]
      rcases List.mem_cons.mp hm with e | e
      · subst e; simp at hx
      · exact ih hd' e

/-- two matrices of one profile with the same timestamp (c805ac8) -/
theorem builder_rejects_duplicate_timestamp (ms : List MatrixData) (a : MatrixData) (ha : a ∈ ms)
    (hat : a.timestamp.isSome = true)
    (hdup : ((supplied ms a.index).filter (fun x => x.timestamp == a.timestamp)).length ≠ 1) :
    ∀ pr, build ms ≠ .ok pr := by
  intro pr h
  obtain ⟨_, _, _, hcase⟩ := build_ok ms pr h
  rcases hcase with ⟨_, haw⟩ | ⟨hall, _⟩
  · have hd := (newAware_ok _ _ _ haw).2.2.2 a ha
    have hmem : a ∈ groupOf ms a.index := by
      unfold groupOf; rw [List.mem_filter]; exact ⟨ha, by simp⟩
    exact hdup (filter_timestamp_singleton _ hd a hmem)
  · have := hall a ha
    rw [hat] at this
    cases this

/-! ### the time-agnostic lookup -/

theorem indicesAreRange_get (l : List MatrixData) (k : Nat) (h : indicesAreRange k l = true) (i : Nat)
    (m : MatrixData) (hm : l[i]? = some m) : m.index = k + i := by
  induction l generalizing k i with
  | nil => simp at hm
  | cons x l ih =>
    unfold indicesAreRange at h
    simp only [Bool.and_eq_true, beq_iff_eq] at h
    cases i with
    | zero => simp at hm; subst hm; omega
    | succ j =>
      simp only [List.getElem?_cons_succ] at hm
      have := ih (k + 1) h.2 j hm
      omega

theorem sortByIndex_perm (ms : List MatrixData) : (sortByIndex ms).Perm ms := List.mergeSort_perm _ _

/-- position `m.index` of the sorted list holds `m` itself -/
theorem agnostic_position (ms : List MatrixData) (h : indicesAreRange 0 (sortByIndex ms) = true)
    (m : MatrixData) (hm : m ∈ ms) : (sortByIndex ms)[m.index]? = some m := by
  have hmS : m ∈ sortByIndex ms := (sortByIndex_perm ms).mem_iff.mpr hm
  obtain ⟨i, hi, hget⟩ := List.getElem_of_mem hmS
  have hget' : (sortByIndex ms)[i]? = some m := by rw [List.getElem?_eq_getElem hi, hget]
  have := indicesAreRange_get _ 0 h i m hget'
  rw [this, Nat.zero_add]
  exact hget'

/-- an accepted untimed set has exactly one matrix per profile index -/
theorem agnostic_unique (ms : List MatrixData) (h : indicesAreRange 0 (sortByIndex ms) = true)
    (a b : MatrixData) (ha : a ∈ ms) (hb : b ∈ ms) (hi : a.index = b.index) : a = b := by
  have h1 := agnostic_position ms h a ha
  have h2 := agnostic_position ms h b hb
  rw [hi, h2] at h1
  exact (Option.some.inj h1).symm

theorem indicesAreRange_ge (l : List MatrixData) (k : Nat) (h : indicesAreRange k l = true) :
    ∀ m ∈ l, k ≤ m.index := by
  induction l generalizing k with
  | nil => simp
  | cons x l ih =>
    unfold indicesAreRange at h
    simp only [Bool.and_eq_true, beq_iff_eq] at h
    intro m hm
    rcases List.mem_cons.mp hm with e | e
    · subst e; omega
    · have := ih (k + 1) h.2 m e; omega

theorem indicesAreRange_filter_le_one (l : List MatrixData) (k : Nat) (h : indicesAreRange k l = true) (i : Nat) :
    (l.filter (fun m => m.index == i)).length ≤ 1 := by
  induction l generalizing k with
  | nil => simp
  | cons x l ih =>
    have hx : x.index = k := by
      unfold indicesAreRange at h
      simp only [Bool.and_eq_true, beq_iff_eq] at h
      exact h.1
    have htail : indicesAreRange (k + 1) l = true := by
      unfold indicesAreRange at h
      simp only [Bool.and_eq_true, beq_iff_eq] at h
      exact h.2
    by_cases hi : x.index = i
    · have hnil : l.filter (fun m => m.index == i) = [] := by
        rw [List.filter_eq_nil_iff]
        intro m hm
        have := indicesAreRange_ge l (k + 1) htail m hm
        simp only [beq_iff_eq]
        omega
      simp [List.filter_cons, hi, hnil]
    · have : (x.index == i) = false := by simpa using hi
      simp only [List.filter_cons, this, Bool.false_eq_true, if_false]
      exact ih (k + 1) htail

/-- an accepted untimed set supplies exactly one matrix for the profile index of each of its matrices -/
theorem agnostic_supplied (ms : List MatrixData) (h : indicesAreRange 0 (sortByIndex ms) = true)
    (m : MatrixData) (hm : m ∈ ms) : supplied ms m.index = [m] := by
  have hperm : (supplied ms m.index).Perm ((sortByIndex ms).filter (fun x => x.index == m.index)) :=
    ((sortByIndex_perm ms).filter _).symm
  have hlen : (supplied ms m.index).length ≤ 1 := by
    rw [hperm.length_eq]; exact indicesAreRange_filter_le_one _ 0 h _
  have hmem : m ∈ supplied ms m.index := by
    unfold supplied; rw [List.mem_filter]; exact ⟨hm, by simp⟩
  match hs : supplied ms m.index, hlen, hmem with
  | [], _, hmem => simp at hmem
  | [x], _, hmem => simp at hmem; rw [hmem]
  | _ :: _ :: _, hlen, _ => simp at hlen

/-- the same profile twice in an untimed set -/
theorem builder_rejects_duplicate_profile (ms : List MatrixData) (hunt : ∀ m ∈ ms, m.timestamp = none)
    (p : Nat) (hdup : 2 ≤ (supplied ms p).length) : ∀ pr, build ms ≠ .ok pr := by
  intro pr h
  obtain ⟨_, _, _, hcase⟩ := build_ok ms pr h
  rcases hcase with ⟨⟨m, hm, hs⟩, _⟩ | ⟨_, hag⟩
  · rw [hunt m hm] at hs; cases hs
  · have hr := (newAgnostic_ok _ _ _ hag).2.1
    have hperm : (supplied ms p).Perm ((sortByIndex ms).filter (fun x => x.index == p)) :=
      ((sortByIndex_perm ms).filter _).symm
    have := indicesAreRange_filter_le_one _ 0 hr p
    rw [← hperm.length_eq] at this
    omega

/-- a missing profile in an untimed set: some index below the number of matrices has no matrix -/
theorem builder_rejects_missing_profile (ms : List MatrixData) (hunt : ∀ m ∈ ms, m.timestamp = none)
    (p : Nat) (hp : p < ms.length) (hmiss : supplied ms p = []) : ∀ pr, build ms ≠ .ok pr := by
  intro pr h
  obtain ⟨_, _, _, hcase⟩ := build_ok ms pr h
  rcases hcase with ⟨⟨m, hm, hs⟩, _⟩ | ⟨_, hag⟩
  · rw [hunt m hm] at hs; cases hs
  · have hr := (newAgnostic_ok _ _ _ hag).2.1
    have hlen : (sortByIndex ms).length = ms.length := (sortByIndex_perm ms).length_eq
    have hlt : p < (sortByIndex ms).length := by omega
    have hget : (sortByIndex ms)[p]? = some (sortByIndex ms)[p] := List.getElem?_eq_getElem hlt
    have hidx := indicesAreRange_get _ 0 hr p _ hget
    have hmem : (sortByIndex ms)[p] ∈ ms := (sortByIndex_perm ms).mem_iff.mp (List.getElem_mem hlt)
    have : (sortByIndex ms)[p] ∈ supplied ms p := by
      unfold supplied; rw [List.mem_filter]; exact ⟨hmem, by simp; omega⟩
    rw [hmiss] at this
    simp at this

end C16
