import VrpProofs.C16.Builder
/-!
# C16 — queries against an accepted provider (helper lemmas for the property theorems)
-/
set_option linter.unusedSimpArgs false
set_option linter.unusedVariables false

namespace C16

theorem orFallback_some (x : Rat) (fb : Option Int) : orFallback (some x) fb = some x := rfl

/-- entries inside an `n × n` matrix exist -/
theorem entry_exists (l : List Int) (n frm dst : Nat) (hl : l.length = n * n) (hf : frm < n) (hd : dst < n) :
    ∃ v, l[frm * n + dst]? = some v := by
  have := flatIdx_lt n frm dst hf hd
  unfold flatIdx at this
  exact ⟨l[frm * n + dst]'(by omega), List.getElem?_eq_getElem (by omega)⟩

/-- an accepted untimed set: the provider is the time-agnostic one over the sorted matrices -/
theorem build_untimed (ms : List MatrixData) (pr : Provider) (hb : build ms = .ok pr)
    (hunt : ∀ m ∈ ms, m.timestamp = none) :
    pr = .agnostic pr.size (sortByIndex ms) ∧ indicesAreRange 0 (sortByIndex ms) = true := by
  obtain ⟨hne, _, _, hcase⟩ := build_ok ms pr hb
  rcases hcase with ⟨⟨m, hm, hs⟩, _⟩ | ⟨_, hag⟩
  · rw [hunt m hm] at hs; cases hs
  · obtain ⟨h1, h2, _⟩ := newAgnostic_ok _ _ _ hag
    exact ⟨h1, h2⟩

/-- an accepted set with a timed matrix: all are timed, no profile has a single matrix, the keys within every profile
    are pairwise different, the provider is time-aware -/
theorem build_timed (ms : List MatrixData) (pr : Provider) (hb : build ms = .ok pr)
    (ht : ∃ m ∈ ms, m.timestamp.isSome = true) :
    pr = .aware pr.size ms ∧ (∀ m ∈ ms, m.timestamp.isSome = true) ∧ (∀ m ∈ ms, (groupOf ms m.index).length ≠ 1) ∧
    ∀ p, DistinctKeys (supplied ms p) := by
  obtain ⟨hne, _, _, hcase⟩ := build_ok ms pr hb
  rcases hcase with ⟨_, haw⟩ | ⟨hall, _⟩
  · obtain ⟨h1, h2, h3, h4⟩ := newAware_ok _ _ _ haw
    refine ⟨h1, fun m hm => ?_, fun m hm => by simpa using h3 m hm, fun p => ?_⟩
    · have := h2 m hm
      cases hts : m.timestamp with
      | none => rw [hts] at this; simp at this
      | some _ => rfl
    · cases hg : supplied ms p with
      | nil => exact List.Pairwise.nil
      | cons x g =>
        have hx : x ∈ supplied ms p := by rw [hg]; exact List.mem_cons_self
        have hxm : x ∈ ms := (List.mem_filter.mp hx).1
        have hxi : x.index = p := by simpa using (List.mem_filter.mp hx).2
        have := h4 x hxm
        rw [hxi] at this
        rw [← hg]; exact this
  · obtain ⟨m, hm, hs⟩ := ht
    rw [hall m hm] at hs; cases hs

/-- unfolding a query against the time-aware provider for a profile that has matrices -/
theorem aware_unfold (size : Nat) (ms : List MatrixData) (fb : Fallback) (p : Profile) (frm dst : Nat) (t : Rat)
    (hg : groupOf ms p.index ≠ []) :
    (Provider.aware size ms).duration fb p frm dst t =
      (orFallback (interpDurationRaw (sortByKey (groupOf ms p.index)) (flatIdx size frm dst) t)
        (fb.map (·.1))).map (· * p.scale) ∧
    (Provider.aware size ms).distance fb p frm dst t =
      orFallback (interpDistanceRaw (sortByKey (groupOf ms p.index)) (flatIdx size frm dst) t) (fb.map (·.2)) := by
  unfold Provider.duration Provider.distance
  simp only
  cases hgr : groupOf ms p.index with
  | nil => exact absurd hgr hg
  | cons x g => exact ⟨trivial, trivial⟩

theorem agnostic_unfold (size : Nat) (mats : List MatrixData) (fb : Fallback) (p : Profile) (frm dst : Nat) (t : Rat)
    (m : MatrixData) (hm : mats[p.index]? = some m) :
    (Provider.agnostic size mats).duration fb p frm dst t =
      (orFallback (durAt m (flatIdx size frm dst)) (fb.map (·.1))).map (· * p.scale) ∧
    (Provider.agnostic size mats).distance fb p frm dst t =
      orFallback (distAt m (flatIdx size frm dst)) (fb.map (·.2)) := by
  unfold Provider.duration Provider.distance
  simp only [hm]
  exact ⟨trivial, trivial⟩

end C16
