import VrpProofs.C16.Provider
/-!
# C16 — the pragmatic reader: profile names → indices, error codes → −1
-/
set_option linter.unusedSimpArgs false
set_option linter.unusedVariables false

namespace C16

/-! ### `get_profile_index_map` -/

/-- every key of the map sits at the position it is mapped to -/
def MapInv (acc : List (String × Nat)) : Prop := ∀ a i, acc.lookup a = some i → acc[i]? = some (a, i)

theorem mapInv_nil : MapInv [] := by
  intro a i h; simp at h

theorem mapInv_append (acc : List (String × Nat)) (n : String) (hinv : MapInv acc) (hn : acc.lookup n = none) :
    MapInv (acc ++ [(n, acc.length)]) := by
  intro a i h
  rw [List.lookup_append] at h
  cases ha : acc.lookup a with
  | some j =>
    rw [ha] at h
    simp only [Option.some_or] at h
    have hji : j = i := Option.some.inj h
    subst hji
    have := hinv a j ha
    have hj : j < acc.length := by
      by_contra hc
      rw [List.getElem?_eq_none (by omega)] at this
      cases this
    rw [List.getElem?_append_left hj]
    exact this
  | none =>
    rw [ha] at h
    simp only [Option.none_or, List.lookup_cons, List.lookup_nil] at h
    cases hb : a == n with
    | true =>
      rw [hb] at h
      cases h
      have : a = n := by simpa using hb
      rw [List.getElem?_append_right (Nat.le_refl _)]
      simp [this]
    | false => rw [hb] at h; cases h

theorem profileIndexMap_spec (profiles : List String) (acc : List (String × Nat)) (hinv : MapInv acc) :
    MapInv (profileIndexMap profiles acc) ∧
    (∀ a i, acc.lookup a = some i → (profileIndexMap profiles acc).lookup a = some i) ∧
    (∀ a, a ∈ profiles → ((profileIndexMap profiles acc).lookup a).isSome = true) ∧
    (∀ a, ((profileIndexMap profiles acc).lookup a).isSome = true → a ∈ profiles ∨ (acc.lookup a).isSome = true) := by
  induction profiles generalizing acc with
  | nil =>
    unfold profileIndexMap
    exact ⟨hinv, fun a i h => h, by simp, fun a h => Or.inr h⟩
  | cons n rest ih =>
    unfold profileIndexMap
    cases hn : acc.lookup n with
    | some j =>
      simp only [Option.isSome_some, if_true]
      obtain ⟨h1, h2, h3, h4⟩ := ih acc hinv
      refine ⟨h1, h2, ?_, ?_⟩
      · intro a ha
        rcases List.mem_cons.mp ha with e | e
        · subst e; rw [h2 a j hn]; rfl
        · exact h3 a e
      · intro a ha
        rcases h4 a ha with h | h
        · exact Or.inl (List.mem_cons_of_mem _ h)
        · exact Or.inr h
    | none =>
      simp only [Option.isSome_none, Bool.false_eq_true, if_false]
      have hinv' := mapInv_append acc n hinv hn
      obtain ⟨h1, h2, h3, h4⟩ := ih (acc ++ [(n, acc.length)]) hinv'
      refine ⟨h1, ?_, ?_, ?_⟩
      · intro a i ha
        apply h2
        rw [List.lookup_append, ha]; rfl
      · intro a ha
        rcases List.mem_cons.mp ha with e | e
        · subst e
          have : (acc ++ [(a, acc.length)]).lookup a = some acc.length := by
            rw [List.lookup_append, hn]; simp [List.lookup_cons]
          rw [h2 a _ this]; rfl
        · exact h3 a e
      · intro a ha
        rcases h4 a ha with h | h
        · exact Or.inl (List.mem_cons_of_mem _ h)
        · rw [List.lookup_append] at h
          cases hacc : acc.lookup a with
          | some j => exact Or.inr rfl
          | none =>
            rw [hacc] at h
            simp only [Option.none_or, List.lookup_cons, List.lookup_nil] at h
            cases hb : a == n with
            | true => left; have : a = n := by simpa using hb
                      rw [this]; exact List.mem_cons_self
            | false => rw [hb] at h; cases h

/-- different profile names get different indices -/
theorem profileIndex_inj (profiles : List String) (a b : String) (i : Nat)
    (ha : profileIndex profiles a = some i) (hb : profileIndex profiles b = some i) : a = b := by
  unfold profileIndex at ha hb
  obtain ⟨hinv, _, _, _⟩ := profileIndexMap_spec profiles [] mapInv_nil
  have h1 := hinv a i ha
  have h2 := hinv b i hb
  rw [h1] at h2
  cases h2; rfl

theorem profileIndex_isSome (profiles : List String) (a : String) :
    (profileIndex profiles a).isSome = true ↔ a ∈ profiles := by
  unfold profileIndex
  obtain ⟨_, _, h3, h4⟩ := profileIndexMap_spec profiles [] mapInv_nil
  constructor
  · intro h
    rcases h4 a h with h | h
    · exact h
    · simp at h
  · exact h3 a

/-! ### error codes -/

/-- the loop over the error codes computes, entry by entry: −1 where the code is positive, the supplied value otherwise -/
theorem applyErrorCodes_spec (tt dist : List Int) (k : Nat) (codes : List Int) (a b : List Int)
    (h : applyErrorCodes tt dist k codes = some (a, b)) :
    a = (List.range codes.length).map (fun j => if codes.getD j 0 > 0 then -1 else tt.getD (k + j) 0) ∧
    b = (List.range codes.length).map (fun j => if codes.getD j 0 > 0 then -1 else dist.getD (k + j) 0) := by
  induction codes generalizing k a b with
  | nil =>
    unfold applyErrorCodes at h
    cases h
    exact ⟨rfl, rfl⟩
  | cons e rest ih =>
    unfold applyErrorCodes at h
    simp only [List.length_cons, List.range_succ_eq_map, List.map_cons, List.map_map]
    by_cases he : e > 0
    · rw [if_pos he] at h
      cases hr : applyErrorCodes tt dist (k + 1) rest with
      | none => rw [hr] at h; cases h
      | some ab =>
        obtain ⟨a', b'⟩ := ab
        rw [hr] at h
        simp only [Option.map_some] at h
        cases h
        obtain ⟨h1, h2⟩ := ih (k + 1) a' b' hr
        refine ⟨?_, ?_⟩
        · simp only [List.getD_cons_zero, he, if_true, List.cons.injEq, true_and]
          rw [h1]
          apply List.map_congr_left
          intro j _
          simp only [Function.comp, Nat.succ_eq_add_one, List.getD_cons_succ]
          have : k + 1 + j = k + (j + 1) := by omega
          rw [this]
        · simp only [List.getD_cons_zero, he, if_true, List.cons.injEq, true_and]
          rw [h2]
          apply List.map_congr_left
          intro j _
          simp only [Function.comp, Nat.succ_eq_add_one, List.getD_cons_succ]
          have : k + 1 + j = k + (j + 1) := by omega
          rw [this]
    · rw [if_neg he] at h
      cases hta : tt[k]? with
      | none => rw [hta] at h; simp at h
      | some x =>
        cases hda : dist[k]? with
        | none => rw [hta, hda] at h; simp at h
        | some y =>
          rw [hta, hda] at h
          simp only at h
          cases hr : applyErrorCodes tt dist (k + 1) rest with
          | none => rw [hr] at h; cases h
          | some ab =>
            obtain ⟨a', b'⟩ := ab
            rw [hr] at h
            simp only [Option.map_some] at h
            cases h
            obtain ⟨h1, h2⟩ := ih (k + 1) a' b' hr
            have hx : tt.getD (k + 0) 0 = x := by simp [List.getD_eq_getElem?_getD, hta]
            have hy : dist.getD (k + 0) 0 = y := by simp [List.getD_eq_getElem?_getD, hda]
            refine ⟨?_, ?_⟩
            · simp only [List.getD_cons_zero, he, if_false, hx, List.cons.injEq, true_and]
              rw [h1]
              apply List.map_congr_left
              intro j _
              simp only [Function.comp, Nat.succ_eq_add_one, List.getD_cons_succ]
              have : k + 1 + j = k + (j + 1) := by omega
              rw [this]
            · simp only [List.getD_cons_zero, he, if_false, hy, List.cons.injEq, true_and]
              rw [h2]
              apply List.map_congr_left
              intro j _
              simp only [Function.comp, Nat.succ_eq_add_one, List.getD_cons_succ]
              have : k + 1 + j = k + (j + 1) := by omega
              rw [this]

/-- one matrix of the reader: the routing data is the supplied data with unreachable entries replaced by −1,
    under the profile index the name (or the position) resolves to -/
theorem toMatrixData_spec (profiles : List String) (idx : Nat) (m : ApiMatrix) (d : MatrixData)
    (h : toMatrixData profiles idx m = some d) :
    d = asSupplied ((m.profile.bind (profileIndex profiles)).getD idx) m := by
  unfold toMatrixData at h
  unfold asSupplied unreachableApplied
  cases hc : m.errorCodes with
  | none =>
    rw [hc] at h
    simp only at h
    cases h; rfl
  | some codes =>
    rw [hc] at h
    simp only at h
    cases hr : applyErrorCodes m.travelTimes m.distances 0 codes with
    | none => rw [hr] at h; cases h
    | some ab =>
      obtain ⟨a, b⟩ := ab
      rw [hr] at h
      simp only [Option.map_some] at h
      cases h
      obtain ⟨h1, h2⟩ := applyErrorCodes_spec _ _ 0 codes a b hr
      simp only [Nat.zero_add] at h1 h2
      simp only [h1, h2]

/-! ### which routing data ends up under a profile index -/

theorem supplied_cons (d : MatrixData) (ds : List MatrixData) (i : Nat) :
    supplied (d :: ds) i = if d.index = i then d :: supplied ds i else supplied ds i := by
  unfold supplied
  rw [List.filter_cons]
  simp only [beq_iff_eq]

theorem toMatrixDataAll_cons (profiles : List String) (k : Nat) (m : ApiMatrix) (rest : List ApiMatrix)
    (data : List MatrixData) (h : toMatrixDataAll profiles k (m :: rest) = some data) :
    ∃ d ds, toMatrixData profiles k m = some d ∧ toMatrixDataAll profiles (k + 1) rest = some ds ∧ data = d :: ds := by
  unfold toMatrixDataAll at h
  cases h1 : toMatrixData profiles k m with
  | none => rw [h1] at h; simp at h
  | some d =>
    cases h2 : toMatrixDataAll profiles (k + 1) rest with
    | none => rw [h1, h2] at h; simp at h
    | some ds =>
      rw [h1, h2] at h
      simp only at h
      cases h
      exact ⟨d, ds, rfl, rfl, rfl⟩

/-- named matrices whose names are fleet profiles: profile index `i` receives exactly the matrices named like the
    profile with index `i`, in input order -/
theorem supplied_named (profiles : List String) (name : String) (i : Nat) (hi : profileIndex profiles name = some i)
    (ms : List ApiMatrix) (k : Nat) (data : List MatrixData) (h : toMatrixDataAll profiles k ms = some data)
    (hknown : ∀ m ∈ ms, ∃ nm, m.profile = some nm ∧ nm ∈ profiles) :
    supplied data i = (ms.filter (fun m => m.profile == some name)).map (asSupplied i) := by
  induction ms generalizing k data with
  | nil =>
    unfold toMatrixDataAll at h
    cases h
    rfl
  | cons m rest ih =>
    obtain ⟨d, ds, hd, hds, hdata⟩ := toMatrixDataAll_cons profiles k m rest data h
    subst hdata
    obtain ⟨nm, hnm, hmem⟩ := hknown m List.mem_cons_self
    obtain ⟨j, hj⟩ : ∃ j, profileIndex profiles nm = some j := by
      have := (profileIndex_isSome profiles nm).mpr hmem
      cases hp : profileIndex profiles nm with
      | none => rw [hp] at this; cases this
      | some j => exact ⟨j, rfl⟩
    have hdspec := toMatrixData_spec profiles k m d hd
    have hidx : (m.profile.bind (profileIndex profiles)).getD k = j := by
      rw [hnm]; simp [hj]
    rw [hidx] at hdspec
    have ihr := ih (k + 1) ds hds (fun x hx => hknown x (List.mem_cons_of_mem _ hx))
    rw [supplied_cons, List.filter_cons, ihr]
    have hdi : d.index = j := by rw [hdspec]; rfl
    by_cases hji : j = i
    · have hnn : nm = name := profileIndex_inj profiles nm name i (by rw [hj, hji]) hi
      have hcond : (m.profile == some name) = true := by rw [hnm, hnn]; simp
      rw [if_pos (by rw [hdi, hji]), if_pos hcond, List.map_cons, hdspec, hji]
    · have hnn : nm ≠ name := fun e => hji (by rw [e, hi] at hj; exact (Option.some.inj hj).symm)
      have hcond : ¬ ((m.profile == some name) = true) := by rw [hnm]; simpa using hnn
      rw [if_neg (by rw [hdi]; exact hji), if_neg hcond]

/-- unnamed matrices: profile index `i` receives the matrix at position `i` -/
theorem supplied_unnamed (profiles : List String) (ms : List ApiMatrix) (k : Nat) (data : List MatrixData)
    (h : toMatrixDataAll profiles k ms = some data) (hnone : ∀ m ∈ ms, m.profile = none) (i : Nat) :
    supplied data i = if k ≤ i then (ms[i - k]?).toList.map (asSupplied i) else [] := by
  induction ms generalizing k data with
  | nil =>
    unfold toMatrixDataAll at h
    cases h
    simp [supplied]
  | cons m rest ih =>
    obtain ⟨d, ds, hd, hds, hdata⟩ := toMatrixDataAll_cons profiles k m rest data h
    subst hdata
    have hdspec := toMatrixData_spec profiles k m d hd
    have hidx : (m.profile.bind (profileIndex profiles)).getD k = k := by
      rw [hnone m List.mem_cons_self]; rfl
    rw [hidx] at hdspec
    have hdi : d.index = k := by rw [hdspec]; rfl
    have ihr := ih (k + 1) ds hds (fun x hx => hnone x (List.mem_cons_of_mem _ hx))
    rw [supplied_cons, ihr, hdi]
    by_cases hki : k = i
    · subst hki
      simp [hdspec]
    · rw [if_neg hki]
      by_cases hle : k ≤ i
      · have h1 : k + 1 ≤ i := by omega
        rw [if_pos h1, if_pos hle]
        have : i - k = (i - (k + 1)) + 1 := by omega
        rw [this, List.getElem?_cons_succ]
      · have h1 : ¬ (k + 1 ≤ i) := by omega
        rw [if_neg h1, if_neg hle]

/-- the reader's conversion with its error reporting succeeds exactly with the data of `toMatrixDataAll`, and then every
    list of error codes has the length of the distances (0684041) -/
theorem toMatrixDataAllE_ok (profiles : List String) (ms : List ApiMatrix) (k : Nat) (data : List MatrixData)
    (h : toMatrixDataAllE profiles k ms = .ok data) :
    toMatrixDataAll profiles k ms = some data ∧
    ∀ m ∈ ms, ∀ codes, m.errorCodes = some codes → codes.length = m.distances.length := by
  induction ms generalizing k data with
  | nil =>
    unfold toMatrixDataAllE at h
    cases h
    exact ⟨rfl, by simp⟩
  | cons m rest ih =>
    unfold toMatrixDataAllE at h
    cases hm : toMatrixDataE profiles k m with
    | error e => rw [hm] at h; cases h
    | ok d =>
      rw [hm] at h
      simp only at h
      cases hr : toMatrixDataAllE profiles (k + 1) rest with
      | error e => rw [hr] at h; cases h
      | ok ds =>
        rw [hr] at h
        simp only at h
        cases h
        obtain ⟨ih1, ih2⟩ := ih (k + 1) ds hr
        unfold toMatrixDataE at hm
        by_cases hlen : codesLengthBad m = true
        · rw [if_pos hlen] at hm; cases hm
        · rw [if_neg hlen] at hm
          cases hd : toMatrixData profiles k m with
          | none => rw [hd] at hm; cases hm
          | some d' =>
            rw [hd] at hm
            cases hm
            constructor
            · unfold toMatrixDataAll
              rw [hd, ih1]
            · intro x hx codes hc
              rcases List.mem_cons.mp hx with e | e
              · subst e
                unfold codesLengthBad at hlen
                rw [hc] at hlen
                simp at hlen
                exact hlen
              · exact ih2 x e codes hc

/-- what an accepted reader input looks like, whatever the S28 variant -/
theorem createTransportCosts_ok (mode : ReaderMode) (profiles : List String) (ms : List ApiMatrix) (pr : Provider)
    (h : createTransportCosts mode profiles ms = .ok pr) :
    (ms.all (fun m => m.profile.isSome) = true ∨ ms.all (fun m => m.profile.isNone) = true) ∧
    ∃ data, toMatrixDataAll profiles 0 ms = some data ∧ build data = .ok pr := by
  unfold createTransportCosts at h
  split at h
  · cases h
  · rename_i h1
    split at h
    · cases h
    · split at h
      · cases h
      · simp only at h
        split at h
        · cases h
        · split at h
          · cases h
          · rename_i data hdata
            split at h
            · cases h
            · split at h
              · cases h
              · split at h
                · cases h
                · rename_i p hp
                  cases h
                  refine ⟨?_, data, (toMatrixDataAllE_ok profiles ms 0 data hdata).1, hp⟩
                  simp only [Bool.and_eq_true, Bool.not_eq_true', not_and, Bool.not_eq_false] at h1
                  by_cases ha : ms.all (fun m => m.profile.isSome) = true
                  · exact Or.inl ha
                  · right
                    have : ms.all (fun m => m.profile.isSome) = false := by simpa using ha
                    exact h1 this

/-- the data the reader hands to the builder under the index of profile `name` is what the specification calls
    "the matrices named `name`" — **provided every matrix name is a fleet profile** (S28) -/
theorem supplied_eq_namedFor (mode : ReaderMode) (profiles : List String) (ms : List ApiMatrix) (data : List MatrixData)
    (hall : ms.all (fun m => m.profile.isSome) = true ∨ ms.all (fun m => m.profile.isNone) = true)
    (hdata : toMatrixDataAll profiles 0 ms = some data) (hknown : namesKnown profiles ms = true)
    (name : String) (i : Nat) (hi : profileIndex profiles name = some i) :
    supplied data i = namedFor profiles ms name := by
  unfold namedFor
  simp only [hi, Option.getD_some]
  by_cases hnone : ms.all (fun m => m.profile.isNone) = true
  · rw [if_pos hnone]
    have hn : ∀ m ∈ ms, m.profile = none := fun m hm => by
      have := List.all_eq_true.mp hnone m hm
      simpa using this
    have := supplied_unnamed profiles ms 0 data hdata hn i
    simpa using this
  · rw [if_neg hnone]
    have hsome : ms.all (fun m => m.profile.isSome) = true := by
      rcases hall with h | h
      · exact h
      · exact absurd h hnone
    have hk : ∀ m ∈ ms, ∃ nm, m.profile = some nm ∧ nm ∈ profiles := fun m hm => by
      have h1 := List.all_eq_true.mp hsome m hm
      have h2 := List.all_eq_true.mp hknown m hm
      cases hp : m.profile with
      | none => rw [hp] at h1; cases h1
      | some nm =>
        rw [hp] at h2
        exact ⟨nm, rfl, by simpa using h2⟩
    exact supplied_named profiles name i hi ms 0 data hdata hk

end C16
