import VrpProofs.C16.Basic
/-!
# C16 — sorted lists, the bracket search, and the order-free selection of the specification
-/
set_option linter.unusedSimpArgs false
set_option linter.unusedVariables false

namespace C16

variable {α : Type}

/-! ### lists sorted by a key -/

/-- a list sorted by `κ` splits into the elements below `k` followed by the others -/
theorem sorted_split (κ : α → Nat) (S : List α) (hs : S.Pairwise (fun a b => κ a ≤ κ b)) (k : Nat) :
    S = S.filter (fun x => decide (κ x < k)) ++ S.filter (fun x => !decide (κ x < k)) := by
  induction S with
  | nil => simp
  | cons x S ih =>
    rw [List.pairwise_cons] at hs
    obtain ⟨hx, hS⟩ := hs
    by_cases h : κ x < k
    · simp only [List.filter_cons, h, decide_true, if_true, Bool.not_true, Bool.false_eq_true, if_false,
        List.cons_append]
      rw [← ih hS]
    · have h1 : S.filter (fun x => decide (κ x < k)) = [] := by
        rw [List.filter_eq_nil_iff]
        intro y hy
        have := hx y hy
        simp only [decide_eq_true_eq]
        omega
      have h2 : S.filter (fun x => !decide (κ x < k)) = S := by
        rw [List.filter_eq_self]
        intro y hy
        have := hx y hy
        simp only [Bool.not_eq_true', decide_eq_false_iff_not]
        omega
      simp only [List.filter_cons, h, decide_false, Bool.false_eq_true, if_false, Bool.not_false, if_true, h1, h2,
        List.nil_append]

theorem getElem?_append_length (A B : List α) : (A ++ B)[A.length]? = B.head? := by
  rw [List.getElem?_append_right (Nat.le_refl _)]
  simp [List.head?_eq_getElem?]

theorem getElem?_append_length_pred (A B : List α) (hA : A ≠ []) : (A ++ B)[A.length - 1]? = A.getLast? := by
  have hl : 0 < A.length := List.length_pos_iff.mpr hA
  rw [List.getElem?_append_left (by omega)]
  rw [List.getLast?_eq_getElem?]

theorem getLast?_append_nil_right (A B : List α) (hB : B = []) : (A ++ B).getLast? = A.getLast? := by
  subst hB; simp

/-- in a list sorted by `κ` the last element has the greatest key -/
theorem pairwise_getLast (κ : α → Nat) (A : List α) (hs : A.Pairwise (fun a b => κ a ≤ κ b)) (z : α)
    (hz : A.getLast? = some z) : ∀ x ∈ A, κ x ≤ κ z := by
  induction A with
  | nil => simp at hz
  | cons a A ih =>
    rw [List.pairwise_cons] at hs
    intro x hx
    cases A with
    | nil =>
      simp at hz hx
      subst hz; subst hx; exact Nat.le_refl _
    | cons b A' =>
      have hz' : (b :: A').getLast? = some z := by
        rw [List.getLast?_cons_cons] at hz; exact hz
      have hzmem : z ∈ b :: A' := List.mem_of_getLast? hz'
      rcases List.mem_cons.mp hx with h | h
      · subst h; exact hs.1 z hzmem
      · exact ih hs.2 hz' x h

theorem pairwise_head (κ : α → Nat) (B : List α) (hs : B.Pairwise (fun a b => κ a ≤ κ b)) (z : α)
    (hz : B.head? = some z) : ∀ x ∈ B, κ z ≤ κ x := by
  cases B with
  | nil => simp at hz
  | cons b B' =>
    simp at hz
    subst hz
    rw [List.pairwise_cons] at hs
    intro x hx
    rcases List.mem_cons.mp hx with h | h
    · subst h; exact Nat.le_refl _
    · exact hs.1 x h

/-- position `i = #{κ < k}` of a sorted list: the element before it is the greatest below `k`,
    the element at it the least not below `k` -/
theorem sorted_bracket (κ : α → Nat) (S : List α) (hs : S.Pairwise (fun a b => κ a ≤ κ b)) (k : Nat)
    (i : Nat) (hi : i = (S.filter (fun x => decide (κ x < k))).length) :
    (∀ r, S[i]? = some r → r ∈ S ∧ ¬ κ r < k ∧ ∀ x ∈ S, ¬ κ x < k → κ r ≤ κ x) ∧
    (0 < i → ∃ l, S[i - 1]? = some l ∧ l ∈ S ∧ κ l < k ∧ ∀ x ∈ S, κ x < k → κ x ≤ κ l) ∧
    (i = S.length ↔ ∀ x ∈ S, κ x < k) ∧ (i = 0 ↔ ∀ x ∈ S, ¬ κ x < k) := by
  have hsplit := sorted_split κ S hs k
  generalize hA : S.filter (fun x => decide (κ x < k)) = A at hsplit hi
  subst hi
  generalize hB : S.filter (fun x => !decide (κ x < k)) = B at hsplit
  have hAs : A.Pairwise (fun a b => κ a ≤ κ b) := by rw [← hA]; exact hs.filter _
  have hBs : B.Pairwise (fun a b => κ a ≤ κ b) := by rw [← hB]; exact hs.filter _
  have memA : ∀ x, x ∈ A ↔ x ∈ S ∧ κ x < k := by
    intro x; rw [← hA, List.mem_filter]; simp
  have memB : ∀ x, x ∈ B ↔ x ∈ S ∧ ¬ κ x < k := by
    intro x; rw [← hB, List.mem_filter]; simp
  refine ⟨?_, ?_, ?_, ?_⟩
  · intro r hr
    have hr' : B.head? = some r := by
      have : S[A.length]? = B.head? := by
        conv => lhs; rw [hsplit]
        exact getElem?_append_length A B
      rw [← this]; exact hr
    have hrB : r ∈ B := List.mem_of_head? hr'
    refine ⟨((memB r).mp hrB).1, ((memB r).mp hrB).2, ?_⟩
    intro x hx hxk
    exact pairwise_head κ B hBs r hr' x ((memB x).mpr ⟨hx, hxk⟩)
  · intro hi
    have hne : A ≠ [] := List.length_pos_iff.mp hi
    obtain ⟨l, hl⟩ : ∃ l, A.getLast? = some l := by
      cases h : A.getLast? with
      | none => exact absurd (List.getLast?_eq_none_iff.mp h) hne
      | some l => exact ⟨l, rfl⟩
    refine ⟨l, ?_, ?_, ?_, ?_⟩
    · have : S[A.length - 1]? = A.getLast? := by
        conv => lhs; rw [hsplit]
        exact getElem?_append_length_pred A B hne
      rw [this, hl]
    · exact ((memA l).mp (List.mem_of_getLast? hl)).1
    · exact ((memA l).mp (List.mem_of_getLast? hl)).2
    · intro x hx hxk
      exact pairwise_getLast κ A hAs l hl x ((memA x).mpr ⟨hx, hxk⟩)
  · constructor
    · intro h x hx
      have hlen : S.length = A.length + B.length := by
        conv => lhs; rw [hsplit]
        exact List.length_append
      have hB0 : B = [] := List.length_eq_zero_iff.mp (by omega)
      by_contra hc
      have : x ∈ B := (memB x).mpr ⟨hx, hc⟩
      rw [hB0] at this
      simp at this
    · intro h
      have : S.filter (fun x => decide (κ x < k)) = S := by
        rw [List.filter_eq_self]; intro x hx; simp [h x hx]
      show A.length = S.length
      rw [← hA, this]
  · constructor
    · intro h x hx hc
      have hA0 : A = [] := List.length_eq_zero_iff.mp h
      have : x ∈ A := (memA x).mpr ⟨hx, hc⟩
      rw [hA0] at this
      simp at this
    · intro h
      have : S.filter (fun x => decide (κ x < k)) = [] := by
        rw [List.filter_eq_nil_iff]; intro x hx; simp [h x hx]
      show A.length = 0
      rw [← hA, this]; rfl

end C16
