import VrpProofs.C16.Aware
/-!
# C16 — the executable specification (order-free selection by folds) characterised, and model = spec for one group
-/
set_option linter.unusedSimpArgs false
set_option linter.unusedVariables false

namespace C16

/-! ### the folds of the specification -/

theorem foldl_stepLeft_spec (k : Nat) (g : List MatrixData) (best : Option MatrixData)
    (hb : ∀ b, best = some b → b.key < k) :
    (∀ z, g.foldl (stepLeft k) best = some z →
      (z ∈ g ∨ best = some z) ∧ z.key < k ∧ (∀ x ∈ g, x.key < k → x.key ≤ z.key) ∧
      (∀ b, best = some b → b.key ≤ z.key)) ∧
    (g.foldl (stepLeft k) best = none → best = none ∧ ∀ x ∈ g, ¬ x.key < k) := by
  induction g generalizing best with
  | nil =>
    constructor
    · intro z hz
      simp only [List.foldl_nil] at hz
      exact ⟨Or.inr hz, hb z hz, by simp, fun b hbb => by rw [hz] at hbb; cases hbb; exact Nat.le_refl _⟩
    · intro h
      simp only [List.foldl_nil] at h
      exact ⟨h, by simp⟩
  | cons m g ih =>
    simp only [List.foldl_cons]
    by_cases hm : m.key < k
    · -- the candidate is updated
      have hb' : ∀ b, stepLeft k best m = some b → b.key < k := by
        intro b hbb
        unfold stepLeft at hbb
        rw [if_pos hm] at hbb
        cases best with
        | none => cases hbb; exact hm
        | some b0 =>
          simp only at hbb
          split at hbb
          · cases hbb; exact hm
          · cases hbb; exact hb _ rfl
      have hge : ∀ b, stepLeft k best m = some b → m.key ≤ b.key ∧ ∀ b0, best = some b0 → b0.key ≤ b.key := by
        intro b hbb
        unfold stepLeft at hbb
        rw [if_pos hm] at hbb
        cases best with
        | none => cases hbb; exact ⟨Nat.le_refl _, by simp⟩
        | some b0 =>
          simp only at hbb
          split at hbb
          · cases hbb; exact ⟨Nat.le_refl _, fun b1 h1 => by cases h1; omega⟩
          · cases hbb; exact ⟨by omega, fun b1 h1 => by cases h1; exact Nat.le_refl _⟩
      have hsome : ∃ b, stepLeft k best m = some b ∧ (b = m ∨ best = some b) := by
        unfold stepLeft
        rw [if_pos hm]
        cases best with
        | none => exact ⟨m, rfl, Or.inl rfl⟩
        | some b0 =>
          simp only
          split
          · exact ⟨m, rfl, Or.inl rfl⟩
          · exact ⟨b0, rfl, Or.inr rfl⟩
      obtain ⟨b, hbe, hbor⟩ := hsome
      obtain ⟨ih1, ih2⟩ := ih (stepLeft k best m) hb'
      constructor
      · intro z hz
        obtain ⟨hzmem, hzk, hzmax, hzb⟩ := ih1 z hz
        have hbz : b.key ≤ z.key := hzb b hbe
        obtain ⟨hmb, hb0b⟩ := hge b hbe
        refine ⟨?_, hzk, ?_, ?_⟩
        · rcases hzmem with h | h
          · exact Or.inl (List.mem_cons_of_mem _ h)
          · rw [hbe] at h; cases h
            rcases hbor with h' | h'
            · left; rw [h']; exact List.mem_cons_self
            · exact Or.inr h'
        · intro x hx hxk
          rcases List.mem_cons.mp hx with h | h
          · subst h; omega
          · exact hzmax x h hxk
        · intro b0 hb0
          have := hb0b b0 hb0; omega
      · intro h
        have := (ih2 h).1
        rw [hbe] at this; cases this
    · -- the candidate is kept
      have hstep : stepLeft k best m = best := by unfold stepLeft; rw [if_neg hm]
      rw [hstep]
      obtain ⟨ih1, ih2⟩ := ih best hb
      constructor
      · intro z hz
        obtain ⟨hzmem, hzk, hzmax, hzb⟩ := ih1 z hz
        refine ⟨?_, hzk, ?_, hzb⟩
        · rcases hzmem with h | h
          · exact Or.inl (List.mem_cons_of_mem _ h)
          · exact Or.inr h
        · intro x hx hxk
          rcases List.mem_cons.mp hx with h | h
          · subst h; exact absurd hxk hm
          · exact hzmax x h hxk
      · intro h
        obtain ⟨h1, h2⟩ := ih2 h
        refine ⟨h1, ?_⟩
        intro x hx
        rcases List.mem_cons.mp hx with h' | h'
        · subst h'; exact hm
        · exact h2 x h'

theorem specLeft_some (g : List MatrixData) (k : Nat) (l : MatrixData) (h : specLeft g k = some l) :
    l ∈ g ∧ l.key < k ∧ ∀ x ∈ g, x.key < k → x.key ≤ l.key := by
  obtain ⟨h1, _⟩ := foldl_stepLeft_spec k g none (by simp)
  obtain ⟨hm, hk, hmax, _⟩ := h1 l h
  rcases hm with hm | hm
  · exact ⟨hm, hk, hmax⟩
  · cases hm

theorem specLeft_none (g : List MatrixData) (k : Nat) (h : specLeft g k = none) : ∀ x ∈ g, ¬ x.key < k :=
  ((foldl_stepLeft_spec k g none (by simp)).2 h).2

theorem foldl_stepRight_spec (k : Nat) (g : List MatrixData) (best : Option MatrixData)
    (hb : ∀ b, best = some b → k < b.key) :
    (∀ z, g.foldl (stepRight k) best = some z →
      (z ∈ g ∨ best = some z) ∧ k < z.key ∧ (∀ x ∈ g, k < x.key → z.key ≤ x.key) ∧
      (∀ b, best = some b → z.key ≤ b.key)) ∧
    (g.foldl (stepRight k) best = none → best = none ∧ ∀ x ∈ g, ¬ k < x.key) := by
  induction g generalizing best with
  | nil =>
    constructor
    · intro z hz
      simp only [List.foldl_nil] at hz
      exact ⟨Or.inr hz, hb z hz, by simp, fun b hbb => by rw [hz] at hbb; cases hbb; exact Nat.le_refl _⟩
    · intro h
      simp only [List.foldl_nil] at h
      exact ⟨h, by simp⟩
  | cons m g ih =>
    simp only [List.foldl_cons]
    by_cases hm : k < m.key
    · have hb' : ∀ b, stepRight k best m = some b → k < b.key := by
        intro b hbb
        unfold stepRight at hbb
        rw [if_pos hm] at hbb
        cases best with
        | none => cases hbb; exact hm
        | some b0 =>
          simp only at hbb
          split at hbb
          · cases hbb; exact hm
          · cases hbb; exact hb _ rfl
      have hge : ∀ b, stepRight k best m = some b → b.key ≤ m.key ∧ ∀ b0, best = some b0 → b.key ≤ b0.key := by
        intro b hbb
        unfold stepRight at hbb
        rw [if_pos hm] at hbb
        cases best with
        | none => cases hbb; exact ⟨Nat.le_refl _, by simp⟩
        | some b0 =>
          simp only at hbb
          split at hbb
          · cases hbb; exact ⟨Nat.le_refl _, fun b1 h1 => by cases h1; omega⟩
          · cases hbb; exact ⟨by omega, fun b1 h1 => by cases h1; exact Nat.le_refl _⟩
      have hsome : ∃ b, stepRight k best m = some b ∧ (b = m ∨ best = some b) := by
        unfold stepRight
        rw [if_pos hm]
        cases best with
        | none => exact ⟨m, rfl, Or.inl rfl⟩
        | some b0 =>
          simp only
          split
          · exact ⟨m, rfl, Or.inl rfl⟩
          · exact ⟨b0, rfl, Or.inr rfl⟩
      obtain ⟨b, hbe, hbor⟩ := hsome
      obtain ⟨ih1, ih2⟩ := ih (stepRight k best m) hb'
      constructor
      · intro z hz
        obtain ⟨hzmem, hzk, hzmax, hzb⟩ := ih1 z hz
        have hbz : z.key ≤ b.key := hzb b hbe
        obtain ⟨hmb, hb0b⟩ := hge b hbe
        refine ⟨?_, hzk, ?_, ?_⟩
        · rcases hzmem with h | h
          · exact Or.inl (List.mem_cons_of_mem _ h)
          · rw [hbe] at h; cases h
            rcases hbor with h' | h'
            · left; rw [h']; exact List.mem_cons_self
            · exact Or.inr h'
        · intro x hx hxk
          rcases List.mem_cons.mp hx with h | h
          · subst h; omega
          · exact hzmax x h hxk
        · intro b0 hb0
          have := hb0b b0 hb0; omega
      · intro h
        have := (ih2 h).1
        rw [hbe] at this; cases this
    · have hstep : stepRight k best m = best := by unfold stepRight; rw [if_neg hm]
      rw [hstep]
      obtain ⟨ih1, ih2⟩ := ih best hb
      constructor
      · intro z hz
        obtain ⟨hzmem, hzk, hzmax, hzb⟩ := ih1 z hz
        refine ⟨?_, hzk, ?_, hzb⟩
        · rcases hzmem with h | h
          · exact Or.inl (List.mem_cons_of_mem _ h)
          · exact Or.inr h
        · intro x hx hxk
          rcases List.mem_cons.mp hx with h | h
          · subst h; exact absurd hxk hm
          · exact hzmax x h hxk
      · intro h
        obtain ⟨h1, h2⟩ := ih2 h
        refine ⟨h1, ?_⟩
        intro x hx
        rcases List.mem_cons.mp hx with h' | h'
        · subst h'; exact hm
        · exact h2 x h'

theorem specRight_some (g : List MatrixData) (k : Nat) (r : MatrixData) (h : specRight g k = some r) :
    r ∈ g ∧ k < r.key ∧ ∀ x ∈ g, k < x.key → r.key ≤ x.key := by
  obtain ⟨h1, _⟩ := foldl_stepRight_spec k g none (by simp)
  obtain ⟨hm, hk, hmax, _⟩ := h1 r h
  rcases hm with hm | hm
  · exact ⟨hm, hk, hmax⟩
  · cases hm

theorem specRight_none (g : List MatrixData) (k : Nat) (h : specRight g k = none) : ∀ x ∈ g, ¬ k < x.key :=
  ((foldl_stepRight_spec k g none (by simp)).2 h).2

theorem specAt_some (g : List MatrixData) (k : Nat) (m : MatrixData) (h : specAt g k = some m) :
    m ∈ g ∧ m.key = k := by
  unfold specAt at h
  exact ⟨List.mem_of_find?_eq_some h, by simpa using List.find?_some h⟩

theorem specAt_none (g : List MatrixData) (k : Nat) (h : specAt g k = none) : ∀ x ∈ g, x.key ≠ k := by
  unfold specAt at h
  intro x hx
  have := List.find?_eq_none.mp h x hx
  simpa using this

/-! ### model = specification for one group of timed matrices -/

theorem durAt_eq_entry (m : MatrixData) (n frm dst : Nat) :
    durAt m (flatIdx n frm dst) = (entryDur m n frm dst).map (fun v => (v : Rat)) := rfl

theorem distAt_eq_entry (m : MatrixData) (n frm dst : Nat) :
    distAt m (flatIdx n frm dst) = (entryDist m n frm dst).map (fun v => (v : Rat)) := rfl

/-- **sorting by the truncated timestamp followed by the bracket search computes the order-free selection of the
    specification**, for every group without equal keys, every pair and every query time -/
theorem interp_eq_spec (g : List MatrixData) (hd : DistinctKeys g) (hne : g ≠ []) (n frm dst : Nat) (t : Rat) :
    interpDurationRaw (sortByKey g) (flatIdx n frm dst) t = specAwareDur g n frm dst t ∧
    interpDistanceRaw (sortByKey g) (flatIdx n frm dst) t = specAwareDist g n frm dst t := by
  unfold specAwareDur specAwareDist
  simp only
  cases hat : specAt g (keyOfRat t) with
  | some m =>
    obtain ⟨hm, hk⟩ := specAt_some g _ m hat
    obtain ⟨h1, h2⟩ := select_exact g hd t m hm hk (flatIdx n frm dst)
    simp only [h1, h2, durAt_eq_entry, distAt_eq_entry]
    exact ⟨trivial, trivial⟩
  | none =>
    have hnone := specAt_none g _ hat
    simp only
    cases hl : specLeft g (keyOfRat t) with
    | none =>
      have hln := specLeft_none g _ hl
      cases hr : specRight g (keyOfRat t) with
      | none =>
        have hrn := specRight_none g _ hr
        exfalso
        cases g with
        | nil => exact hne rfl
        | cons x g' =>
          have h1 := hln x List.mem_cons_self
          have h2 := hrn x List.mem_cons_self
          have h3 := hnone x List.mem_cons_self
          omega
      | some r =>
        obtain ⟨hrm, hrk, hrmin⟩ := specRight_some g _ r hr
        have hall : ∀ x ∈ g, keyOfRat t < x.key := fun x hx => by
          have := hln x hx; have := hnone x hx; omega
        obtain ⟨h1, h2⟩ := select_first g hd t r hrm hall (fun x hx => hrmin x hx (hall x hx)) (flatIdx n frm dst)
        simp only [h1, h2, durAt_eq_entry, distAt_eq_entry]
        exact ⟨trivial, trivial⟩
    | some l =>
      obtain ⟨hlm, hlk, hlmax⟩ := specLeft_some g _ l hl
      cases hr : specRight g (keyOfRat t) with
      | none =>
        have hrn := specRight_none g _ hr
        have hall : ∀ x ∈ g, x.key < keyOfRat t := fun x hx => by
          have := hrn x hx; have := hnone x hx; omega
        obtain ⟨h1, h2⟩ := select_last g hd t l hlm hall (fun x hx => hlmax x hx (hall x hx)) (flatIdx n frm dst)
        simp only [h1, h2, durAt_eq_entry, distAt_eq_entry]
        exact ⟨trivial, trivial⟩
      | some r =>
        obtain ⟨hrm, hrk, hrmin⟩ := specRight_some g _ r hr
        obtain ⟨h1, h2⟩ := select_between g hd t l r hlm hrm hlk hrk hlmax hrmin hnone (flatIdx n frm dst)
        refine ⟨?_, by rw [h2, distAt_eq_entry]⟩
        rw [h1]
        cases hel : entryDur l n frm dst with
        | none =>
          have e1 : durAt l (flatIdx n frm dst) = none := by rw [durAt_eq_entry, hel]; rfl
          rw [e1]; simp [hel]
        | some lv =>
          have e1 : durAt l (flatIdx n frm dst) = some (lv : Rat) := by rw [durAt_eq_entry, hel]; rfl
          cases her : entryDur r n frm dst with
          | none =>
            have e2 : durAt r (flatIdx n frm dst) = none := by rw [durAt_eq_entry, her]; rfl
            rw [e1, e2]; simp [hel, her]
          | some rv =>
            have e2 : durAt r (flatIdx n frm dst) = some (rv : Rat) := by rw [durAt_eq_entry, her]; rfl
            rw [e1, e2]
            have hts : ((l.timestamp.getD 0 : Int) : Rat) ≠ ((r.timestamp.getD 0 : Int) : Rat) := by
              apply key_ne_imp_ts_ne
              show l.key ≠ r.key
              omega
            simp only [hel, her]
            rw [code_formula_eq_line _ _ _ _ _ hts]

end C16
