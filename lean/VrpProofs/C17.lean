import VrpProofs.C17.Lkh
import VrpProofs.C17.LkhCycle
import VrpProofs.C17.Dbscan
import VrpProofs.C17.KMed
/-!
# C17 — embedded optimisation and clustering algorithms keep their contracts

The theorems live in `VrpProofs/C17/{Lkh,Dbscan,KMed}.lean`; this file collects the headline statements
(one per clause of the property) under the names used in `DESIGN.md`.

* LKH: `tryPath_perm_start`, `tryPath_edges_subset`, `tryPath_usesExactly`, `cost_accounting`,
  `optimize_cost_nonincreasing`, `optimize_terminates` (`improve` abstracted by `Improves`);
  `tryPath_closes`, `tryPath_degOk_usesExactly`, `optimize_*_moves` (`improve` abstracted by `ImprovesMove`).
* DBSCAN: `clusters_pairwise_disjoint`, `cluster_seed_is_core`, `members_density_reachable`,
  `no_core_unclustered`, `fuel_sufficient`, `model_meets_spec`, `specReachable_sound`.
* k-medoids: `result_is_partition`, `nearest_own_medoid`, `keys_are_medoids`, `key_in_own_cluster`,
  `at_most_k_clusters`, `calculate_no_panic`, `kmedoids_meets_spec`; hierarchy: `hierStep_eq`, `hier_contract`,
  `createHier_contract`, `childOk_refines`, `createHier_meets_spec`, `splitOk_of_createKMedoids`.
-/
namespace C17

open Lkh in
/-- LKH, the observable contract of one accepted move: permutation of the nodes, same start node, strictly
    cheaper closed tour -/
theorem lkh_move_contract (c : Nat → Nat → Int) (hsym : ∀ i j, c i j = c j i) (p q : List Nat) (hnd : p.Nodup)
    (h : Improves c p q) : q.Perm p ∧ q.head? = p.head? ∧ closedCost c q < closedCost c p :=
  improves_sound c hsym p q hnd h

open Dbscan in
/-- DBSCAN, all clauses at once for a complete run (fuel from `fuelBound`, see `fuel_sufficient`) -/
theorem dbscan_contract (nb : Nat → List Nat) (minPts fuel : Nat) (points : List Nat) (cs : List (List Nat))
    (h : createClusters nb minPts fuel points = some cs) :
    cs.flatten.Nodup ∧
    (∀ c ∈ cs, ∃ seed, c.head? = some seed ∧ seed ∈ points ∧ minPts ≤ (nb seed).length ∧
      ∀ q ∈ c, Reach nb minPts seed q) ∧
    (∀ p ∈ points, minPts ≤ (nb p).length → p ∈ cs.flatten) := by
  refine ⟨clusters_pairwise_disjoint nb minPts fuel points cs h, ?_, (no_core_unclustered nb minPts fuel points cs h).1⟩
  intro c hc
  obtain ⟨s1, h1, h2, h3⟩ := cluster_seed_is_core nb minPts fuel points cs h c hc
  obtain ⟨s2, g1, g2⟩ := members_density_reachable nb minPts fuel points cs h c hc
  rw [h1] at g1; cases g1
  exact ⟨s1, h1, h2, h3, g2⟩

open KMed in
/-- k-medoids, all clauses at once: partition of all points, nearest-own-medoid, keys are data points -/
theorem kmedoids_contract (d : Nat → Nat → Int) (data : List Nat) (ord : Nat → List Nat → List Nat)
    (hord : ∀ i l, (ord i l).Perm l) (ms : List Nat) (hms : ∀ m ∈ ms, m ∈ data) (cl : Clusters)
    (h : createKMedoids d data (some ms) ord = some cl) :
    (∀ x, (cl.flatMap (·.2)).count x = data.count x) ∧ (cl.map (·.1)).Nodup ∧
    (∀ kv ∈ cl, ∀ p ∈ kv.2, ∀ kv' ∈ cl, d p kv.1 ≤ d p kv'.1) ∧ (∀ kv ∈ cl, kv.1 ∈ data) := by
  obtain ⟨h1, h2, _⟩ := result_is_partition d data ord hord ms hms cl h
  obtain ⟨ms', g1, g2, _⟩ := keys_are_medoids d data ord hord ms hms cl h
  exact ⟨h1, h2, nearest_own_medoid d data ord hord ms hms cl h, fun kv hkv => g1 _ (g2 kv hkv)⟩

end C17
