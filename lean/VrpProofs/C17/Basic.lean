import VrpModel.C17
/-! # C17 — shared helper lemmas -/
namespace C17

theorem nodupB_iff (l : List Nat) : nodupB l = true ↔ l.Nodup := by
  induction l with
  | nil => simp [nodupB]
  | cons x xs ih =>
    simp only [nodupB, Bool.and_eq_true, Bool.not_eq_true', List.nodup_cons, ih]
    constructor
    · rintro ⟨h1, h2⟩; exact ⟨by simpa using h1, h2⟩
    · rintro ⟨h1, h2⟩; exact ⟨by simpa using h1, h2⟩

end C17
