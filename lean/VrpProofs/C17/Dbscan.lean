import VrpModel.C17
import VrpProofs.C17.Basic
/-!
# C17 / DBSCAN — theorems about `create_clusters`

`clusters_pairwise_disjoint`, `cluster_seed_is_core`, `members_density_reachable`, `no_core_unclustered`,
`fuel_sufficient`, and the Bool specifications evaluated by the driver (`model_meets_spec`, `reachSet_sound`).
-/
set_option linter.unusedSimpArgs false
set_option linter.unnecessarySimpa false
set_option linter.unusedVariables false

namespace C17.Dbscan

/-- INDEPENDENT SPEC: `q` is density-reachable from `s`: a chain `s = p₀, p₁, …, pₖ = q` in which every `pᵢ`
    (`i < k`) is a core point and `pᵢ₊₁` is one of its neighbours -/
inductive Reach (nb : Nat → List Nat) (minPts : Nat) (s : Nat) : Nat → Prop
  | refl : Reach nb minPts s s
  | step {p q : Nat} : Reach nb minPts s p → core nb minPts p = true → q ∈ nb p → Reach nb minPts s q

theorem getT_cons (ts : Types) (p q : Nat) (t : PT) :
    getT ((p, t) :: ts) q = if p = q then some t else getT ts q := by
  simp only [getT, List.find?_cons]
  by_cases e : p = q
  · simp [e]
  · have : (p == q) = false := by simp [e]
    simp [this, e]

/-! ### equations of the expansion loop, one per branch of the code -/

section eqns
variable (nb : Nat → List Nat) (minPts fuel : Nat) (nbs : List Nat) (idx : Nat) (nbIdx : List Nat) (ts : Types)
  (cl : List Nat) (p : Nat)

theorem expand_done (h : nbs[idx]? = none) :
    expand nb minPts (fuel + 1) nbs idx nbIdx ts cl = some (ts, cl) := by
  simp [expand, h]

theorem expand_clustered (h : nbs[idx]? = some p) (ht : getT ts p = some .clustered) :
    expand nb minPts (fuel + 1) nbs idx nbIdx ts cl = expand nb minPts fuel nbs (idx + 1) nbIdx ts cl := by
  simp [expand, h, ht]

theorem expand_noise (h : nbs[idx]? = some p) (ht : getT ts p = some .noise) :
    expand nb minPts (fuel + 1) nbs idx nbIdx ts cl =
      expand nb minPts fuel nbs (idx + 1) nbIdx ((p, .clustered) :: ts) (cl ++ [p]) := by
  simp [expand, h, ht]

theorem expand_new_core (h : nbs[idx]? = some p) (ht : getT ts p = none) (hc : minPts ≤ (nb p).length) :
    expand nb minPts (fuel + 1) nbs idx nbIdx ts cl =
      expand nb minPts fuel (nbs ++ (nb p).filter (fun q => !nbIdx.contains q)) (idx + 1) (nbIdx ++ nb p)
        ((p, .clustered) :: ts) (cl ++ [p]) := by
  simp [expand, h, ht, hc]

theorem expand_new_border (h : nbs[idx]? = some p) (ht : getT ts p = none) (hc : ¬ minPts ≤ (nb p).length) :
    expand nb minPts (fuel + 1) nbs idx nbIdx ts cl =
      expand nb minPts fuel nbs (idx + 1) nbIdx ((p, .clustered) :: ts) (cl ++ [p]) := by
  simp [expand, h, ht, hc]

end eqns

theorem PT_cases (o : Option PT) : o = none ∨ o = some .noise ∨ o = some .clustered := by
  cases o with
  | none => simp
  | some t => cases t <;> simp

/-! ### the loop invariant -/

/-- state of the `while` loop that grows the cluster `cl` of `seed`; `pre` = members of the clusters finished earlier -/
structure LoopInv (nb : Nat → List Nat) (minPts : Nat) (pre : List Nat) (seed : Nat)
    (nbs : List Nat) (idx : Nat) (nbIdx : List Nat) (ts : Types) (cl : List Nat) : Prop where
  nodup : (pre ++ cl).Nodup
  typed : ∀ p, p ∈ pre ++ cl ↔ getT ts p = some .clustered
  noise : ∀ p, getT ts p = some .noise → core nb minPts p = false
  idxsub : ∀ q ∈ nbIdx, q ∈ nbs
  done : ∀ j q, j < idx → nbs[j]? = some q → q ∈ pre ++ cl
  closed : ∀ p ∈ pre ++ cl, core nb minPts p = true → ∀ q ∈ nb p, q ∈ pre ++ cl ∨ q ∈ nbs
  reachW : ∀ q ∈ nbs, Reach nb minPts seed q
  reachC : ∀ q ∈ cl, Reach nb minPts seed q
  head : cl.head? = some seed

/-- what holds when the loop has finished -/
structure DoneInv (nb : Nat → List Nat) (minPts : Nat) (pre : List Nat) (seed : Nat) (ts : Types) (cl : List Nat) :
    Prop where
  nodup : (pre ++ cl).Nodup
  typed : ∀ p, p ∈ pre ++ cl ↔ getT ts p = some .clustered
  noise : ∀ p, getT ts p = some .noise → core nb minPts p = false
  closed : ∀ p ∈ pre ++ cl, core nb minPts p = true → ∀ q ∈ nb p, q ∈ pre ++ cl
  reachC : ∀ q ∈ cl, Reach nb minPts seed q
  head : cl.head? = some seed

theorem LoopInv.skip {nb : Nat → List Nat} {minPts : Nat} {pre : List Nat} {seed : Nat} {nbs : List Nat} {idx : Nat}
    {nbIdx : List Nat} {ts : Types} {cl : List Nat} {p : Nat}
    (I : LoopInv nb minPts pre seed nbs idx nbIdx ts cl) (h : nbs[idx]? = some p)
    (ht : getT ts p = some .clustered) : LoopInv nb minPts pre seed nbs (idx + 1) nbIdx ts cl :=
  { I with
    done := by
      intro j q hj hq
      by_cases e : j = idx
      · subst e; rw [h] at hq; cases hq; exact (I.typed p).mpr ht
      · exact I.done j q (by omega) hq }

/-- adding the worklist element `p` to the cluster (all three branches in which `p` is not yet clustered);
    `ext` is what the branch appends to the worklist -/
theorem LoopInv.add {nb : Nat → List Nat} {minPts : Nat} {pre : List Nat} {seed : Nat} {nbs : List Nat} {idx : Nat}
    {nbIdx : List Nat} {ts : Types} {cl : List Nat} {p : Nat}
    (I : LoopInv nb minPts pre seed nbs idx nbIdx ts cl) (h : nbs[idx]? = some p)
    (ht : getT ts p ≠ some .clustered) (ext nbIdx' : List Nat)
    (hidx : ∀ q ∈ nbIdx', q ∈ nbs ++ ext)
    (hreach : ∀ q ∈ ext, Reach nb minPts seed q)
    (hcore : core nb minPts p = true → ∀ q ∈ nb p, q ∈ nbs ++ ext) :
    LoopInv nb minPts pre seed (nbs ++ ext) (idx + 1) nbIdx' ((p, .clustered) :: ts) (cl ++ [p]) := by
  have hlt : idx < nbs.length := by
    rcases Nat.lt_or_ge idx nbs.length with h1 | h1
    · exact h1
    · rw [List.getElem?_eq_none h1] at h; cases h
  have hpn : p ∉ pre ++ cl := fun hm => ht ((I.typed p).mp hm)
  have hpw : p ∈ nbs := List.mem_of_getElem? h
  refine ⟨?_, ?_, ?_, hidx, ?_, ?_, ?_, ?_, ?_⟩
  · rw [← List.append_assoc]
    exact List.nodup_append.mpr ⟨I.nodup, by simp, by
      intro a ha b hb; simp at hb; subst hb; intro e; subst e; exact hpn ha⟩
  · intro q
    rw [getT_cons, ← List.append_assoc, List.mem_append]
    by_cases e : p = q
    · subst e; simp
    · simp only [e, if_false, List.mem_singleton]
      rw [← I.typed q]
      constructor
      · rintro (h1 | h1)
        · exact h1
        · exact absurd h1.symm e
      · intro h1; exact Or.inl h1
  · intro q hq
    rw [getT_cons] at hq
    by_cases e : p = q
    · simp [e] at hq
    · simp only [e, if_false] at hq; exact I.noise q hq
  · intro j q hj hq
    rw [← List.append_assoc, List.mem_append]
    have hj' : j < nbs.length := by omega
    rw [List.getElem?_append_left hj'] at hq
    by_cases e : j = idx
    · subst e; rw [h] at hq; cases hq; right; simp
    · left; exact I.done j q (by omega) hq
  · intro x hx hcx q hq
    rw [← List.append_assoc, List.mem_append] at hx
    rcases hx with hx | hx
    · rcases I.closed x hx hcx q hq with h1 | h1
      · left; rw [← List.append_assoc]; exact List.mem_append_left _ h1
      · right; exact List.mem_append_left _ h1
    · simp at hx; subst hx
      right; exact hcore hcx q hq
  · intro q hq
    rw [List.mem_append] at hq
    rcases hq with hq | hq
    · exact I.reachW q hq
    · exact hreach q hq
  · intro q hq
    rw [List.mem_append] at hq
    rcases hq with hq | hq
    · exact I.reachC q hq
    · simp at hq; subst hq; exact I.reachW q hpw
  · have := I.head
    cases cl with
    | nil => simp at this
    | cons a r => simpa using this

theorem expand_inv (nb : Nat → List Nat) (minPts : Nat) (pre : List Nat) (seed : Nat) :
    ∀ (fuel : Nat) (nbs : List Nat) (idx : Nat) (nbIdx : List Nat) (ts : Types) (cl : List Nat) (r : Types × List Nat),
      LoopInv nb minPts pre seed nbs idx nbIdx ts cl → expand nb minPts fuel nbs idx nbIdx ts cl = some r →
      DoneInv nb minPts pre seed r.1 r.2 := by
  intro fuel
  induction fuel with
  | zero => intro nbs idx nbIdx ts cl r _ h; simp [expand] at h
  | succ fuel ih =>
    intro nbs idx nbIdx ts cl r I h
    cases hp : nbs[idx]? with
    | none =>
      rw [expand_done nb minPts fuel nbs idx nbIdx ts cl hp] at h
      cases h
      have hall : ∀ q ∈ nbs, q ∈ pre ++ cl := by
        intro q hq
        obtain ⟨j, hj⟩ := List.mem_iff_getElem?.mp hq
        have hlen : nbs.length ≤ idx := by
          rcases Nat.lt_or_ge idx nbs.length with h1 | h1
          · rw [List.getElem?_eq_getElem h1] at hp; cases hp
          · exact h1
        have hjl : j < nbs.length := by
          rcases Nat.lt_or_ge j nbs.length with h1 | h1
          · exact h1
          · rw [List.getElem?_eq_none h1] at hj; cases hj
        exact I.done j q (by omega) hj
      exact ⟨I.nodup, I.typed, I.noise, fun x hx hc q hq => (I.closed x hx hc q hq).elim id (hall q),
        I.reachC, I.head⟩
    | some p =>
      rcases PT_cases (getT ts p) with ht | ht | ht
      · by_cases hc : minPts ≤ (nb p).length
        · rw [expand_new_core nb minPts fuel nbs idx nbIdx ts cl p hp ht hc] at h
          refine ih _ _ _ _ _ r (I.add hp (by rw [ht]; simp) _ _ ?_ ?_ ?_) h
          · intro q hq
            rw [List.mem_append] at hq ⊢
            rcases hq with hq | hq
            · exact Or.inl (I.idxsub q hq)
            · by_cases hin : q ∈ nbIdx
              · exact Or.inl (I.idxsub q hin)
              · right; rw [List.mem_filter]; exact ⟨hq, by simpa using hin⟩
          · intro q hq
            rw [List.mem_filter] at hq
            exact Reach.step (I.reachW p (List.mem_of_getElem? hp)) (by simpa [core] using hc) hq.1
          · intro _ q hq
            rw [List.mem_append]
            by_cases hin : q ∈ nbIdx
            · exact Or.inl (I.idxsub q hin)
            · right; rw [List.mem_filter]; exact ⟨hq, by simpa using hin⟩
        · rw [expand_new_border nb minPts fuel nbs idx nbIdx ts cl p hp ht hc] at h
          have := I.add hp (by rw [ht]; simp) [] nbIdx (by simpa using I.idxsub) (by simp)
            (by intro hcore; simp [core] at hcore; exact absurd hcore hc)
          rw [List.append_nil] at this
          exact ih _ _ _ _ _ r this h
      · rw [expand_noise nb minPts fuel nbs idx nbIdx ts cl p hp ht] at h
        have := I.add hp (by rw [ht]; simp) [] nbIdx (by simpa using I.idxsub) (by simp)
          (by intro hcore; rw [I.noise p ht] at hcore; cases hcore)
        rw [List.append_nil] at this
        exact ih _ _ _ _ _ r this h
      · rw [expand_clustered nb minPts fuel nbs idx nbIdx ts cl p hp ht] at h
        exact ih _ _ _ _ _ r (I.skip hp ht) h

/-- types are only added, never removed -/
theorem expand_mono (nb : Nat → List Nat) (minPts : Nat) :
    ∀ (fuel : Nat) (nbs : List Nat) (idx : Nat) (nbIdx : List Nat) (ts : Types) (cl : List Nat) (r : Types × List Nat),
      expand nb minPts fuel nbs idx nbIdx ts cl = some r → ∀ x, getT ts x ≠ none → getT r.1 x ≠ none := by
  intro fuel
  induction fuel with
  | zero => intro nbs idx nbIdx ts cl r h; simp [expand] at h
  | succ fuel ih =>
    intro nbs idx nbIdx ts cl r h x hx
    have hcons : ∀ p, getT ((p, PT.clustered) :: ts) x ≠ none := by
      intro p; rw [getT_cons]; split
      · simp
      · exact hx
    cases hp : nbs[idx]? with
    | none =>
      rw [expand_done nb minPts fuel nbs idx nbIdx ts cl hp] at h
      cases h; exact hx
    | some p =>
      rcases PT_cases (getT ts p) with ht | ht | ht
      · by_cases hc : minPts ≤ (nb p).length
        · rw [expand_new_core nb minPts fuel nbs idx nbIdx ts cl p hp ht hc] at h
          exact ih _ _ _ _ _ r h x (hcons p)
        · rw [expand_new_border nb minPts fuel nbs idx nbIdx ts cl p hp ht hc] at h
          exact ih _ _ _ _ _ r h x (hcons p)
      · rw [expand_noise nb minPts fuel nbs idx nbIdx ts cl p hp ht] at h
        exact ih _ _ _ _ _ r h x (hcons p)
      · rw [expand_clustered nb minPts fuel nbs idx nbIdx ts cl p hp ht] at h
        exact ih _ _ _ _ _ r h x hx

/-! ### the outer loop -/

structure Good (nb : Nat → List Nat) (minPts : Nat) (s : St) : Prop where
  nodup : s.clusters.flatten.Nodup
  typed : ∀ p, p ∈ s.clusters.flatten ↔ getT s.types p = some .clustered
  noise : ∀ p, getT s.types p = some .noise → core nb minPts p = false
  closed : ∀ p ∈ s.clusters.flatten, core nb minPts p = true → ∀ q ∈ nb p, q ∈ s.clusters.flatten
  seeds : ∀ c ∈ s.clusters, ∃ seed, c.head? = some seed ∧ core nb minPts seed = true ∧
    ∀ q ∈ c, Reach nb minPts seed q

theorem visit_good (nb : Nat → List Nat) (minPts fuel : Nat) (s s' : St) (p : Nat) (G : Good nb minPts s)
    (h : visit nb minPts fuel s p = some s') :
    Good nb minPts s' ∧ getT s'.types p ≠ none ∧ (∀ x, getT s.types x ≠ none → getT s'.types x ≠ none) ∧
      (∀ c ∈ s'.clusters, c ∈ s.clusters ∨ c.head? = some p) := by
  unfold visit at h
  by_cases hs : (getT s.types p).isSome = true
  · simp only [hs, if_true, Option.some.injEq] at h
    subst h
    exact ⟨G, by intro e; rw [e] at hs; simp at hs, fun _ hx => hx, fun c hc => Or.inl hc⟩
  · have hnone : getT s.types p = none := by simpa using hs
    have hs' : (getT s.types p).isSome = false := by simpa using hs
    simp only [hs', Bool.false_eq_true, if_false] at h
    by_cases hl : (nb p).length < minPts
    · simp only [hl, if_true, Option.some.injEq] at h
      subst h
      refine ⟨⟨G.nodup, ?_, ?_, G.closed, G.seeds⟩, ?_, ?_, fun c hc => Or.inl hc⟩
      · intro q
        simp only
        rw [getT_cons]
        by_cases e : p = q
        · subst e; simp [G.typed, hnone]
        · simp [e, G.typed]
      · intro q hq
        simp only at hq
        rw [getT_cons] at hq
        by_cases e : p = q
        · subst e; simp [core]; omega
        · simp only [e, if_false] at hq; exact G.noise q hq
      · simp only; rw [getT_cons]; simp
      · intro x hx; simp only; rw [getT_cons]; split
        · simp
        · exact hx
    · simp only [hl, if_false] at h
      have hcore : core nb minPts p = true := by simp [core]; omega
      have hpn : p ∉ s.clusters.flatten := fun hm => by
        have := (G.typed p).mp hm; rw [hnone] at this; cases this
      -- the loop invariant holds at the start of the expansion
      have I : LoopInv nb minPts s.clusters.flatten p (nb p) 0 (nb p) ((p, .clustered) :: s.types) [p] := by
        refine ⟨?_, ?_, ?_, fun q hq => hq, by intro j q hj; omega, ?_, ?_, ?_, rfl⟩
        · exact List.nodup_append.mpr ⟨G.nodup, by simp, by
            intro a ha b hb; simp at hb; subst hb; intro e; subst e; exact hpn ha⟩
        · intro q
          rw [getT_cons, List.mem_append]
          by_cases e : p = q
          · subst e; simp
          · simp only [e, if_false, List.mem_singleton]
            rw [← G.typed q]
            constructor
            · rintro (h1 | h1)
              · exact h1
              · exact absurd h1.symm e
            · intro h1; exact Or.inl h1
        · intro q hq
          rw [getT_cons] at hq
          by_cases e : p = q
          · simp [e] at hq
          · simp only [e, if_false] at hq; exact G.noise q hq
        · intro x hx hcx q hq
          rw [List.mem_append] at hx
          rcases hx with hx | hx
          · left; exact List.mem_append_left _ (G.closed x hx hcx q hq)
          · simp at hx; subst hx; right; exact hq
        · intro q hq; exact Reach.step Reach.refl hcore hq
        · intro q hq; simp at hq; subst hq; exact Reach.refl
      cases he : expand nb minPts fuel (nb p) 0 (nb p) ((p, .clustered) :: s.types) [p] with
      | none => simp [he] at h
      | some r =>
        simp only [he, Option.some.injEq] at h
        subst h
        have D := expand_inv nb minPts s.clusters.flatten p fuel _ _ _ _ _ r I he
        have hmono := expand_mono nb minPts fuel _ _ _ _ _ r he
        have hflat : (s.clusters ++ [r.2]).flatten = s.clusters.flatten ++ r.2 := by simp
        refine ⟨⟨?_, ?_, D.noise, ?_, ?_⟩, ?_, ?_, ?_⟩
        · simp only; rw [hflat]; exact D.nodup
        · intro q; simp only; rw [hflat]; exact D.typed q
        · intro x hx hcx q hq; simp only at hx ⊢; rw [hflat] at hx ⊢; exact D.closed x hx hcx q hq
        · intro c hc
          simp only at hc
          rw [List.mem_append] at hc
          rcases hc with hc | hc
          · exact G.seeds c hc
          · simp at hc; subst hc
            exact ⟨p, D.head, hcore, D.reachC⟩
        · simp only; exact hmono p (by rw [getT_cons]; simp)
        · intro x hx; simp only
          exact hmono x (by rw [getT_cons]; split; simp; exact hx)
        · intro c hc
          simp only at hc
          rw [List.mem_append] at hc
          rcases hc with hc | hc
          · exact Or.inl hc
          · simp at hc; subst hc; exact Or.inr D.head

theorem run_good (nb : Nat → List Nat) (minPts fuel : Nat) : ∀ (points : List Nat) (s s' : St),
    Good nb minPts s → run nb minPts fuel s points = some s' →
    Good nb minPts s' ∧ (∀ p ∈ points, getT s'.types p ≠ none) ∧
      (∀ x, getT s.types x ≠ none → getT s'.types x ≠ none) ∧
      (∀ c ∈ s'.clusters, c ∈ s.clusters ∨ ∃ p ∈ points, c.head? = some p) := by
  intro points
  induction points with
  | nil =>
    intro s s' G h
    simp only [run, Option.some.injEq] at h
    subst h
    exact ⟨G, by simp, fun _ hx => hx, fun c hc => Or.inl hc⟩
  | cons p ps ih =>
    intro s s' G h
    simp only [run] at h
    cases hv : visit nb minPts fuel s p with
    | none => simp [hv] at h
    | some s1 =>
      simp only [hv] at h
      obtain ⟨G1, hp1, hm1, hc1⟩ := visit_good nb minPts fuel s s1 p G hv
      obtain ⟨G2, hp2, hm2, hc2⟩ := ih s1 s' G1 h
      refine ⟨G2, ?_, fun x hx => hm2 x (hm1 x hx), ?_⟩
      · intro q hq
        rw [List.mem_cons] at hq
        rcases hq with hq | hq
        · subst hq; exact hm2 q hp1
        · exact hp2 q hq
      · intro c hc
        rcases hc2 c hc with h1 | ⟨q, hq, hh⟩
        · rcases hc1 c h1 with h2 | h2
          · exact Or.inl h2
          · exact Or.inr ⟨p, by simp, h2⟩
        · exact Or.inr ⟨q, List.mem_cons_of_mem _ hq, hh⟩

theorem good_init (nb : Nat → List Nat) (minPts : Nat) : Good nb minPts { types := [], clusters := [] } :=
  ⟨by simp, by simp [getT], by simp [getT], by simp, by simp⟩

theorem createClusters_run {nb : Nat → List Nat} {minPts fuel : Nat} {points : List Nat} {cs : List (List Nat)}
    (h : createClusters nb minPts fuel points = some cs) :
    ∃ s', run nb minPts fuel { types := [], clusters := [] } points = some s' ∧ s'.clusters = cs := by
  unfold createClusters at h
  cases hr : run nb minPts fuel { types := [], clusters := [] } points with
  | none => simp [hr] at h
  | some s' => simp [hr] at h; exact ⟨s', rfl, h⟩

/-! ### the property theorems -/

/-- **C17 (DBSCAN)**: no point belongs to two clusters and no cluster lists a point twice -/
theorem clusters_pairwise_disjoint (nb : Nat → List Nat) (minPts fuel : Nat) (points : List Nat) (cs : List (List Nat))
    (h : createClusters nb minPts fuel points = some cs) : cs.flatten.Nodup := by
  obtain ⟨s', hr, rfl⟩ := createClusters_run h
  exact (run_good nb minPts fuel points _ s' (good_init nb minPts) hr).1.nodup

/-- **C17 (DBSCAN)**: every cluster is grown from a point of the input that has at least `min_points` neighbours -/
theorem cluster_seed_is_core (nb : Nat → List Nat) (minPts fuel : Nat) (points : List Nat) (cs : List (List Nat))
    (h : createClusters nb minPts fuel points = some cs) :
    ∀ c ∈ cs, ∃ seed, c.head? = some seed ∧ seed ∈ points ∧ minPts ≤ (nb seed).length := by
  obtain ⟨s', hr, rfl⟩ := createClusters_run h
  obtain ⟨G, _, _, hc⟩ := run_good nb minPts fuel points _ s' (good_init nb minPts) hr
  intro c hcm
  obtain ⟨seed, hh, hcore, _⟩ := G.seeds c hcm
  refine ⟨seed, hh, ?_, by simpa [core] using hcore⟩
  rcases hc c hcm with h1 | ⟨p, hp, hph⟩
  · simp at h1
  · rw [hh] at hph; cases hph; exact hp

/-- **C17 (DBSCAN)**: every member of a cluster is density-reachable from the cluster's first point -/
theorem members_density_reachable (nb : Nat → List Nat) (minPts fuel : Nat) (points : List Nat) (cs : List (List Nat))
    (h : createClusters nb minPts fuel points = some cs) :
    ∀ c ∈ cs, ∃ seed, c.head? = some seed ∧ ∀ q ∈ c, Reach nb minPts seed q := by
  obtain ⟨s', hr, rfl⟩ := createClusters_run h
  obtain ⟨G, _, _, _⟩ := run_good nb minPts fuel points _ s' (good_init nb minPts) hr
  intro c hcm
  obtain ⟨seed, hh, _, hr⟩ := G.seeds c hcm
  exact ⟨seed, hh, hr⟩

/-- **C17 (DBSCAN)**: no core point of the input is left unclustered, and the clusters are closed under
    neighbourhoods of their core members (every neighbour of a clustered core point is clustered) -/
theorem no_core_unclustered (nb : Nat → List Nat) (minPts fuel : Nat) (points : List Nat) (cs : List (List Nat))
    (h : createClusters nb minPts fuel points = some cs) :
    (∀ p ∈ points, minPts ≤ (nb p).length → p ∈ cs.flatten) ∧
    (∀ p ∈ cs.flatten, minPts ≤ (nb p).length → ∀ q ∈ nb p, q ∈ cs.flatten) := by
  obtain ⟨s', hr, rfl⟩ := createClusters_run h
  obtain ⟨G, hp, _, _⟩ := run_good nb minPts fuel points _ s' (good_init nb minPts) hr
  constructor
  · intro p hpm hc
    rcases PT_cases (getT s'.types p) with ht | ht | ht
    · exact absurd ht (hp p hpm)
    · have := G.noise p ht; simp [core] at this; omega
    · exact (G.typed p).mpr ht
  · intro p hpm hc q hq
    exact G.closed p hpm (by simpa [core] using hc) q hq

/-! ### the fuel bound is sufficient -/

/-- total length of the neighbourhoods of the points of `univ` that have no type yet -/
def W (nb : Nat → List Nat) (univ : List Nat) (ts : Types) : Nat :=
  ((univ.filter (fun q => (getT ts q).isNone)).map (fun q => (nb q).length)).sum

theorem W_cons (nb : Nat → List Nat) (u : Nat) (us : List Nat) (ts : Types) :
    W nb (u :: us) ts = (if (getT ts u).isNone then (nb u).length else 0) + W nb us ts := by
  unfold W
  simp only [List.filter_cons]
  split <;> simp

theorem W_cons_le (nb : Nat → List Nat) (x : Nat) (t : PT) (ts : Types) : ∀ univ : List Nat,
    W nb univ ((x, t) :: ts) ≤ W nb univ ts := by
  intro univ
  induction univ with
  | nil => simp [W]
  | cons u us ih =>
    rw [W_cons, W_cons, getT_cons]
    by_cases e : x = u
    · subst e; simp only [if_true, Option.isNone_some, Bool.false_eq_true, if_false]; omega
    · simp only [e, if_false]; omega

theorem W_cons_drop (nb : Nat → List Nat) (x : Nat) (t : PT) (ts : Types) (hx : getT ts x = none) :
    ∀ univ : List Nat, x ∈ univ → W nb univ ((x, t) :: ts) + (nb x).length ≤ W nb univ ts := by
  intro univ
  induction univ with
  | nil => intro h; simp at h
  | cons u us ih =>
    intro hmem
    rw [W_cons, W_cons, getT_cons]
    by_cases e : x = u
    · subst e
      have := W_cons_le nb x t ts us
      simp only [if_true, Option.isNone_some, Bool.false_eq_true, if_false, hx, Option.isNone_none]
      omega
    · have hin : x ∈ us := by
        rcases List.mem_cons.mp hmem with h | h
        · exact absurd h e
        · exact h
      have := ih hin
      simp only [e, if_false]
      omega

theorem W_le_total (nb : Nat → List Nat) (ts : Types) : ∀ univ : List Nat,
    W nb univ ts ≤ (univ.map (fun q => (nb q).length)).sum := by
  intro univ
  induction univ with
  | nil => simp [W]
  | cons u us ih =>
    rw [W_cons]
    simp only [List.map_cons, List.sum_cons]
    split <;> omega

theorem expand_isSome (nb : Nat → List Nat) (minPts : Nat) (univ : List Nat)
    (hclosed : ∀ p ∈ univ, ∀ q ∈ nb p, q ∈ univ) :
    ∀ (fuel : Nat) (nbs : List Nat) (idx : Nat) (nbIdx : List Nat) (ts : Types) (cl : List Nat),
      (∀ q ∈ nbs, q ∈ univ) → (nbs.length - idx) + W nb univ ts + 1 ≤ fuel →
      (expand nb minPts fuel nbs idx nbIdx ts cl).isSome = true := by
  intro fuel
  induction fuel with
  | zero => intro nbs idx nbIdx ts cl _ h; omega
  | succ fuel ih =>
    intro nbs idx nbIdx ts cl hsub hf
    cases hp : nbs[idx]? with
    | none => rw [expand_done nb minPts fuel nbs idx nbIdx ts cl hp]; rfl
    | some p =>
      have hlt : idx < nbs.length := by
        rcases Nat.lt_or_ge idx nbs.length with h1 | h1
        · exact h1
        · rw [List.getElem?_eq_none h1] at hp; cases hp
      have hpu : p ∈ univ := hsub p (List.mem_of_getElem? hp)
      have hle := W_cons_le nb p .clustered ts univ
      rcases PT_cases (getT ts p) with ht | ht | ht
      · by_cases hc : minPts ≤ (nb p).length
        · rw [expand_new_core nb minPts fuel nbs idx nbIdx ts cl p hp ht hc]
          apply ih
          · intro q hq
            rw [List.mem_append] at hq
            rcases hq with hq | hq
            · exact hsub q hq
            · exact hclosed p hpu q (List.mem_filter.mp hq).1
          · have h1 := W_cons_drop nb p .clustered ts ht univ hpu
            have h2 : ((nb p).filter (fun q => !nbIdx.contains q)).length ≤ (nb p).length := List.length_filter_le _ _
            rw [List.length_append]
            omega
        · rw [expand_new_border nb minPts fuel nbs idx nbIdx ts cl p hp ht hc]
          exact ih _ _ _ _ _ hsub (by omega)
      · rw [expand_noise nb minPts fuel nbs idx nbIdx ts cl p hp ht]
        exact ih _ _ _ _ _ hsub (by omega)
      · rw [expand_clustered nb minPts fuel nbs idx nbIdx ts cl p hp ht]
        exact ih _ _ _ _ _ hsub (by omega)

theorem visit_isSome (nb : Nat → List Nat) (minPts : Nat) (univ : List Nat)
    (hclosed : ∀ p ∈ univ, ∀ q ∈ nb p, q ∈ univ) (s : St) (p : Nat) (hp : p ∈ univ) :
    (visit nb minPts (fuelBound nb univ) s p).isSome = true := by
  unfold visit
  by_cases hs : (getT s.types p).isSome = true
  · simp [hs]
  · have hnone : getT s.types p = none := by simpa using hs
    have hs' : (getT s.types p).isSome = false := by simpa using hs
    simp only [hs', Bool.false_eq_true, if_false]
    by_cases hl : (nb p).length < minPts
    · simp [hl]
    · simp only [hl, if_false]
      have h1 := W_cons_drop nb p .clustered s.types hnone univ hp
      have h2 := W_le_total nb s.types univ
      have := expand_isSome nb minPts univ hclosed (fuelBound nb univ) (nb p) 0 (nb p)
        ((p, .clustered) :: s.types) [p] (hclosed p hp) (by unfold fuelBound; omega)
      cases he : expand nb minPts (fuelBound nb univ) (nb p) 0 (nb p) ((p, .clustered) :: s.types) [p] with
      | none => rw [he] at this; cases this
      | some r => rfl

theorem run_isSome (nb : Nat → List Nat) (minPts : Nat) (univ : List Nat)
    (hclosed : ∀ p ∈ univ, ∀ q ∈ nb p, q ∈ univ) : ∀ (points : List Nat) (s : St), (∀ p ∈ points, p ∈ univ) →
    (run nb minPts (fuelBound nb univ) s points).isSome = true := by
  intro points
  induction points with
  | nil => intro s _; rfl
  | cons p ps ih =>
    intro s hsub
    simp only [run]
    have := visit_isSome nb minPts univ hclosed s p (hsub p (by simp))
    cases hv : visit nb minPts (fuelBound nb univ) s p with
    | none => rw [hv] at this; cases this
    | some s1 => exact ih s1 (fun q hq => hsub q (List.mem_cons_of_mem _ hq))

/-- **C17 (DBSCAN)** `fuel_sufficient`: when the points and all their neighbourhoods lie in `univ`, the fuel
    `1 + Σ_{q ∈ univ} |nb q|` is enough for every cluster expansion — the model never stops early, so it
    describes complete runs of the `while index < neighbors.len()` loop (which therefore terminates). -/
theorem fuel_sufficient (nb : Nat → List Nat) (minPts : Nat) (univ points : List Nat)
    (hpts : ∀ p ∈ points, p ∈ univ) (hclosed : ∀ p ∈ univ, ∀ q ∈ nb p, q ∈ univ) :
    (createClusters nb minPts (fuelBound nb univ) points).isSome = true := by
  unfold createClusters
  have := run_isSome nb minPts univ hclosed points { types := [], clusters := [] } hpts
  cases hr : run nb minPts (fuelBound nb univ) { types := [], clusters := [] } points with
  | none => rw [hr] at this; cases this
  | some s => rfl

/-! ### the Bool specifications evaluated by the driver -/

/-- the model's output passes the executable specification entries `disjoint`, `seed_is_core`, `no_core_unclustered` -/
theorem model_meets_spec (nb : Nat → List Nat) (minPts fuel : Nat) (points : List Nat) (cs : List (List Nat))
    (h : createClusters nb minPts fuel points = some cs) :
    specDisjoint cs = true ∧ specSeedCore nb minPts points cs = true ∧ specNoCoreLeft nb minPts points cs = true := by
  refine ⟨?_, ?_, ?_⟩
  · unfold specDisjoint; rw [nodupB_iff]; exact clusters_pairwise_disjoint nb minPts fuel points cs h
  · unfold specSeedCore
    rw [List.all_eq_true]
    intro c hc
    obtain ⟨seed, hh, hp, hcore⟩ := cluster_seed_is_core nb minPts fuel points cs h c hc
    rw [hh]
    simp [core, hcore, hp]
  · obtain ⟨h1, h2⟩ := no_core_unclustered nb minPts fuel points cs h
    unfold specNoCoreLeft
    simp only [Bool.and_eq_true, List.all_eq_true, Bool.or_eq_true, Bool.not_eq_true', List.contains_iff_mem]
    constructor
    · intro p hp
      by_cases hc : minPts ≤ (nb p).length
      · exact Or.inr (h1 p hp hc)
      · left; simp [core]; omega
    · intro p hp
      by_cases hc : minPts ≤ (nb p).length
      · exact Or.inr (fun q hq => h2 p hp hc q hq)
      · left; simp [core]; omega

theorem mem_addNew (x : Nat) : ∀ (xs acc : List Nat), x ∈ addNew acc xs → x ∈ acc ∨ x ∈ xs := by
  intro xs
  induction xs with
  | nil => intro acc h; exact Or.inl (by simpa [addNew] using h)
  | cons y ys ih =>
    intro acc h
    unfold addNew at h
    simp only [List.foldl_cons] at h
    have := ih (if acc.contains y then acc else acc ++ [y]) (by unfold addNew; exact h)
    rcases this with h1 | h1
    · split at h1
      · exact Or.inl h1
      · rw [List.mem_append] at h1
        rcases h1 with h1 | h1
        · exact Or.inl h1
        · simp at h1; subst h1; exact Or.inr (by simp)
    · exact Or.inr (List.mem_cons_of_mem _ h1)

theorem reachStep_sound (nb : Nat → List Nat) (minPts seed : Nat) (s : List Nat)
    (hs : ∀ q ∈ s, Reach nb minPts seed q) : ∀ q ∈ reachStep nb minPts s, Reach nb minPts seed q := by
  unfold reachStep
  suffices H : ∀ (l a : List Nat), (∀ q ∈ l, Reach nb minPts seed q) → (∀ q ∈ a, Reach nb minPts seed q) →
      ∀ q ∈ l.foldl (fun a p => if core nb minPts p then addNew a (nb p) else a) a, Reach nb minPts seed q from
    H s s hs hs
  intro l
  induction l with
  | nil => intro a _ ha; simpa using ha
  | cons p ps ih =>
    intro a hl ha
    simp only [List.foldl_cons]
    apply ih _ (fun q hq => hl q (List.mem_cons_of_mem _ hq))
    by_cases hc : core nb minPts p = true
    · simp only [hc, if_true]
      intro q hq
      rcases mem_addNew q _ _ hq with h1 | h1
      · exact ha q h1
      · exact Reach.step (hl p (by simp)) hc h1
    · have hc' : core nb minPts p = false := by simpa using hc
      simp only [hc', Bool.false_eq_true, if_false]; exact ha

theorem reachSet_sound (nb : Nat → List Nat) (minPts seed : Nat) : ∀ (r : Nat) (s : List Nat),
    (∀ q ∈ s, Reach nb minPts seed q) → ∀ q ∈ reachSet nb minPts r s, Reach nb minPts seed q := by
  intro r
  induction r with
  | zero => intro s hs; simpa [reachSet] using hs
  | succ r ih => intro s hs; simp only [reachSet]; exact ih _ (reachStep_sound nb minPts seed s hs)

/-- the executable check `members_reachable` is sound for density-reachability -/
theorem specReachable_sound (nb : Nat → List Nat) (minPts rounds : Nat) (cs : List (List Nat))
    (h : specReachable nb minPts rounds cs = true) :
    ∀ c ∈ cs, ∃ seed, c.head? = some seed ∧ ∀ q ∈ c, Reach nb minPts seed q := by
  unfold specReachable at h
  rw [List.all_eq_true] at h
  intro c hc
  have := h c hc
  cases hh : c.head? with
  | none => simp [hh] at this
  | some seed =>
    simp only [hh, List.all_eq_true, List.contains_iff_mem] at this
    refine ⟨seed, rfl, fun q hq => reachSet_sound nb minPts seed rounds [seed] ?_ q (this q hq)⟩
    intro x hx; simp at hx; subst hx; exact Reach.refl

/-! ### non-vacuity -/

/-- points on a line at 0,1,2,3 | 6,7,8 | 20 with `eps = 2` (self included), `min_points = 3`:
    two clusters and one noise point; border points join the cluster that reaches them first -/
def exNb (p : Nat) : List Nat :=
  ([[0, 1], [1, 0, 2], [2, 1, 3], [3, 2], [4, 5], [5, 4, 6], [6, 5], [7]] : List (List Nat)).getD p []

example : createClusters exNb 3 (fuelBound exNb (List.range 8)) (List.range 8) =
    some [[1, 0, 2, 3], [5, 4, 6]] := by decide

example : specReachable exNb 3 9 [[1, 0, 2, 3], [5, 4, 6]] = true := by decide

/-- the hypotheses of `fuel_sufficient` hold for this instance -/
example : (∀ p ∈ List.range 8, p ∈ List.range 8) ∧ (∀ p ∈ List.range 8, ∀ q ∈ exNb p, q ∈ List.range 8) := by decide

/-- a point first marked as noise later joins a cluster as a border point (`points = [4, 0]`) -/
def exNb2 (p : Nat) : List Nat := ([[1, 2], [0, 3], [0], [], [3]] : List (List Nat)).getD p []
example : createClusters exNb2 2 (fuelBound exNb2 (List.range 5)) [4, 0] = some [[0, 1, 2, 3]] := by decide

end C17.Dbscan
