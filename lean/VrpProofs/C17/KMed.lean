import VrpModel.C17
import VrpProofs.C17.Basic
import Mathlib.Data.List.Perm.Subperm
import Mathlib.Data.List.Nodup
/-!
# C17 / k-medoids — theorems about `assign_points_to_medoids`, `KMedoids::calculate`, `create_hierarchical_kmedoids`

`result_is_partition`, `nearest_own_medoid`, `keys_are_medoids`, `key_in_own_cluster`, `calculate_no_panic`,
`kmedoids_meets_spec`, and the per-split contract of the hierarchy (`hier_*`).
-/
set_option linter.unusedSimpArgs false
set_option linter.unnecessarySimpa false
set_option linter.unusedVariables false

namespace C17.KMed

/-! ### `min_by`: first minimal element of a fold -/

theorem argmin_foldl (f : Nat → Int) : ∀ (l : List Nat) (init : Nat),
    (l.foldl (fun best x => if f x < f best then x else best) init = init ∨
      l.foldl (fun best x => if f x < f best then x else best) init ∈ l) ∧
    f (l.foldl (fun best x => if f x < f best then x else best) init) ≤ f init ∧
    ∀ x ∈ l, f (l.foldl (fun best x => if f x < f best then x else best) init) ≤ f x := by
  intro l
  induction l with
  | nil => intro init; simp
  | cons y ys ih =>
    intro init
    simp only [List.foldl_cons]
    by_cases hlt : f y < f init
    · simp only [hlt, if_true]
      obtain ⟨h1, h2, h3⟩ := ih y
      refine ⟨?_, by omega, ?_⟩
      · rcases h1 with h1 | h1
        · right; rw [h1]; simp
        · right; exact List.mem_cons_of_mem _ h1
      · intro x hx
        rcases List.mem_cons.mp hx with hx | hx
        · subst hx; exact h2
        · exact h3 x hx
    · simp only [hlt, if_false]
      obtain ⟨h1, h2, h3⟩ := ih init
      refine ⟨?_, h2, ?_⟩
      · rcases h1 with h1 | h1
        · left; exact h1
        · right; exact List.mem_cons_of_mem _ h1
      · intro x hx
        rcases List.mem_cons.mp hx with hx | hx
        · subst hx; omega
        · exact h3 x hx

theorem nearest_spec (d : Nat → Nat → Int) (p : Nat) (ms : List Nat) (m : Nat) (h : nearest d p ms = some m) :
    m ∈ ms ∧ ∀ m' ∈ ms, d p m ≤ d p m' := by
  cases ms with
  | nil => simp [nearest] at h
  | cons a r =>
    simp only [nearest, Option.some.injEq] at h
    obtain ⟨h1, h2, h3⟩ := argmin_foldl (fun x => d p x) r a
    rw [h] at h1 h2 h3
    refine ⟨?_, ?_⟩
    · rcases h1 with h1 | h1
      · rw [h1]; simp
      · exact List.mem_cons_of_mem _ h1
    · intro m' hm'
      rcases List.mem_cons.mp hm' with hm' | hm'
      · subst hm'; exact h2
      · exact h3 m' hm'

theorem nearest_isSome (d : Nat → Nat → Int) (p : Nat) (ms : List Nat) (h : ms ≠ []) : ∃ m, nearest d p ms = some m := by
  cases ms with
  | nil => exact absurd rfl h
  | cons a r => exact ⟨_, rfl⟩

theorem medoidOf_mem (d : Nat → Nat → Int) (pts : List Nat) (m : Nat) (h : medoidOf d pts = some m) : m ∈ pts := by
  cases pts with
  | nil => simp [medoidOf] at h
  | cons a r =>
    simp only [medoidOf, Option.some.injEq] at h
    obtain ⟨h1, _, _⟩ := argmin_foldl (fun x => costOf d (a :: r) x) r a
    rw [h] at h1
    rcases h1 with h1 | h1
    · rw [h1]; simp
    · exact List.mem_cons_of_mem _ h1

/-- the chosen medoid minimises the summed distance of the cluster's points to it -/
theorem medoidOf_min (d : Nat → Nat → Int) (pts : List Nat) (m : Nat) (h : medoidOf d pts = some m) :
    ∀ x ∈ pts, costOf d pts m ≤ costOf d pts x := by
  cases pts with
  | nil => simp [medoidOf] at h
  | cons a r =>
    simp only [medoidOf, Option.some.injEq] at h
    obtain ⟨_, h2, h3⟩ := argmin_foldl (fun x => costOf d (a :: r) x) r a
    rw [h] at h2 h3
    intro x hx
    rcases List.mem_cons.mp hx with hx | hx
    · subst hx; exact h2
    · exact h3 x hx

/-! ### `entry(m).or_default().push(p)` -/

def keysOf (cl : Clusters) : List Nat := cl.map (·.1)
def ptsOf (cl : Clusters) : List Nat := cl.flatMap (·.2)

theorem keysOf_map_upd (m p : Nat) (cl : Clusters) :
    keysOf (cl.map (fun kv => if kv.1 == m then (kv.1, kv.2 ++ [p]) else kv)) = keysOf cl := by
  unfold keysOf
  rw [List.map_map]
  apply List.map_congr_left
  intro kv _
  simp only [Function.comp]
  split <;> rfl

theorem map_upd_of_not_mem (m p : Nat) : ∀ cl : Clusters, m ∉ keysOf cl →
    cl.map (fun kv => if kv.1 == m then (kv.1, kv.2 ++ [p]) else kv) = cl := by
  intro cl
  induction cl with
  | nil => intro _; rfl
  | cons kv rest ih =>
    intro h
    simp only [keysOf, List.map_cons, List.mem_cons, not_or] at h
    have h1 : (kv.1 == m) = false := by simpa using fun e => h.1 e.symm
    simp only [List.map_cons, h1, Bool.false_eq_true, if_false]
    rw [ih h.2]

theorem count_map_upd (m p x : Nat) : ∀ cl : Clusters, (keysOf cl).Nodup → m ∈ keysOf cl →
    (ptsOf (cl.map (fun kv => if kv.1 == m then (kv.1, kv.2 ++ [p]) else kv))).count x =
      (ptsOf cl).count x + (if p = x then 1 else 0) := by
  intro cl
  induction cl with
  | nil => intro _ h; simp [keysOf] at h
  | cons kv rest ih =>
    intro hnd hm
    simp only [keysOf, List.map_cons, List.nodup_cons] at hnd
    by_cases e : kv.1 = m
    · have hnot : m ∉ keysOf rest := by rw [← e]; exact hnd.1
      have h1 : (kv.1 == m) = true := by simpa using e
      simp only [List.map_cons, h1, if_true]
      rw [map_upd_of_not_mem m p rest hnot]
      simp only [ptsOf, List.flatMap_cons, List.count_append, List.count_cons, List.count_nil]
      simp only [beq_iff_eq]
      omega
    · have hm' : m ∈ keysOf rest := by
        simp only [keysOf, List.map_cons, List.mem_cons] at hm
        rcases hm with hm | hm
        · exact absurd hm.symm e
        · exact hm
      have h1 : (kv.1 == m) = false := by simpa using e
      simp only [List.map_cons, h1, Bool.false_eq_true, if_false]
      have := ih hnd.2 hm'
      simp only [ptsOf, List.flatMap_cons, List.count_append] at this ⊢
      omega

theorem any_key_iff (m : Nat) (cl : Clusters) : cl.any (fun kv => kv.1 == m) = true ↔ m ∈ keysOf cl := by
  simp only [List.any_eq_true, beq_iff_eq, keysOf, List.mem_map]

theorem keysOf_pushTo (cl : Clusters) (m p : Nat) :
    keysOf (pushTo cl m p) = if m ∈ keysOf cl then keysOf cl else keysOf cl ++ [m] := by
  unfold pushTo
  by_cases h : m ∈ keysOf cl
  · simp only [(any_key_iff m cl).mpr h, if_true, h, keysOf_map_upd]
  · have : cl.any (fun kv => kv.1 == m) = false := by
      rw [← Bool.not_eq_true]; exact fun h' => h ((any_key_iff m cl).mp h')
    simp only [this, Bool.false_eq_true, if_false, h]
    simp [keysOf]

theorem count_pushTo (cl : Clusters) (m p x : Nat) (hnd : (keysOf cl).Nodup) :
    (ptsOf (pushTo cl m p)).count x = (ptsOf cl).count x + (if p = x then 1 else 0) := by
  unfold pushTo
  by_cases h : m ∈ keysOf cl
  · simp only [(any_key_iff m cl).mpr h, if_true]
    exact count_map_upd m p x cl hnd h
  · have : cl.any (fun kv => kv.1 == m) = false := by
      rw [← Bool.not_eq_true]; exact fun h' => h ((any_key_iff m cl).mp h')
    simp only [this, Bool.false_eq_true, if_false]
    simp only [ptsOf, List.flatMap_append, List.flatMap_cons, List.flatMap_nil, List.append_nil, List.count_append,
      List.count_cons, List.count_nil, beq_iff_eq]
    omega

/-- every cluster after the push is an old cluster, or the cluster of `m`: non-empty, and its points are `p`
    or points of the old cluster of `m` -/
theorem mem_pushTo (cl : Clusters) (m p : Nat) (kv : Nat × List Nat) (h : kv ∈ pushTo cl m p) :
    kv ∈ cl ∨ (kv.1 = m ∧ kv.2 ≠ [] ∧ ∀ x ∈ kv.2, x = p ∨ ∃ kv' ∈ cl, kv'.1 = m ∧ x ∈ kv'.2) := by
  unfold pushTo at h
  split at h
  · rw [List.mem_map] at h
    obtain ⟨kv0, h0, rfl⟩ := h
    by_cases e : (kv0.1 == m) = true
    · simp only [e, if_true]
      right
      refine ⟨by simpa using e, by simp, ?_⟩
      intro x hx
      simp only [List.mem_append, List.mem_singleton] at hx
      rcases hx with hx | hx
      · exact Or.inr ⟨kv0, h0, by simpa using e, hx⟩
      · exact Or.inl hx
    · have e' : (kv0.1 == m) = false := by simpa using e
      simp only [e', Bool.false_eq_true, if_false]
      exact Or.inl h0
  · rw [List.mem_append] at h
    rcases h with h | h
    · exact Or.inl h
    · simp only [List.mem_singleton] at h
      subst h
      right
      exact ⟨rfl, by simp, fun x hx => Or.inl (by simpa using hx)⟩

/-! ### `assign_points_to_medoids` -/

/-- invariant of the assignment fold -/
structure AInv (d : Nat → Nat → Int) (medoids : List Nat) (cl : Clusters) : Prop where
  keysNodup : (keysOf cl).Nodup
  nonempty : ∀ kv ∈ cl, kv.2 ≠ []
  near : ∀ kv ∈ cl, ∀ p ∈ kv.2, nearest d p medoids = some kv.1

theorem assignFrom_inv (d : Nat → Nat → Int) (medoids : List Nat) : ∀ (data : List Nat) (cl cl' : Clusters),
    AInv d medoids cl → assignFrom d medoids cl data = some cl' →
    AInv d medoids cl' ∧ ∀ x, (ptsOf cl').count x = (ptsOf cl).count x + data.count x := by
  intro data
  induction data with
  | nil =>
    intro cl cl' I h
    simp only [assignFrom, Option.some.injEq] at h
    subst h
    exact ⟨I, by simp⟩
  | cons p ps ih =>
    intro cl cl' I h
    simp only [assignFrom] at h
    cases hn : nearest d p medoids with
    | none => simp [hn] at h
    | some m =>
      simp only [hn] at h
      have I' : AInv d medoids (pushTo cl m p) := by
        refine ⟨?_, ?_, ?_⟩
        · rw [keysOf_pushTo]
          split
          · exact I.keysNodup
          · rename_i hm
            rw [List.nodup_append]
            refine ⟨I.keysNodup, by simp, ?_⟩
            intro a ha b hb
            simp at hb; subst hb
            intro e; subst e; exact hm ha
        · intro kv hkv
          rcases mem_pushTo cl m p kv hkv with h1 | ⟨_, h2, _⟩
          · exact I.nonempty kv h1
          · exact h2
        · intro kv hkv x hx
          rcases mem_pushTo cl m p kv hkv with h1 | ⟨h1, _, h3⟩
          · exact I.near kv h1 x hx
          · rcases h3 x hx with h4 | ⟨kv', hkv', hk, hxk⟩
            · rw [h4, h1]; exact hn
            · rw [h1, ← hk]; exact I.near kv' hkv' x hxk
      obtain ⟨I2, hc⟩ := ih (pushTo cl m p) cl' I' h
      refine ⟨I2, ?_⟩
      intro x
      rw [hc x, count_pushTo cl m p x I.keysNodup, List.count_cons]
      simp only [beq_iff_eq]
      omega

theorem AInv_nil (d : Nat → Nat → Int) (medoids : List Nat) : AInv d medoids [] :=
  ⟨by simp [keysOf], by simp, by simp⟩

/-- all facts about one assignment -/
structure Assigned (d : Nat → Nat → Int) (data medoids : List Nat) (cl : Clusters) : Prop where
  count : ∀ x, (ptsOf cl).count x = data.count x
  keysNodup : (keysOf cl).Nodup
  nonempty : ∀ kv ∈ cl, kv.2 ≠ []
  near : ∀ kv ∈ cl, ∀ p ∈ kv.2, nearest d p medoids = some kv.1

theorem assign_assigned (d : Nat → Nat → Int) (data medoids : List Nat) (cl : Clusters)
    (h : assign d data medoids = some cl) : Assigned d data medoids cl := by
  unfold assign at h
  obtain ⟨I, hc⟩ := assignFrom_inv d medoids data [] cl (AInv_nil d medoids) h
  exact ⟨fun x => by rw [hc x]; simp [ptsOf], I.keysNodup, I.nonempty, I.near⟩

theorem Assigned.key_mem {d : Nat → Nat → Int} {data medoids : List Nat} {cl : Clusters}
    (A : Assigned d data medoids cl) : ∀ kv ∈ cl, kv.1 ∈ medoids := by
  intro kv hkv
  have hne := A.nonempty kv hkv
  cases hv : kv.2 with
  | nil => exact absurd hv hne
  | cons p r =>
    exact (nearest_spec d p medoids kv.1 (A.near kv hkv p (by rw [hv]; simp))).1

theorem Assigned.pts_mem {d : Nat → Nat → Int} {data medoids : List Nat} {cl : Clusters}
    (A : Assigned d data medoids cl) : ∀ kv ∈ cl, ∀ p ∈ kv.2, p ∈ data := by
  intro kv hkv p hp
  have : p ∈ ptsOf cl := by
    unfold ptsOf; rw [List.mem_flatMap]; exact ⟨kv, hkv, hp⟩
  have h1 : 0 < (ptsOf cl).count p := List.count_pos_iff.mpr this
  rw [A.count p] at h1
  exact List.count_pos_iff.mp h1

theorem Assigned.nearest_own {d : Nat → Nat → Int} {data medoids : List Nat} {cl : Clusters}
    (A : Assigned d data medoids cl) : ∀ kv ∈ cl, ∀ p ∈ kv.2, ∀ kv' ∈ cl, d p kv.1 ≤ d p kv'.1 := by
  intro kv hkv p hp kv' hkv'
  exact (nearest_spec d p medoids kv.1 (A.near kv hkv p hp)).2 kv'.1 (A.key_mem kv' hkv')

theorem assign_isSome (d : Nat → Nat → Int) (medoids : List Nat) (hm : medoids ≠ []) : ∀ (data : List Nat) (cl : Clusters),
    ∃ cl', assignFrom d medoids cl data = some cl' := by
  intro data
  induction data with
  | nil => intro cl; exact ⟨cl, rfl⟩
  | cons p ps ih =>
    intro cl
    obtain ⟨m, hn⟩ := nearest_isSome d p medoids hm
    simp only [assignFrom, hn]
    exact ih _

/-! ### `update_medoids` and the loop of `calculate` -/

theorem updateMedoids_mem {d : Nat → Nat → Int} {data ms : List Nat} {cl : Clusters} (A : Assigned d data ms cl) :
    ∀ m ∈ updateMedoids d cl, m ∈ data := by
  intro m hm
  unfold updateMedoids at hm
  rw [List.mem_filterMap] at hm
  obtain ⟨kv, hkv, hmed⟩ := hm
  exact A.pts_mem kv hkv m (medoidOf_mem d kv.2 m hmed)

theorem updateMedoids_ne_nil {d : Nat → Nat → Int} {data ms : List Nat} {cl : Clusters} (A : Assigned d data ms cl)
    (hcl : cl ≠ []) : updateMedoids d cl ≠ [] := by
  cases cl with
  | nil => exact absurd rfl hcl
  | cons kv rest =>
    have hne := A.nonempty kv (by simp)
    unfold updateMedoids
    cases hv : kv.2 with
    | nil => exact absurd hv hne
    | cons p r =>
      simp only [List.filterMap_cons, hv, medoidOf]
      simp

theorem Assigned.length_le {d : Nat → Nat → Int} {data medoids : List Nat} {cl : Clusters}
    (A : Assigned d data medoids cl) : cl.length ≤ medoids.length := by
  have hsub : keysOf cl ⊆ medoids := by
    intro k hk
    simp only [keysOf, List.mem_map] at hk
    obtain ⟨kv, hkv, rfl⟩ := hk
    exact A.key_mem kv hkv
  have := (List.subperm_of_subset A.keysNodup hsub).length_le
  simpa [keysOf] using this

/-- whatever the loop returns is the assignment of the data to some list of data points (the final medoids),
    which is not longer than the start list -/
theorem calcLoop_result (d : Nat → Nat → Int) (data : List Nat) (ord : Nat → List Nat → List Nat)
    (hord : ∀ i l, (ord i l).Perm l) : ∀ (it : Nat) (ms : List Nat) (cl : Clusters), (∀ m ∈ ms, m ∈ data) →
    calcLoop d data ord it ms = some cl →
    ∃ ms', (∀ m ∈ ms', m ∈ data) ∧ ms'.length ≤ ms.length ∧ assign d data ms' = some cl := by
  intro it
  induction it with
  | zero => intro ms cl hms h; exact ⟨ms, hms, Nat.le_refl _, h⟩
  | succ it ih =>
    intro ms cl hms h
    simp only [calcLoop] at h
    cases ha : assign d data ms with
    | none => simp [ha] at h
    | some cl0 =>
      simp only [ha] at h
      split at h
      · simp only [Option.some.injEq] at h; subst h; exact ⟨ms, hms, Nat.le_refl _, ha⟩
      · have A := assign_assigned d data ms cl0 ha
        obtain ⟨ms', h1, h2, h3⟩ := ih _ cl (by
          intro m hm
          exact updateMedoids_mem A m ((hord it _).mem_iff.mp hm)) h
        refine ⟨ms', h1, ?_, h3⟩
        have hl1 : (ord it (updateMedoids d cl0)).length = (updateMedoids d cl0).length := (hord it _).length_eq
        have hl2 : (updateMedoids d cl0).length ≤ cl0.length := by
          unfold updateMedoids; exact List.length_filterMap_le _ _
        have hl3 := A.length_le
        omega

/-- **no panic**: with a non-empty start list of medoids the loop always returns a map
    (`expect("cannot find nearest medoid")` / `expect("cannot find medoid")` are never hit) -/
theorem calculate_no_panic (d : Nat → Nat → Int) (data : List Nat) (ord : Nat → List Nat → List Nat)
    (hord : ∀ i l, (ord i l).Perm l) (hdata : data ≠ []) : ∀ (it : Nat) (ms : List Nat), ms ≠ [] →
    ∃ cl, calcLoop d data ord it ms = some cl := by
  intro it
  induction it with
  | zero =>
    intro ms hms
    exact assign_isSome d ms hms data []
  | succ it ih =>
    intro ms hms
    obtain ⟨cl0, ha⟩ := assign_isSome d ms hms data []
    have ha' : assign d data ms = some cl0 := ha
    simp only [calcLoop, ha']
    split
    · exact ⟨cl0, rfl⟩
    · apply ih
      have A := assign_assigned d data ms cl0 ha'
      have hcl : cl0 ≠ [] := by
        intro e
        subst e
        cases data with
        | nil => exact hdata rfl
        | cons p r =>
          have := A.count p
          simp [ptsOf] at this
      intro e
      have := (hord it (updateMedoids d cl0))
      rw [e] at this
      exact updateMedoids_ne_nil A hcl this.symm.eq_nil

/-! ### the property theorems for `create_kmedoids` -/

section top
variable (d : Nat → Nat → Int) (data : List Nat) (ord : Nat → List Nat → List Nat)
  (hord : ∀ i l, (ord i l).Perm l) (ms : List Nat) (hms : ∀ m ∈ ms, m ∈ data) (cl : Clusters)
  (h : createKMedoids d data (some ms) ord = some cl)

include hord hms h

theorem createKMedoids_assign : ∃ ms', (∀ m ∈ ms', m ∈ data) ∧ ms'.length ≤ ms.length ∧ Assigned d data ms' cl := by
  unfold createKMedoids at h
  by_cases he : data.isEmpty = true
  · simp only [he, if_true, Option.some.injEq] at h
    subst h
    have : data = [] := by simpa using he
    subst this
    exact ⟨[], by simp, by simp, ⟨by simp [ptsOf], by simp [keysOf], by simp, by simp⟩⟩
  · have he' : data.isEmpty = false := by simpa using he
    simp only [he', Bool.false_eq_true, if_false] at h
    obtain ⟨ms', h1, h2, h3⟩ := calcLoop_result d data ord hord 200 ms cl hms h
    exact ⟨ms', h1, h2, assign_assigned d data ms' cl h3⟩

/-- **C17 (k-medoids)** `result_is_partition`: the clusters are a partition of all points (every point occurs
    in the clusters exactly as often as in the input), with pairwise different keys and no empty cluster. -/
theorem result_is_partition :
    (∀ x, (cl.flatMap (·.2)).count x = data.count x) ∧ (cl.map (·.1)).Nodup ∧ ∀ kv ∈ cl, kv.2 ≠ [] := by
  obtain ⟨ms', _, _, A⟩ := createKMedoids_assign d data ord hord ms hms cl h
  exact ⟨A.count, A.keysNodup, A.nonempty⟩

/-- **C17 (k-medoids)** `nearest_own_medoid`: no point is closer to another cluster's medoid than to its own. -/
theorem nearest_own_medoid : ∀ kv ∈ cl, ∀ p ∈ kv.2, ∀ kv' ∈ cl, d p kv.1 ≤ d p kv'.1 := by
  obtain ⟨ms', _, _, A⟩ := createKMedoids_assign d data ord hord ms hms cl h
  exact A.nearest_own

/-- **C17 (k-medoids)** `keys_are_medoids`: the returned map is the assignment of all points to a list of
    final medoids, which are data points; every key is one of them and is the first nearest medoid of each
    point of its cluster. -/
theorem keys_are_medoids : ∃ ms', (∀ m ∈ ms', m ∈ data) ∧ (∀ kv ∈ cl, kv.1 ∈ ms') ∧
    ∀ kv ∈ cl, ∀ p ∈ kv.2, nearest d p ms' = some kv.1 := by
  obtain ⟨ms', h1, _, A⟩ := createKMedoids_assign d data ord hord ms hms cl h
  exact ⟨ms', h1, A.key_mem, A.near⟩

/-- there are never more clusters than start medoids (`k`) -/
theorem at_most_k_clusters : cl.length ≤ ms.length := by
  obtain ⟨ms', _, h2, A⟩ := createKMedoids_assign d data ord hord ms hms cl h
  have := A.length_le
  omega

/-- with a proper distance table (`d x x = 0 < d x y`) every medoid lies in its own cluster -/
theorem key_in_own_cluster (hrefl : ∀ x ∈ data, d x x = 0) (hpos : ∀ x ∈ data, ∀ y ∈ data, x ≠ y → 0 < d x y) :
    ∀ kv ∈ cl, kv.1 ∈ kv.2 := by
  obtain ⟨ms', h1, _, A⟩ := createKMedoids_assign d data ord hord ms hms cl h
  intro kv hkv
  have hk : kv.1 ∈ ms' := A.key_mem kv hkv
  have hkd : kv.1 ∈ data := h1 _ hk
  have : kv.1 ∈ ptsOf cl := by
    rw [← List.count_pos_iff, A.count]; exact List.count_pos_iff.mpr hkd
  unfold ptsOf at this
  rw [List.mem_flatMap] at this
  obtain ⟨kv', hkv', hin⟩ := this
  have hn := nearest_spec d kv.1 ms' kv'.1 (A.near kv' hkv' kv.1 hin)
  have hle := hn.2 kv.1 hk
  rw [hrefl kv.1 hkd] at hle
  have heq : kv.1 = kv'.1 := by
    by_cases e : kv.1 = kv'.1
    · exact e
    · have := hpos kv.1 hkd kv'.1 (h1 _ hn.1) e
      omega
  have : kv = kv' := List.inj_on_of_nodup_map A.keysNodup hkv hkv' heq
  rw [← this] at hin; exact hin

/-- the model's result passes the executable specification the driver evaluates on the implementation's maps -/
theorem kmedoids_meets_spec :
    specPartition data cl = true ∧ specNearest d cl = true ∧ specKeysInData data cl = true := by
  obtain ⟨ms', h1, _, A⟩ := createKMedoids_assign d data ord hord ms hms cl h
  have hperm : (cl.flatMap (·.2)).Perm data := List.perm_iff_count.mpr A.count
  refine ⟨?_, ?_, ?_⟩
  · unfold specPartition
    simp only [Bool.and_eq_true, beq_iff_eq, List.all_eq_true, List.contains_iff_mem, nodupB_iff,
      Bool.not_eq_true', List.isEmpty_eq_false_iff]
    exact ⟨⟨⟨⟨hperm.length_eq, fun x _ => A.count x⟩, fun x hx => hperm.mem_iff.mp hx⟩, A.keysNodup⟩, A.nonempty⟩
  · unfold specNearest
    simp only [List.all_eq_true, decide_eq_true_eq]
    exact A.nearest_own
  · unfold specKeysInData
    simp only [List.all_eq_true, List.contains_iff_mem]
    exact fun kv hkv => h1 _ (A.key_mem kv hkv)

end top

/-- the hypotheses of the theorems above are met by the example below (`reverse` is a permutation, the start
    medoids are data points) -/
example : (∀ (i : Nat) (l : List Nat), ((fun (_ : Nat) (l : List Nat) => l.reverse) i l).Perm l) ∧
    (∀ m ∈ [2, 3], m ∈ [0, 1, 2, 3, 4, 5]) := ⟨fun _ l => List.reverse_perm l, by decide⟩

/-- the executable partition check is sound: it implies the counting form of "partition" -/
theorem specPartition_sound (data : List Nat) (cl : Clusters) (h : specPartition data cl = true) :
    (∀ x, (cl.flatMap (·.2)).count x = data.count x) ∧ (cl.map (·.1)).Nodup ∧ ∀ kv ∈ cl, kv.2 ≠ [] := by
  unfold specPartition at h
  simp only [Bool.and_eq_true, beq_iff_eq, List.all_eq_true, List.contains_iff_mem, nodupB_iff,
    Bool.not_eq_true', List.isEmpty_eq_false_iff] at h
  obtain ⟨⟨⟨⟨_, h2⟩, h3⟩, h4⟩, h5⟩ := h
  refine ⟨?_, h4, h5⟩
  intro x
  by_cases hx : x ∈ data
  · exact h2 x hx
  · have : x ∉ cl.flatMap (·.2) := fun hm => hx (h3 x hm)
    rw [List.count_eq_zero.mpr hx, List.count_eq_zero.mpr this]

/-! ### non-vacuity -/

def exD (a b : Nat) : Int := ((([0, 1, 2, 10, 11, 12] : List Int).getD a 0) - (([0, 1, 2, 10, 11, 12] : List Int).getD b 0)).natAbs

/-- two groups on a line, start medoids 2 and 3, hash order reversing the medoids every round -/
example : createKMedoids exD [0, 1, 2, 3, 4, 5] (some [2, 3]) (fun _ l => l.reverse) =
    some [(1, [0, 1, 2]), (4, [3, 4, 5])] := by decide

end C17.KMed

/-! ## `create_hierarchical_kmedoids`: the per-split contract -/

namespace C17.KMed

/-- contract of `create_kmedoids(&data, 2, d)` used for one split (what `result_is_partition`,
    `nearest_own_medoid`, `key_in_own_cluster` give for pairwise different points and a proper distance table) -/
structure SplitOk (d : Nat → Nat → Int) (split : List Nat → Clusters) : Prop where
  ok : ∀ data : List Nat, data.Nodup → 2 ≤ data.length →
    (∀ x, (ptsOf (split data)).count x = data.count x) ∧
    (∀ kv ∈ split data, kv.1 ∈ kv.2) ∧
    (∀ kv ∈ split data, ∀ p ∈ kv.2, ∀ kv' ∈ split data, d p kv.1 ≤ d p kv'.1) ∧
    (split data).length ≤ 2

/-- INDEPENDENT SPEC of one split: `part` partitions `parent`, every medoid lies in its own cluster, and no
    point of the parent is closer to a SIBLING's medoid than to its own -/
def ChildOk (d : Nat → Nat → Int) (parent : List Nat) (part : Clusters) : Prop :=
  (∀ x, (ptsOf part).count x = parent.count x) ∧ (∀ kv ∈ part, kv.1 ∈ kv.2) ∧
    (∀ kv ∈ part, ∀ p ∈ kv.2, ∀ kv' ∈ part, d p kv.1 ≤ d p kv'.1) ∧ part.length ≤ 2

/-- the clusters one entry of `current_clusters` contributes to the tier -/
def childrenOf (split : List Nat → Clusters) (e : Option Nat × List Nat) : Clusters :=
  if e.2.length < 2 then
    match keyOf e.1 e.2 with
    | none => []
    | some key => [(key, e.2)]
  else split e.2

/-- the entries it contributes to `next_tier_clusters` -/
def nextOf (split : List Nat → Clusters) (e : Option Nat × List Nat) : List (Option Nat × List Nat) :=
  if e.2.length < 2 then
    match keyOf e.1 e.2 with
    | none => []
    | some _ => [e]
  else (split e.2).map (fun kv => (some kv.1, kv.2))

theorem cmInsert_fresh (cl : Clusters) (k : Nat) (v : List Nat) (h : k ∉ keysOf cl) :
    cmInsert cl k v = cl ++ [(k, v)] := by
  unfold cmInsert
  have : cl.any (fun kv => kv.1 == k) = false := by
    rw [← Bool.not_eq_true]; exact fun h' => h ((any_key_iff k cl).mp h')
  simp [this]

theorem cmExtend_fresh : ∀ (new cl : Clusters), (keysOf cl ++ keysOf new).Nodup → cmExtend cl new = cl ++ new := by
  intro new
  induction new with
  | nil => intro cl _; simp [cmExtend]
  | cons kv rest ih =>
    intro cl h
    have hk : kv.1 ∉ keysOf cl := by
      intro hm
      rw [List.nodup_append] at h
      exact h.2.2 kv.1 hm kv.1 (by simp [keysOf]) rfl
    unfold cmExtend
    simp only [List.foldl_cons]
    rw [cmInsert_fresh cl kv.1 kv.2 hk]
    have := ih (cl ++ [(kv.1, kv.2)]) (by
      simp only [keysOf, List.map_append, List.map_cons, List.map_nil, List.append_assoc, List.singleton_append] at h ⊢
      exact h)
    unfold cmExtend at this
    rw [this]
    simp

theorem keysOf_append (a b : Clusters) : keysOf (a ++ b) = keysOf a ++ keysOf b := by simp [keysOf]

/-- when no key is produced twice, one pass of the scan closure simply concatenates the contributions of the
    entries (the `HashMap` inserts never overwrite) -/
theorem hierStep_eq (split : List Nat → Clusters) : ∀ (cur : List (Option Nat × List Nat)) (tier : Clusters)
    (next : List (Option Nat × List Nat)), (keysOf tier ++ keysOf (cur.flatMap (childrenOf split))).Nodup →
    hierStep split cur (tier, next) = (tier ++ cur.flatMap (childrenOf split), next ++ cur.flatMap (nextOf split)) := by
  intro cur
  induction cur with
  | nil => intro tier next _; simp [hierStep]
  | cons e rest ih =>
    intro tier next h
    obtain ⟨medoid, data⟩ := e
    simp only [List.flatMap_cons, keysOf_append] at h
    by_cases hs : data.length < 2
    · cases hk : keyOf medoid data with
      | none =>
        have hc : childrenOf split (medoid, data) = [] := by simp [childrenOf, hs, hk]
        have hn : nextOf split (medoid, data) = [] := by simp [nextOf, hs, hk]
        simp only [hierStep, hs, if_true, hk, List.flatMap_cons, hc, hn, List.nil_append]
        apply ih
        rw [hc] at h; simpa [keysOf] using h
      | some key =>
        have hc : childrenOf split (medoid, data) = [(key, data)] := by simp [childrenOf, hs, hk]
        have hn : nextOf split (medoid, data) = [(medoid, data)] := by simp [nextOf, hs, hk]
        simp only [hierStep, hs, if_true, hk, List.flatMap_cons, hc, hn]
        rw [hc] at h
        have hfresh : key ∉ keysOf tier := by
          intro hm
          rw [List.nodup_append] at h
          exact h.2.2 key hm key (by simp [keysOf]) rfl
        rw [cmInsert_fresh tier key data hfresh, ih]
        · simp
        · rw [keysOf_append]; simpa [keysOf, List.append_assoc] using h
    · have hc : childrenOf split (medoid, data) = split data := by simp [childrenOf, hs]
      have hn : nextOf split (medoid, data) = (split data).map (fun kv => (some kv.1, kv.2)) := by simp [nextOf, hs]
      simp only [hierStep, hs, if_false, List.flatMap_cons, hc, hn]
      rw [hc] at h
      have hfresh : (keysOf tier ++ keysOf (split data)).Nodup := by
        rw [← List.append_assoc] at h
        exact (List.nodup_append.mp h).1
      rw [cmExtend_fresh (split data) tier hfresh, ih]
      · simp
      · rw [keysOf_append]; simpa [List.append_assoc] using h

/-- state of the scan: the entries partition the points; no entry is empty; a remembered medoid lies in its data -/
structure CurOk (points : List Nat) (cur : List (Option Nat × List Nat)) : Prop where
  count : ∀ x, (cur.flatMap (·.2)).count x = points.count x
  entry : ∀ e ∈ cur, e.2 ≠ [] ∧ ∀ m, e.1 = some m → m ∈ e.2

theorem keyOf_mem (medoid : Option Nat) (data : List Nat) (hne : data ≠ []) (hm : ∀ m, medoid = some m → m ∈ data) :
    ∃ key, keyOf medoid data = some key ∧ key ∈ data := by
  cases medoid with
  | some m => exact ⟨m, rfl, hm m rfl⟩
  | none =>
    cases data with
    | nil => exact absurd rfl hne
    | cons a r => exact ⟨a, rfl, by simp⟩

/-- what one entry contributes is a valid split of its data -/
theorem childrenOf_ok (d : Nat → Nat → Int) (split : List Nat → Clusters) (S : SplitOk d split)
    (e : Option Nat × List Nat) (hnd : e.2.Nodup) (hne : e.2 ≠ []) (hm : ∀ m, e.1 = some m → m ∈ e.2) :
    ChildOk d e.2 (childrenOf split e) := by
  unfold childrenOf
  by_cases hs : e.2.length < 2
  · obtain ⟨key, hk, hkm⟩ := keyOf_mem e.1 e.2 hne hm
    simp only [hs, if_true, hk]
    refine ⟨by simp [ptsOf], ?_, ?_, by simp⟩
    · intro kv hkv; simp at hkv; subst hkv; exact hkm
    · intro kv hkv p _ kv' hkv'
      simp at hkv hkv'; subst hkv; subst hkv'; exact Int.le_refl _
  · simp only [hs, if_false]
    exact S.ok e.2 hnd (by omega)

theorem nodup_of_count_eq {l points : List Nat} (hp : points.Nodup) (h : ∀ x, l.count x = points.count x) : l.Nodup :=
  (List.perm_iff_count.mpr h).nodup_iff.mpr hp

theorem entry_nodup {points : List Nat} {cur : List (Option Nat × List Nat)} (hp : points.Nodup) (C : CurOk points cur) :
    ∀ e ∈ cur, e.2.Nodup := by
  have hnd : (cur.flatMap (·.2)).Nodup := nodup_of_count_eq hp C.count
  intro e he
  obtain ⟨l1, l2, rfl⟩ := List.append_of_mem he
  simp only [List.flatMap_append, List.flatMap_cons] at hnd
  exact (List.nodup_append.mp (List.nodup_append.mp hnd).2.1).1

/-- keys of clusters that contain their own key and are pairwise disjoint are pairwise different -/
theorem keys_nodup_of_pts_nodup : ∀ cl : Clusters, (ptsOf cl).Nodup → (∀ kv ∈ cl, kv.1 ∈ kv.2) → (keysOf cl).Nodup := by
  intro cl
  induction cl with
  | nil => intro _ _; simp [keysOf]
  | cons kv rest ih =>
    intro hnd hk
    simp only [ptsOf, List.flatMap_cons] at hnd
    obtain ⟨h1, h2, h3⟩ := List.nodup_append.mp hnd
    simp only [keysOf, List.map_cons, List.nodup_cons]
    refine ⟨?_, ih h2 (fun kv' h' => hk kv' (List.mem_cons_of_mem _ h'))⟩
    intro hm
    rw [List.mem_map] at hm
    obtain ⟨kv', hkv', heq⟩ := hm
    have h4 : kv'.1 ∈ kv'.2 := hk kv' (List.mem_cons_of_mem _ hkv')
    have h5 : kv'.1 ∈ List.flatMap (·.2) rest := List.mem_flatMap.mpr ⟨kv', hkv', h4⟩
    exact h3 kv.1 (hk kv (by simp)) kv'.1 h5 heq.symm

theorem count_children (d : Nat → Nat → Int) (split : List Nat → Clusters) :
    ∀ cur : List (Option Nat × List Nat), (∀ e ∈ cur, ChildOk d e.2 (childrenOf split e)) →
    ∀ x, (ptsOf (cur.flatMap (childrenOf split))).count x = (cur.flatMap (·.2)).count x := by
  intro cur
  induction cur with
  | nil => intro _ x; simp [ptsOf]
  | cons e rest ih =>
    intro h x
    have h1 := (h e (by simp)).1 x
    have h2 := ih (fun e' he' => h e' (List.mem_cons_of_mem _ he')) x
    simp only [ptsOf, List.flatMap_cons, List.flatMap_append, List.count_append] at h1 h2 ⊢
    omega

theorem forall₂_children (d : Nat → Nat → Int) (split : List Nat → Clusters) :
    ∀ cur : List (Option Nat × List Nat), (∀ e ∈ cur, ChildOk d e.2 (childrenOf split e)) →
    List.Forall₂ (ChildOk d) (cur.map (·.2)) (cur.map (childrenOf split)) := by
  intro cur
  induction cur with
  | nil => intro _; exact List.Forall₂.nil
  | cons e rest ih =>
    intro h
    exact List.Forall₂.cons (h e (by simp)) (ih (fun e' he' => h e' (List.mem_cons_of_mem _ he')))

/-- INDEPENDENT SPEC of a hierarchy: every tier is a partition of all points with pairwise different medoids and
    decomposes into one valid split (`ChildOk`) per cluster of the previous tier (`parents`), in order -/
def TiersOk (d : Nat → Nat → Int) (points : List Nat) : List (List Nat) → List Clusters → Prop
  | _, [] => True
  | parents, tier :: rest =>
    (∃ parts : List Clusters, tier = parts.flatten ∧ List.Forall₂ (ChildOk d) parents parts) ∧
    (∀ x, (ptsOf tier).count x = points.count x) ∧ (keysOf tier).Nodup ∧
    TiersOk d points (tier.map (·.2)) rest

theorem map_snd_children (split : List Nat → Clusters) : ∀ cur : List (Option Nat × List Nat),
    (cur.flatMap (childrenOf split)).map (·.2) = (cur.flatMap (nextOf split)).map (·.2) := by
  intro cur
  induction cur with
  | nil => rfl
  | cons e rest ih =>
    simp only [List.flatMap_cons, List.map_append, ih]
    congr 1
    unfold childrenOf nextOf
    split
    · split <;> simp
    · simp [List.map_map, Function.comp]

theorem curOk_next (d : Nat → Nat → Int) (split : List Nat → Clusters) (points : List Nat)
    (cur : List (Option Nat × List Nat)) (C : CurOk points cur)
    (hch : ∀ e ∈ cur, ChildOk d e.2 (childrenOf split e)) : CurOk points (cur.flatMap (nextOf split)) := by
  constructor
  · intro x
    have h1 := count_children d split cur hch x
    have h2 : ((cur.flatMap (nextOf split)).flatMap (·.2)) = ptsOf (cur.flatMap (childrenOf split)) := by
      unfold ptsOf
      rw [List.flatMap_def (l := cur.flatMap (nextOf split)), List.flatMap_def (l := cur.flatMap (childrenOf split)),
        map_snd_children]
    rw [h2, h1, C.count]
  · intro e' he'
    rw [List.mem_flatMap] at he'
    obtain ⟨e, he, hin⟩ := he'
    unfold nextOf at hin
    split at hin
    · split at hin
      · simp at hin
      · simp only [List.mem_singleton] at hin; rw [hin]; exact C.entry e he
    · rename_i hs
      rw [List.mem_map] at hin
      obtain ⟨kv, hkv, rfl⟩ := hin
      have hc := hch e he
      unfold childrenOf at hc
      simp only [hs, if_false] at hc
      have := hc.2.1 kv hkv
      exact ⟨fun hnil => by simp only at hnil; rw [hnil] at this; simp at this,
        fun m hm => by simp only [Option.some.injEq] at hm; subst hm; exact this⟩

/-- **C17 (hierarchical k-medoids)**: every tier returned by the scan is a partition of all points and
    decomposes into valid splits of the previous tier's clusters -/
theorem hier_contract (d : Nat → Nat → Int) (splits : Nat → List Nat → Clusters) (S : ∀ i, SplitOk d (splits i))
    (points : List Nat) (hp : points.Nodup) : ∀ (t i : Nat) (cur : List (Option Nat × List Nat)), CurOk points cur →
    TiersOk d points (cur.map (·.2)) (hier splits t i cur) := by
  intro t
  induction t with
  | zero => intro i cur _; simp [hier, TiersOk]
  | succ t ih =>
    intro i cur C
    generalize hsp : splits i = split
    have hnd := entry_nodup hp C
    have hch : ∀ e ∈ cur, ChildOk d e.2 (childrenOf split e) :=
      fun e he => childrenOf_ok d split (hsp ▸ S i) e (hnd e he) (C.entry e he).1 (C.entry e he).2
    have hcount : ∀ x, (ptsOf (cur.flatMap (childrenOf split))).count x = points.count x :=
      fun x => by rw [count_children d split cur hch x, C.count]
    have hkeys : (keysOf (cur.flatMap (childrenOf split))).Nodup := by
      apply keys_nodup_of_pts_nodup _ (nodup_of_count_eq hp hcount)
      intro kv hkv
      rw [List.mem_flatMap] at hkv
      obtain ⟨e, he, hin⟩ := hkv
      exact (hch e he).2.1 kv hin
    have hstep := hierStep_eq split cur [] [] (by simpa [keysOf] using hkeys)
    simp only [List.nil_append] at hstep
    simp only [hier, hsp, hstep]
    split
    · simp [TiersOk]
    · split
      · refine ⟨⟨cur.map (childrenOf split), List.flatMap_def, forall₂_children d split cur hch⟩, hcount, hkeys, ?_⟩
        rw [map_snd_children]
        exact ih (i + 1) _ (curOk_next d split points cur C hch)
      · simp [TiersOk]

/-- the observed entry point -/
theorem createHier_contract (d : Nat → Nat → Int) (splits : Nat → List Nat → Clusters) (S : ∀ i, SplitOk d (splits i))
    (points : List Nat) (hp : points.Nodup) (maxTiers : Nat) :
    TiersOk d points [points] (createHier splits points maxTiers) := by
  unfold createHier
  by_cases he : points.isEmpty = true
  · simp [he, TiersOk]
  · have he' : points.isEmpty = false := by simpa using he
    simp only [he', Bool.false_eq_true, if_false]
    have hne : points ≠ [] := by simpa using he
    exact hier_contract d splits S points hp maxTiers 0 [(none, points)]
      ⟨by simp, by intro e he; simp at he; subst he; exact ⟨hne, by simp⟩⟩

/-- consequence: every cluster of a tier lies inside one cluster of the previous tier -/
theorem childOk_refines (d : Nat → Nat → Int) : ∀ (parents : List (List Nat)) (parts : List Clusters),
    List.Forall₂ (ChildOk d) parents parts → ∀ kv ∈ parts.flatten, ∃ par ∈ parents, ∀ x ∈ kv.2, x ∈ par := by
  intro parents parts h
  induction h with
  | nil => intro kv hkv; simp at hkv
  | @cons par part ps pts hab htail ih =>
    intro kv hkv
    simp only [List.flatten_cons, List.mem_append] at hkv
    rcases hkv with hkv | hkv
    · refine ⟨par, by simp, ?_⟩
      intro x hx
      have : x ∈ ptsOf part := List.mem_flatMap.mpr ⟨kv, hkv, hx⟩
      rw [← List.count_pos_iff, hab.1 x] at this
      exact List.count_pos_iff.mp this
    · obtain ⟨p', hp', hin⟩ := ih kv hkv
      exact ⟨p', List.mem_cons_of_mem _ hp', hin⟩

end C17.KMed

namespace C17.KMed

/-- the split contract is what the flat theorems give for `create_kmedoids` on a proper distance table,
    whatever start medoids (taken from the data) and hash-map orders occur -/
theorem splitOk_of_createKMedoids (d : Nat → Nat → Int) (hrefl : ∀ x, d x x = 0) (hpos : ∀ x y, x ≠ y → 0 < d x y)
    (split : List Nat → Clusters) (init : List Nat → List Nat) (ord : Nat → List Nat → List Nat)
    (hord : ∀ i l, (ord i l).Perm l) (hinit : ∀ data, ∀ m ∈ init data, m ∈ data)
    (hinit2 : ∀ data, (init data).length ≤ 2)
    (hsplit : ∀ data, createKMedoids d data (some (init data)) ord = some (split data)) : SplitOk d split := by
  constructor
  intro data _ _
  have h := hsplit data
  refine ⟨(result_is_partition d data ord hord (init data) (hinit data) (split data) h).1, ?_, ?_, ?_⟩
  · exact key_in_own_cluster d data ord hord (init data) (hinit data) (split data) h (fun x _ => hrefl x)
      (fun x _ y _ hxy => hpos x y hxy)
  · exact nearest_own_medoid d data ord hord (init data) (hinit data) (split data) h
  · have := at_most_k_clusters d data ord hord (init data) (hinit data) (split data) h
    have := hinit2 data
    omega

/-- non-vacuity: eleven points on a line at 0..3 | 10..13 | 30..32, splits by the model of `create_kmedoids`
    started from the first two points of the data: two tiers, a third would have no cluster above two points -/
def pos11 : List Int := [0, 1, 2, 3, 10, 11, 12, 13, 30, 31, 32]
def exD11 (a b : Nat) : Int := ((pos11.getD a 0) - (pos11.getD b 0)).natAbs
def exSplit (data : List Nat) : Clusters := (createKMedoids exD11 data (some (data.take 2)) (fun _ l => l)).getD []

example : createHier (fun _ => exSplit) (List.range 11) 4 =
    [[(1, [0, 1, 2, 3]), (7, [4, 5, 6, 7, 8, 9, 10])],
     [(0, [0, 1]), (2, [2, 3]), (5, [4, 5, 6, 7]), (9, [8, 9, 10])]] := by decide

example : specHier exD11 (List.range 11) [List.range 11] (createHier (fun _ => exSplit) (List.range 11) 4) = true := by
  decide

end C17.KMed

/-! ### the model's hierarchy passes the executable per-split check `specHier` -/

namespace C17.KMed

theorem specPartition_of (data : List Nat) (cl : Clusters) (hc : ∀ x, (ptsOf cl).count x = data.count x)
    (hk : (keysOf cl).Nodup) (hne : ∀ kv ∈ cl, kv.2 ≠ []) : specPartition data cl = true := by
  have hperm : (cl.flatMap (·.2)).Perm data := List.perm_iff_count.mpr hc
  unfold specPartition
  simp only [Bool.and_eq_true, beq_iff_eq, List.all_eq_true, List.contains_iff_mem, nodupB_iff,
    Bool.not_eq_true', List.isEmpty_eq_false_iff]
  exact ⟨⟨⟨⟨hperm.length_eq, fun x _ => hc x⟩, fun x hx => hperm.mem_iff.mp hx⟩, hk⟩, hne⟩

theorem ChildOk.pts_sub {d : Nat → Nat → Int} {par : List Nat} {part : Clusters} (h : ChildOk d par part) :
    ∀ kv ∈ part, ∀ x ∈ kv.2, x ∈ par := by
  intro kv hkv x hx
  have : x ∈ ptsOf part := List.mem_flatMap.mpr ⟨kv, hkv, hx⟩
  rw [← List.count_pos_iff, h.1 x] at this
  exact List.count_pos_iff.mp this

theorem inside_iff (child parent : List Nat) : inside child parent = true ↔ ∀ x ∈ child, x ∈ parent := by
  simp [inside, List.all_eq_true]

/-- what the executable check demands of the sibling clusters of one parent -/
def GoodSibs (d : Nat → Nat → Int) (par : List Nat) (sibs : Clusters) : Prop :=
  specNearest d sibs = true ∧ sibs.length ≤ 2 ∧ specPartition par sibs = true

theorem goodSibs_of_childOk (d : Nat → Nat → Int) (par : List Nat) (part : Clusters) (hp : par.Nodup)
    (h : ChildOk d par part) : GoodSibs d par part := by
  refine ⟨?_, h.2.2.2, ?_⟩
  · unfold specNearest
    simp only [List.all_eq_true, decide_eq_true_eq]
    exact h.2.2.1
  · apply specPartition_of par part h.1
    · exact keys_nodup_of_pts_nodup part (nodup_of_count_eq hp h.1) h.2.1
    · intro kv hkv hnil
      have := h.2.1 kv hkv
      rw [hnil] at this; simp at this

theorem filter_eq_nil_of {α : Type} (p : α → Bool) (l : List α) (h : ∀ x ∈ l, p x = false) : l.filter p = [] := by
  rw [List.filter_eq_nil_iff]
  intro x hx; rw [h x hx]; simp

theorem filter_eq_self_of {α : Type} (p : α → Bool) (l : List α) (h : ∀ x ∈ l, p x = true) : l.filter p = l := by
  rw [List.filter_eq_self]; exact h

theorem forall₂_key_mem (d : Nat → Nat → Int) : ∀ (parents : List (List Nat)) (parts : List Clusters),
    List.Forall₂ (ChildOk d) parents parts → ∀ kv ∈ parts.flatten, kv.1 ∈ kv.2 := by
  intro parents parts h
  induction h with
  | nil => intro kv hkv; simp at hkv
  | @cons P Q Ps Qs hPQ _ ih =>
    intro kv hkv
    simp only [List.flatten_cons, List.mem_append] at hkv
    rcases hkv with hkv | hkv
    · exact hPQ.2.1 kv hkv
    · exact ih kv hkv

/-- in a tier made of one valid split per parent (parents pairwise disjoint), the clusters lying inside a parent
    are exactly that parent's split — so the executable check finds the right siblings -/
theorem sibs_of_forall₂ (d : Nat → Nat → Int) : ∀ (parents : List (List Nat)) (parts : List Clusters),
    List.Forall₂ (ChildOk d) parents parts → parents.flatten.Nodup →
    ∀ par ∈ parents, GoodSibs d par (parts.flatten.filter (fun kv => inside kv.2 par)) := by
  intro parents parts h
  induction h with
  | nil => intro _ par hpar; simp at hpar
  | @cons P Q Ps Qs hPQ htail ih =>
    intro hnd par hpar
    simp only [List.flatten_cons] at hnd ⊢
    obtain ⟨hP, hPs, hdisj⟩ := List.nodup_append.mp hnd
    rw [List.filter_append]
    -- clusters of the tail parts are non-empty and lie in a tail parent
    have htailpts : ∀ kv ∈ Qs.flatten, ∃ x ∈ kv.2, x ∈ Ps.flatten := by
      intro kv hkv
      obtain ⟨par', hpar', hin⟩ := childOk_refines d Ps Qs htail kv hkv
      have hkey : kv.1 ∈ kv.2 := forall₂_key_mem d Ps Qs htail kv hkv
      exact ⟨kv.1, hkey, List.mem_flatten.mpr ⟨par', hpar', hin kv.1 hkey⟩⟩
    rcases List.mem_cons.mp hpar with hpar | hpar
    · subst hpar
      have h1 : Q.filter (fun kv => inside kv.2 par) = Q :=
        filter_eq_self_of _ Q (fun kv hkv => (inside_iff _ _).mpr (hPQ.pts_sub kv hkv))
      have h2 : Qs.flatten.filter (fun kv => inside kv.2 par) = [] := by
        apply filter_eq_nil_of
        intro kv hkv
        obtain ⟨x, hx, hxP⟩ := htailpts kv hkv
        rw [← Bool.not_eq_true, inside_iff]
        intro hall
        exact hdisj x (hall x hx) x hxP rfl
      rw [h1, h2, List.append_nil]
      exact goodSibs_of_childOk d par Q hP hPQ
    · have h1 : Q.filter (fun kv => inside kv.2 par) = [] := by
        apply filter_eq_nil_of
        intro kv hkv
        have hkey := hPQ.2.1 kv hkv
        rw [← Bool.not_eq_true, inside_iff]
        intro hall
        exact hdisj kv.1 (hPQ.pts_sub kv hkv kv.1 hkey) kv.1 (List.mem_flatten.mpr ⟨par, hpar, hall kv.1 hkey⟩) rfl
      rw [h1, List.nil_append]
      exact ih hPs par hpar

end C17.KMed

namespace C17.KMed

theorem flatten_map_snd (tier : Clusters) : (tier.map (·.2)).flatten = ptsOf tier := by
  unfold ptsOf; rw [List.flatMap_def]

/-- the independent (decomposition) form of the contract implies the executable check the driver runs on the
    implementation's tiers -/
theorem tiersOk_specHier (d : Nat → Nat → Int) (points : List Nat) (hp : points.Nodup) :
    ∀ (tiers : List Clusters) (parents : List (List Nat)), (∀ x, parents.flatten.count x = points.count x) →
    TiersOk d points parents tiers → specHier d points parents tiers = true := by
  intro tiers
  induction tiers with
  | nil => intro parents _ _; simp [specHier]
  | cons tier rest ih =>
    intro parents hpar hT
    obtain ⟨⟨parts, htier, hF⟩, hcount, hkeys, hrest⟩ := hT
    have hkeymem : ∀ kv ∈ tier, kv.1 ∈ kv.2 := by rw [htier]; exact forall₂_key_mem d parents parts hF
    have hne : ∀ kv ∈ tier, kv.2 ≠ [] := by
      intro kv hkv hnil
      have := hkeymem kv hkv
      rw [hnil] at this; simp at this
    simp only [specHier, Bool.and_eq_true]
    refine ⟨⟨specPartition_of points tier hcount hkeys hne, ?_⟩, ?_⟩
    · unfold specTier
      simp only [Bool.and_eq_true, List.all_eq_true, List.any_eq_true, decide_eq_true_eq]
      constructor
      · intro kv hkv
        rw [htier] at hkv
        obtain ⟨par, hpar', hin⟩ := childOk_refines d parents parts hF kv hkv
        exact ⟨par, hpar', (inside_iff _ _).mpr hin⟩
      · intro par hpar'
        have := sibs_of_forall₂ d parents parts hF (nodup_of_count_eq hp hpar) par hpar'
        rw [← htier] at this
        exact ⟨⟨this.1, this.2.1⟩, this.2.2⟩
    · apply ih (tier.map (·.2)) _ hrest
      intro x
      rw [flatten_map_snd]; exact hcount x

/-- **C17 (hierarchical k-medoids)**: the model's hierarchy passes exactly the executable per-split check that the
    driver evaluates on the tiers returned by the real `create_hierarchical_kmedoids` -/
theorem createHier_meets_spec (d : Nat → Nat → Int) (splits : Nat → List Nat → Clusters) (S : ∀ i, SplitOk d (splits i))
    (points : List Nat) (hp : points.Nodup) (maxTiers : Nat) :
    specHier d points [points] (createHier splits points maxTiers) = true :=
  tiersOk_specHier d points hp _ [points] (by simp) (createHier_contract d splits S points hp maxTiers)

end C17.KMed
