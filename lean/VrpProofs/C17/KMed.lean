import VrpModel.C17
import VrpProofs.C17.Basic
import Mathlib.Data.List.Perm.Subperm
import Mathlib.Data.List.Nodup
/-!
# C17 / k-medoids — theorems about `assign_points_to_medoids`, `KMedoids::calculate`, `create_hierarchical_kmedoids`

`result_is_partition`, `nearest_own_medoid`, `keys_are_medoids`, `key_in_own_cluster`, `calculate_no_panic`,
`kmedoids_meets_spec`, and the per-split contract of the hierarchy (`hier_*`).
-/
set_option linter.unusedSimpArgs false
set_option linter.unnecessarySimpa false
set_option linter.unusedVariables false

namespace C17.KMed

/-! ### `min_by`: first minimal element of a fold -/

theorem argmin_foldl (f : Nat → Int) : ∀ (l : List Nat) (init : Nat),
    (l.foldl (fun best x => if f x < f best then x else best) init = init ∨
      l.foldl (fun best x => if f x < f best then x else best) init ∈ l) ∧
    f (l.foldl (fun best x => if f x < f best then x else best) init) ≤ f init ∧
    ∀ x ∈ l, f (l.foldl (fun best x => if f x < f best then x else best) init) ≤ f x := by
  intro l
  induction l with
  | nil => intro init; simp
  | cons y ys ih =>
    intro init
    simp only [List.foldl_cons]
    by_cases hlt : f y < f init
    · simp only [hlt, if_true]
      obtain ⟨h1, h2, h3⟩ := ih y
      refine ⟨?_, by omega, ?_⟩
      · rcases h1 with h1 | h1
        · right; rw [h1]; simp
        · right; exact List.mem_cons_of_mem _ h1
      · intro x hx
        rcases List.mem_cons.mp hx with hx | hx
        · subst hx; exact h2
        · exact h3 x hx
    · simp only [hlt, if_false]
      obtain ⟨h1, h2, h3⟩ := ih init
      refine ⟨?_, h2, ?_⟩
      · rcases h1 with h1 | h1
        · left; exact h1
        · right; exact List.mem_cons_of_mem _ h1
      · intro x hx
        rcases List.mem_cons.mp hx with hx | hx
        · subst hx; omega
        · exact h3 x hx

theorem nearest_spec (d : Nat → Nat → Int) (p : Nat) (ms : List Nat) (m : Nat) (h : nearest d p ms = some m) :
    m ∈ ms ∧ ∀ m' ∈ ms, d p m ≤ d p m' := by
  cases ms with
  | nil => simp [nearest] at h
  | cons a r =>
    simp only [nearest, Option.some.injEq] at h
    obtain ⟨h1, h2, h3⟩ := argmin_foldl (fun x => d p x) r a
    rw [h] at h1 h2 h3
    refine ⟨?_, ?_⟩
    · rcases h1 with h1 | h1
      · rw [h1]; simp
      · exact List.mem_cons_of_mem _ h1
    · intro m' hm'
      rcases List.mem_cons.mp hm' with hm' | hm'
      · subst hm'; exact h2
      · exact h3 m' hm'

theorem nearest_isSome (d : Nat → Nat → Int) (p : Nat) (ms : List Nat) (h : ms ≠ []) : ∃ m, nearest d p ms = some m := by
  cases ms with
  | nil => exact absurd rfl h
  | cons a r => exact ⟨_, rfl⟩

theorem medoidOf_mem (d : Nat → Nat → Int) (pts : List Nat) (m : Nat) (h : medoidOf d pts = some m) : m ∈ pts := by
  cases pts with
  | nil => simp [medoidOf] at h
  | cons a r =>
    simp only [medoidOf, Option.some.injEq] at h
    obtain ⟨h1, _, _⟩ := argmin_foldl (fun x => costOf d (a :: r) x) r a
    rw [h] at h1
    rcases h1 with h1 | h1
    · rw [h1]; simp
    · exact List.mem_cons_of_mem _ h1

/-- the chosen medoid minimises the summed distance of the cluster's points to it -/
theorem medoidOf_min (d : Nat → Nat → Int) (pts : List Nat) (m : Nat) (h : medoidOf d pts = some m) :
    ∀ x ∈ pts, costOf d pts m ≤ costOf d pts x := by
  cases pts with
  | nil => simp [medoidOf] at h
  | cons a r =>
    simp only [medoidOf, Option.some.injEq] at h
    obtain ⟨_, h2, h3⟩ := argmin_foldl (fun x => costOf d (a :: r) x) r a
    rw [h] at h2 h3
    intro x hx
    rcases List.mem_cons.mp hx with hx | hx
    · subst hx; exact h2
    · exact h3 x hx

/-! ### `entry(m).or_default().push(p)` -/

def keysOf (cl : Clusters) : List Nat := cl.map (·.1)
def ptsOf (cl : Clusters) : List Nat := cl.flatMap (·.2)

theorem keysOf_map_upd (m p : Nat) (cl : Clusters) :
    keysOf (cl.map (fun kv => if kv.1 == m then (kv.1, kv.2 ++ [p]) else kv)) = keysOf cl := by
  unfold keysOf
  rw [List.map_map]
  apply List.map_congr_left
  intro kv _
  simp only [Function.comp]
  split <;> rfl

theorem map_upd_of_not_mem (m p : Nat) : ∀ cl : Clusters, m ∉ keysOf cl →
    cl.map (fun kv => if kv.1 == m then (kv.1, kv.2 ++ [p]) else kv) = cl := by
  intro cl
  induction cl with
  | nil => intro _; rfl
  | cons kv rest ih =>
    intro h
    simp only [keysOf, List.map_cons, List.mem_cons, not_or] at h
    have h1 : (kv.1 == m) = false := by simpa using fun e => h.1 e.symm
    simp only [List.map_cons, h1, Bool.false_eq_true, if_false]
    rw [ih h.2]

theorem count_map_upd (m p x : Nat) : ∀ cl : Clusters, (keysOf cl).Nodup → m ∈ keysOf cl →
    (ptsOf (cl.map (fun kv => if kv.1 == m then (kv.1, kv.2 ++ [p]) else kv))).count x =
      (ptsOf cl).count x + (if p = x then 1 else 0) := by
  intro cl
  induction cl with
  | nil => intro _ h; simp [keysOf] at h
  | cons kv rest ih =>
    intro hnd hm
    simp only [keysOf, List.map_cons, List.nodup_cons] at hnd
    by_cases e : kv.1 = m
    · have hnot : m ∉ keysOf rest := by rw [← e]; exact hnd.1
      have h1 : (kv.1 == m) = true := by simpa using e
      simp only [List.map_cons, h1, if_true]
      rw [map_upd_of_not_mem m p rest hnot]
      simp only [ptsOf, List.flatMap_cons, List.count_append, List.count_cons, List.count_nil]
      simp only [beq_iff_eq]
      omega
    · have hm' : m ∈ keysOf rest := by
        simp only [keysOf, List.map_cons, List.mem_cons] at hm
        rcases hm with hm | hm
        · exact absurd hm.symm e
        · exact hm
      have h1 : (kv.1 == m) = false := by simpa using e
      simp only [List.map_cons, h1, Bool.false_eq_true, if_false]
      have := ih hnd.2 hm'
      simp only [ptsOf, List.flatMap_cons, List.count_append] at this ⊢
      omega

theorem any_key_iff (m : Nat) (cl : Clusters) : cl.any (fun kv => kv.1 == m) = true ↔ m ∈ keysOf cl := by
  simp only [List.any_eq_true, beq_iff_eq, keysOf, List.mem_map]

theorem keysOf_pushTo (cl : Clusters) (m p : Nat) :
    keysOf (pushTo cl m p) = if m ∈ keysOf cl then keysOf cl else keysOf cl ++ [m] := by
  unfold pushTo
  by_cases h : m ∈ keysOf cl
  · simp only [(any_key_iff m cl).mpr h, if_true, h, keysOf_map_upd]
  · have : cl.any (fun kv => kv.1 == m) = false := by
      rw [← Bool.not_eq_true]; exact fun h' => h ((any_key_iff m cl).mp h')
    simp only [this, Bool.false_eq_true, if_false, h]
    simp [keysOf]

theorem count_pushTo (cl : Clusters) (m p x : Nat) (hnd : (keysOf cl).Nodup) :
    (ptsOf (pushTo cl m p)).count x = (ptsOf cl).count x + (if p = x then 1 else 0) := by
  unfold pushTo
  by_cases h : m ∈ keysOf cl
  · simp only [(any_key_iff m cl).mpr h, if_true]
    exact count_map_upd m p x cl hnd h
  · have : cl.any (fun kv => kv.1 == m) = false := by
      rw [← Bool.not_eq_true]; exact fun h' => h ((any_key_iff m cl).mp h')
    simp only [this, Bool.false_eq_true, if_false]
    simp only [ptsOf, List.flatMap_append, List.flatMap_cons, List.flatMap_nil, List.append_nil, List.count_append,
      List.count_cons, List.count_nil, beq_iff_eq]
    omega

/-- every cluster after the push is an old cluster, or the cluster of `m`: non-empty, and its points are `p`
    or points of the old cluster of `m` -/
theorem mem_pushTo (cl : Clusters) (m p : Nat) (kv : Nat × List Nat) (h : kv ∈ pushTo cl m p) :
    kv ∈ cl ∨ (kv.1 = m ∧ kv.2 ≠ [] ∧ ∀ x ∈ kv.2, x = p ∨ ∃ kv' ∈ cl, kv'.1 = m ∧ x ∈ kv'.2) := by
  unfold pushTo at h
  split at h
  · rw [List.mem_map] at h
    obtain ⟨kv0, h0, rfl⟩ := h
    by_cases e : (kv0.1 == m) = true
    · simp only [e, if_true]
      right
      refine ⟨by simpa using e, by simp, ?_⟩
      intro x hx
      simp only [List.mem_append, List.mem_singleton] at hx
      rcases hx with hx | hx
      · exact Or.inr ⟨kv0, h0, by simpa using e, hx⟩
      · exact Or.inl hx
    · have e' : (kv0.1 == m) = false := by simpa using e
      simp only [e', Bool.false_eq_true, if_false]
      exact Or.inl h0
  · rw [List.mem_append] at h
    rcases h with h | h
    · exact Or.inl h
    · simp only [List.mem_singleton] at h
      subst h
      right
      exact ⟨rfl, by simp, fun x hx => Or.inl (by simpa using hx)⟩

/-! ### `assign_points_to_medoids` -/

/-- invariant of the assignment fold -/
structure AInv (d : Nat → Nat → Int) (medoids : List Nat) (cl : Clusters) : Prop where
  keysNodup : (keysOf cl).Nodup
  nonempty : ∀ kv ∈ cl, kv.2 ≠ []
  near : ∀ kv ∈ cl, ∀ p ∈ kv.2, nearest d p medoids = some kv.1

theorem assignFrom_inv (d : Nat → Nat → Int) (medoids : List Nat) : ∀ (data : List Nat) (cl cl' : Clusters),
    AInv d medoids cl → assignFrom d medoids cl data = some cl' →
    AInv d medoids cl' ∧ ∀ x, (ptsOf cl').count x = (ptsOf cl).count x + data.count x := by
  intro data
  induction data with
  | nil =>
    intro cl cl' I h
    simp only [assignFrom, Option.some.injEq] at h
    subst h
    exact ⟨I, by simp⟩
  | cons p ps ih =>
    intro cl cl' I h
    simp only [assignFrom] at h
    cases hn : nearest d p medoids with
    | none => simp [hn] at h
    | some m =>
      simp only [hn] at h
      have I' : AInv d medoids (pushTo cl m p) := by
        refine ⟨?_, ?_, ?_⟩
        · rw [keysOf_pushTo]
          split
          · exact I.keysNodup
          · rename_i hm
            rw [List.nodup_append]
            refine ⟨I.keysNodup, by simp, ?_⟩
            intro a ha b hb
            simp at hb; subst hb
            intro e; subst e; exact hm ha
        · intro kv hkv
          rcases mem_pushTo cl m p kv hkv with h1 | ⟨_, h2, _⟩
          · exact I.nonempty kv h1
          · exact h2
        · intro kv hkv x hx
          rcases mem_pushTo cl m p kv hkv with h1 | ⟨h1, _, h3⟩
          · exact I.near kv h1 x hx
          · rcases h3 x hx with h4 | ⟨kv', hkv', hk, hxk⟩
            · rw [h4, h1]; exact hn
            · rw [h1, ← hk]; exact I.near kv' hkv' x hxk
      obtain ⟨I2, hc⟩ := ih (pushTo cl m p) cl' I' h
      refine ⟨I2, ?_⟩
      intro x
      rw [hc x, count_pushTo cl m p x I.keysNodup, List.count_cons]
      simp only [beq_iff_eq]
      omega

theorem AInv_nil (d : Nat → Nat → Int) (medoids : List Nat) : AInv d medoids [] :=
  ⟨by simp [keysOf], by simp, by simp⟩

/-- all facts about one assignment -/
structure Assigned (d : Nat → Nat → Int) (data medoids : List Nat) (cl : Clusters) : Prop where
  count : ∀ x, (ptsOf cl).count x = data.count x
  keysNodup : (keysOf cl).Nodup
  nonempty : ∀ kv ∈ cl, kv.2 ≠ []
  near : ∀ kv ∈ cl, ∀ p ∈ kv.2, nearest d p medoids = some kv.1

theorem assign_assigned (d : Nat → Nat → Int) (data medoids : List Nat) (cl : Clusters)
    (h : assign d data medoids = some cl) : Assigned d data medoids cl := by
  unfold assign at h
  obtain ⟨I, hc⟩ := assignFrom_inv d medoids data [] cl (AInv_nil d medoids) h
  exact ⟨fun x => by rw [hc x]; simp [ptsOf], I.keysNodup, I.nonempty, I.near⟩

theorem Assigned.key_mem {d : Nat → Nat → Int} {data medoids : List Nat} {cl : Clusters}
    (A : Assigned d data medoids cl) : ∀ kv ∈ cl, kv.1 ∈ medoids := by
  intro kv hkv
  have hne := A.nonempty kv hkv
  cases hv : kv.2 with
  | nil => exact absurd hv hne
  | cons p r =>
    exact (nearest_spec d p medoids kv.1 (A.near kv hkv p (by rw [hv]; simp))).1

theorem Assigned.pts_mem {d : Nat → Nat → Int} {data medoids : List Nat} {cl : Clusters}
    (A : Assigned d data medoids cl) : ∀ kv ∈ cl, ∀ p ∈ kv.2, p ∈ data := by
  intro kv hkv p hp
  have : p ∈ ptsOf cl := by
    unfold ptsOf; rw [List.mem_flatMap]; exact ⟨kv, hkv, hp⟩
  have h1 : 0 < (ptsOf cl).count p := List.count_pos_iff.mpr this
  rw [A.count p] at h1
  exact List.count_pos_iff.mp h1

theorem Assigned.nearest_own {d : Nat → Nat → Int} {data medoids : List Nat} {cl : Clusters}
    (A : Assigned d data medoids cl) : ∀ kv ∈ cl, ∀ p ∈ kv.2, ∀ kv' ∈ cl, d p kv.1 ≤ d p kv'.1 := by
  intro kv hkv p hp kv' hkv'
  exact (nearest_spec d p medoids kv.1 (A.near kv hkv p hp)).2 kv'.1 (A.key_mem kv' hkv')

theorem assign_isSome (d : Nat → Nat → Int) (medoids : List Nat) (hm : medoids ≠ []) : ∀ (data : List Nat) (cl : Clusters),
    ∃ cl', assignFrom d medoids cl data = some cl' := by
  intro data
  induction data with
  | nil => intro cl; exact ⟨cl, rfl⟩
  | cons p ps ih =>
    intro cl
    obtain ⟨m, hn⟩ := nearest_isSome d p medoids hm
    simp only [assignFrom, hn]
    exact ih _

/-! ### `update_medoids` and the loop of `calculate` -/

theorem updateMedoids_mem {d : Nat → Nat → Int} {data ms : List Nat} {cl : Clusters} (A : Assigned d data ms cl) :
    ∀ m ∈ updateMedoids d cl, m ∈ data := by
  intro m hm
  unfold updateMedoids at hm
  rw [List.mem_filterMap] at hm
  obtain ⟨kv, hkv, hmed⟩ := hm
  exact A.pts_mem kv hkv m (medoidOf_mem d kv.2 m hmed)

theorem updateMedoids_ne_nil {d : Nat → Nat → Int} {data ms : List Nat} {cl : Clusters} (A : Assigned d data ms cl)
    (hcl : cl ≠ []) : updateMedoids d cl ≠ [] := by
  cases cl with
  | nil => exact absurd rfl hcl
  | cons kv rest =>
    have hne := A.nonempty kv (by simp)
    unfold updateMedoids
    cases hv : kv.2 with
    | nil => exact absurd hv hne
    | cons p r =>
      simp only [List.filterMap_cons, hv, medoidOf]
      simp

/-- whatever the loop returns is the assignment of the data to some list of data points (the final medoids) -/
theorem calcLoop_result (d : Nat → Nat → Int) (data : List Nat) (ord : Nat → List Nat → List Nat)
    (hord : ∀ i l, (ord i l).Perm l) : ∀ (it : Nat) (ms : List Nat) (cl : Clusters), (∀ m ∈ ms, m ∈ data) →
    calcLoop d data ord it ms = some cl → ∃ ms', (∀ m ∈ ms', m ∈ data) ∧ assign d data ms' = some cl := by
  intro it
  induction it with
  | zero => intro ms cl hms h; exact ⟨ms, hms, h⟩
  | succ it ih =>
    intro ms cl hms h
    simp only [calcLoop] at h
    cases ha : assign d data ms with
    | none => simp [ha] at h
    | some cl0 =>
      simp only [ha] at h
      split at h
      · simp only [Option.some.injEq] at h; subst h; exact ⟨ms, hms, ha⟩
      · apply ih _ cl _ h
        intro m hm
        exact updateMedoids_mem (assign_assigned d data ms cl0 ha) m ((hord it _).mem_iff.mp hm)

/-- **no panic**: with a non-empty start list of medoids the loop always returns a map
    (`expect("cannot find nearest medoid")` / `expect("cannot find medoid")` are never hit) -/
theorem calculate_no_panic (d : Nat → Nat → Int) (data : List Nat) (ord : Nat → List Nat → List Nat)
    (hord : ∀ i l, (ord i l).Perm l) (hdata : data ≠ []) : ∀ (it : Nat) (ms : List Nat), ms ≠ [] →
    ∃ cl, calcLoop d data ord it ms = some cl := by
  intro it
  induction it with
  | zero =>
    intro ms hms
    exact assign_isSome d ms hms data []
  | succ it ih =>
    intro ms hms
    obtain ⟨cl0, ha⟩ := assign_isSome d ms hms data []
    have ha' : assign d data ms = some cl0 := ha
    simp only [calcLoop, ha']
    split
    · exact ⟨cl0, rfl⟩
    · apply ih
      have A := assign_assigned d data ms cl0 ha'
      have hcl : cl0 ≠ [] := by
        intro e
        subst e
        cases data with
        | nil => exact hdata rfl
        | cons p r =>
          have := A.count p
          simp [ptsOf] at this
      intro e
      have := (hord it (updateMedoids d cl0))
      rw [e] at this
      exact updateMedoids_ne_nil A hcl this.symm.eq_nil

/-! ### the property theorems for `create_kmedoids` -/

section top
variable (d : Nat → Nat → Int) (data : List Nat) (ord : Nat → List Nat → List Nat)
  (hord : ∀ i l, (ord i l).Perm l) (ms : List Nat) (hms : ∀ m ∈ ms, m ∈ data) (cl : Clusters)
  (h : createKMedoids d data (some ms) ord = some cl)

include hord hms h

theorem createKMedoids_assign : ∃ ms', (∀ m ∈ ms', m ∈ data) ∧ Assigned d data ms' cl := by
  unfold createKMedoids at h
  by_cases he : data.isEmpty = true
  · simp only [he, if_true, Option.some.injEq] at h
    subst h
    have : data = [] := by simpa using he
    subst this
    exact ⟨[], by simp, ⟨by simp [ptsOf], by simp [keysOf], by simp, by simp⟩⟩
  · have he' : data.isEmpty = false := by simpa using he
    simp only [he', Bool.false_eq_true, if_false] at h
    obtain ⟨ms', h1, h2⟩ := calcLoop_result d data ord hord 200 ms cl hms h
    exact ⟨ms', h1, assign_assigned d data ms' cl h2⟩

/-- **C17 (k-medoids)** `result_is_partition`: the clusters are a partition of all points (every point occurs
    in the clusters exactly as often as in the input), with pairwise different keys and no empty cluster. -/
theorem result_is_partition :
    (∀ x, (cl.flatMap (·.2)).count x = data.count x) ∧ (cl.map (·.1)).Nodup ∧ ∀ kv ∈ cl, kv.2 ≠ [] := by
  obtain ⟨ms', _, A⟩ := createKMedoids_assign d data ord hord ms hms cl h
  exact ⟨A.count, A.keysNodup, A.nonempty⟩

/-- **C17 (k-medoids)** `nearest_own_medoid`: no point is closer to another cluster's medoid than to its own. -/
theorem nearest_own_medoid : ∀ kv ∈ cl, ∀ p ∈ kv.2, ∀ kv' ∈ cl, d p kv.1 ≤ d p kv'.1 := by
  obtain ⟨ms', _, A⟩ := createKMedoids_assign d data ord hord ms hms cl h
  exact A.nearest_own

/-- **C17 (k-medoids)** `keys_are_medoids`: the returned map is the assignment of all points to a list of
    final medoids, which are data points; every key is one of them and is the first nearest medoid of each
    point of its cluster. -/
theorem keys_are_medoids : ∃ ms', (∀ m ∈ ms', m ∈ data) ∧ (∀ kv ∈ cl, kv.1 ∈ ms') ∧
    ∀ kv ∈ cl, ∀ p ∈ kv.2, nearest d p ms' = some kv.1 := by
  obtain ⟨ms', h1, A⟩ := createKMedoids_assign d data ord hord ms hms cl h
  exact ⟨ms', h1, A.key_mem, A.near⟩

/-- with a proper distance table (`d x x = 0 < d x y`) every medoid lies in its own cluster and every final
    medoid owns a cluster -/
theorem key_in_own_cluster (hrefl : ∀ x ∈ data, d x x = 0) (hpos : ∀ x ∈ data, ∀ y ∈ data, x ≠ y → 0 < d x y) :
    ∀ kv ∈ cl, kv.1 ∈ kv.2 := by
  obtain ⟨ms', h1, A⟩ := createKMedoids_assign d data ord hord ms hms cl h
  intro kv hkv
  have hk : kv.1 ∈ ms' := A.key_mem kv hkv
  have hkd : kv.1 ∈ data := h1 _ hk
  have : kv.1 ∈ ptsOf cl := by
    rw [← List.count_pos_iff, A.count]; exact List.count_pos_iff.mpr hkd
  unfold ptsOf at this
  rw [List.mem_flatMap] at this
  obtain ⟨kv', hkv', hin⟩ := this
  have hn := nearest_spec d kv.1 ms' kv'.1 (A.near kv' hkv' kv.1 hin)
  have hle := hn.2 kv.1 hk
  rw [hrefl kv.1 hkd] at hle
  have heq : kv.1 = kv'.1 := by
    by_cases e : kv.1 = kv'.1
    · exact e
    · have := hpos kv.1 hkd kv'.1 (h1 _ hn.1) e
      omega
  have : kv = kv' := List.inj_on_of_nodup_map A.keysNodup hkv hkv' heq
  rw [← this] at hin; exact hin

/-- the model's result passes the executable specification the driver evaluates on the implementation's maps -/
theorem kmedoids_meets_spec :
    specPartition data cl = true ∧ specNearest d cl = true ∧ specKeysInData data cl = true := by
  obtain ⟨ms', h1, A⟩ := createKMedoids_assign d data ord hord ms hms cl h
  have hperm : (cl.flatMap (·.2)).Perm data := List.perm_iff_count.mpr A.count
  refine ⟨?_, ?_, ?_⟩
  · unfold specPartition
    simp only [Bool.and_eq_true, beq_iff_eq, List.all_eq_true, List.contains_iff_mem, nodupB_iff,
      Bool.not_eq_true', List.isEmpty_eq_false_iff]
    exact ⟨⟨⟨⟨hperm.length_eq, fun x _ => A.count x⟩, fun x hx => hperm.mem_iff.mp hx⟩, A.keysNodup⟩, A.nonempty⟩
  · unfold specNearest
    simp only [List.all_eq_true, decide_eq_true_eq]
    exact A.nearest_own
  · unfold specKeysInData
    simp only [List.all_eq_true, List.contains_iff_mem]
    exact fun kv hkv => h1 _ (A.key_mem kv hkv)

end top

/-- the executable partition check is sound: it implies the counting form of "partition" -/
theorem specPartition_sound (data : List Nat) (cl : Clusters) (h : specPartition data cl = true) :
    (∀ x, (cl.flatMap (·.2)).count x = data.count x) ∧ (cl.map (·.1)).Nodup ∧ ∀ kv ∈ cl, kv.2 ≠ [] := by
  unfold specPartition at h
  simp only [Bool.and_eq_true, beq_iff_eq, List.all_eq_true, List.contains_iff_mem, nodupB_iff,
    Bool.not_eq_true', List.isEmpty_eq_false_iff] at h
  obtain ⟨⟨⟨⟨_, h2⟩, h3⟩, h4⟩, h5⟩ := h
  refine ⟨?_, h4, h5⟩
  intro x
  by_cases hx : x ∈ data
  · exact h2 x hx
  · have : x ∉ cl.flatMap (·.2) := fun hm => hx (h3 x hm)
    rw [List.count_eq_zero.mpr hx, List.count_eq_zero.mpr this]

/-! ### non-vacuity -/

def exD (a b : Nat) : Int := ((([0, 1, 2, 10, 11, 12] : List Int).getD a 0) - (([0, 1, 2, 10, 11, 12] : List Int).getD b 0)).natAbs

/-- two groups on a line, start medoids 2 and 3, hash order reversing the medoids every round -/
example : createKMedoids exD [0, 1, 2, 3, 4, 5] (some [2, 3]) (fun _ l => l.reverse) =
    some [(1, [0, 1, 2]), (4, [3, 4, 5])] := by decide

end C17.KMed
