import VrpModel.C17
import Mathlib.Data.List.Perm.Subperm
import Mathlib.Algebra.BigOperators.Group.List.Basic
/-!
# C17 / LKH — theorems about `Tour::try_path` and `KOpt::optimize`

`tryPath_perm_start`, `tryPath_edges_subset`, `tryPath_usesExactly`, `cost_accounting`,
`optimize_cost_nonincreasing`, `optimize_terminates` (the last two with `improve` abstracted by its contract).
-/
set_option linter.unusedSimpArgs false
set_option linter.unnecessarySimpa false
set_option linter.unusedVariables false

namespace C17.Lkh

/-! ### edge sets -/

theorem mem_insSorted (e x : Edge) : ∀ s : List Edge, x ∈ insSorted e s ↔ x = e ∨ x ∈ s := by
  intro s
  induction s with
  | nil => simp [insSorted]
  | cons y ys ih =>
    simp only [insSorted]
    split
    · simp
    · simp only [List.mem_cons, ih]
      constructor
      · rintro (h | h | h)
        · exact Or.inr (Or.inl h)
        · exact Or.inl h
        · exact Or.inr (Or.inr h)
      · rintro (h | h | h)
        · exact Or.inr (Or.inl h)
        · exact Or.inl h
        · exact Or.inr (Or.inr h)

theorem mem_ins (e x : Edge) (s : List Edge) : x ∈ ins e s ↔ x = e ∨ x ∈ s := by
  unfold ins
  by_cases h : s.contains e = true
  · simp only [h, if_true]
    constructor
    · exact Or.inr
    · rintro (h1 | h1)
      · subst h1; simpa using h
      · exact h1
  · have h' : s.contains e = false := by simpa using h
    simp only [h', Bool.false_eq_true, if_false]
    exact mem_insSorted e x s

theorem mem_foldl_ins (x : Edge) : ∀ (es acc : List Edge),
    x ∈ es.foldl (fun s e => ins e s) acc ↔ x ∈ acc ∨ x ∈ es := by
  intro es
  induction es with
  | nil => intro acc; simp
  | cons e es ih =>
    intro acc
    simp only [List.foldl_cons, ih, mem_ins, List.mem_cons]
    constructor
    · rintro ((h | h) | h)
      · exact Or.inr (Or.inl h)
      · exact Or.inl h
      · exact Or.inr (Or.inr h)
    · rintro (h | h | h)
      · exact Or.inl (Or.inr h)
      · exact Or.inl (Or.inl h)
      · exact Or.inr h

theorem mem_mkSet (x : Edge) (es : List Edge) : x ∈ mkSet es ↔ x ∈ es := by
  unfold mkSet; rw [mem_foldl_ins]; simp

theorem count_insSorted (e x : Edge) : ∀ s : List Edge, (insSorted e s).count x = (e :: s).count x := by
  intro s
  induction s with
  | nil => simp [insSorted]
  | cons y ys ih =>
    simp only [insSorted]
    split
    · rfl
    · rw [List.count_cons, ih, List.count_cons, List.count_cons, List.count_cons]; omega

theorem nodup_ins (e : Edge) (s : List Edge) (h : s.Nodup) : (ins e s).Nodup := by
  unfold ins
  by_cases hc : s.contains e = true
  · simp only [hc, if_true]; exact h
  · have hne : e ∉ s := by simpa using hc
    have hc' : s.contains e = false := by simpa using hc
    simp only [hc', Bool.false_eq_true, if_false]
    rw [List.nodup_iff_count]
    intro x
    rw [count_insSorted, List.count_cons]
    have := List.nodup_iff_count.mp h x
    by_cases hx : e = x
    · subst hx
      have : s.count e = 0 := List.count_eq_zero.mpr hne
      simp; omega
    · have : (e == x) = false := by simpa using hx
      simp [this]; omega

theorem nodup_foldl_ins : ∀ (es acc : List Edge), acc.Nodup → (es.foldl (fun s e => ins e s) acc).Nodup := by
  intro es
  induction es with
  | nil => intro acc h; simpa using h
  | cons e es ih => intro acc h; exact ih _ (nodup_ins e acc h)

theorem nodup_mkSet (es : List Edge) : (mkSet es).Nodup := nodup_foldl_ins es [] List.nodup_nil

/-- a duplicate-free list and the set collected from it are the same multiset -/
theorem mkSet_perm (es : List Edge) (h : es.Nodup) : (mkSet es).Perm es := by
  rw [List.perm_iff_count]
  intro x
  rw [(nodup_mkSet es).count, h.count]
  simp only [mem_mkSet]

/-! ### legs of a tour -/

theorem mem_windows2 (a b : Nat) : ∀ p : List Nat, (a, b) ∈ windows2 p → a ∈ p ∧ b ∈ p := by
  intro p
  induction p with
  | nil => intro h; simp [windows2] at h
  | cons x xs ih =>
    cases xs with
    | nil => intro h; simp [windows2] at h
    | cons y ys =>
      intro h
      simp only [windows2, List.mem_cons] at h
      rcases h with h | h
      · simp only [Prod.mk.injEq] at h
        obtain ⟨h1, h2⟩ := h; subst h1; subst h2; simp
      · have := ih h
        exact ⟨List.mem_cons_of_mem _ this.1, List.mem_cons_of_mem _ this.2⟩

theorem mem_tourPairs (a b : Nat) (p : List Nat) (h : (a, b) ∈ tourPairs p) : a ∈ p ∧ b ∈ p := by
  unfold tourPairs at h
  rw [List.mem_append] at h
  rcases h with h | h
  · exact mem_windows2 a b p h
  · split at h
    · rename_i l f hl hf
      simp only [List.mem_singleton, Prod.mk.injEq] at h
      obtain ⟨h1, h2⟩ := h; subst h1; subst h2
      exact ⟨List.mem_of_getLast? hl, List.mem_of_head? hf⟩
    · simp at h

theorem mkEdge_fst_or (a b : Nat) : ((mkEdge a b).1 = a ∧ (mkEdge a b).2 = b) ∨ ((mkEdge a b).1 = b ∧ (mkEdge a b).2 = a) := by
  unfold mkEdge; split <;> simp

theorem mkEdge_le (a b : Nat) : (mkEdge a b).1 ≤ (mkEdge a b).2 := by
  unfold mkEdge; split <;> simp <;> omega

theorem mkEdge_comm (a b : Nat) : mkEdge a b = mkEdge b a := by
  unfold mkEdge
  by_cases h1 : a < b <;> by_cases h2 : b < a <;> simp [h1, h2] <;> omega

theorem mem_closedEdges (e : Edge) (p : List Nat) (h : e ∈ closedEdges p) :
    e.1 ∈ p ∧ e.2 ∈ p ∧ e.1 ≤ e.2 := by
  unfold closedEdges at h
  rw [List.mem_map] at h
  obtain ⟨⟨a, b⟩, hab, rfl⟩ := h
  have hm := mem_tourPairs a b p hab
  refine ⟨?_, ?_, mkEdge_le a b⟩
  · rcases mkEdge_fst_or a b with h | h <;> simp [h.1, hm.1, hm.2]
  · rcases mkEdge_fst_or a b with h | h <;> simp [h.2, hm.1, hm.2]

theorem mem_tourEdges (e : Edge) (p : List Nat) (h : e ∈ tourEdges p) : e.1 ∈ p ∧ e.2 ∈ p ∧ e.1 ≤ e.2 :=
  mem_closedEdges e p ((mem_mkSet e _).mp h)

theorem mem_surgery (e : Edge) (p : List Nat) (bs js : List Edge) :
    e ∈ surgery p bs js ↔ (e ∈ tourEdges p ∧ e ∉ bs) ∨ e ∈ js := by
  unfold surgery
  rw [mem_mkSet, List.mem_append, List.mem_filter]
  simp

/-! ### the successor map and the walk -/

theorem mem_smInsert (m : SuccMap) (k v : Nat) (kv : Nat × Nat) (h : kv ∈ smInsert m k v) :
    kv ∈ m ∨ kv = (k, v) := by
  unfold smInsert at h
  split at h
  · rw [List.mem_map] at h
    obtain ⟨x, hx, rfl⟩ := h
    split
    · exact Or.inr rfl
    · exact Or.inl hx
  · rw [List.mem_append] at h
    rcases h with h | h
    · exact Or.inl h
    · right; simpa using h

theorem smGet_mem (m : SuccMap) (k v : Nat) (h : smGet m k = some v) : (k, v) ∈ m := by
  unfold smGet at h
  cases hf : m.find? (fun kv => kv.1 == k) with
  | none => simp [hf] at h
  | some kv =>
    simp only [hf, Option.map_some, Option.some.injEq] at h
    have h1 := List.find?_some hf
    have h2 := List.mem_of_find?_eq_some hf
    have h3 : kv.1 = k := by simpa using h1
    have : kv = (k, v) := by cases kv; simp_all
    rw [← this]; exact h2

/-- the entry `(k, v)` was recorded from an edge of `E` that touches `k` and leads to `v` -/
def FromEdge (E : List Edge) (kv : Nat × Nat) : Prop := ∃ e ∈ E, touches kv.1 e = true ∧ kv.2 = other kv.1 e

theorem walk_entries (E : List Edge) : ∀ (fuel : Nat) (es : List Edge) (node : Nat) (m : SuccMap),
    es ⊆ E → (∀ kv ∈ m, FromEdge E kv) → ∀ kv ∈ walk fuel es node m, FromEdge E kv := by
  intro fuel
  induction fuel with
  | zero => intro es node m _ hm; simpa [walk] using hm
  | succ f ih =>
    intro es node m hes hm
    simp only [walk]
    split
    · exact hm
    · rename_i e he
      apply ih
      · exact fun x hx => hes (List.erase_subset hx)
      · intro kv hkv
        rcases mem_smInsert _ _ _ _ hkv with h | h
        · exact hm kv h
        · subst h
          exact ⟨e, hes (List.mem_of_find?_eq_some he), List.find?_some he, rfl⟩

theorem other_mem (n : Nat) (e : Edge) : other n e = e.1 ∨ other n e = e.2 := by
  unfold other; split <;> simp

/-- an edge recorded as `k ↦ v` is the normalised edge `mkEdge k v` -/
theorem fromEdge_mkEdge (k v : Nat) (e : Edge) (hn : e.1 ≤ e.2) (ht : touches k e = true) (hv : v = other k e) :
    mkEdge k v = e := by
  obtain ⟨x, y⟩ := e
  simp only [touches, other, Bool.or_eq_true, beq_iff_eq] at *
  subst hv
  unfold mkEdge
  by_cases h1 : x = k
  · subst h1
    by_cases h2 : x < y
    · simp [h2]
    · have : x = y := by omega
      subst this; simp
  · have h2 : y = k := by rcases ht with h | h; exact absurd h h1; exact h
    subst h2
    have h3 : ¬ (y < x) := by omega
    simp [h1, h3]

/-! ### following the successors -/

theorem windows2_append_single : ∀ (acc : List Nat) (node next : Nat), acc.getLast? = some node →
    windows2 (acc ++ [next]) = windows2 acc ++ [(node, next)] := by
  intro acc
  induction acc with
  | nil => intro node next h; simp at h
  | cons x xs ih =>
    intro node next h
    cases xs with
    | nil =>
      simp at h; subst h
      simp [windows2]
    | cons y ys =>
      have h' : (y :: ys).getLast? = some node := by simpa [List.getLast?_cons_cons] using h
      have := ih node next h'
      simp only [List.cons_append] at this ⊢
      simp only [windows2, this, List.cons_append]

theorem follow_prefix (m : SuccMap) : ∀ (fuel node : Nat) (acc : List Nat),
    ∃ ext, follow m fuel node acc = acc ++ ext := by
  intro fuel
  induction fuel with
  | zero => intro node acc; exact ⟨[], by simp [follow]⟩
  | succ f ih =>
    intro node acc
    simp only [follow]
    split
    · exact ⟨[], by simp⟩
    · rename_i next _
      split
      · exact ⟨[], by simp⟩
      · obtain ⟨ext, h⟩ := ih next (acc ++ [next])
        exact ⟨[next] ++ ext, by rw [h]; simp⟩

theorem follow_nodup (m : SuccMap) : ∀ (fuel node : Nat) (acc : List Nat), acc.Nodup →
    (follow m fuel node acc).Nodup := by
  intro fuel
  induction fuel with
  | zero => intro node acc h; simpa [follow] using h
  | succ f ih =>
    intro node acc h
    simp only [follow]
    split
    · exact h
    · rename_i next _
      split
      · exact h
      · rename_i hc
        apply ih
        have hn : next ∉ acc := by simpa using hc
        rw [List.nodup_append]
        refine ⟨h, by simp, ?_⟩
        intro a ha b hb
        simp at hb; subst hb
        intro e; subst e; exact hn ha

theorem follow_mem (m : SuccMap) : ∀ (fuel node : Nat) (acc : List Nat) (x : Nat),
    x ∈ follow m fuel node acc → x ∈ acc ∨ ∃ k, (k, x) ∈ m := by
  intro fuel
  induction fuel with
  | zero => intro node acc x h; left; simpa [follow] using h
  | succ f ih =>
    intro node acc x h
    simp only [follow] at h
    split at h
    · exact Or.inl h
    · rename_i next hn
      split at h
      · exact Or.inl h
      · rcases ih next (acc ++ [next]) x h with h1 | h1
        · rw [List.mem_append] at h1
          rcases h1 with h1 | h1
          · exact Or.inl h1
          · simp at h1; subst h1
            exact Or.inr ⟨node, smGet_mem m node x hn⟩
        · exact Or.inr h1

theorem follow_legs (m : SuccMap) : ∀ (fuel node : Nat) (acc : List Nat), acc.getLast? = some node →
    (∀ ab ∈ windows2 acc, smGet m ab.1 = some ab.2) →
    ∀ ab ∈ windows2 (follow m fuel node acc), smGet m ab.1 = some ab.2 := by
  intro fuel
  induction fuel with
  | zero => intro node acc _ h; simpa [follow] using h
  | succ f ih =>
    intro node acc hl h
    simp only [follow]
    split
    · exact h
    · rename_i next hn
      split
      · exact h
      · apply ih next (acc ++ [next])
        · simp
        · rw [windows2_append_single acc node next hl]
          intro ab hab
          rw [List.mem_append] at hab
          rcases hab with hab | hab
          · exact h ab hab
          · simp at hab; subst hab; exact hn

/-! ### `try_path` -/

theorem tryPath_some {path : List Nat} {bs js : List Edge} {q : List Nat} (h : tryPath path bs js = some q) :
    ∃ start, path.head? = some start ∧
      q = follow (walk (surgery path bs js).length (surgery path bs js) start []) path.length start [start] ∧
      q.length = path.length ∧ path.length ≤ (surgery path bs js).length ∧
      (walk (surgery path bs js).length (surgery path bs js) start []).length = path.length := by
  unfold tryPath at h
  simp only at h
  split at h
  · cases h
  · rename_i hlen
    split at h
    · cases h
    · rename_i start hs
      split at h
      · cases h
      · rename_i hm
        split at h
        · rename_i hq
          simp only [Option.some.injEq] at h
          refine ⟨start, hs, h.symm, ?_, by omega, by simpa using hm⟩
          rw [← h]; simpa using hq
        · cases h

/-- every node of a rebuilt tour is the start node or an end point of an edge of the surgered set -/
theorem tryPath_nodes {path : List Nat} {bs js : List Edge} {q : List Nat} (h : tryPath path bs js = some q) :
    ∀ x ∈ q, x ∈ path ∨ ∃ e ∈ surgery path bs js, x = e.1 ∨ x = e.2 := by
  obtain ⟨start, hs, hq, _, _⟩ := tryPath_some h
  intro x hx
  rw [hq] at hx
  rcases follow_mem _ _ _ _ x hx with h1 | ⟨k, hk⟩
  · simp at h1; subst h1; exact Or.inl (List.mem_of_head? hs)
  · right
    have := walk_entries (surgery path bs js) _ _ start [] (fun _ h => h) (by simp) (k, x) hk
    obtain ⟨e, he, _, hv⟩ := this
    simp only at hv
    exact ⟨e, he, by rw [hv]; exact other_mem k e⟩

/-- **C17 (LKH)**: a tour rebuilt by `try_path` is a permutation of the path's nodes and starts at the path's
    first node — provided the joined edges connect nodes of the path (no hypothesis on `broken`). -/
theorem tryPath_perm_start (path : List Nat) (bs js : List Edge) (q : List Nat)
    (hj : ∀ e ∈ js, e.1 ∈ path ∧ e.2 ∈ path) (h : tryPath path bs js = some q) :
    q.Perm path ∧ q.head? = path.head? := by
  obtain ⟨start, hs, hq, hlen, _⟩ := tryPath_some h
  have hnd : q.Nodup := by rw [hq]; exact follow_nodup _ _ _ _ (by simp)
  have hsub : q ⊆ path := by
    intro x hx
    rcases tryPath_nodes h x hx with h1 | ⟨e, he, hxe⟩
    · exact h1
    · rw [mem_surgery] at he
      have : e.1 ∈ path ∧ e.2 ∈ path := by
        rcases he with ⟨he, _⟩ | he
        · exact ⟨(mem_tourEdges e path he).1, (mem_tourEdges e path he).2.1⟩
        · exact hj e he
      rcases hxe with hxe | hxe <;> rw [hxe]
      · exact this.1
      · exact this.2
  refine ⟨(List.subperm_of_subset hnd hsub).perm_of_length_le (by omega), ?_⟩
  obtain ⟨ext, he⟩ := follow_prefix (walk (surgery path bs js).length (surgery path bs js) start []) path.length start [start]
  rw [hq, he, hs]; rfl

/-- **C17 (LKH)**: every leg of a rebuilt tour is an edge of `tour edges − broken + joined`. -/
theorem tryPath_edges_subset (path : List Nat) (bs js : List Edge) (q : List Nat)
    (hn : ∀ e ∈ js, e.1 ≤ e.2) (h : tryPath path bs js = some q) :
    ∀ ab ∈ windows2 q, mkEdge ab.1 ab.2 ∈ surgery path bs js := by
  obtain ⟨start, hs, hq, _, _⟩ := tryPath_some h
  intro ab hab
  rw [hq] at hab
  have hg := follow_legs _ path.length start [start] (by simp) (by simp [windows2]) ab hab
  have hm := smGet_mem _ _ _ hg
  obtain ⟨e, he, ht, hv⟩ := walk_entries (surgery path bs js) _ _ start [] (fun _ h => h) (by simp) _ hm
  have hne : e.1 ≤ e.2 := by
    rcases (mem_surgery e path bs js).mp he with ⟨h1, _⟩ | h1
    · exact (mem_tourEdges e path h1).2.2
    · exact hn e h1
  rw [fromEdge_mkEdge ab.1 ab.2 e hne ht hv]; exact he

/-! ### the legs of a duplicate-free closed tour with at least three nodes are pairwise different edges -/

theorem mkEdge_eq (a b x y : Nat) (h : mkEdge a b = mkEdge x y) : (a = x ∧ b = y) ∨ (a = y ∧ b = x) := by
  unfold mkEdge at h
  by_cases h1 : a < b <;> by_cases h2 : x < y <;> simp [h1, h2] at h <;> omega

theorem windowEdges_nodup : ∀ p : List Nat, p.Nodup → ((windows2 p).map (fun pr => mkEdge pr.1 pr.2)).Nodup := by
  intro p
  induction p with
  | nil => intro _; simp [windows2]
  | cons a xs ih =>
    cases xs with
    | nil => intro _; simp [windows2]
    | cons b r =>
      intro hnd
      simp only [windows2, List.map_cons, List.nodup_cons]
      have hnd' : (b :: r).Nodup := (List.nodup_cons.mp hnd).2
      have ha : a ∉ b :: r := (List.nodup_cons.mp hnd).1
      refine ⟨?_, ih hnd'⟩
      intro hmem
      rw [List.mem_map] at hmem
      obtain ⟨⟨x, y⟩, hxy, he⟩ := hmem
      have hm := mem_windows2 x y (b :: r) hxy
      rcases mkEdge_eq x y a b he with ⟨h1, _⟩ | ⟨_, h1⟩
      · exact ha (h1 ▸ hm.1)
      · exact ha (h1 ▸ hm.2)

theorem closedEdges_nodup (p : List Nat) (hnd : p.Nodup) (hlen : 3 ≤ p.length) : (closedEdges p).Nodup := by
  match p, hnd, hlen with
  | a :: b :: c :: r, hnd, _ =>
    have hlast : (a :: b :: c :: r).getLast? = some ((c :: r).getLast (by simp)) := by
      rw [List.getLast?_cons_cons, List.getLast?_cons_cons, List.getLast?_eq_some_getLast]
    have hl : (c :: r).getLast (by simp) ∈ c :: r := List.getLast_mem _
    generalize (c :: r).getLast (by simp) = l at hlast hl
    unfold closedEdges tourPairs
    rw [hlast]
    simp only [List.head?_cons, List.map_append, List.map_cons, List.map_nil]
    rw [List.nodup_append]
    refine ⟨windowEdges_nodup _ hnd, by simp, ?_⟩
    intro e he e' he'
    simp only [List.mem_singleton] at he'
    subst he'
    intro heq
    subst heq
    rw [List.mem_map] at he
    obtain ⟨⟨x, y⟩, hxy, hxe⟩ := he
    have ha : a ∉ b :: c :: r := (List.nodup_cons.mp hnd).1
    have hb : b ∉ c :: r := (List.nodup_cons.mp (List.nodup_cons.mp hnd).2).1
    simp only [windows2, List.mem_cons] at hxy
    rcases hxy with hxy | hxy
    · simp only [Prod.mk.injEq] at hxy
      obtain ⟨hx, hy⟩ := hxy
      subst hx; subst hy
      rcases mkEdge_eq _ _ _ _ hxe with ⟨h1, h2⟩ | ⟨h1, h2⟩
      · simp only at h2
        exact ha (by rw [← h2]; simp)
      · simp only at h2
        exact hb (by rw [h2]; exact hl)
    · have hxy' : (x, y) ∈ windows2 (b :: c :: r) := by simpa [windows2] using hxy
      have hm := mem_windows2 x y _ hxy'
      rcases mkEdge_eq _ _ _ _ hxe with ⟨_, h2⟩ | ⟨h1, _⟩
      · simp only at h2
        exact ha (by rw [← h2]; exact hm.2)
      · simp only at h1
        exact ha (by rw [← h1]; exact hm.1)

theorem length_windows2 : ∀ p : List Nat, (windows2 p).length = p.length - 1 := by
  intro p
  induction p with
  | nil => simp [windows2]
  | cons a xs ih =>
    cases xs with
    | nil => simp [windows2]
    | cons b r => simp only [windows2, List.length_cons, ih]; simp

theorem length_tourPairs (p : List Nat) : (tourPairs p).length = p.length := by
  unfold tourPairs
  cases p with
  | nil => simp [windows2]
  | cons a r =>
    have : ∃ l, (a :: r).getLast? = some l := ⟨(a :: r).getLast (by simp), List.getLast?_eq_some_getLast _⟩
    obtain ⟨l, hl⟩ := this
    rw [hl]
    simp [length_windows2]

theorem length_closedEdges (p : List Nat) : (closedEdges p).length = p.length := by
  unfold closedEdges; rw [List.length_map, length_tourPairs]

/-! ### using exactly the surgered edge set; exact gain accounting -/

theorem usesExactly_iff (q : List Nat) (es : List Edge) : usesExactly q es = true ↔ (closedEdges q).Perm es := by
  unfold usesExactly
  simp only [Bool.and_eq_true, beq_iff_eq, List.all_eq_true, List.contains_iff_mem]
  constructor
  · rintro ⟨⟨hlen, hcount⟩, hsub⟩
    rw [List.perm_iff_count]
    intro e
    by_cases he : e ∈ es
    · exact hcount e he
    · have : e ∉ closedEdges q := fun hm => he (hsub e hm)
      rw [List.count_eq_zero.mpr he, List.count_eq_zero.mpr this]
  · intro h
    refine ⟨⟨h.length_eq, fun e _ => (List.perm_iff_count.mp h) e⟩, fun e he => h.subset he⟩

theorem tryPath_nodup {path : List Nat} {bs js : List Edge} {q : List Nat} (h : tryPath path bs js = some q) :
    q.Nodup := by
  obtain ⟨start, _, hq, _, _⟩ := tryPath_some h
  rw [hq]; exact follow_nodup _ _ _ _ (by simp)

/-- when the surgered set has exactly as many edges as the tour has nodes and also contains the closing leg
    of the rebuilt tour, the rebuilt closed tour uses exactly the surgered edge set -/
theorem tryPath_usesExactly (path : List Nat) (bs js : List Edge) (q : List Nat)
    (hn : ∀ e ∈ js, e.1 ≤ e.2) (h : tryPath path bs js = some q) (h3 : 3 ≤ path.length)
    (hcard : (surgery path bs js).length = path.length)
    (hclose : ∀ l f, q.getLast? = some l → q.head? = some f → mkEdge l f ∈ surgery path bs js) :
    usesExactly q (surgery path bs js) = true := by
  rw [usesExactly_iff]
  obtain ⟨start, hs, hq, hlen, _⟩ := tryPath_some h
  have hnd := tryPath_nodup h
  have hce : (closedEdges q).Nodup := closedEdges_nodup q hnd (by omega)
  have hsub : closedEdges q ⊆ surgery path bs js := by
    intro e he
    unfold closedEdges tourPairs at he
    rw [List.mem_map] at he
    obtain ⟨ab, hab, rfl⟩ := he
    rw [List.mem_append] at hab
    rcases hab with hab | hab
    · exact tryPath_edges_subset path bs js q hn h ab hab
    · split at hab
      · rename_i l f hl hf
        simp only [List.mem_singleton] at hab
        subst hab
        exact hclose l f hl hf
      · simp at hab
  exact (List.subperm_of_subset hce hsub).perm_of_length_le (by rw [length_closedEdges]; omega)

theorem closedCost_eq_edgeSum (c : Nat → Nat → Int) (hsym : ∀ i j, c i j = c j i) (p : List Nat) :
    closedCost c p = edgeSum c (closedEdges p) := by
  unfold closedCost edgeSum closedEdges
  rw [List.map_map]
  congr 1
  apply List.map_congr_left
  intro ab _
  simp only [Function.comp]
  rcases mkEdge_fst_or ab.1 ab.2 with ⟨h1, h2⟩ | ⟨h1, h2⟩
  · rw [h1, h2]
  · rw [h1, h2]; exact hsym _ _

theorem edgeSum_perm (c : Nat → Nat → Int) {l₁ l₂ : List Edge} (h : l₁.Perm l₂) : edgeSum c l₁ = edgeSum c l₂ := by
  unfold edgeSum; exact (h.map _).sum_eq

theorem edgeSum_append (c : Nat → Nat → Int) (l₁ l₂ : List Edge) :
    edgeSum c (l₁ ++ l₂) = edgeSum c l₁ + edgeSum c l₂ := by
  unfold edgeSum; rw [List.map_append, List.sum_append]

/-- **C17 (LKH), exact gain accounting**: if the closed tour `q` uses exactly the surgered edge set of a k-opt
    move on the duplicate-free tour `path` (broken edges are tour edges, joined edges are new or re-join a broken
    one), then `cost q = cost path − Σ broken + Σ joined` for a symmetric cost function. -/
theorem cost_accounting (c : Nat → Nat → Int) (hsym : ∀ i j, c i j = c j i) (path q : List Nat) (bs js : List Edge)
    (hnd : path.Nodup) (hbs : bs.Nodup) (hjs : js.Nodup) (hmove : moveOk path bs js = true)
    (hex : usesExactly q (surgery path bs js) = true) :
    closedCost c q = closedCost c path - edgeSum c bs + edgeSum c js := by
  unfold moveOk at hmove
  simp only [Bool.and_eq_true, decide_eq_true_eq, List.all_eq_true, List.contains_iff_mem, Bool.or_eq_true,
    Bool.not_eq_true', decide_eq_false_iff_not] at hmove
  obtain ⟨⟨h3, hbsub⟩, hjnew⟩ := hmove
  have hte : (tourEdges path).Nodup := nodup_mkSet _
  -- the surgered set as a multiset
  have hrest : ((tourEdges path).filter (fun e => !bs.contains e)).Nodup := hte.filter _
  have hdisj : (((tourEdges path).filter (fun e => !bs.contains e)) ++ js).Nodup := by
    rw [List.nodup_append]
    refine ⟨hrest, hjs, ?_⟩
    intro a ha b hb hab
    subst hab
    rw [List.mem_filter] at ha
    have hb' := hjnew a hb
    simp only [Bool.not_eq_true', List.contains_eq_mem, decide_eq_false_iff_not] at ha hb'
    rcases hb' with h | h
    · exact h ha.1
    · exact ha.2 h
  have hE : (surgery path bs js).Perm (((tourEdges path).filter (fun e => !bs.contains e)) ++ js) :=
    mkSet_perm _ hdisj
  -- the tour's edges split into the kept and the broken ones
  have hsplit : (tourEdges path).Perm (((tourEdges path).filter (fun e => !bs.contains e)) ++ bs) := by
    rw [List.perm_iff_count]
    intro x
    rw [List.count_append]
    by_cases hx : x ∈ bs
    · have hxt : x ∈ tourEdges path := hbsub x hx
      have : x ∉ (tourEdges path).filter (fun e => !bs.contains e) := by
        rw [List.mem_filter]; simp [hx]
      rw [hte.count, hbs.count, List.count_eq_zero.mpr this]; simp [hx, hxt]
    · rw [List.count_filter (by simp [hx]), List.count_eq_zero.mpr hx]; rfl
  have hce : (closedEdges path).Nodup := closedEdges_nodup path hnd h3
  have h1 : closedCost c q = edgeSum c (surgery path bs js) := by
    rw [closedCost_eq_edgeSum c hsym, edgeSum_perm c ((usesExactly_iff _ _).mp hex)]
  have h2 : closedCost c path = edgeSum c (tourEdges path) := by
    rw [closedCost_eq_edgeSum c hsym]; exact (edgeSum_perm c (mkSet_perm _ hce)).symm
  rw [h1, h2, edgeSum_perm c hE, edgeSum_perm c hsplit, edgeSum_append, edgeSum_append]
  omega

/-! ### `KOpt::optimize` with `improve` abstracted by its contract -/

/-- the contract of `KOpt::improve` (traced, not modelled): a returned path is a `try_path` result for a k-opt
    move on the current tour (broken edges are tour edges, joined edges connect tour nodes and are new), the
    rebuilt closed tour uses exactly the surgered edge set, and the exact gain `Σ broken − Σ joined` is
    strictly positive (`relink > 0` in `choose_x`). -/
def Improves (c : Nat → Nat → Int) (p q : List Nat) : Prop :=
  ∃ bs js, tryPath p bs js = some q ∧ bs.Nodup ∧ js.Nodup ∧ (∀ e ∈ js, e.1 ∈ p ∧ e.2 ∈ p) ∧
    moveOk p bs js = true ∧ usesExactly q (surgery p bs js) = true ∧ edgeSum c js < edgeSum c bs

theorem improves_sound (c : Nat → Nat → Int) (hsym : ∀ i j, c i j = c j i) (p q : List Nat) (hnd : p.Nodup)
    (h : Improves c p q) : q.Perm p ∧ q.head? = p.head? ∧ closedCost c q < closedCost c p := by
  obtain ⟨bs, js, ht, hbs, hjs, hj, hmove, hex, hgain⟩ := h
  obtain ⟨h1, h2⟩ := tryPath_perm_start p bs js q hj ht
  refine ⟨h1, h2, ?_⟩
  rw [cost_accounting c hsym p q bs js hnd hbs hjs hmove hex]
  omega

/-- **C17 (LKH)** `optimize_cost_nonincreasing`: whatever `optimize` returns is a permutation of the start path
    with the same first node, its closed-tour cost is not above the start path's, and `improve` finds nothing
    more on it. -/
theorem optimize_cost_nonincreasing (c : Nat → Nat → Int) (hsym : ∀ i j, c i j = c j i)
    (improve : List Nat → Option (List Nat))
    (hc : ∀ p q, p.Nodup → improve p = some q → Improves c p q) :
    ∀ (fuel : Nat) (p q : List Nat), p.Nodup → optimize improve fuel p = some q →
      q.Perm p ∧ q.head? = p.head? ∧ closedCost c q ≤ closedCost c p ∧ improve q = none := by
  intro fuel
  induction fuel with
  | zero => intro p q _ h; simp [optimize] at h
  | succ f ih =>
    intro p q hnd h
    simp only [optimize] at h
    split at h
    · rename_i hn
      simp only [Option.some.injEq] at h
      subst h
      exact ⟨List.Perm.refl _, rfl, Int.le_refl _, hn⟩
    · rename_i r hr
      obtain ⟨h1, h2, h3⟩ := improves_sound c hsym p r hnd (hc p r hnd hr)
      obtain ⟨g1, g2, g3, g4⟩ := ih r q (h1.nodup_iff.mpr hnd) h
      exact ⟨g1.trans h1, g2.trans h2, by omega, g4⟩

theorem sum_map_ge (lb : Int) (f : Nat × Nat → Int) : ∀ l : List (Nat × Nat), (∀ x ∈ l, lb ≤ f x) →
    lb * l.length ≤ (l.map f).sum := by
  intro l
  induction l with
  | nil => intro _; simp
  | cons x xs ih =>
    intro h
    have h1 := h x (by simp)
    have h2 := ih (fun y hy => h y (List.mem_cons_of_mem _ hy))
    simp only [List.map_cons, List.sum_cons, List.length_cons]
    have : lb * ((xs.length : Int) + 1) = lb * xs.length + lb := by rw [Int.mul_add, Int.mul_one]
    push_cast
    omega

theorem closedCost_ge (c : Nat → Nat → Int) (lb : Int) (hlb : ∀ i j, lb ≤ c i j) (p : List Nat) :
    lb * p.length ≤ closedCost c p := by
  unfold closedCost
  have := sum_map_ge lb (fun e => c e.1 e.2) (tourPairs p) (fun x _ => hlb x.1 x.2)
  rwa [length_tourPairs] at this

/-- **C17 (LKH)** `optimize_terminates`: with costs bounded below, the improvement loop stops after finitely
    many rounds (every accepted tour is strictly cheaper and all tours visit the same nodes). -/
theorem optimize_terminates (c : Nat → Nat → Int) (hsym : ∀ i j, c i j = c j i) (lb : Int)
    (hlb : ∀ i j, lb ≤ c i j) (improve : List Nat → Option (List Nat))
    (hc : ∀ p q, p.Nodup → improve p = some q → Improves c p q) (p : List Nat) (hnd : p.Nodup) :
    ∃ N, ∀ fuel, N ≤ fuel → ∃ q, optimize improve fuel p = some q := by
  suffices H : ∀ (k : Nat) (p : List Nat), p.Nodup → closedCost c p - lb * p.length ≤ k →
      ∀ fuel, k + 1 ≤ fuel → ∃ q, optimize improve fuel p = some q by
    exact ⟨(closedCost c p - lb * p.length).toNat + 1, fun fuel hf =>
      H (closedCost c p - lb * p.length).toNat p hnd (Int.self_le_toNat _) fuel hf⟩
  intro k
  induction k with
  | zero =>
    intro p hnd hk fuel hf
    match fuel, hf with
    | f + 1, _ =>
      simp only [optimize]
      split
      · exact ⟨p, rfl⟩
      · rename_i r hr
        obtain ⟨h1, _, h3⟩ := improves_sound c hsym p r hnd (hc p r hnd hr)
        have := closedCost_ge c lb hlb r
        rw [h1.length_eq] at this
        omega
  | succ k ih =>
    intro p hnd hk fuel hf
    match fuel, hf with
    | f + 1, hf =>
      simp only [optimize]
      split
      · exact ⟨p, rfl⟩
      · rename_i r hr
        obtain ⟨h1, _, h3⟩ := improves_sound c hsym p r hnd (hc p r hnd hr)
        apply ih r (h1.nodup_iff.mpr hnd) _ f (by omega)
        rw [h1.length_eq]
        omega

/-! ### the hook `verif_try_path` -/

theorem mkSet_map_mkEdge_le (l : List (Nat × Nat)) : ∀ e ∈ mkSet (l.map (fun p => mkEdge p.1 p.2)), e.1 ≤ e.2 := by
  intro e he
  rw [mem_mkSet, List.mem_map] at he
  obtain ⟨p, _, rfl⟩ := he
  exact mkEdge_le _ _

/-- the theorems above for the observed entry point (edge lists of any orientation, with repetitions) -/
theorem tryPathHook_contract (path : List Nat) (broken joined : List (Nat × Nat)) (q : List Nat)
    (hj : ∀ e ∈ joined, e.1 ∈ path ∧ e.2 ∈ path) (h : tryPathHook path broken joined = some q) :
    q.Perm path ∧ q.head? = path.head? ∧
      legsIn q (surgery path (mkSet (broken.map (fun p => mkEdge p.1 p.2))) (mkSet (joined.map (fun p => mkEdge p.1 p.2)))) = true := by
  unfold tryPathHook at h
  have hj' : ∀ e ∈ mkSet (joined.map (fun p => mkEdge p.1 p.2)), e.1 ∈ path ∧ e.2 ∈ path := by
    intro e he
    rw [mem_mkSet, List.mem_map] at he
    obtain ⟨p, hp, rfl⟩ := he
    have := hj p hp
    rcases mkEdge_fst_or p.1 p.2 with ⟨h1, h2⟩ | ⟨h1, h2⟩ <;> rw [h1, h2] <;> simp [this.1, this.2]
  obtain ⟨h1, h2⟩ := tryPath_perm_start path _ _ q hj' h
  refine ⟨h1, h2, ?_⟩
  unfold legsIn
  simp only [List.all_eq_true, List.contains_iff_mem]
  exact tryPath_edges_subset path _ _ q (mkSet_map_mkEdge_le joined) h

/-! ### non-vacuity -/

/-- the 2-opt move of the repository's unit test: `[0,2,1,3]` → `[0,1,2,3]`, cost `8 → 4` on the ring metric -/
example : tryPathHook [0, 2, 1, 3] [(0, 2), (1, 3)] [(0, 1), (2, 3)] = some [0, 1, 2, 3] := by decide

example : moveOk [0, 2, 1, 3] [(0, 2), (1, 3)] [(0, 1), (2, 3)] = true ∧
    usesExactly [0, 1, 2, 3] (surgery [0, 2, 1, 3] [(0, 2), (1, 3)] [(0, 1), (2, 3)]) = true := by decide

/-- the start node is the path's first node also when that is not node 0 (S6) -/
example : tryPathHook [2, 0, 3, 1, 4] [(2, 0), (3, 1)] [(2, 3), (0, 1)] = some [2, 3, 0, 1, 4] := by decide

/-- the rho shape: same number of edges, degrees not preserved — `try_path` answers `Some(path)` although the
    closing leg `(0,3)` is not in the surgered set; this is why `cost_accounting` needs `usesExactly` -/
example : tryPathHook [0, 1, 2, 3] [(0, 3)] [(1, 3)] = some [0, 1, 2, 3] ∧
    usesExactly [0, 1, 2, 3] (surgery [0, 1, 2, 3] [(0, 3)] [(1, 3)]) = false := by decide

/-- without the hypothesis on the joined edges a foreign node can enter the tour -/
example : tryPathHook [0, 1, 2] [(0, 1), (1, 2)] [(0, 7), (2, 7)] = some [0, 2, 7] := by decide

end C17.Lkh
