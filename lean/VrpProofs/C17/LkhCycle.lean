import VrpProofs.C17.Lkh
import Mathlib.Data.List.Nodup
/-!
# C17 / LKH — a degree-preserving move whose rebuilt tour is accepted uses exactly the surgered edge set

`tryPath_closes`: when no node has more than two incident edges in `tour edges − broken + joined` (and there are no
loops), the closing leg of a tour accepted by `try_path` is an edge of that set; with `|set| = n` the closed tour
uses exactly the set (`tryPath_degOk_usesExactly`), which is the hypothesis of `cost_accounting`.
-/
set_option linter.unusedSimpArgs false
set_option linter.unnecessarySimpa false
set_option linter.unusedVariables false

namespace C17.Lkh

/-! ### structure of `HashMap::insert` on the association list -/

def keysM (m : SuccMap) : List Nat := m.map (·.1)
def edgesM (m : SuccMap) : List Edge := m.map (fun kv => mkEdge kv.1 kv.2)

theorem smInsert_cases (k v : Nat) : ∀ m : SuccMap, (keysM m).Nodup →
    (k ∉ keysM m ∧ smInsert m k v = m ++ [(k, v)]) ∨
    (∃ m1 v0 m2, m = m1 ++ (k, v0) :: m2 ∧ smInsert m k v = m1 ++ (k, v) :: m2) := by
  intro m
  induction m with
  | nil => intro _; left; simp [keysM, smInsert]
  | cons kv rest ih =>
    intro hnd
    simp only [keysM, List.map_cons, List.nodup_cons] at hnd
    by_cases e : kv.1 = k
    · right
      refine ⟨[], kv.2, rest, by cases kv; simp_all, ?_⟩
      have hk : k ∉ keysM rest := by rw [← e]; exact hnd.1
      have hrest : rest.map (fun kv => if kv.1 == k then (k, v) else kv) = rest := by
        have hid : rest.map (fun kv => if kv.1 == k then (k, v) else kv) = rest.map id := by
          apply List.map_congr_left
          intro x hx
          have : x.1 ≠ k := fun h => hk (by rw [← h]; exact List.mem_map_of_mem hx)
          simp [this]
        rw [hid, List.map_id]
      unfold smInsert
      have h1 : (kv.1 == k) = true := by simpa using e
      simp only [List.any_cons, h1, Bool.true_or, if_true, List.map_cons, hrest, List.nil_append]
    · have h1 : (kv.1 == k) = false := by simpa using e
      rcases ih hnd.2 with ⟨hk, heq⟩ | ⟨m1, v0, m2, hm, heq⟩
      · left
        refine ⟨?_, ?_⟩
        · simp only [keysM, List.map_cons, List.mem_cons, not_or]
          exact ⟨fun h => e h.symm, hk⟩
        · unfold smInsert at heq ⊢
          have hany : rest.any (fun kv => kv.1 == k) = false := by
            rw [← Bool.not_eq_true]
            intro h
            rw [List.any_eq_true] at h
            obtain ⟨x, hx, hxk⟩ := h
            exact hk (by simp only [keysM, List.mem_map]; exact ⟨x, hx, by simpa using hxk⟩)
          simp [List.any_cons, h1, hany]
      · right
        refine ⟨kv :: m1, v0, m2, by rw [hm]; rfl, ?_⟩
        unfold smInsert at heq ⊢
        have hany : rest.any (fun kv => kv.1 == k) = true := by
          rw [List.any_eq_true]; exact ⟨(k, v0), by rw [hm]; simp, by simp⟩
        simp only [hany, if_true] at heq
        simp only [List.any_cons, h1, hany, Bool.or_true, if_true, List.map_cons, Bool.false_eq_true, if_false, heq,
          List.cons_append]

theorem smGet_of_key (m : SuccMap) (k : Nat) (h : k ∈ keysM m) : ∃ v, smGet m k = some v := by
  unfold smGet
  cases hf : m.find? (fun kv => kv.1 == k) with
  | some kv => exact ⟨kv.2, rfl⟩
  | none =>
    rw [List.find?_eq_none] at hf
    simp only [keysM, List.mem_map] at h
    obtain ⟨kv, hkv, hk⟩ := h
    have := hf kv hkv
    simp [hk] at this

/-! ### the walk: recorded entries use pairwise different edges -/

/-- invariant of the walk over the (duplicate-free, normalised) edge list `E` -/
structure WInv (E : List Edge) (P : List Nat) (es : List Edge) (node : Nat) (m : SuccMap) : Prop where
  sub : es ⊆ E
  esNodup : es.Nodup
  keys : (keysM m).Nodup
  edges : (edgesM m).Nodup
  used : ∀ e ∈ edgesM m, e ∈ E ∧ e ∉ es
  nodeIn : node ∈ P
  keysIn : ∀ k ∈ keysM m, k ∈ P

theorem walk_inv (E : List Edge) (P : List Nat) (hnorm : ∀ e ∈ E, e.1 ≤ e.2) (hends : ∀ e ∈ E, e.1 ∈ P ∧ e.2 ∈ P) :
    ∀ (fuel : Nat) (es : List Edge) (node : Nat) (m : SuccMap), WInv E P es node m →
    (keysM (walk fuel es node m)).Nodup ∧ (edgesM (walk fuel es node m)).Nodup ∧
      (∀ e ∈ edgesM (walk fuel es node m), e ∈ E) ∧ ∀ k ∈ keysM (walk fuel es node m), k ∈ P := by
  intro fuel
  induction fuel with
  | zero => intro es node m I; exact ⟨I.keys, I.edges, fun e he => (I.used e he).1, I.keysIn⟩
  | succ f ih =>
    intro es node m I
    simp only [walk]
    split
    · exact ⟨I.keys, I.edges, fun e he => (I.used e he).1, I.keysIn⟩
    · rename_i e he
      have hee : e ∈ es := List.mem_of_find?_eq_some he
      have heE : e ∈ E := I.sub hee
      have hte : touches node e = true := List.find?_some he
      have hmk : mkEdge node (other node e) = e := fromEdge_mkEdge node (other node e) e (hnorm e heE) hte rfl
      have hfresh : e ∉ edgesM m := fun hm => (I.used e hm).2 hee
      have hne : e ∉ es.erase e := fun hm => by
        have := (List.Nodup.mem_erase_iff I.esNodup).mp hm
        exact this.1 rfl
      apply ih
      refine ⟨fun x hx => I.sub (List.erase_subset hx), I.esNodup.erase e, ?_, ?_, ?_, ?_, ?_⟩
      · rcases smInsert_cases node (other node e) m I.keys with ⟨hk, heq⟩ | ⟨m1, v0, m2, hm, heq⟩
        · rw [heq]
          simp only [keysM, List.map_append, List.map_cons, List.map_nil]
          rw [List.nodup_append]
          refine ⟨I.keys, by simp, ?_⟩
          intro a ha b hb; simp at hb; subst hb; intro hab; subst hab; exact hk ha
        · rw [heq]
          have := I.keys
          rw [hm] at this
          simpa [keysM] using this
      · rcases smInsert_cases node (other node e) m I.keys with ⟨hk, heq⟩ | ⟨m1, v0, m2, hm, heq⟩
        · rw [heq]
          simp only [edgesM, List.map_append, List.map_cons, List.map_nil, hmk]
          rw [List.nodup_append]
          refine ⟨I.edges, by simp, ?_⟩
          intro a ha b hb; simp at hb; subst hb; intro hab; subst hab; exact hfresh ha
        · rw [heq]
          have hed := I.edges
          rw [hm] at hed hfresh
          simp only [edgesM, List.map_append, List.map_cons, hmk] at hed hfresh ⊢
          rw [List.nodup_append] at hed ⊢
          obtain ⟨h1, h2, h3⟩ := hed
          rw [List.nodup_cons] at h2 ⊢
          simp only [List.mem_append, List.mem_cons, not_or] at hfresh
          refine ⟨h1, ⟨hfresh.2.2, h2.2⟩, ?_⟩
          intro a ha b hb
          rcases List.mem_cons.mp hb with hb | hb
          · subst hb; intro hab; subst hab; exact hfresh.1 ha
          · exact h3 a ha b (List.mem_cons_of_mem _ hb)
      · intro x hx
        have hx' : x = e ∨ x ∈ edgesM m := by
          rcases smInsert_cases node (other node e) m I.keys with ⟨hk, heq⟩ | ⟨m1, v0, m2, hm, heq⟩
          · rw [heq] at hx
            simp only [edgesM, List.map_append, List.map_cons, List.map_nil, hmk, List.mem_append,
              List.mem_singleton] at hx
            rcases hx with hx | hx
            · exact Or.inr hx
            · exact Or.inl hx
          · rw [heq] at hx
            rw [hm]
            simp only [edgesM, List.map_append, List.map_cons, hmk, List.mem_append, List.mem_cons] at hx ⊢
            rcases hx with hx | hx | hx
            · exact Or.inr (Or.inl hx)
            · exact Or.inl hx
            · exact Or.inr (Or.inr (Or.inr hx))
        rcases hx' with hx' | hx'
        · subst hx'; exact ⟨heE, hne⟩
        · have := I.used x hx'
          exact ⟨this.1, fun hm => this.2 (List.erase_subset hm)⟩
      · rcases other_mem node e with h | h <;> rw [h]
        · exact (hends e heE).1
        · exact (hends e heE).2
      · intro k hk
        have hk' : k = node ∨ k ∈ keysM m := by
          rcases smInsert_cases node (other node e) m I.keys with ⟨_, heq⟩ | ⟨m1, v0, m2, hm, heq⟩
          · rw [heq] at hk
            simp only [keysM, List.map_append, List.map_cons, List.map_nil, List.mem_append, List.mem_singleton] at hk
            rcases hk with hk | hk
            · exact Or.inr hk
            · exact Or.inl hk
          · rw [heq] at hk
            rw [hm]
            simp only [keysM, List.map_append, List.map_cons, List.mem_append, List.mem_cons] at hk ⊢
            rcases hk with hk | hk | hk
            · exact Or.inr (Or.inl hk)
            · exact Or.inl hk
            · exact Or.inr (Or.inr (Or.inr hk))
        rcases hk' with hk' | hk'
        · subst hk'; exact I.nodeIn
        · exact I.keysIn k hk'

/-! ### where the successor iteration stops -/

theorem follow_stop (m : SuccMap) : ∀ (fuel node : Nat) (acc : List Nat), acc.getLast? = some node →
    (follow m fuel node acc).length < acc.length + fuel →
    ∃ l, (follow m fuel node acc).getLast? = some l ∧
      (smGet m l = none ∨ ∃ w, smGet m l = some w ∧ w ∈ follow m fuel node acc) := by
  intro fuel
  induction fuel with
  | zero => intro node acc _ h; simp [follow] at h
  | succ f ih =>
    intro node acc hl h
    simp only [follow] at h ⊢
    cases hg : smGet m node with
    | none => simp only [hg]; exact ⟨node, hl, Or.inl hg⟩
    | some next =>
      simp only [hg] at h ⊢
      by_cases hc : acc.contains next = true
      · simp only [hc, if_true]
        exact ⟨node, hl, Or.inr ⟨next, hg, by simpa using hc⟩⟩
      · have hc' : acc.contains next = false := by simpa using hc
        simp only [hc', Bool.false_eq_true, if_false] at h ⊢
        exact ih next (acc ++ [next]) (by simp) (by rw [List.length_append]; simp; omega)

theorem windows2_of_index : ∀ (q : List Nat) (i a b : Nat), q[i]? = some a → q[i + 1]? = some b →
    (a, b) ∈ windows2 q := by
  intro q
  induction q with
  | nil => intro i a b h; simp at h
  | cons x xs ih =>
    intro i a b h1 h2
    cases xs with
    | nil => simp at h2
    | cons y ys =>
      cases i with
      | zero =>
        simp at h1 h2
        subst h1; subst h2
        simp [windows2]
      | succ i =>
        rw [List.getElem?_cons_succ] at h1 h2
        simp only [windows2, List.mem_cons]
        right
        exact ih i a b h1 h2

theorem three_le_of_distinct {α : Type} (l : List α) (a b c : α) (ha : a ∈ l) (hb : b ∈ l) (hc : c ∈ l)
    (hab : a ≠ b) (hac : a ≠ c) (hbc : b ≠ c) : 3 ≤ l.length := by
  have hnd : [a, b, c].Nodup := by simp [hab, hac, hbc]
  have hsub : [a, b, c] ⊆ l := by
    intro x hx; simp at hx; rcases hx with rfl | rfl | rfl <;> assumption
  exact (List.subperm_of_subset hnd hsub).length_le

theorem touches_mkEdge_left (a b : Nat) : touches a (mkEdge a b) = true := by
  rcases mkEdge_fst_or a b with ⟨h1, _⟩ | ⟨_, h2⟩ <;> simp [touches, *]

theorem touches_mkEdge_right (a b : Nat) : touches b (mkEdge a b) = true := by
  rw [mkEdge_comm]; exact touches_mkEdge_left b a

/-- **C17 (LKH)**: if no node has more than two incident edges in the surgered set (and the set has no loops),
    the closing leg of a tour accepted by `try_path` is an edge of the set: the walk went round one cycle that
    visits every node. -/
theorem tryPath_closes (path : List Nat) (bs js : List Edge) (q : List Nat)
    (hn : ∀ e ∈ js, e.1 ≤ e.2) (hj : ∀ e ∈ js, e.1 ∈ path ∧ e.2 ∈ path) (h3 : 3 ≤ path.length)
    (hdeg : degOk path (surgery path bs js) = true) (h : tryPath path bs js = some q) :
    ∀ l f, q.getLast? = some l → q.head? = some f → mkEdge l f ∈ surgery path bs js := by
  obtain ⟨start, hs, hq, hlen, _, hmlen⟩ := tryPath_some h
  obtain ⟨hperm, hhead⟩ := tryPath_perm_start path bs js q hj h
  have hnd : q.Nodup := tryPath_nodup h
  -- facts about the surgered set
  have hnorm : ∀ e ∈ surgery path bs js, e.1 ≤ e.2 := by
    intro e he
    rcases (mem_surgery e path bs js).mp he with ⟨h1, _⟩ | h1
    · exact (mem_tourEdges e path h1).2.2
    · exact hn e h1
  have hends : ∀ e ∈ surgery path bs js, e.1 ∈ path ∧ e.2 ∈ path := by
    intro e he
    rcases (mem_surgery e path bs js).mp he with ⟨h1, _⟩ | h1
    · exact ⟨(mem_tourEdges e path h1).1, (mem_tourEdges e path h1).2.1⟩
    · exact hj e h1
  unfold degOk at hdeg
  simp only [Bool.and_eq_true, List.all_eq_true, decide_eq_true_eq] at hdeg
  obtain ⟨hloop, hdeg2⟩ := hdeg
  -- facts about the successor map
  have hstart : start ∈ path := List.mem_of_head? hs
  obtain ⟨hkeys, hedges, hedgesE, hkeysP⟩ := walk_inv (surgery path bs js) path hnorm hends
    (surgery path bs js).length (surgery path bs js) start []
    ⟨fun _ hx => hx, nodup_mkSet _, by simp [keysM], by simp [edgesM], by simp [edgesM], hstart, by simp [keysM]⟩
  generalize hm : walk (surgery path bs js).length (surgery path bs js) start [] = m at *
  have hkeysAll : ∀ x ∈ path, x ∈ keysM m := by
    have hsub : keysM m ⊆ path := hkeysP
    have hp := (List.subperm_of_subset hkeys hsub).perm_of_length_le (by simp [keysM, hmlen])
    exact fun x hx => hp.mem_iff.mpr hx
  have hentry : ∀ k v, smGet m k = some v → mkEdge k v ∈ surgery path bs js := by
    intro k v hg
    exact hedgesE _ (by simp only [edgesM, List.mem_map]; exact ⟨(k, v), smGet_mem m k v hg, rfl⟩)
  have hlegs : ∀ ab ∈ windows2 q, smGet m ab.1 = some ab.2 := by
    rw [hq]; exact follow_legs m path.length start [start] (by simp) (by simp [windows2])
  intro l f hl hf
  -- the iteration stopped at `l` because its successor `w` was already visited
  obtain ⟨l', hl', hstop⟩ := follow_stop m path.length start [start] (by simp)
    (by rw [← hq, hlen]; simp)
  rw [← hq, hl] at hl'
  cases hl'
  have hlq : l ∈ q := List.mem_of_getLast? hl
  have hlkey : l ∈ keysM m := hkeysAll l (hperm.mem_iff.mp hlq)
  obtain ⟨w, hgw, hwq⟩ : ∃ w, smGet m l = some w ∧ w ∈ q := by
    rcases hstop with h0 | ⟨w, h1, h2⟩
    · obtain ⟨v, hv⟩ := smGet_of_key m l hlkey
      rw [hv] at h0; cases h0
    · exact ⟨w, h1, by rw [hq]; exact h2⟩
  have he3 : mkEdge l w ∈ surgery path bs js := hentry l w hgw
  -- positions
  obtain ⟨j, hj'⟩ := List.mem_iff_getElem?.mp hwq
  have hjlt : j < q.length := by
    rcases Nat.lt_or_ge j q.length with h1 | h1
    · exact h1
    · rw [List.getElem?_eq_none h1] at hj'; cases hj'
  have hlast : q[q.length - 1]? = some l := by rw [← List.getLast?_eq_getElem?]; exact hl
  have hfirst : q[0]? = some f := by rw [← List.head?_eq_getElem?]; exact hf
  have hn3 : 3 ≤ q.length := by omega
  by_cases hj0 : j = 0
  · subst hj0
    rw [hfirst] at hj'; cases hj'
    exact he3
  · exfalso
    by_cases hjl : j = q.length - 1
    · subst hjl
      rw [hlast] at hj'; cases hj'
      have := hloop _ he3
      unfold mkEdge at this
      simp at this
    · -- `w` has a predecessor `a` and a successor `b` on the tour: three different edges meet at `w`
      have hja : j - 1 < q.length := by omega
      have hjb : j + 1 < q.length := by omega
      obtain ⟨a, ha⟩ : ∃ a, q[j - 1]? = some a := ⟨q[j - 1], List.getElem?_eq_getElem hja⟩
      obtain ⟨b, hb⟩ : ∃ b, q[j + 1]? = some b := ⟨q[j + 1], List.getElem?_eq_getElem hjb⟩
      have hwa : (a, w) ∈ windows2 q := windows2_of_index q (j - 1) a w ha (by
        have : j - 1 + 1 = j := by omega
        rw [this]; exact hj')
      have hwb : (w, b) ∈ windows2 q := windows2_of_index q j w b hj' hb
      have he1 : mkEdge a w ∈ surgery path bs js := hentry a w (hlegs _ hwa)
      have he2 : mkEdge w b ∈ surgery path bs js := hentry w b (hlegs _ hwb)
      have hne : ∀ {i k : Nat} {x y : Nat}, i < q.length → q[i]? = some x → q[k]? = some y → i ≠ k → x ≠ y := by
        intro i k x y hi hx hy hik hxy
        subst hxy
        exact hik ((List.getElem?_inj hi hnd).mp (by rw [hx, hy]))
      have haw : a ≠ w := hne hja ha hj' (by omega)
      have hab : a ≠ b := hne hja ha hb (by omega)
      have hwb' : w ≠ b := hne hjlt hj' hb (by omega)
      have hal : a ≠ l := hne hja ha hlast (by omega)
      have hwl : w ≠ l := hne hjlt hj' hlast (by omega)
      have h12 : mkEdge a w ≠ mkEdge w b := by
        intro he
        rcases mkEdge_eq _ _ _ _ he with ⟨h1, _⟩ | ⟨h1, _⟩
        · exact haw h1
        · exact hab h1
      have h13 : mkEdge a w ≠ mkEdge l w := by
        intro he
        rcases mkEdge_eq _ _ _ _ he with ⟨h1, _⟩ | ⟨h1, _⟩
        · exact hal h1
        · exact haw h1
      have h23 : mkEdge w b ≠ mkEdge l w := by
        intro he
        -- then `b = l`, and the entries `w ↦ l`, `l ↦ w` would have been recorded from the same edge
        have hbl : b = l := by
          rcases mkEdge_eq _ _ _ _ he with ⟨h1, _⟩ | ⟨_, h1⟩
          · exact absurd h1 hwl
          · exact h1
        subst hbl
        have hm1 : (w, b) ∈ m := smGet_mem m w b (hlegs _ hwb)
        have hm2 : (b, w) ∈ m := smGet_mem m b w hgw
        have : (w, b) = (b, w) := List.inj_on_of_nodup_map hedges hm1 hm2 (mkEdge_comm w b)
        simp only [Prod.mk.injEq] at this
        exact hwl this.1
      have hwp : w ∈ path := hperm.mem_iff.mp hwq
      have := three_le_of_distinct ((surgery path bs js).filter (touches w)) (mkEdge a w) (mkEdge w b) (mkEdge l w)
        (List.mem_filter.mpr ⟨he1, touches_mkEdge_right a w⟩)
        (List.mem_filter.mpr ⟨he2, touches_mkEdge_left w b⟩)
        (List.mem_filter.mpr ⟨he3, touches_mkEdge_right l w⟩) h12 h13 h23
      have := hdeg2 w hwp
      omega

/-- an accepted degree-preserving move with exactly `n` edges uses exactly the surgered edge set — so
    `cost_accounting` applies to it without further assumptions on the rebuilt tour -/
theorem tryPath_degOk_usesExactly (path : List Nat) (bs js : List Edge) (q : List Nat)
    (hn : ∀ e ∈ js, e.1 ≤ e.2) (hj : ∀ e ∈ js, e.1 ∈ path ∧ e.2 ∈ path) (h3 : 3 ≤ path.length)
    (hcard : (surgery path bs js).length = path.length)
    (hdeg : degOk path (surgery path bs js) = true) (h : tryPath path bs js = some q) :
    usesExactly q (surgery path bs js) = true :=
  tryPath_usesExactly path bs js q hn h h3 hcard (tryPath_closes path bs js q hn hj h3 hdeg h)

/-! ### the contract of `improve` stated on the move only -/

/-- what `KOpt::improve` returns, stated without reference to the shape of the rebuilt tour: `q` is the
    `try_path` result for a move on the tour `p` that breaks tour edges, joins the same number of new edges
    between tour nodes so that every node keeps at most two incident edges (the alternating chain
    `t1 -x1- t2 -y1- t3 … -yk- t1`), with strictly positive exact gain -/
def ImprovesMove (c : Nat → Nat → Int) (p q : List Nat) : Prop :=
  ∃ bs js, tryPath p bs js = some q ∧ bs.Nodup ∧ js.Nodup ∧ (∀ e ∈ js, e.1 ≤ e.2) ∧
    (∀ e ∈ js, e.1 ∈ p ∧ e.2 ∈ p) ∧ moveOk p bs js = true ∧ (surgery p bs js).length = p.length ∧
    degOk p (surgery p bs js) = true ∧ edgeSum c js < edgeSum c bs

theorem improvesMove_improves (c : Nat → Nat → Int) (p q : List Nat) (h : ImprovesMove c p q) : Improves c p q := by
  obtain ⟨bs, js, ht, hbs, hjs, hn, hj, hmove, hcard, hdeg, hgain⟩ := h
  have h3 : 3 ≤ p.length := by
    unfold moveOk at hmove
    simp only [Bool.and_eq_true, decide_eq_true_eq] at hmove
    exact hmove.1.1
  exact ⟨bs, js, ht, hbs, hjs, hj, hmove, tryPath_degOk_usesExactly p bs js q hn hj h3 hcard hdeg ht, hgain⟩

/-- `optimize_cost_nonincreasing` under the move-level contract of `improve` -/
theorem optimize_cost_nonincreasing_moves (c : Nat → Nat → Int) (hsym : ∀ i j, c i j = c j i)
    (improve : List Nat → Option (List Nat))
    (hc : ∀ p q, p.Nodup → improve p = some q → ImprovesMove c p q)
    (fuel : Nat) (p q : List Nat) (hnd : p.Nodup) (h : optimize improve fuel p = some q) :
    q.Perm p ∧ q.head? = p.head? ∧ closedCost c q ≤ closedCost c p ∧ improve q = none :=
  optimize_cost_nonincreasing c hsym improve
    (fun p q hp hq => improvesMove_improves c p q (hc p q hp hq)) fuel p q hnd h

/-- `optimize_terminates` under the move-level contract of `improve` -/
theorem optimize_terminates_moves (c : Nat → Nat → Int) (hsym : ∀ i j, c i j = c j i) (lb : Int)
    (hlb : ∀ i j, lb ≤ c i j) (improve : List Nat → Option (List Nat))
    (hc : ∀ p q, p.Nodup → improve p = some q → ImprovesMove c p q) (p : List Nat) (hnd : p.Nodup) :
    ∃ N, ∀ fuel, N ≤ fuel → ∃ q, optimize improve fuel p = some q :=
  optimize_terminates c hsym lb hlb improve
    (fun p q hp hq => improvesMove_improves c p q (hc p q hp hq)) p hnd

/-- non-vacuity of the contract: on the ring metric of four nodes the 2-opt move `[0,2,1,3] → [0,1,2,3]`
    (broken `(0,2),(1,3)` cost 2+2, joined `(0,1),(2,3)` cost 1+1: gain 2) meets `ImprovesMove` -/
def ringC (i j : Nat) : Int := min ((i : Int) - j).natAbs (4 - ((i : Int) - j).natAbs)

example : ImprovesMove ringC [0, 2, 1, 3] [0, 1, 2, 3] :=
  ⟨[(0, 2), (1, 3)], [(0, 1), (2, 3)], by decide, by decide, by decide, by decide, by decide, by decide, by decide,
    by decide, by decide⟩

/-- … and an `improve` function with that contract: the theorems apply and `optimize` ends in the cheaper tour -/
def exImprove (p : List Nat) : Option (List Nat) := if p = [0, 2, 1, 3] then some [0, 1, 2, 3] else none

example : optimize exImprove 5 [0, 2, 1, 3] = some [0, 1, 2, 3] ∧
    closedCost ringC [0, 1, 2, 3] = 4 ∧ closedCost ringC [0, 2, 1, 3] = 6 := by decide

/-- the 3-opt move of the repository's unit test is degree preserving -/
example : degOk [0, 3, 2, 4, 5, 1] (surgery [0, 3, 2, 4, 5, 1] [(0, 3), (2, 4), (1, 5)] [(0, 5), (3, 4), (1, 2)]) = true ∧
    tryPath [0, 3, 2, 4, 5, 1] [(0, 3), (2, 4), (1, 5)] [(0, 5), (3, 4), (1, 2)] = some [0, 1, 2, 3, 4, 5] := by decide

end C17.Lkh
