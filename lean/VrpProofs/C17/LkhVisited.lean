import VrpProofs.C17.Lkh
import Mathlib.Data.List.Permutation
import Mathlib.Data.List.Perm.Subperm
/-!
# C17 (LKH) — termination of the improvement loop WITHOUT any assumption on the gains (the repair of S50)

`Lkh.optimize_terminates` proves termination from the contract "every accepted tour is strictly cheaper", which holds for
exact costs. With f64 costs the gain of a move is a rounded running sum: a swap of two nodes with equal costs to their
neighbours has real gain 0 and now and then a rounding-positive one, in BOTH directions, and the unrepaired loop alternated
between two tours of bitwise equal cost for ever (S50: five Euclidean points are enough).

The repaired `KOpt::optimize` remembers the tours it has accepted and stops at the first repetition. This file models that
loop and proves that it terminates for ANY `improve` function that returns permutations of its argument (which `try_path`
guarantees, `LkhCycle.tryPath_closes`): no cost, no symmetry, no gain is mentioned.
-/
namespace C17.LkhVisited

/-- MODEL of the repaired `KOpt::optimize`: `seen` = tours accepted so far (the start path included) -/
def optimizeV (improve : List Nat → Option (List Nat)) : Nat → List (List Nat) → List Nat → Option (List Nat)
  | 0, _, _ => none
  | fuel + 1, seen, p =>
    match improve p with
    | none => some p
    | some q => if q ∈ seen then some p else optimizeV improve fuel (q :: seen) q

theorem optimizeV_terminates_aux (improve : List Nat → Option (List Nat)) (p0 : List Nat)
    (hperm : ∀ a b, improve a = some b → b.Perm a) :
    ∀ (k fuel : Nat) (seen : List (List Nat)) (cur : List Nat), seen.Nodup → (∀ s ∈ seen, s ∈ p0.permutations) →
      cur.Perm p0 → p0.permutations.length ≤ seen.length + k → k + 1 ≤ fuel →
      ∃ q, optimizeV improve fuel seen cur = some q := by
  intro k
  induction k with
  | zero =>
    intro fuel seen cur hnd hsub hcur hN hf
    match fuel, hf with
    | f + 1, _ =>
      simp only [optimizeV]
      cases hi : improve cur with
      | none => exact ⟨cur, rfl⟩
      | some q =>
        simp only []
        by_cases hq : q ∈ seen
        · simp [hq]
        · exfalso
          have hqp : q ∈ p0.permutations := List.mem_permutations.mpr ((hperm cur q hi).trans hcur)
          have hnd' : (q :: seen).Nodup := List.nodup_cons.mpr ⟨hq, hnd⟩
          have hsub' : (q :: seen) ⊆ p0.permutations := by
            intro s hs
            rcases List.mem_cons.mp hs with rfl | hs
            · exact hqp
            · exact hsub s hs
          have := (List.subperm_of_subset hnd' hsub').length_le
          simp only [List.length_cons] at this
          omega
  | succ k ih =>
    intro fuel seen cur hnd hsub hcur hN hf
    match fuel, hf with
    | f + 1, hf =>
      simp only [optimizeV]
      cases hi : improve cur with
      | none => exact ⟨cur, rfl⟩
      | some q =>
        simp only []
        by_cases hq : q ∈ seen
        · simp [hq]
        · simp only [hq, if_false]
          have hqcur : q.Perm p0 := (hperm cur q hi).trans hcur
          apply ih f (q :: seen) q (List.nodup_cons.mpr ⟨hq, hnd⟩)
          · intro s hs
            rcases List.mem_cons.mp hs with rfl | hs
            · exact List.mem_permutations.mpr hqcur
            · exact hsub s hs
          · exact hqcur
          · simp only [List.length_cons]; omega
          · omega

/-- **C17 (LKH), termination of the repaired loop**: for ANY `improve` that returns permutations of its argument, the loop
    that remembers the accepted tours stops after at most `n!` rounds - whatever the gains are (rounded, zero, negative) -/
theorem optimizeV_terminates (improve : List Nat → Option (List Nat)) (p : List Nat)
    (hperm : ∀ a b, improve a = some b → b.Perm a) :
    ∀ fuel, p.permutations.length + 1 ≤ fuel → ∃ q, optimizeV improve fuel [p] p = some q := by
  intro fuel hf
  apply optimizeV_terminates_aux improve p hperm p.permutations.length fuel [p] p (by simp)
  · intro s hs
    simp only [List.mem_singleton] at hs
    subst hs
    exact List.mem_permutations.mpr (List.Perm.refl _)
  · exact List.Perm.refl _
  · omega
  · exact hf

/-- what the loop returns is a permutation of the start path with the same ... nodes (every round keeps the node set) -/
theorem optimizeV_perm (improve : List Nat → Option (List Nat)) (hperm : ∀ a b, improve a = some b → b.Perm a) :
    ∀ (fuel : Nat) (seen : List (List Nat)) (p q : List Nat), optimizeV improve fuel seen p = some q → q.Perm p := by
  intro fuel
  induction fuel with
  | zero => intro seen p q h; simp [optimizeV] at h
  | succ f ih =>
    intro seen p q h
    simp only [optimizeV] at h
    cases hi : improve p with
    | none => simp only [hi, Option.some.injEq] at h; subst h; exact List.Perm.refl _
    | some r =>
      simp only [hi] at h
      by_cases hr : r ∈ seen
      · simp only [hr, if_true, Option.some.injEq] at h; subst h; exact List.Perm.refl _
      · simp only [hr, if_false] at h
        exact (ih (r :: seen) r q h).trans (hperm p r hi)

/-- with exact costs and the move-level contract of `improve` (every accepted tour strictly cheaper) the repaired loop
    behaves like the original one: a permutation with the same first node, cost not above the input's. (With f64 costs the
    accepted "gain" is a rounded sum; the cost clause is then decided by the oracle on the real output.) -/
theorem optimizeV_cost_nonincreasing (c : Nat → Nat → Int) (hsym : ∀ i j, c i j = c j i)
    (improve : List Nat → Option (List Nat))
    (hc : ∀ p q, p.Nodup → improve p = some q → Lkh.Improves c p q) :
    ∀ (fuel : Nat) (seen : List (List Nat)) (p q : List Nat), p.Nodup → optimizeV improve fuel seen p = some q →
      q.Perm p ∧ q.head? = p.head? ∧ Lkh.closedCost c q ≤ Lkh.closedCost c p := by
  intro fuel
  induction fuel with
  | zero => intro seen p q _ h; simp [optimizeV] at h
  | succ f ih =>
    intro seen p q hnd h
    simp only [optimizeV] at h
    cases hi : improve p with
    | none =>
      simp only [hi, Option.some.injEq] at h; subst h
      exact ⟨List.Perm.refl _, rfl, Int.le_refl _⟩
    | some r =>
      simp only [hi] at h
      by_cases hr : r ∈ seen
      · simp only [hr, if_true, Option.some.injEq] at h; subst h
        exact ⟨List.Perm.refl _, rfl, Int.le_refl _⟩
      · simp only [hr, if_false] at h
        obtain ⟨h1, h2, h3⟩ := Lkh.improves_sound c hsym p r hnd (hc p r hnd hi)
        obtain ⟨g1, g2, g3⟩ := ih (r :: seen) r q (h1.nodup_iff.mpr hnd) h
        exact ⟨g1.trans h1, g2.trans h2, by omega⟩

/-- the S50 shape: an `improve` that swaps two tours back and forth (both "gains" rounding-positive). The loop without
    memory never returns - for every fuel the result is `none` -, the repaired loop returns after two rounds -/
def flip (p : List Nat) : Option (List Nat) :=
  if p = [0, 1, 2, 3, 4] then some [0, 1, 3, 2, 4] else if p = [0, 1, 3, 2, 4] then some [0, 1, 2, 3, 4] else none

def optimizeNoMemory (improve : List Nat → Option (List Nat)) : Nat → List Nat → Option (List Nat)
  | 0, _ => none
  | fuel + 1, p => match improve p with
    | none => some p
    | some q => optimizeNoMemory improve fuel q

theorem noMemory_cycles : ∀ fuel, optimizeNoMemory flip fuel [0, 1, 2, 3, 4] = none ∧
    optimizeNoMemory flip fuel [0, 1, 3, 2, 4] = none := by
  intro fuel
  induction fuel with
  | zero => exact ⟨rfl, rfl⟩
  | succ f ih =>
    constructor
    · show optimizeNoMemory flip f [0, 1, 3, 2, 4] = none
      exact ih.2
    · show optimizeNoMemory flip f [0, 1, 2, 3, 4] = none
      exact ih.1

example : optimizeV flip 3 [[0, 1, 2, 3, 4]] [0, 1, 2, 3, 4] = some [0, 1, 3, 2, 4] := by decide

end C17.LkhVisited
