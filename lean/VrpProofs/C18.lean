import VrpModel.C18
import VrpProofs.C18.Slot
import VrpProofs.C18.Select
import VrpProofs.C18.Reward
import VrpProofs.C18.Termination
import VrpProofs.C18.Sample
import VrpProofs.C18.Period
import VrpProofs.C18.Remedian
import Mathlib.Tactic.Linarith
/-!
# C18 — adaptive operator selection and termination math stay numerically sane (partial: exact arithmetic)

Property theorems (all for unbounded histories / list lengths, over exact rationals):

* `slot_inv`, `slot_beta_monotone`, `slot_beta_welford`, `sample_guard`    (VrpProofs/C18/Slot.lean)
* `argmax_in_range`, `argmax_mem_argmaxSet`, `weighted_in_range`           (VrpProofs/C18/Select.lean)
* `reward_range`, `reward_range_any_sign`, `reward_documented_range_single_objective`,
  `reward_documented_range_fails` (S26), `perf_range`, `final_reward_range`, `relDistance_sign`,
  `reward_pos_iff_improves_parent`                                         (VrpProofs/C18/Reward.lean)
* `maxGen_estimate_in_unit_interval`, `maxGen_estimate_one_iff_stop`, `composite_estimate_in_unit_interval`,
  `targetStop_iff_distance_below`, `cvGt_iff_sqrt`, `cvGt_eq_not_spec`     (VrpProofs/C18/Termination.lean)
* `variation_fires_iff_sample`, `variation_fires_iff_sample_cv`            (VrpProofs/C18/Sample.lean)
* `periodStep_eq_window`, `variation_fires_iff_period`                     (VrpProofs/C18/Period.lean)
* `remedian_count_bounded`, `remedian_median_is_observation`               (VrpProofs/C18/Remedian.lean)
* below: `variation_fires_iff_period_cv`, `selectionSampling_spec`, `rangeSampling_spec`, `noise_identity_without_hit`

What the exact model cannot exhibit (the reason this property is partial for this technique): `f64` rounding,
overflow to `±∞`, NaN. The harness evaluates the same invariants on the real `f64` values.
-/
set_option linter.unusedSimpArgs false
set_option linter.unusedVariables false
set_option linter.unnecessarySeqFocus false
set_option linter.unreachableTactic false
set_option linter.unusedTactic false

namespace C18

/-- **variation_fires_iff (period mode), in the property's words** — the call fires iff at least `period` has elapsed,
    at least two samples are recorded and, for every objective, the coefficient of variation over the window (samples
    not older than the period, extended to the two most recent) is not above the non-negative threshold -/
theorem variation_fires_iff_period_cv (dec : List Sample → List Sample) (period : Nat) (th : Rat) (hth : 0 ≤ th)
    (hist : List Sample) (e : Nat) (f : List Rat) (hs : TimeSorted (hist ++ [(e, f)])) (hlen : hist.length < 1000) :
    (periodStep dec period th (periodState dec period th hist) e f).2 = true ↔
      period ≤ e ∧ 2 ≤ (hist ++ [(e, f)]).length ∧
      ∀ idx, (∃ r ∈ (periodWindow period (hist ++ [(e, f)]) e).map (·.2), idx < r.length) →
        cvLeSpec (column ((periodWindow period (hist ++ [(e, f)]) e).map (·.2)) idx) th = true := by
  rw [variation_fires_iff_period dec period th hist e f hs hlen]
  unfold periodSpec
  by_cases hc : e < period ∨ (hist ++ [(e, f)]).length < 2
  · rw [if_pos hc]
    constructor
    · intro h; cases h
    · rintro ⟨h1, h2, _⟩; rcases hc with h | h <;> omega
  · rw [if_neg hc, checkThreshold_iff]
    constructor
    · intro h
      refine ⟨by omega, by omega, fun idx hi => ?_⟩
      have := h idx hi
      rw [cvGt_eq_not_spec _ _ hth] at this
      simpa using this
    · rintro ⟨_, _, h⟩ idx hi
      rw [cvGt_eq_not_spec _ _ hth, h idx hi]; rfl

/-- **selection sampling (Algorithm S)** — whatever the random outcomes, the iterator yields exactly
    `min amount size` items of `0 .. size`, in increasing order, each at most once -/
theorem selectionSampling_spec (size : Nat) : ∀ (fuel processed needed : Nat) (hits : List Bool), size - processed ≤ fuel →
    (selectionSampling size fuel processed needed hits).length = min needed (size - processed) ∧
    (∀ x ∈ selectionSampling size fuel processed needed hits, processed ≤ x ∧ x < size) ∧
    (selectionSampling size fuel processed needed hits).Pairwise (· < ·)
  | 0, processed, needed, hits, h => by
    simp only [selectionSampling]
    refine ⟨by simp; omega, by simp, by simp⟩
  | fuel + 1, processed, needed, hits, h => by
    simp only [selectionSampling]
    by_cases hc : needed ≠ 0 ∧ size > processed
    · rw [if_pos hc]
      by_cases hh : (if size - processed ≤ needed then true else hits.headD true) = true
      · rw [if_pos hh]
        obtain ⟨i1, i2, i3⟩ := selectionSampling_spec size fuel (processed + 1) (needed - 1) hits.tail (by omega)
        refine ⟨by simp only [List.length_cons, i1]; omega, ?_, ?_⟩
        · intro x hx
          simp only [List.mem_cons] at hx
          rcases hx with rfl | hx
          · omega
          · have := i2 x hx; omega
        · rw [List.pairwise_cons]
          exact ⟨fun y hy => by have := i2 y hy; omega, i3⟩
      · rw [if_neg hh]
        have hlt : ¬ size - processed ≤ needed := by
          intro hle; apply hh; rw [if_pos hle]
        obtain ⟨i1, i2, i3⟩ := selectionSampling_spec size fuel (processed + 1) needed hits.tail (by omega)
        refine ⟨by rw [i1]; omega, ?_, i3⟩
        intro x hx
        have := i2 x hx; omega
    · rw [if_neg hc]
      refine ⟨?_, by simp, by simp⟩
      simp only [List.length_nil]
      have : needed = 0 ∨ size ≤ processed := by
        by_cases h0 : needed = 0
        · exact Or.inl h0
        · right
          by_contra hgt
          exact hc ⟨h0, by omega⟩
      omega

/-- the harness calls the iterator with fuel `size + 1` -/
theorem selectionSampling_count (size amount : Nat) (hits : List Bool) :
    (selectionSampling size (size + 1) 0 amount hits).length = min amount size := by
  have := (selectionSampling_spec size (size + 1) 0 amount hits (by omega)).1
  simpa using this

/-- `create_range_sampling_iter`: a contiguous chunk of at most `sample_size` items inside the range -/
theorem rangeSampling_spec (size sampleSize pick : Nat) :
    (rangeSampling size sampleSize pick).length ≤ sampleSize ∧
    ∀ i (h : i < (rangeSampling size sampleSize pick).length),
      (rangeSampling size sampleSize pick)[i] = pick * sampleSize + i ∧ pick * sampleSize + i < size := by
  unfold rangeSampling
  refine ⟨by simp, ?_⟩
  intro i h
  have h' : i < sampleSize ∧ i < size - pick * sampleSize := by
    have := h
    simp only [List.length_take, List.length_drop, List.length_range] at this
    omega
  simp only [List.getElem_take, List.getElem_drop, List.getElem_range]
  generalize pick * sampleSize = k at *
  exact ⟨trivial, by omega⟩

/-- `Noise::generate` returns its argument unchanged without a hit -/
theorem noise_identity_without_hit (isAddition : Bool) (u value : Rat) : noiseGenerate isAddition false u value = value := by
  simp [noiseGenerate]

example : selectionSampling 10 11 0 3 [false, true, false, false, true] = [1, 4, 5] := by decide

end C18
