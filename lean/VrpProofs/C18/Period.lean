import VrpModel.C18
import Mathlib.Tactic.Linarith
import Mathlib.Data.List.Induction
/-!
# C18 — `MinVariation`, period mode: the position/drain arithmetic equals the declarative window (S27)
-/
set_option linter.unusedSimpArgs false
set_option linter.unusedVariables false
set_option linter.unnecessarySeqFocus false
set_option linter.unreachableTactic false
set_option linter.unusedTactic false

namespace C18

abbrev Sample := Nat × List Rat

/-- recorded times never decrease (the clock is monotone; the thinning path re-sorts) -/
def TimeSorted (l : List Sample) : Prop := l.Pairwise (fun a b => a.1 ≤ b.1)

/-- a time-sorted list splits into the samples older than `c` followed by the others -/
theorem sorted_split (c : Nat) : ∀ l : List Sample, TimeSorted l →
    ∃ outs ins, l = outs ++ ins ∧ (∀ x ∈ outs, x.1 < c) ∧ (∀ x ∈ ins, ¬ x.1 < c)
  | [], _ => ⟨[], [], rfl, by simp, by simp⟩
  | x :: xs, h => by
    have hx : ∀ y ∈ xs, x.1 ≤ y.1 := (List.pairwise_cons.mp h).1
    have hxs : TimeSorted xs := (List.pairwise_cons.mp h).2
    by_cases hP : x.1 < c
    · obtain ⟨outs, ins, he, ho, hi⟩ := sorted_split c xs hxs
      refine ⟨x :: outs, ins, by simp [he], ?_, hi⟩
      intro y hy
      simp only [List.mem_cons] at hy
      rcases hy with rfl | hy
      · exact hP
      · exact ho y hy
    · refine ⟨[], x :: xs, rfl, by simp, ?_⟩
      intro y hy
      simp only [List.mem_cons] at hy
      rcases hy with rfl | hy
      · exact hP
      · have := hx y hy; omega

theorem rev_findIdx (P : Sample → Bool) (outs ins : List Sample) (ho : ∀ x ∈ outs, P x = true)
    (hi : ∀ x ∈ ins, P x = false) :
    (outs ++ ins).reverse.findIdx? P = if outs = [] then none else some ins.length := by
  rw [List.reverse_append, List.findIdx?_append]
  have h1 : List.findIdx? P ins.reverse = none := by
    rw [List.findIdx?_eq_none_iff]
    intro x hx
    exact hi x (List.mem_reverse.mp hx)
  rw [h1]
  cases hr : outs.reverse with
  | nil =>
    have : outs = [] := by simpa using hr
    simp [this]
  | cons y ys =>
    have hy : y ∈ outs := by
      have : y ∈ outs.reverse := by rw [hr]; simp
      exact List.mem_reverse.mp this
    have hne : outs ≠ [] := by intro hc; subst hc; simp at hr
    simp [List.findIdx?_cons, ho y hy, hne]

/-- the SPEC window is a suffix of the recorded samples; everything before it is older than the period; it keeps at
    least two samples when two exist -/
theorem periodWindow_suffix (period e : Nat) (f : List Rat) (vals : List Sample)
    (hs : TimeSorted (vals ++ [(e, f)])) (hp : period ≤ e) :
    ∃ d, vals ++ [(e, f)] = d ++ periodWindow period (vals ++ [(e, f)]) e ∧ (∀ x ∈ d, x.1 + period < e) ∧
      (2 ≤ (vals ++ [(e, f)]).length → 2 ≤ (periodWindow period (vals ++ [(e, f)]) e).length) := by
  obtain ⟨outs, ins, he, ho, hi⟩ := sorted_split (e - period) _ hs
  have hfilter : (vals ++ [(e, f)]).filter (fun p => decide (e - period ≤ p.1)) = ins := by
    rw [he, List.filter_append]
    have h1 : outs.filter (fun p => decide (e - period ≤ p.1)) = [] := by
      rw [List.filter_eq_nil_iff]; intro x hx; have := ho x hx; simp; omega
    have h2 : ins.filter (fun p => decide (e - period ≤ p.1)) = ins := by
      rw [List.filter_eq_self]; intro x hx; have := hi x hx; simp; omega
    rw [h1, h2]; rfl
  unfold periodWindow
  simp only [hfilter]
  split
  · rename_i hlt
    refine ⟨(vals ++ [(e, f)]).take ((vals ++ [(e, f)]).length - 2), (List.take_append_drop _ _).symm, ?_, ?_⟩
    · intro x hx
      -- fewer than two inside: the first `len - 2` samples are all among the old ones
      have hsub : (vals ++ [(e, f)]).take ((vals ++ [(e, f)]).length - 2) = outs.take ((vals ++ [(e, f)]).length - 2) := by
        rw [he, List.take_append_of_le_length]
        rw [he] at *
        simp only [List.length_append] at *
        omega
      rw [hsub] at hx
      have := ho x (List.mem_of_mem_take hx)
      omega
    · intro h2; simp only [List.length_drop]; omega
  · rename_i hge
    refine ⟨outs, he, ?_, fun _ => by omega⟩
    intro x hx; have := ho x hx; omega

/-- **one step**: when no thinning happens, `update_and_check` in period mode keeps exactly the SPEC window and
    answers with the threshold check on it — the `position` arithmetic (three `match` arms, `drain`) is the
    declarative "in-period samples, extended to the two most recent" -/
theorem periodStep_eq_window (dec : List Sample → List Sample) (period : Nat) (th : Rat) (vals : List Sample)
    (e : Nat) (f : List Rat) (hs : TimeSorted (vals ++ [(e, f)])) (hlen : vals.length < 1000) :
    periodStep dec period th vals e f =
      if e < period ∨ (vals ++ [(e, f)]).length < 2 then (vals ++ [(e, f)], false)
      else (periodWindow period (vals ++ [(e, f)]) e,
            checkThreshold ((periodWindow period (vals ++ [(e, f)]) e).map (·.2)) th) := by
  have hnd : ¬ (vals ++ [(e, f)]).length > 1000 := by simp; omega
  unfold periodStep
  simp only [hnd, if_false]
  by_cases hc : e < period ∨ (vals ++ [(e, f)]).length < 2
  · have hc' : period > e ∨ (vals ++ [(e, f)]).length < 2 := by rcases hc with h | h; exact Or.inl h; exact Or.inr h
    rw [if_pos hc', if_pos hc]
  · have hc' : ¬ (period > e ∨ (vals ++ [(e, f)]).length < 2) := by
      intro h; apply hc; rcases h with h | h; exact Or.inl h; exact Or.inr h
    rw [if_neg hc', if_neg hc]
    have hp : period ≤ e := by omega
    have hl2 : 2 ≤ (vals ++ [(e, f)]).length := by omega
    obtain ⟨outs, ins, he, ho, hi⟩ := sorted_split (e - period) _ hs
    have hfind := rev_findIdx (fun p => decide (p.1 < e - period)) outs ins
      (by intro x hx; simpa using ho x hx) (by intro x hx; simpa using hi x hx)
    have hfilter : (vals ++ [(e, f)]).filter (fun p => decide (e - period ≤ p.1)) = ins := by
      rw [he, List.filter_append]
      have h1 : outs.filter (fun p => decide (e - period ≤ p.1)) = [] := by
        rw [List.filter_eq_nil_iff]; intro x hx; have := ho x hx; simp; omega
      have h2 : ins.filter (fun p => decide (e - period ≤ p.1)) = ins := by
        rw [List.filter_eq_self]; intro x hx; have := hi x hx; simp; omega
      rw [h1, h2]; rfl
    -- the position
    have hwin : List.drop (periodPosition (vals ++ [(e, f)]) (e - period)) (vals ++ [(e, f)]) =
        periodWindow period (vals ++ [(e, f)]) e := by
      unfold periodPosition
      unfold periodWindow
      simp only [hfilter]
      rw [he] at hl2 ⊢
      rw [hfind]
      by_cases hout : outs = []
      · subst hout
        simp only [if_true, List.nil_append, List.drop_zero] at hl2 ⊢
        rw [if_neg (by omega)]
      · simp only [hout, if_false]
        by_cases hp2 : ins.length < 2
        · by_cases hl3 : (outs ++ ins).length < 3
          · have : (outs ++ ins).length - 2 = 0 := by omega
            simp only [hp2, hl3, and_self, if_true, this]
          · simp only [hp2, hl3, and_false, if_false, if_true]
        · simp only [hp2, false_and, if_false]
          have : (outs ++ ins).length - ins.length = outs.length := by simp
          rw [this, List.drop_left]
    simp only [hwin]

/-- the answer of one step is the SPEC -/
theorem periodStep_fires_iff_spec (dec : List Sample → List Sample) (period : Nat) (th : Rat) (vals : List Sample)
    (e : Nat) (f : List Rat) (hs : TimeSorted (vals ++ [(e, f)])) (hlen : vals.length < 1000) :
    (periodStep dec period th vals e f).2 = periodSpec period th (vals ++ [(e, f)]) e := by
  rw [periodStep_eq_window dec period th vals e f hs hlen]
  unfold periodSpec
  split <;> rfl

/-! ### whole histories: the drained store answers like the full history -/

/-- the store after feeding a history (`[]` before the first call) -/
def periodState (dec : List Sample → List Sample) (period : Nat) (th : Rat) (hist : List Sample) : List Sample :=
  hist.foldl (fun st x => (periodStep dec period th st x.1 x.2).1) []

theorem periodState_snoc (dec : List Sample → List Sample) (period : Nat) (th : Rat) (hist : List Sample) (x : Sample) :
    periodState dec period th (hist ++ [x]) = (periodStep dec period th (periodState dec period th hist) x.1 x.2).1 := by
  simp [periodState, List.foldl_append]

/-- the store is the history minus a prefix of samples that are (and stay) older than the period -/
def StoreInv (period : Nat) (hist st : List Sample) : Prop :=
  ∃ dropped, hist = dropped ++ st ∧ (hist ≠ [] → st ≠ []) ∧
    ∀ x ∈ dropped, ∀ l, hist.getLast? = some l → x.1 + period < l.1

theorem TimeSorted.of_append_right {a b : List Sample} (h : TimeSorted (a ++ b)) : TimeSorted b :=
  (List.pairwise_append.mp h).2.1

theorem storeInv_step (dec : List Sample → List Sample) (period : Nat) (th : Rat) (hist st : List Sample)
    (e : Nat) (f : List Rat) (hinv : StoreInv period hist st) (hs : TimeSorted (hist ++ [(e, f)]))
    (hlen : hist.length < 1000) :
    StoreInv period (hist ++ [(e, f)]) (periodStep dec period th st e f).1 ∧
    (periodStep dec period th st e f).2 = periodSpec period th (hist ++ [(e, f)]) e := by
  obtain ⟨dropped, hd, hne, hold⟩ := hinv
  have hs' : TimeSorted (st ++ [(e, f)]) := by
    rw [hd, List.append_assoc] at hs; exact hs.of_append_right
  have hstlen : st.length < 1000 := by rw [hd] at hlen; simp at hlen; omega
  have hstep := periodStep_eq_window dec period th st e f hs' hstlen
  -- older dropped samples stay out of the period
  have hold' : ∀ x ∈ dropped, x.1 + period < e := by
    intro x hx
    by_cases hh : hist = []
    · subst hh; simp at hd; rw [hd.1] at hx; simp at hx
    · obtain ⟨l, hl⟩ : ∃ l, hist.getLast? = some l := by
        cases h : hist.getLast? with
        | none => simp [List.getLast?_eq_none_iff] at h; exact absurd h hh
        | some l => exact ⟨l, rfl⟩
      have h1 := hold x hx l hl
      have hlmem : l ∈ hist := List.mem_of_getLast? hl
      have h2 : l.1 ≤ e := by
        have := (List.pairwise_append.mp hs).2.2 l hlmem (e, f) (by simp)
        simpa using this
      omega
  have hlast : (hist ++ [(e, f)]).getLast? = some (e, f) := by simp
  have hlen_eq : ((hist ++ [(e, f)]).length < 2) ↔ ((st ++ [(e, f)]).length < 2) := by
    simp only [List.length_append, List.length_singleton]
    constructor
    · intro h
      have : hist = [] := by apply List.eq_nil_of_length_eq_zero; omega
      rw [this] at hd
      have : st = [] := by
        have := congrArg List.length hd; simp at this; apply List.eq_nil_of_length_eq_zero; omega
      simp [this]
    · intro h
      have : st = [] := by apply List.eq_nil_of_length_eq_zero; omega
      have : hist = [] := by
        by_contra hc; exact hne hc this
      simp [this]
  by_cases hc : e < period ∨ (st ++ [(e, f)]).length < 2
  · rw [hstep, if_pos hc]
    refine ⟨⟨dropped, by rw [hd]; simp, by simp, ?_⟩, ?_⟩
    · intro x hx l hl
      rw [hlast] at hl; cases hl
      exact hold' x hx
    · unfold periodSpec
      rw [if_pos]
      rcases hc with h | h
      · exact Or.inl h
      · exact Or.inr (hlen_eq.mpr h)
  · rw [hstep, if_neg hc]
    have hp : period ≤ e := by omega
    have hl2 : 2 ≤ (st ++ [(e, f)]).length := by omega
    obtain ⟨d, hde, hdold, hkeep⟩ := periodWindow_suffix period e f st hs' hp
    -- the SPEC window over the whole history is the window over the store
    have hwin : periodWindow period (hist ++ [(e, f)]) e = periodWindow period (st ++ [(e, f)]) e := by
      have hall : hist ++ [(e, f)] = dropped ++ (st ++ [(e, f)]) := by rw [hd]; simp
      unfold periodWindow
      rw [hall, List.filter_append]
      have h1 : dropped.filter (fun p => decide (e - period ≤ p.1)) = [] := by
        rw [List.filter_eq_nil_iff]; intro x hx; have := hold' x hx; simp; omega
      rw [h1, List.nil_append]
      dsimp only
      split
      · have : (dropped ++ (st ++ [(e, f)])).length - 2 = dropped.length + ((st ++ [(e, f)]).length - 2) := by
          simp only [List.length_append] at hl2 ⊢; omega
        rw [this, List.drop_append]
        have h0 : List.drop (dropped.length + ((st ++ [(e, f)]).length - 2)) dropped = [] := by
          apply List.drop_eq_nil_of_le; omega
        rw [h0, List.nil_append]
        congr 1
        omega
      · rfl
    refine ⟨⟨dropped ++ d, ?_, ?_, ?_⟩, ?_⟩
    · rw [List.append_assoc, ← hde, hd]; simp
    · intro _ hcon
      have := hkeep hl2
      simp only at hcon
      rw [hcon] at this; simp at this
    · intro x hx l hl
      rw [hlast] at hl; cases hl
      simp only [List.mem_append] at hx
      rcases hx with hx | hx
      · exact hold' x hx
      · exact hdold x hx
    · unfold periodSpec
      rw [if_neg (by intro h; apply hc; rcases h with h | h; exact Or.inl h; exact Or.inr (hlen_eq.mp h))]
      simp only [hwin]

theorem storeInv_run (dec : List Sample → List Sample) (period : Nat) (th : Rat) (hist : List Sample)
    (hs : TimeSorted hist) (hlen : hist.length ≤ 1000) : StoreInv period hist (periodState dec period th hist) := by
  induction hist using List.reverseRecOn with
  | nil => exact ⟨[], rfl, by simp, by simp⟩
  | append_singleton hist x ih =>
    have hs0 : TimeSorted hist := (List.pairwise_append.mp hs).1
    have hl0 : hist.length < 1000 := by simp at hlen; omega
    rw [periodState_snoc]
    exact (storeInv_step dec period th hist _ x.1 x.2 (ih hs0 (by omega)) hs hl0).1

/-- **variation_fires_iff (period mode)** — for EVERY history of at most 1000 recorded samples with non-decreasing
    times, the call that records `(elapsed, fitness)` answers exactly the SPEC evaluated on the WHOLE history: silent
    while `elapsed < period` or fewer than two samples exist; otherwise the threshold check over the samples not older
    than the period, extended to the two most recent when fewer than two are inside. The drained store never changes
    an answer. (Above 1000 samples the code thins the store at random — outside this theorem.) -/
theorem variation_fires_iff_period (dec : List Sample → List Sample) (period : Nat) (th : Rat) (hist : List Sample)
    (e : Nat) (f : List Rat) (hs : TimeSorted (hist ++ [(e, f)])) (hlen : hist.length < 1000) :
    (periodStep dec period th (periodState dec period th hist) e f).2 = periodSpec period th (hist ++ [(e, f)]) e := by
  have hs0 : TimeSorted hist := (List.pairwise_append.mp hs).1
  exact (storeInv_step dec period th hist _ e f (storeInv_run dec period th hist hs0 (by omega)) hs hlen).2

/-- S27 history (fitness 1000, 500, 1 at 0 s, 1.2 s, 2.4 s; period 1 s, threshold 0.01): the third call sees one sample
    inside the period, the window is extended to the two most recent ones and the criterion stays silent -/
example : (periodStep id 1000 (1 / 100) (periodState id 1000 (1 / 100) [(0, [1000]), (1200, [500])]) 2400 [1]).2 = false := by
  decide +kernel

example : periodWindow 1000 [(0, [1000]), (1200, [500]), (2400, [1])] 2400 = [(1200, [500]), (2400, [1])] := by
  decide +kernel

end C18
