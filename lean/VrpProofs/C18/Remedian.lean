import VrpModel.C18
import Mathlib.Tactic.Linarith
import Mathlib.Tactic.Ring
import Mathlib.Data.List.Induction
/-!
# C18 — `Remedian`: the buffers always stand for exactly `count` observations, `count ≤ base ^ exponent`
-/
set_option linter.unusedSimpArgs false
set_option linter.unusedVariables false
set_option linter.unnecessarySeqFocus false
set_option linter.unreachableTactic false
set_option linter.unusedTactic false

namespace C18

/-- the shape after the last buffer filled up: everything below is empty, the last buffer holds `base` medians -/
def FullShape (base : Nat) (bufs : List (List Nat)) : Prop :=
  ∃ pre last, bufs = pre ++ [last] ∧ (∀ b ∈ pre, b = []) ∧ last.length = base

theorem sortNat_length (l : List Nat) : (sortNat l).length = l.length := by
  simp [sortNat, List.length_mergeSort]

theorem sortNat_mem (l : List Nat) (x : Nat) : x ∈ sortNat l ↔ x ∈ l := by
  simp [sortNat, List.mem_mergeSort]

theorem FullShape.cons_nil {base : Nat} {bufs : List (List Nat)} (h : FullShape base bufs) : FullShape base ([] :: bufs) := by
  obtain ⟨pre, last, he, hp, hl⟩ := h
  refine ⟨[] :: pre, last, by simp [he], ?_, hl⟩
  intro b hb
  simp only [List.mem_cons] at hb
  rcases hb with rfl | hb
  · rfl
  · exact hp b hb

/-- the loop of `add_observation` keeps the number of buffers and the weighted number of observations, and ends either
    with every buffer below `base` elements or in the full shape -/
theorem cascade_spec (base : Nat) (hb : 0 < base) : ∀ (n : Nat) (bufs : List (List Nat)) (lvl : Nat), bufs.length = n →
    (∀ h rest, bufs = h :: rest → h.length ≤ base ∧ ∀ b ∈ rest, b.length < base) →
    (cascade base bufs).1.length = bufs.length ∧
    weightSum base lvl (cascade base bufs).1 = weightSum base lvl bufs ∧
    (∀ y ∈ (cascade base bufs).1.flatten, y ∈ bufs.flatten) ∧
    (((cascade base bufs).2 = false ∧ ∀ b ∈ (cascade base bufs).1, b.length < base) ∨
     ((cascade base bufs).2 = true ∧ FullShape base (cascade base bufs).1))
  | _, [], lvl, _, _ => by simp [cascade]
  | _, [b], lvl, _, hpre => by
    have hle := (hpre b [] rfl).1
    by_cases h : b.length = base
    · rw [cascade, if_pos h]
      refine ⟨by simp, by simp [weightSum, sortNat_length], ?_, Or.inr ⟨rfl, [], sortNat b, rfl, by simp, by rw [sortNat_length, h]⟩⟩
      intro y hy; simpa [sortNat_mem] using hy
    · rw [cascade, if_neg h]
      refine ⟨by simp, by simp, fun y hy => hy, Or.inl ⟨rfl, ?_⟩⟩
      intro b' hb'; simp at hb'; subst hb'; omega
  | n + 1, b :: b2 :: rest, lvl, hn, hpre => by
    have hp := hpre b (b2 :: rest) rfl
    by_cases h : b.length = base
    · have hb2 : b2.length < base := hp.2 b2 (by simp)
      have hrec := cascade_spec base hb n ((b2 ++ [(sortNat b).getD (base / 2) 0]) :: rest) (lvl + 1)
        (by simp at hn ⊢; omega)
        (by
          intro h' rest' he
          simp only [List.cons.injEq] at he
          obtain ⟨rfl, rfl⟩ := he
          exact ⟨by simp; omega, fun b' hb' => hp.2 b' (by simp [hb'])⟩)
      obtain ⟨h1, h2, h3, h4⟩ := hrec
      have hmed : (sortNat b).getD (base / 2) 0 ∈ b := by
        rw [← sortNat_mem]
        have hlt : base / 2 < (sortNat b).length := by rw [sortNat_length, h]; exact Nat.div_lt_self hb (by omega)
        rw [List.getD_eq_getElem?_getD, List.getElem?_eq_getElem hlt]
        simp
      rw [cascade, if_pos h]
      refine ⟨by rw [List.length_cons, h1]; simp, ?_, ?_, ?_⟩
      · simp only [weightSum, List.length_nil, Nat.zero_mul, Nat.zero_add, h2, List.length_append, List.length_singleton, h]
        rw [Nat.pow_succ base lvl]; ring
      · intro y hy
        simp only [List.flatten_cons, List.nil_append] at hy
        have := h3 y hy
        simp only [List.flatten_cons, List.mem_append, List.mem_singleton] at this ⊢
        rcases this with (h' | h') | h'
        · exact Or.inr (Or.inl h')
        · subst h'; exact Or.inl hmed
        · exact Or.inr (Or.inr h')
      · rcases h4 with ⟨hf, hall⟩ | ⟨hf, hfull⟩
        · left
          refine ⟨hf, ?_⟩
          intro b' hb'
          simp only [List.mem_cons] at hb'
          rcases hb' with rfl | hb'
          · simpa using hb
          · exact hall b' hb'
        · right; exact ⟨hf, hfull.cons_nil⟩
    · rw [cascade, if_neg h]
      refine ⟨rfl, rfl, fun y hy => hy, Or.inl ⟨rfl, ?_⟩⟩
      intro b' hb'
      simp only [List.mem_cons] at hb'
      rcases hb' with rfl | hb'
      · omega
      · exact hp.2 b' (by simp only [List.mem_cons]; exact hb')

theorem weightSum_below (base : Nat) (hb : 0 < base) : ∀ (bufs : List (List Nat)) (lvl : Nat),
    (∀ b ∈ bufs, b.length < base) → weightSum base lvl bufs + base ^ lvl ≤ base ^ (lvl + bufs.length)
  | [], lvl, _ => by simp [weightSum]
  | b :: rest, lvl, h => by
    have ih := weightSum_below base hb rest (lvl + 1) (fun b' hb' => h b' (by simp [hb']))
    have hbl : b.length + 1 ≤ base := h b (by simp)
    simp only [weightSum, List.length_cons]
    have e1 : base ^ (lvl + 1) = base ^ lvl * base := Nat.pow_succ base lvl
    have e2 : lvl + (rest.length + 1) = lvl + 1 + rest.length := by omega
    rw [e2]
    have : (b.length + 1) * base ^ lvl ≤ base * base ^ lvl := Nat.mul_le_mul_right _ hbl
    nlinarith

theorem weightSum_full (base : Nat) : ∀ (pre : List (List Nat)) (last : List Nat) (lvl : Nat), (∀ b ∈ pre, b = []) →
    weightSum base lvl (pre ++ [last]) = last.length * base ^ (lvl + pre.length)
  | [], last, lvl, _ => by simp [weightSum]
  | b :: pre, last, lvl, h => by
    have hb : b = [] := h b (by simp)
    have ih := weightSum_full base pre last (lvl + 1) (fun b' hb' => h b' (by simp [hb']))
    subst hb
    simp only [List.cons_append, weightSum, List.length_nil, Nat.zero_mul, Nat.zero_add, ih, List.length_cons]
    congr 2; omega

/-- the invariant of every reachable estimator state -/
structure Remedian.Inv (r : Remedian) : Prop where
  len : r.buffers.length = r.exponent
  weight : r.count = weightSum r.base 0 r.buffers
  shape : (r.isFull = false ∧ ∀ b ∈ r.buffers, b.length < r.base) ∨ (r.isFull = true ∧ FullShape r.base r.buffers)

theorem weightSum_replicate_nil (base : Nat) : ∀ (e lvl : Nat), weightSum base lvl (List.replicate e []) = 0
  | 0, _ => by simp [weightSum]
  | e + 1, lvl => by simp [List.replicate_succ, weightSum, weightSum_replicate_nil base e (lvl + 1)]

theorem Remedian.new_inv (base exponent : Nat) (hb : 0 < base) : (Remedian.new base exponent).Inv := by
  refine ⟨by simp [Remedian.new], ?_, Or.inl ⟨rfl, ?_⟩⟩
  · simp only [Remedian.new, weightSum_replicate_nil]
  · intro b hb'
    simp only [Remedian.new, List.mem_replicate] at hb'
    rw [hb'.2]
    exact hb

theorem Remedian.add_fields (r : Remedian) (x : Nat) :
    (r.add x).1.base = r.base ∧ (r.add x).1.exponent = r.exponent := by
  unfold Remedian.add
  split
  · exact ⟨rfl, rfl⟩
  · split <;> exact ⟨rfl, rfl⟩

theorem Remedian.add_inv (r : Remedian) (x : Nat) (hb : 0 < r.base) (he : 0 < r.exponent) (h : r.Inv) :
    (r.add x).1.Inv ∧ (∀ y ∈ (r.add x).1.buffers.flatten, y = x ∨ y ∈ r.buffers.flatten) ∧
    (r.isFull = true → r.add x = (r, false)) ∧
    (r.isFull = false → (r.add x).2 = true ∧ (r.add x).1.count = r.count + 1) := by
  obtain ⟨hlen, hw, hshape⟩ := h
  by_cases hf : r.isFull = true
  · have : r.add x = (r, false) := by simp [Remedian.add, hf]
    rw [this]
    exact ⟨⟨hlen, hw, hshape⟩, fun y hy => Or.inr hy, fun _ => rfl, fun h' => by simp [hf] at h'⟩
  · have hf' : r.isFull = false := by simpa using hf
    have hbelow : ∀ b ∈ r.buffers, b.length < r.base := by
      rcases hshape with ⟨_, hall⟩ | ⟨hc, _⟩
      · exact hall
      · simp [hf'] at hc
    cases hbufs : r.buffers with
    | nil => rw [hbufs] at hlen; simp at hlen; omega
    | cons b rest =>
      have hpre : ∀ h' rest', (b ++ [x]) :: rest = h' :: rest' → h'.length ≤ r.base ∧ ∀ b' ∈ rest', b'.length < r.base := by
        intro h' rest' heq
        simp only [List.cons.injEq] at heq
        obtain ⟨rfl, rfl⟩ := heq
        have := hbelow b (by rw [hbufs]; simp)
        exact ⟨by simp; omega, fun b' hb' => hbelow b' (by rw [hbufs]; simp [hb'])⟩
      obtain ⟨c1, c2, c3, c4⟩ := cascade_spec r.base hb _ ((b ++ [x]) :: rest) 0 rfl hpre
      have a1 : (r.add x).1.buffers = (cascade r.base ((b ++ [x]) :: rest)).1 := by simp [Remedian.add, hf', hbufs]
      have a2 : (r.add x).1.isFull = (cascade r.base ((b ++ [x]) :: rest)).2 := by simp [Remedian.add, hf', hbufs]
      have a3 : (r.add x).1.count = r.count + 1 := by simp [Remedian.add, hf', hbufs]
      have a4 : (r.add x).2 = true := by simp [Remedian.add, hf', hbufs]
      have a5 := Remedian.add_fields r x
      refine ⟨⟨?_, ?_, ?_⟩, ?_, fun h' => by simp [hf'] at h', fun _ => ⟨a4, a3⟩⟩
      · rw [a1, a5.2, c1, ← hlen, hbufs]; simp
      · rw [a1, a3, a5.1, c2, hw, hbufs]
        simp only [weightSum, List.length_append, List.length_singleton]
        ring
      · rw [a1, a2, a5.1]
        rcases c4 with ⟨hc, hall⟩ | ⟨hc, hfull⟩
        · exact Or.inl ⟨hc, hall⟩
        · exact Or.inr ⟨hc, hfull⟩
      · intro y hy
        rw [a1] at hy
        have := c3 y hy
        simp only [List.flatten_cons, List.mem_append, List.mem_singleton] at this
        rcases this with (h' | h') | h'
        · right; simp [h']
        · exact Or.inl h'
        · right; simp [h']

/-- the state after a sequence of observations -/
def Remedian.feed (base exponent : Nat) (xs : List Nat) : Remedian :=
  xs.foldl (fun r x => (r.add x).1) (Remedian.new base exponent)

theorem Remedian.feed_snoc (base exponent : Nat) (xs : List Nat) (x : Nat) :
    Remedian.feed base exponent (xs ++ [x]) = ((Remedian.feed base exponent xs).add x).1 := by
  simp [Remedian.feed, List.foldl_append]

theorem Remedian.feed_fields (base exponent : Nat) (xs : List Nat) :
    (Remedian.feed base exponent xs).base = base ∧ (Remedian.feed base exponent xs).exponent = exponent := by
  induction xs using List.reverseRecOn with
  | nil => exact ⟨rfl, rfl⟩
  | append_singleton xs x ih =>
    rw [Remedian.feed_snoc]
    have := Remedian.add_fields (Remedian.feed base exponent xs) x
    exact ⟨this.1.trans ih.1, this.2.trans ih.2⟩

theorem Remedian.inv_count_le (r : Remedian) (hb : 0 < r.base) (h : r.Inv) :
    r.count ≤ r.base ^ r.exponent ∧ (r.isFull = true ↔ r.count = r.base ^ r.exponent) := by
  obtain ⟨hlen, hw, hshape⟩ := h
  rcases hshape with ⟨hf, hall⟩ | ⟨hf, pre, last, he, hp, hl⟩
  · have := weightSum_below r.base hb r.buffers 0 hall
    simp only [Nat.pow_zero, Nat.zero_add, hlen] at this
    rw [← hw] at this
    refine ⟨by omega, ?_⟩
    constructor
    · intro h'; simp [hf] at h'
    · intro h'; omega
  · have := weightSum_full r.base pre last 0 hp
    rw [← he, ← hw, hl, Nat.zero_add] at this
    have hlen' : pre.length + 1 = r.exponent := by rw [← hlen, he]; simp
    have hpow : r.base * r.base ^ pre.length = r.base ^ r.exponent := by rw [← hlen', Nat.pow_succ]; ring
    rw [hpow] at this
    exact ⟨by omega, fun _ => this, fun _ => hf⟩

/-- **remedian_count_bounded** — for EVERY observation sequence (base > 0, at least one buffer): the estimator has
    accepted exactly `min (number of observations) (base ^ exponent)` values, never more than its capacity; its buffers
    stand for exactly that many observations (weight `base ^ level` each); it is full exactly at capacity, and every
    value it holds is one of the observations -/
theorem remedian_count_bounded (base exponent : Nat) (hb : 0 < base) (he : 0 < exponent) (xs : List Nat) :
    (Remedian.feed base exponent xs).Inv ∧
    (Remedian.feed base exponent xs).count = min xs.length (base ^ exponent) ∧
    (Remedian.feed base exponent xs).count ≤ base ^ exponent ∧
    (Remedian.feed base exponent xs).count = weightSum base 0 (Remedian.feed base exponent xs).buffers ∧
    ((Remedian.feed base exponent xs).isFull = true ↔ (Remedian.feed base exponent xs).count = base ^ exponent) ∧
    (∀ y ∈ (Remedian.feed base exponent xs).buffers.flatten, y ∈ xs) := by
  induction xs using List.reverseRecOn with
  | nil =>
    have hinv := Remedian.new_inv base exponent hb
    have hc := Remedian.inv_count_le _ hb hinv
    have hpos : 0 < base ^ exponent := Nat.pow_pos hb
    refine ⟨hinv, ?_, hc.1, hinv.weight, hc.2, ?_⟩
    · simp [Remedian.feed, Remedian.new]
    · intro y hy
      simp [Remedian.feed, Remedian.new] at hy
  | append_singleton xs x ih =>
    obtain ⟨hinv, hcount, hle, _, hfull, hmem⟩ := ih
    have hfields := Remedian.feed_fields base exponent xs
    have hstep := Remedian.add_inv (Remedian.feed base exponent xs) x (by rw [hfields.1]; exact hb)
      (by rw [hfields.2]; exact he) hinv
    obtain ⟨hinv', hmem', hwhenfull, hwhennot⟩ := hstep
    have hfields' := Remedian.feed_fields base exponent (xs ++ [x])
    rw [Remedian.feed_snoc] at hfields' ⊢
    have hc' := Remedian.inv_count_le _ (by rw [hfields'.1]; exact hb) hinv'
    rw [hfields'.1, hfields'.2] at hc'
    have hw' := hinv'.weight
    rw [hfields'.1] at hw'
    refine ⟨hinv', ?_, hc'.1, hw', hc'.2, ?_⟩
    · by_cases hf : (Remedian.feed base exponent xs).isFull = true
      · rw [hwhenfull hf]
        have := hfull.mp hf
        simp only [List.length_append, List.length_singleton]
        omega
      · have hf' : (Remedian.feed base exponent xs).isFull = false := by simpa using hf
        rw [(hwhennot hf').2]
        have : (Remedian.feed base exponent xs).count ≠ base ^ exponent := fun hc => hf (hfull.mpr hc)
        simp only [List.length_append, List.length_singleton]
        omega
    · intro y hy
      rcases hmem' y hy with h' | h'
      · simp [h']
      · simp [hmem y h']


/-! ### the approximation is one of the observations -/

theorem pickMedian_mem (half : Nat) : ∀ (l : List (Nat × Nat)) (run m : Nat), pickMedian half run l = some m → ∃ w, (m, w) ∈ l
  | [], run, m, h => by simp [pickMedian] at h
  | (m', w) :: rest, run, m, h => by
    simp only [pickMedian] at h
    split at h
    · cases h; exact ⟨w, by simp⟩
    · obtain ⟨w', hw'⟩ := pickMedian_mem half rest _ m h
      exact ⟨w', by simp [hw']⟩

theorem pickMedian_some (half : Nat) : ∀ (l : List (Nat × Nat)) (run : Nat), l ≠ [] → half ≤ run + (l.map (·.2)).sum →
    ∃ m, pickMedian half run l = some m
  | [], _, h, _ => absurd rfl h
  | (m, w) :: rest, run, _, hs => by
    simp only [pickMedian]
    split
    · exact ⟨m, rfl⟩
    · rename_i hlt
      simp only [List.map_cons, List.sum_cons] at hs
      have hne : rest ≠ [] := by
        intro hc; subst hc; simp at hs; omega
      exact pickMedian_some half rest (run + w) hne (by omega)

theorem weightedMedians_mem (base : Nat) : ∀ (bufs : List (List Nat)) (lvl m w : Nat),
    (m, w) ∈ weightedMedians base lvl bufs → m ∈ bufs.flatten
  | [], _, _, _, h => by simp [weightedMedians] at h
  | b :: rest, lvl, m, w, h => by
    simp only [weightedMedians, List.mem_append, List.mem_map] at h
    rcases h with ⟨m', hm', he⟩ | h
    · simp only [Prod.mk.injEq] at he
      simp [← he.1, hm']
    · have := weightedMedians_mem base rest (lvl + 1) m w h
      simp [this]

theorem weightedMedians_sum (base : Nat) : ∀ (bufs : List (List Nat)) (lvl : Nat),
    ((weightedMedians base lvl bufs).map (·.2)).sum = weightSum base lvl bufs
  | [], _ => by simp [weightedMedians, weightSum]
  | b :: rest, lvl => by
    simp only [weightedMedians, weightSum, List.map_append, List.sum_append, weightedMedians_sum base rest (lvl + 1)]
    congr 1
    induction b with
    | nil => simp
    | cons x xs ih => simp only [List.map_cons, List.sum_cons, List.length_cons, ih]; ring

/-- **the median approximation is available after the first observation and is always one of the observations** -/
theorem remedian_median_is_observation (base exponent : Nat) (hb : 0 < base) (he : 0 < exponent) (xs : List Nat)
    (hne : xs ≠ []) : ∃ m, (Remedian.feed base exponent xs).approxMedian = some m ∧ m ∈ xs := by
  obtain ⟨hinv, hcount, _, hweight, _, hmem⟩ := remedian_count_bounded base exponent hb he xs
  have hfields := Remedian.feed_fields base exponent xs
  have hpos : 0 < (Remedian.feed base exponent xs).count := by
    rw [hcount]
    have : 0 < xs.length := List.length_pos_iff.mpr hne
    have : 0 < base ^ exponent := Nat.pow_pos hb
    omega
  unfold Remedian.approxMedian
  rcases hinv.shape with ⟨hf, _⟩ | ⟨hf, pre, last, hbufs, _, hlast⟩
  · rw [if_neg (by simp [hf])]
    have hperm := List.mergeSort_perm (weightedMedians (Remedian.feed base exponent xs).base 0 (Remedian.feed base exponent xs).buffers)
      (fun a b => decide (a.1 ≤ b.1))
    have hsum : ((List.mergeSort (weightedMedians (Remedian.feed base exponent xs).base 0 (Remedian.feed base exponent xs).buffers)
        (fun a b => decide (a.1 ≤ b.1))).map (·.2)).sum = (Remedian.feed base exponent xs).count := by
      rw [(hperm.map _).sum_nat, weightedMedians_sum, hfields.1, ← hweight]
    generalize List.mergeSort (weightedMedians (Remedian.feed base exponent xs).base 0 (Remedian.feed base exponent xs).buffers)
      (fun a b => decide (a.1 ≤ b.1)) = L at hsum hperm
    obtain ⟨m, hm⟩ := pickMedian_some ((Remedian.feed base exponent xs).count / 2) L 0
      (by intro hc; subst hc; simp only [List.map_nil, List.sum_nil] at hsum; omega) (by rw [hsum]; omega)
    refine ⟨m, hm, ?_⟩
    obtain ⟨w, hw⟩ := pickMedian_mem _ _ _ _ hm
    exact hmem m (weightedMedians_mem _ _ _ _ _ (hperm.mem_iff.mp hw))
  · rw [if_pos hf]
    refine ⟨_, rfl, ?_⟩
    have hlen : pre.length = (Remedian.feed base exponent xs).exponent - 1 := by
      have := hinv.len; rw [hbufs] at this; simp at this; omega
    have hget : (Remedian.feed base exponent xs).buffers.getD ((Remedian.feed base exponent xs).exponent - 1) [] = last := by
      rw [hbufs, ← hlen]; simp
    rw [hget]
    have hlt : (Remedian.feed base exponent xs).base / 2 < last.length := by
      rw [hlast]; exact Nat.div_lt_self (by rw [hfields.1]; exact hb) (by omega)
    apply hmem
    rw [hbufs]
    simp only [List.flatten_append, List.flatten_cons, List.flatten_nil, List.append_nil, List.mem_append]
    right
    rw [List.getD_eq_getElem?_getD, List.getElem?_eq_getElem hlt]
    simp

example : (Remedian.feed 3 3 (List.range 30)).count = 27 := by
  have := (remedian_count_bounded 3 3 (by norm_num) (by norm_num) (List.range 30)).2.1
  simpa using this

end C18
