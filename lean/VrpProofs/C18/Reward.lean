import VrpModel.C18
import Mathlib.Tactic.Positivity
import Mathlib.Tactic.Linarith
import Mathlib.Tactic.Ring
import Mathlib.Tactic.FieldSimp
import Mathlib.Algebra.Order.Field.Rat
/-!
# C18 — reward arithmetic of `dynamic_selective.rs`: true range, documented range (S26), multiplier range
-/
set_option linter.unusedSimpArgs false
set_option linter.unusedVariables false
set_option linter.unnecessarySeqFocus false
set_option linter.unreachableTactic false
set_option linter.unusedTactic false

namespace C18

theorem absR_nonneg (x : Rat) : 0 ≤ absR x := by
  unfold absR; split <;> linarith

theorem absR_of_nonneg {x : Rat} (h : 0 ≤ x) : absR x = x := by
  unfold absR; split
  · linarith
  · rfl

theorem le_maxR_left (a b : Rat) : a ≤ maxR a b := by
  unfold maxR; split <;> linarith
theorem le_maxR_right (a b : Rat) : b ≤ maxR a b := by
  unfold maxR; split <;> linarith

theorem absR_sub_le (a b : Rat) : absR (a - b) ≤ absR a + absR b := by
  unfold absR; split <;> split <;> split <;> linarith

theorem absR_sub_le_max_of_nonneg {a b : Rat} (ha : 0 ≤ a) (hb : 0 ≤ b) : absR (a - b) ≤ maxR (absR a) (absR b) := by
  rw [absR_of_nonneg ha, absR_of_nonneg hb]
  unfold absR maxR; split <;> split <;> linarith

theorem relChange_nonneg (a b : Rat) : 0 ≤ relChange a b := by
  unfold relChange
  exact div_nonneg (absR_nonneg _) (le_trans (absR_nonneg a) (le_maxR_left _ _))

/-- `|a - b| / max(|a|, |b|) ≤ 1` for values of the same sign (here: non-negative, as fitness values are) -/
theorem relChange_le_one {a b : Rat} (ha : 0 ≤ a) (hb : 0 ≤ b) : relChange a b ≤ 1 := by
  unfold relChange
  have hm : 0 ≤ maxR (absR a) (absR b) := le_trans (absR_nonneg a) (le_maxR_left _ _)
  rcases eq_or_lt_of_le hm with h0 | hpos
  · rw [← h0]; simp
  · rw [div_le_one hpos]; exact absR_sub_le_max_of_nonneg ha hb

/-- in general the relative change reaches 2 (opposite signs) -/
theorem relChange_le_two (a b : Rat) : relChange a b ≤ 2 := by
  unfold relChange
  have hm : 0 ≤ maxR (absR a) (absR b) := le_trans (absR_nonneg a) (le_maxR_left _ _)
  rcases eq_or_lt_of_le hm with h0 | hpos
  · rw [← h0]; simp
  · rw [div_le_iff₀ hpos]
    have := absR_sub_le a b
    have := le_maxR_left (absR a) (absR b)
    have := le_maxR_right (absR a) (absR b)
    linarith

theorem firstDiff_lt : ∀ (a b : List Rat) (idx : Nat), firstDiff a b = some idx → idx < a.length ∧ idx < b.length
  | [], _, idx, h => by simp [firstDiff] at h
  | _ :: _, [], idx, h => by simp [firstDiff] at h
  | x :: as, y :: bs, idx, h => by
    simp only [firstDiff] at h
    split at h
    · cases h; simp
    · cases hr : firstDiff as bs with
      | none => simp [hr] at h
      | some i =>
        simp [hr] at h
        have := firstDiff_lt as bs i hr
        subst h
        simp; omega

def NonNeg (a : List Rat) : Prop := ∀ x ∈ a, 0 ≤ x

theorem NonNeg.getD {a : List Rat} (h : NonNeg a) (i : Nat) : 0 ≤ a.getD i 0 := by
  rw [List.getD_eq_getElem?_getD]
  cases hi : a[i]? with
  | none => simp
  | some x => simpa using h x (List.mem_of_getElem? hi)

/-- `get_relative_distance` stays within `[-c·N, c·N]` when every relative change is at most `c`
    (`c = 1` for same-sign values — the function's documented `[-N, N]` —, `c = 2` in general) -/
theorem relDistance_abs_le (ord : Ordering) (a b : List Rat) (c : Rat) (hc : 0 ≤ c)
    (hchg : ∀ i, relChange (a.getD i 0) (b.getD i 0) ≤ c) :
    -(c * (a.length : Rat)) ≤ relDistance ord a b ∧ relDistance ord a b ≤ c * (a.length : Rat) := by
  have hN : (0 : Rat) ≤ (a.length : Rat) := by positivity
  have hcN : 0 ≤ c * (a.length : Rat) := mul_nonneg hc hN
  have key : ∀ (sign : Rat), (sign = 1 ∨ sign = -1) → ∀ idx, idx < a.length →
      -(c * (a.length : Rat)) ≤ relChange (a.getD idx 0) (b.getD idx 0) * sign * (((a.length - idx : Nat)) : Rat) ∧
      relChange (a.getD idx 0) (b.getD idx 0) * sign * (((a.length - idx : Nat)) : Rat) ≤ c * (a.length : Rat) := by
    intro sign hs idx hidx
    have h0 := relChange_nonneg (a.getD idx 0) (b.getD idx 0)
    have h1 := hchg idx
    have hamp0 : (0 : Rat) ≤ ((a.length - idx : Nat) : Rat) := by positivity
    have hamp1 : ((a.length - idx : Nat) : Rat) ≤ (a.length : Rat) := by exact_mod_cast Nat.sub_le _ _
    have hprod : relChange (a.getD idx 0) (b.getD idx 0) * ((a.length - idx : Nat) : Rat) ≤ c * (a.length : Rat) :=
      mul_le_mul h1 hamp1 hamp0 hc
    have hprod0 : 0 ≤ relChange (a.getD idx 0) (b.getD idx 0) * ((a.length - idx : Nat) : Rat) := mul_nonneg h0 hamp0
    rcases hs with hs | hs <;> subst hs <;> constructor <;> nlinarith
  unfold relDistance
  cases ord with
  | eq => simp; exact hcN
  | lt =>
    simp only
    cases hf : firstDiff a b with
    | none => simp; exact hcN
    | some idx => simpa using key 1 (Or.inl rfl) idx (firstDiff_lt a b idx hf).1
  | gt =>
    simp only
    cases hf : firstDiff a b with
    | none => simp; exact hcN
    | some idx => simpa using key (-1) (Or.inr rfl) idx (firstDiff_lt a b idx hf).1

theorem relDistance_le_of_nonneg (ord : Ordering) (a b : List Rat) (ha : NonNeg a) (hb : NonNeg b) :
    relDistance ord a b ≤ (a.length : Rat) := by
  have := (relDistance_abs_le ord a b 1 (by norm_num) (fun i => relChange_le_one (ha.getD i) (hb.getD i))).2
  simpa using this

theorem relDistance_le_general (ord : Ordering) (a b : List Rat) : relDistance ord a b ≤ 2 * (a.length : Rat) :=
  (relDistance_abs_le ord a b 2 (by norm_num) (fun i => relChange_le_two _ _)).2


/-! ### the sign of the distance says whether the solution is better -/

theorem relChange_pos {a b : Rat} (h : a ≠ b) : 0 < relChange a b := by
  unfold relChange
  have h1 : 0 < absR (a - b) := by
    unfold absR; split
    · linarith
    · rcases lt_or_gt_of_ne h with h' | h'
      · linarith
      · linarith
  have h2 : 0 < maxR (absR a) (absR b) := by
    have := absR_sub_le a b
    have := le_maxR_left (absR a) (absR b)
    have := le_maxR_right (absR a) (absR b)
    by_contra hc
    push Not at hc
    have := absR_nonneg a
    have := absR_nonneg b
    linarith
  exact div_pos h1 h2

theorem firstDiff_ne : ∀ (a b : List Rat) (idx : Nat), firstDiff a b = some idx → a.getD idx 0 ≠ b.getD idx 0
  | [], _, idx, h => by simp [firstDiff] at h
  | _ :: _, [], idx, h => by simp [firstDiff] at h
  | x :: as, y :: bs, idx, h => by
    simp only [firstDiff] at h
    split at h
    · cases h; simpa using ‹x ≠ y›
    · cases hr : firstDiff as bs with
      | none => simp [hr] at h
      | some i =>
        simp [hr] at h
        subst h
        simpa using firstDiff_ne as bs i hr

theorem lexOrder_ne_eq_firstDiff : ∀ (a b : List Rat), lexOrder a b ≠ .eq → ∃ idx, firstDiff a b = some idx
  | [], _, h => by simp [lexOrder] at h
  | _ :: _, [], h => by simp [lexOrder] at h
  | x :: as, y :: bs, h => by
    simp only [lexOrder] at h
    simp only [firstDiff]
    by_cases hxy : x = y
    · subst hxy
      simp only [lt_irrefl, if_false] at h
      obtain ⟨i, hi⟩ := lexOrder_ne_eq_firstDiff as bs h
      exact ⟨i + 1, by simp [hi]⟩
    · exact ⟨0, by simp [hxy]⟩

/-- the documented reading of `get_relative_distance`: positive iff `a` is better than `b`, negative iff worse, zero iff
    equal — for the lexicographic order of the harness objective -/
theorem relDistance_sign (a b : List Rat) :
    (lexOrder a b = .lt → 0 < relDistance (lexOrder a b) a b) ∧
    (lexOrder a b = .gt → relDistance (lexOrder a b) a b < 0) ∧
    (lexOrder a b = .eq → relDistance (lexOrder a b) a b = 0) := by
  have key : lexOrder a b ≠ .eq → ∃ idx, firstDiff a b = some idx ∧
      0 < relChange (a.getD idx 0) (b.getD idx 0) * (((a.length - idx : Nat)) : Rat) := by
    intro hne
    obtain ⟨idx, hidx⟩ := lexOrder_ne_eq_firstDiff a b hne
    refine ⟨idx, hidx, ?_⟩
    have h1 := relChange_pos (firstDiff_ne a b idx hidx)
    have h2 : (0 : Rat) < ((a.length - idx : Nat) : Rat) := by
      have := (firstDiff_lt a b idx hidx).1
      exact_mod_cast (by omega : 0 < a.length - idx)
    exact mul_pos h1 h2
  refine ⟨?_, ?_, ?_⟩
  · intro h
    obtain ⟨idx, hidx, hpos⟩ := key (by rw [h]; simp)
    rw [h]
    simp only [relDistance, hidx]
    simp only [List.getD_eq_getElem?_getD] at hpos ⊢
    norm_num
    linarith
  · intro h
    obtain ⟨idx, hidx, hpos⟩ := key (by rw [h]; simp)
    rw [h]
    simp only [relDistance, hidx]
    simp only [List.getD_eq_getElem?_getD] at hpos ⊢
    rw [if_neg (by decide)]
    linarith
  · intro h
    rw [h]
    simp [relDistance]

/-- hence a positive base reward is given exactly to solutions that improve on their parent -/
theorem reward_pos_iff_improves_parent (best initial new : List Rat) :
    0 < distanceReward lexOrder (some best) initial new ↔ lexOrder new initial = .lt := by
  have hs := relDistance_sign new initial
  have hb := relDistance_sign new best
  unfold distanceReward
  simp only
  constructor
  · intro h
    by_contra hne
    have hle : relDistance (lexOrder new initial) new initial ≤ 0 := by
      cases ho : lexOrder new initial with
      | lt => exact absurd ho hne
      | eq => rw [ho] at hs; exact le_of_eq (hs.2.2 rfl)
      | gt => rw [ho] at hs; exact le_of_lt (hs.2.1 rfl)
    rw [if_neg (by intro hc; linarith [hc.1]), if_neg (by linarith)] at h
    exact lt_irrefl _ h
  · intro h
    have hpos := hs.1 h
    split
    · rename_i hc; nlinarith [hc.1, hc.2]
    · exact mul_pos (by linarith) (by norm_num)

/-- the reward as a function of two distances bounded by `D` -/
theorem distanceReward_le (order : List Rat → List Rat → Ordering) (best : Option (List Rat)) (initial new : List Rat)
    (D : Rat) (hD : 0 ≤ D) (hI : relDistance (order new initial) new initial ≤ D)
    (hB : ∀ bk, best = some bk → relDistance (order new bk) new bk ≤ D) :
    0 ≤ distanceReward order best initial new ∧ distanceReward order best initial new ≤ 3 * (D + 1) := by
  unfold distanceReward
  cases best with
  | none => simp; linarith
  | some bk =>
    have hB' := hB bk rfl
    simp only
    split
    · rename_i h; constructor <;> nlinarith [h.1, h.2]
    · split
      · rename_i h; constructor <;> nlinarith
      · simp; linarith

/-- **reward_range** — for non-negative (same-sign) finite fitness vectors with `N` objectives the base reward is in
    `[0, 3·(N+1)]`, whatever order the objective defines -/
theorem reward_range (order : List Rat → List Rat → Ordering) (best : Option (List Rat)) (initial new : List Rat)
    (hn : NonNeg new) (hi : NonNeg initial) (hb : ∀ bk, best = some bk → NonNeg bk) :
    0 ≤ distanceReward order best initial new ∧
    distanceReward order best initial new ≤ 3 * ((new.length : Rat) + 1) :=
  distanceReward_le order best initial new (new.length : Rat) (by positivity)
    (relDistance_le_of_nonneg _ new initial hn hi)
    (fun bk h => relDistance_le_of_nonneg _ new bk hn (hb bk h))

/-- without the sign hypothesis the bound is `3·(2N+1)` -/
theorem reward_range_any_sign (order : List Rat → List Rat → Ordering) (best : Option (List Rat)) (initial new : List Rat) :
    0 ≤ distanceReward order best initial new ∧
    distanceReward order best initial new ≤ 3 * (2 * (new.length : Rat) + 1) :=
  distanceReward_le order best initial new (2 * (new.length : Rat)) (by positivity)
    (relDistance_le_general _ new initial) (fun bk _ => relDistance_le_general _ new bk)

/-- the documented range `[0, 6]` of `estimate_distance_reward` holds for a single objective -/
theorem reward_documented_range_single_objective (order : List Rat → List Rat → Ordering) (best : Option (List Rat))
    (initial new : List Rat) (hn : NonNeg new) (hi : NonNeg initial) (hb : ∀ bk, best = some bk → NonNeg bk)
    (h1 : new.length = 1) :
    0 ≤ distanceReward order best initial new ∧ distanceReward order best initial new ≤ 6 := by
  have := reward_range order best initial new hn hi hb
  rw [h1] at this
  constructor
  · exact this.1
  · have h2 := this.2; norm_num at h2; exact h2

/-- S26: the witness — three objectives, an improvement in the first one against both the parent and the best known -/
theorem s26_witness_value :
    distanceReward lexOrder (some [2, 3, 100]) [2, 3, 100] [1, 3, 100] = 15 / 2 := by decide +kernel

/-- S26: the documented range `[0, 6]` does NOT hold for every number of objectives (doc/code mismatch, known finding) -/
theorem reward_documented_range_fails :
    ¬ ∀ (best initial new : List Rat), NonNeg new → NonNeg initial → NonNeg best →
        distanceReward lexOrder (some best) initial new ≤ 6 := by
  intro h
  have := h [2, 3, 100] [2, 3, 100] [1, 3, 100]
    (by intro x hx; simp at hx; rcases hx with rfl | rfl | rfl <;> norm_num)
    (by intro x hx; simp at hx; rcases hx with rfl | rfl | rfl <;> norm_num)
    (by intro x hx; simp at hx; rcases hx with rfl | rfl | rfl <;> norm_num)
  rw [s26_witness_value] at this
  norm_num at this

/-- the true bound is attained up to the amplifier: `N = 3` gives `7.5 ≤ 12` -/
example : (15 : Rat) / 2 ≤ 3 * (([1, 3, 100] : List Rat).length + 1) := by norm_num

/-- **perf_range** — the performance multiplier is in `[9/16, 3]` (documented `(~0.5, 3]`) for every median, duration,
    improvement ratio and flag -/
theorem perf_range (median : Option Nat) (duration : Nat) (ratio : Rat) (has : Bool) :
    9 / 16 ≤ perfMultiplier median duration ratio has ∧ perfMultiplier median duration ratio has ≤ 3 := by
  have hm : ∀ c : Rat, (3 : Rat) / 4 ≤ (if c < 3 / 4 then (3 : Rat) / 2 else if c < 1 then 5 / 4 else if 3 / 2 < c then 3 / 4 else 1) ∧
      (if c < 3 / 4 then (3 : Rat) / 2 else if c < 1 then 5 / 4 else if 3 / 2 < c then 3 / 4 else 1) ≤ 3 / 2 := by
    intro c; split_ifs <;> constructor <;> norm_num
  have hi : (3 : Rat) / 4 ≤ (if has = true ∧ ratio < 1 / 20 then (2 : Rat) else if has = true ∧ 3 / 20 < ratio then 3 / 4 else 1) ∧
      (if has = true ∧ ratio < 1 / 20 then (2 : Rat) else if has = true ∧ 3 / 20 < ratio then 3 / 4 else 1) ≤ 2 := by
    split_ifs <;> constructor <;> norm_num
  unfold perfMultiplier
  simp only
  generalize (minR (maxR (match median with
      | none => (1 : Rat)
      | some m => if m = 0 then 1 else (duration : Rat) / (m : Rat)) (1 / 2)) 2) = c
  have := hm c
  constructor <;> nlinarith [this.1, this.2, hi.1, hi.2]

/-- the final reward `base · multiplier` -/
theorem final_reward_range (order : List Rat → List Rat → Ordering) (best : Option (List Rat)) (initial new : List Rat)
    (hn : NonNeg new) (hi : NonNeg initial) (hb : ∀ bk, best = some bk → NonNeg bk)
    (median : Option Nat) (duration : Nat) (ratio : Rat) (has : Bool) :
    0 ≤ distanceReward order best initial new * perfMultiplier median duration ratio has ∧
    distanceReward order best initial new * perfMultiplier median duration ratio has ≤ 9 * ((new.length : Rat) + 1) := by
  have hr := reward_range order best initial new hn hi hb
  have hp := perf_range median duration ratio has
  constructor
  · exact mul_nonneg hr.1 (by linarith [hp.1])
  · nlinarith [hr.1, hr.2, hp.1, hp.2]

example : perfMultiplier (some 10) 5 0 true = 3 := by decide +kernel

end C18
