import VrpModel.C18
import VrpProofs.C18.Termination
import Mathlib.Tactic.Linarith
import Mathlib.Data.List.Rotate
import Mathlib.Algebra.BigOperators.Group.List.Basic
import Mathlib.Algebra.Order.Field.Rat
/-!
# C18 — `MinVariation`, sample mode: the ring buffer is the window of the last `sample` generations
-/
set_option linter.unusedSimpArgs false
set_option linter.unusedVariables false
set_option linter.unnecessarySeqFocus false
set_option linter.unreachableTactic false
set_option linter.unusedTactic false

namespace C18

/-! ### `check_threshold` does not depend on the order of the rows -/

theorem lt_foldl_max (idx : Nat) : ∀ (rows : List (List Rat)) (m : Nat),
    idx < rows.foldl (fun m r => max m r.length) m ↔ idx < m ∨ ∃ r ∈ rows, idx < r.length
  | [], m => by simp
  | r :: rows, m => by
    simp only [List.foldl_cons, lt_foldl_max idx rows, List.mem_cons, exists_eq_or_imp]
    constructor
    · rintro (h | h)
      · rcases Nat.lt_or_ge idx m with h1 | h1
        · exact Or.inl h1
        · exact Or.inr (Or.inl (by omega))
      · exact Or.inr (Or.inr h)
    · rintro (h | h | h)
      · exact Or.inl (by omega)
      · exact Or.inl (by omega)
      · exact Or.inr h

theorem lt_maxLen_iff (rows : List (List Rat)) (idx : Nat) : idx < maxLen rows ↔ ∃ r ∈ rows, idx < r.length := by
  unfold maxLen
  rw [lt_foldl_max]
  simp

/-- `check_threshold` says yes iff no objective (an index present in some row) has `cv > threshold` -/
theorem checkThreshold_iff (rows : List (List Rat)) (th : Rat) :
    checkThreshold rows th = true ↔ ∀ idx, (∃ r ∈ rows, idx < r.length) → cvGt (column rows idx) th = false := by
  unfold checkThreshold
  simp only [List.all_eq_true, List.mem_range, lt_maxLen_iff, Bool.not_eq_true']

theorem cvGt_perm {l₁ l₂ : List Rat} (h : l₁.Perm l₂) (th : Rat) : cvGt l₁ th = cvGt l₂ th := by
  have hlen := h.length_eq
  have hsum := h.sum_eq
  have hemp : l₁.isEmpty = l₂.isEmpty := by
    cases l₁ <;> cases l₂ <;> simp_all
  have hmean : meanSlice l₁ = meanSlice l₂ := by unfold meanSlice; rw [hemp, hsum, hlen]
  have hvm : varianceMean l₁ = varianceMean l₂ := by
    unfold varianceMean
    rw [hmean, hlen]
    dsimp only
    rw [(h.map (fun v => (v - meanSlice l₂) * (v - meanSlice l₂))).sum_eq, (h.map (fun v => v - meanSlice l₂)).sum_eq]
  unfold cvGt
  rw [hvm]

theorem checkThreshold_perm {rows₁ rows₂ : List (List Rat)} (h : rows₁.Perm rows₂) (th : Rat) :
    checkThreshold rows₁ th = checkThreshold rows₂ th := by
  rw [Bool.eq_iff_iff, checkThreshold_iff, checkThreshold_iff]
  have hmem : ∀ idx, (∃ r ∈ rows₁, idx < r.length) ↔ (∃ r ∈ rows₂, idx < r.length) := by
    intro idx
    constructor
    · rintro ⟨r, hr, hi⟩; exact ⟨r, h.mem_iff.mp hr, hi⟩
    · rintro ⟨r, hr, hi⟩; exact ⟨r, h.mem_iff.mpr hr, hi⟩
  have hcol : ∀ idx, cvGt (column rows₁ idx) th = cvGt (column rows₂ idx) th := by
    intro idx
    exact cvGt_perm (h.filterMap _) th
  constructor
  · intro h1 idx hi; rw [← hcol]; exact h1 idx ((hmem idx).mpr hi)
  · intro h1 idx hi; rw [hcol]; exact h1 idx ((hmem idx).mp hi)

/-! ### the ring buffer -/

/-- the buffer after feeding the fitness of generations `g, g+1, …` (one call per generation) -/
def sampleFeed (sample : Nat) (th : Rat) : Option (List (List Rat)) → Nat → List (List Rat) → Option (List (List Rat))
  | st, _, [] => st
  | st, g, f :: fs => sampleFeed sample th (sampleStep sample th st g f).1 (g + 1) fs

/-- after the generations `0 … pre.length - 1`: slot `j % sample` holds generation `j` for each of the last `sample` -/
def BufInv (sample : Nat) (pre : List (List Rat)) (st : Option (List (List Rat))) : Prop :=
  (pre = [] ∧ st = none) ∨
  ∃ buf, st = some buf ∧ buf.length = sample ∧
    ∀ j (hj : j < pre.length), pre.length ≤ j + sample → buf[j % sample]? = some pre[j]

theorem mod_ne_of_close {j g s : Nat} (h1 : j < g) (h2 : g < j + s) : g % s ≠ j % s := by
  intro h
  have hz := Nat.sub_mod_eq_zero_of_mod_eq h
  have hd : s ∣ g - j := Nat.dvd_of_mod_eq_zero hz
  have := Nat.le_of_dvd (by omega) hd
  omega

theorem bufInv_step (sample : Nat) (hs : 0 < sample) (th : Rat) (pre : List (List Rat)) (st : Option (List (List Rat)))
    (f : List Rat) (h : BufInv sample pre st) :
    BufInv sample (pre ++ [f]) (sampleStep sample th st pre.length f).1 := by
  right
  have hmod : pre.length % sample < sample := Nat.mod_lt _ hs
  rcases h with ⟨hp, hst⟩ | ⟨buf, hst, hlen, hb⟩
  · subst hp; subst hst
    refine ⟨_, rfl, by simp, ?_⟩
    intro j hj _
    simp only [List.nil_append, List.length_singleton] at hj
    have : j = 0 := by omega
    subst this
    simp only [List.length_nil, Option.getD_none, List.nil_append, List.getElem_cons_zero]
    rw [List.getElem?_set_self (by simp; exact hs)]
  · subst hst
    refine ⟨_, rfl, by simp [hlen], ?_⟩
    intro j hj hle
    simp only [List.length_append, List.length_singleton] at hj hle
    simp only [Option.getD_some]
    by_cases hjg : j = pre.length
    · subst hjg
      rw [List.getElem?_set_self (by rw [hlen]; exact hmod)]
      simp
    · have hj' : j < pre.length := by omega
      rw [List.getElem?_set_ne (mod_ne_of_close hj' (by omega))]
      rw [hb j hj' (by omega)]
      simp [List.getElem_append_left hj']

theorem bufInv_feed (sample : Nat) (hs : 0 < sample) (th : Rat) :
    ∀ (fs pre : List (List Rat)) (st : Option (List (List Rat))), BufInv sample pre st →
      BufInv sample (pre ++ fs) (sampleFeed sample th st pre.length fs)
  | [], pre, st, h => by simpa [sampleFeed] using h
  | f :: fs, pre, st, h => by
    have := bufInv_feed sample hs th fs (pre ++ [f]) _ (bufInv_step sample hs th pre st f h)
    simpa [sampleFeed] using this

/-- a full ring buffer is a rotation of the window of the last `sample` generations -/
theorem buf_perm_window (sample : Nat) (hs : 0 < sample) (all buf : List (List Rat)) (hlen : buf.length = sample)
    (hfull : sample ≤ all.length)
    (hb : ∀ j (hj : j < all.length), all.length ≤ j + sample → buf[j % sample]? = some all[j]) :
    (sampleWindow sample all).Perm buf := by
  have hw : sampleWindow sample all = buf.rotate ((all.length - sample) % sample) := by
    apply List.ext_getElem
    · simp [sampleWindow, hlen]; omega
    · intro i h1 h2
      simp only [sampleWindow, List.getElem_drop, List.getElem_rotate, hlen]
      have hi : i < sample := by simpa [sampleWindow, hlen] using h2
      have hj : all.length - sample + i < all.length := by omega
      have := hb (all.length - sample + i) hj (by omega)
      have hidx : (i + (all.length - sample) % sample) % sample = (all.length - sample + i) % sample := by
        rw [Nat.add_mod, Nat.mod_mod, ← Nat.add_mod, Nat.add_comm]
      have hlt : (all.length - sample + i) % sample < buf.length := by rw [hlen]; exact Nat.mod_lt _ hs
      rw [List.getElem?_eq_getElem hlt] at this
      simp only [hidx]
      exact (Option.some.inj this).symm
  rw [hw]
  exact List.rotate_perm _ _

/-- **variation_fires_iff (sample mode)** — for EVERY fitness history observed once per generation `0, 1, 2, …`, the call
    at the newest generation answers the SPEC: silent until `sample` generations exist, then the threshold check over
    the fitness of exactly the last `sample` generations (the ring buffer holds them, in rotated order, and the check
    does not depend on the order) -/
theorem variation_fires_iff_sample (sample : Nat) (hs : 0 < sample) (th : Rat) (hist : List (List Rat)) (f : List Rat) :
    (sampleStep sample th (sampleFeed sample th none 0 hist) hist.length f).2 = sampleSpec sample th (hist ++ [f]) := by
  have hinv0 : BufInv sample [] none := Or.inl ⟨rfl, rfl⟩
  have hinv := bufInv_feed sample hs th hist [] none hinv0
  simp only [List.nil_append, List.length_nil] at hinv
  have hstep := bufInv_step sample hs th hist _ f hinv
  unfold sampleSpec
  by_cases hfull : sample ≤ (hist ++ [f]).length
  · rcases hstep with ⟨hp, _⟩ | ⟨buf, hst, hlen, hb⟩
    · simp at hp
    · have hperm := buf_perm_window sample hs (hist ++ [f]) buf hlen hfull hb
      have hnot : ¬ hist.length < sample - 1 := by simp at hfull; omega
      have h2 : (sampleStep sample th (sampleFeed sample th none 0 hist) hist.length f).2 = checkThreshold buf th := by
        have h1 : (sampleStep sample th (sampleFeed sample th none 0 hist) hist.length f).1 = some buf := hst
        simp only [sampleStep, if_neg hnot] at h1 ⊢
        rw [Option.some.inj h1]
      rw [h2, checkThreshold_perm hperm]
      simp only [hfull, decide_true, Bool.true_and]
  · have hlt : hist.length < sample - 1 := by simp at hfull; omega
    simp only [sampleStep, if_pos hlt]
    simp only [hfull, decide_false, Bool.false_and]

/-- the answer as the property words it: fires iff `sample` generations exist and, for every objective, the
    coefficient of variation over the last `sample` generations is not above the (non-negative) threshold -/
theorem variation_fires_iff_sample_cv (sample : Nat) (hs : 0 < sample) (th : Rat) (hth : 0 ≤ th) (hist : List (List Rat))
    (f : List Rat) :
    (sampleStep sample th (sampleFeed sample th none 0 hist) hist.length f).2 = true ↔
      sample ≤ (hist ++ [f]).length ∧
      ∀ idx, (∃ r ∈ sampleWindow sample (hist ++ [f]), idx < r.length) →
        cvLeSpec (column (sampleWindow sample (hist ++ [f])) idx) th = true := by
  rw [variation_fires_iff_sample sample hs th hist f]
  unfold sampleSpec
  simp only [Bool.and_eq_true, decide_eq_true_eq, checkThreshold_iff]
  constructor
  · rintro ⟨h1, h2⟩
    refine ⟨h1, fun idx hi => ?_⟩
    have := h2 idx hi
    rw [cvGt_eq_not_spec _ _ hth] at this
    simpa using this
  · rintro ⟨h1, h2⟩
    refine ⟨h1, fun idx hi => ?_⟩
    rw [cvGt_eq_not_spec _ _ hth, h2 idx hi]; rfl

example : (sampleStep 2 (1 / 10) (sampleFeed 2 (1 / 10) none 0 [[1000], [500], [500]]) 3 [500]).2 = true ∧
    (sampleStep 2 (1 / 10) (sampleFeed 2 (1 / 10) none 0 [[1000]]) 1 [500]).2 = false := by decide +kernel

end C18
