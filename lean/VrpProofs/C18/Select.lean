import VrpModel.C18
import Mathlib.Tactic.Linarith
import Mathlib.Algebra.Order.Field.Rat
/-!
# C18 — `random_argmax` and `weighted` (`random.rs`): every random oracle gives a valid index
-/
set_option linter.unusedSimpArgs false
set_option linter.unusedVariables false
set_option linter.unnecessarySeqFocus false
set_option linter.unreachableTactic false
set_option linter.unusedTactic false

namespace C18

theorem icmp_lt (a b : Int) : compare a b = .lt ↔ a < b := by
  simp only [compare, compareOfLessAndEq]; split <;> (try split) <;> simp_all <;> omega
theorem icmp_eq (a b : Int) : compare a b = .eq ↔ a = b := by
  simp only [compare, compareOfLessAndEq]; split <;> (try split) <;> simp_all <;> omega
theorem icmp_gt (a b : Int) : compare a b = .gt ↔ b < a := by
  simp only [compare, compareOfLessAndEq]; split <;> (try split) <;> simp_all <;> omega

/-- the fold state points at a maximal element of the first `i` values -/
def AmOk (all : List Int) (i : Nat) (st : AmState) : Prop :=
  st.idx < i ∧ all[st.idx]? = some st.key ∧ ∀ j, j < i → ∀ k, all[j]? = some k → k ≤ st.key

theorem amStep_ok (draw : Nat → Nat) (all : List Int) (i : Nat) (st : AmState) (k : Int)
    (h : AmOk all i st) (hk : all[i]? = some k) : AmOk all (i + 1) (amStep draw st i k) := by
  obtain ⟨h1, h2, h3⟩ := h
  have hnew : ∀ key', st.key ≤ key' → k ≤ key' → ∀ j, j < i + 1 → ∀ k', all[j]? = some k' → k' ≤ key' := by
    intro key' hs hk' j hj k' hjk
    by_cases hji : j < i
    · exact le_trans (h3 j hji k' hjk) hs
    · have : j = i := by omega
      subst this
      rw [hk] at hjk; cases hjk; exact hk'
  unfold amStep
  split
  · rename_i heq
    have hkk : st.key = k := (icmp_eq _ _).mp heq
    dsimp only
    split
    · exact ⟨by simp, by simpa using hk, hnew k (by omega) (by omega)⟩
    · exact ⟨by simp; omega, by simpa using h2, hnew st.key (by omega) (by omega)⟩
  · rename_i hlt
    have hkk : st.key < k := (icmp_lt _ _).mp hlt
    exact ⟨by simp, by simpa using hk, hnew k (by omega) (by omega)⟩
  · rename_i hgt
    have hkk : k < st.key := (icmp_gt _ _).mp hgt
    exact ⟨by omega, h2, hnew st.key (by omega) (by omega)⟩

theorem amFold_ok (draw : Nat → Nat) (all : List Int) :
    ∀ (suf : List Int) (st : AmState) (i : Nat), AmOk all i st → (∀ j, suf[j]? = all[i + j]?) →
      i + suf.length = all.length → AmOk all all.length (amFold draw st i suf)
  | [], st, i, h, _, hl => by
    simp only [List.length_nil, Nat.add_zero] at hl
    subst hl
    simpa [amFold] using h
  | k :: suf, st, i, h, hs, hl => by
    have hk : all[i]? = some k := by have := hs 0; simpa using this.symm
    have := amStep_ok draw all i st k h hk
    simp only [amFold]
    apply amFold_ok draw all suf _ (i + 1) this
    · intro j
      have := hs (j + 1)
      simp only [List.getElem?_cons_succ] at this
      rw [this]; congr 1; omega
    · simp only [List.length_cons] at hl; omega

/-- **argmax_in_range** — for a non-empty list of values and EVERY random oracle, `random_argmax` returns an index
    inside the list whose value is maximal (in `f64::total_cmp` order); it returns `None` only for the empty list -/
theorem argmax_in_range (draw : Nat → Nat) (ks : List Int) (h : ks ≠ []) :
    ∃ i, randomArgmax draw ks = some i ∧ i < ks.length ∧ ∀ k ∈ ks, k ≤ ks.getD i 0 := by
  cases ks with
  | nil => exact absurd rfl h
  | cons k0 ks =>
    have h0 : AmOk (k0 :: ks) 1 { idx := 0, key := k0, count := 0 } := by
      refine ⟨by simp, by simp, ?_⟩
      intro j hj k hjk
      have : j = 0 := by omega
      subst this
      simp at hjk
      show k ≤ k0
      omega
    have hf := amFold_ok draw (k0 :: ks) ks _ 1 h0 (by intro j; rw [Nat.add_comm]; simp) (by simp; omega)
    obtain ⟨h1, h2, h3⟩ := hf
    refine ⟨_, rfl, h1, ?_⟩
    intro k hk
    obtain ⟨j, hj, hjk⟩ := List.getElem_of_mem hk
    have := h3 j hj k (by rw [List.getElem?_eq_getElem hj, hjk])
    rw [List.getD_eq_getElem?_getD, h2]
    simpa using this

theorem argmax_none_iff (draw : Nat → Nat) (ks : List Int) : randomArgmax draw ks = none ↔ ks = [] := by
  cases ks <;> simp [randomArgmax]

/-- the result is one of the indices of the SPEC `argmaxSet` -/
theorem argmax_mem_argmaxSet (draw : Nat → Nat) (ks : List Int) (i : Nat) (h : randomArgmax draw ks = some i) :
    i ∈ argmaxSet ks := by
  have hne : ks ≠ [] := by intro hc; subst hc; simp [randomArgmax] at h
  obtain ⟨i', hi', hlt, hmax⟩ := argmax_in_range draw ks hne
  rw [h] at hi'; cases hi'
  simp only [argmaxSet, List.mem_filter, List.mem_range, List.all_eq_true, decide_eq_true_eq]
  exact ⟨hlt, hmax⟩

example : randomArgmax (fun _ => 0) [1, 5, 3, 5, 5] = some 4 ∧ randomArgmax (fun _ => 1) [1, 5, 3, 5, 5] = some 1 := by decide

/-! ### weighted -/

theorem keyGt_trans_le (a b c : Option Rat) (h1 : keyGt b a = true) (h2 : keyGt b c = false) : keyGt a c = false := by
  cases a <;> cases b <;> cases c <;> simp_all [keyGt] <;> linarith

theorem keyGt_le_trans (a b c : Option Rat) (h1 : keyGt a b = false) (h2 : keyGt b c = false) : keyGt a c = false := by
  cases a <;> cases b <;> cases c <;> simp_all [keyGt] <;> linarith

/-- the fold state of `min_by`: index below `i`, its key, minimal among the first `i` keys; index 0 unless a finite
    key was seen -/
def WOk (draw : Nat → Rat) (all : List Nat) (i : Nat) (best : Nat × Option Rat) : Prop :=
  best.1 < i ∧ (∃ w, all[best.1]? = some w ∧ best.2 = wKey draw best.1 w) ∧
  (∀ j, j < i → ∀ w, all[j]? = some w → keyGt best.2 (wKey draw j w) = false) ∧
  (best.1 = 0 ∨ ∃ q, best.2 = some q)

theorem wFold_ok (draw : Nat → Rat) (all : List Nat) :
    ∀ (suf : List Nat) (best : Nat × Option Rat) (i : Nat), WOk draw all i best → (∀ j, suf[j]? = all[i + j]?) →
      i + suf.length = all.length → ∃ b, WOk draw all all.length b ∧ wFold draw best i suf = b.1
  | [], best, i, h, _, hl => by
    simp only [List.length_nil, Nat.add_zero] at hl
    subst hl
    exact ⟨best, h, rfl⟩
  | w :: suf, best, i, h, hs, hl => by
    have hw : all[i]? = some w := by have := hs 0; simpa using this.symm
    obtain ⟨h1, ⟨w0, hw0, hkey⟩, h3, h4⟩ := h
    simp only [wFold]
    have hrest : ∀ j, suf[j]? = all[i + 1 + j]? := by
      intro j
      have := hs (j + 1)
      simp only [List.getElem?_cons_succ] at this
      rw [this]; congr 1; omega
    have hlen : i + 1 + suf.length = all.length := by simp only [List.length_cons] at hl; omega
    by_cases hgt : keyGt best.2 (wKey draw i w) = true
    · rw [if_pos hgt]
      apply wFold_ok draw all suf _ (i + 1) _ hrest hlen
      refine ⟨by simp, ⟨w, by simpa using hw, rfl⟩, ?_, ?_⟩
      · intro j hj w' hjw
        by_cases hji : j < i
        · exact keyGt_trans_le _ _ _ hgt (h3 j hji w' hjw)
        · have : j = i := by omega
          subst this
          rw [hw] at hjw; cases hjw
          cases hk : wKey draw j w <;> simp [keyGt]
      · right
        cases hk : wKey draw i w with
        | none => rw [hk] at hgt; cases hb : best.2 <;> simp [hb, keyGt] at hgt
        | some q => exact ⟨q, rfl⟩
    · rw [if_neg hgt]
      have hgt' : keyGt best.2 (wKey draw i w) = false := by simpa using hgt
      apply wFold_ok draw all suf _ (i + 1) _ hrest hlen
      refine ⟨by omega, ⟨w0, hw0, hkey⟩, ?_, h4⟩
      intro j hj w' hjw
      by_cases hji : j < i
      · exact h3 j hji w' hjw
      · have : j = i := by omega
        subst this
        rw [hw] at hjw; cases hjw
        exact hgt'

/-- **weighted_in_range** — for a non-empty weight list and EVERY sequence of random draws, `weighted` returns an
    index inside the list; it has a positive weight whenever some weight is positive, and is `0` when all are zero -/
theorem weighted_in_range (draw : Nat → Rat) (ws : List Nat) (h : ws ≠ []) :
    ∃ i, weighted draw ws = some i ∧ i < ws.length ∧ ((∃ w ∈ ws, 0 < w) → 0 < ws.getD i 0) ∧
      ((∀ w ∈ ws, w = 0) → i = 0) := by
  cases ws with
  | nil => exact absurd rfl h
  | cons w0 ws =>
    have h0 : WOk draw (w0 :: ws) 1 (0, wKey draw 0 w0) := by
      refine ⟨by simp, ⟨w0, by simp, rfl⟩, ?_, Or.inl rfl⟩
      intro j hj w hjw
      have : j = 0 := by omega
      subst this
      simp at hjw; subst hjw
      cases hk : wKey draw 0 w0 <;> simp [keyGt]
    obtain ⟨b, ⟨h1, ⟨wb, hwb, hkey⟩, h3, h4⟩, hb⟩ :=
      wFold_ok draw (w0 :: ws) ws _ 1 h0 (by intro j; rw [Nat.add_comm]; simp) (by simp; omega)
    refine ⟨b.1, by simp [weighted, hb], h1, ?_, ?_⟩
    · rintro ⟨w, hw, hpos⟩
      obtain ⟨j, hj, hjw⟩ := List.getElem_of_mem hw
      have hle := h3 j hj w (by rw [List.getElem?_eq_getElem hj, hjw])
      rw [List.getD_eq_getElem?_getD, hwb]
      simp only [Option.getD_some]
      by_contra hcon
      have hz : wb = 0 := by omega
      rw [hkey, hz] at hle
      have : wKey draw j w = some (draw j / (w : Rat)) := by simp [wKey]; omega
      rw [this] at hle
      simp [wKey, keyGt] at hle
    · intro hall
      rcases h4 with h4 | ⟨q, hq⟩
      · exact h4
      · have hz : wb = 0 := hall wb (List.mem_of_getElem? hwb)
        rw [hkey, hz] at hq
        simp [wKey] at hq

theorem weighted_none_iff (draw : Nat → Rat) (ws : List Nat) : weighted draw ws = none ↔ ws = [] := by
  cases ws <;> simp [weighted]

example : weighted (fun _ => 1) [0, 3, 1, 3] = some 1 := by
  simp [weighted, wFold, wKey, keyGt]; norm_num

end C18
