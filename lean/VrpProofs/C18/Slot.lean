import VrpModel.C18
import Mathlib.Tactic.Positivity
import Mathlib.Tactic.Linarith
import Mathlib.Tactic.Ring
import Mathlib.Tactic.FieldSimp
import Mathlib.Algebra.Order.Field.Rat
/-!
# C18 — the slot machine (`slot_machine.rs`): learning state under every reward history
-/
set_option linter.unusedSimpArgs false
set_option linter.unusedVariables false

namespace C18

/-- the invariant carried by every reachable state -/
structure Slot.Inv (s : Slot) : Prop where
  alpha_eq : s.alpha = 1 + (s.n : Rat) / 2
  beta_ge : 10 ≤ s.beta
  v_eq : s.v = s.beta / (s.alpha + 1)

theorem Slot.init_inv (p : Rat) : (Slot.init p).Inv := by
  constructor <;> simp [Slot.init]

/-- the increment of `beta` is never negative -/
theorem Slot.beta_step_nonneg (s : Slot) (r : Rat) :
    0 ≤ (1 * (s.n : Rat) / ((s.n : Rat) + 1)) * ((r - s.mu) * (r - s.mu)) / 2 := by
  have hn : (0 : Rat) ≤ (s.n : Rat) := by positivity
  have : 0 ≤ (r - s.mu) * (r - s.mu) := mul_self_nonneg _
  positivity

theorem Slot.update_inv (s : Slot) (r : Rat) (h : s.Inv) : (s.update r).Inv := by
  obtain ⟨ha, hb, hv⟩ := h
  have hterm := Slot.beta_step_nonneg s r
  constructor
  · simp only [Slot.update, ha]; push_cast; ring
  · simp only [Slot.update]; linarith
  · simp only [Slot.update]

theorem Slot.update_n (s : Slot) (r : Rat) : (s.update r).n = s.n + 1 := rfl

theorem Slot.beta_mono (s : Slot) (r : Rat) : s.beta ≤ (s.update r).beta := by
  have := Slot.beta_step_nonneg s r
  simp only [Slot.update]; linarith

theorem Slot.run_snoc (p : Rat) (rs : List Rat) (r : Rat) : Slot.run p (rs ++ [r]) = (Slot.run p rs).update r := by
  simp [Slot.run, List.foldl_append]

theorem Slot.run_n (p : Rat) (rs : List Rat) : (Slot.run p rs).n = rs.length := by
  induction rs using List.reverseRecOn with
  | nil => rfl
  | append_singleton rs r ih => rw [Slot.run_snoc, Slot.update_n, ih]; simp

theorem Slot.run_inv (p : Rat) (rs : List Rat) : (Slot.run p rs).Inv := by
  induction rs using List.reverseRecOn with
  | nil => exact Slot.init_inv p
  | append_singleton rs r ih => rw [Slot.run_snoc]; exact Slot.update_inv _ r ih

/-- one update keeps the mean inside any interval that contains the old mean and the reward -/
theorem Slot.mu_convex (s : Slot) (r lo hi : Rat) (hlo : lo ≤ s.mu) (hhi : s.mu ≤ hi) (hr1 : lo ≤ r) (hr2 : r ≤ hi) :
    lo ≤ (s.update r).mu ∧ (s.update r).mu ≤ hi := by
  simp only [Slot.update]
  have hn : (0 : Rat) < ((s.n + 1 : Nat) : Rat) := by positivity
  have hn1 : (1 : Rat) ≤ ((s.n + 1 : Nat) : Rat) := by exact_mod_cast Nat.succ_le_succ (Nat.zero_le _)
  constructor
  · rcases le_total r s.mu with h | h
    · have : (r - s.mu) / ((s.n + 1 : Nat) : Rat) ≥ r - s.mu := by
        rw [ge_iff_le, le_div_iff₀ hn]; nlinarith
      linarith
    · have : 0 ≤ (r - s.mu) / ((s.n + 1 : Nat) : Rat) := div_nonneg (by linarith) hn.le
      linarith
  · rcases le_total r s.mu with h | h
    · have : (r - s.mu) / ((s.n + 1 : Nat) : Rat) ≤ 0 := div_nonpos_of_nonpos_of_nonneg (by linarith) hn.le
      linarith
    · have : (r - s.mu) / ((s.n + 1 : Nat) : Rat) ≤ r - s.mu := by
        rw [div_le_iff₀ hn]; nlinarith
      linarith

/-- the mean after `n ≥ 1` updates is the arithmetic mean of the rewards seen — the prior is forgotten by the first
    update (`mu += (reward - mu) / 1`) -/
theorem Slot.run_mu_mul (p : Rat) (rs : List Rat) (h : rs ≠ []) :
    (Slot.run p rs).mu * (rs.length : Rat) = rs.sum := by
  induction rs using List.reverseRecOn with
  | nil => exact absurd rfl h
  | append_singleton rs r ih =>
    rw [Slot.run_snoc]
    have hn := Slot.run_n p rs
    simp only [Slot.update, hn, List.sum_append, List.length_append, List.length_singleton, List.sum_cons, List.sum_nil,
      add_zero]
    have hpos : ((rs.length + 1 : Nat) : Rat) ≠ 0 := by positivity
    by_cases hrs : rs = []
    · subst hrs; simp
    · have ih' := ih hrs
      field_simp
      push_cast at *
      linarith

theorem Slot.run_mu_eq_mean (p : Rat) (rs : List Rat) (h : rs ≠ []) : (Slot.run p rs).mu = meanOf rs := by
  have hlen : (rs.length : Rat) ≠ 0 := by
    have : 0 < rs.length := List.length_pos_of_ne_nil h
    positivity
  rw [meanOf, eq_div_iff hlen]
  exact Slot.run_mu_mul p rs h

/-- hull: bounds of all rewards bound the mean -/
theorem Slot.run_mu_bounds (p : Rat) (rs : List Rat) (h : rs ≠ []) (lo hi : Rat)
    (hlo : ∀ r ∈ rs, lo ≤ r) (hhi : ∀ r ∈ rs, r ≤ hi) :
    lo ≤ (Slot.run p rs).mu ∧ (Slot.run p rs).mu ≤ hi := by
  induction rs using List.reverseRecOn with
  | nil => exact absurd rfl h
  | append_singleton rs r ih =>
    rw [Slot.run_snoc]
    have hr1 : lo ≤ r := hlo r (by simp)
    have hr2 : r ≤ hi := hhi r (by simp)
    by_cases hrs : rs = []
    · subst hrs
      simp only [Slot.run, List.foldl_nil, Slot.update, Slot.init]
      norm_num
      exact ⟨hr1, hr2⟩
    · have ih' := ih hrs (fun x hx => hlo x (by simp [hx])) (fun x hx => hhi x (by simp [hx]))
      exact Slot.mu_convex _ r lo hi ih'.1 ih'.2 hr1 hr2

theorem sum_gt_of_all_gt (c : Rat) : ∀ rs : List Rat, rs ≠ [] → (∀ a ∈ rs, c < a) → c * (rs.length : Rat) < rs.sum
  | [], h, _ => absurd rfl h
  | [a], _, h => by
    have := h a (by simp)
    simp; linarith
  | a :: b :: rs, _, h => by
    have ih := sum_gt_of_all_gt c (b :: rs) (by simp) (fun x hx => h x (by simp [hx]))
    have ha := h a (by simp)
    simp only [List.length_cons, List.sum_cons] at ih ⊢
    push_cast at ih ⊢
    linarith

theorem sum_lt_of_all_lt (c : Rat) : ∀ rs : List Rat, rs ≠ [] → (∀ a ∈ rs, a < c) → rs.sum < c * (rs.length : Rat)
  | [], h, _ => absurd rfl h
  | [a], _, h => by
    have := h a (by simp)
    simp; linarith
  | a :: b :: rs, _, h => by
    have ih := sum_lt_of_all_lt c (b :: rs) (by simp) (fun x hx => h x (by simp [hx]))
    have ha := h a (by simp)
    simp only [List.length_cons, List.sum_cons] at ih ⊢
    push_cast at ih ⊢
    linarith

/-- the arithmetic mean of a non-empty list lies in the hull of its values (SPEC `inHull`) -/
theorem mean_inHull (rs : List Rat) (h : rs ≠ []) : inHull rs (meanOf rs) = true := by
  have hlen : (0 : Rat) < (rs.length : Rat) := by
    have : 0 < rs.length := List.length_pos_of_ne_nil h
    positivity
  have hm : meanOf rs * (rs.length : Rat) = rs.sum := by
    rw [meanOf]; field_simp
  simp only [inHull, Bool.and_eq_true, List.any_eq_true, decide_eq_true_eq]
  constructor
  · by_contra hcon
    push Not at hcon
    have := sum_gt_of_all_gt (meanOf rs) rs h hcon
    linarith
  · by_contra hcon
    push Not at hcon
    have := sum_lt_of_all_lt (meanOf rs) rs h hcon
    linarith

/-- **slot_inv** — for EVERY finite reward history (any rationals, any prior): the count is the number of updates, the
    shape is `1 + n/2 > 0`, the rate never drops below the prior `10`, the variance estimate is positive, and after at
    least one update the mean is the arithmetic mean of the rewards seen, which lies in their hull. -/
theorem slot_inv (prior : Rat) (rs : List Rat) :
    (Slot.run prior rs).n = rs.length ∧
    (Slot.run prior rs).alpha = 1 + (rs.length : Rat) / 2 ∧ 0 < (Slot.run prior rs).alpha ∧
    10 ≤ (Slot.run prior rs).beta ∧ 0 < (Slot.run prior rs).v ∧
    (rs ≠ [] → (Slot.run prior rs).mu = meanOf rs ∧ inHull rs (Slot.run prior rs).mu = true) := by
  have hinv := Slot.run_inv prior rs
  have hn := Slot.run_n prior rs
  have ha : (Slot.run prior rs).alpha = 1 + (rs.length : Rat) / 2 := by rw [hinv.alpha_eq, hn]
  have hapos : 0 < (Slot.run prior rs).alpha := by rw [ha]; positivity
  refine ⟨hn, ha, hapos, hinv.beta_ge, ?_, ?_⟩
  · rw [hinv.v_eq]
    exact div_pos (by linarith [hinv.beta_ge]) (by linarith)
  · intro hne
    have hmu := Slot.run_mu_eq_mean prior rs hne
    exact ⟨hmu, by rw [hmu]; exact mean_inHull rs hne⟩

/-- the rate is non-decreasing along a history -/
theorem slot_beta_monotone (prior : Rat) (rs more : List Rat) :
    (Slot.run prior rs).beta ≤ (Slot.run prior (rs ++ more)).beta := by
  induction more using List.reverseRecOn with
  | nil => simp
  | append_singleton more r ih =>
    rw [← List.append_assoc, Slot.run_snoc]
    exact le_trans ih (Slot.beta_mono _ r)

/-- **sample_guard** — whatever non-negative number the gamma sampler returns, `sample()` calls the sampler with a
    positive shape and scale and hands a positive, finite variance to the normal sampler; a zero precision (or an
    untried slot) is replaced by `0.001`, i.e. variance `1000` -/
theorem sample_guard (prior : Rat) (rs : List Rat) (g : Rat) (hg : 0 ≤ g) :
    0 < ((Slot.run prior rs).sample g).shape ∧ 0 < ((Slot.run prior rs).sample g).scale ∧
    0 < ((Slot.run prior rs).sample g).variance ∧ ((Slot.run prior rs).sample g).mean = (Slot.run prior rs).mu ∧
    ((g = 0 ∨ rs = []) → ((Slot.run prior rs).sample g).variance = 1000) ∧
    ((g ≠ 0 ∧ rs ≠ []) → ((Slot.run prior rs).sample g).variance = 1 / g) := by
  obtain ⟨hn, _, hapos, hb, _, _⟩ := slot_inv prior rs
  have hn0 : (Slot.run prior rs).n = 0 ↔ rs = [] := by rw [hn]; exact List.length_eq_zero_iff
  refine ⟨hapos, ?_, ?_, rfl, ?_, ?_⟩
  · simp only [Slot.sample]; exact one_div_pos.mpr (by linarith)
  · simp only [Slot.sample]
    split
    · norm_num
    · rename_i hcon
      push Not at hcon
      exact one_div_pos.mpr (lt_of_le_of_ne hg (Ne.symm hcon.1))
  · intro h
    simp only [Slot.sample]
    rw [if_pos (by rcases h with h | h; exact Or.inl h; exact Or.inr (hn0.mpr h))]
    norm_num
  · intro h
    simp only [Slot.sample]
    rw [if_neg (by push Not; exact ⟨h.1, fun hc => h.2 (hn0.mp hc)⟩)]


/-! ### the rate is the prior plus half the squared deviations from the mean (Welford's update) -/

theorem sum_sq_dev_expand (c : Rat) : ∀ vs : List Rat,
    (vs.map (fun v => (v - c) * (v - c))).sum = (vs.map (fun v => v * v)).sum - 2 * c * vs.sum + (vs.length : Rat) * (c * c)
  | [] => by simp
  | v :: vs => by
    simp only [List.map_cons, List.sum_cons, List.length_cons, sum_sq_dev_expand c vs]
    push_cast; ring

theorem sqDev_eq (rs : List Rat) (h : rs ≠ []) :
    sqDev rs = (rs.map (fun v => v * v)).sum - rs.sum * rs.sum / (rs.length : Rat) := by
  have hlen : (rs.length : Rat) ≠ 0 := by
    have : 0 < rs.length := List.length_pos_of_ne_nil h
    positivity
  rw [sqDev, sum_sq_dev_expand, meanOf]
  field_simp
  ring

/-- **Welford** — for EVERY reward history the rate is `10 + ½ Σ (rᵢ − mean)²`: the variance estimate
    `v = β / (α + 1)` is the prior blended with the population variance of the rewards seen -/
theorem slot_beta_welford (prior : Rat) (rs : List Rat) :
    (Slot.run prior rs).beta = 10 + (if rs = [] then 0 else sqDev rs) / 2 := by
  induction rs using List.reverseRecOn with
  | nil => simp [Slot.run, Slot.init]
  | append_singleton rs r ih =>
    rw [Slot.run_snoc]
    have hn := Slot.run_n prior rs
    have hne : rs ++ [r] ≠ [] := by simp
    rw [if_neg hne, sqDev_eq _ hne]
    simp only [Slot.update, hn, ih]
    by_cases hrs : rs = []
    · subst hrs
      simp
    · rw [if_neg hrs, sqDev_eq _ hrs, Slot.run_mu_eq_mean prior rs hrs, meanOf]
      have hlen : (rs.length : Rat) ≠ 0 := by
        have : 0 < rs.length := List.length_pos_of_ne_nil hrs
        positivity
      have hlen1 : (rs.length : Rat) + 1 ≠ 0 := by positivity
      simp only [List.map_append, List.sum_append, List.map_cons, List.map_nil, List.sum_cons, List.sum_nil, add_zero,
        List.length_append, List.length_singleton]
      push_cast
      field_simp
      ring

theorem sqDev_nonneg (rs : List Rat) : 0 ≤ sqDev rs := by
  unfold sqDev
  generalize meanOf rs = c
  induction rs with
  | nil => simp
  | cons v vs ih =>
    simp only [List.map_cons, List.sum_cons]
    nlinarith [mul_self_nonneg (v - c)]

/-- non-vacuity: a concrete history (the rewards 1, 3, 5/2 after prior 0) -/
example : (Slot.run 0 [1, 3, 5 / 2]).mu = 13 / 6 ∧ (Slot.run 0 [1, 3, 5 / 2]).beta = 133 / 12 := by
  constructor <;> (simp [Slot.run, Slot.update, Slot.init]; norm_num)
example : inHull [1, 3, 5 / 2] (13 / 6) = true := by
  simp only [inHull, List.any_cons, List.any_nil, Bool.or_false, Bool.and_eq_true, Bool.or_eq_true, decide_eq_true_eq]
  norm_num

end C18
