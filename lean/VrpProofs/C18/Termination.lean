import VrpModel.C18
import Mathlib.Tactic.Positivity
import Mathlib.Tactic.Linarith
import Mathlib.Tactic.Ring
import Mathlib.Tactic.FieldSimp
import Mathlib.Algebra.Order.Field.Rat
/-!
# C18 — termination estimates, `TargetProximity`, coefficient of variation
-/
set_option linter.unusedSimpArgs false
set_option linter.unusedVariables false
set_option linter.unnecessarySeqFocus false
set_option linter.unreachableTactic false
set_option linter.unusedTactic false

namespace C18

/-! ### progress estimates -/

/-- **estimate_in_unit_interval (MaxGeneration)** — `limit > 0` is the arithmetic statement; the `limit = 0` branch of
    the model records that `f64::min(NaN or +∞, 1.)` is `1.` (checked on the real code by the harness) -/
theorem maxGen_estimate_in_unit_interval (limit generation : Nat) :
    0 ≤ maxGenEstimate limit generation ∧ maxGenEstimate limit generation ≤ 1 := by
  unfold maxGenEstimate minR
  split
  · norm_num
  · have : (0 : Rat) ≤ (generation : Rat) / (limit : Rat) := by positivity
    split
    · exact ⟨this, by assumption⟩
    · norm_num

/-- the estimate reaches `1` exactly when the criterion terminates, and equals `generation / limit` before -/
theorem maxGen_estimate_one_iff_stop (limit generation : Nat) (h : 0 < limit) :
    (maxGenEstimate limit generation = 1 ↔ maxGenStop limit generation = true) ∧
    (maxGenStop limit generation = false → maxGenEstimate limit generation = (generation : Rat) / (limit : Rat)) := by
  have hl : (0 : Rat) < (limit : Rat) := by exact_mod_cast h
  have hne : limit ≠ 0 := by omega
  unfold maxGenEstimate maxGenStop minR
  rw [if_neg hne]
  simp only [decide_eq_true_eq, decide_eq_false_iff_not]
  constructor
  · constructor
    · intro he
      split at he
      · rw [div_eq_one_iff_eq (ne_of_gt hl)] at he
        exact_mod_cast (le_of_eq he.symm)
      · rename_i hgt
        rw [div_le_one hl] at hgt
        push Not at hgt
        exact_mod_cast hgt.le
    · intro hle
      have : (limit : Rat) ≤ (generation : Rat) := by exact_mod_cast hle
      split
      · rename_i h1
        rw [div_le_one hl] at h1
        rw [div_eq_one_iff_eq (ne_of_gt hl)]; linarith
      · rfl
  · intro hlt
    have : (generation : Rat) < (limit : Rat) := by exact_mod_cast (by omega : generation < limit)
    rw [if_pos]
    rw [div_le_one hl]; linarith

theorem foldl_maxR_bounds (lo hi : Rat) : ∀ (es : List Rat) (e : Rat), lo ≤ e → e ≤ hi → (∀ x ∈ es, lo ≤ x ∧ x ≤ hi) →
    lo ≤ es.foldl maxR e ∧ es.foldl maxR e ≤ hi
  | [], e, h1, h2, _ => ⟨h1, h2⟩
  | x :: es, e, h1, h2, h => by
    simp only [List.foldl_cons]
    have hx := h x (by simp)
    apply foldl_maxR_bounds lo hi es
    · unfold maxR; split <;> linarith
    · unfold maxR; split <;> linarith
    · intro y hy; exact h y (by simp [hy])

theorem foldl_maxR_ge : ∀ (es : List Rat) (e : Rat), e ≤ es.foldl maxR e ∧ ∀ x ∈ es, x ≤ es.foldl maxR e
  | [], e => ⟨le_refl _, by simp⟩
  | x :: es, e => by
    simp only [List.foldl_cons]
    have ih := foldl_maxR_ge es (maxR e x)
    have h1 : e ≤ maxR e x := by unfold maxR; split <;> linarith
    have h2 : x ≤ maxR e x := by unfold maxR; split <;> linarith
    refine ⟨le_trans h1 ih.1, ?_⟩
    intro y hy
    simp only [List.mem_cons] at hy
    rcases hy with rfl | hy
    · exact le_trans h2 ih.1
    · exact ih.2 y hy

/-- **estimate_in_unit_interval (CompositeTermination)** — the composite estimate is the largest part estimate
    (`0` without parts), so it stays in `[0, 1]` whenever the parts do -/
theorem composite_estimate_in_unit_interval (es : List Rat) (h : ∀ e ∈ es, 0 ≤ e ∧ e ≤ 1) :
    0 ≤ compositeEstimate es ∧ compositeEstimate es ≤ 1 := by
  cases es with
  | nil => simp [compositeEstimate]
  | cons e es =>
    have he := h e (by simp)
    exact foldl_maxR_bounds 0 1 es e he.1 he.2 (fun x hx => h x (by simp [hx]))

theorem composite_estimate_is_upper_bound (es : List Rat) : ∀ e ∈ es, e ≤ compositeEstimate es := by
  cases es with
  | nil => simp
  | cons e0 es =>
    intro e he
    have := foldl_maxR_ge es e0
    simp only [List.mem_cons] at he
    rcases he with rfl | he
    · exact this.1
    · exact this.2 e he

/-- `MinVariation::estimate` and `TargetProximity::estimate` return the constant `0.`; a composite of `MaxGeneration`
    limits and such parts -/
theorem composite_of_maxgen_in_unit_interval (limits : List Nat) (zeros : Nat) (generation : Nat) :
    0 ≤ compositeEstimate (limits.map (fun l => maxGenEstimate l generation) ++ List.replicate zeros 0) ∧
    compositeEstimate (limits.map (fun l => maxGenEstimate l generation) ++ List.replicate zeros 0) ≤ 1 := by
  apply composite_estimate_in_unit_interval
  intro e he
  simp only [List.mem_append, List.mem_map, List.mem_replicate] at he
  rcases he with ⟨l, _, rfl⟩ | ⟨_, rfl⟩
  · exact maxGen_estimate_in_unit_interval l generation
  · norm_num

theorem compositeStop_iff (parts : List Bool) : compositeStop parts = true ↔ true ∈ parts := by
  simp [compositeStop]

example : maxGenEstimate 8 2 = 1 / 4 ∧ maxGenEstimate 8 20 = 1 ∧ compositeEstimate [1 / 4, 0, 3 / 4] = 3 / 4 := by decide +kernel

/-! ### target proximity -/

theorem relDistSq_nonneg : ∀ (a b : List Rat), 0 ≤ relDistSq a b
  | [], _ => by simp [relDistSq]
  | _ :: _, [] => by simp [relDistSq]
  | x :: as, y :: bs => by
    simp only [relDistSq]
    have := relDistSq_nonneg as bs
    have h2 : ∀ c : Rat, 0 ≤ c * c := fun c => mul_self_nonneg c
    split <;> nlinarith [h2 (absR (x - y) / maxR (absR x) (absR y))]

/-- `TargetProximity` stops exactly when the root of the summed squared relative changes is below the threshold:
    for every `d ≥ 0` with `d² = Σ change²` (the value `relative_distance` returns, up to rounding) -/
theorem targetStop_iff_distance_below (target fitness : List Rat) (th d : Rat) (hd : 0 ≤ d)
    (hdd : d * d = relDistSq target fitness) :
    targetStop target th (some fitness) = true ↔ d < th := by
  simp only [targetStop, Bool.and_eq_true, decide_eq_true_eq, ← hdd]
  constructor
  · rintro ⟨h0, h1⟩; nlinarith
  · intro h; exact ⟨by linarith, by nlinarith⟩

theorem targetStop_none (target : List Rat) (th : Rat) : targetStop target th none = false := rfl

example : targetStop [100, 10] (1 / 2) (some [50, 10]) = false ∧ targetStop [100, 10] (3 / 4) (some [50, 10]) = true := by
  decide +kernel

/-! ### coefficient of variation -/

theorem sum_map_sub_const (c : Rat) : ∀ vs : List Rat, (vs.map (fun v => v - c)).sum = vs.sum - (vs.length : Rat) * c
  | [] => by simp
  | v :: vs => by
    simp only [List.map_cons, List.sum_cons, List.length_cons, sum_map_sub_const c vs]
    push_cast; ring

theorem sum_map_sq_dev (c : Rat) : ∀ vs : List Rat,
    (vs.map (fun v => (v - c) * (v - c))).sum = (vs.map (fun v => v * v)).sum - 2 * c * vs.sum + (vs.length : Rat) * (c * c)
  | [] => by simp
  | v :: vs => by
    simp only [List.map_cons, List.sum_cons, List.length_cons, sum_map_sq_dev c vs]
    push_cast; ring

theorem sum_sq_nonneg (c : Rat) : ∀ vs : List Rat, 0 ≤ (vs.map (fun v => (v - c) * (v - c))).sum
  | [] => by simp
  | v :: vs => by
    simp only [List.map_cons, List.sum_cons]
    have := sum_sq_nonneg c vs
    nlinarith [mul_self_nonneg (v - c)]

theorem meanSlice_eq (vs : List Rat) (h : vs ≠ []) : meanSlice vs = vs.sum / (vs.length : Rat) := by
  unfold meanSlice
  rw [if_neg]
  simpa using h

/-- the code's two-accumulator formula is the population variance: the second accumulator `Σ (v - mean)` vanishes -/
theorem varianceMean_eq (vs : List Rat) (h : vs ≠ []) :
    (varianceMean vs).2 = vs.sum / (vs.length : Rat) ∧
    (varianceMean vs).1 = (vs.map (fun v => v * v)).sum / (vs.length : Rat) -
      (vs.sum / (vs.length : Rat)) * (vs.sum / (vs.length : Rat)) ∧
    0 ≤ (varianceMean vs).1 := by
  have hn : (0 : Rat) < (vs.length : Rat) := by
    have : 0 < vs.length := List.length_pos_of_ne_nil h
    positivity
  have hm := meanSlice_eq vs h
  have hsecond : (vs.map (fun v => v - meanSlice vs)).sum = 0 := by
    rw [sum_map_sub_const, hm]; field_simp; ring
  refine ⟨hm, ?_, ?_⟩
  · simp only [varianceMean, hsecond]
    rw [sum_map_sq_dev, hm]
    field_simp
    ring
  · simp only [varianceMean, hsecond]
    have := sum_sq_nonneg (meanSlice vs) vs
    have h0 : (0 : Rat) * 0 / (vs.length : Rat) = 0 := by simp
    rw [h0, sub_zero]
    exact div_nonneg this hn.le

/-- `cvGt` decides `sqrt(variance) / mean > threshold` without taking the root: for every `σ ≥ 0` with `σ² = variance` -/
theorem cvGt_iff_sqrt (vs : List Rat) (th σ : Rat) (hσ : 0 ≤ σ) (hσσ : σ * σ = (varianceMean vs).1)
    (hm : (varianceMean vs).2 ≠ 0) : cvGt vs th = true ↔ th < σ / (varianceMean vs).2 := by
  unfold cvGt
  simp only [if_neg hm]
  rcases lt_or_gt_of_ne hm with hneg | hpos
  · rw [if_neg (by linarith)]
    rw [lt_div_iff_of_neg hneg]
    split
    · rename_i hth
      simp only [decide_eq_true_eq, ← hσσ]
      have : 0 < th * (varianceMean vs).2 := mul_pos_of_neg_of_neg hth hneg
      constructor
      · intro h; nlinarith
      · intro h; nlinarith
    · rename_i hth
      push Not at hth
      constructor
      · intro h; cases h
      · intro h
        have : th * (varianceMean vs).2 ≤ 0 := mul_nonpos_of_nonneg_of_nonpos hth hneg.le
        linarith
  · rw [if_pos hpos, lt_div_iff₀ hpos]
    split
    · rename_i hth
      have : th * (varianceMean vs).2 < 0 := mul_neg_of_neg_of_pos hth hpos
      constructor
      · intro _; linarith
      · intro _; rfl
    · rename_i hth
      push Not at hth
      simp only [decide_eq_true_eq, ← hσσ]
      have : 0 ≤ th * (varianceMean vs).2 := mul_nonneg hth hpos.le
      constructor
      · intro h; nlinarith
      · intro h; nlinarith

/-- for a non-negative threshold `cv > threshold` is the negation of the SPEC "population variance ≤ (th·mean)²
    (mean > 0), anything (mean ≤ 0: the coefficient is non-positive, or `0` by the `mean = 0` convention)" -/
theorem cvGt_eq_not_spec (vs : List Rat) (th : Rat) (hth : 0 ≤ th) : cvGt vs th = !cvLeSpec vs th := by
  by_cases h : vs = []
  · subst h
    simp [cvGt, cvLeSpec, varianceMean, meanSlice]
    linarith
  · obtain ⟨hmean, hvar, _⟩ := varianceMean_eq vs h
    have hne : vs.isEmpty = false := by simpa using h
    unfold cvGt cvLeSpec
    simp only [hne, hmean, hvar]
    by_cases h0 : vs.sum / (vs.length : Rat) = 0
    · simp [h0]; linarith
    · rw [if_neg h0]
      rcases lt_or_gt_of_ne h0 with hneg | hpos
      · rw [if_neg (by linarith), if_neg (by linarith)]
        simp [hneg.le]
      · rw [if_pos hpos, if_neg (by linarith)]
        have : ¬ vs.sum / (vs.length : Rat) ≤ 0 := by linarith
        simp only [Bool.false_eq_true, if_false, this]
        by_cases hc : th * th * (vs.sum / ↑vs.length * (vs.sum / ↑vs.length)) <
            (vs.map (fun v => v * v)).sum / ↑vs.length - vs.sum / ↑vs.length * (vs.sum / ↑vs.length)
        · simp [hc]; linarith
        · simp [hc]; linarith

example : cvGt [1000, 500, 1] (1 / 100) = true ∧ cvGt [7, 7, 7] 0 = false ∧ cvLeSpec [1, 3] (1 / 2) = true := by
  decide +kernel

end C18
